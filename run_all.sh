#!/bin/sh
# runs every registered check (quick by default) on the current tree; used before committing evidence
cd "$(dirname "$0")"
tier=${1:-quick}
rc=0
for p in C01 C02 C03 C04 C05 C06 C07 C08 C09 C10 C11 C12 C13 C14 C15 C16 C17; do
  ./check $p $tier | tail -3 || rc=1
done
exit $rc
