module verifextract

go 1.24
