// verifextract: regenerates, from /repo's current sources,
//
//	(1) lean/Originium/Generated/Consts.lean — the constants and literal layout facts the Lean model depends on;
//	(2) the synchronisation / file-operation skeleton of every function (ordered lock, channel, atomic,
//	    goroutine, file-system and package-local call events), compared by `check` with golden/skeleton.txt,
//	    the skeleton the concurrent and crash models were written against.
//
// It is deliberately tiny: go/parser + go/ast, no type checking.
package main

import (
	"flag"
	"fmt"
	"go/ast"
	"go/parser"
	"go/printer"
	"go/token"
	"os"
	"path/filepath"
	"sort"
	"strconv"
	"strings"
)

var fset = token.NewFileSet()

type pkgFiles struct {
	dir   string
	files []*ast.File
}

func parseDir(dir string) pkgFiles {
	ents, err := os.ReadDir(dir)
	if err != nil {
		fatal(err)
	}
	p := pkgFiles{dir: dir}
	for _, e := range ents {
		n := e.Name()
		if e.IsDir() || !strings.HasSuffix(n, ".go") || strings.HasSuffix(n, "_test.go") || strings.HasPrefix(n, "verif") {
			continue
		}
		f, err := parser.ParseFile(fset, filepath.Join(dir, n), nil, 0)
		if err != nil {
			fatal(err)
		}
		p.files = append(p.files, f)
	}
	return p
}

func fatal(a ...any) {
	fmt.Fprintln(os.Stderr, a...)
	os.Exit(1)
}

// ---------- constants ----------

type constEnv map[string]ast.Expr

func collectConsts(p pkgFiles) constEnv {
	env := constEnv{}
	for _, f := range p.files {
		for _, d := range f.Decls {
			g, ok := d.(*ast.GenDecl)
			if !ok || (g.Tok != token.CONST && g.Tok != token.VAR) {
				continue
			}
			for _, s := range g.Specs {
				vs := s.(*ast.ValueSpec)
				for i, n := range vs.Names {
					if i < len(vs.Values) {
						env[n.Name] = vs.Values[i]
					}
				}
			}
		}
	}
	return env
}

func evalInt(env constEnv, e ast.Expr) (uint64, bool) {
	switch x := e.(type) {
	case *ast.BasicLit:
		if x.Kind == token.INT {
			v, err := strconv.ParseUint(x.Value, 0, 64)
			return v, err == nil
		}
	case *ast.ParenExpr:
		return evalInt(env, x.X)
	case *ast.Ident:
		if v, ok := env[x.Name]; ok {
			return evalInt(env, v)
		}
	case *ast.SelectorExpr:
		if id, ok := x.X.(*ast.Ident); ok && id.Name == "math" {
			switch x.Sel.Name {
			case "MaxUint16":
				return 65535, true
			case "MaxUint32":
				return 1<<32 - 1, true
			case "MaxUint8":
				return 255, true
			case "MaxInt64":
				return 1<<63 - 1, true
			}
		}
	case *ast.BinaryExpr:
		a, ok1 := evalInt(env, x.X)
		b, ok2 := evalInt(env, x.Y)
		if ok1 && ok2 {
			switch x.Op {
			case token.ADD:
				return a + b, true
			case token.SUB:
				return a - b, true
			case token.MUL:
				return a * b, true
			case token.SHL:
				return a << b, true
			}
		}
	}
	return 0, false
}

func evalString(env constEnv, e ast.Expr) (string, bool) {
	switch x := e.(type) {
	case *ast.BasicLit:
		if x.Kind == token.STRING {
			s, err := strconv.Unquote(x.Value)
			return s, err == nil
		}
	case *ast.Ident:
		if v, ok := env[x.Name]; ok {
			return evalString(env, v)
		}
	}
	return "", false
}

func findFunc(p pkgFiles, recv, name string) *ast.FuncDecl {
	for _, f := range p.files {
		for _, d := range f.Decls {
			fd, ok := d.(*ast.FuncDecl)
			if !ok || fd.Name.Name != name {
				continue
			}
			r := ""
			if fd.Recv != nil && len(fd.Recv.List) > 0 {
				r = typeName(fd.Recv.List[0].Type)
			}
			if r == recv {
				return fd
			}
		}
	}
	return nil
}

func typeName(e ast.Expr) string {
	switch x := e.(type) {
	case *ast.StarExpr:
		return typeName(x.X)
	case *ast.Ident:
		return x.Name
	}
	return "?"
}

func exprStr(e ast.Expr) string {
	switch x := e.(type) {
	case *ast.Ident:
		return x.Name
	case *ast.SelectorExpr:
		return exprStr(x.X) + "." + x.Sel.Name
	case *ast.StarExpr:
		return "*" + exprStr(x.X)
	case *ast.UnaryExpr:
		return x.Op.String() + exprStr(x.X)
	case *ast.CallExpr:
		return exprStr(x.Fun) + "()"
	case *ast.IndexExpr:
		return exprStr(x.X) + "[]"
	case *ast.BasicLit:
		return x.Value
	case *ast.ParenExpr:
		return exprStr(x.X)
	case *ast.TypeAssertExpr:
		return exprStr(x.X) + ".(T)"
	case *ast.FuncLit:
		return "func"
	}
	return "_"
}

// widths of the integer conversions handed to w.Write inside a function: uint16(...) -> 2, uint64(...) -> 8 ...
func writeWidths(fd *ast.FuncDecl) []int {
	var ws []int
	if fd == nil {
		return ws
	}
	ast.Inspect(fd.Body, func(n ast.Node) bool {
		c, ok := n.(*ast.CallExpr)
		if !ok {
			return true
		}
		if id, ok := c.Fun.(*ast.Ident); ok && len(c.Args) == 1 {
			switch id.Name {
			case "uint16":
				ws = append(ws, 2)
			case "uint32":
				ws = append(ws, 4)
			case "uint64":
				ws = append(ws, 8)
			case "uint8":
				ws = append(ws, 1)
			}
		}
		return true
	})
	return ws
}

// number of `w.Write(binary.LittleEndian, …)` calls in a function
func countErrWrites(fd *ast.FuncDecl) (n int, order string) {
	if fd == nil {
		return 0, ""
	}
	ast.Inspect(fd.Body, func(nd ast.Node) bool {
		c, ok := nd.(*ast.CallExpr)
		if !ok {
			return true
		}
		if s, ok := c.Fun.(*ast.SelectorExpr); ok && s.Sel.Name == "Write" && len(c.Args) == 2 {
			if o, ok := c.Args[0].(*ast.SelectorExpr); ok {
				n++
				order = o.Sel.Name
			}
		}
		return true
	})
	return
}

// integer literal arguments of calls named `fn` inside a function (e.g. Seek(-40, …), make([]byte, 40))
func litArgs(fd *ast.FuncDecl, fn string) []int64 {
	var res []int64
	if fd == nil {
		return res
	}
	ast.Inspect(fd.Body, func(n ast.Node) bool {
		c, ok := n.(*ast.CallExpr)
		if !ok {
			return true
		}
		name := ""
		switch f := c.Fun.(type) {
		case *ast.Ident:
			name = f.Name
		case *ast.SelectorExpr:
			name = f.Sel.Name
		}
		if name != fn {
			return true
		}
		for _, a := range c.Args {
			neg := false
			if u, ok := a.(*ast.UnaryExpr); ok && u.Op == token.SUB {
				neg = true
				a = u.X
			}
			if b, ok := a.(*ast.BasicLit); ok && b.Kind == token.INT {
				v, _ := strconv.ParseInt(b.Value, 0, 64)
				if neg {
					v = -v
				}
				res = append(res, v)
			}
		}
		return true
	})
	return res
}

func stringLits(fd *ast.FuncDecl) []string {
	var res []string
	if fd == nil {
		return res
	}
	ast.Inspect(fd.Body, func(n ast.Node) bool {
		if b, ok := n.(*ast.BasicLit); ok && b.Kind == token.STRING {
			s, _ := strconv.Unquote(b.Value)
			res = append(res, s)
		}
		return true
	})
	return res
}

func leanStr(s string) string { return strconv.Quote(s) }

func genConsts(repo, out string) {
	root := parseDir(repo)
	tab := parseDir(filepath.Join(repo, "table"))
	wm := parseDir(filepath.Join(repo, "pkg", "watermark"))
	walp := parseDir(filepath.Join(repo, "wal"))
	var b strings.Builder
	b.WriteString("/-! GENERATED by /verif/extract from /repo's current sources on every check run. Do not edit.\n")
	b.WriteString("    The model imports these values; `Originium/Model/ConstsTie.lean` states what the model relies on. -/\n")
	b.WriteString("namespace Consts\n\n")
	emitNat := func(name string, v uint64, ok bool, src string) {
		if !ok {
			fmt.Fprintf(&b, "-- %s: NOT FOUND in %s\ndef %s : Nat := 0\ndef %s_found : Bool := false\n\n", name, src, name, name)
			return
		}
		fmt.Fprintf(&b, "/-- %s -/\ndef %s : Nat := %d\ndef %s_found : Bool := true\n\n", src, name, v, name)
	}
	tenv := collectConsts(tab)
	v, ok := evalInt(tenv, tenv["_magic"])
	emitNat("magic", v, ok && tenv["_magic"] != nil, "table/footer.go _magic")
	// footer: number of 8 byte fields written / read, and the literal length used by recovery
	nw, order := countErrWrites(findFunc(tab, "Footer", "Encode"))
	emitNat("footerFieldsWritten", uint64(nw), nw > 0, "table/footer.go Footer.Encode: number of w.Write calls")
	fmt.Fprintf(&b, "def footerByteOrder : String := %s\n\n", leanStr(order))
	rec := findFunc(root, "levelManager", "recover")
	seeks := litArgs(rec, "Seek")
	var fseek uint64
	fok := false
	for _, s := range seeks {
		if s < 0 {
			fseek, fok = uint64(-s), true
		}
	}
	emitNat("footerSeekBack", fseek, fok, "level.go levelManager.recover: fd.Seek(-N, io.SeekEnd)")
	mk := litArgs(rec, "make")
	var fbuf uint64
	bok := false
	for _, s := range mk {
		if s > 0 {
			fbuf, bok = uint64(s), true
		}
	}
	emitNat("footerReadLen", fbuf, bok, "level.go levelManager.recover: make([]byte, N) for the footer")
	// data block field widths in order of the conversions in Data.Encode
	dw := writeWidths(findFunc(tab, "Data", "Encode"))
	fmt.Fprintf(&b, "/-- table/data.go Data.Encode: widths (bytes) of the integer fields written per entry, in source order -/\ndef dataFieldWidths : List Nat := %s\n\n", natList(dw))
	iw := writeWidths(findFunc(tab, "Index", "Encode"))
	fmt.Fprintf(&b, "/-- table/index.go Index.Encode: widths of the integer conversions, in source order -/\ndef indexFieldWidths : List Nat := %s\n\n", natList(iw))
	wenv := collectConsts(wm)
	v, ok = evalInt(wenv, wenv["_markCBufferSize"])
	emitNat("markCBufferSize", v, ok && wenv["_markCBufferSize"] != nil, "pkg/watermark _markCBufferSize")
	renv := collectConsts(root)
	v, ok = evalInt(renv, renv["MaxKeySize"])
	emitNat("maxKeySize", v, ok && renv["MaxKeySize"] != nil, "txn.go MaxKeySize")
	v, ok = evalInt(renv, renv["MaxValueSize"])
	emitNat("maxValueSize", v, ok && renv["MaxValueSize"] != nil, "txn.go MaxValueSize")
	s, sok := evalString(renv, renv["_tmpSuffix"])
	fmt.Fprintf(&b, "/-- level.go _tmpSuffix (found: %v) -/\ndef tmpSuffix : String := %s\n\n", sok && renv["_tmpSuffix"] != nil, leanStr(s))
	fn := stringLits(findFunc(root, "levelManager", "fileName"))
	fmt.Fprintf(&b, "/-- level.go levelManager.fileName: string literals -/\ndef tableNameFormat : List String := [%s]\n\n", strList(fn))
	wc := stringLits(findFunc(walp, "", "Create"))
	fmt.Fprintf(&b, "/-- wal/wal.go Create: string literals -/\ndef walNameFormat : List String := [%s]\n\n", strList(wc))
	// wal record length prefix: `n := int64(len(data))`
	ww := findFunc(walp, "WAL", "Write")
	has64 := false
	if ww != nil {
		ast.Inspect(ww.Body, func(n ast.Node) bool {
			if c, ok := n.(*ast.CallExpr); ok {
				if id, ok := c.Fun.(*ast.Ident); ok && id.Name == "int64" {
					has64 = true
				}
			}
			return true
		})
	}
	w := uint64(0)
	if has64 {
		w = 8
	}
	emitNat("walLenPrefixBytes", w, has64, "wal/wal.go WAL.Write: n := int64(len(data))")
	// state constants (iota order)
	states := []string{}
	for _, f := range root.files {
		for _, d := range f.Decls {
			g, ok := d.(*ast.GenDecl)
			if !ok || g.Tok != token.CONST {
				continue
			}
			for _, sp := range g.Specs {
				vs := sp.(*ast.ValueSpec)
				for _, n := range vs.Names {
					if strings.HasPrefix(n.Name, "State") || (n.Name == "_" && len(states) == 0 && vs.Type != nil && exprStr(vs.Type) == "State") {
						states = append(states, n.Name)
					}
				}
			}
		}
	}
	fmt.Fprintf(&b, "/-- db.go State constants in iota order -/\ndef dbStates : List String := [%s]\n\n", strList(states))
	b.WriteString("end Consts\n")
	if err := os.WriteFile(out, []byte(b.String()), 0644); err != nil {
		fatal(err)
	}
}

func natList(xs []int) string {
	var ss []string
	for _, x := range xs {
		ss = append(ss, strconv.Itoa(x))
	}
	return "[" + strings.Join(ss, ", ") + "]"
}

func strList(xs []string) string {
	var ss []string
	for _, x := range xs {
		ss = append(ss, leanStr(x))
	}
	return strings.Join(ss, ", ")
}

// ---------- skeleton ----------

type skel struct {
	local map[string]bool // names of functions / methods declared in the scanned packages
	ev    []string
}

var lockMethods = map[string]bool{"Lock": true, "Unlock": true, "RLock": true, "RUnlock": true}
var fsFuncs = map[string]bool{"os.OpenFile": true, "os.Remove": true, "os.Rename": true, "os.Open": true, "os.MkdirAll": true, "os.ReadDir": true, "os.Stat": true}
var fdMethods = map[string]bool{"Sync": true, "Close": true, "Seek": true, "Read": true, "ReadFrom": true}
var atomicFns = map[string]bool{"StoreUint32": true, "LoadUint32": true, "CompareAndSwapUint32": true, "AddUint32": true}
var wmMethods = map[string]bool{"Begin": true, "Done": true, "DoneUntil": true, "WaitForMark": true, "Stop": true}

func (s *skel) emit(e string) { s.ev = append(s.ev, e) }

func (s *skel) call(c *ast.CallExpr, prefix string) {
	// arguments first (evaluation order)
	for _, a := range c.Args {
		s.expr(a)
	}
	switch f := c.Fun.(type) {
	case *ast.SelectorExpr:
		s.expr(f.X)
		recv := exprStr(f.X)
		full := recv + "." + f.Sel.Name
		switch {
		case lockMethods[f.Sel.Name]:
			s.emit(prefix + f.Sel.Name + "(" + recv + ")")
		case fsFuncs[full]:
			s.emit(prefix + "fs:" + full)
		case recv == "vhook":
			op := ""
			if len(c.Args) > 0 {
				if b, ok := c.Args[0].(*ast.BasicLit); ok {
					op = b.Value
				}
			}
			s.emit(prefix + "hook:" + f.Sel.Name + op)
		case recv == "atomic" && atomicFns[f.Sel.Name]:
			s.emit(prefix + "atomic:" + f.Sel.Name)
		case strings.HasSuffix(recv, "doneUntil") && (f.Sel.Name == "Store" || f.Sel.Name == "Load"):
			s.emit(prefix + "atomic:doneUntil." + f.Sel.Name)
		case recv == "binary" && f.Sel.Name == "Write" && len(c.Args) > 0 && strings.HasSuffix(exprStr(c.Args[0]), "fd"):
			s.emit(prefix + "fs:fd.Write")
		case strings.HasSuffix(recv, "fd") && (fdMethods[f.Sel.Name] || f.Sel.Name == "Write"):
			s.emit(prefix + "fs:fd." + f.Sel.Name)
		case (strings.HasSuffix(recv, "Mark") || strings.HasSuffix(recv, "readMark") || strings.HasSuffix(recv, "commitMark")) && wmMethods[f.Sel.Name]:
			s.emit(prefix + "wm:" + recv + "." + f.Sel.Name)
		case strings.HasSuffix(recv, "wal") || recv == "l":
			s.emit(prefix + "wal:" + f.Sel.Name)
		case strings.HasSuffix(recv, "skiplist"):
			s.emit(prefix + "sl:" + f.Sel.Name)
		case strings.HasSuffix(recv, "immutables"):
			s.emit(prefix + "imm:" + f.Sel.Name)
		case strings.Contains(recv, "levels["):
			s.emit(prefix + "lv:" + f.Sel.Name)
		case recv == "bufferpool.Pool":
			s.emit(prefix + "pool:" + f.Sel.Name)
		case recv == "wg" || strings.HasSuffix(recv, ".wg"):
			s.emit(prefix + "wg:" + f.Sel.Name)
		case s.local[f.Sel.Name] && recv != "logger" && !strings.HasSuffix(recv, "logger") && recv != "types" && recv != "utils" && recv != "fmt" && recv != "strings" && recv != "path" && recv != "binary" && recv != "heap" && recv != "slices" && recv != "errors" && recv != "time" && recv != "filepath" && recv != "strconv" && recv != "io" && recv != "bytes" && recv != "os":
			s.emit(prefix + "call:" + f.Sel.Name)
		}
	case *ast.Ident:
		switch {
		case f.Name == "close" && len(c.Args) == 1:
			s.emit(prefix + "close(" + exprStr(c.Args[0]) + ")")
		case f.Name == "panic":
			s.emit(prefix + "panic")
		case s.local[f.Name]:
			s.emit(prefix + "call:" + f.Name)
		}
	case *ast.FuncLit:
		s.block(f.Body)
	}
}

func (s *skel) expr(e ast.Expr) {
	switch x := e.(type) {
	case nil:
	case *ast.CallExpr:
		s.call(x, "")
	case *ast.UnaryExpr:
		s.expr(x.X)
		if x.Op == token.ARROW {
			s.emit("recv(" + exprStr(x.X) + ")")
		}
	case *ast.BinaryExpr:
		s.expr(x.X)
		s.expr(x.Y)
	case *ast.ParenExpr:
		s.expr(x.X)
	case *ast.SelectorExpr:
		s.expr(x.X)
	case *ast.IndexExpr:
		s.expr(x.X)
		s.expr(x.Index)
	case *ast.StarExpr:
		s.expr(x.X)
	case *ast.TypeAssertExpr:
		s.expr(x.X)
	case *ast.CompositeLit:
		for _, el := range x.Elts {
			s.expr(el)
		}
	case *ast.KeyValueExpr:
		s.expr(x.Value)
	case *ast.FuncLit:
		s.emit("funclit{")
		s.block(x.Body)
		s.emit("}")
	case *ast.SliceExpr:
		s.expr(x.X)
	}
}

// wrap emits open/close markers only if something happened in between
func (s *skel) wrap(open string, f func()) {
	n := len(s.ev)
	s.emit(open)
	f()
	if len(s.ev) == n+1 {
		s.ev = s.ev[:n]
		return
	}
	s.emit("}")
}

func (s *skel) block(b *ast.BlockStmt) {
	if b == nil {
		return
	}
	for _, st := range b.List {
		s.stmt(st)
	}
}

func (s *skel) stmt(st ast.Stmt) {
	switch x := st.(type) {
	case *ast.ExprStmt:
		s.expr(x.X)
	case *ast.AssignStmt:
		for _, r := range x.Rhs {
			s.expr(r)
		}
		for _, l := range x.Lhs {
			// writes to shared fields the models care about
			ls := exprStr(l)
			if ls == "db.memtable" || ls == "o.nextTs" || ls == "o.committedTxns" || ls == "o.lastCleanUpTs" || ls == "lm.levels" || ls == "w.fd" {
				s.emit("write(" + ls + ")")
			}
		}
	case *ast.IncDecStmt:
		ls := exprStr(x.X)
		if ls == "o.nextTs" {
			s.emit("write(" + ls + ")")
		}
	case *ast.SendStmt:
		s.expr(x.Value)
		s.emit("send(" + exprStr(x.Chan) + ")")
	case *ast.GoStmt:
		s.emit("go:" + exprStr(x.Call.Fun))
	case *ast.DeferStmt:
		if fl, ok := x.Call.Fun.(*ast.FuncLit); ok {
			s.wrap("defer{", func() { s.block(fl.Body) })
		} else {
			s.call(x.Call, "defer ")
		}
	case *ast.ReturnStmt:
		for _, r := range x.Results {
			s.expr(r)
			// does an encoder hand out the bytes of a (pooled) buffer or a copy of them?
			if c, ok := r.(*ast.CallExpr); ok {
				fn := exprStr(c.Fun)
				if fn == "bytes.Clone" {
					s.emit("ret:clone")
				} else if strings.HasSuffix(fn, ".Bytes") {
					s.emit("ret:bufferBytes")
				}
			}
		}
		s.emit("return")
	case *ast.IfStmt:
		if x.Init != nil {
			s.stmt(x.Init)
		}
		s.expr(x.Cond)
		s.wrap("if{", func() { s.block(x.Body) })
		if x.Else != nil {
			s.wrap("else{", func() { s.stmt(x.Else) })
		}
	case *ast.ForStmt:
		if x.Init != nil {
			s.stmt(x.Init)
		}
		s.wrap("for{", func() {
			s.expr(x.Cond)
			s.block(x.Body)
			if x.Post != nil {
				s.stmt(x.Post)
			}
		})
	case *ast.RangeStmt:
		s.expr(x.X)
		s.wrap("for{", func() { s.block(x.Body) })
	case *ast.BlockStmt:
		s.block(x)
	case *ast.SelectStmt:
		s.emit("select{")
		for _, c := range x.Body.List {
			cc := c.(*ast.CommClause)
			if cc.Comm == nil {
				s.emit("default:")
			} else {
				s.emit("case:")
				s.stmt(cc.Comm)
			}
			for _, b := range cc.Body {
				s.stmt(b)
			}
		}
		s.emit("}")
	case *ast.SwitchStmt:
		if x.Init != nil {
			s.stmt(x.Init)
		}
		s.expr(x.Tag)
		s.wrap("switch{", func() {
			for _, c := range x.Body.List {
				cc := c.(*ast.CaseClause)
				for _, e := range cc.List {
					s.expr(e)
				}
				s.wrap("case{", func() {
					for _, b := range cc.Body {
						s.stmt(b)
					}
				})
			}
		})
	case *ast.LabeledStmt:
		s.stmt(x.Stmt)
	case *ast.BranchStmt:
		if x.Tok == token.BREAK || x.Tok == token.CONTINUE {
			l := ""
			if x.Label != nil {
				l = " " + x.Label.Name
			}
			s.emit(x.Tok.String() + l)
		}
	case *ast.DeclStmt:
		if g, ok := x.Decl.(*ast.GenDecl); ok {
			for _, sp := range g.Specs {
				if vs, ok := sp.(*ast.ValueSpec); ok {
					for _, v := range vs.Values {
						s.expr(v)
					}
				}
			}
		}
	}
}

// `return` markers that are followed by nothing relevant are noise: drop trailing "return" and
// returns inside blocks that contain nothing else
func tidy(ev []string) []string {
	var out []string
	for i, e := range ev {
		if e == "return" {
			// keep a return only if it is inside a block and an event precedes it in the function
			if i == len(ev)-1 {
				continue
			}
		}
		out = append(out, e)
	}
	return out
}

func genSkeleton(repo, out string) {
	dirs := []string{".", "wal", "pkg/watermark", "pkg/bufferpool", "table", "pkg/kway", "pkg/filter", "pkg/skiplist"}
	var pkgs []pkgFiles
	local := map[string]bool{}
	for _, d := range dirs {
		p := parseDir(filepath.Join(repo, d))
		pkgs = append(pkgs, p)
		for _, f := range p.files {
			for _, dd := range f.Decls {
				if fd, ok := dd.(*ast.FuncDecl); ok {
					local[fd.Name.Name] = true
				}
			}
		}
	}
	// names that are too generic to be tracked as package-local calls
	for _, n := range []string{"Len", "Less", "Swap", "Push", "Pop", "Error", "String", "Read", "Write", "Get", "Put", "New", "Reset", "Size", "Add", "Contains", "Encode", "Decode", "Search", "Scan", "All", "Set", "Delete", "LowerBound", "Version", "Close", "Open", "Create", "Stop", "Begin", "Done", "DoneUntil", "WaitForMark", "State", "Value", "Merge"} {
		delete(local, n)
	}
	var lines []string
	for i, p := range pkgs {
		for _, f := range p.files {
			for _, dd := range f.Decls {
				fd, ok := dd.(*ast.FuncDecl)
				if !ok || fd.Body == nil {
					continue
				}
				name := fd.Name.Name
				if fd.Recv != nil && len(fd.Recv.List) > 0 {
					name = typeName(fd.Recv.List[0].Type) + "." + name
				}
				if dirs[i] != "." {
					name = dirs[i] + ":" + name
				}
				s := &skel{local: local}
				s.block(fd.Body)
				ev := tidy(s.ev)
				// functions without synchronisation, channel, atomic, goroutine or fs events are omitted
				interesting := false
				for _, e := range ev {
					if !strings.HasPrefix(e, "call:") && e != "return" && !strings.HasSuffix(e, "{") && e != "}" && e != "panic" && !strings.HasPrefix(e, "break") && !strings.HasPrefix(e, "continue") {
						interesting = true
					}
				}
				if !interesting {
					continue
				}
				lines = append(lines, "func "+name+": "+strings.Join(ev, " "))
			}
		}
	}
	sort.Strings(lines)
	if err := os.WriteFile(out, []byte(strings.Join(lines, "\n")+"\n"), 0644); err != nil {
		fatal(err)
	}
}

// ---------- bodies: the normalised source of every function the models are hand translations of ----------

// genBodies writes, per top-level function / method / var / const declaration of the modelled packages,
// its source without comments in gofmt form. The check compares it with the golden copy the models
// were written against: a model is only as current as the source it translates.
func genBodies(repo, out string) {
	dirs := []string{".", "wal", "table", "types", "utils", "pkg/watermark", "pkg/bufferpool", "pkg/kway", "pkg/filter", "pkg/skiplist"}
	var blocks []string
	for _, d := range dirs {
		p := parseDir(filepath.Join(repo, d))
		for _, f := range p.files {
			for _, dd := range f.Decls {
				var key string
				switch x := dd.(type) {
				case *ast.FuncDecl:
					key = x.Name.Name
					if x.Recv != nil && len(x.Recv.List) > 0 {
						key = typeName(x.Recv.List[0].Type) + "." + key
					}
				case *ast.GenDecl:
					if x.Tok != token.CONST && x.Tok != token.VAR {
						continue
					}
					var names []string
					for _, sp := range x.Specs {
						if vs, ok := sp.(*ast.ValueSpec); ok {
							for _, n := range vs.Names {
								names = append(names, n.Name)
							}
						}
					}
					if len(names) == 0 {
						continue
					}
					key = x.Tok.String() + ":" + strings.Join(names, ",")
				default:
					continue
				}
				if fd, ok := dd.(*ast.FuncDecl); ok && fd.Body != nil {
					stripLogging(fd.Body)
				}
				var sb strings.Builder
				cfg := printer.Config{Mode: printer.UseSpaces | printer.TabIndent, Tabwidth: 8}
				if err := cfg.Fprint(&sb, token.NewFileSet(), dd); err != nil {
					fatal(err)
				}
				blocks = append(blocks, "### "+d+":"+key+"\n"+strings.TrimSpace(sb.String())+"\n")
			}
		}
	}
	sort.Strings(blocks)
	if err := os.WriteFile(out, []byte(strings.Join(blocks, "\n")), 0644); err != nil {
		fatal(err)
	}
}

// stripLogging removes pure logging statements from a body before it is fingerprinted: calls of
// x.logger.{Debug,Info,Warn,Error}[f] and `defer utils.Elapsed(...)` whose arguments contain no call. A changed
// log text is not a change of the modelled behaviour; Panicf / Fatalf are control flow and stay.
func stripLogging(b *ast.BlockStmt) {
	isLog := func(c *ast.CallExpr) bool {
		sel, ok := c.Fun.(*ast.SelectorExpr)
		if !ok {
			return false
		}
		pure := true
		for _, a := range c.Args {
			ast.Inspect(a, func(n ast.Node) bool {
				if ce, ok := n.(*ast.CallExpr); ok {
					// conversions and len() are harmless, anything else may have effects
					if id, ok := ce.Fun.(*ast.Ident); ok && (id.Name == "len" || id.Name == "string") {
						return true
					}
					if exprStr(ce.Fun) == "time.Now" || exprStr(ce.Fun) == "fmt.Sprintf" {
						return true
					}
					pure = false
				}
				return true
			})
		}
		if !pure {
			return false
		}
		x := exprStr(sel.X)
		switch sel.Sel.Name {
		case "Debugf", "Infof", "Warnf", "Errorf", "Debug", "Info", "Warn", "Error":
			return strings.HasSuffix(x, "logger") || strings.HasSuffix(x, ".logger")
		case "Elapsed":
			return x == "utils"
		}
		return false
	}
	var walk func(n ast.Node)
	filter := func(list []ast.Stmt) []ast.Stmt {
		var out []ast.Stmt
		for _, st := range list {
			switch x := st.(type) {
			case *ast.ExprStmt:
				if c, ok := x.X.(*ast.CallExpr); ok && isLog(c) {
					continue
				}
			case *ast.DeferStmt:
				if isLog(x.Call) {
					continue
				}
			}
			walk(st)
			out = append(out, st)
		}
		return out
	}
	walk = func(n ast.Node) {
		ast.Inspect(n, func(m ast.Node) bool {
			switch x := m.(type) {
			case *ast.BlockStmt:
				x.List = filter(x.List)
				return false
			case *ast.CaseClause:
				x.Body = filter(x.Body)
				return false
			case *ast.CommClause:
				x.Body = filter(x.Body)
				return false
			}
			return true
		})
	}
	b.List = filter(b.List)
}

func main() {
	repo := flag.String("repo", "/repo", "repository root")
	bodies := flag.String("bodies", "", "output file: normalised source of the modelled declarations")
	consts := flag.String("consts", "", "output Lean file")
	skeleton := flag.String("skeleton", "", "output skeleton file")
	locktable := flag.String("locktable", "", "output Lean lock table")
	oracleOut := flag.String("oracle", "", "output Lean file: translated oracle kernels")
	txnOut := flag.String("txn", "", "output Lean file: translated transaction decision logic")
	wmOut := flag.String("wm", "", "output Lean file: translated watermark message handler")
	levelOut := flag.String("level", "", "output Lean file: translated discardStaleEntries")
	dbOut := flag.String("db", "", "output Lean file: translated DB.search")
	lsmOut := flag.String("lsm", "", "output Lean file: translated searchLowerBound")
	tableOut := flag.String("table", "", "output Lean file: translated binary searches")
	filterOut := flag.String("filter", "", "output Lean file: translated bloom filter")
	walOut := flag.String("wal", "", "output Lean file: translated WAL.Write")
	kwayOut := flag.String("kway", "", "output Lean file: translated kway.merge")
	codecOut := flag.String("codec", "", "output Lean file: translated Data.Encode")
	typesOut := flag.String("types", "", "output Lean file: translated CompareKeys / IsSameKey / LCP")
	flag.Parse()
	if *locktable != "" {
		genLockTable(*repo, *locktable)
	}
	if *consts != "" {
		genConsts(*repo, *consts)
	}
	if *oracleOut != "" {
		genOracle(*repo, *oracleOut)
	}
	if *txnOut != "" {
		genTxn(*repo, *txnOut)
	}
	if *wmOut != "" {
		genWM(*repo, *wmOut)
	}
	if *levelOut != "" {
		genLevel(*repo, *levelOut)
	}
	if *dbOut != "" {
		genDB(*repo, *dbOut)
	}
	if *lsmOut != "" {
		genLSM(*repo, *lsmOut)
	}
	if *tableOut != "" {
		genTable(*repo, *tableOut)
	}
	if *filterOut != "" {
		genFilter(*repo, *filterOut)
	}
	if *walOut != "" {
		genWal(*repo, *walOut)
	}
	if *kwayOut != "" {
		genKway(*repo, *kwayOut)
	}
	if *typesOut != "" {
		genTypes(*repo, *typesOut)
	}
	if *codecOut != "" {
		genCodec(*repo, *codecOut)
	}
	if *skeleton != "" {
		genSkeleton(*repo, *skeleton)
	}
	if *bodies != "" {
		genBodies(*repo, *bodies)
	}
}
