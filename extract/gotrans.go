package main

// gotrans: a tiny translator from a subset of Go to Lean 4, used for the decision kernels of the oracle
// (hasConflict, cleanUpCommittedTxns).  The Lean definitions are regenerated from /repo on every run
// (Generated/Oracle.lean); Model/OracleTie.lean proves them equal to the hand-written model (Oracle2), so a change
// of the Go code changes the generated definition and the tie theorem has to go through again.
//
// Subset: if / else (with an optional `_, ok := m[k]` initialiser), for-range over a slice, return (one value or none),
// continue, break, panic, assignment to tracked variables (`x = e`, `x = append(x, e)`), expressions built from
// identifiers, selectors, integer literals, len, comparisons and boolean operators.  Anything else aborts the
// translation with an error (the obligation is then broken: the tie cannot be established).
//
// Scheme: statements are translated in continuation-passing style over the tuple of tracked (mutable) variables.
//   tr(return e)                    = ret(e)
//   tr(if c {A} else {B}; rest)     = if c then tr(A; rest) else tr(B; rest)
//   tr(for _, x := range L {B}; R)  = List.foldr (fun x kont => fun st.. => tr(B; continue)) (fun st.. => tr(R)) L st..
//   continue = kont st..     break = (the loop's exit continuation) st..
//   x = e; rest                     = let x := e; tr(rest)

import (
	"bytes"
	"fmt"
	"go/ast"
	"go/printer"
	"go/token"
	"os"
	"strconv"
	"strings"
)

// goStr prints an expression exactly as gofmt would (the keys of exprMap / effects / binds)
func goStr(e ast.Node) string {
	var b bytes.Buffer
	if err := printer.Fprint(&b, token.NewFileSet(), e); err != nil {
		return "?"
	}
	return strings.Join(strings.Fields(b.String()), " ")
}

type transSpec struct {
	leanName     string                                  // name of the generated definition
	binders      string                                  // Lean binders of the definition
	retType      string                                  // Lean result type
	exprMap      map[string]string                       // printed Go expression -> Lean term (fields of the receiver / parameters)
	state        []string                                // tracked mutable variables (Go printed form), in order
	stateLn      []string                                // their Lean names
	ret          func(vals []string, st []string) string // result term for `return vals...` with the current state
	fallOff      func(st []string) string                // result when the function body ends
	panicVal     string                                  // result of panic(...)
	skipCall     func(c *ast.CallExpr) bool              // statements to ignore (hooks, logging)
	skipStmt     func(st ast.Stmt) bool                  // whole statements left out of the translation (named in the spec)
	evVar        string                                  // Lean name of the tracked event list (effects are appended to it)
	effects      map[string]string                       // printed call -> event name
	binds        map[string][][2]string                  // printed call on the right of `a, b := call` -> (Go name, Lean term)
	wraps        map[string]func(tail string) string     // printed call statement -> the Lean term around the rest (a translated callee)
	stateTy      []string                                // Lean types of the tracked variables (needed for `for cond {}` loops, which become `let rec`)
	mapDefault   map[string]string                       // tracked Go maps (by Lean name): the value read for an absent key
	litTuple     bool                                    // a keyed composite literal `T{A: a, B: b}` is the tuple of its field values in source order
	sliceDefault map[string]string                       // tracked Go slices (by Lean name) read and written by index: `s[i]` = `s.getD i d`, `s[i] = v` = `s.set i v`
	litType      string                                  // Lean type of integer literals ("" = Nat)
	loopFuel     string                                  // fuel of `for cond {}` loops (a Lean term over the tracked variables)
	topCont      bool                                    // `continue` outside a translated loop ends the translated block
	closeEv      bool                                    // close(ch) appends ch to the event list
	labelExit    map[string]func(st []string) string     // `break LABEL` / `continue LABEL`: the result of the translated block
	selectBrk    func(st []string) string                // a plain `break` directly inside a select case: leaves the select only
	join         bool                                    // the statements after an if become a shared local continuation (no duplication)
	zero         map[string]string                       // Go type (printed) -> Lean zero value, for `var x T`
}

type translator struct {
	spec  transSpec
	err   error
	loops int
}

func (t *translator) fail(format string, a ...any) string {
	if t.err == nil {
		t.err = fmt.Errorf(format, a...)
	}
	return "sorryUnsupported"
}

func (t *translator) stArgs() string { return strings.Join(t.spec.stateLn, " ") }

// stFun: "fun st.. => " (with the types of the tracked variables when the spec gives them)
func (t *translator) stFun() string {
	if len(t.spec.stateLn) == 0 {
		return ""
	}
	if len(t.spec.stateTy) == len(t.spec.stateLn) {
		var typed []string
		for i, n := range t.spec.stateLn {
			typed = append(typed, "("+n+" : "+t.spec.stateTy[i]+")")
		}
		return "fun " + strings.Join(typed, " ") + " => "
	}
	return "fun " + t.stArgs() + " => "
}

func (t *translator) lookup(e ast.Expr) (string, bool) {
	s := goStr(e)
	if v, ok := t.spec.exprMap[s]; ok {
		return v, true
	}
	for i, g := range t.spec.state {
		if g == s {
			return t.spec.stateLn[i], true
		}
	}
	return "", false
}

func (t *translator) expr(e ast.Expr) string {
	if v, ok := t.lookup(e); ok {
		return v
	}
	switch x := e.(type) {
	case *ast.Ident:
		switch x.Name {
		case "true", "false":
			return x.Name
		}
		return x.Name
	case *ast.BasicLit:
		if x.Kind == token.INT {
			if t.spec.litType != "" {
				return "(" + x.Value + " : " + t.spec.litType + ")"
			}
			return x.Value
		}
		if x.Kind == token.STRING {
			// a Go string is its list of bytes
			v, err := strconv.Unquote(x.Value)
			if err == nil {
				var bs []string
				for _, c := range []byte(v) {
					bs = append(bs, strconv.Itoa(int(c)))
				}
				return "([" + strings.Join(bs, ", ") + "] : List UInt8)"
			}
		}
	case *ast.CompositeLit:
		if goStr(x) == "struct{}{}" {
			return "()"
		}
		if t.spec.litTuple && len(x.Elts) > 0 {
			var vs []string
			for _, el := range x.Elts {
				kv, ok := el.(*ast.KeyValueExpr)
				if !ok {
					return t.fail("unsupported composite literal %s", goStr(e))
				}
				vs = append(vs, t.expr(kv.Value))
			}
			return "(" + strings.Join(vs, ", ") + ")"
		}
	case *ast.ParenExpr:
		return "(" + t.expr(x.X) + ")"
	case *ast.SelectorExpr:
		return t.expr(x.X) + "." + x.Sel.Name
	case *ast.UnaryExpr:
		if x.Op == token.NOT {
			return "(!" + t.expr(x.X) + ")"
		}
		if x.Op == token.SUB {
			return "(-" + t.expr(x.X) + ")"
		}
	case *ast.IndexExpr:
		// m[k] on a tracked map: the first binding of k, the zero value when there is none
		if ln, ok := t.lookup(x.X); ok {
			if d, ok := t.spec.mapDefault[ln]; ok {
				return "((List.lookup (" + t.expr(x.Index) + ") " + ln + ").getD " + d + ")"
			}
			if d, ok := t.spec.sliceDefault[ln]; ok {
				return "(" + ln + ".getD (" + t.expr(x.Index) + ") " + d + ")"
			}
		}
	case *ast.BinaryExpr:
		a, b := t.expr(x.X), t.expr(x.Y)
		switch x.Op {
		case token.EQL:
			return "(decide (" + a + " = " + b + "))"
		case token.NEQ:
			return "(decide (" + a + " ≠ " + b + "))"
		case token.LSS:
			return "(decide (" + a + " < " + b + "))"
		case token.LEQ:
			return "(decide (" + a + " ≤ " + b + "))"
		case token.GTR:
			return "(decide (" + b + " < " + a + "))"
		case token.GEQ:
			return "(decide (" + b + " ≤ " + a + "))"
		case token.LAND:
			return "(" + a + " && " + b + ")"
		case token.LOR:
			return "(" + a + " || " + b + ")"
		case token.ADD:
			return "(" + a + " + " + b + ")"
		case token.SUB:
			return "(" + a + " - " + b + ")"
		case token.SHR:
			if bl, ok := x.Y.(*ast.BasicLit); ok && bl.Value == "1" {
				return "(" + a + " / 2)" // a non-negative operand in the translated code (the tie proof needs it)
			}
		}
	case *ast.CallExpr:
		if id, ok := x.Fun.(*ast.Ident); ok && id.Name == "len" && len(x.Args) == 1 {
			return "(" + t.expr(x.Args[0]) + ").length"
		}
		if id, ok := x.Fun.(*ast.Ident); ok && id.Name == "max" && len(x.Args) == 2 {
			return "(max " + t.expr(x.Args[0]) + " " + t.expr(x.Args[1]) + ")"
		}
		if id, ok := x.Fun.(*ast.Ident); ok && id.Name == "make" {
			return "[]" // an empty slice or map
		}
		if id, ok := x.Fun.(*ast.Ident); ok && id.Name == "append" && len(x.Args) == 2 {
			return "(" + t.expr(x.Args[0]) + " ++ [" + t.expr(x.Args[1]) + "])"
		}
	case *ast.SliceExpr:
		// x[:0]: the empty slice (sharing storage is not observable in the model)
		if x.Low == nil && x.High != nil {
			if bl, ok := x.High.(*ast.BasicLit); ok && bl.Value == "0" {
				return "[]"
			}
		}
	}
	return t.fail("unsupported expression %s", goStr(e))
}

// stmts translates a statement list; `next` is the Lean term to continue with when the list is done (already applied
// to the state), `cont` / `brk` are the names of the innermost loop's continuations ("" outside a loop)
func (t *translator) stmts(list []ast.Stmt, next func() string, cont, brk string) string {
	if len(list) == 0 {
		return next()
	}
	st, rest := list[0], list[1:]
	tail := func() string { return t.stmts(rest, next, cont, brk) }
	if t.spec.skipStmt != nil && t.spec.skipStmt(st) {
		return tail()
	}
	event := func(name string) string {
		if t.spec.evVar == "" {
			return t.fail("effect %s without an event variable", name)
		}
		if i := strings.Index(name, "|"); i >= 0 {
			// an event with an argument: ("name", arg)
			return "(let " + t.spec.evVar + " := " + t.spec.evVar + " ++ [(" + strconv.Quote(name[:i]) + ", " + name[i+1:] + ")]; " + tail() + ")"
		}
		return "(let " + t.spec.evVar + " := " + t.spec.evVar + " ++ [" + strconv.Quote(name) + "]; " + tail() + ")"
	}
	switch x := st.(type) {
	case *ast.GoStmt:
		// a goroutine is started: an event
		if ev, ok := t.spec.effects["go "+goStr(x.Call)]; ok {
			return event(ev)
		}
		return t.fail("unsupported go statement %s", goStr(x.Call))
	case *ast.DeferStmt:
		if t.spec.skipCall != nil && t.spec.skipCall(x.Call) {
			return tail()
		}
		if ev, ok := t.spec.effects[goStr(x.Call)]; ok {
			return event("defer " + ev)
		}
		return t.fail("unsupported defer %s", goStr(x.Call))
	case *ast.SwitchStmt:
		// a tagless switch is an if-chain; no fallthrough, at most one default (taken last)
		if x.Tag != nil || x.Init != nil {
			return t.fail("unsupported switch with a tag")
		}
		var def []ast.Stmt
		type arm struct {
			cond string
			body []ast.Stmt
		}
		var arms []arm
		for _, c := range x.Body.List {
			cc := c.(*ast.CaseClause)
			if cc.List == nil {
				def = cc.Body
				continue
			}
			var cs []string
			for _, e := range cc.List {
				cs = append(cs, t.expr(e))
			}
			arms = append(arms, arm{"(" + strings.Join(cs, " || ") + ")", cc.Body})
		}
		out := t.stmts(append(append([]ast.Stmt{}, def...), rest...), next, cont, brk)
		for i := len(arms) - 1; i >= 0; i-- {
			out = "(if " + arms[i].cond + " then " + t.stmts(append(append([]ast.Stmt{}, arms[i].body...), rest...), next, cont, brk) + " else " + out + ")"
		}
		return out
	case *ast.ReturnStmt:
		var vals []string
		for _, r := range x.Results {
			vals = append(vals, t.expr(r))
		}
		return t.spec.ret(vals, t.spec.stateLn)
	case *ast.BranchStmt:
		switch x.Tok {
		case token.CONTINUE:
			if cont == "" && t.spec.topCont {
				return t.spec.fallOff(t.spec.stateLn)
			}
			if cont == "" {
				return t.fail("continue outside a loop")
			}
			return strings.TrimSpace(cont + " " + t.stArgs())
		case token.BREAK:
			if x.Label != nil {
				if f, ok := t.spec.labelExit["break "+x.Label.Name]; ok {
					return f(t.spec.stateLn)
				}
				return t.fail("unsupported break %s", x.Label.Name)
			}
			if brk == "" && t.spec.selectBrk != nil {
				return t.spec.selectBrk(t.spec.stateLn)
			}
			if brk == "" {
				return t.fail("break outside a loop")
			}
			return strings.TrimSpace(brk + " " + t.stArgs())
		}
	case *ast.ExprStmt:
		if u, ok := x.X.(*ast.UnaryExpr); ok && u.Op == token.ARROW {
			if ev, ok := t.spec.effects[goStr(x)]; ok {
				return event(ev)
			}
			return t.fail("unsupported receive %s", goStr(x))
		}
		if c, ok := x.X.(*ast.CallExpr); ok {
			if id, ok := c.Fun.(*ast.Ident); ok && id.Name == "panic" {
				return t.spec.panicVal
			}
			if t.spec.skipCall != nil && t.spec.skipCall(c) {
				return tail()
			}
			if w, ok := t.spec.wraps[goStr(c)]; ok {
				return w(tail())
			}
			for pre, w := range t.spec.wraps {
				if strings.HasSuffix(pre, "*") && strings.HasPrefix(goStr(c), strings.TrimSuffix(pre, "*")) {
					return w(tail())
				}
			}
			if id, ok := c.Fun.(*ast.Ident); ok && id.Name == "close" && len(c.Args) == 1 && t.spec.closeEv {
				return "(let " + t.spec.evVar + " := " + t.spec.evVar + " ++ [" + t.expr(c.Args[0]) + "]; " + tail() + ")"
			}
			if id, ok := c.Fun.(*ast.Ident); ok && id.Name == "delete" && len(c.Args) == 2 {
				if ln, ok := t.lookup(c.Args[0]); ok {
					if _, ok := t.spec.mapDefault[ln]; ok {
						return "(let " + ln + " := " + ln + ".filter (fun kv => !(kv.1 == " + t.expr(c.Args[1]) + ")); " + tail() + ")"
					}
				}
			}
			if ev, ok := t.spec.effects[goStr(c)]; ok {
				return event(ev)
			}
		}
	case *ast.IncDecStmt:
		if ln, ok := t.lookup(x.X); ok && x.Tok == token.INC {
			for _, s := range t.spec.stateLn {
				if s == ln {
					return "(let " + ln + " := " + ln + " + 1; " + tail() + ")"
				}
			}
		}
		return t.fail("unsupported %s", goStr(x))
	case *ast.BlockStmt:
		return t.stmts(append(append([]ast.Stmt{}, x.List...), rest...), next, cont, brk)
	case *ast.IfStmt:
		cond := ""
		if x.Init != nil {
			// `_, ok := m[k]` followed by the condition `ok`
			as, ok := x.Init.(*ast.AssignStmt)
			if ok && len(as.Rhs) == 1 {
				if _, bound := t.spec.binds[goStr(as.Rhs[0])]; bound {
					// `if x := call; cond {…}`: the initialiser first, then the plain if
					plain := *x
					plain.Init = nil
					return t.stmts(append([]ast.Stmt{as, &plain}, rest...), next, cont, brk)
				}
			}
			if ok && len(as.Lhs) == 1 && len(as.Rhs) == 1 && as.Tok == token.DEFINE {
				// `if x := e; cond {…}`: the definition first, then the plain if
				plain := *x
				plain.Init = nil
				return t.stmts(append([]ast.Stmt{as, &plain}, rest...), next, cont, brk)
			}
			if !ok || len(as.Lhs) != 2 || len(as.Rhs) != 1 {
				return t.fail("unsupported if initialiser")
			}
			ix, ok := as.Rhs[0].(*ast.IndexExpr)
			okName, ok2 := as.Lhs[1].(*ast.Ident)
			cid, ok3 := x.Cond.(*ast.Ident)
			if !ok || !ok2 || !ok3 || cid.Name != okName.Name {
				return t.fail("unsupported comma-ok form")
			}
			if v, isId := as.Lhs[0].(*ast.Ident); isId && v.Name != "_" {
				// `v, ok := m[k]; ok`: the first binding of k in the association list m
				thenPart := t.stmts(append(append([]ast.Stmt{}, x.Body.List...), rest...), next, cont, brk)
				var elsePart string
				if x.Else != nil {
					elsePart = t.stmts(append([]ast.Stmt{x.Else}, rest...), next, cont, brk)
				} else {
					elsePart = tail()
				}
				return "(match List.lookup (" + t.expr(ix.Index) + ") (" + t.expr(ix.X) + ") with | some " + v.Name + " => " + thenPart + " | none => " + elsePart + ")"
			}
			cond = "(" + t.expr(ix.X) + ").contains " + t.expr(ix.Index)
		} else {
			cond = t.expr(x.Cond)
		}
		if t.spec.join && len(rest) > 0 {
			// what follows the if is shared by both branches: a local continuation over the tracked variables
			t.loops++
			join := fmt.Sprintf("join%d", t.loops)
			after := tail()
			jn := func() string { return strings.TrimSpace(join + " " + t.stArgs()) }
			thenPart := t.stmts(x.Body.List, jn, cont, brk)
			elsePart := jn()
			if x.Else != nil {
				elsePart = t.stmts([]ast.Stmt{x.Else}, jn, cont, brk)
			}
			return "(let " + join + " := " + t.stFun() + after + "; if " + cond + " then " + thenPart + " else " + elsePart + ")"
		}
		thenPart := t.stmts(append(append([]ast.Stmt{}, x.Body.List...), rest...), next, cont, brk)
		var elsePart string
		if x.Else != nil {
			elsePart = t.stmts(append([]ast.Stmt{x.Else}, rest...), next, cont, brk)
		} else {
			elsePart = tail()
		}
		return "(if " + cond + " then " + thenPart + " else " + elsePart + ")"
	case *ast.SendStmt:
		if ev, ok := t.spec.effects[goStr(x)]; ok {
			return event(ev)
		}
		return t.fail("unsupported send %s", goStr(x))
	case *ast.DeclStmt:
		// `var x T`: the zero value
		if gd, ok := x.Decl.(*ast.GenDecl); ok && gd.Tok == token.VAR {
			out := tail()
			okAll := true
			for i := len(gd.Specs) - 1; i >= 0; i-- {
				vs := gd.Specs[i].(*ast.ValueSpec)
				z, okz := t.spec.zero[goStr(vs.Type)]
				if !okz || len(vs.Values) != 0 {
					okAll = false
					break
				}
				for j := len(vs.Names) - 1; j >= 0; j-- {
					out = "(let " + vs.Names[j].Name + " := " + z + "; " + out + ")"
				}
			}
			if okAll {
				return out
			}
		}
		return t.fail("unsupported declaration %s", goStr(x))
	case *ast.AssignStmt:
		if ev, ok := t.spec.effects[goStr(x)]; ok {
			return event(ev)
		}
		if len(x.Lhs) == 2 && len(x.Rhs) == 2 {
			// a, b = e1, e2 on tracked variables: both right-hand sides first
			l0, ok0 := t.lookup(x.Lhs[0])
			l1, ok1 := t.lookup(x.Lhs[1])
			if ok0 && ok1 {
				return "(let (" + l0 + ", " + l1 + ") := (" + t.expr(x.Rhs[0]) + ", " + t.expr(x.Rhs[1]) + "); " + tail() + ")"
			}
		}
		if len(x.Rhs) == 1 {
			if bs, ok := t.spec.binds[goStr(x.Rhs[0])]; ok && (x.Tok == token.DEFINE || x.Tok == token.ASSIGN) {
				// `a, b := call`: the call is an effect, its results are inputs of the generated definition
				out := tail()
				for i := len(bs) - 1; i >= 0; i-- {
					out = "(let " + bs[i][0] + " := " + bs[i][1] + "; " + out + ")"
				}
				if ev, ok := t.spec.effects[goStr(x.Rhs[0])]; ok {
					if i := strings.Index(ev, "|"); i >= 0 {
						out = "(let " + t.spec.evVar + " := " + t.spec.evVar + " ++ [(" + strconv.Quote(ev[:i]) + ", " + ev[i+1:] + ")]; " + out + ")"
					} else {
						out = "(let " + t.spec.evVar + " := " + t.spec.evVar + " ++ [" + strconv.Quote(ev) + "]; " + out + ")"
					}
				}
				return out
			}
		}
		if len(x.Lhs) == 2 && len(x.Rhs) == 1 && x.Tok == token.DEFINE {
			if ix, ok := x.Rhs[0].(*ast.IndexExpr); ok {
				if ln, ok := t.lookup(ix.X); ok {
					if d, ok := t.spec.mapDefault[ln]; ok {
						v, okv := x.Lhs[0].(*ast.Ident), x.Lhs[1].(*ast.Ident)
						return "(let " + v.Name + " := ((List.lookup (" + t.expr(ix.Index) + ") " + ln + ").getD " + d + "); (let " + okv.Name +
							" := (List.lookup (" + t.expr(ix.Index) + ") " + ln + ").isSome; " + tail() + "))"
					}
				}
			}
		}
		if len(x.Lhs) == 1 && len(x.Rhs) == 1 && x.Tok == token.ADD_ASSIGN {
			if ln, ok := t.lookup(x.Lhs[0]); ok {
				for _, s := range t.spec.stateLn {
					if s == ln {
						return "(let " + ln + " := " + ln + " + " + t.expr(x.Rhs[0]) + "; " + tail() + ")"
					}
				}
			}
		}
		if len(x.Lhs) == 1 && len(x.Rhs) == 1 {
			if ix, ok := x.Lhs[0].(*ast.IndexExpr); ok && x.Tok == token.ASSIGN {
				// m[k] = v on a tracked map: the association list gets a new first binding
				if ln, ok := t.lookup(ix.X); ok {
					for _, s := range t.spec.stateLn {
						if s == ln {
							if _, isSlice := t.spec.sliceDefault[ln]; isSlice {
								return "(let " + ln + " := " + ln + ".set (" + t.expr(ix.Index) + ") " + t.expr(x.Rhs[0]) + "; " + tail() + ")"
							}
							if _, isMap := t.spec.mapDefault[ln]; isMap {
								// keys stay unique (the list is also ranged over)
								return "(let " + ln + " := (" + t.expr(ix.Index) + ", " + t.expr(x.Rhs[0]) + ") :: " + ln + ".filter (fun kv => !(kv.1 == " + t.expr(ix.Index) + ")); " + tail() + ")"
							}
							return "(let " + ln + " := (" + t.expr(ix.Index) + ", " + t.expr(x.Rhs[0]) + ") :: " + ln + "; " + tail() + ")"
						}
					}
				}
			}
			if ln, ok := t.lookup(x.Lhs[0]); ok {
				isState := false
				for _, s := range t.spec.stateLn {
					if s == ln {
						isState = true
					}
				}
				if isState {
					return "(let " + ln + " := " + t.expr(x.Rhs[0]) + "; " + tail() + ")"
				}
			}
			if id, ok := x.Lhs[0].(*ast.Ident); ok && x.Tok == token.DEFINE {
				// a fresh immutable local
				return "(let " + id.Name + " := " + t.expr(x.Rhs[0]) + "; " + tail() + ")"
			}
		}
		return t.fail("unsupported assignment %s", goStr(x))
	case *ast.RangeStmt:
		if x.Value == nil {
			return t.fail("range without value variable")
		}
		v := x.Value.(*ast.Ident).Name
		pre := ""
		if k, ok := x.Key.(*ast.Ident); ok && k.Name != "_" {
			// key and value of a tracked map: the association list is walked in list order
			ln, okl := t.lookup(x.X)
			if _, okm := t.spec.mapDefault[ln]; okl && okm {
				pre = "let " + k.Name + " := kv.1; let " + v + " := kv.2; "
				v = "kv"
			} else {
				// index and element of a slice
				t.loops++
				kont := fmt.Sprintf("kont%d", t.loops)
				exit := fmt.Sprintf("exit%d", t.loops)
				body := t.stmts(x.Body.List, func() string { return strings.TrimSpace(kont + " " + t.stArgs()) }, kont, exit)
				after := tail()
				return "(let " + exit + " := " + t.stFun() + after + "; List.foldr (fun kv " + kont + " => let " + v + " := kv.1; let " + k.Name + " := kv.2; " + t.stFun() + body + ") " + exit + " (" + t.expr(x.X) + ").zipIdx " + t.stArgs() + ")"
			}
		} else if ln, okl := t.lookup(x.X); okl {
			if _, okm := t.spec.mapDefault[ln]; okm {
				// the values of a tracked map
				pre = "let " + v + " := kv.2; "
				v = "kv"
			}
		}
		t.loops++
		kont := fmt.Sprintf("kont%d", t.loops)
		exit := fmt.Sprintf("exit%d", t.loops)
		stBinders := t.stFun()
		body := t.stmts(x.Body.List, func() string { return strings.TrimSpace(kont + " " + t.stArgs()) }, kont, exit)
		after := tail()
		return "(let " + exit + " := " + stBinders + after + "; List.foldr (fun " + v + " " + kont + " => " + pre + stBinders + body + ") " + exit + " " + t.expr(x.X) + " " + t.stArgs() + ")"
	case *ast.ForStmt:
		// `for e := L.Back(); e != nil; e = e.Prev()` / `L.Front() … e.Next()`: container/list walked from either end
		if as, ok := x.Init.(*ast.AssignStmt); ok && x.Cond != nil && x.Post != nil && len(as.Lhs) == 1 && len(as.Rhs) == 1 {
			if id, ok := as.Lhs[0].(*ast.Ident); ok {
				init, cond, post := goStr(as.Rhs[0]), goStr(x.Cond), goStr(x.Post)
				var lst string
				rev := false
				switch {
				case strings.HasSuffix(init, ".Back()") && cond == id.Name+" != nil" && post == id.Name+" = "+id.Name+".Prev()":
					lst, rev = strings.TrimSuffix(init, ".Back()"), true
				case strings.HasSuffix(init, ".Front()") && cond == id.Name+" != nil" && post == id.Name+" = "+id.Name+".Next()":
					lst = strings.TrimSuffix(init, ".Front()")
				}
				if ln, ok := t.spec.exprMap[lst]; ok && lst != "" {
					t.loops++
					kont := fmt.Sprintf("kont%d", t.loops)
					exit := fmt.Sprintf("exit%d", t.loops)
					body := t.stmts(x.Body.List, func() string { return strings.TrimSpace(kont + " " + t.stArgs()) }, kont, exit)
					after := tail()
					if rev {
						ln = "(" + ln + ").reverse"
					}
					return "(let " + exit + " := " + t.stFun() + after + "; List.foldr (fun " + id.Name + " " + kont + " => " + t.stFun() + body + ") " + exit + " " + ln + " " + t.stArgs() + ")"
				}
			}
		}
		// `for cond { body }`: a recursive function with fuel (the spec says how much is enough)
		if x.Init != nil || x.Post != nil || x.Cond == nil || t.spec.loopFuel == "" || len(t.spec.stateTy) != len(t.spec.stateLn) {
			return t.fail("unsupported for statement")
		}
		t.loops++
		loop := fmt.Sprintf("loop%d", t.loops)
		exit := fmt.Sprintf("exit%d", t.loops)
		var typed []string
		for i, n := range t.spec.stateLn {
			typed = append(typed, "("+n+" : "+t.spec.stateTy[i]+")")
		}
		after := tail()
		again := loop + " fuel " + t.stArgs()
		body := t.stmts(x.Body.List, func() string { return again }, loop+" fuel", exit)
		return "(let " + exit + " := " + t.stFun() + after + "; let rec " + loop + " (fuel : Nat) " + strings.Join(typed, " ") + " : " + t.spec.retType +
			" := match fuel with | 0 => " + exit + " " + t.stArgs() + " | fuel + 1 => (if " + t.expr(x.Cond) + " then " + body + " else " + exit + " " + t.stArgs() + "); " +
			loop + " (" + t.spec.loopFuel + ") " + t.stArgs() + ")"
	}
	return t.fail("unsupported statement at %v", fset.Position(st.Pos()))
}

func translateFunc(fd *ast.FuncDecl, spec transSpec) (string, error) {
	t := &translator{spec: spec}
	body := t.stmts(fd.Body.List, func() string { return spec.fallOff(spec.stateLn) }, "", "")
	if t.err != nil {
		return "", t.err
	}
	return fmt.Sprintf("def %s %s : %s :=\n  %s\n", spec.leanName, spec.binders, spec.retType, body), nil
}

// genOracle writes Generated/Oracle.lean: the decision kernels of oracle.go
func genOracle(repo, out string) {
	p := parseDir(repo)
	var sb strings.Builder
	sb.WriteString("/-! GENERATED by /verif/extract (gotrans.go) from /repo/oracle.go on every check run. Do not edit.\n")
	sb.WriteString("    The loops of `oracle.hasConflict` and `oracle.cleanUpCommittedTxns`, translated statement by statement\n")
	sb.WriteString("    (for-range = foldr over continuations).  `Model/OracleTie.lean` proves them equal to the model `Oracle2`. -/\n")
	sb.WriteString("set_option linter.unusedVariables false\nnamespace GenOracle\n\nabbrev Key := List UInt8\n/-- a committedTxn: commit timestamp and the keys it wrote -/\nabbrev CT := Nat × List Key\n\n")
	isHook := func(c *ast.CallExpr) bool {
		s := exprStr(c.Fun)
		return strings.HasPrefix(s, "vhook.")
	}
	emit := func(recv, name string, spec transSpec) {
		fd := findFunc(p, recv, name)
		var d string
		var err error
		if fd == nil {
			err = fmt.Errorf("%s.%s not found", recv, name)
		} else {
			d, err = translateFunc(fd, spec)
		}
		if err != nil {
			// the tie theorem about this definition cannot hold: the obligation is reported broken
			d = fmt.Sprintf("/-- UNTRANSLATABLE: %s -/\ndef %s : Unit := ()\n", strings.ReplaceAll(err.Error(), "-/", "- /"), spec.leanName)
		}
		sb.WriteString(d + "\n")
	}
	// hasConflict(txn): reads, readTs of the transaction, the committed list
	emit("oracle", "hasConflict", transSpec{
		leanName: "hasConflict", binders: "(reads : List Key) (readTs : Nat) (committed : List CT)", retType: "Bool",
		exprMap: map[string]string{"txn.reads": "reads", "txn.readTs": "readTs", "o.committedTxns": "committed",
			"ct.ts": "ct.1", "ct.writes": "ct.2"},
		ret:      func(vals []string, _ []string) string { return vals[0] },
		fallOff:  func(_ []string) string { return "false" },
		panicVal: "false", skipCall: isHook,
	})
	// cleanUpCommittedTxns(): (DoneUntil of the read mark, lastCleanUpTs, committedTxns) -> none on panic, else the new
	// (lastCleanUpTs, committedTxns)
	emit("oracle", "cleanUpCommittedTxns", transSpec{
		leanName: "cleanUp", binders: "(doneUntil : Nat) (lastCleanUpTs : Nat) (cts : List CT)", retType: "Option (Nat × List CT)",
		exprMap: map[string]string{"o.readMark.DoneUntil()": "doneUntil", "committed.ts": "committed.1"},
		state:   []string{"o.lastCleanUpTs", "o.committedTxns", "temp"}, stateLn: []string{"lastCleanUpTs", "cts", "temp"},
		ret:      func(_ []string, st []string) string { return "some (" + st[0] + ", " + st[1] + ")" },
		fallOff:  func(st []string) string { return "some (" + st[0] + ", " + st[1] + ")" },
		panicVal: "none", skipCall: isHook,
	})
	sb.WriteString("end GenOracle\n")
	if err := os.WriteFile(out, []byte(sb.String()), 0644); err != nil {
		fatal(err)
	}
}

// genTxn writes Generated/Txn.lean: the decision logic of txn.go, db.View / db.Update and oracle.newCommitTs
func genTxn(repo, out string) {
	p := parseDir(repo)
	var sb strings.Builder
	sb.WriteString("import Originium.Generated.Oracle\n")
	sb.WriteString("/-! GENERATED by /verif/extract (gotrans.go) from /repo/txn.go, db.go and oracle.go on every check run. Do not edit.\n")
	sb.WriteString("    Decision logic and effect order of Txn.modify, Txn.Get, Txn.Commit, DB.View, DB.Update, oracle.newCommitTs and\n")
	sb.WriteString("    oracle.doneRead.  Calls with effects outside the function are recorded, in order, in the event list `ev`.\n")
	sb.WriteString("    `Model/TxnTie.lean` states what these definitions compute and relates them to the model. -/\n")
	sb.WriteString("set_option linter.unusedVariables false\nnamespace GenTxn\n\nabbrev Key := List UInt8\n/-- a pending write: value and tombstone flag -/\nabbrev Ent := List UInt8 × Bool\n\n")
	sb.WriteString("inductive E where\n  | nil | ErrReadOnlyTxn | ErrDiscardedTxn | ErrEmptyKey | ErrKeyTooLarge | ErrValueTooLarge | ErrDBClosed | ErrConflictTxn\nderiving DecidableEq, Repr\n\n")
	sb.WriteString("/-- what Txn.Get answers: a value taken from the transaction itself, or the result of a store lookup -/\ninductive R where\n  | direct (v : List UInt8) (ok : Bool)\n  | search (key : Key) (ts : Nat)\nderiving DecidableEq, Repr\n\n")
	errs := map[string]string{"nil": "E.nil"}
	for _, e := range []string{"ErrReadOnlyTxn", "ErrDiscardedTxn", "ErrEmptyKey", "ErrKeyTooLarge", "ErrValueTooLarge", "ErrDBClosed", "ErrConflictTxn"} {
		errs[e] = "E." + e
	}
	with := func(m map[string]string) map[string]string {
		r := map[string]string{}
		for k, v := range errs {
			r[k] = v
		}
		for k, v := range m {
			r[k] = v
		}
		return r
	}
	isHookOrLog := func(c *ast.CallExpr) bool {
		s := goStr(c.Fun)
		return strings.HasPrefix(s, "vhook.") || strings.Contains(s, ".logger.")
	}
	need := func(recv, name string) *ast.FuncDecl { return findFunc(p, recv, name) }
	emit := func(fd *ast.FuncDecl, spec transSpec) {
		var d string
		err := fmt.Errorf("%s not found", spec.leanName)
		if fd != nil {
			d, err = translateFunc(fd, spec)
		}
		if err != nil {
			// the tie theorem about this definition cannot hold: the obligation is reported broken
			d = fmt.Sprintf("/-- UNTRANSLATABLE: %s -/\ndef %s : Unit := ()\n", strings.ReplaceAll(err.Error(), "-/", "- /"), spec.leanName)
		}
		sb.WriteString(d + "\n")
	}
	// Txn.modify
	emit(need("Txn", "modify"), transSpec{
		leanName: "modify",
		binders:  "(readOnly discarded : Bool) (key value : List UInt8) (tomb : Bool) (MaxKeySize MaxValueSize : Nat) (writes : List (Key × Unit)) (pending : List (Key × Ent))",
		retType:  "E × List (Key × Unit) × List (Key × Ent)",
		exprMap: with(map[string]string{"t.readOnly": "readOnly", "t.discarded": "discarded", "e.Key": "key", "e.Value": "value", "e": "(value, tomb)",
			"MaxKeySize": "MaxKeySize", "MaxValueSize": "MaxValueSize"}),
		state: []string{"t.writes", "t.pendingWrites"}, stateLn: []string{"writes", "pending"},
		ret:      func(vals []string, st []string) string { return "(" + vals[0] + ", writes, pending)" },
		fallOff:  func(st []string) string { return "(E.nil, writes, pending)" },
		panicVal: "(E.nil, writes, pending)", skipCall: isHookOrLog,
	})
	// Txn.Get
	emit(need("Txn", "Get"), transSpec{
		leanName: "get",
		binders:  "(readOnly discarded : Bool) (key : Key) (readTs : Nat) (pending : List (Key × Ent)) (reads : List Key)",
		retType:  "R × List Key",
		exprMap: map[string]string{"t.readOnly": "readOnly", "t.discarded": "discarded", "nil": "([] : List UInt8)", "v.Tombstone": "v.2", "v.Value": "v.1",
			"t.pendingWrites": "pending", "t.db.search(types.KeyWithTs(key, t.readTs))": "(R.search key readTs)"},
		state: []string{"t.reads"}, stateLn: []string{"reads"},
		ret: func(vals []string, st []string) string {
			if len(vals) == 2 {
				return "(R.direct " + vals[0] + " " + vals[1] + ", reads)"
			}
			return "(" + vals[0] + ", reads)"
		},
		fallOff:  func(st []string) string { return "(R.direct [] false, reads)" },
		panicVal: "(R.direct [] false, reads)", skipCall: isHookOrLog,
	})
	// Txn.Commit
	emit(need("Txn", "Commit"), transSpec{
		leanName: "commit",
		binders:  "(discarded : Bool) (pending : List (Key × Ent)) (closed : Bool) (commitTsIn : Nat) (conflictIn : Bool) (ev : List String)",
		retType:  "E × List String",
		exprMap:  with(map[string]string{"t.discarded": "discarded", "t.pendingWrites": "pending", "t.db.State() == StateClosed": "closed"}),
		state:    []string{"ev"}, stateLn: []string{"ev"}, evVar: "ev",
		effects: map[string]string{"t.Discard()": "Discard", "orc.writeLock.Lock()": "writeLock.Lock", "orc.writeLock.Unlock()": "writeLock.Unlock",
			"orc.newCommitTs(t)": "newCommitTs", "t.db.rawset(entries...)": "rawset", "orc.doneCommit(commitTs)": "doneCommit"},
		binds: map[string][][2]string{"orc.newCommitTs(t)": {{"commitTs", "commitTsIn"}, {"hasConflict", "conflictIn"}}},
		skipStmt: func(st ast.Stmt) bool {
			s := goStr(st)
			if s == "orc := t.db.oracle" || strings.HasPrefix(s, "entries := make(") {
				return true
			}
			if r, ok := st.(*ast.RangeStmt); ok && goStr(r.X) == "t.pendingWrites" {
				return true // builds `entries` from the pending writes: the batch contents are compared by the db suite
			}
			return false
		},
		ret:      func(vals []string, st []string) string { return "(" + vals[0] + ", ev)" },
		fallOff:  func(st []string) string { return "(E.nil, ev)" },
		panicVal: "(E.nil, ev)", skipCall: isHookOrLog,
	})
	// Txn.Commit, the statements that build the batch from the pending writes
	{
		sp := transSpec{
			leanName: "commitBatch",
			binders:  "{π : Type} (pkey : π → Key) (pval : π → List UInt8) (ptomb : π → Bool) (pendingWrites : List (Key × π)) (commitTs : Nat)",
			retType:  "List ((Key × Nat) × List UInt8 × Bool × Nat)",
			exprMap: map[string]string{"t.pendingWrites": "pendingWrites", "types.KeyWithTs(v.Key, commitTs)": "(pkey v, commitTs)", "v.Value": "(pval v)",
				"v.Tombstone": "(ptomb v)", "int64(commitTs)": "commitTs"},
			state: []string{"entries"}, stateLn: []string{"entries"}, stateTy: []string{"List ((Key × Nat) × List UInt8 × Bool × Nat)"},
			mapDefault: map[string]string{"pendingWrites": "default"}, litTuple: true,
			ret:      func(vals []string, st []string) string { return "entries" },
			fallOff:  func(st []string) string { return "entries" },
			panicVal: "entries", skipCall: isHookOrLog,
		}
		fd := need("Txn", "Commit")
		d := ""
		err := fmt.Errorf("Txn.Commit not found")
		if fd != nil {
			var sel []ast.Stmt
			for _, st := range fd.Body.List {
				if strings.HasPrefix(goStr(st), "entries := make(") {
					sel = append(sel, st)
				}
				if r, ok := st.(*ast.RangeStmt); ok && goStr(r.X) == "t.pendingWrites" {
					sel = append(sel, st)
				}
			}
			err = fmt.Errorf("the batch-building statements of Txn.Commit were not found (entries := make(…); for … range t.pendingWrites)")
			if len(sel) == 2 {
				t := &translator{spec: sp}
				body := t.stmts(sel, func() string { return "entries" }, "", "")
				err = t.err
				d = fmt.Sprintf("def %s %s : %s :=\n  let entries : %s := []\n  %s\n", sp.leanName, sp.binders, sp.retType, sp.stateTy[0], body)
			}
		}
		if err != nil {
			d = fmt.Sprintf("/-- UNTRANSLATABLE: %s -/\ndef commitBatch : Unit := ()\n", strings.ReplaceAll(err.Error(), "-/", "- /"))
		}
		sb.WriteString(d + "\n")
	}
	// DB.View / DB.Update
	for _, nm := range []string{"View", "Update"} {
		emit(need("DB", nm), transSpec{
			leanName: strings.ToLower(nm),
			binders:  "(closed : Bool) (fnRes commitRes : E) (ev : List String)",
			retType:  "E × List String",
			exprMap:  with(map[string]string{"db.State() == StateClosed": "closed", "fn(txn)": "FN", "txn.Commit()": "COMMIT"}),
			state:    []string{"ev"}, stateLn: []string{"ev"}, evVar: "ev",
			effects: map[string]string{"db.Begin(false)": "Begin false", "db.Begin(true)": "Begin true", "txn.Discard()": "Discard", "fn(txn)": "fn"},
			binds:   map[string][][2]string{"db.Begin(false)": {{"txn", "()"}}, "db.Begin(true)": {{"txn", "()"}}, "fn(txn)": {{"err", "fnRes"}}},
			ret: func(vals []string, st []string) string {
				switch vals[0] {
				case "FN":
					return "(fnRes, ev ++ [\"fn\"])"
				case "COMMIT":
					return "(commitRes, ev ++ [\"Commit\"])"
				}
				return "(" + vals[0] + ", ev)"
			},
			fallOff:  func(st []string) string { return "(E.nil, ev)" },
			panicVal: "(E.nil, ev)", skipCall: isHookOrLog,
		})
	}
	// oracle.doneRead
	emit(need("oracle", "doneRead"), transSpec{
		leanName: "doneRead",
		binders:  "(doneRead : Bool) (ev : List String)",
		retType:  "Bool × List String",
		exprMap:  map[string]string{},
		state:    []string{"txn.doneRead", "ev"}, stateLn: []string{"doneRead", "ev"}, evVar: "ev",
		effects:  map[string]string{"o.readMark.Done(txn.readTs)": "readMark.Done readTs"},
		ret:      func(vals []string, st []string) string { return "(doneRead, ev)" },
		fallOff:  func(st []string) string { return "(doneRead, ev)" },
		panicVal: "(doneRead, ev)", skipCall: isHookOrLog,
	})
	// oracle.newCommitTs: the callees hasConflict / doneRead / cleanUpCommittedTxns are the translated ones
	emit(need("oracle", "newCommitTs"), transSpec{
		leanName: "newCommitTs",
		binders:  "(reads : List Key) (readTs : Nat) (writes : List Key) (doneRead : Bool) (doneUntil : Nat) (nextTs lastCleanUpTs : Nat) (cts : List GenOracle.CT) (ev : List String)",
		retType:  "Option (Nat × Bool × Bool × Nat × Nat × List GenOracle.CT × List String)",
		exprMap: map[string]string{"o.hasConflict(txn)": "(GenOracle.hasConflict reads readTs cts)",
			"committedTxn{ts: ts, writes: txn.writes}": "(ts, writes)"},
		state:   []string{"txn.doneRead", "o.nextTs", "o.lastCleanUpTs", "o.committedTxns", "ev"},
		stateLn: []string{"doneRead", "nextTs", "lastCleanUpTs", "cts", "ev"}, evVar: "ev",
		effects: map[string]string{"o.Lock()": "Lock", "o.Unlock()": "Unlock", "o.commitMark.Begin(ts)": "commitMark.Begin ts"},
		wraps: map[string]func(string) string{
			"o.doneRead(txn)": func(tail string) string {
				return "(match GenTxn.doneRead doneRead ev with | (doneRead, ev) => " + tail + ")"
			},
			"o.cleanUpCommittedTxns()": func(tail string) string {
				return "(match GenOracle.cleanUp doneUntil lastCleanUpTs cts with | none => none | some (lastCleanUpTs, cts) => " + tail + ")"
			},
		},
		ret: func(vals []string, st []string) string {
			return "some (" + vals[0] + ", " + vals[1] + ", doneRead, nextTs, lastCleanUpTs, cts, ev)"
		},
		fallOff:  func(st []string) string { return "none" },
		panicVal: "none", skipCall: isHookOrLog,
	})
	// oracle.readTs: the snapshot timestamp and what Begin waits for
	emit(need("oracle", "readTs"), transSpec{
		leanName: "readTs",
		binders:  "(nextTs : Nat) (waitFails : Bool) (ev : List String)",
		retType:  "Option (Nat × List String)",
		exprMap:  map[string]string{"o.nextTs": "nextTs", "err != nil": "waitFails"},
		state:    []string{"ev"}, stateLn: []string{"ev"}, evVar: "ev",
		effects: map[string]string{"o.Lock()": "Lock", "o.Unlock()": "Unlock", "o.readMark.Begin(readTs)": "readMark.Begin readTs",
			"o.commitMark.WaitForMark(context.Background(), readTs)": "commitMark.WaitForMark readTs"},
		binds:    map[string][][2]string{"o.commitMark.WaitForMark(context.Background(), readTs)": {{"err", "()"}}},
		ret:      func(vals []string, st []string) string { return "some (" + vals[0] + ", ev)" },
		fallOff:  func(st []string) string { return "none" },
		panicVal: "none", skipCall: isHookOrLog,
	})
	// Txn.Discard
	emit(need("Txn", "Discard"), transSpec{
		leanName: "discard",
		binders:  "(discarded : Bool) (ev : List String)",
		retType:  "Bool × List String",
		exprMap:  map[string]string{},
		state:    []string{"t.discarded", "ev"}, stateLn: []string{"discarded", "ev"}, evVar: "ev",
		effects:  map[string]string{"t.db.oracle.doneRead(t)": "oracle.doneRead"},
		ret:      func(vals []string, st []string) string { return "(discarded, ev)" },
		fallOff:  func(st []string) string { return "(discarded, ev)" },
		panicVal: "(discarded, ev)", skipCall: isHookOrLog,
	})
	sb.WriteString("end GenTxn\n")
	if err := os.WriteFile(out, []byte(sb.String()), 0644); err != nil {
		fatal(err)
	}
}

// genWM writes Generated/WM.lean: the body of the `case m := <-w.markC` branch of WaterMark.process
func genWM(repo, out string) {
	p := parseDir(repo + "/pkg/watermark")
	var sb strings.Builder
	sb.WriteString("/-! GENERATED by /verif/extract (gotrans.go) from /repo/pkg/watermark/watermark.go on every check run. Do not edit.\n")
	sb.WriteString("    `handle`: what `WaterMark.process` does with one message taken from `markC` (a waiter, or a Begin / Done mark).\n")
	sb.WriteString("    The heap is a sorted list (heap.Push = sorted insertion, heap.Pop = tail, timeStamps[0] = head), the Go maps are\n")
	sb.WriteString("    association lists (first binding wins, delete removes every binding), closed channels are listed in `ev`.\n")
	sb.WriteString("    `Model/WMTie.lean` proves that this is `Watermark.step`. -/\n")
	sb.WriteString("set_option linter.unusedVariables false\nnamespace GenWM\n\n")
	sb.WriteString("def heapPush (t : Nat) : List Nat → List Nat\n  | [] => [t]\n  | h :: rest => if t ≤ h then t :: h :: rest else h :: heapPush t rest\n\n")
	fd := findFunc(p, "WaterMark", "process")
	var body []ast.Stmt
	if fd != nil {
		ast.Inspect(fd.Body, func(n ast.Node) bool {
			cc, ok := n.(*ast.CommClause)
			if ok && cc.Comm != nil && strings.HasSuffix(goStr(cc.Comm), "<-w.markC") {
				body = cc.Body
			}
			return true
		})
	}
	spec := transSpec{
		leanName: "handle",
		binders:  "(isWait : Bool) (ts : Nat) (done : Bool) (ch : Nat) (du : Nat) (timeStamps : List Nat) (pending : List (Nat × Int)) (waiters : List (Nat × List Nat)) (ev : List Nat)",
		retType:  "Nat × List Nat × List (Nat × Int) × List (Nat × List Nat) × List Nat",
		exprMap: map[string]string{"m.waiter != nil": "isWait", "m.ts": "ts", "m.done": "done", "m.waiter": "ch",
			"timeStamps.Len() > 0": "(!timeStamps.isEmpty)", "timeStamps[0]": "(timeStamps.headD 0)"},
		state:   []string{"w.DoneUntil()", "timeStamps", "pending", "waiters", "ev", "doneUntil", "cnt"},
		stateLn: []string{"du", "timeStamps", "pending", "waiters", "ev", "doneUntil", "cnt"},
		stateTy: []string{"Nat", "List Nat", "List (Nat × Int)", "List (Nat × List Nat)", "List Nat", "Nat", "Int"},
		evVar:   "ev", closeEv: true, topCont: true, litType: "Int", join: true,
		mapDefault: map[string]string{"pending": "(0 : Int)", "waiters": "[]"},
		loopFuel:   "timeStamps.length",
		wraps: map[string]func(string) string{
			"heap.Push(&timeStamps, ts)":   func(tail string) string { return "(let timeStamps := heapPush ts timeStamps; " + tail + ")" },
			"heap.Pop(&timeStamps)":        func(tail string) string { return "(let timeStamps := timeStamps.tail; " + tail + ")" },
			"w.doneUntil.Store(doneUntil)": func(tail string) string { return "(let du := doneUntil; " + tail + ")" },
		},
		ret:      func(vals []string, st []string) string { return "(du, timeStamps, pending, waiters, ev)" },
		fallOff:  func(st []string) string { return "(du, timeStamps, pending, waiters, ev)" },
		panicVal: "(du, timeStamps, pending, waiters, ev)",
		skipCall: func(c *ast.CallExpr) bool { return strings.HasPrefix(goStr(c.Fun), "vhook.") },
	}
	var d string
	err := fmt.Errorf("the markC branch of WaterMark.process was not found")
	if body != nil {
		t := &translator{spec: spec}
		// the two locals that are assigned inside the loops are part of the state tuple: they get a value before their
		// Go declaration so that every continuation is closed
		tr := t.stmts(body, func() string { return spec.fallOff(spec.stateLn) }, "", "")
		err = t.err
		d = fmt.Sprintf("def %s %s : %s :=\n  let doneUntil : Nat := 0\n  let cnt : Int := 0\n  %s\n", spec.leanName, spec.binders, spec.retType, tr)
	}
	if err != nil {
		d = fmt.Sprintf("/-- UNTRANSLATABLE: %s -/\ndef %s : Unit := ()\n", strings.ReplaceAll(err.Error(), "-/", "- /"), spec.leanName)
	}
	sb.WriteString(d + "\nend GenWM\n")
	if err := os.WriteFile(out, []byte(sb.String()), 0644); err != nil {
		fatal(err)
	}
}

// genLevel writes Generated/Level.lean: levelManager.discardStaleEntries
func genLevel(repo, out string) {
	p := parseDir(repo)
	var sb strings.Builder
	sb.WriteString("import Originium.Model.Levels\n")
	sb.WriteString("/-! GENERATED by /verif/extract (gotrans.go) from /repo/level.go on every check run. Do not edit.\n")
	sb.WriteString("    `discardStale`: levelManager.discardStaleEntries.  `types.ParseKey` / `types.ParseTs` of an entry's key are the\n")
	sb.WriteString("    projections of the model's versioned key; `slices.SortFunc` is a parameter (any function; the tie theorem asks\n")
	sb.WriteString("    that it keeps the elements); the Go map is an association list with unique keys, ranged over in list order.\n")
	sb.WriteString("    `Model/LevelTie.lean` proves that the output is an accepted compaction output (`Compact.Allowed`). -/\n")
	sb.WriteString("set_option linter.unusedVariables false\nnamespace GenLevel\n\n")
	fd := findFunc(p, "levelManager", "discardStaleEntries")
	spec := transSpec{
		leanName: "discardStale",
		binders:  "(sort : List Levels.E → List Levels.E) (lowIn : Nat) (entries : List Levels.E)",
		retType:  "List Levels.E",
		exprMap: map[string]string{"lm.db.oracle.discardAtOrBelow()": "lowIn", "types.ParseKey(entry.Key)": "entry.key.user",
			"types.ParseTs(entry.Key)": "entry.key.ts", "types.ParseTs(maxEntry.Key)": "maxEntry.key.ts"},
		state: []string{"res", "latest"}, stateLn: []string{"res", "latest"},
		mapDefault: map[string]string{"latest": "default"},
		wraps: map[string]func(string) string{
			"slices.SortFunc(res, *": func(tail string) string { return "(let res := sort res; " + tail + ")" },
		},
		ret:      func(vals []string, st []string) string { return vals[0] },
		fallOff:  func(st []string) string { return "res" },
		panicVal: "[]",
		skipCall: func(c *ast.CallExpr) bool { return strings.HasPrefix(goStr(c.Fun), "vhook.") },
	}
	var d string
	err := fmt.Errorf("levelManager.discardStaleEntries not found")
	if fd != nil {
		t := &translator{spec: spec}
		tr := t.stmts(fd.Body.List, func() string { return spec.fallOff(spec.stateLn) }, "", "")
		err = t.err
		d = fmt.Sprintf("def %s %s : %s :=\n  let res : List Levels.E := []\n  let latest : List (Key.Bytes × Levels.E) := []\n  %s\n", spec.leanName, spec.binders, spec.retType, tr)
	}
	if err != nil {
		d = fmt.Sprintf("/-- UNTRANSLATABLE: %s -/\ndef %s : Unit := ()\n", strings.ReplaceAll(err.Error(), "-/", "- /"), spec.leanName)
	}
	sb.WriteString(d + "\n")
	// maxLevelIdx: the index that names the next table of a level is one above this
	fd2 := findFunc(p, "levelManager", "maxLevelIdx")
	spec2 := transSpec{
		leanName: "maxLevelIdx",
		binders:  "(idxs : List Int)",
		retType:  "Int",
		exprMap:  map[string]string{"lm.levels[level]": "idxs", "e.Value.(tableHandle).levelIdx": "e"},
		state:    []string{"res"}, stateLn: []string{"res"}, litType: "Int",
		ret:      func(vals []string, st []string) string { return vals[0] },
		fallOff:  func(st []string) string { return "res" },
		panicVal: "res",
	}
	d2 := ""
	err2 := fmt.Errorf("levelManager.maxLevelIdx not found")
	if fd2 != nil {
		t := &translator{spec: spec2}
		tr := t.stmts(fd2.Body.List, func() string { return "res" }, "", "")
		err2 = t.err
		d2 = fmt.Sprintf("def %s %s : %s :=\n  let res : Int := 0\n  %s\n", spec2.leanName, spec2.binders, spec2.retType, tr)
	}
	if err2 != nil {
		d2 = fmt.Sprintf("/-- UNTRANSLATABLE: %s -/\ndef %s : Unit := ()\n", strings.ReplaceAll(err2.Error(), "-/", "- /"), spec2.leanName)
	}
	sb.WriteString(d2 + "\n")
	// compactLN: the order of its steps (which tables are read, in which order they are merged, when the output gets its
	// name, when it is written, when the inputs disappear from the index and from the directory)
	{
		f3 := findFunc(p, "levelManager", "compactLN")
		sp := transSpec{
			leanName: "compactLN",
			binders:  "(needLevel : Bool) (lnTable : Nat) (ln1 : List Nat) (newIdx : Nat) (writeFails : Bool) (ev : List (String × Nat))",
			retType:  "Option (List Nat × List (String × Nat))",
			exprMap: map[string]string{"len(lm.levels)-1 < n+1": "needLevel", "lm.levels[n].Front()": "lnTable", "lm.overlapLN(n+1, start, end)": "ln1",
				"tab.Value.(tableHandle)": "tab", "dataBlockLN1.Entries": "dataBlockLN1", "dataBlockLN.Entries": "dataBlockLN", "err != nil": "err"},
			state: []string{"dataBlockList", "ev"}, stateLn: []string{"dataBlockList", "ev"}, evVar: "ev",
			stateTy: []string{"List Nat", "List (String × Nat)"}, join: true,
			zero: map[string]string{"[][]types.Entry": "([] : List Nat)"},
			effects: map[string]string{
				"lm.levels = append(lm.levels, list.New())":                                                               "new level|0",
				"lm.fetch(n+1, th.levelIdx, th.dataBlockIndex.DataBlock)":                                                 "fetch LN+1|th",
				"lm.fetch(n, lnTable.Value.(tableHandle).levelIdx, lnTable.Value.(tableHandle).dataBlockIndex.DataBlock)": "fetch LN|lnTable",
				"kway.MergeVersions(dataBlockList...)":                                                                    "MergeVersions|dataBlockList.length",
				"lm.discardStaleEntries(mergedEntries)":                                                                   "discardStaleEntries|0",
				"filter.Build(discarded)":                                                                                 "filter.Build|0",
				"table.Build(discarded, lm.dataBlockSize, n+1)":                                                           "table.Build|0",
				"tableHandle{levelIdx: lm.maxLevelIdx(n+1) + 1, filter: *bf, dataBlockIndex: dataBlockIndex}":             "name := maxLevelIdx(LN+1)+1|newIdx",
				"lm.levels[n+1].PushBack(th)":                                                                             "PushBack LN+1|th",
				"lm.levels[n].Remove(lnTable)":                                                                            "Remove handle LN|lnTable",
				"lm.levels[n+1].Remove(e)":                                                                                "Remove handle LN+1|e",
				"lm.writeTable(lm.fileName(n+1, th.levelIdx), tableBytes)":                                                "writeTable LN+1|th",
				"os.Remove(lm.fileName(n, lnTable.Value.(tableHandle).levelIdx))":                                         "os.Remove LN|lnTable",
				"os.Remove(lm.fileName(n+1, e.Value.(tableHandle).levelIdx))":                                             "os.Remove LN+1|e",
			},
			binds: map[string][][2]string{
				"boundary(lnTable)": {},
				"lm.fetch(n+1, th.levelIdx, th.dataBlockIndex.DataBlock)":                                                 {{"dataBlockLN1", "th"}},
				"lm.fetch(n, lnTable.Value.(tableHandle).levelIdx, lnTable.Value.(tableHandle).dataBlockIndex.DataBlock)": {{"dataBlockLN", "lnTable"}},
				"kway.MergeVersions(dataBlockList...)":                                                                    {{"mergedEntries", "()"}},
				"lm.discardStaleEntries(mergedEntries)":                                                                   {{"discarded", "()"}},
				"filter.Build(discarded)":                                                                                 {{"bf", "()"}},
				"table.Build(discarded, lm.dataBlockSize, n+1)":                                                           {{"dataBlockIndex", "()"}, {"tableBytes", "()"}},
				"tableHandle{levelIdx: lm.maxLevelIdx(n+1) + 1, filter: *bf, dataBlockIndex: dataBlockIndex}":             {{"th", "newIdx"}},
				"lm.writeTable(lm.fileName(n+1, th.levelIdx), tableBytes)":                                                {{"err", "writeFails"}},
				"os.Remove(lm.fileName(n, lnTable.Value.(tableHandle).levelIdx))":                                         {{"err", "false"}},
				"os.Remove(lm.fileName(n+1, e.Value.(tableHandle).levelIdx))":                                             {{"err", "false"}},
			},
			wraps: map[string]func(string) string{
				"lm.logger.Panicf(\"failed to write sstable: %v\", err)":      func(string) string { return "none" },
				"lm.logger.Panicf(\"failed to delete old sstable: %v\", err)": func(string) string { return "none" },
			},
			skipStmt: func(st ast.Stmt) bool { return strings.HasPrefix(goStr(st), "defer utils.Elapsed(") },
			ret:      func(vals []string, st []string) string { return "some (dataBlockList, ev)" },
			fallOff:  func(st []string) string { return "some (dataBlockList, ev)" },
			panicVal: "none",
			skipCall: func(c *ast.CallExpr) bool { return strings.HasPrefix(goStr(c.Fun), "vhook.") },
		}
		d3 := ""
		e3 := fmt.Errorf("levelManager.compactLN not found")
		if f3 != nil {
			t := &translator{spec: sp}
			tr := t.stmts(f3.Body.List, func() string { return sp.fallOff(sp.stateLn) }, "", "")
			e3 = t.err
			d3 = fmt.Sprintf("def %s %s : %s :=\n  let dataBlockList : List Nat := []\n  %s\n", sp.leanName, sp.binders, sp.retType, tr)
		}
		if e3 != nil {
			d3 = fmt.Sprintf("/-- UNTRANSLATABLE: %s -/\ndef compactLN : Unit := ()\n", strings.ReplaceAll(e3.Error(), "-/", "- /"))
		}
		sb.WriteString(d3 + "\n")
	}
	// compactL0: the same for the compaction of level 0 into level 1 (which tables are read, in which order they are merged, when the output gets its
	// name, when it is written, when the inputs disappear from the index and from the directory)
	{
		f4 := findFunc(p, "levelManager", "compactL0")
		sp := transSpec{
			leanName: "compactL0",
			binders:  "(needLevel : Bool) (l0 : List Nat) (l1 : List Nat) (newIdx : Nat) (writeFails : Bool) (ev : List (String × Nat))",
			retType:  "Option (List Nat × List (String × Nat))",
			exprMap: map[string]string{"len(lm.levels)-1 < 1": "needLevel", "lm.overlapL0()": "l0", "lm.overlapLN(1, start, end)": "l1",
				"tab.Value.(tableHandle)": "tab", "dataBlock.Entries": "dataBlock", "err != nil": "err"},
			state: []string{"dataBlockList", "ev"}, stateLn: []string{"dataBlockList", "ev"}, evVar: "ev",
			stateTy: []string{"List Nat", "List (String × Nat)"}, join: true,
			zero: map[string]string{"[][]types.Entry": "([] : List Nat)"},
			effects: map[string]string{
				"lm.levels = append(lm.levels, list.New())":                                                 "new level|0",
				"lm.fetch(1, th.levelIdx, th.dataBlockIndex.DataBlock)":                                     "fetch L1|th",
				"lm.fetch(0, th.levelIdx, th.dataBlockIndex.DataBlock)":                                     "fetch L0|th",
				"kway.MergeVersions(dataBlockList...)":                                                      "MergeVersions|dataBlockList.length",
				"lm.discardStaleEntries(mergedEntries)":                                                     "discardStaleEntries|0",
				"filter.Build(discarded)":                                                                   "filter.Build|0",
				"table.Build(discarded, lm.dataBlockSize, 1)":                                               "table.Build|0",
				"tableHandle{levelIdx: lm.maxLevelIdx(1) + 1, filter: *bf, dataBlockIndex: dataBlockIndex}": "name := maxLevelIdx(L1)+1|newIdx",
				"lm.levels[1].PushBack(th)":                                                                 "PushBack L1|th",
				"lm.levels[0].Remove(e)":                                                                    "Remove handle L0|e",
				"lm.levels[1].Remove(e)":                                                                    "Remove handle L1|e",
				"lm.writeTable(lm.fileName(1, th.levelIdx), tableBytes)":                                    "writeTable L1|th",
				"os.Remove(lm.fileName(0, e.Value.(tableHandle).levelIdx))":                                 "os.Remove L0|e",
				"os.Remove(lm.fileName(1, e.Value.(tableHandle).levelIdx))":                                 "os.Remove L1|e",
			},
			binds: map[string][][2]string{
				"boundary(l0Tables...)":                                                                     {},
				"lm.fetch(1, th.levelIdx, th.dataBlockIndex.DataBlock)":                                     {{"dataBlock", "th"}},
				"lm.fetch(0, th.levelIdx, th.dataBlockIndex.DataBlock)":                                     {{"dataBlock", "th"}},
				"kway.MergeVersions(dataBlockList...)":                                                      {{"mergedEntries", "()"}},
				"lm.discardStaleEntries(mergedEntries)":                                                     {{"discarded", "()"}},
				"filter.Build(discarded)":                                                                   {{"bf", "()"}},
				"table.Build(discarded, lm.dataBlockSize, 1)":                                               {{"dataBlockIndex", "()"}, {"tableBytes", "()"}},
				"tableHandle{levelIdx: lm.maxLevelIdx(1) + 1, filter: *bf, dataBlockIndex: dataBlockIndex}": {{"th", "newIdx"}},
				"lm.writeTable(lm.fileName(1, th.levelIdx), tableBytes)":                                    {{"err", "writeFails"}},
				"os.Remove(lm.fileName(0, e.Value.(tableHandle).levelIdx))":                                 {{"err", "false"}},
				"os.Remove(lm.fileName(1, e.Value.(tableHandle).levelIdx))":                                 {{"err", "false"}},
			},
			wraps: map[string]func(string) string{
				"lm.logger.Panicf(\"failed to write sstable: %v\", err)":      func(string) string { return "none" },
				"lm.logger.Panicf(\"failed to delete old sstable: %v\", err)": func(string) string { return "none" },
			},
			skipStmt: func(st ast.Stmt) bool { return strings.HasPrefix(goStr(st), "defer utils.Elapsed(") },
			ret:      func(vals []string, st []string) string { return "some (dataBlockList, ev)" },
			fallOff:  func(st []string) string { return "some (dataBlockList, ev)" },
			panicVal: "none",
			skipCall: func(c *ast.CallExpr) bool { return strings.HasPrefix(goStr(c.Fun), "vhook.") },
		}
		d4 := ""
		e4 := fmt.Errorf("levelManager.compactL0 not found")
		if f4 != nil {
			t := &translator{spec: sp}
			tr := t.stmts(f4.Body.List, func() string { return sp.fallOff(sp.stateLn) }, "", "")
			e4 = t.err
			d4 = fmt.Sprintf("def %s %s : %s :=\n  let dataBlockList : List Nat := []\n  %s\n", sp.leanName, sp.binders, sp.retType, tr)
		}
		if e4 != nil {
			d4 = fmt.Sprintf("/-- UNTRANSLATABLE: %s -/\ndef compactL0 : Unit := ()\n", strings.ReplaceAll(e4.Error(), "-/", "- /"))
		}
		sb.WriteString(d4 + "\n")
	}
	// flushToL0: the name and the position of a flushed table
	{
		f6 := findFunc(p, "levelManager", "flushToL0")
		lit := "tableHandle{levelIdx: lm.maxLevelIdx(0) + 1, filter: *bf, dataBlockIndex: dataBlockIndex}"
		wt := "lm.writeTable(lm.fileName(0, th.levelIdx), tableBytes)"
		sp := transSpec{
			leanName: "flushToL0",
			binders:  "(noLevel : Bool) (newIdx : Nat) (writeFails : Bool) (ev : List (String × Nat))",
			retType:  "Bool × List (String × Nat)",
			exprMap:  map[string]string{"len(lm.levels) == 0": "noLevel", wt: "WT"},
			state:    []string{"ev"}, stateLn: []string{"ev"}, evVar: "ev", stateTy: []string{"List (String × Nat)"},
			effects: map[string]string{
				"lm.mu.Lock()": "lm.mu.Lock|0",
				"lm.levels = append(lm.levels, list.New())": "new level|0",
				"filter.Build(kvs)":                         "filter.Build(all entries)|0",
				"table.Build(kvs, lm.dataBlockSize, 0)":     "table.Build(all entries)|0",
				lit:                                         "name := maxLevelIdx(L0)+1|newIdx",
				"lm.levels[0].PushBack(th)":                 "PushBack L0|th",
			},
			binds: map[string][][2]string{
				"filter.Build(kvs)":                     {{"bf", "()"}},
				"table.Build(kvs, lm.dataBlockSize, 0)": {{"dataBlockIndex", "()"}, {"tableBytes", "()"}},
				lit:                                     {{"th", "newIdx"}},
			},
			skipStmt: func(st ast.Stmt) bool { return goStr(st) == "defer lm.mu.Unlock()" },
			ret: func(vals []string, st []string) string {
				if vals[0] == "WT" {
					return "(!writeFails, ev ++ [(\"writeTable L0\", th)])"
				}
				return "(false, ev)"
			},
			fallOff:  func(st []string) string { return "(true, ev)" },
			panicVal: "(false, ev)",
			skipCall: func(c *ast.CallExpr) bool { return strings.HasPrefix(goStr(c.Fun), "vhook.") },
		}
		d6 := ""
		e6 := fmt.Errorf("levelManager.flushToL0 not found")
		if f6 != nil {
			d6, e6 = translateFunc(f6, sp)
		}
		if e6 != nil {
			d6 = fmt.Sprintf("/-- UNTRANSLATABLE: %s -/\ndef flushToL0 : Unit := ()\n", strings.ReplaceAll(e6.Error(), "-/", "- /"))
		}
		sb.WriteString(d6 + "\n")
	}
	// levelManager.recover: which handles Open rebuilds from the directory
	{
		fr := findFunc(p, "levelManager", "recover")
		sp := transSpec{
			leanName: "recover",
			binders: "{φ ν η ι β : Type} (isDir : φ → Bool) (isDB isTmp : φ → Bool) (fname : φ → ν) (sortN : List ν → List ν) (plevel pidx : ν → Nat) (badName : ν → Bool) " +
				"(fails : ν → Nat → Bool) (indexOf : ν → ι) (entriesOf : ν → List η) (ver : η → Nat) (mkFilter : List η → β) (readDirFails : Bool) (files : List φ) (ev : List (String × ν))",
			retType: "Option (Nat × List (List (Nat × β × ι)) × List (String × ν))",
			exprMap: map[string]string{"err != nil": "err", "!file.IsDir() && path.Ext(file.Name()) == \".db\"": "(!(isDir file) && isDB file)",
				"!file.IsDir() && path.Ext(file.Name()) == _tmpSuffix": "(!(isDir file) && isTmp file)", "file.Name()": "(fname file)",
				"len(dbFiles) == 0": "(decide (dbFiles.length = 0))", "dataBlock.Entries": "dataBlock", "entry.Version": "(ver entry)",
				"len(lm.levels) <= level": "(decide (levels.length ≤ level))", "*bf": "bf", "list.New()": "[]"},
			state: []string{"dbFiles", "maxVersion", "lm.levels", "ev"}, stateLn: []string{"dbFiles", "maxVersion", "levels", "ev"}, evVar: "ev",
			stateTy:  []string{"List ν", "Nat", "List (List (Nat × β × ι))", "List (String × ν)"},
			zero:     map[string]string{"[]string": "[]", "int64": "0", "table.Footer": "()", "table.Index": "()", "table.Data": "()"},
			litTuple: true, loopFuel: "(level + 1)",
			effects: map[string]string{"os.Remove(path.Join(lm.dir, file.Name()))": "os.Remove (leftover tmp)|(fname file)"},
			binds: map[string][][2]string{
				"os.ReadDir(lm.dir)":                                     {{"err", "readDirFails"}},
				"os.Remove(path.Join(lm.dir, file.Name()))":              {{"err", "false"}},
				"parseFileName(file)":                                    {{"level", "(plevel file)"}, {"idx", "(pidx file)"}, {"err", "(badName file)"}},
				"os.Open(path.Join(lm.dir, file))":                       {{"fd", "()"}, {"err", "(fails file 1)"}},
				"fd.Seek(-40, io.SeekEnd)":                               {{"err", "(fails file 2)"}},
				"fd.Read(footerBytes)":                                   {{"err", "(fails file 3)"}},
				"footer.Decode(footerBytes)":                             {{"err", "(fails file 4)"}},
				"fd.Seek(int64(footer.IndexBlock.Offset), io.SeekStart)": {{"err", "(fails file 5)"}},
				"fd.Read(indexBytes)":                                    {{"err", "(fails file 6)"}},
				"index.Decode(indexBytes)":                               {{"index", "(indexOf file)"}, {"err", "(fails file 7)"}},
				"fd.Seek(int64(index.DataBlock.Offset), io.SeekStart)":   {{"err", "(fails file 8)"}},
				"fd.Read(dataBlockBytes)":                                {{"err", "(fails file 9)"}},
				"dataBlock.Decode(dataBlockBytes)":                       {{"dataBlock", "(entriesOf file)"}, {"err", "(fails file 10)"}},
				"filter.Build(dataBlock.Entries)":                        {{"bf", "(mkFilter dataBlock)"}},
			},
			wraps: map[string]func(string) string{
				"slices.Sort(dbFiles)": func(tail string) string { return "(let dbFiles := sortN dbFiles; " + tail + ")" },
				"lm.levels[level].PushBack(th)": func(tail string) string {
					return "(let levels := levels.set level (levels.getD level [] ++ [th]); " + tail + ")"
				},
				"lm.logger.Panicf(*": func(string) string { return "none" },
			},
			skipStmt: func(st ast.Stmt) bool {
				s := goStr(st)
				return s == "lm.mu.Lock()" || s == "defer lm.mu.Unlock()" || strings.HasPrefix(s, "defer utils.Elapsed(") ||
					s == "footerBytes := make([]byte, 40)" || s == "indexBytes := make([]byte, footer.IndexBlock.Length)" || s == "dataBlockBytes := make([]byte, index.DataBlock.Length)" ||
					s == "var footer table.Footer" || s == "var index table.Index" || s == "var dataBlock table.Data"
			},
			ret:      func(vals []string, st []string) string { return "some (" + vals[0] + ", levels, ev)" },
			fallOff:  func(st []string) string { return "some (maxVersion, levels, ev)" },
			panicVal: "none",
			skipCall: func(c *ast.CallExpr) bool { return strings.HasPrefix(goStr(c.Fun), "vhook.") },
		}
		d := ""
		err := fmt.Errorf("levelManager.recover not found")
		if fr != nil {
			t := &translator{spec: sp}
			body := t.stmts(fr.Body.List, func() string { return "some (maxVersion, levels, ev)" }, "", "")
			err = t.err
			d = fmt.Sprintf("def %s %s : %s :=\n  let dbFiles : List ν := []\n  let maxVersion : Nat := 0\n  let levels : List (List (Nat × β × ι)) := []\n  %s\n", sp.leanName, sp.binders, sp.retType, body)
		}
		if err != nil {
			d = fmt.Sprintf("/-- UNTRANSLATABLE: %s -/\ndef recover : Unit := ()\n", strings.ReplaceAll(err.Error(), "-/", "- /"))
		}
		sb.WriteString(d + "\n")
	}
	// overlapLN: which tables of a level a compaction takes
	{
		fo := findFunc(p, "levelManager", "overlapLN")
		cond := "types.CompareKeys(index.Entries[0].StartKey, end) <= 0 && types.CompareKeys(index.Entries[len(index.Entries)-1].EndKey, start) >= 0"
		sp := transSpec{
			leanName: "overlapLN",
			binders:  "{τ : Type} (startsBeforeEnd endsAfterStart : τ → Bool) (tables : List τ)",
			retType:  "List τ",
			exprMap: map[string]string{"lm.levels[level].Len() == 0": "(decide (tables.length = 0))", "lm.levels[level]": "tables", "ln": "tables",
				"e.Value.(tableHandle).dataBlockIndex": "e", cond: "(startsBeforeEnd index && endsAfterStart index)"},
			state: []string{"overlaps"}, stateLn: []string{"overlaps"}, stateTy: []string{"List τ"},
			zero: map[string]string{"[]*list.Element": "[]"},
			ret: func(vals []string, st []string) string {
				if vals[0] == "nil" {
					return "[]"
				}
				return vals[0]
			},
			fallOff:  func(st []string) string { return "overlaps" },
			panicVal: "[]",
		}
		d := ""
		err := fmt.Errorf("levelManager.overlapLN not found")
		if fo != nil {
			t := &translator{spec: sp}
			body := t.stmts(fo.Body.List, func() string { return "overlaps" }, "", "")
			err = t.err
			d = fmt.Sprintf("def %s %s : %s :=\n  let overlaps : List τ := []\n  %s\n", sp.leanName, sp.binders, sp.retType, body)
		}
		if err != nil {
			d = fmt.Sprintf("/-- UNTRANSLATABLE: %s -/\ndef overlapLN : Unit := ()\n", strings.ReplaceAll(err.Error(), "-/", "- /"))
		}
		sb.WriteString(d + "\n")
	}
	// writeTable: how a table file is published
	{
		f5 := findFunc(p, "levelManager", "writeTable")
		sp := transSpec{
			leanName: "writeTable",
			binders:  "(createFails writeFails syncFails closeFails renameFails : Bool) (ev : List String)",
			retType:  "Bool × List String",
			exprMap:  map[string]string{"name + _tmpSuffix": "()", "err != nil": "err", "os.Rename(tmp, name)": "RENAME"},
			state:    []string{"ev"}, stateLn: []string{"ev"}, evVar: "ev",
			effects: map[string]string{"os.OpenFile(tmp, os.O_CREATE|os.O_RDWR|os.O_TRUNC, 0600)": "create tmp", "fd.Write(tableBytes)": "write tmp",
				"fd.Sync()": "fsync tmp", "fd.Close()": "close tmp", "_ = fd.Close()": "close tmp (after an error)"},
			binds: map[string][][2]string{"os.OpenFile(tmp, os.O_CREATE|os.O_RDWR|os.O_TRUNC, 0600)": {{"fd", "()"}, {"err", "createFails"}},
				"fd.Write(tableBytes)": {{"err", "writeFails"}}, "fd.Sync()": {{"err", "syncFails"}}, "fd.Close()": {{"err", "closeFails"}}},
			ret: func(vals []string, st []string) string {
				if vals[0] == "RENAME" {
					return "(!renameFails, ev ++ [\"rename tmp -> name\"])"
				}
				return "(false, ev)"
			},
			fallOff:  func(st []string) string { return "(true, ev)" },
			panicVal: "(false, ev)",
			skipCall: func(c *ast.CallExpr) bool {
				s := goStr(c.Fun)
				return strings.HasPrefix(s, "vhook.") || strings.Contains(s, ".logger.")
			},
		}
		d5 := ""
		e5 := fmt.Errorf("levelManager.writeTable not found")
		if f5 != nil {
			d5, e5 = translateFunc(f5, sp)
		}
		if e5 != nil {
			d5 = fmt.Sprintf("/-- UNTRANSLATABLE: %s -/\ndef writeTable : Unit := ()\n", strings.ReplaceAll(e5.Error(), "-/", "- /"))
		}
		sb.WriteString(d5 + "\n")
	}
	sb.WriteString("end GenLevel\n")
	if err := os.WriteFile(out, []byte(sb.String()), 0644); err != nil {
		fatal(err)
	}
}

// genDB writes Generated/DB.lean: DB.search
func genDB(repo, out string) {
	p := parseDir(repo)
	var sb strings.Builder
	sb.WriteString("import Originium.Model.Levels\n")
	sb.WriteString("/-! GENERATED by /verif/extract (gotrans.go) from /repo/db.go on every check run. Do not edit.\n")
	sb.WriteString("    `search`: DB.search — the order in which the generations are consulted.  `lb g key` stands for the lower bound of a\n")
	sb.WriteString("    memtable (`memtable.lowerBound`), `slb key` for `levelManager.searchLowerBound`; `types.IsSameKey` compares the user\n")
	sb.WriteString("    keys; the result is the entry handed to `types.Value`.  `Model/DBTie.lean` proves that this is `DB.get`. -/\n")
	sb.WriteString("set_option linter.unusedVariables false\nnamespace GenDB\nopen VKey Levels\n\n")
	fd := findFunc(p, "DB", "search")
	dflt := "(⟨⟨[], 0⟩, [], false, 0⟩ : E)"
	spec := transSpec{
		leanName: "search",
		binders:  "(lb : List E → VK → Option E) (slb : VK → Option E) (mem : List E) (imms : List (List E)) (key : VK)",
		retType:  "Option E",
		exprMap: map[string]string{"db.immutables": "imms", "e.Value.(*memtable)": "e",
			"types.IsSameKey(key, mtEntry.Key)": "(key.user == mtEntry.key.user)", "types.IsSameKey(key, imtEntry.Key)": "(key.user == imtEntry.key.user)",
			"types.IsSameKey(key, sstEntry.Key)": "(key.user == sstEntry.key.user)",
			"types.Value(mtEntry)":               "(some mtEntry)", "types.Value(imtEntry)": "(some imtEntry)", "types.Value(sstEntry)": "(some sstEntry)"},
		binds: map[string][][2]string{
			"db.memtable.lowerBound(key)":      {{"mtEntry", "((lb mem key).getD " + dflt + ")"}, {"ok", "(lb mem key).isSome"}},
			"imt.lowerBound(key)":              {{"imtEntry", "((lb imt key).getD " + dflt + ")"}, {"ok", "(lb imt key).isSome"}},
			"db.manager.searchLowerBound(key)": {{"sstEntry", "((slb key).getD " + dflt + ")"}, {"ok", "(slb key).isSome"}},
		},
		ret: func(vals []string, st []string) string {
			if len(vals) == 2 {
				return "none"
			}
			return vals[0]
		},
		fallOff:  func(st []string) string { return "none" },
		panicVal: "none",
		skipCall: func(c *ast.CallExpr) bool {
			s := goStr(c)
			return strings.HasPrefix(s, "vhook.") || s == "db.mu.RLock()" || s == "db.mu.RUnlock()"
		},
	}
	var d string
	err := fmt.Errorf("DB.search not found")
	if fd != nil {
		d, err = translateFunc(fd, spec)
	}
	if err != nil {
		d = fmt.Sprintf("/-- UNTRANSLATABLE: %s -/\ndef %s : Unit := ()\n", strings.ReplaceAll(err.Error(), "-/", "- /"), spec.leanName)
	}
	sb.WriteString(d + "\n")
	isHook := func(c *ast.CallExpr) bool {
		s := goStr(c.Fun)
		return strings.HasPrefix(s, "vhook.") || strings.Contains(s, ".logger.")
	}
	for _, it := range []struct {
		name string
		spec transSpec
	}{
		{"rawset", transSpec{
			leanName: "rawset", binders: "(size threshold : Nat) (ev : List String)", retType: "List String",
			exprMap: map[string]string{"db.memtable.size()": "size", "db.config.MemtableByteThreshold": "threshold", "db.memtable": "()"},
			state:   []string{"ev"}, stateLn: []string{"ev"}, evVar: "ev",
			effects: map[string]string{"db.memtable.set(entries...)": "memtable.set batch", "db.memtable.freeze()": "memtable.freeze",
				"db.mu.Lock()": "db.mu.Lock", "db.mu.Unlock()": "db.mu.Unlock", "db.immutables.PushBack(imt)": "immutables.PushBack",
				"db.memtable = db.memtable.reset()": "memtable = reset", "db.flushC <- imt": "flushC <- imt"},
			ret: func(vals []string, st []string) string { return "ev" }, fallOff: func(st []string) string { return "ev" }, panicVal: "ev", skipCall: isHook,
		}},
		{"flushImmutable", transSpec{
			leanName: "flushImmutable", binders: "(flushFails deleteFails : Bool) (ev : List String)", retType: "Option (List String)",
			exprMap: map[string]string{},
			state:   []string{"ev"}, stateLn: []string{"ev"}, evVar: "ev",
			effects: map[string]string{"db.manager.flushToL0(imt.all())": "manager.flushToL0", "imt.wal.Delete()": "wal.Delete"},
			binds:   map[string][][2]string{"db.manager.flushToL0(imt.all())": {{"err", "flushFails"}}, "imt.wal.Delete()": {{"err", "deleteFails"}}},
			wraps: map[string]func(string) string{
				"db.logger.Panicf(\"failed to flush immutable memtable: %v\", err)":  func(string) string { return "none" },
				"db.logger.Panicf(\"failed to delete immutable wal file: %v\", err)": func(string) string { return "none" },
			},
			ret: func(vals []string, st []string) string { return "some ev" }, fallOff: func(st []string) string { return "some ev" }, panicVal: "none",
			skipCall: func(c *ast.CallExpr) bool { return strings.HasPrefix(goStr(c.Fun), "vhook.") },
		}},
	} {
		f2 := findFunc(p, "DB", it.name)
		d2 := ""
		e2 := fmt.Errorf("DB.%s not found", it.name)
		if f2 != nil {
			sp := it.spec
			if it.name == "flushImmutable" {
				sp.exprMap["err != nil"] = "err"
			}
			d2, e2 = translateFunc(f2, sp)
		}
		if e2 != nil {
			d2 = fmt.Sprintf("/-- UNTRANSLATABLE: %s -/\ndef %s : Unit := ()\n", strings.ReplaceAll(e2.Error(), "-/", "- /"), it.spec.leanName)
		}
		sb.WriteString(d2 + "\n")
	}
	// DB.Close: the order of its effects
	{
		f3 := findFunc(p, "DB", "Close")
		sp := transSpec{
			leanName: "close", binders: "(size : Nat) (deleteFails : Bool) (ev : List String)", retType: "List String",
			exprMap: map[string]string{"mt.size()": "size", "db.memtable": "()", "err != nil": "err"},
			state:   []string{"ev"}, stateLn: []string{"ev"}, evVar: "ev",
			effects: map[string]string{"atomic.StoreUint32(&db.state, uint32(StateClosed))": "state := Closed",
				"db.oracle.writeLock.Lock()": "writeLock.Lock", "db.oracle.writeLock.Unlock()": "writeLock.Unlock",
				"db.closeC <- struct{}{}": "closeC <- signal", "<-db.closed": "<-closed", "mt.freeze()": "memtable.freeze",
				"db.flushImmutable(mt)": "flushImmutable memtable", "mt.wal.Delete()": "wal.Delete"},
			binds: map[string][][2]string{"mt.wal.Delete()": {{"err", "deleteFails"}}},
			ret:   func(vals []string, st []string) string { return "ev" }, fallOff: func(st []string) string { return "ev" }, panicVal: "ev", skipCall: isHook,
		}
		d3 := ""
		e3 := fmt.Errorf("DB.Close not found")
		if f3 != nil {
			d3, e3 = translateFunc(f3, sp)
		}
		if e3 != nil {
			d3 = fmt.Sprintf("/-- UNTRANSLATABLE: %s -/\ndef close : Unit := ()\n", strings.ReplaceAll(e3.Error(), "-/", "- /"))
		}
		sb.WriteString(d3 + "\n")
	}
	// DB.run: the two cases of the flusher's select, each as (effects, does the loop end?)
	{
		f4 := findFunc(p, "DB", "run")
		var flushBody, closeBody []ast.Stmt
		if f4 != nil {
			ast.Inspect(f4.Body, func(n ast.Node) bool {
				if cc, ok := n.(*ast.CommClause); ok && cc.Comm != nil {
					switch goStr(cc.Comm) {
					case "imt := <-db.flushC":
						flushBody = cc.Body
					case "<-db.closeC":
						closeBody = cc.Body
					}
				}
				return true
			})
		}
		for _, it := range []struct {
			name string
			body []ast.Stmt
		}{{"runFlush", flushBody}, {"runClose", closeBody}} {
			sp := transSpec{
				leanName: it.name, binders: "(closed : Bool) (queued : Nat) (ev : List String)", retType: "Bool × Bool × List String",
				exprMap: map[string]string{"len(db.flushC)": "queued"},
				state:   []string{"closed", "ev"}, stateLn: []string{"closed", "ev"}, evVar: "ev", topCont: true,
				effects: map[string]string{"db.flushImmutable(imt)": "flushImmutable", "db.manager.checkAndCompact()": "checkAndCompact",
					"db.mu.Lock()": "db.mu.Lock", "db.mu.Unlock()": "db.mu.Unlock", "db.immutables.Remove(db.immutables.Front())": "immutables.Remove Front"},
				labelExit: map[string]func([]string) string{"break LOOP": func(st []string) string { return "(true, closed, ev)" }},
				ret:       func(vals []string, st []string) string { return "(false, closed, ev)" },
				fallOff:   func(st []string) string { return "(false, closed, ev)" }, panicVal: "(false, closed, ev)", skipCall: isHook,
			}
			d4 := ""
			e4 := fmt.Errorf("the %s case of DB.run was not found", it.name)
			if it.body != nil {
				t := &translator{spec: sp}
				tr := t.stmts(it.body, func() string { return sp.fallOff(sp.stateLn) }, "", "")
				e4 = t.err
				d4 = fmt.Sprintf("def %s %s : %s :=\n  %s\n", sp.leanName, sp.binders, sp.retType, tr)
			}
			if e4 != nil {
				d4 = fmt.Sprintf("/-- UNTRANSLATABLE: %s -/\ndef %s : Unit := ()\n", strings.ReplaceAll(e4.Error(), "-/", "- /"), it.name)
			}
			sb.WriteString(d4 + "\n")
		}
	}
	// memtable.recover: the loop that merges the leftover wal files into the wal of the new memtable
	{
		f5 := findFunc(p, "memtable", "recover")
		sp := transSpec{
			leanName: "recoverWals",
			binders:  "(sort : List Nat → List Nat) (readWal : Nat → Option (List (Nat × Nat))) (walFilesIn : List Nat) (ev : List (String × Nat))",
			retType:  "Option (Nat × List (String × Nat))",
			exprMap:  map[string]string{"len(walFiles)": "walFiles.length", "entry.Version": "entry.2", "err != nil": "err"},
			state:    []string{"walFiles", "maxVersion", "ev"}, stateLn: []string{"walFiles", "maxVersion", "ev"}, evVar: "ev",
			zero: map[string]string{"[]string": "walFilesIn", "int64": "0"},
			effects: map[string]string{"wal.Open(file)": "wal.Open|file", "l.Read()": "wal.Read|file", "mt.skiplist.Set(entry)": "skiplist.Set|entry.1",
				"mt.wal.Write(entry)": "wal.Write|entry.1", "l.Delete()": "wal.Delete|file"},
			binds: map[string][][2]string{"wal.Open(file)": {{"l", "()"}, {"err", "false"}},
				"l.Read()":            {{"entries", "((readWal file).getD [])"}, {"err", "(readWal file).isNone"}},
				"mt.wal.Write(entry)": {{"err", "false"}}, "l.Delete()": {{"err", "false"}}},
			wraps: map[string]func(string) string{
				"slices.Sort(walFiles)": func(tail string) string { return "(let walFiles := sort walFiles; " + tail + ")" },
			},
			skipStmt: func(st ast.Stmt) bool {
				s := goStr(st)
				if strings.HasPrefix(s, "files, err := os.ReadDir(") || strings.HasPrefix(s, "defer utils.Elapsed(") {
					return true
				}
				if i, ok := st.(*ast.IfStmt); ok && i.Init == nil && goStr(i.Cond) == "err != nil" && strings.Contains(goStr(i.Body), "read dir") {
					return true // the error check of os.ReadDir
				}
				if r, ok := st.(*ast.RangeStmt); ok && goStr(r.X) == "files" {
					return true // the directory listing is filtered into walFiles: an input of the translated loop
				}
				return false
			},
			ret:      func(vals []string, st []string) string { return "some (" + vals[0] + ", ev)" },
			fallOff:  func(st []string) string { return "none" },
			panicVal: "none",
			skipCall: func(c *ast.CallExpr) bool {
				s := goStr(c.Fun)
				return strings.HasPrefix(s, "vhook.") || s == "mt.mu.Lock" || s == "mt.mu.Unlock" || s == "mt.logger.Infof"
			},
		}
		sp.wraps["mt.logger.Panicf(\"open wal %v failed: %v\", file, err)"] = func(string) string { return "none" }
		sp.wraps["mt.logger.Panicf(\"read wal %v failed: %v\", file, err)"] = func(string) string { return "none" }
		sp.wraps["mt.logger.Panicf(\"write wal failed: %v\", err)"] = func(string) string { return "none" }
		sp.wraps["mt.logger.Panicf(\"delete wal %v failed: %v\", file, err)"] = func(string) string { return "none" }
		d5 := ""
		e5 := fmt.Errorf("memtable.recover not found")
		if f5 != nil {
			t := &translator{spec: sp}
			tr := t.stmts(f5.Body.List, func() string { return "none" }, "", "")
			e5 = t.err
			d5 = fmt.Sprintf("def %s %s : %s :=\n  let walFiles : List Nat := []\n  let maxVersion : Nat := 0\n  %s\n", sp.leanName, sp.binders, sp.retType, tr)
		}
		if e5 != nil {
			d5 = fmt.Sprintf("/-- UNTRANSLATABLE: %s -/\ndef recoverWals : Unit := ()\n", strings.ReplaceAll(e5.Error(), "-/", "- /"))
		}
		sb.WriteString(d5 + "\n")
	}
	// memtable.set: a batch is one wal write
	{
		fm := findFunc(p, "memtable", "set")
		sp := transSpec{
			leanName: "memtableSet",
			binders:  "{ε : Type} (readOnly writeFails : Bool) (entries : List ε) (ev : List (String × List ε))",
			retType:  "Option (List (String × List ε))",
			exprMap:  map[string]string{"mt.readOnly": "readOnly", "err != nil": "err"},
			state:    []string{"ev"}, stateLn: []string{"ev"}, evVar: "ev", stateTy: []string{"List (String × List ε)"},
			effects:  map[string]string{"mt.skiplist.Set(entry)": "skiplist.Set|[entry]", "mt.wal.Write(entries...)": "wal.Write|entries"},
			binds:    map[string][][2]string{"mt.wal.Write(entries...)": {{"err", "writeFails"}}},
			wraps:    map[string]func(string) string{"mt.logger.Panicf(*": func(string) string { return "none" }},
			skipStmt: func(st ast.Stmt) bool { s := goStr(st); return s == "mt.mu.Lock()" || s == "defer mt.mu.Unlock()" },
			ret:      func(vals []string, st []string) string { return "some ev" },
			fallOff:  func(st []string) string { return "some ev" },
			panicVal: "none",
			skipCall: func(c *ast.CallExpr) bool {
				s := goStr(c.Fun)
				return strings.HasPrefix(s, "vhook.") || s == "mt.logger.Infof" || s == "mt.logger.Debugf"
			},
		}
		d := ""
		err := fmt.Errorf("memtable.set not found")
		if fm != nil {
			d, err = translateFunc(fm, sp)
		}
		if err != nil {
			d = fmt.Sprintf("/-- UNTRANSLATABLE: %s -/\ndef memtableSet : Unit := ()\n", strings.ReplaceAll(err.Error(), "-/", "- /"))
		}
		sb.WriteString(d + "\n")
	}
	// Open: the order of recovery and how the oracle is re-seeded
	{
		var fd *ast.FuncDecl
		for _, f := range p.files {
			for _, d := range f.Decls {
				if x, ok := d.(*ast.FuncDecl); ok && x.Recv == nil && x.Name.Name == "Open" {
					fd = x
				}
			}
		}
		sp := transSpec{
			leanName: "openDB",
			binders:  "(validateFails mkdirFails : Bool) (walMax dbMax : Nat) (ev : List (String × Nat))",
			retType:  "Option (Nat × List (String × Nat))",
			exprMap: map[string]string{"err != nil": "err", "uint64(max(walMaxVersion, dbMaxVersion))": "(max walMaxVersion dbMaxVersion)",
				"db.oracle.nextTs": "nextTs"},
			state: []string{"db.oracle.nextTs", "ev"}, stateLn: []string{"nextTs", "ev"}, evVar: "ev", stateTy: []string{"Nat", "List (String × Nat)"},
			effects: map[string]string{"os.MkdirAll(dir, config.FileMode)": "os.MkdirAll|0", "mt.recover()": "memtable.recover (wals)|0", "lm.recover()": "levelManager.recover (tables)|0",
				"db.oracle.readMark.Done(maxTs)": "readMark.Done|maxTs", "db.oracle.commitMark.Done(maxTs)": "commitMark.Done|maxTs", "go db.run()": "go db.run|0"},
			binds: map[string][][2]string{"config.validate()": {{"err", "validateFails"}}, "os.MkdirAll(dir, config.FileMode)": {{"err", "mkdirFails"}},
				"newMemtable(dir, config.SkipListMaxLevel, config.SkipListP)": {{"mt", "()"}}, "mt.recover()": {{"walMaxVersion", "walMax"}},
				"newLevelManager(db)": {{"lm", "()"}}, "lm.recover()": {{"dbMaxVersion", "dbMax"}}},
			skipStmt: func(st ast.Stmt) bool {
				s := goStr(st)
				return strings.HasPrefix(s, "db := &DB{") || s == "db.memtable = mt" || s == "db.manager = lm"
			},
			ret: func(vals []string, st []string) string {
				if vals[0] == "db" {
					return "some (nextTs, ev)"
				}
				return "none"
			},
			fallOff:  func(st []string) string { return "some (nextTs, ev)" },
			panicVal: "none",
			skipCall: func(c *ast.CallExpr) bool {
				s := goStr(c.Fun)
				return strings.HasPrefix(s, "vhook.") || s == "atomic.StoreUint32"
			},
		}
		d := ""
		err := fmt.Errorf("Open not found")
		if fd != nil {
			t := &translator{spec: sp}
			body := t.stmts(fd.Body.List, func() string { return "some (nextTs, ev)" }, "", "")
			err = t.err
			d = fmt.Sprintf("def %s %s : %s :=\n  let nextTs : Nat := 0\n  %s\n", sp.leanName, sp.binders, sp.retType, body)
		}
		if err != nil {
			d = fmt.Sprintf("/-- UNTRANSLATABLE: %s -/\ndef openDB : Unit := ()\n", strings.ReplaceAll(err.Error(), "-/", "- /"))
		}
		sb.WriteString(d + "\n")
	}
	sb.WriteString("end GenDB\n")
	if err := os.WriteFile(out, []byte(sb.String()), 0644); err != nil {
		fatal(err)
	}
}

// genLSM writes Generated/LSM.lean: levelManager.searchLowerBound
func genLSM(repo, out string) {
	p := parseDir(repo)
	var sb strings.Builder
	sb.WriteString("import Originium.Model.Levels\n")
	sb.WriteString("/-! GENERATED by /verif/extract (gotrans.go) from /repo/level.go on every check run. Do not edit.\n")
	sb.WriteString("    `searchLowerBound`: levelManager.searchLowerBound over the tables of every level.  Parameters: `mayContain th user`\n")
	sb.WriteString("    (the bloom filter), `idxLB th key` (`Index.LowerBound`: which data block), `fetchLB th block key`\n")
	sb.WriteString("    (`fetchAndSearchLowerBound`: the lower bound inside that block); `types.IsSameKey` compares user keys and\n")
	sb.WriteString("    `types.CompareKeys(a, b) < 0` is `vlt`.  `Model/LSMTie.lean` proves that this is `LSM.search`. -/\n")
	sb.WriteString("set_option linter.unusedVariables false\nnamespace GenLSM\nopen VKey Levels\n\n")
	fd := findFunc(p, "levelManager", "searchLowerBound")
	dflt := "(⟨⟨[], 0⟩, [], false, 0⟩ : E)"
	spec := transSpec{
		leanName: "searchLowerBound",
		binders:  "{T : Type} (mayContain : T → Key.Bytes → Bool) (idxLB : T → VK → Option Nat) (fetchLB : T → Nat → VK → Option E) (levels : List (List T)) (key : VK)",
		retType:  "Option E",
		exprMap: map[string]string{"lm.levels": "levels", "tables": "tables", "e.Value.(tableHandle)": "e",
			"th.filter.Contains(types.ParseKey(key))":   "(mayContain th key.user)",
			"types.IsSameKey(key, entry.Key)":           "(key.user == entry.key.user)",
			"types.CompareKeys(entry.Key, res.Key) < 0": "(vlt entry.key res.key)",
			"types.Entry{}": dflt},
		binds: map[string][][2]string{
			"th.dataBlockIndex.LowerBound(key)":                                     {{"dataBlockHandle", "((idxLB th key).getD 0)"}, {"ok", "(idxLB th key).isSome"}},
			"lm.fetchAndSearchLowerBound(key, level, th.levelIdx, dataBlockHandle)": {{"entry", "((fetchLB th dataBlockHandle key).getD " + dflt + ")"}, {"ok", "(fetchLB th dataBlockHandle key).isSome"}},
		},
		state: []string{"res", "found"}, stateLn: []string{"res", "found"},
		zero: map[string]string{"types.Entry": dflt, "bool": "false"},
		ret: func(vals []string, st []string) string {
			return "(if " + vals[1] + " then some " + vals[0] + " else none)"
		},
		fallOff:  func(st []string) string { return "none" },
		panicVal: "none",
		skipCall: func(c *ast.CallExpr) bool {
			s := goStr(c)
			return strings.HasPrefix(s, "vhook.") || s == "lm.mu.Lock()" || s == "lm.mu.Unlock()"
		},
	}
	var d string
	err := fmt.Errorf("levelManager.searchLowerBound not found")
	if fd != nil {
		t := &translator{spec: spec}
		tr := t.stmts(fd.Body.List, func() string { return "none" }, "", "")
		err = t.err
		d = fmt.Sprintf("def %s %s : %s :=\n  let res : E := %s\n  let found : Bool := false\n  %s\n", spec.leanName, spec.binders, spec.retType, dflt, tr)
	}
	if err != nil {
		d = fmt.Sprintf("/-- UNTRANSLATABLE: %s -/\ndef %s : Unit := ()\n", strings.ReplaceAll(err.Error(), "-/", "- /"), spec.leanName)
	}
	sb.WriteString(d + "\nend GenLSM\n")
	if err := os.WriteFile(out, []byte(sb.String()), 0644); err != nil {
		fatal(err)
	}
}

// genTable writes Generated/Table.lean: the binary searches Data.LowerBound and Index.LowerBound
// genKway: pkg/kway/merge.go — merge
func genKway(repo, out string) {
	p := parseDir(repo + "/pkg/kway")
	var sb strings.Builder
	sb.WriteString("/-! GENERATED by /verif/extract (gotrans.go) from /repo/pkg/kway/merge.go on every check run. Do not edit.\n")
	sb.WriteString("    `merge`: `lists` is the slice of the input slices (`lists[i] = list[1:]` = `set i tail`), the heap `h` a list of elements\n")
	sb.WriteString("    `(entry, LI)` kept sorted by `less` (`Heap.Less`): `heap.Push` = `hpush less` (sorted insertion), `heap.Pop` = head and tail —\n")
	sb.WriteString("    the trusted abstraction of container/heap; `latest` is the Go map (association list, unique keys, `keyOf e` = `e.Key`),\n")
	sb.WriteString("    `slices.SortFunc` a parameter `sort`; `dflt` is never read (every `[0]` is guarded by a length test).\n")
	sb.WriteString("    `Model/KwayTie.lean` proves that for strictly sorted inputs `merge true` is the specification `LSM.mergeVersions`. -/\n")
	sb.WriteString("set_option linter.unusedVariables false\nnamespace GenKway\n\n")
	sb.WriteString("/-- sorted insertion: `x` goes before the first element it is `less` than -/\ndef hpush {α : Type} (less : α → α → Bool) (x : α) : List α → List α\n  | [] => [x]\n  | y :: ys => if less x y then x :: y :: ys else y :: hpush less x ys\n\n")
	var fd *ast.FuncDecl
	for _, f := range p.files {
		for _, d := range f.Decls {
			if x, ok := d.(*ast.FuncDecl); ok && x.Recv == nil && x.Name.Name == "merge" {
				fd = x
			}
		}
	}
	elT := "(ε × Nat)"
	sp := transSpec{
		leanName: "merge",
		binders:  "{ε κ : Type} [DecidableEq κ] (keyOf : ε → κ) (tomb : ε → Bool) (less : " + elT + " → " + elT + " → Bool) (sort : List ε → List ε) (dflt : ε) (keepTombstone : Bool) (inputs : List (List ε))",
		retType:  "List ε",
		exprMap: map[string]string{
			"len(list) > 0": "(decide (0 < list.length))", "list[0]": "(list.headD dflt)", "list[1:]": "list.tail",
			"len(lists[e.LI]) > 0": "(decide (0 < (lists.getD e.2 []).length))", "lists[e.LI][0]": "((lists.getD e.2 []).headD dflt)",
			"lists[e.LI][1:]": "(lists.getD e.2 []).tail", "e.LI": "e.2", "e.Key": "(keyOf e.1)", "e.Entry": "e.1",
			"h.Len() > 0": "(decide (0 < h.length))", "entry.Tombstone": "(tomb entry)",
		},
		state: []string{"h", "lists", "latest", "merged"}, stateLn: []string{"h", "lists", "latest", "merged"},
		stateTy:      []string{"List " + elT, "List (List ε)", "List (κ × ε)", "List ε"},
		mapDefault:   map[string]string{"latest": "dflt"},
		sliceDefault: map[string]string{"lists": "[]"},
		zero:         map[string]string{"[]types.Entry": "[]"},
		litTuple:     true, loopFuel: "((inputs.map List.length).sum + 1)",
		binds: map[string][][2]string{"heap.Pop(h).(Element)": {{"e", "(h.headD (dflt, 0))"}, {"h", "h.tail"}}},
		wraps: map[string]func(string) string{
			"heap.Push(h, Element{Entry: list[0], LI: i})": func(tail string) string {
				return "(let h := hpush less (list.headD dflt, i) h; " + tail + ")"
			},
			"heap.Push(h, Element{Entry: lists[e.LI][0], LI: e.LI})": func(tail string) string {
				return "(let h := hpush less ((lists.getD e.2 []).headD dflt, e.2) h; " + tail + ")"
			},
			"slices.SortFunc(merged, *": func(tail string) string { return "(let merged := sort merged; " + tail + ")" },
		},
		skipStmt: func(st ast.Stmt) bool { s := goStr(st); return s == "h := &Heap{}" || s == "heap.Init(h)" },
		ret:      func(vals []string, st []string) string { return "merged" },
		fallOff:  func(st []string) string { return "merged" },
		panicVal: "merged",
	}
	d := ""
	err := fmt.Errorf("kway.merge not found")
	if fd != nil {
		t := &translator{spec: sp}
		body := t.stmts(fd.Body.List, func() string { return "merged" }, "", "")
		err = t.err
		d = fmt.Sprintf("def %s %s : %s :=\n  let h : List %s := []\n  let lists := inputs\n  let latest : List (κ × ε) := []\n  let merged : List ε := []\n  %s\n", sp.leanName, sp.binders, sp.retType, elT, body)
	}
	if err != nil {
		d = fmt.Sprintf("/-- UNTRANSLATABLE: %s -/\ndef merge : Unit := ()\n", strings.ReplaceAll(err.Error(), "-/", "- /"))
	}
	sb.WriteString(d + "\n")
	sb.WriteString("end GenKway\n")
	if err := os.WriteFile(out, []byte(sb.String()), 0644); err != nil {
		panic(err)
	}
}

// genCodec: table/data.go — Data.Encode
func genCodec(repo, out string) {
	p := parseDir(repo + "/table")
	var sb strings.Builder
	sb.WriteString("import Originium.Model.Codec\nimport Originium.Generated.Consts\n")
	sb.WriteString("/-! GENERATED by /verif/extract (gotrans.go) from /repo/table/data.go, index.go and footer.go on every check run. Do not edit.\n")
	sb.WriteString("    `Data.Encode`: `buf` is the staging buffer (a list of bytes; `bufferpool.Pool.Get` returns it empty, the error writer's\n")
	sb.WriteString("    `w.Write(binary.LittleEndian, x)` appends the little-endian bytes of `x` and cannot fail on a bytes.Buffer), `utils.LCP` is\n")
	sb.WriteString("    the model's `Codec.lcp`, `uint16(n)` / `uint64(n)` written little-endian are `Codec.encLE 2 n` / `Codec.encLE 8 n`, `comp x` is\n")
	sb.WriteString("    `utils.Compress` followed by `bytes.Clone`.  `Model/CodecTie.lean` proves it equal to the model's `encodeData`. -/\n")
	sb.WriteString("set_option linter.unusedVariables false\nnamespace GenCodec\nopen Codec\n\n")
	fd := findFunc(p, "Data", "Encode")
	w := func(arg, lean string) (string, func(string) string) {
		return "w.Write(binary.LittleEndian, " + arg + ")", func(tail string) string { return "(let buf := buf ++ " + lean + "; " + tail + ")" }
	}
	wraps := map[string]func(string) string{}
	for _, kv := range [][2]string{{"uint16(lcp)", "encLE 2 lcp"}, {"uint16(len(suffix))", "encLE 2 suffix.length"}, {"[]byte(suffix)", "suffix"},
		{"uint16(len(entry.Value))", "encLE 2 entry.value.length"}, {"entry.Value", "entry.value"}, {"tombstone", "[tombstone]"}, {"version", "encLE 8 version"}} {
		k, f := w(kv[0], kv[1])
		wraps[k] = f
	}
	sp := transSpec{
		leanName: "encodeData",
		binders:  "(comp : Bytes → Bytes) (entries : List Entry)",
		retType:  "Option Bytes",
		exprMap: map[string]string{"d.Entries": "entries", "utils.LCP(entry.Key, prevKey)": "(Codec.lcp entry.key prevKey)", "entry.Key[lcp:]": "(entry.key.drop lcp)",
			"len(entry.Key) > math.MaxUint16 || len(entry.Value) > math.MaxUint16": "(decide (65535 < entry.key.length) || decide (65535 < entry.value.length))",
			"uint8(0)": "(0 : UInt8)", "entry.Tombstone": "entry.tomb", "uint64(entry.Version)": "entry.version", "w.Error() != nil": "false", "w.Error()": "WERR", "ErrEntryTooLarge": "ERR",
			"entry.Key": "entry.key", "err != nil": "err", "bytes.Clone(compressed.Bytes())": "(comp buf)"},
		state: []string{"prevKey", "tombstone", "buf"}, stateLn: []string{"prevKey", "tombstone", "buf"}, stateTy: []string{"Bytes", "UInt8", "Bytes"},
		zero:  map[string]string{"string": "([] : Bytes)"},
		binds: map[string][][2]string{"bufferpool.Pool.Get()": {}, "utils.Compress(buf, compressed)": {{"err", "false"}}},
		wraps: wraps,
		skipStmt: func(st ast.Stmt) bool {
			s := goStr(st)
			return strings.HasPrefix(s, "defer bufferpool.Pool.Put(") || s == "w := utils.NewErrorWriter(buf)"
		},
		ret: func(vals []string, st []string) string {
			if len(vals) == 2 && vals[1] == "nil" {
				return "some " + vals[0]
			}
			return "none"
		},
		fallOff:  func(st []string) string { return "none" },
		panicVal: "none",
	}
	d := ""
	err := fmt.Errorf("Data.Encode not found")
	if fd != nil {
		t := &translator{spec: sp}
		body := t.stmts(fd.Body.List, func() string { return "none" }, "", "")
		err = t.err
		d = fmt.Sprintf("def %s %s : %s :=\n  let prevKey : Bytes := []\n  let tombstone : UInt8 := 0\n  let buf : Bytes := []\n  %s\n", sp.leanName, sp.binders, sp.retType, body)
	}
	if err != nil {
		d = fmt.Sprintf("/-- UNTRANSLATABLE: %s -/\ndef encodeData : Unit := ()\n", strings.ReplaceAll(err.Error(), "-/", "- /"))
	}
	sb.WriteString(d + "\n")
	// Data.Decode
	{
		sb.WriteString("/-- `r.Read(binary.LittleEndian, &x)` for a `w`-byte unsigned integer through the sticky error reader: nothing is read once an\n    error occurred; a short read is an error and consumes what was left (io.ReadFull) -/\n")
		sb.WriteString("def rdN (w : Nat) (reader : Bytes) (rerr : Bool) : Nat × Bytes × Bool :=\n  if rerr then (0, reader, true) else match decLE w reader with | some (v, rest) => (v, rest, false) | none => (0, [], true)\n\n")
		sb.WriteString("/-- the same for a byte slice of length `n` -/\n")
		sb.WriteString("def rdB (n : Nat) (reader : Bytes) (rerr : Bool) : Bytes × Bytes × Bool :=\n  if rerr then ([], reader, true) else if reader.length < n then ([], [], true) else (reader.take n, reader.drop n, false)\n\n")
		fdd := findFunc(p, "Data", "Decode")
		rn := func(v string, w string) (string, func(string) string) {
			return "r.Read(binary.LittleEndian, &" + v + ")", func(tail string) string {
				return "(let x := rdN " + w + " reader rerr; let " + v + " := x.1; let reader := x.2.1; let rerr := x.2.2; " + tail + ")"
			}
		}
		rb := func(v string, n string) (string, func(string) string) {
			return "r.Read(binary.LittleEndian, &" + v + ")", func(tail string) string {
				return "(let x := rdB " + n + " reader rerr; let " + v + " := x.1; let reader := x.2.1; let rerr := x.2.2; " + tail + ")"
			}
		}
		wr := map[string]func(string) string{}
		for _, kv := range [][2]string{{"lcp", "2"}, {"suffixLen", "2"}, {"valueLen", "2"}, {"tombstone", "1"}, {"version", "8"}} {
			k, f := rn(kv[0], kv[1])
			wr[k] = f
		}
		for _, kv := range [][2]string{{"suffix", "suffixLen"}, {"value", "valueLen"}} {
			k, f := rb(kv[0], kv[1])
			wr[k] = f
		}
		spd := transSpec{
			leanName: "decodeData",
			binders:  "(decomp : Bytes → Option Bytes) (data : Bytes) (entries0 : List (Bytes × Bytes × Bool × Nat))",
			retType:  "Option (List (Bytes × Bytes × Bool × Nat))",
			exprMap: map[string]string{"err != nil": "err", "bytes.NewReader(buf.Bytes())": "buf", "reader.Len() > 0": "(decide (0 < reader.length))",
				"r.Error() != nil": "rerr", "r.Error()": "RERR", "prevKey[:lcp] + string(suffix)": "(prevKey.take lcp ++ suffix)", "int64(version)": "version",
				"d.Entries": "entries"},
			state: []string{"reader", "rerr", "prevKey", "d.Entries"}, stateLn: []string{"reader", "rerr", "prevKey", "entries"},
			stateTy:  []string{"Bytes", "Bool", "Bytes", "List (Bytes × Bytes × Bool × Nat)"},
			zero:     map[string]string{"string": "([] : Bytes)", "uint16": "(0 : Nat)", "uint8": "(0 : Nat)", "uint64": "(0 : Nat)"},
			litTuple: true, loopFuel: "(((decomp data).getD []).length + 1)",
			binds: map[string][][2]string{"bufferpool.Pool.Get()": {},
				"utils.Decompress(bytes.NewReader(data), buf)": {{"buf", "((decomp data).getD [])"}, {"err", "(decomp data).isNone"}}},
			wraps: wr,
			skipStmt: func(st ast.Stmt) bool {
				s := goStr(st)
				return strings.HasPrefix(s, "defer bufferpool.Pool.Put(") || s == "r := utils.NewErrorReader(reader)" ||
					s == "suffix := make([]byte, suffixLen)" || s == "value := make([]byte, valueLen)"
			},
			ret: func(vals []string, st []string) string {
				if len(vals) == 1 && vals[0] == "nil" {
					return "some entries"
				}
				return "none"
			},
			fallOff:  func(st []string) string { return "some entries" },
			panicVal: "none",
		}
		dd := ""
		errd := fmt.Errorf("Data.Decode not found")
		if fdd != nil {
			t := &translator{spec: spd}
			body := t.stmts(fdd.Body.List, func() string { return "some entries" }, "", "")
			errd = t.err
			dd = fmt.Sprintf("def %s %s : %s :=\n  let reader : Bytes := []\n  let rerr : Bool := false\n  let prevKey : Bytes := []\n  let entries := entries0\n  %s\n", spd.leanName, spd.binders, spd.retType, body)
		}
		if errd != nil {
			dd = fmt.Sprintf("/-- UNTRANSLATABLE: %s -/\ndef decodeData : Unit := ()\n", strings.ReplaceAll(errd.Error(), "-/", "- /"))
		}
		sb.WriteString(dd + "\n")
	}
	// Index.Encode / Index.Decode
	{
		fe := findFunc(p, "Index", "Encode")
		wi := map[string]func(string) string{}
		for _, kv := range [][2]string{{"i.DataBlock.Offset", "encLE 8 dbOff"}, {"i.DataBlock.Length", "encLE 8 dbLen"},
			{"uint16(len(entry.StartKey))", "encLE 2 entry.1.length"}, {"[]byte(entry.StartKey)", "entry.1"},
			{"uint16(len(entry.EndKey))", "encLE 2 entry.2.1.length"}, {"[]byte(entry.EndKey)", "entry.2.1"},
			{"entry.DataHandle.Offset", "encLE 8 entry.2.2.1"}, {"entry.DataHandle.Length", "encLE 8 entry.2.2.2"}} {
			k, f := w(kv[0], kv[1])
			wi[k] = f
		}
		spe := transSpec{
			leanName: "encodeIndex",
			binders:  "(comp : Bytes → Bytes) (dbOff dbLen : Nat) (entries : List (Bytes × Bytes × Nat × Nat))",
			retType:  "Option Bytes",
			exprMap: map[string]string{"i.Entries": "entries",
				"len(entry.StartKey) > math.MaxUint16 || len(entry.EndKey) > math.MaxUint16": "(decide (65535 < entry.1.length) || decide (65535 < entry.2.1.length))",
				"w.Error() != nil": "false", "w.Error()": "WERR", "ErrEntryTooLarge": "ERR", "err != nil": "err", "bytes.Clone(compressed.Bytes())": "(comp buf)"},
			state: []string{"buf"}, stateLn: []string{"buf"}, stateTy: []string{"Bytes"},
			binds: map[string][][2]string{"bufferpool.Pool.Get()": {}, "utils.Compress(buf, compressed)": {{"err", "false"}}},
			wraps: wi,
			skipStmt: func(st ast.Stmt) bool {
				s := goStr(st)
				return strings.HasPrefix(s, "defer bufferpool.Pool.Put(") || s == "w := utils.NewErrorWriter(buf)"
			},
			ret: func(vals []string, st []string) string {
				if len(vals) == 2 && vals[1] == "nil" {
					return "some " + vals[0]
				}
				return "none"
			},
			fallOff:  func(st []string) string { return "none" },
			panicVal: "none",
		}
		de := ""
		erre := fmt.Errorf("Index.Encode not found")
		if fe != nil {
			t := &translator{spec: spe}
			body := t.stmts(fe.Body.List, func() string { return "none" }, "", "")
			erre = t.err
			de = fmt.Sprintf("def %s %s : %s :=\n  let buf : Bytes := []\n  %s\n", spe.leanName, spe.binders, spe.retType, body)
		}
		if erre != nil {
			de = fmt.Sprintf("/-- UNTRANSLATABLE: %s -/\ndef encodeIndex : Unit := ()\n", strings.ReplaceAll(erre.Error(), "-/", "- /"))
		}
		sb.WriteString(de + "\n")

		fdi := findFunc(p, "Index", "Decode")
		rd := func(v, lean, kind, arg string) (string, func(string) string) {
			return "r.Read(binary.LittleEndian, &" + v + ")", func(tail string) string {
				if kind == "rdN" {
					// on an error the target keeps the value it had
					return "(let x := " + kind + " " + arg + " reader rerr; let " + lean + " := (if x.2.2 then " + lean + " else x.1); let reader := x.2.1; let rerr := x.2.2; " + tail + ")"
				}
				return "(let x := " + kind + " " + arg + " reader rerr; let " + lean + " := x.1; let reader := x.2.1; let rerr := x.2.2; " + tail + ")"
			}
		}
		wd := map[string]func(string) string{}
		for _, kv := range [][4]string{{"i.DataBlock.Offset", "dbOff", "rdN", "8"}, {"i.DataBlock.Length", "dbLen", "rdN", "8"},
			{"startKeyLen", "startKeyLen", "rdN", "2"}, {"startKey", "startKey", "rdB", "startKeyLen"}, {"endKeyLen", "endKeyLen", "rdN", "2"},
			{"endKey", "endKey", "rdB", "endKeyLen"}, {"offset", "offset", "rdN", "8"}, {"length", "length", "rdN", "8"}} {
			k, f := rd(kv[0], kv[1], kv[2], kv[3])
			wd[k] = f
		}
		spd := transSpec{
			leanName: "decodeIndex",
			binders:  "(decomp : Bytes → Option Bytes) (data : Bytes) (dbOff0 dbLen0 : Nat) (entries0 : List (Bytes × Bytes × Nat × Nat))",
			retType:  "Option ((Nat × Nat) × List (Bytes × Bytes × Nat × Nat))",
			exprMap: map[string]string{"err != nil": "err", "bytes.NewReader(buf.Bytes())": "buf", "reader.Len() > 0": "(decide (0 < reader.length))",
				"r.Error() != nil": "rerr", "r.Error()": "RERR", "string(startKey)": "startKey", "string(endKey)": "endKey", "i.Entries": "entries"},
			state: []string{"reader", "rerr", "dbOff", "dbLen", "i.Entries"}, stateLn: []string{"reader", "rerr", "dbOff", "dbLen", "entries"},
			stateTy:  []string{"Bytes", "Bool", "Nat", "Nat", "List (Bytes × Bytes × Nat × Nat)"},
			zero:     map[string]string{"uint16": "(0 : Nat)", "uint64": "(0 : Nat)"},
			litTuple: true, loopFuel: "(((decomp data).getD []).length + 1)",
			binds: map[string][][2]string{"bufferpool.Pool.Get()": {},
				"utils.Decompress(bytes.NewReader(index), buf)": {{"buf", "((decomp data).getD [])"}, {"err", "(decomp data).isNone"}}},
			wraps: wd,
			skipStmt: func(st ast.Stmt) bool {
				s := goStr(st)
				return strings.HasPrefix(s, "defer bufferpool.Pool.Put(") || s == "r := utils.NewErrorReader(reader)" ||
					s == "startKey := make([]byte, startKeyLen)" || s == "endKey := make([]byte, endKeyLen)"
			},
			ret: func(vals []string, st []string) string {
				if len(vals) == 1 && vals[0] == "nil" {
					return "some ((dbOff, dbLen), entries)"
				}
				return "none"
			},
			fallOff:  func(st []string) string { return "some ((dbOff, dbLen), entries)" },
			panicVal: "none",
		}
		ddi := ""
		errdi := fmt.Errorf("Index.Decode not found")
		if fdi != nil {
			t := &translator{spec: spd}
			body := t.stmts(fdi.Body.List, func() string { return "some ((dbOff, dbLen), entries)" }, "", "")
			errdi = t.err
			ddi = fmt.Sprintf("def %s %s : %s :=\n  let reader : Bytes := []\n  let rerr : Bool := false\n  let dbOff := dbOff0\n  let dbLen := dbLen0\n  let entries := entries0\n  %s\n", spd.leanName, spd.binders, spd.retType, body)
		}
		if errdi != nil {
			ddi = fmt.Sprintf("/-- UNTRANSLATABLE: %s -/\ndef decodeIndex : Unit := ()\n", strings.ReplaceAll(errdi.Error(), "-/", "- /"))
		}
		sb.WriteString(ddi + "\n")
	}
	// Footer.Encode / Footer.Decode
	{
		ff := findFunc(p, "Footer", "Encode")
		wf := map[string]func(string) string{}
		for _, kv := range [][2]string{{"f.MetaBlock.Offset", "encLE 8 metaOff"}, {"f.MetaBlock.Length", "encLE 8 metaLen"},
			{"f.IndexBlock.Offset", "encLE 8 indexOff"}, {"f.IndexBlock.Length", "encLE 8 indexLen"}, {"f.Magic", "encLE 8 magic"}} {
			k, f := w(kv[0], kv[1])
			wf[k] = f
		}
		spe := transSpec{
			leanName: "encodeFooter",
			binders:  "(metaOff metaLen indexOff indexLen magic : Nat)",
			retType:  "Option Bytes",
			exprMap:  map[string]string{"w.Error() != nil": "false", "w.Error()": "WERR", "bytes.Clone(buf.Bytes())": "buf"},
			state:    []string{"buf"}, stateLn: []string{"buf"}, stateTy: []string{"Bytes"},
			binds: map[string][][2]string{"bufferpool.Pool.Get()": {}},
			wraps: wf,
			skipStmt: func(st ast.Stmt) bool {
				s := goStr(st)
				return strings.HasPrefix(s, "defer bufferpool.Pool.Put(") || s == "w := utils.NewErrorWriter(buf)"
			},
			ret: func(vals []string, st []string) string {
				if len(vals) == 2 && vals[1] == "nil" {
					return "some " + vals[0]
				}
				return "none"
			},
			fallOff:  func(st []string) string { return "none" },
			panicVal: "none",
		}
		de := ""
		erre := fmt.Errorf("Footer.Encode not found")
		if ff != nil {
			t := &translator{spec: spe}
			body := t.stmts(ff.Body.List, func() string { return "none" }, "", "")
			erre = t.err
			de = fmt.Sprintf("def %s %s : %s :=\n  let buf : Bytes := []\n  %s\n", spe.leanName, spe.binders, spe.retType, body)
		}
		if erre != nil {
			de = fmt.Sprintf("/-- UNTRANSLATABLE: %s -/\ndef encodeFooter : Unit := ()\n", strings.ReplaceAll(erre.Error(), "-/", "- /"))
		}
		sb.WriteString(de + "\n")

		fdf := findFunc(p, "Footer", "Decode")
		wd := map[string]func(string) string{}
		for _, v := range []string{"metaOffset", "metaLength", "indexOffset", "indexLength", "magic"} {
			v := v
			wd["r.Read(binary.LittleEndian, &"+v+")"] = func(tail string) string {
				return "(let x := rdN 8 reader rerr; let " + v + " := (if x.2.2 then " + v + " else x.1); let reader := x.2.1; let rerr := x.2.2; " + tail + ")"
			}
		}
		spd := transSpec{
			leanName: "decodeFooter",
			binders:  "(footer : Bytes) (f0 : Nat × Nat × Nat × Nat × Nat)",
			retType:  "Option (Nat × Nat × Nat × Nat × Nat)",
			exprMap: map[string]string{"bytes.NewReader(footer)": "footer", "r.Error() != nil": "rerr", "r.Error()": "RERR", "magic != _magic": "(decide (magic ≠ Consts.magic))",
				"ErrInvalidMagic": "ERR"},
			state:    []string{"reader", "rerr", "f.MetaBlock.Offset", "f.MetaBlock.Length", "f.IndexBlock.Offset", "f.IndexBlock.Length", "f.Magic"},
			stateLn:  []string{"reader", "rerr", "fMetaOff", "fMetaLen", "fIndexOff", "fIndexLen", "fMagic"},
			stateTy:  []string{"Bytes", "Bool", "Nat", "Nat", "Nat", "Nat", "Nat"},
			zero:     map[string]string{"uint64": "(0 : Nat)"},
			wraps:    wd,
			skipStmt: func(st ast.Stmt) bool { return goStr(st) == "r := utils.NewErrorReader(reader)" },
			ret: func(vals []string, st []string) string {
				if len(vals) == 1 && vals[0] == "nil" {
					return "some (fMetaOff, fMetaLen, fIndexOff, fIndexLen, fMagic)"
				}
				return "none"
			},
			fallOff:  func(st []string) string { return "none" },
			panicVal: "none",
		}
		dd := ""
		errd := fmt.Errorf("Footer.Decode not found")
		if fdf != nil {
			t := &translator{spec: spd}
			body := t.stmts(fdf.Body.List, func() string { return "none" }, "", "")
			errd = t.err
			dd = fmt.Sprintf("def %s %s : %s :=\n  let reader : Bytes := []\n  let rerr : Bool := false\n  let fMetaOff := f0.1\n  let fMetaLen := f0.2.1\n  let fIndexOff := f0.2.2.1\n  let fIndexLen := f0.2.2.2.1\n  let fMagic := f0.2.2.2.2\n  %s\n", spd.leanName, spd.binders, spd.retType, body)
		}
		if errd != nil {
			dd = fmt.Sprintf("/-- UNTRANSLATABLE: %s -/\ndef decodeFooter : Unit := ()\n", strings.ReplaceAll(errd.Error(), "-/", "- /"))
		}
		sb.WriteString(dd + "\n")
	}
	// Meta.Encode / Meta.Decode (CreatedUnix is time.Now().Unix(): a non-negative int64, written as its 8 little-endian bytes)
	{
		fm := findFunc(p, "Meta", "Encode")
		wm := map[string]func(string) string{}
		for _, kv := range [][2]string{{"m.CreatedUnix", "encLE 8 created"}, {"m.Level", "encLE 8 level"}} {
			k, f := w(kv[0], kv[1])
			wm[k] = f
		}
		spe := transSpec{
			leanName: "encodeMeta",
			binders:  "(created level : Nat)",
			retType:  "Option Bytes",
			exprMap:  map[string]string{"err != nil": "err", "bytes.Clone(buf.Bytes())": "buf"},
			state:    []string{"buf"}, stateLn: []string{"buf"}, stateTy: []string{"Bytes"},
			binds: map[string][][2]string{"bufferpool.Pool.Get()": {}, "w.Error()": {{"err", "false"}}},
			wraps: wm,
			skipStmt: func(st ast.Stmt) bool {
				s := goStr(st)
				return strings.HasPrefix(s, "defer bufferpool.Pool.Put(") || s == "w := utils.NewErrorWriter(buf)"
			},
			ret: func(vals []string, st []string) string {
				if len(vals) == 2 && vals[1] == "nil" {
					return "some " + vals[0]
				}
				return "none"
			},
			fallOff:  func(st []string) string { return "none" },
			panicVal: "none",
		}
		de := ""
		erre := fmt.Errorf("Meta.Encode not found")
		if fm != nil {
			t := &translator{spec: spe}
			body := t.stmts(fm.Body.List, func() string { return "none" }, "", "")
			erre = t.err
			de = fmt.Sprintf("def %s %s : %s :=\n  let buf : Bytes := []\n  %s\n", spe.leanName, spe.binders, spe.retType, body)
		}
		if erre != nil {
			de = fmt.Sprintf("/-- UNTRANSLATABLE: %s -/\ndef encodeMeta : Unit := ()\n", strings.ReplaceAll(erre.Error(), "-/", "- /"))
		}
		sb.WriteString(de + "\n")

		fdm := findFunc(p, "Meta", "Decode")
		wd := map[string]func(string) string{}
		for _, v := range []string{"createdUnix", "level"} {
			v := v
			wd["r.Read(binary.LittleEndian, &"+v+")"] = func(tail string) string {
				return "(let x := rdN 8 reader rerr; let " + v + " := (if x.2.2 then " + v + " else x.1); let reader := x.2.1; let rerr := x.2.2; " + tail + ")"
			}
		}
		spd := transSpec{
			leanName: "decodeMeta",
			binders:  "(data : Bytes) (m0 : Nat × Nat)",
			retType:  "Option (Nat × Nat)",
			exprMap:  map[string]string{"bytes.NewReader(data)": "data", "err != nil": "err"},
			state:    []string{"reader", "rerr", "m.CreatedUnix", "m.Level"}, stateLn: []string{"reader", "rerr", "mCreated", "mLevel"},
			stateTy:  []string{"Bytes", "Bool", "Nat", "Nat"},
			zero:     map[string]string{"int64": "(0 : Nat)", "uint64": "(0 : Nat)"},
			binds:    map[string][][2]string{"r.Error()": {{"err", "rerr"}}},
			wraps:    wd,
			skipStmt: func(st ast.Stmt) bool { return goStr(st) == "r := utils.NewErrorReader(reader)" },
			ret: func(vals []string, st []string) string {
				if len(vals) == 1 && vals[0] == "nil" {
					return "some (mCreated, mLevel)"
				}
				return "none"
			},
			fallOff:  func(st []string) string { return "none" },
			panicVal: "none",
		}
		dd := ""
		errd := fmt.Errorf("Meta.Decode not found")
		if fdm != nil {
			t := &translator{spec: spd}
			body := t.stmts(fdm.Body.List, func() string { return "none" }, "", "")
			errd = t.err
			dd = fmt.Sprintf("def %s %s : %s :=\n  let reader : Bytes := []\n  let rerr : Bool := false\n  let mCreated := m0.1\n  let mLevel := m0.2\n  %s\n", spd.leanName, spd.binders, spd.retType, body)
		}
		if errd != nil {
			dd = fmt.Sprintf("/-- UNTRANSLATABLE: %s -/\ndef decodeMeta : Unit := ()\n", strings.ReplaceAll(errd.Error(), "-/", "- /"))
		}
		sb.WriteString(dd + "\n")
	}
	sb.WriteString("end GenCodec\n")
	if err := os.WriteFile(out, []byte(sb.String()), 0644); err != nil {
		panic(err)
	}
}

// genWal: wal/wal.go — WAL.Write
func genWal(repo, out string) {
	p := parseDir(repo + "/wal")
	var sb strings.Builder
	sb.WriteString("/-! GENERATED by /verif/extract (gotrans.go) from /repo/wal/wal.go on every check run. Do not edit.\n")
	sb.WriteString("    `WAL.Write`: `buf` is the staging buffer (a list of bytes `β`; `bufferpool.Pool.Get` returns it empty and `binary.Write` into it\n")
	sb.WriteString("    appends and cannot fail), `enc e` is `utils.TMarshal(&e)`, `len8 n` the eight little-endian bytes of `int64(n)`; the calls on the\n")
	sb.WriteString("    file (`Seek`, the one `binary.Write(w.fd, …)`, `Sync`) are events, the write with the bytes it carries.\n")
	sb.WriteString("    `Model/WalTie.lean` writes the result out: one write of all records, then one sync, before nil is returned. -/\n")
	sb.WriteString("set_option linter.unusedVariables false\nnamespace GenWal\n\n")
	fd := findFunc(p, "WAL", "Write")
	wr := "binary.Write(w.fd, binary.LittleEndian, buf.Bytes())"
	sp := transSpec{
		leanName: "write",
		binders:  "{ε β : Type} (enc : ε → List β) (len8 : Nat → List β) (nilFD seekFails : Bool) (marshalFails : ε → Bool) (writeFails syncFails : Bool) (entries : List ε) (ev : List (String × List β))",
		retType:  "Bool × List (String × List β)",
		exprMap:  map[string]string{"w.fd == nil": "nilFD", "err != nil": "err", "int64(len(data))": "data.length"},
		state:    []string{"buf", "ev"}, stateLn: []string{"buf", "ev"}, evVar: "ev", stateTy: []string{"List β", "List (String × List β)"},
		effects: map[string]string{"w.mu.Lock()": "w.mu.Lock|[]", "w.fd.Seek(0, io.SeekEnd)": "seek to the end|[]", wr: "write|buf", "w.fd.Sync()": "fsync|[]"},
		binds: map[string][][2]string{
			"w.fd.Seek(0, io.SeekEnd)":                     {{"err", "seekFails"}},
			"bufferpool.Pool.Get()":                        {{"buf", "([] : List β)"}},
			"utils.TMarshal(&entry)":                       {{"data", "(enc entry)"}, {"err", "(marshalFails entry)"}},
			"binary.Write(buf, binary.LittleEndian, n)":    {{"buf", "(buf ++ len8 n)"}, {"err", "false"}},
			"binary.Write(buf, binary.LittleEndian, data)": {{"buf", "(buf ++ data)"}, {"err", "false"}},
			wr:            {{"err", "writeFails"}},
			"w.fd.Sync()": {{"err", "syncFails"}},
		},
		skipStmt: func(st ast.Stmt) bool {
			s := goStr(st)
			return s == "defer w.mu.Unlock()" || s == "defer bufferpool.Pool.Put(buf)"
		},
		ret: func(vals []string, st []string) string {
			if vals[0] == "nil" {
				return "(true, ev)"
			}
			return "(false, ev)"
		},
		fallOff:  func(st []string) string { return "(true, ev)" },
		panicVal: "(false, ev)",
		skipCall: func(c *ast.CallExpr) bool {
			s := goStr(c.Fun)
			return strings.HasPrefix(s, "vhook.") || strings.Contains(s, ".logger.")
		},
	}
	d := ""
	err := fmt.Errorf("WAL.Write not found")
	if fd != nil {
		d, err = translateFunc(fd, sp)
	}
	if err != nil {
		d = fmt.Sprintf("/-- UNTRANSLATABLE: %s -/\ndef write : Unit := ()\n", strings.ReplaceAll(err.Error(), "-/", "- /"))
	}
	sb.WriteString(d + "\n")
	// WAL.Read
	{
		fdr := findFunc(p, "WAL", "Read")
		rdN := "binary.Read(reader, binary.LittleEndian, &n)"
		rdD := "binary.Read(reader, binary.LittleEndian, &data)"
		spr := transSpec{
			leanName: "read",
			binders:  "{ε β : Type} (dec8 : List β → Int) (unm : List β → Option ε) (dflt : ε) (nilFD statFails seekFails readFails : Bool) (file : List β)",
			retType:  "Option (List ε)",
			exprMap: map[string]string{"w.fd == nil": "nilFD", "err != nil": "err", "info.Size() == 0": "(decide (file.length = 0))",
				"bytes.NewReader(buf.Bytes())": "buf", "reader.Len() > 0": "(decide (0 < reader.length))",
				"errors.Is(err, io.EOF) || errors.Is(err, io.ErrUnexpectedEOF)": "true",
				"n < 0 || n > int64(reader.Len())":                              "(decide (n < 0) || decide ((reader.length : Int) < n))"},
			state: []string{"reader", "entries"}, stateLn: []string{"reader", "entries"}, stateTy: []string{"List β", "List ε"},
			zero:     map[string]string{"int64": "(0 : Int)", "types.Entry": "dflt", "[]types.Entry": "[]"},
			loopFuel: "(file.length + 1)",
			binds: map[string][][2]string{
				"os.Stat(w.path)":                {{"info", "()"}, {"err", "statFails"}},
				"w.fd.Seek(0, io.SeekStart)":     {{"err", "seekFails"}},
				"bufferpool.Pool.Get()":          {{"buf", "([] : List β)"}},
				"buf.ReadFrom(w.fd)":             {{"buf", "file"}, {"err", "readFails"}},
				rdN:                              {{"n", "(dec8 reader)"}, {"err", "(decide (reader.length < 8))"}, {"reader", "(reader.drop 8)"}},
				rdD:                              {{"data", "(reader.take n.toNat)"}, {"err", "false"}, {"reader", "(reader.drop n.toNat)"}},
				"utils.TUnmarshal(data, &entry)": {{"entry", "((unm data).getD dflt)"}, {"err", "(unm data).isNone"}},
			},
			skipStmt: func(st ast.Stmt) bool {
				s := goStr(st)
				return s == "defer w.mu.Unlock()" || s == "defer bufferpool.Pool.Put(buf)" || s == "w.mu.Lock()" || s == "data := make([]byte, n)"
			},
			ret: func(vals []string, st []string) string {
				if len(vals) == 2 && vals[1] == "nil" {
					if vals[0] == "nil" {
						return "some []"
					}
					return "some " + vals[0]
				}
				return "none"
			},
			fallOff:  func(st []string) string { return "some entries" },
			panicVal: "none",
			skipCall: func(c *ast.CallExpr) bool {
				s := goStr(c.Fun)
				return strings.HasPrefix(s, "vhook.") || strings.Contains(s, ".logger.")
			},
		}
		dr := ""
		errr := fmt.Errorf("WAL.Read not found")
		if fdr != nil {
			t := &translator{spec: spr}
			body := t.stmts(fdr.Body.List, func() string { return "some entries" }, "", "")
			errr = t.err
			dr = fmt.Sprintf("def %s %s : %s :=\n  let reader : List β := []\n  let entries : List ε := []\n  %s\n", spr.leanName, spr.binders, spr.retType, body)
		}
		if errr != nil {
			dr = fmt.Sprintf("/-- UNTRANSLATABLE: %s -/\ndef read : Unit := ()\n", strings.ReplaceAll(errr.Error(), "-/", "- /"))
		}
		sb.WriteString(dr + "\n")
	}
	sb.WriteString("end GenWal\n")
	if err := os.WriteFile(out, []byte(sb.String()), 0644); err != nil {
		panic(err)
	}
}

// genFilter: pkg/filter/filter.go — Add, Contains, Build
func genFilter(repo, out string) {
	p := parseDir(repo + "/pkg/filter")
	var sb strings.Builder
	sb.WriteString("/-! GENERATED by /verif/extract (gotrans.go) from /repo/pkg/filter/filter.go on every check run. Do not edit.\n")
	sb.WriteString("    `Filter.Add`, `Filter.Contains` and `Build`.  `hashFns` is the list of the seeds of the hash functions, `h fn key` stands for\n")
	sb.WriteString("    `fn.Write(key); fn.Sum32()` on a reset hash state (the state is Reset after every use), `bitset` is the slice of bits,\n")
	sb.WriteString("    `m`, `k` are the results of the floating point formulas of `New`, `ukey e` is `types.ParseKey(e.Key)`.\n")
	sb.WriteString("    `Model/FilterTie.lean` proves them equal to the model `Filter` and that a built filter contains every key it was built from. -/\n")
	sb.WriteString("set_option linter.unusedVariables false\nnamespace GenFilter\n\n")
	idx := "int(fn.Sum32()) % len(f.bitset)"
	skipHash := func(st ast.Stmt) bool { return goStr(st) == "_, _ = fn.Write([]byte(key))" }
	skipReset := func(c *ast.CallExpr) bool { return goStr(c) == "fn.Reset()" }
	emit := func(name string, fd *ast.FuncDecl, sp transSpec) {
		d := ""
		err := fmt.Errorf("filter %s not found", name)
		if fd != nil {
			d, err = translateFunc(fd, sp)
		}
		if err != nil {
			d = fmt.Sprintf("/-- UNTRANSLATABLE: %s -/\ndef %s : Unit := ()\n", strings.ReplaceAll(err.Error(), "-/", "- /"), sp.leanName)
		}
		sb.WriteString(d + "\n")
	}
	emit("Add", findFunc(p, "Filter", "Add"), transSpec{
		leanName: "add",
		binders:  "{κ : Type} (h : Nat → κ → Nat) (hashFns : List Nat) (bitset : List Bool) (key : κ)",
		retType:  "List Bool",
		exprMap:  map[string]string{idx: "(h fn key % bitset.length)", "f.hashFns": "hashFns"},
		state:    []string{"f.bitset"}, stateLn: []string{"bitset"}, stateTy: []string{"List Bool"},
		sliceDefault: map[string]string{"bitset": "false"},
		ret:          func(vals []string, st []string) string { return "bitset" },
		fallOff:      func(st []string) string { return "bitset" },
		panicVal:     "bitset", skipStmt: skipHash, skipCall: skipReset,
	})
	emit("Contains", findFunc(p, "Filter", "Contains"), transSpec{
		leanName: "contains",
		binders:  "{κ : Type} (h : Nat → κ → Nat) (hashFns : List Nat) (bitset : List Bool) (key : κ)",
		retType:  "Bool",
		exprMap:  map[string]string{idx: "(h fn key % bitset.length)", "f.hashFns": "hashFns"},
		state:    []string{"f.bitset"}, stateLn: []string{"bitset"}, stateTy: []string{"List Bool"},
		sliceDefault: map[string]string{"bitset": "false"},
		ret:          func(vals []string, st []string) string { return vals[0] },
		fallOff:      func(st []string) string { return "true" },
		panicVal:     "false", skipStmt: skipHash, skipCall: skipReset,
	})
	var bfd *ast.FuncDecl
	for _, f := range p.files {
		for _, d := range f.Decls {
			if x, ok := d.(*ast.FuncDecl); ok && x.Recv == nil && x.Name.Name == "Build" {
				bfd = x
			}
		}
	}
	emit("Build", bfd, transSpec{
		leanName: "build",
		binders:  "{κ ε : Type} (h : Nat → κ → Nat) (ukey : ε → κ) (m k : Nat) (kvs : List ε)",
		retType:  "List Bool",
		state:    []string{"filter"}, stateLn: []string{"filter"}, stateTy: []string{"List Bool"},
		binds: map[string][][2]string{"New(len(kvs), _defaultP)": {{"filter", "(List.replicate m false)"}}},
		wraps: map[string]func(string) string{
			"filter.Add(types.ParseKey(e.Key))": func(rest string) string {
				return "(let filter := add h (List.range k) filter (ukey e); " + rest + ")"
			},
		},
		ret:      func(vals []string, st []string) string { return "filter" },
		fallOff:  func(st []string) string { return "filter" },
		panicVal: "filter",
	})
	sb.WriteString("end GenFilter\n")
	if err := os.WriteFile(out, []byte(sb.String()), 0644); err != nil {
		panic(err)
	}
}

func genTable(repo, out string) {
	p := parseDir(repo + "/table")
	var sb strings.Builder
	sb.WriteString("import Originium.Model.BS\n")
	sb.WriteString("/-! GENERATED by /verif/extract (gotrans.go) from /repo/table/data.go and index.go on every check run. Do not edit.\n")
	sb.WriteString("    The hand-written binary searches `Data.LowerBound` and `Index.LowerBound` as functions returning the index found.\n")
	sb.WriteString("    `p a` stands for `types.CompareKeys(a.Key, key) >= 0` (data entries) / `CompareKeys(a.EndKey, key) >= 0` (index\n")
	sb.WriteString("    entries); element `i` is read through `BS.geOf p entries i`; `low`, `high`, `mid` are Go ints (`Int`).\n")
	sb.WriteString("    `Model/TableTie.lean` proves both equal to `BS.lowerIdx`. -/\n")
	sb.WriteString("set_option linter.unusedVariables false\nnamespace GenTable\n\n")
	for _, it := range []struct{ recv, field, key, name, zero string }{
		{"Data", "d.Entries", "Key", "dataLowerIdx", "types.Entry{}"},
		{"Index", "i.Entries", "EndKey", "indexLowerIdx", "BlockHandle{}"},
	} {
		fd := findFunc(p, it.recv, "LowerBound")
		ret0 := it.field + "[mid]"
		if it.recv == "Index" {
			ret0 = it.field + "[mid].DataHandle"
		}
		spec := transSpec{
			leanName: it.name,
			binders:  "{α : Type} (p : α → Bool) (entries : List α)",
			retType:  "Option Nat",
			exprMap: map[string]string{
				"types.CompareKeys(" + it.field + "[mid]." + it.key + ", key) >= 0":  "(BS.geOf p entries mid.toNat)",
				"types.CompareKeys(" + it.field + "[mid-1]." + it.key + ", key) < 0": "(!(BS.geOf p entries (mid - 1).toNat))",
				it.field: "entries", ret0: "mid.toNat", it.zero: "0"},
			state: []string{"low", "high"}, stateLn: []string{"low", "high"}, stateTy: []string{"Int", "Int"},
			litType: "Int", loopFuel: "(entries.length + 1)",
			ret: func(vals []string, st []string) string {
				if vals[1] == "true" {
					return "some " + vals[0]
				}
				return "none"
			},
			fallOff:  func(st []string) string { return "none" },
			panicVal: "none",
		}
		d := ""
		err := fmt.Errorf("%s.LowerBound not found", it.recv)
		if fd != nil {
			t := &translator{spec: spec}
			tr := t.stmts(fd.Body.List, func() string { return "none" }, "", "")
			err = t.err
			d = fmt.Sprintf("def %s %s : %s :=\n  let low : Int := 0\n  let high : Int := 0\n  %s\n", spec.leanName, spec.binders, spec.retType, tr)
		}
		if err != nil {
			d = fmt.Sprintf("/-- UNTRANSLATABLE: %s -/\ndef %s : Unit := ()\n", strings.ReplaceAll(err.Error(), "-/", "- /"), spec.leanName)
		}
		sb.WriteString(d + "\n")
	}
	// table.Build: the loop that cuts the entries into data blocks (the statements before the index block is built)
	{
		var fd *ast.FuncDecl
		for _, f := range p.files {
			for _, d := range f.Decls {
				if x, ok := d.(*ast.FuncDecl); ok && x.Recv == nil && x.Name.Name == "Build" {
					fd = x
				}
			}
		}
		spec := transSpec{
			leanName: "buildBlocks",
			binders:  "{α : Type} (sz : α → Nat) (dataBlockSize : Nat) (entries : List α)",
			retType:  "List (List α)",
			exprMap:  map[string]string{"len(entry.Key) + len(entry.Value) + 1": "(sz entry)", "data.Entries": "data", "data": "data", "Data{}": "[]"},
			state:    []string{"dataBlocks", "currSize", "data.Entries"}, stateLn: []string{"dataBlocks", "currSize", "data"},
			zero:     map[string]string{"[]Data": "[]", "int": "0", "Data": "[]"},
			ret:      func(vals []string, st []string) string { return "dataBlocks" },
			fallOff:  func(st []string) string { return "dataBlocks" },
			panicVal: "dataBlocks",
			skipStmt: func(st ast.Stmt) bool {
				s := goStr(st)
				return s == "buf := bufferpool.Pool.Get()" || s == "defer bufferpool.Pool.Put(buf)"
			},
		}
		d := ""
		err := fmt.Errorf("table.Build not found")
		if fd != nil {
			var part []ast.Stmt
			for _, st := range fd.Body.List {
				if goStr(st) == "var indexBlock Index" {
					break
				}
				part = append(part, st)
			}
			t := &translator{spec: spec}
			tr := t.stmts(part, func() string { return "dataBlocks" }, "", "")
			err = t.err
			d = fmt.Sprintf("def %s %s : %s :=\n  let dataBlocks : List (List α) := []\n  let currSize : Nat := 0\n  let data : List α := []\n  %s\n", spec.leanName, spec.binders, spec.retType, tr)
		}
		if err != nil {
			d = fmt.Sprintf("/-- UNTRANSLATABLE: %s -/\ndef %s : Unit := ()\n", strings.ReplaceAll(err.Error(), "-/", "- /"), spec.leanName)
		}
		sb.WriteString(d + "\n")
		// table.Build, second part: the index entries, the offsets and the data region of the file
		ix := transSpec{
			leanName: "buildIndex",
			binders:  "{α κ β : Type} (encData : List α → List β) (keyOf : α → κ) (dflt : α) (dataBlocks : List (List α))",
			retType:  "Option (List (κ × κ × Nat × Nat) × (Nat × Nat) × List β)",
			exprMap: map[string]string{"block.Entries[0].Key": "(keyOf (block.headD dflt))", "block.Entries[len(block.Entries)-1].Key": "(keyOf (block.getLastD dflt))",
				"uint64(len(dataBytes))": "dataBytes.length", "err != nil": "err"},
			state: []string{"indexBlock.Entries", "indexBlock.DataBlock", "offset", "buf"}, stateLn: []string{"ixEntries", "dataHandle", "offset", "buf"},
			stateTy:  []string{"List (κ × κ × Nat × Nat)", "(Nat × Nat)", "Nat", "List β"},
			zero:     map[string]string{"Index": "()", "uint64": "0"},
			litTuple: true,
			binds: map[string][][2]string{"block.Encode()": {{"dataBytes", "(encData block)"}, {"err", "false"}},
				"buf.Write(dataBytes)": {{"buf", "(buf ++ dataBytes)"}, {"err", "false"}}},
			ret:      func(vals []string, st []string) string { return "some (ixEntries, dataHandle, buf)" },
			fallOff:  func(st []string) string { return "some (ixEntries, dataHandle, buf)" },
			panicVal: "none",
		}
		d2 := ""
		err2 := fmt.Errorf("table.Build not found")
		if fd != nil {
			var part []ast.Stmt
			on := false
			for _, st := range fd.Body.List {
				g := goStr(st)
				if g == "var indexBlock Index" {
					on = true
				}
				if on {
					part = append(part, st)
				}
				if strings.HasPrefix(g, "indexBlock.DataBlock = BlockHandle{") {
					break
				}
			}
			err2 = fmt.Errorf("the index-building statements of table.Build were not found")
			if len(part) == 4 {
				t := &translator{spec: ix}
				tr := t.stmts(part, func() string { return "some (ixEntries, dataHandle, buf)" }, "", "")
				err2 = t.err
				d2 = fmt.Sprintf("def %s %s : %s :=\n  let ixEntries : List (κ × κ × Nat × Nat) := []\n  let dataHandle : Nat × Nat := (0, 0)\n  let offset : Nat := 0\n  let buf : List β := []\n  %s\n", ix.leanName, ix.binders, ix.retType, tr)
			}
		}
		if err2 != nil {
			d2 = fmt.Sprintf("/-- UNTRANSLATABLE: %s -/\ndef %s : Unit := ()\n", strings.ReplaceAll(err2.Error(), "-/", "- /"), ix.leanName)
		}
		sb.WriteString(d2 + "\n")
	}
	sb.WriteString("end GenTable\n")
	if err := os.WriteFile(out, []byte(sb.String()), 0644); err != nil {
		fatal(err)
	}
}

// genTypes writes Generated/Types.lean: types.CompareKeys / IsSameKey (the order every table, memtable and merge relies on) and
// utils.LCP (the prefix length Data.Encode stores)
func genTypes(repo, out string) {
	pt := parseDir(repo + "/types")
	pu := parseDir(repo + "/utils")
	var sb strings.Builder
	sb.WriteString("/-! GENERATED by /verif/extract (gotrans.go) from /repo/types/types.go and /repo/utils/utils.go on every check run. Do not edit.\n")
	sb.WriteString("    `compareKeys` = `types.CompareKeys` (Go int result as `Int`; `strings.Compare`, `ParseKey`, `ParseTs` are the parameters\n")
	sb.WriteString("    `cmpS`, `parseKey`, `parseTs`), `isSameKey` = `types.IsSameKey`, `value` = `types.Value` (`(nil, false)` is `none`), `lcp` = `utils.LCP` (a string is its list of bytes, `a[i]` is\n")
	sb.WriteString("    `a.getD i 0`, read only below both lengths). `Model/TypesTie.lean` proves them equal to `Key.compareKeys?` and `Codec.lcp`. -/\n")
	sb.WriteString("set_option linter.unusedVariables false\nnamespace GenTypes\n\n")
	emit := func(fd *ast.FuncDecl, what string, sp transSpec, pre string) {
		d := ""
		err := fmt.Errorf("%s not found", what)
		if fd != nil {
			t := &translator{spec: sp}
			body := t.stmts(fd.Body.List, func() string { return sp.fallOff(sp.stateLn) }, "", "")
			err = t.err
			d = fmt.Sprintf("def %s %s : %s :=\n  %s%s\n", sp.leanName, sp.binders, sp.retType, pre, body)
		}
		if err != nil {
			d = fmt.Sprintf("/-- UNTRANSLATABLE: %s -/\ndef %s : Unit := ()\n", strings.ReplaceAll(err.Error(), "-/", "- /"), sp.leanName)
		}
		sb.WriteString(d + "\n")
	}
	emit(findFunc(pt, "", "CompareKeys"), "types.CompareKeys", transSpec{
		leanName: "compareKeys",
		binders:  "{β κ : Type} (cmpS : κ → κ → Int) (parseKey : β → κ) (parseTs : β → Nat) (key1 key2 : β)",
		retType:  "Int",
		exprMap: map[string]string{"strings.Compare(ParseKey(key1), ParseKey(key2))": "(cmpS (parseKey key1) (parseKey key2))",
			"ParseTs(key1)": "(parseTs key1)", "ParseTs(key2)": "(parseTs key2)", "cmp != 0": "(decide (cmp ≠ (0 : Int)))",
			"1": "(1 : Int)", "-1": "(-1 : Int)", "0": "(0 : Int)"},
		ret:      func(vals []string, st []string) string { return vals[0] },
		fallOff:  func(st []string) string { return "(0 : Int)" },
		panicVal: "(0 : Int)",
	}, "")
	emit(findFunc(pt, "", "IsSameKey"), "types.IsSameKey", transSpec{
		leanName: "isSameKey",
		binders:  "{β κ : Type} [DecidableEq κ] (parseKey : β → κ) (key1 key2 : β)",
		retType:  "Bool",
		exprMap:  map[string]string{"ParseKey(key1)": "(parseKey key1)", "ParseKey(key2)": "(parseKey key2)"},
		ret:      func(vals []string, st []string) string { return vals[0] },
		fallOff:  func(st []string) string { return "false" },
		panicVal: "false",
	}, "")
	emit(findFunc(pt, "", "Value"), "types.Value", transSpec{
		leanName: "value",
		binders:  "{β : Type} (tomb : Bool) (v : β)",
		retType:  "Option β",
		exprMap:  map[string]string{"entry.Tombstone": "tomb", "entry.Value": "v"},
		ret: func(vals []string, st []string) string {
			if len(vals) == 2 && vals[1] == "true" {
				return "(some " + vals[0] + ")"
			}
			if len(vals) == 2 && vals[1] == "false" {
				return "none"
			}
			return "sorryUnsupported"
		},
		fallOff:  func(st []string) string { return "none" },
		panicVal: "none",
	}, "")
	emit(findFunc(pu, "", "LCP"), "utils.LCP", transSpec{
		leanName: "lcp",
		binders:  "(a b : List UInt8)",
		retType:  "Nat",
		exprMap:  map[string]string{"min(len(a), len(b))": "(min a.length b.length)", "a[i]": "(a.getD i 0)", "b[i]": "(b.getD i 0)"},
		state:    []string{"i"}, stateLn: []string{"i"}, stateTy: []string{"Nat"},
		zero:     map[string]string{"int": "0"}, loopFuel: "(a.length + 1)",
		ret:      func(vals []string, st []string) string { return vals[0] },
		fallOff:  func(st []string) string { return "i" },
		panicVal: "i",
	}, "let i : Nat := 0\n  ")
	sb.WriteString("end GenTypes\n")
	if err := os.WriteFile(out, []byte(sb.String()), 0644); err != nil {
		fatal(err)
	}
}
