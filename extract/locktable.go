package main

// Lock table: for every access to a shared location of the engine, the set of locks held at that point,
// computed from the source on every run (intraprocedural lock tracking + propagation of the callers' lock sets
// along the package-local call graph).  The Lean theorem `C12_lock_discipline` is checked against this table.

import (
	"fmt"
	"go/ast"
	"go/token"
	"os"
	"sort"
	"strings"
)

// receiver / variable names -> type (the extractor does no type checking; this table is its assumption)
var varTypes = map[string]string{
	"db": "DB", "lm": "levelManager", "mt": "memtable", "imt": "memtable", "o": "oracle", "orc": "oracle",
	"t": "Txn", "txn": "Txn", "w": "WAL", "l": "WAL", "th": "tableHandle",
	"db.manager": "levelManager", "db.memtable": "memtable", "db.oracle": "oracle", "t.db": "DB", "lm.db": "DB",
	"t.db.oracle": "oracle", "lm.db.oracle": "oracle", "mt.wal": "WAL", "imt.wal": "WAL", "db.memtable.wal": "WAL",
	"mt.skiplist": "SkipList", "t.db.manager": "levelManager",
}

func typeOfExpr(e ast.Expr) string {
	s := exprStr(e)
	if t, ok := varTypes[s]; ok {
		return t
	}
	return ""
}

type access struct {
	loc   string
	write bool
	locks []string // "name:X" exclusive or "name:S" shared
}

type callSite struct {
	callee string
	locks  []string
}

// a point where a goroutine may have to wait: a lock acquisition, a channel operation, WaitForMark
type blockOp struct {
	op    string
	locks []string
}

type fnInfo struct {
	name     string
	accesses []access
	calls    []callSite
	goes     []string
	blocks   []blockOp
}

type lockWalker struct {
	held  []string
	info  *fnInfo
	recvT string
}

func (w *lockWalker) lockName(recv ast.Expr) string {
	s := exprStr(recv)
	// x.mu / x.writeLock / embedded mutex of the oracle
	if i := strings.LastIndex(s, "."); i >= 0 {
		base, field := s[:i], s[i+1:]
		if t, ok := varTypes[base]; ok {
			return t + "." + field
		}
		return s
	}
	if t, ok := varTypes[s]; ok && t == "oracle" {
		return "oracle.Mutex"
	}
	return s
}

func (w *lockWalker) hold(name string, excl bool) {
	m := ":S"
	if excl {
		m = ":X"
	}
	w.held = append(w.held, name+m)
}

func (w *lockWalker) release(name string) {
	for i := len(w.held) - 1; i >= 0; i-- {
		if strings.HasPrefix(w.held[i], name+":") {
			w.held = append(w.held[:i], w.held[i+1:]...)
			return
		}
	}
}

func (w *lockWalker) blk(op string) {
	w.info.blocks = append(w.info.blocks, blockOp{op, append([]string(nil), w.held...)})
}

// name of a channel expression: DB.flushC for db.flushC
func chanName(e ast.Expr) string {
	s := exprStr(e)
	if i := strings.LastIndex(s, "."); i >= 0 {
		if t, ok := varTypes[s[:i]]; ok {
			return t + "." + s[i+1:]
		}
	}
	return s
}

func (w *lockWalker) acc(loc string, write bool) {
	w.info.accesses = append(w.info.accesses, access{loc, write, append([]string(nil), w.held...)})
}

var containerWrites = map[string]bool{"PushBack": true, "Remove": true, "Set": true, "Delete": true, "Add": true, "Contains": true, "Reset": true, "Write": true, "Close": true, "Sync": true, "Seek": true}

// location of a selector expression, if it is one of the tracked shared fields
func trackedLoc(e ast.Expr) string {
	s := exprStr(e)
	for {
		if strings.HasSuffix(s, "[]") {
			s = strings.TrimSuffix(s, "[]")
			continue
		}
		break
	}
	i := strings.LastIndex(s, ".")
	if i < 0 {
		return ""
	}
	base, field := s[:i], s[i+1:]
	t, ok := varTypes[base]
	if !ok {
		return ""
	}
	switch t + "." + field {
	case "DB.memtable", "DB.immutables", "levelManager.levels", "oracle.nextTs", "oracle.committedTxns", "oracle.lastCleanUpTs",
		"memtable.skiplist", "memtable.wal", "memtable.readOnly", "WAL.fd", "tableHandle.filter":
		return t + "." + field
	}
	return ""
}

func (w *lockWalker) expr(e ast.Expr, lhs bool) {
	switch x := e.(type) {
	case nil:
	case *ast.CallExpr:
		for _, a := range x.Args {
			w.expr(a, false)
		}
		switch f := x.Fun.(type) {
		case *ast.SelectorExpr:
			name := f.Sel.Name
			if lockMethods[name] {
				ln := w.lockName(f.X)
				switch name {
				case "Lock":
					w.blk("lock " + ln)
					w.hold(ln, true)
				case "RLock":
					w.blk("rlock " + ln)
					w.hold(ln, false)
				default:
					w.release(ln)
				}
				return
			}
			if name == "WaitForMark" {
				w.blk("wait " + exprStr(f.X))
			}
			// method call on a tracked location: a read or a write of the object behind it
			if loc := trackedLoc(f.X); loc != "" {
				// x.wal.M() and db.memtable.M() read the pointer field and call into the object (which has its own lock);
				// the other tracked fields are containers without a lock of their own: the call is the access
				if loc == "memtable.wal" || loc == "DB.memtable" {
					w.acc(loc, false)
				} else {
					w.acc(loc, containerWrites[name])
				}
				if loc == "memtable.wal" || loc == "DB.memtable" {
					// also a call into that object
					if t := typeOfExpr(f.X); t != "" {
						w.info.calls = append(w.info.calls, callSite{t + "." + name, append([]string(nil), w.held...)})
					}
				}
				w.expr(f.X, false)
				return
			}
			w.expr(f.X, false)
			if t := typeOfExpr(f.X); t != "" {
				w.info.calls = append(w.info.calls, callSite{t + "." + name, append([]string(nil), w.held...)})
			} else if id, ok := f.X.(*ast.Ident); ok && (id.Name == "wal" || id.Name == "table" || id.Name == "filter" || id.Name == "kway") {
				w.info.calls = append(w.info.calls, callSite{id.Name + ":" + name, append([]string(nil), w.held...)})
			}
		case *ast.Ident:
			w.info.calls = append(w.info.calls, callSite{f.Name, append([]string(nil), w.held...)})
		case *ast.FuncLit:
			w.block(f.Body)
		}
	case *ast.SelectorExpr:
		if loc := trackedLoc(x); loc != "" {
			w.acc(loc, lhs)
			return
		}
		w.expr(x.X, false)
	case *ast.IndexExpr:
		if loc := trackedLoc(x.X); loc != "" {
			w.acc(loc, lhs)
		} else {
			w.expr(x.X, false)
		}
		w.expr(x.Index, false)
	case *ast.UnaryExpr:
		if x.Op == token.ARROW {
			w.blk("recv " + chanName(x.X))
		}
		w.expr(x.X, false)
	case *ast.BinaryExpr:
		w.expr(x.X, false)
		w.expr(x.Y, false)
	case *ast.ParenExpr:
		w.expr(x.X, false)
	case *ast.StarExpr:
		w.expr(x.X, lhs)
	case *ast.TypeAssertExpr:
		w.expr(x.X, false)
	case *ast.CompositeLit:
		for _, el := range x.Elts {
			w.expr(el, false)
		}
	case *ast.KeyValueExpr:
		w.expr(x.Value, false)
	case *ast.FuncLit:
		w.block(x.Body)
	case *ast.SliceExpr:
		w.expr(x.X, false)
	}
}

func (w *lockWalker) block(b *ast.BlockStmt) {
	if b == nil {
		return
	}
	for _, st := range b.List {
		w.stmt(st)
	}
}

func (w *lockWalker) stmt(st ast.Stmt) {
	switch x := st.(type) {
	case *ast.ExprStmt:
		w.expr(x.X, false)
	case *ast.AssignStmt:
		for _, r := range x.Rhs {
			w.expr(r, false)
		}
		for _, l := range x.Lhs {
			w.expr(l, true)
		}
	case *ast.IncDecStmt:
		w.expr(x.X, true)
	case *ast.SendStmt:
		w.blk("send " + chanName(x.Chan))
		w.expr(x.Value, false)
	case *ast.GoStmt:
		if s, ok := x.Call.Fun.(*ast.SelectorExpr); ok {
			if t := typeOfExpr(s.X); t != "" {
				w.info.goes = append(w.info.goes, t+"."+s.Sel.Name)
			}
		}
	case *ast.DeferStmt:
		if s, ok := x.Call.Fun.(*ast.SelectorExpr); ok && lockMethods[s.Sel.Name] {
			return // released at function exit
		}
		if fl, ok := x.Call.Fun.(*ast.FuncLit); ok {
			w.block(fl.Body)
			return
		}
		w.expr(x.Call, false)
	case *ast.ReturnStmt:
		for _, r := range x.Results {
			w.expr(r, false)
		}
	case *ast.IfStmt:
		if x.Init != nil {
			w.stmt(x.Init)
		}
		w.expr(x.Cond, false)
		w.block(x.Body)
		if x.Else != nil {
			w.stmt(x.Else)
		}
	case *ast.ForStmt:
		if x.Init != nil {
			w.stmt(x.Init)
		}
		w.expr(x.Cond, false)
		w.block(x.Body)
		if x.Post != nil {
			w.stmt(x.Post)
		}
	case *ast.RangeStmt:
		w.expr(x.X, false)
		w.block(x.Body)
	case *ast.BlockStmt:
		w.block(x)
	case *ast.SelectStmt:
		for _, c := range x.Body.List {
			cc := c.(*ast.CommClause)
			if cc.Comm != nil {
				w.stmt(cc.Comm)
			}
			for _, b := range cc.Body {
				w.stmt(b)
			}
		}
	case *ast.SwitchStmt:
		if x.Init != nil {
			w.stmt(x.Init)
		}
		w.expr(x.Tag, false)
		for _, c := range x.Body.List {
			cc := c.(*ast.CaseClause)
			for _, e := range cc.List {
				w.expr(e, false)
			}
			for _, b := range cc.Body {
				w.stmt(b)
			}
		}
	case *ast.LabeledStmt:
		w.stmt(x.Stmt)
	case *ast.DeclStmt:
		if g, ok := x.Decl.(*ast.GenDecl); ok && g.Tok == token.VAR {
			for _, sp := range g.Specs {
				if vs, ok := sp.(*ast.ValueSpec); ok {
					for _, v := range vs.Values {
						w.expr(v, false)
					}
				}
			}
		}
	}
}

func genLockTable(repo, out string) {
	pkgs := []struct{ dir, prefix string }{{".", ""}, {"wal", "wal:"}}
	fns := map[string]*fnInfo{}
	for _, pk := range pkgs {
		p := parseDir(repo + "/" + pk.dir)
		for _, f := range p.files {
			for _, dd := range f.Decls {
				fd, ok := dd.(*ast.FuncDecl)
				if !ok || fd.Body == nil {
					continue
				}
				name := fd.Name.Name
				recvT := ""
				if fd.Recv != nil && len(fd.Recv.List) > 0 {
					recvT = typeName(fd.Recv.List[0].Type)
					name = recvT + "." + name
				} else if pk.prefix != "" {
					name = pk.prefix + name
				}
				info := &fnInfo{name: name}
				w := &lockWalker{info: info, recvT: recvT}
				w.block(fd.Body)
				fns[name] = info
			}
		}
	}
	// entry points: the exported API and the goroutine bodies; Open runs before any other goroutine has the handle
	roots := []string{"Open", "DB.Close", "DB.View", "DB.Update", "DB.Begin", "DB.State", "Txn.Get", "Txn.Set", "Txn.Delete", "Txn.SetEntry", "Txn.Commit", "Txn.Discard", "DB.run"}
	type ctxKey struct{ fn, locks, root string }
	seen := map[ctxKey]bool{}
	type row struct {
		loc, fn, root string
		write         bool
		locks         []string
	}
	var rows []row
	type brow struct {
		op, fn, root string
		locks        []string
	}
	var brows []brow
	var visit func(fn string, ctx []string, root string, depth int)
	visit = func(fn string, ctx []string, root string, depth int) {
		info := fns[fn]
		if info == nil || depth > 12 {
			return
		}
		key := ctxKey{fn, strings.Join(ctx, ","), root}
		if seen[key] {
			return
		}
		seen[key] = true
		for _, a := range info.accesses {
			rows = append(rows, row{a.loc, fn, root, a.write, uniq(append(append([]string(nil), ctx...), a.locks...))})
		}
		for _, b := range info.blocks {
			brows = append(brows, brow{b.op, fn, root, uniq(append(append([]string(nil), ctx...), b.locks...))})
		}
		for _, c := range info.calls {
			visit(c.callee, uniq(append(append([]string(nil), ctx...), c.locks...)), root, depth+1)
		}
	}
	for _, r := range roots {
		visit(r, nil, r, 0)
	}
	// canonical, duplicate free
	sort.Slice(rows, func(i, j int) bool {
		a, b := rows[i], rows[j]
		ka := fmt.Sprint(a.loc, a.write, a.locks, a.fn, a.root)
		kb := fmt.Sprint(b.loc, b.write, b.locks, b.fn, b.root)
		return ka < kb
	})
	var sb strings.Builder
	sb.WriteString("/-! GENERATED by /verif/extract (locktable.go) from /repo's current sources on every check run. Do not edit.\n")
	sb.WriteString("    One row per access to a shared location: the locks held there (X = exclusive, S = shared / RLock),\n")
	sb.WriteString("    the function containing the access and the entry point (API call or goroutine) it is reached from. -/\n")
	sb.WriteString("namespace LockTable\n\nstructure Row where\n  loc : String\n  write : Bool\n  locks : List (String × Bool)\n  fn : String\n  root : String\nderiving Repr, DecidableEq\n\n")
	sb.WriteString("def rows : List Row := [\n")
	last := ""
	first := true
	for _, r := range rows {
		var ls []string
		for _, l := range r.locks {
			p := strings.Split(l, ":")
			ls = append(ls, fmt.Sprintf("(%q, %v)", p[0], p[1] == "X"))
		}
		line := fmt.Sprintf("  { loc := %q, write := %v, locks := [%s], fn := %q, root := %q }", r.loc, r.write, strings.Join(ls, ", "), r.fn, r.root)
		if line == last {
			continue
		}
		last = line
		if !first {
			sb.WriteString(",\n")
		}
		first = false
		sb.WriteString(line)
	}
	sb.WriteString("\n]\n\n")
	// ---- where a goroutine can wait, and what it holds there ----
	sort.Slice(brows, func(i, j int) bool {
		return fmt.Sprint(brows[i].op, brows[i].locks, brows[i].fn, brows[i].root) < fmt.Sprint(brows[j].op, brows[j].locks, brows[j].fn, brows[j].root)
	})
	sb.WriteString("/-- one row per point where a goroutine may have to wait (lock acquisition, channel send / receive,\n    WaitForMark) with the locks it holds there -/\nstructure BRow where\n  kind : String\n  obj : String\n  held : List (String × Bool)\n  fn : String\n  root : String\nderiving Repr, DecidableEq\n\ndef brows : List BRow := [\n")
	last, first = "", true
	for _, r := range brows {
		var ls []string
		for _, l := range r.locks {
			p := strings.Split(l, ":")
			ls = append(ls, fmt.Sprintf("(%q, %v)", p[0], p[1] == "X"))
		}
		kp := strings.SplitN(r.op, " ", 2)
		line := fmt.Sprintf("  { kind := %q, obj := %q, held := [%s], fn := %q, root := %q }", kp[0], kp[1], strings.Join(ls, ", "), r.fn, r.root)
		if line == last {
			continue
		}
		last = line
		if !first {
			sb.WriteString(",\n")
		}
		first = false
		sb.WriteString(line)
	}
	sb.WriteString("\n]\n\nend LockTable\n")
	if err := os.WriteFile(out, []byte(sb.String()), 0644); err != nil {
		fatal(err)
	}
}

func uniq(xs []string) []string {
	m := map[string]bool{}
	var out []string
	for _, x := range xs {
		if !m[x] {
			m[x] = true
			out = append(out, x)
		}
	}
	sort.Strings(out)
	return out
}
