"""Per-property configuration of /verif/check: Lean module, correspondence suites, watched skeleton
functions, trusted base and assumptions written into the evidence file."""

COMMON_TB = [
    "Go runtime and library semantics (sync, channels, container/heap, container/list, slices.Sort*, strings, strconv, encoding/binary, os)",
]

DB_TB = COMMON_TB + ["the skiplist, table and filter layers enter through their own theorems (C17, C10, C16) and suites",
                     "atomicity of the steps is justified by the lock skeleton (db.mu, memtable.mu, levelManager.mu, oracle mutex, writeLock), re-extracted on every run"]
DB_SKEL = ["DB.search", "DB.rawset", "DB.run", "DB.flushImmutable", "DB.Close", "Open", "Txn.Commit", "memtable.set", "memtable.lowerBound",
           "levelManager.searchLowerBound", "levelManager.flushToL0", "levelManager.checkAndCompact", "levelManager.compactL0", "levelManager.compactLN",
           "levelManager.discardStaleEntries", "oracle.readTs", "oracle.newCommitTs", "oracle.doneRead", "oracle.doneCommit", "oracle.cleanUpCommittedTxns", "oracle.discardAtOrBelow"]

FS_TB = ["the operating system: a completed write/rename/remove is visible to a later reader; only fsynced bytes survive a power loss; os file calls behave as documented",
         "trace content (which entries a write carries) is decoded from the files with the repository's own decoders (tied by C11)"]
FS_SKEL = ["wal:WAL.Write", "wal:WAL.Delete", "wal:Create", "wal:WAL.Read", "levelManager.writeTable", "levelManager.flushToL0", "levelManager.compactL0",
           "levelManager.compactLN", "levelManager.recover", "memtable.recover", "memtable.set", "DB.flushImmutable", "DB.Close", "DB.run", "DB.rawset", "Open"]

PROPS = {
    "C01": {
        "lean": "Originium.Props.C01",
        "suites": ["key", "levels", "db"],
        "skeleton_funcs": DB_SKEL,
        "trusted_base": DB_TB,
        "assumptions": ["a read sliced into its per-generation lookups is treated as one step (db.search holds db.mu.RLock for its whole duration; concurrent inserts have timestamps above the reader's)"],
        "explanation": "storage model with commit/rotate/flushAdd/flushRemove/compact steps, invariant Inv proved for every step, read theorem get_eq_spec; db suite replays real executions (API results, table contents, watermark values) through the model",
    },
    "C02": {
        "lean": "Originium.Props.C02",
        "suites": ["key", "db"],
        "skeleton_funcs": DB_SKEL,
        "trusted_base": DB_TB + ["recovery rebuilds handles from files: C11_table_roundtrip; wal replay after a clean Close is empty (the directory listing is checked by the suite)"],
        "assumptions": [],
        "explanation": "Close = drain + flush as model steps (always enabled), Open recomputes nextTs from stored versions = the old counter (maxTs_present)",
    },
    "C03": {
        "lean": "Originium.Props.C03",
        "suites": ["key", "crash"],
        "skeleton_funcs": FS_SKEL,
        "trusted_base": DB_TB + FS_TB,
        "assumptions": ["process-crash model: every completed file-system call persists; one hook call = one operation = one crash point; a wal batch is one write call",
                        "which operations the engine emits (layer ii) is tied dynamically: the real trace must be accepted by Disk.accept on every run; it is not proved from a program model"],
        "explanation": "guarded-operation disk model: Inv/WF/Kept proved for every accepted event (tinv_accept), hence at every crash point incl. inside recovery; recover yields a DB.Inv state; acknowledged entries visible; crash suite replays the real fs trace through the guards and opens a crash image before every fs operation",
    },
    "C04": {
        "lean": "Originium.Props.C04",
        "suites": ["key", "crash"],
        "skeleton_funcs": FS_SKEL + ["Txn.Commit", "DB.rawset", "memtable.set"],
        "trusted_base": DB_TB + FS_TB,
        "assumptions": ["process-crash model only (a torn batch belongs to C14, which claims acknowledged commits only)"],
        "explanation": "a transaction reaches the disk through exactly one commit event carrying its whole batch; written batches stay kept, unwritten ones are absent; crash suite checks all-or-nothing of the in-flight transaction on every image",
    },
    "C14": {
        "lean": "Originium.Props.C14",
        "suites": ["key", "codec", "crash"],
        "skeleton_funcs": FS_SKEL,
        "trusted_base": DB_TB + FS_TB,
        "assumptions": ["directory operations (create, rename, remove) are ordered and durable, as the property states; only file contents after the last fsync can be lost"],
        "explanation": "CutOf (wals keep at least their synced records, tmp files arbitrary, published tables intact) preserves Inv and WF; recover on any cut disk serves every acknowledged entry; crash suite cuts unsynced tails of every file at several lengths at every crash point",
    },
    "C05": {
        "lean": "Originium.Props.C05",
        "suites": ["key", "wm", "db"],
        "skeleton_funcs": DB_SKEL,
        "trusted_base": DB_TB + ["the watermark enters through its published values (C13): the model's `mark v` step accepts any value C13 allows, arbitrarily late"],
        "assumptions": ["Begin is two steps (timestamp + wait for commitMark), Commit three steps under writeLock; finer interleavings inside one lock region are not distinguished"],
        "explanation": "coupling invariant SInv between the abstract oracle (commit atomic at commitStart) and the storage (batch applied later), proved for every step; storeRead_eq_spec",
    },
    "C06": {
        "lean": "Originium.Props.C06",
        "suites": ["key", "db", "txnconc"],
        "skeleton_funcs": DB_SKEL,
        "trusted_base": DB_TB,
        "assumptions": ["as C05; free-running goroutine histories are additionally checked by the serial-order checker in the txnconc suite"],
        "explanation": "Inv2 (reads equal the MVCC value at readTs and, for a committed transaction, at commitTs-1), real-time order from timestamp monotonicity",
    },
    "C07": {
        "lean": "Originium.Props.C07",
        "suites": ["key", "db"],
        "skeleton_funcs": DB_SKEL,
        "trusted_base": DB_TB,
        "assumptions": ["read and write sets are the keys themselves (after the F14 repair)"],
        "explanation": "conflict_iff in every reachable state incl. clean-up of the committed list under arbitrary watermark lag",
    },
    "C08": {
        "lean": "Originium.Props.C08",
        "suites": ["key", "db"],
        "skeleton_funcs": DB_SKEL,
        "trusted_base": DB_TB,
        "assumptions": [],
        "explanation": "frame theorem for non-committing steps + invariant 'every commit in the history was produced by a successful Commit' + storage holds only history entries; API decision logic stated outright and used by the driver",
    },
    "C09": {
        "lean": "Originium.Props.C09",
        "suites": ["key", "levels"],
        "skeleton_funcs": [],
        "trusted_base": COMMON_TB + ["S2 compression and the on-disk codec are exercised by the suite, proved separately in C11",
                                     "kway.MergeVersions is modelled observationally (sorted, later list wins); container/heap and map iteration are not modelled"],
        "assumptions": ["two entries with the same versioned key are identical (a versioned key is written once); the choice of compaction inputs is arbitrary in the theorem"],
        "explanation": "theorems C09_* over LSM.compactOutput/search for all table sets, watermarks and block sizes; implementation tied by the levels suite (flushToL0/checkAndCompact/recover/searchLowerBound vs model and brute-force spec)",
    },
    "C10": {
        "lean": "Originium.Props.C10",
        "suites": ["key", "levels"],
        "skeleton_funcs": [],
        "trusted_base": COMMON_TB + ["the bloom filter enters as an arbitrary predicate without false negatives (C16)"],
        "assumptions": ["tables hold strictly sorted entry lists (the flush of a skiplist, or a compaction output: C17, C09_sorted_nonempty)"],
        "explanation": "binary searches modelled literally (BS.loop) and proved equal to a linear scan; lookup over all tables proved to be the brute-force newest version",
    },
    "C11": {
        "lean": "Originium.Props.C11",
        "suites": ["key", "codec"],
        "skeleton_funcs": ["table:Data.Encode", "table:Index.Encode", "table:Footer.Encode", "table:Meta.Encode", "table:Build", "wal:WAL.Write", "wal:WAL.Read"],
        "trusted_base": COMMON_TB + ["S2 (klauspost/compress/s2) as an abstract pair with S2Law: decompressing a concatenation of compressed chunks gives the concatenation of the chunks",
                                     "frugal/thrift: the binary layout of types.Entry is written out in the model and compared byte for byte; the library decoder on valid input is assumed to invert it",
                                     "sync.Pool / bytes.Buffer: the ownership model of Pool.lean; the static fact 'encoders return bytes.Clone' is re-extracted every run"],
        "assumptions": ["second sentence (bytes do not change afterwards) is partial: the ownership rule is proved on a model, physical aliasing is a runtime fact exercised by concurrent encoders in the suite",
                        "file sizes < 2^64, wal field lengths < 2^31, versions < 2^63 (explicit hypotheses)"],
        "explanation": "byte-level codecs with round-trip theorems for all inputs; table file layout + recovery parser; wal framing with torn-tail theorem",
    },
    "C13": {
        "lean": "Originium.Props.C13",
        "suites": ["wm"],
        "skeleton_funcs": ["pkg/watermark:WaterMark.process", "pkg/watermark:WaterMark.WaitForMark", "pkg/watermark:WaterMark.Begin", "pkg/watermark:WaterMark.Done", "pkg/watermark:WaterMark.DoneUntil"],
        "trusted_base": COMMON_TB + ["container/heap keeps the minimum at index 0; the channel markC is FIFO"],
        "assumptions": ["wall-clock clauses ('returns once that is the case', context cancellation timing) are runtime behaviour: partial for those clauses"],
        "explanation": "the process loop as a fold over the FIFO mark sequence; invariant proof for all sequences; real WaterMark compared after every mark",
    },
    "C16": {
        "lean": "Originium.Props.C16",
        "suites": ["key", "filter"],
        "skeleton_funcs": [],
        "trusted_base": COMMON_TB + ["murmur3 is an arbitrary hash family (the harness feeds the real hash values to the model)",
                                     "floating point sizing of the filter: m > 0 is checked by the harness for n = 1..N, not proved"],
        "assumptions": ["m > 0"],
        "explanation": "no false negatives for every hash family, k, m > 0 and entry list",
    },
    "C17": {
        "lean": "Originium.Props.C17",
        "suites": ["key", "skiplist"],
        "skeleton_funcs": [],
        "trusted_base": COMMON_TB + ["the pointer relinking of Set/Delete is abstracted to 'level i lists the nodes of height > i in key order' (tied by the suite only)"],
        "assumptions": ["keys are versioned keys key@ts; CompareKeys on them is the (user asc, ts desc) order (Key.compareKeys_keyWithTs, suite key)"],
        "explanation": "level-descending search proved to find the first node >= target for all heights; refinement to a sorted association list",
    },
}
