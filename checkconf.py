"""Per-property configuration of /verif/check: Lean module, correspondence suites, watched skeleton
functions, trusted base and assumptions written into the evidence file."""

COMMON_TB = [
    "Go runtime and library semantics (sync, channels, container/heap, container/list, slices.Sort*, strings, strconv, encoding/binary, os)",
]

DB_TB = COMMON_TB + ["the skiplist, table and filter layers enter through their own theorems (C17, C10, C16) and suites",
                     "atomicity of the steps is justified by the lock skeleton (db.mu, memtable.mu, levelManager.mu, oracle mutex, writeLock), re-extracted on every run"]
DB_SKEL = ["DB.search", "DB.rawset", "DB.run", "DB.flushImmutable", "DB.Close", "Open", "Txn.Commit", "memtable.set", "memtable.lowerBound",
           "levelManager.searchLowerBound", "levelManager.flushToL0", "levelManager.checkAndCompact", "levelManager.compactL0", "levelManager.compactLN",
           "levelManager.discardStaleEntries", "oracle.readTs", "oracle.newCommitTs", "oracle.doneRead", "oracle.doneCommit", "oracle.cleanUpCommittedTxns", "oracle.discardAtOrBelow"]

FS_TB = ["the operating system: a completed write/rename/remove is visible to a later reader; only fsynced bytes survive a power loss; os file calls behave as documented",
         "trace content (which entries a write carries) is decoded from the files with the repository's own decoders (tied by C11)"]
FS_SKEL = ["wal:WAL.Write", "wal:WAL.Delete", "wal:Create", "wal:WAL.Read", "levelManager.writeTable", "levelManager.flushToL0", "levelManager.compactL0",
           "levelManager.compactLN", "levelManager.recover", "memtable.recover", "memtable.set", "DB.flushImmutable", "DB.Close", "DB.run", "DB.rawset", "Open"]


# ---- which declarations of /repo each model is a hand translation of (prefixes of "dir:Name" keys of golden/bodies.txt) ----
B_KEYS = ["types:"]
B_SKIP = ["pkg/skiplist:"]
B_FILTER = ["pkg/filter:", "utils:Hash"]
B_WM = ["pkg/watermark:"]
B_TABLE = ["table:", "utils:LCP", "utils:Compress", "utils:Decompress", "utils:Magic", "pkg/bufferpool:"]
B_KWAY = ["pkg/kway:"]
B_WAL = ["wal:", "utils:TMarshal", "utils:TUnmarshal"]
B_LEVEL = [".:levelManager.", ".:parseFileName", ".:boundary", ".:newLevelManager", ".:const:_tmpSuffix", "utils:Pow"]
B_MEM = [".:memtable.", ".:newMemtable"]
B_DB = [".:DB.", ".:Open", ".:Config.validate", ".:const:_,StateInitialize", ".:var:ErrMkDir", ".:var:DefaultConfig"]
B_TXN = [".:Txn.", ".:var:ErrReadOnlyTxn", ".:const:MaxKeySize"]
B_ORACLE = [".:oracle.", ".:newOracle"]
MODEL_SOURCE = {
    "C01": B_KEYS + B_SKIP + B_FILTER + B_TABLE + B_KWAY + B_LEVEL + B_MEM + B_DB,
    "C02": B_KEYS + B_SKIP + B_FILTER + B_TABLE + B_KWAY + B_LEVEL + B_MEM + B_DB + B_WAL,
    "C03": B_KEYS + B_TABLE + B_WAL + B_LEVEL + B_MEM + B_DB + B_TXN,
    "C04": B_KEYS + B_TABLE + B_WAL + B_LEVEL + B_MEM + B_DB + B_TXN,
    "C14": B_KEYS + B_TABLE + B_WAL + B_LEVEL + B_MEM + B_DB + B_TXN,
    "C05": B_KEYS + B_TXN + B_ORACLE + B_WM + B_DB + B_MEM,
    "C06": B_TXN + B_ORACLE + B_WM + B_DB,
    "C07": B_TXN + B_ORACLE + B_WM + B_DB,
    "C08": B_TXN + B_ORACLE + B_WM + B_DB,
    "C09": B_KEYS + B_TABLE + B_KWAY + B_LEVEL + [".:oracle.discardAtOrBelow"],
    "C10": B_KEYS + B_TABLE + B_FILTER + B_LEVEL,
    "C11": B_KEYS + B_TABLE + B_WAL,
    "C12": B_KEYS + B_SKIP + B_FILTER + B_WM + B_TABLE + B_KWAY + B_WAL + B_LEVEL + B_MEM + B_DB + B_TXN + B_ORACLE,
    "C13": B_WM,
    "C15": B_DB + B_TXN + B_ORACLE + B_WM + [".:memtable.set", ".:memtable.freeze", ".:memtable.reset"],
    "C16": B_FILTER + [".:levelManager.recover", ".:levelManager.flushToL0", ".:levelManager.compactL0", ".:levelManager.compactLN", ".:levelManager.searchLowerBound"],
    "C17": B_SKIP + B_KEYS,
}

PROPS = {
    "C01": {
        "lean": "Originium.Props.C01",
        "suites": ["key", "levels", "db"],
        "skeleton_funcs": DB_SKEL,
        "trusted_base": DB_TB + ["extract/gotrans.go (the Go-to-Lean translator, DESIGN section 14): regenerates GenDB.search (DB.search) from /repo on every run; memtable.lowerBound and levelManager.searchLowerBound are parameters (C17, C10), types.IsSameKey compares user keys, container/list is a list; DBTie.search_tie is part of this property's module; types.Value is translated too (GenTypes.value, TypesTie.value_eq, C01_code_read_value)"],
        "assumptions": ["a read sliced into its per-generation lookups is treated as one step (db.search holds db.mu.RLock for its whole duration; concurrent inserts have timestamps above the reader's)"],
        "explanation": "storage model with commit/rotate/flushAdd/flushRemove/compact steps, invariant Inv proved for every step, read theorem get_eq_spec; DB.search translated from the Go source on every run and proved to be the model's get (C01_code_*); db suite replays real executions (API results, table contents, watermark values) through the model",
    },
    "C02": {
        "lean": "Originium.Props.C02",
        "suites": ["key", "db", "closerace"],
        "skeleton_funcs": DB_SKEL,
        "trusted_base": DB_TB + ["recovery rebuilds handles from files: C11_table_roundtrip; wal replay after a clean Close is empty (the directory listing is checked by the suite)"] + ["extract/gotrans.go (DESIGN section 14) regenerates GenLevel.maxLevelIdx (levelManager.maxLevelIdx) from /repo on every run; LevelTie.maxLevelIdx_fresh (the next table name of a level is fresh) is part of this property's module; container/list is a list"] + ["extract/gotrans.go also regenerates GenDB.close (the order of the effects of DB.Close) and GenDB.openDB (Open: both recoveries, the re-seeding of the oracle from the largest version found, the start of the flusher); DBTie.close_table / open_table", "extract/gotrans.go also regenerates GenLevel.recover (levelManager.recover: the directory scan, the removal of leftover tmp files, the loop over the sorted table files with its ten failure exits, the growth of the level list, the handle pushed per file); LevelTie.recover_table / stepFile_max / stepFile_handles; the file contents are function parameters (entriesOf, indexOf: what the decoders return, the codec suite's business), slices.Sort any function"],
        "assumptions": [],
        "explanation": "Close = drain + flush as model steps (always enabled), Open recomputes nextTs from stored versions = the old counter (maxTs_present)",
    },
    "C03": {
        "lean": "Originium.Props.C03",
        "suites": ["key", "crash", "closerace"],
        "skeleton_funcs": FS_SKEL,
        "trusted_base": DB_TB + FS_TB + ["extract/gotrans.go (DESIGN section 14) regenerates GenLevel.maxLevelIdx (levelManager.maxLevelIdx) from /repo on every run; LevelTie.maxLevelIdx_fresh (the next table name of a level is fresh) is part of this property's module; container/list is a list",
                                         "extract/gotrans.go also regenerates, as ordered event traces with the called functions as events: GenDB.flushImmutable, GenDB.recoverWals (memtable.recover's merge loop), GenLevel.compactLN, GenLevel.compactL0, GenLevel.flushToL0 and GenLevel.writeTable; DBTie.flushImmutable_table / recoverWals_eq and LevelTie.compactLN_table / compactL0_table / flushToL0_table / writeTable_table are part of this property's module"],
        "assumptions": ["process-crash model: every completed file-system call persists; one hook call = one operation = one crash point; a wal batch is one write call",
                        "which operations the engine emits: the program model Prog (foreground: commit/rotate/Close/Open with wal replay; flusher: flush/compaction; all interleavings, crash anywhere) is proved to emit only accepted events (Prog.never_rejected); that the code is this program is tied dynamically (every recorded trace, recoveries of crash images included, must be a trace of Prog.act) and by the re-extracted sync/fs skeleton",
                        "the model names tables freshly and lets a wal id grow with creation time; the replay order of older wals is whatever Open's directory listing says"],
        "explanation": "guarded-operation disk model: Inv/WF/Kept proved for every accepted event (tinv_accept), hence at every crash point incl. inside recovery; recover yields a DB.Inv state; acknowledged entries visible; program model Prog proved to obey the guards in every reachable state (induction over all schedules, crashes and recoveries); crash suite replays the real fs trace through guards and program model and opens a crash image before every fs operation",
    },
    "C04": {
        "lean": "Originium.Props.C04",
        "suites": ["key", "crash"],
        "skeleton_funcs": FS_SKEL + ["Txn.Commit", "DB.rawset", "memtable.set"],
        "trusted_base": DB_TB + FS_TB + ["extract/gotrans.go (DESIGN section 14) regenerates GenDB.rawset / GenDB.flushImmutable (the order of the effects of DB.rawset and DB.flushImmutable) from /repo on every run; DBTie.rawset_table / flushImmutable_table are part of this property's module",
                                         "extract/gotrans.go also regenerates GenWal.write (WAL.Write: staging loop, the one write to the file, fsync, every error exit); WalTie.write_table / write_once / write_ack are part of this property's module; GenTxn.commitBatch (the statements of Txn.Commit that build the batch from the pending writes; TxnTie.commitBatch_eq) and GenDB.memtableSet (memtable.set: the skiplist sets, then one wal.Write of the whole batch; DBTie.memtableSet_table) are regenerated too; bufferpool.Pool.Get returns an empty buffer, binary.Write into a bytes.Buffer appends and cannot fail, utils.TMarshal and the 8-byte length are function parameters (their bytes are the codec suite's business)"],
        "assumptions": ["process-crash model only (a torn batch belongs to C14, which claims acknowledged commits only)",
                        "that the code is the program Prog is tied dynamically (recorded traces must be traces of Prog.act) and by the skeleton"],
        "explanation": "a transaction reaches the disk through exactly one commit event carrying its whole batch; written batches stay kept, unwritten ones are absent, for every accepted trace and for every execution of the program model Prog (ReachP); crash suite checks all-or-nothing of the in-flight transaction on every image",
    },
    "C14": {
        "lean": "Originium.Props.C14",
        "suites": ["key", "codec", "crash"],
        "skeleton_funcs": FS_SKEL,
        "trusted_base": DB_TB + FS_TB + ["extract/gotrans.go (DESIGN section 14) regenerates GenLevel.writeTable (levelManager.writeTable: the order of create, write, fsync, close and rename of a table file, error branches included) from /repo on every run; LevelTie.writeTable_table / writeTable_rename_after_sync are part of this property's module; the os calls are events",
                                         "extract/gotrans.go also regenerates GenWal.write (WAL.Write); WalTie.write_table / write_ack (nil is returned only after the one write of the batch and a successful fsync) are part of this property's module",
                                         "extract/gotrans.go also regenerates GenWal.read (WAL.Read: the record loop over the bytes of the file with its two torn-tail exits); WalTie.loop_record / loop_torn / read_back; the bytes.Reader is the list of the bytes not yet read, binary.Read of 8 bytes fails exactly when fewer are left, TUnmarshal and the int64 decoding are function parameters constrained by WalTie.CodecOK (what C11 proves of the codec)"],
        "assumptions": ["directory operations (create, rename, remove) are ordered and durable, as the property states; only file contents after the last fsync can be lost",
                        "that the code is the program Prog is tied dynamically (recorded traces must be traces of Prog.act) and by the skeleton"],
        "explanation": "CutOf (wals keep at least their synced records, tmp files arbitrary, published tables intact) preserves Inv and WF; recover on any cut disk serves every acknowledged entry; the program model Prog with lossy crash steps (Reach) keeps Inv/WF and never emits a rejected event, recoveries after a loss included; crash suite cuts unsynced tails of every file at several lengths at every crash point",
    },
    "C05": {
        "lean": "Originium.Props.C05",
        "suites": ["key", "wm", "db"],
        "skeleton_funcs": DB_SKEL,
        "trusted_base": DB_TB + ["extract/gotrans.go (the Go-to-Lean translator, DESIGN section 14): regenerates GenTxn.readTs (oracle.readTs), GenTxn.get (Txn.Get) and GenTxn.discard (Txn.Discard) from /repo on every run; calls with outside effects are an ordered event list; TxnTie is part of this property's module", "the watermark enters through its published values (C13): the model's `mark v` step accepts any value C13 allows, arbitrarily late"],
        "assumptions": ["Begin is two steps (timestamp + wait for commitMark), Commit three steps under writeLock; finer interleavings inside one lock region are not distinguished"],
        "explanation": "coupling invariant SInv between the abstract oracle (commit atomic at commitStart) and the storage (batch applied later), proved for every step; storeRead_eq_spec",
    },
    "C06": {
        "lean": "Originium.Props.C06",
        "suites": ["key", "db", "txnconc"],
        "skeleton_funcs": DB_SKEL,
        "trusted_base": DB_TB + ["extract/gotrans.go (the Go-to-Lean translator, DESIGN section 14): regenerates GenOracle.* and GenTxn.* (oracle.hasConflict, cleanUpCommittedTxns, newCommitTs, doneRead, Txn.modify/Get/Commit, DB.View/Update) from /repo on every run; maps are association lists, integers Nat, calls with outside effects an ordered event list; the tie theorems (OracleTie, TxnTie) are part of this property's module"],
        "assumptions": ["as C05; free-running goroutine histories are additionally checked by the serial-order checker in the txnconc suite"],
        "explanation": "Inv2 (reads equal the MVCC value at readTs and, for a committed transaction, at commitTs-1), real-time order from timestamp monotonicity; the validation itself (conflict check, read recording) is the translated Go code (C06_code_validation)",
    },
    "C07": {
        "lean": "Originium.Props.C07",
        "suites": ["key", "db"],
        "skeleton_funcs": DB_SKEL,
        "trusted_base": DB_TB + ["extract/gotrans.go (the Go-to-Lean translator, DESIGN section 14): regenerates GenOracle.* and GenTxn.* (oracle.hasConflict, cleanUpCommittedTxns, newCommitTs, doneRead, Txn.modify/Get/Commit, DB.View/Update) from /repo on every run; maps are association lists, integers Nat, calls with outside effects an ordered event list; the tie theorems (OracleTie, TxnTie) are part of this property's module"],
        "assumptions": ["read and write sets are the keys themselves (after the F14 repair)"],
        "explanation": "conflict_iff in every reachable state incl. clean-up of the committed list under arbitrary watermark lag; oracle.hasConflict, cleanUpCommittedTxns, newCommitTs, Txn.Get and Txn.Commit translated from the Go source on every run and proved equal to the model (C07_code_*)",
    },
    "C08": {
        "lean": "Originium.Props.C08",
        "suites": ["key", "db", "closerace"],
        "skeleton_funcs": DB_SKEL,
        "trusted_base": DB_TB + ["extract/gotrans.go (the Go-to-Lean translator, DESIGN section 14): regenerates GenOracle.* and GenTxn.* (oracle.hasConflict, cleanUpCommittedTxns, newCommitTs, doneRead, Txn.modify/Get/Commit, DB.View/Update) from /repo on every run; maps are association lists, integers Nat, calls with outside effects an ordered event list; the tie theorems (OracleTie, TxnTie) are part of this property's module"],
        "assumptions": [],
        "explanation": "frame theorem for non-committing steps + invariant 'every commit in the history was produced by a successful Commit' + storage holds only history entries; API decision logic stated outright and used by the driver; Txn.modify/Get/Commit and DB.View/Update translated from the Go source on every run and proved to be that logic (C08_code_*)",
    },
    "C09": {
        "lean": "Originium.Props.C09",
        "suites": ["key", "levels"],
        "skeleton_funcs": [],
        "trusted_base": COMMON_TB + ["S2 compression and the on-disk codec are exercised by the suite, proved separately in C11",
                                     "kway.MergeVersions: the specification (sorted, later list wins) is proved equal to the heap merge of the code for any minimum heap.Pop returns (Kway.run_eq_spec); container/heap (returns a minimum w.r.t. Less), the Go map and slices.SortFunc are trusted",
                                     "extract/gotrans.go (the Go-to-Lean translator, DESIGN section 14): regenerates GenLevel.discardStale (levelManager.discardStaleEntries) from /repo on every run; types.ParseKey/ParseTs are the projections of the model's versioned key (key suite), the Go map an association list, slices.SortFunc any function that keeps the elements; LevelTie.discardStale_allowed is part of this property's module",
                                     "extract/gotrans.go also regenerates GenLevel.overlapLN (which tables of a level a compaction takes; LevelTie.overlapLN_eq: a filter of the level's list; the two key comparisons are predicates on the table)", "extract/gotrans.go also regenerates GenKway.merge (pkg/kway merge: the three loops, the slice of slices read and written by index, the map latest); KwayTie.merge_eq (for strictly sorted inputs merge with keepTombstone = true is LSM.mergeVersions) is part of this property's module; container/heap is a list kept sorted by Heap.Less (Push = sorted insertion, Pop = head), slices.SortFunc any function that sorts lists of distinct keys (insertion sort is one: KwayTie.isort_spec)"],
        "assumptions": ["two entries with the same versioned key are identical (a versioned key is written once); the choice of compaction inputs is arbitrary in the theorem"],
        "explanation": "theorems C09_* over LSM.compactOutput/search for all table sets, watermarks and block sizes; discardStaleEntries translated from the Go source on every run and proved to give an accepted compaction output (C09_code_*); implementation tied by the levels suite (flushToL0/checkAndCompact/recover/searchLowerBound vs model and brute-force spec)",
    },
    "C10": {
        "lean": "Originium.Props.C10",
        "suites": ["key", "levels"],
        "skeleton_funcs": [],
        "trusted_base": COMMON_TB + ["the bloom filter enters as an arbitrary predicate without false negatives (C16)"] + ["extract/gotrans.go (DESIGN section 14) regenerates GenTypes.compareKeys / isSameKey (types.CompareKeys / IsSameKey) from /repo on every run; strings.Compare is the byte order cmpBytes, ParseKey / ParseTs are the model's parseKey? / parseTs (key suite; ParseKey panics on a key without @, the tie is stated where it does not); TypesTie.compareKeys_neg_iff_vlt is part of this property's module", "extract/gotrans.go (DESIGN section 14) regenerates GenLSM.searchLowerBound (levelManager.searchLowerBound) from /repo on every run; the bloom filter, Index.LowerBound and fetchAndSearchLowerBound are parameters instantiated with the table model; LSMTie.search_tie is part of this property's module; also GenTable.dataLowerIdx / indexLowerIdx (the binary searches Data.LowerBound and Index.LowerBound over Go ints) with TableTie; GenTable.buildBlocks / buildIndex (the two loops of table.Build: block cutting; block encoding, index entries and data region) with TableTie.buildBlocks_eq / buildIndex_eq / ixFrom_cuts (Data.Encode is a function parameter, the byte buffer a list)"],
        "assumptions": ["tables hold strictly sorted entry lists (the flush of a skiplist, or a compaction output: C17, C09_sorted_nonempty)"],
        "explanation": "searchLowerBound translated from the Go source on every run and proved to be the model's search (C10_code_*); binary searches modelled literally (BS.loop) and proved equal to a linear scan; lookup over all tables proved to be the brute-force newest version",
    },
    "C11": {
        "lean": "Originium.Props.C11",
        "suites": ["key", "codec"],
        "skeleton_funcs": ["table:Data.Encode", "table:Index.Encode", "table:Footer.Encode", "table:Meta.Encode", "table:Build", "wal:WAL.Write", "wal:WAL.Read"],
        "trusted_base": COMMON_TB + ["extract/gotrans.go (DESIGN section 14) regenerates GenCodec.encodeData (Data.Encode: the loop over the entries with the size guard and the seven writes per entry) from /repo on every run; CodecTie.encodeData_eq (= the model's encodeData followed by the compression) is part of this property's module; the error writer on a bytes.Buffer appends and cannot fail, utils.LCP is translated too (Generated/Types.lean, GenTypes.lcp) and proved equal to the model's lcp (TypesTie.lcp_eq, C11_code_lcp; also compared by the codec suite), utils.Compress + bytes.Clone is the function comp; GenCodec.decodeData (Data.Decode: the record loop through the sticky error reader) with CodecTie.loop_step / decodeData_eq (= the model's decData on every input) and code_roundtrip; Go's prevKey[:lcp] panics when lcp exceeds the previous key, the translation takes what is there (no encoder output does that); GenCodec.encodeIndex / decodeIndex (Index.Encode / Index.Decode) with CodecTie.encodeIndex_eq / decodeIndex_eq / index_code_roundtrip; GenCodec.encodeFooter / decodeFooter (Footer.Encode / Footer.Decode) with CodecTie.encodeFooter_eq / decodeFooter_eq; GenCodec.encodeMeta / decodeMeta (Meta.Encode / Meta.Decode; CreatedUnix is a non-negative time, written as a Nat) with CodecTie.encodeMeta_eq / decodeMeta_eq; a short read through the error reader is an error, consumes what was left and leaves the target unchanged (io.ReadFull)",
                                     "S2 (klauspost/compress/s2) as an abstract pair with S2Law: decompressing a concatenation of compressed chunks gives the concatenation of the chunks",
                                     "frugal/thrift: the binary layout of types.Entry is written out in the model and compared byte for byte; the library decoder on valid input is assumed to invert it",
                                     "sync.Pool / bytes.Buffer: the ownership model of Pool.lean; the static fact 'encoders return bytes.Clone' is re-extracted every run"],
        "assumptions": ["second sentence (bytes do not change afterwards) is partial: the ownership rule is proved on a model, physical aliasing is a runtime fact exercised by concurrent encoders in the suite",
                        "file sizes < 2^64, wal field lengths < 2^31, versions < 2^63 (explicit hypotheses)"],
        "explanation": "byte-level codecs with round-trip theorems for all inputs; table file layout + recovery parser; wal framing with torn-tail theorem",
    },
    "C12": {
        "lean": "Originium.Props.C12",
        "level": "other",
        "suites": ["txnconc", "closerace"],
        "race_suites": ["txnconc", "closerace"],
        "skeleton_funcs": DB_SKEL + ["DB.Close", "memtable.set", "memtable.get", "memtable.all", "memtable.size", "memtable.freeze", "memtable.reset",
                                     "wal:WAL.Write", "wal:WAL.Read", "wal:WAL.Close", "wal:WAL.Delete", "wal:WAL.Reset", "wal:WAL.close",
                                     "levelManager.recover", "levelManager.scan", "levelManager.fetch",
                                     "table:Data.Encode", "table:Index.Encode", "table:Footer.Encode", "table:Meta.Encode", "table:Build"],
        "trusted_base": COMMON_TB + ["extract/gotrans.go (DESIGN section 14) regenerates GenDB.rawset and GenDB.runFlush (the order of the effects of DB.rawset and of the flush case of DB.run) from /repo on every run; DBTie.rawset_table / runFlush_table are part of this property's module (C12_code_publication_under_dbmu)", "the lock table extractor (/verif/extract/locktable.go): intraprocedural lock tracking in source order, callers' lock sets propagated along the package-local call graph, locks and locations identified by variable name -> type (a fixed table), receiver identity assumed for per-instance locks (a memtable's mu guards that memtable's skiplist)",
                                     "the Go race detector and runtime (only as a witness generator: a reported race or panic is a concrete failing schedule; silence proves nothing)"],
        "assumptions": ["data-race freedom in the sense of the Go memory model and absence of runtime panics are properties of the compiled program that no executable model exhibits: partial — decided here is the lock discipline over the regenerated table, the results (C05-C07) and the model-level panic/deadlock freedom (C01, C09, C15)"],
        "explanation": "lock table regenerated from the sources on every run; C12_lock_discipline by kernel evaluation over the whole table; C05-C07 and C15 theorems for results and absence of stuck states; txnconc/closerace suites, also under the race detector, as search for a concrete failing schedule",
    },
    "C13": {
        "lean": "Originium.Props.C13",
        "suites": ["wm"],
        "skeleton_funcs": ["pkg/watermark:WaterMark.process", "pkg/watermark:WaterMark.WaitForMark", "pkg/watermark:WaterMark.Begin", "pkg/watermark:WaterMark.Done", "pkg/watermark:WaterMark.DoneUntil"],
        "trusted_base": COMMON_TB + ["container/heap keeps the minimum at index 0; the channel markC is FIFO",
                                     "extract/gotrans.go (the Go-to-Lean translator, DESIGN section 14): regenerates GenWM.handle (the markC branch of WaterMark.process) from /repo on every run; maps are association lists, integers Nat/Int, effects an ordered event list; the tie theorems (WMTie.rel_run: the translated handler refines Watermark.step for every message sequence) are part of this property's module"],
        "assumptions": ["wall-clock clauses ('returns once that is the case', context cancellation timing) are runtime behaviour: partial for those clauses"],
        "explanation": "the process loop as a fold over the FIFO mark sequence; invariant proof for all sequences; the message handler translated from the Go source on every run and proved to refine the model (C13_code_*); real WaterMark compared after every mark",
    },
    "C15": {
        "lean": "Originium.Props.C15",
        "suites": ["closerace", "txnconc", "db"],
        "skeleton_funcs": ["DB.Close", "DB.run", "DB.rawset", "Txn.Commit", "oracle.readTs", "oracle.newCommitTs", "oracle.doneCommit", "DB.search",
                           "DB.flushImmutable", "levelManager.flushToL0", "levelManager.checkAndCompact", "levelManager.searchLowerBound",
                           "pkg/watermark:WaterMark.WaitForMark", "pkg/watermark:WaterMark.process", "memtable.set", "memtable.freeze", "memtable.reset"],
        "trusted_base": COMMON_TB + ["the blocking model's step granularity and the claim that short mutex sections contain no wait for another goroutine's progress rest on the extracted sync skeleton (compared with golden/skeleton.txt on every run)"] + ["extract/gotrans.go (DESIGN section 14) regenerates GenDB.rawset / GenDB.flushImmutable (the order of the effects of DB.rawset and DB.flushImmutable) from /repo on every run; DBTie.rawset_table / flushImmutable_table are part of this property's module"],
        "assumptions": ["wall-clock 'bounded time' is a runtime notion: partial for that clause; the model bounds the number of steps (C15_progress, C15_bound) under any scheduler that keeps running enabled goroutines",
                        "one Close per DB handle (a second Close is outside the property)"],
        "explanation": "counting abstraction of any number of committers/readers, flusher, closer with writeLock, bounded queue (any capacity incl. 0), close handshake and commitMark wait; invariant + not_stuck + strictly decreasing variant; closerace suite under watchdog",
    },
    "C16": {
        "lean": "Originium.Props.C16",
        "suites": ["key", "filter", "levels"],
        "skeleton_funcs": [],
        "trusted_base": COMMON_TB + ["murmur3 is an arbitrary hash family (the harness feeds the real hash values to the model)",
                                     "floating point sizing of the filter: m > 0 is checked by the harness for n = 1..N, not proved",
                                     "extract/gotrans.go (DESIGN section 14) regenerates GenFilter.add / contains / build (Filter.Add, Filter.Contains, filter.Build) from /repo on every run; FilterTie.add_eq / contains_eq / build_eq / code_no_false_negative are part of this property's module; a hash function's Write, Sum32, Reset is a pure function of its seed and the key, the bit slice is a list, New's results m and k are parameters",
                                     "extract/gotrans.go also regenerates GenLevel.recover; LevelTie.recover_table / stepFile_handles (every recovered handle carries filter.Build of the entries of its own file) are part of this property's module"],
        "assumptions": ["m > 0"],
        "explanation": "no false negatives for every hash family, k, m > 0 and entry list; the places where the engine builds filters (flush, compaction, recovery) are fingerprinted and every table's filter is asked for every key of the table after each of them (levels suite)",
    },
    "C17": {
        "lean": "Originium.Props.C17",
        "suites": ["key", "skiplist"],
        "skeleton_funcs": [],
        "trusted_base": COMMON_TB + ["the pointer model identifies an element by its key and bounds its loops by a fuel argument; Go pointers, allocation and the garbage collector are not modelled", "extract/gotrans.go (DESIGN section 14) regenerates GenTypes.compareKeys / isSameKey (types.CompareKeys / IsSameKey) from /repo on every run; strings.Compare is the byte order cmpBytes, ParseKey / ParseTs are the model's parseKey? / parseTs (key suite; ParseKey panics on a key without @, the tie is stated where it does not); TypesTie.compareKeys_neg_iff_vlt is part of this property's module"],
        "assumptions": ["keys are versioned keys key@ts; CompareKeys on them is the (user asc, ts desc) order (Key.compareKeys_keyWithTs, suite key; C17_code_key_order for the translated CompareKeys)"],
        "explanation": "pointer-level model of Set/Delete/Get/LowerBound/Scan/All (next pointers, update array, relinking, s.level) proved to represent the tower list; level-descending search proved to find the first node >= target for all heights; refinement to a sorted association list",
    },
}

for _k, _v in MODEL_SOURCE.items():
    PROPS[_k]["model_source"] = _v
