import Driver.Util
import Originium.Model.LSM
/-! Suite `levels`: level.go through the `verif` level manager — flush, compaction, lookup, recovery. -/
namespace Driver
open Key VKey LSM

structure LvSt where
  bs : Nat
  low : Nat
  maxLow : Nat                         -- largest watermark any compaction has used so far
  tables : List (String × TableM)      -- by file name, in creation order
  ghost : List E                       -- every entry ever flushed (specification state)

def parseEntry (s : String) : Option E :=
  match s.splitOn ":" with
  | [k, v, tomb, ver] =>
    match k.splitOn "@" with
    | [u, ts] => do
      let u ← unhex u; let ts ← ts.toNat?; let v ← unhex v; let tomb ← parseBool tomb; let ver ← ver.toNat?
      pure { key := ⟨u, ts⟩, value := v, tomb := tomb, version := ver }
    | _ => none
  | _ => none

def parseEntries (s : String) : Option (List E) :=
  if s == "[]" then some [] else (s.splitOn ",").mapM parseEntry

def lvInit : LvSt := { bs := 1, low := 0, maxLow := 0, tables := [], ghost := [] }

def lookupTable (tables : List (String × TableM)) (n : String) : Option TableM := tables.lookup n

def levelsStep (s : LvSt) (toks : List String) : LvSt × String :=
  match toks with
  | ["lm", _l0, _ratio, bs, low] =>
    match bs.toNat?, low.toNat? with
    | some bs, some low => ({ lvInit with bs := bs, low := low }, "ok")
    | _, _ => (s, "bad-op")
  | ["flush", name, es] =>
    match parseEntries es with
    | some es =>
      let t := buildTable s.bs es
      ({ s with tables := s.tables ++ [(name, t)], ghost := s.ghost ++ es },
        s!"{name}:{showEntries t.entries}:blocks={t.blocks.length}")
    | none => (s, "bad-op")
  | ["compact", out, ins] =>
    -- `ins`: the input tables in merge order (older first)
    let names := ins.splitOn ","
    match names.mapM (lookupTable s.tables) with
    | some ts =>
      let o := compactOutput s.low (ts.map (·.entries))
      let t := buildTable s.bs o
      let rest := s.tables.filter (fun p => !names.contains p.1)
      ({ s with tables := rest ++ [(out, t)], maxLow := max s.maxLow s.low },
        s!"{out}:{showEntries o}:blocks={t.blocks.length}")
    | none => (s, "unknown-table")
  | "expectok" :: _ => (s, "ok")      -- an expectation the harness checked itself against the property
  | ["get", u, ts] =>
    match unhex u, ts.toNat? with
    | some u, some r =>
      let m := search (fun _ _ => true) (s.tables.map (·.2)) u r
      -- permitted reads (r ≥ every watermark used) must still see what was flushed
      let sp := if s.maxLow ≤ r then newestBrute s.ghost u r else newestBrute ((s.tables.map (·.2.entries)).flatten) u r
      (s, withSpecE (showOptEntry m) (showOptEntry sp))
    | _, _ => (s, "bad-op")
  | ["recover", low] =>
    match low.toNat? with
    | some low =>
      let mv := ((s.tables.map (·.2.entries)).flatten.map (·.version)).foldl max 0
      ({ s with low := low }, toString mv)
    | none => (s, "bad-op")
  | ["tables"] =>
    (s, ";".intercalate (s.tables.map fun p => s!"{p.1}:{showEntries p.2.entries}"))
  | _ => (s, "bad-op")
where
  withSpecE (model spec : String) : String :=
    if model == spec then model else s!"MODEL-SPEC-MISMATCH model={model} spec={spec}"

end Driver
