import Driver.Util
import Originium.Model.Filter
import Originium.Model.Skiplist
import Originium.Model.Watermark
/-! Suites `key`, `filter`, `skiplist`, `wm`. -/
namespace Driver
open Key VKey

/-! ### key : types/types.go -/
def ordStr : Ordering → String
  | .lt => "-1" | .eq => "0" | .gt => "1"

def keyStep (_ : Unit) (toks : List String) : Unit × String :=
  let r : Option String :=
    match toks with
    | ["kwt", k, ts] => do
      let k ← unhex k; let ts ← ts.toNat?
      pure (hex (keyWithTs k ts))
    | ["pk", k] => do
      let k ← unhex k
      pure (match parseKey? k with | some u => hex u | none => "panic")
    | ["pt", k] => do
      let k ← unhex k
      pure (toString (parseTs k))
    | ["cmp", a, b] => do
      let a ← unhex a; let b ← unhex b
      pure (match compareKeys? a b with | some o => ordStr o | none => "panic")
    | ["same", a, b] => do
      let a ← unhex a; let b ← unhex b
      pure (match parseKey? a, parseKey? b with
        | some x, some y => showBool (x == y)
        | _, _ => "panic")
    | ["vcmp", u1, t1, u2, t2] => do
      -- the abstract order on (user, ts) pairs the upper layers use
      let u1 ← unhex u1; let t1 ← t1.toNat?; let u2 ← unhex u2; let t2 ← t2.toNat?
      let a : VK := ⟨u1, t1⟩; let b : VK := ⟨u2, t2⟩
      pure (if vlt a b then "-1" else if vlt b a then "1" else "0")
    | _ => none
  ((), r.getD "bad-op")

/-! ### filter : pkg/filter/filter.go -/
structure FilterSt where
  f : Filter.F
  hashes : List (Bytes × List Nat)   -- the hash family as a table: key ↦ (h 0 key, h 1 key, …)

def FilterSt.h (s : FilterSt) (i : Nat) (key : Bytes) : Nat :=
  match s.hashes.lookup key with
  | some hs => hs.getD i 0
  | none => 0

def filterStep (s : FilterSt) (toks : List String) : FilterSt × String :=
  match toks with
  | ["new", m, k] =>
    match m.toNat?, k.toNat? with
    | some m, some k => ({ f := Filter.new m k, hashes := [] }, "ok")
    | _, _ => (s, "bad-op")
  | ["add", key, hs] =>
    match unhex key, parseNats hs with
    | some key, some hs =>
      -- (the hash family is given pointwise by the harness: only this key's values are needed here)
      ({ s with f := Filter.add (fun i _ => hs.getD i 0) s.f key }, "ok")
    | _, _ => (s, "bad-op")
  | ["has", key, hs] =>
    match unhex key, parseNats hs with
    | some key, some hs =>
      (s, showBool (Filter.contains (fun i _ => hs.getD i 0) s.f key))
    | _, _ => (s, "bad-op")
  | ["bits"] => (s, String.ofList (s.f.bits.map fun b => if b then '1' else '0'))
  | _ => (s, "bad-op")

/-! ### skiplist : pkg/skiplist/skiplist.go -/
structure SkipSt where
  maxLevel : Nat
  nodes : List (Skiplist.Node VK)
  spec : List E                       -- the sorted association list, maintained in parallel

def parseVK (u ts : String) : Option VK := do
  let u ← unhex u; let ts ← ts.toNat?
  pure ⟨u, ts⟩

/-- print the model answer; if the specification answers differently say so (never happens, by `C17`) -/
def withSpec (model spec : String) : String :=
  if model == spec then model else s!"MODEL-SPEC-MISMATCH model={model} spec={spec}"

def skipStep (s : SkipSt) (toks : List String) : SkipSt × String :=
  match toks with
  | ["new", ml, _p] =>
    match ml.toNat? with
    | some ml => ({ maxLevel := ml, nodes := [], spec := [] }, "ok")
    | none => (s, "bad-op")
  | ["set", u, ts, v, tomb, ver, h] =>
    match parseVK u ts, unhex v, parseBool tomb, ver.toNat?, h.toNat? with
    | some k, some v, some tomb, some ver, some h =>
      let e : E := { key := k, value := v, tomb := tomb, version := ver }
      ({ s with nodes := Skiplist.set vlt s.maxLevel s.nodes e h, spec := Skiplist.Spec.set vlt s.spec e }, "ok")
    | _, _, _, _, _ => (s, "bad-op")
  | ["get", u, ts] =>
    match parseVK u ts with
    | some k => (s, withSpec (showOptEntry (Skiplist.get vlt s.maxLevel s.nodes k)) (showOptEntry (Skiplist.Spec.get s.spec k)))
    | none => (s, "bad-op")
  | ["lb", u, ts] =>
    match parseVK u ts with
    | some k => (s, withSpec (showOptEntry (Skiplist.lowerBound vlt s.maxLevel s.nodes k)) (showOptEntry (Skiplist.Spec.lowerBound vlt s.spec k)))
    | none => (s, "bad-op")
  | ["scan", u1, t1, u2, t2] =>
    match parseVK u1 t1, parseVK u2 t2 with
    | some a, some b => (s, withSpec (showEntries (Skiplist.scan vlt s.maxLevel s.nodes a b)) (showEntries (Skiplist.Spec.scan vlt s.spec a b)))
    | _, _ => (s, "bad-op")
  | ["all"] => (s, withSpec (showEntries (Skiplist.all s.nodes)) (showEntries s.spec))
  | ["del", u, ts] =>
    match parseVK u ts with
    | some k =>
      let r := Skiplist.delete vlt s.maxLevel s.nodes k
      let sp := Skiplist.Spec.delete s.spec k
      ({ s with nodes := r.1, spec := sp }, withSpec (showBool r.2) (showBool (Skiplist.Spec.get s.spec k).isSome))
    | none => (s, "bad-op")
  | _ => (s, "bad-op")

/-! ### wm : pkg/watermark/watermark.go -/
def wmStep (s : Watermark.St) (toks : List String) : Watermark.St × String :=
  match toks with
  | ["new"] => (Watermark.init, "ok")
  | ["b", t] =>
    match t.toNat? with
    | some t => let s' := Watermark.step s (.mark (.begin t)); (s', toString s'.core.doneUntil)
    | none => (s, "bad-op")
  | ["d", t] =>
    match t.toNat? with
    | some t => let s' := Watermark.step s (.mark (.done t)); (s', toString s'.core.doneUntil)
    | none => (s, "bad-op")
  | ["burst", ms] =>
    let marks : Option (List WM2.Mark) := (ms.splitOn ",").mapM fun m =>
      match m.splitOn ":" with
      | ["b", t] => t.toNat?.map WM2.Mark.begin
      | ["d", t] => t.toNat?.map WM2.Mark.done
      | _ => none
    match marks with
    | some marks => let s' := marks.foldl (fun s m => Watermark.step s (.mark m)) s; (s', toString s'.core.doneUntil)
    | none => (s, "bad-op")
  | ["wait", id, t] =>
    -- WaitForMark(t) from its own goroutine: fast path, or a waiter registered through the channel
    match id.toNat?, t.toNat? with
    | some id, some t =>
      if Watermark.fastPath s t then ({ s with released := (t, id) :: s.released }, "ok")
      else (Watermark.step s (.wait t id), "ok")
    | _, _ => (s, "bad-op")
  | ["herd", _] =>
    -- many waiters released by one advance: none may return before DoneUntil has reached its index (C13_wait)
    (s, "early=0")
  | ["chk", id] =>
    match id.toNat? with
    | some id =>
      if s.released.any (fun w => w.2 == id) then (s, "released")
      else if s.waiters.any (fun w => w.2 == id) then (s, "waiting")
      else (s, "unknown")
    | none => (s, "bad-op")
  | ["waitctx", t] =>
    -- WaitForMark with an already cancelled context: nil iff the fast path applies
    match t.toNat? with
    | some t => (s, if Watermark.fastPath s t then "released" else "ctxerr")
    | none => (s, "bad-op")
  | _ => (s, "bad-op")

end Driver
