import Driver.Util
import Originium.Model.History
/-! Suite `hist`: recorded histories of free-running goroutines, checked against the serial order. -/
namespace Driver
open History

def tail1 (s : String) : String := String.ofList (s.toList.drop 1)

def parseKV (s : String) : Option (List UInt8 × Oracle2.Val) :=
  match s.splitOn "=" with
  | [k, v] =>
    match unhex k with
    | some k =>
      if v == "nf" then some (k, none)
      else match unhex v with
        | some v => some (k, some v)
        | none => none
    | none => none
  | _ => none

def parseKVs (s : String) : Option (List (List UInt8 × Oracle2.Val)) :=
  if s == "" then some [] else (s.splitOn "|").mapM parseKV

/-- `b<seq>,e<seq>,r<readTs>,c<commitTs or ->,R<k=v|…>,W<k=v|…>` -/
def parseRec (s : String) : Option TxnRec :=
  match s.splitOn "," with
  | [b, e, r, c, rs, ws] =>
    let cOpt : Option (Option Nat) := if c == "c-" then some none else (tail1 c).toNat?.map some
    match (tail1 b).toNat?, (tail1 e).toNat?, (tail1 r).toNat?, cOpt, parseKVs (tail1 rs), parseKVs (tail1 ws) with
    | some b, some e, some r, some c, some rs, some ws =>
      some { beginSeq := b, endSeq := e, readTs := r, commitTs := c, reads := rs, writes := ws }
    | _, _, _, _, _, _ => none
  | _ => none

def histStep (_ : Unit) (toks : List String) : Unit × String :=
  match toks with
  | ["hist", h] =>
    match (h.splitOn ";").mapM parseRec with
    | some recs => ((), match check recs with | none => "ok" | some m => "HISTORY-VIOLATION " ++ m)
    | none => ((), "bad-op")
  | _ => ((), "bad-op")

end Driver
