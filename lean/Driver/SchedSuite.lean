import Driver.Util
import Originium.Model.SchedObs
/-! Suite `sched`: the hook events of a real concurrent execution (commits, rotations, the flusher,
    Close) are followed in the blocking model `Sched`; the set of model states that explain the
    observations so far must never become empty. -/
namespace Driver
open Sched

structure ScSt where
  S : List St
  lost : Bool
  seen : Nat

def scInit : ScSt := { S := [], lost := false, seen := 0 }

def parseObs : String → Option Obs
  | "clock" => some .clock
  | "capply-rot" => some (.capply true)
  | "capply" => some (.capply false)
  | "cfin" => some .cfin
  | "fdone" => some .fdone
  | "cllock" => some .cllock
  | "cldrained" => some .cldrained
  | "cldone" => some .cldone
  | _ => none

def describe (s : St) : String :=
  s!"committer={repr s.cLocked} waiting={s.cWant} done={s.cDone} flusher={repr s.f} queue={s.q} closeSeen={s.fClosed} closer={repr s.cl}"

def schedStep (d : ScSt) (toks : List String) : ScSt × String :=
  match toks with
  | ["init", cap, nc] =>
    -- `nc` = number of Commit calls that entered the lock region (refused ones and Begin are hidden steps without
    -- effect on the others: `Sched.candidates`)
    match cap.toNat?, nc.toNat? with
    | some cap, some nc => ({ S := startCalled 64 cap nc, lost := false, seen := 0 }, "ok")
    | _, _ => (d, "bad-op")
  | ["obs", l] =>
    match parseObs l with
    | none => (d, "bad-op")
    | some o =>
      if d.lost then (d, "ok")
      else
        let S' := follow 64 d.S o
        if S'.isEmpty then
          let ex := match d.S.head? with | some s => describe s | none => "-"
          ({ d with lost := true }, s!"UNEXPLAINED observation {l} (number {d.seen + 1}): no execution of the blocking model produces it here; one of the {d.S.length} model states before it: {ex}")
        else ({ d with S := S', seen := d.seen + 1 }, "ok")
  | ["closed"] =>
    -- Close has returned: in some explaining state the closer is done and nobody is inside the commit region
    if d.lost then (d, "ok")
    else if d.S.any (fun s => s.cl == ClPc.done && s.cLocked.isNone) then (d, "ok")
    else (d, "UNEXPLAINED Close returned but no model state has the closer done")
  | "expectok" :: _ => (d, "ok")
  | _ => (d, "bad-op")

end Driver
