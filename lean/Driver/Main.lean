import Driver.Basic
import Driver.Levels
import Driver.CodecSuite
import Driver.DBSuite
import Driver.HistSuite
import Driver.DiskSuite
import Driver.SchedSuite

open Driver in
def main (args : List String) : IO UInt32 := do
  let stdin ← IO.getStdin
  let stdout ← IO.getStdout
  match args with
  | ["key"] => loop stdin stdout keyStep (); pure 0
  | ["filter"] => loop stdin stdout filterStep { f := Filter.new 0 0, hashes := [] }; pure 0
  | ["skiplist"] => loop stdin stdout skipStep { maxLevel := 1, nodes := [], spec := [] }; pure 0
  | ["wm"] => loop stdin stdout wmStep Watermark.init; pure 0
  | ["levels"] => loop stdin stdout levelsStep lvInit; pure 0
  | ["codec"] => loop stdin stdout codecStep (); pure 0
  | ["db"] => loop stdin stdout dbStep dbInit; pure 0
  | ["hist"] => loop stdin stdout histStep (); pure 0
  | ["disk"] => loop stdin stdout diskStep dkInit; pure 0
  | ["sched"] => loop stdin stdout schedStep scInit; pure 0
  | _ => IO.eprintln "usage: driver <suite>"; pure 2
