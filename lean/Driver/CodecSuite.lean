import Driver.Util
import Originium.Model.Wal
/-! Suite `codec`: table/*.go encoders and decoders, table file layout, wal framing. -/
namespace Driver
open Codec

def showCE (e : Codec.Entry) : String := s!"{hex e.key}:{hex e.value}:{showBool e.tomb}:{e.version}"

def showCEs (es : List Codec.Entry) : String := if es.isEmpty then "[]" else ",".intercalate (es.map showCE)

def parseCE (s : String) : Option Codec.Entry :=
  match s.splitOn ":" with
  | [k, v, tomb, ver] => do
    let k ← unhex k; let v ← unhex v; let tomb ← parseBool tomb; let ver ← ver.toNat?
    pure { key := k, value := v, tomb := tomb, version := ver }
  | _ => none

def parseCEs (s : String) : Option (List Codec.Entry) :=
  if s == "[]" then some [] else (s.splitOn ",").mapM parseCE

/-- compression as a table handed over by the harness: raw ↦ compressed (S2 is a parameter of the model) -/
def parseComp (s : String) : Option (List (Bytes × Bytes)) :=
  if s == "-" then some [] else (s.splitOn ",").mapM fun p =>
    match p.splitOn "=" with
    | [a, b] => do let a ← unhex a; let b ← unhex b; pure (a, b)
    | _ => none

/-- one reader over a concatenation of compressed chunks: peel off known chunks from the front -/
def decompCat (tbl : List (Bytes × Bytes)) : Nat → Bytes → Option Bytes
  | _, [] => some []
  | 0, _ => none
  | fuel + 1, y =>
    match tbl.find? (fun p => !p.2.isEmpty && p.2.isPrefixOf y) with
    | some p => (decompCat tbl fuel (y.drop p.2.length)).map (p.1 ++ ·)
    | none => none

def compOf (tbl : List (Bytes × Bytes)) : S2 :=
  { comp := fun x => (tbl.lookup x).getD (0xEE :: x)     -- unknown chunk: marked, the harness is asked for it
    decomp := fun y => decompCat tbl (y.length + 1) y }

/-- raw chunks the table build needs compressed -/
def neededChunks (blocks : List (List Codec.Entry)) : List Bytes := blocks.map (encData [])

def splitBlocks (bs : Nat) (es : List Codec.Entry) : List (List Codec.Entry) :=
  -- table.Build's splitting loop on raw entries (same loop as Table.split, size = len(key)+len(value)+1)
  let rec go : List Codec.Entry → List Codec.Entry → Nat → List (List Codec.Entry)
    | [], cur, _ => if cur.isEmpty then [] else [cur.reverse]
    | e :: rest, cur, n =>
      if n > bs then cur.reverse :: go rest [e] (e.key.length + e.value.length + 1)
      else go rest (e :: cur) (n + (e.key.length + e.value.length + 1))
  go es [] 0

def showHandle (h : Handle) : String := s!"{h.off}+{h.len}"

def showIndex (i : Index) : String :=
  s!"{showHandle i.dataBlock}|" ++ ",".intercalate (i.entries.map fun e => s!"{hex e.startKey}:{hex e.endKey}:{showHandle e.h}")

def parseHandle (s : String) : Option Handle :=
  match s.splitOn "+" with
  | [a, b] => do let a ← a.toNat?; let b ← b.toNat?; pure ⟨a, b⟩
  | _ => none

def parseIndexEntry (x : String) : Option IndexEntry :=
  match x.splitOn ":" with
  | [a, b, h] => do
    let a ← unhex a; let b ← unhex b; let h ← parseHandle h
    pure { startKey := a, endKey := b, h := h }
  | _ => none

def parseIndex (s : String) : Option Index :=
  match s.splitOn "|" with
  | [db, es] => do
    let db ← parseHandle db
    let es ← if es == "" then some [] else (es.splitOn ",").mapM parseIndexEntry
    pure { dataBlock := db, entries := es }
  | _ => none

def codecStep (_ : Unit) (toks : List String) : Unit × String :=
  let r : Option String :=
    match toks with
    | ["data", es] => do
      let es ← parseCEs es
      pure (match encodeData es with | some b => hex b | none => "error")
    | ["undata", raw] => do
      let raw ← unhex raw
      pure (match decData raw.length [] raw with | some es => showCEs es | none => "error")
    | ["index", i] => do
      let i ← parseIndex i
      pure (hex (encIndex i))
    | ["unindex", raw] => do
      let raw ← unhex raw
      pure (match decIndex raw.length raw with | some i => showIndex i | none => "error")
    | ["footer", m, i, magic] => do
      let m ← parseHandle m; let i ← parseHandle i; let magic ← magic.toNat?
      pure (hex (encFooter ⟨m, i, magic⟩))
    | ["unfooter", raw] => do
      let raw ← unhex raw
      pure (match decFooter raw with | some f => s!"{showHandle f.metaH} {showHandle f.indexH} {f.magic}" | none => "error")
    | ["meta", c, l] => do
      let c ← c.toNat?; let l ← l.toNat?
      pure (hex (encMeta ⟨c, l⟩))
    | ["unmeta", raw] => do
      let raw ← unhex raw
      pure (match decMeta raw with | some m => s!"{m.createdUnix} {m.level}" | none => "error")
    | ["chunks", bs, es] => do
      -- the raw chunks of the data region (the harness compresses them with the real S2)
      let bs ← bs.toNat?; let es ← parseCEs es
      pure (",".intercalate ((neededChunks (splitBlocks bs es)).map hex))
    | ["rawindex", bs, es, comp] => do
      let bs ← bs.toNat?; let es ← parseCEs es; let comp ← parseComp comp
      pure (hex (encIndex (tableIndex (compOf comp) (splitBlocks bs es))))
    | ["table", bs, level, created, es, comp] => do
      let bs ← bs.toNat?; let level ← level.toNat?; let created ← created.toNat?
      let es ← parseCEs es; let comp ← parseComp comp
      let z := compOf comp
      let blocks := splitBlocks bs es
      pure (hex (buildFile z blocks ⟨created, level⟩) ++ " " ++ showIndex (tableIndex z blocks))
    | ["parse", file, comp] => do
      let file ← unhex file; let comp ← parseComp comp
      pure (match parseFile (compOf comp) file.length file with
        | some (i, es) => showIndex i ++ " " ++ showCEs es
        | none => "panic")
    | ["wal", es] => do
      let es ← parseCEs es
      pure (hex (walBatch es))
    | "roundtrip" :: _ =>
      -- the harness compared decode(encode(x)) with x itself, on inputs too large to ship to the model (C11 states exactly this)
      pure "same"
    | "intact" :: _ =>
      -- the harness re-checked an encoding it had kept while other encoders ran (C11_result_not_pooled): nothing to compute
      pure "intact"
    | ["readwal", raw] => do
      let raw ← unhex raw
      pure (match readWal (raw.length + 1) raw with | some es => showCEs es | none => "error")
    | _ => none
  ((), r.getD "bad-op")

end Driver
