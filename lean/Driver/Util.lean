import Originium.Model.Key
import Originium.Model.VKey
import Originium.Model.Table
/-! Line protocol helpers: tokens are separated by one space; byte strings are hex, the empty
    string is `-`. -/
namespace Driver
open Key VKey

def hexVal (c : Char) : Option Nat :=
  if '0' ≤ c ∧ c ≤ '9' then some (c.toNat - 48)
  else if 'a' ≤ c ∧ c ≤ 'f' then some (c.toNat - 87)
  else if 'A' ≤ c ∧ c ≤ 'F' then some (c.toNat - 55)
  else none

def unhexAux : List Char → List UInt8 → Option (List UInt8)
  | [], acc => some acc.reverse
  | [_], _ => none
  | a :: b :: rest, acc => do
    let x ← hexVal a
    let y ← hexVal b
    unhexAux rest (UInt8.ofNat (x * 16 + y) :: acc)

def unhex (s : String) : Option Bytes :=
  if s == "-" then some [] else unhexAux s.toList []

def hexDigit (n : Nat) : Char := if n < 10 then Char.ofNat (48 + n) else Char.ofNat (87 + n)

def hex (b : Bytes) : String :=
  if b.isEmpty then "-" else String.ofList (b.flatMap fun x => [hexDigit (x.toNat / 16), hexDigit (x.toNat % 16)])

def tokens (line : String) : List String :=
  (line.splitOn " ").filter (· ≠ "")

def showBool (b : Bool) : String := if b then "1" else "0"

def parseBool (s : String) : Option Bool :=
  if s == "1" then some true else if s == "0" then some false else none

abbrev E := Table.Entry VK

def showEntry (e : E) : String :=
  s!"{hex e.key.user}@{e.key.ts}:{hex e.value}:{showBool e.tomb}:{e.version}"

def showOptEntry : Option E → String
  | none => "none"
  | some e => showEntry e

def showEntries (es : List E) : String :=
  if es.isEmpty then "[]" else ",".intercalate (es.map showEntry)

def parseNats (s : String) : Option (List Nat) :=
  if s == "-" then some [] else (s.splitOn ",").mapM (·.toNat?)

/-- read stdin line by line, thread a state, print one line per input line -/
partial def loop {σ : Type} (h : IO.FS.Stream) (out : IO.FS.Stream) (step : σ → List String → σ × String) (st : σ) : IO Unit := do
  let line ← h.getLine
  if line.isEmpty then
    out.flush
    return ()
  let toks := tokens ((line.dropEndWhile (fun c => c == '\n' || c == '\r')).toString)
  let (st', o) := step st toks
  out.putStrLn o
  loop h out step st'

end Driver
