import Driver.Util
import Driver.Levels
import Originium.Model.DiskRecover
import Originium.Model.DiskProg
/-! Suite `disk`: the file-system trace recorded by the hooks is replayed through the acceptance
    check `Disk.accept`; at crash points the model's recovery is compared with the real `Open`. -/
namespace Driver
open Key VKey LSM Disk

structure DkSt where
  s : TSt
  tainted : Bool          -- a rule was violated earlier in this trace
  m : Prog.Mem            -- volatile state of the program model (`DiskProg`) following the trace
  lost : Bool             -- the trace left the program model earlier

def dkInit : DkSt := { s := TSt.init, tainted := false, m := Prog.Mem.init, lost := false }

def oneLine (f : Std.Format) : String :=
  " ".intercalate ((f.pretty 1000000).splitOn "\n" |>.map (fun l => String.ofList (l.toList.dropWhile (· == ' '))))

def showC : Prog.CPc → String
  | .down => "down"
  | .ordered ws => s!"open(directory listed, wals {ws})"
  | .idle => "idle"
  | .commit b sy => s!"commit({b.length} entries, synced={sy})"
  | .closing => "closing"
  | .openRec new w rs ws sy => s!"open(new wal {new}, replaying wal {w}, {rs.length} records left, then wals {ws}, synced={sy})"
  | .openTmp new ns => s!"open(new wal {new}, leftover temporary files {ns})"

def showPc (m : Prog.Mem) : String :=
  s!"foreground={showC m.c} flusher={oneLine (repr m.f)} active={oneLine (repr m.active)} queue={m.imms}"

/-- follow the trace in the program model: is this event one the modelled engine emits here? -/
def progEv (d : DkSt) (pe : Prog.PEv) (what : String) : Prog.Mem × Bool × String :=
  if d.lost then (d.m, true, "")
  else match Prog.act d.s d.m pe with
    | some m' => (m', false, "")
    | none => (d.m, true, s!" NOT-PROGRAM the modelled engine does not emit {what} in state {showPc d.m}")

def showVal' : Option (List UInt8) → String
  | some b => hex b
  | none => "nf"

/-- latest value of every key as `Open` on this disk would serve it -/
def readAll (bs : Nat) (d : D) (keys : List Bytes) : String :=
  let st := recover bs d
  ",".intercalate (keys.map fun k => s!"{hex k}={showVal' (DB.valueOf (DB.get (fun _ _ => true) st k (st.nextTs - 1)))}")

def parseKeys (s : String) : Option (List Bytes) := (s.splitOn ",").mapM unhex

def parseOp (name : String) (args : List String) : Option Op :=
  match name, args with
  | "walCreate", [id] => id.toNat?.map Op.walCreate
  | "walAppend", [id, es] => do let id ← id.toNat?; let es ← parseEntries es; pure (.walAppend id es)
  | "walSync", [id] => id.toNat?.map Op.walSync
  | "tmpCreate", [n] => n.toNat?.map Op.tmpCreate
  | "tmpWrite", [n, es] => do let n ← n.toNat?; let es ← parseEntries es; pure (.tmpWrite n es)
  | "tmpSync", [n] => n.toNat?.map Op.tmpSync
  | "publish", [n] => n.toNat?.map Op.publish
  | "tmpRemove", [n] => n.toNat?.map Op.tmpRemove
  | "walRemove", [id] => id.toNat?.map Op.walRemove
  | "tableRemove", [n] => n.toNat?.map Op.tableRemove
  | _, _ => none

/-- apply an event without checking (to keep following the trace after a violation) -/
def force (s : TSt) : Ev → TSt
  | .commit id b => { s with d := apply s.d (.walAppend id b), batches := b :: s.batches }
  | .ack b => { s with acked := s.acked ++ b }
  | .raise low => { s with low := max s.low low }
  | .op o => { s with d := apply s.d o }

def whyRejected (s : TSt) : Ev → String
  | .commit id b =>
    if !decide (Guard s.d s.low (.walAppend id b)) then "commit batch not newer than stored data"
    else if !decide (FreshBatch s.d b) then "commit batch is not fresh"
    else "commit into an unknown wal"
  | .ack _ => "acknowledged before the batch was synced (it is neither in the synced part of a wal nor in a published table)"
  | .raise _ => "watermark went down"
  | .op o =>
    if !decide (Guard s.d s.low o) then
      match o with
      | .publish _ => "table published before complete and synced, or with content that is not durable"
      | .walRemove _ => "wal removed while some record is neither synced in another wal nor in a published table (or older data would shadow it)"
      | .tableRemove _ => "table removed while some entry is neither in another table nor shadowed"
      | .walAppend _ _ => "wal append older than table-only data"
      | _ => "guard"
    else "content rule (unsorted table or foreign entry)"

def runEv (d : DkSt) (ev : Ev) (what : String) : DkSt × String :=
  let (m', lost', pmsg) := progEv d (.ev ev) what
  match accept d.s ev with
  | some s' => ({ d with s := s', m := m', lost := lost' }, "ok" ++ pmsg)
  | none => ({ d with s := force d.s ev, tainted := true, m := m', lost := lost' }, "REJECTED " ++ whyRejected d.s ev ++ pmsg)

def cutWals (d : D) (cuts : List (Nat × Nat)) : D :=
  { d with wals := d.wals.map fun w => match cuts.lookup w.id with
      | some n => { w with recs := w.recs.take n }
      | none => w }

def parseCuts (s : String) : Option (List (Nat × Nat)) :=
  if s == "-" then some [] else (s.splitOn ",").mapM fun p =>
    match p.splitOn "=" with
    | [a, b] => do let a ← a.toNat?; let b ← b.toNat?; pure (a, b)
    | _ => none

def diskStep (d : DkSt) (toks : List String) : DkSt × String :=
  match toks with
  | ["reset"] => (dkInit, "ok")
  | ["ev", "commit", id, es] =>
    match id.toNat?, parseEntries es with
    | some id, some es => runEv d (.commit id es) s!"commit {id}"
    | _, _ => (d, "bad-op")
  | ["ev", "ack", es] =>
    match parseEntries es with
    | some es => runEv d (.ack es) "ack"
    | none => (d, "bad-op")
  | ["ev", "raise", low] =>
    match low.toNat? with
    | some low => runEv d (.raise low) s!"raise {low}"
    | none => (d, "bad-op")
  | "ev" :: "op" :: name :: args =>
    match parseOp name args with
    | some o => runEv d (.op o) (" ".intercalate (name :: args.take 1))
    | none => (d, "bad-op")
  | ["image", bs, keys] =>
    match bs.toNat?, parseKeys keys with
    | some bs, some keys => (d, readAll bs d.s.d keys)
    | _, _ => (d, "bad-op")
  | ["cutimage", bs, cuts, keys] =>
    match bs.toNat?, parseCuts cuts, parseKeys keys with
    | some bs, some cuts, some keys => (d, readAll bs (cutWals d.s.d cuts) keys)
    | _, _, _ => (d, "bad-op")
  | ["plan", ins, n] =>
    match (if ins == "-" then some [] else (ins.splitOn ",").mapM String.toNat?), n.toNat? with
    | some ins, some n =>
      let (m', lost', pmsg) := progEv d (.plan ins n) s!"plan {ins} {n}"
      ({ d with m := m', lost := lost' }, "ok" ++ pmsg)
    | _, _ => (d, "bad-op")
  | ["order", ws] =>
    match (if ws == "-" then some [] else (ws.splitOn ",").mapM String.toNat?) with
    | some ws =>
      let (m', lost', pmsg) := progEv d (.order ws) s!"order {ws}"
      ({ d with m := m', lost := lost' }, "ok" ++ pmsg)
    | none => (d, "bad-op")
  | ["crash"] => ({ d with m := Prog.crashMem d.m }, "ok")
  | "expectok" :: _ => (d, "ok")
  | _ => (d, "bad-op")

end Driver
