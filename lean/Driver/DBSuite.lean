import Driver.Util
import Driver.Levels
import Originium.Model.Sys
import Originium.Model.ConstsTie
/-! Suite `db`: the public API (`Open/Begin/Get/Set/Delete/Commit/Discard/Close`) replayed together
    with the background steps the hooks observed (rotation, flush, compaction, watermark values). -/
namespace Driver
open Key VKey LSM

structure DbSt where
  s : Sys.St
  names : List String          -- file names of `s.d.tables`, same order
  closed : Bool
  base : Nat                   -- index offset of the transactions of the current Open (older handles are gone)

def dbInit : DbSt := { s := Sys.init, names := [], closed := false, base := 0 }

def showVal : Sys.Val → String
  | some b => hex b
  | none => "nf"

def steps (s : Sys.St) (sts : List Sys.Step) : Option Sys.St := sts.foldlM Sys.step s

/-- spec-level answer of a Get: own writes first, then the MVCC map at the snapshot -/
def specGet (o : Oracle2.St) (t : Oracle2.Txn) (k : Bytes) : Sys.Val :=
  match (if t.update then Oracle2.lookupW k t.writes else none) with
  | some v => v
  | none => Oracle2.specAt o.all t.readTs k

def errStr : Sys.Err → String
  | .ok => "ok" | .readOnly => "readonly" | .discarded => "discarded" | .emptyKey => "emptykey"
  | .keyTooLarge => "keytoolarge" | .valueTooLarge => "valuetoolarge" | .conflict => "conflict" | .closed => "closed"

def setErr (t : Oracle2.Txn) (k : Bytes) (v : Bytes) : Option String :=
  match Sys.apiSet Consts.maxKeySize Consts.maxValueSize t k v with
  | .ok => none
  | e => some (errStr e)

def bad (d : DbSt) (msg : String) : DbSt × String := (d, "MODEL-STEP-NOT-ENABLED " ++ msg)

def dbStep (d : DbSt) (toks : List String) : DbSt × String :=
  let s := d.s
  match toks with
  | ["open"] => (dbInit, "ok")
  | "expectok" :: _ => (d, "ok")      -- an expectation the harness checked itself against the property
  | ["begin", u] =>
    match parseBool u with
    | some u =>
      let i := s.o.txns.length
      match steps s [.begin u, .waited i] with
      | some s' => ({ d with s := s' }, toString (s'.o.txns[i]?.map (·.readTs)).get!)
      | none => bad d "begin"
    | none => (d, "bad-op")
  | ["get", i, k] =>
    match i.toNat?, unhex k with
    | some i, some k =>
      match s.o.txns[i]? with
      | some t =>
        if t.finished || k.isEmpty then (d, "nf")
        else
          match (if t.update then Oracle2.lookupW k t.writes else none) with
          | some v => (d, showVal v)
          | none =>
            let m := Sys.storeRead (fun _ _ => true) s t.readTs k
            let sp := specGet s.o t k
            match Sys.step s (.get i k) with
            | some s' =>
              ({ d with s := s' }, if showVal m == showVal sp then showVal m else s!"MODEL-SPEC-MISMATCH model={showVal m} spec={showVal sp}")
            | none => bad d "get"
      | none => (d, "bad-op")
    | _, _ => (d, "bad-op")
  | ["set", i, k, v] =>
    match i.toNat?, unhex k, unhex v with
    | some i, some k, some v =>
      match s.o.txns[i]? with
      | some t =>
        match setErr t k v with
        | some e => (d, e)
        | none =>
          match Sys.step s (.set i k (some v)) with
          | some s' => ({ d with s := s' }, "ok")
          | none => bad d "set"
      | none => (d, "bad-op")
    | _, _, _ => (d, "bad-op")
  | ["del", i, k] =>
    match i.toNat?, unhex k with
    | some i, some k =>
      match s.o.txns[i]? with
      | some t =>
        match setErr t k [] with
        | some e => (d, e)
        | none =>
          match Sys.step s (.set i k none) with
          | some s' => ({ d with s := s' }, "ok")
          | none => bad d "del"
      | none => (d, "bad-op")
    | _, _ => (d, "bad-op")
  | ["commit", i] =>
    match i.toNat? with
    | some i =>
      match s.o.txns[i]? with
      | some t =>
        match Sys.apiCommitPre d.closed t with
        | some .discarded => (d, "discarded")
        | some .ok =>
          match Sys.step s (.commitStart i) with
          | some s' => ({ d with s := s' }, "ok")
          | none => bad d "commit-empty"
        | some .closed =>
          -- refused with ErrDBClosed; the deferred Discard releases the read mark
          match Sys.step s (.discard i) with
          | some s' => ({ d with s := s' }, "closed")
          | none => bad d "commit-closed"
        | some e => (d, errStr e)
        | none =>
          match Sys.step s (.commitStart i) with
          | some s1 =>
            match s1.inflight with
            | none => ({ d with s := s1 }, "conflict")
            | some (ts, _) =>
              match steps s1 [.apply, .commitDone] with
              | some s' => ({ d with s := s' }, s!"ok {ts}")
              | none => bad d "commit-apply"
          | none => bad d "commit"
      | none => (d, "bad-op")
    | none => (d, "bad-op")
  | ["discard", i] =>
    match i.toNat? with
    | some i =>
      match Sys.step s (.discard i) with
      | some s' => ({ d with s := s' }, "ok")
      | none => (d, "bad-op")
    | none => (d, "bad-op")
  | ["mark", v] =>
    match v.toNat? with
    | some v =>
      if v == s.o.readMark then (d, "ok")
      else match Sys.step s (.mark v) with
        | some s' => ({ d with s := s' }, "ok")
        | none => (d, s!"MARK-NOT-ALLOWED v={v} readMark={s.o.readMark} nextTs={s.o.nextTs} open={Oracle2.openReadTs s.o}")
    | none => (d, "bad-op")
  | ["rotate"] =>
    match Sys.step s (.bg .rotate) with
    | some s' => ({ d with s := s' }, "ok")
    | none => bad d "rotate"
  | ["flushadd", name, bs] =>
    match bs.toNat? with
    | some bs =>
      match Sys.step s (.bg (.flushAdd bs)) with
      | some s' =>
        let t := (s'.d.tables.getLast?.map (·.entries)).getD []
        ({ d with s := s', names := d.names ++ [name] }, s!"{name}:{showEntries t}")
      | none => bad d "flushadd"
    | none => (d, "bad-op")
  | ["flushremove"] =>
    match Sys.step s (.bg .flushRemove) with
    | some s' => ({ d with s := s' }, "ok")
    | none => bad d "flushremove"
  | ["compact", out, ins, low, bs] =>
    match low.toNat?, bs.toNat? with
    | some low, some bs =>
      let inNames := ins.splitOn ","
      -- the model merges the picked tables in list order; the implementation merges the higher level first
      let pick := d.names.map (fun n => inNames.contains n)
      if !(inNames.all d.names.contains) then (d, "unknown-table")
      else if low > s.o.readMark then
        (d, s!"LOW-ABOVE-READMARK low={low} readMark={s.o.readMark}")
      else
      match Sys.step s (.bg (.compact pick low bs)) with
      | some s' =>
        let t := (s'.d.tables.getLast?.map (·.entries)).getD []
        ({ d with s := s', names := d.names.filter (fun n => !inNames.contains n) ++ [out] }, s!"{out}:{showEntries t}")
      | none => bad d s!"compact low={low} s.low={s.d.low} nextTs={s.d.nextTs}"
    | _, _ => (d, "bad-op")
  | ["close"] => ({ d with closed := true }, "ok")
  | ["opened"] =>
    -- Open after Close: every memtable must have been flushed; storage is what the tables hold; a fresh
    -- oracle whose marks stand at the recovered timestamp (readMark.Done(maxTs), commitMark.Done(maxTs))
    if !s.d.mem.isEmpty || !s.d.imms.isEmpty then (d, "CLOSE-LEFT-MEMTABLES")
    else
      let nts := DB.maxTs (DB.present s.d) + 1
      let d' := { s.d with nextTs := nts }
      -- handles of the previous Open belong to its oracle, which is gone: they no longer hold the new read mark back
      let o' : Oracle2.St := { s.o with readMark := nts - 1, recent := [], nextTs := nts,
                                        txns := s.o.txns.map fun t => { t with finished := true, doneRead := true } }
      ({ d with s := { s with d := d', o := o', commitMark := nts - 1, inflight := none, applied := false }, closed := false },
        toString nts)
  | ["nextts"] => (d, toString s.o.nextTs)
  | ["closedcall"] => (d, match Sys.apiViewUpdate d.closed with | some e => errStr e | none => "open")
  | _ => (d, "bad-op")

end Driver
