import Originium.Generated.DB
import Originium.Model.DB
/-! The tie for `DB.search`: the definition regenerated from `/repo/db.go` (`GenDB.search`) consults the generations in
    the order of the model's `DB.get` — active memtable, immutable memtables newest first, then the tables — and keeps
    a lower bound only when its user key is the one asked for. -/
namespace DBTie
open Key VKey Table Levels Compact LSM Gens

/-- one generation: the lower bound, kept only for the same user key -/
theorem hit_eq (o : Option E) (k : Bytes) (d : E) (X : Option E) :
    (if (o.isSome && (k == (o.getD d).key.user)) = true then some (o.getD d) else X) =
      match o.filter (fun e => e.key.user == k) with
      | some x => some x
      | none => X := by
  cases o with
  | none => simp
  | some e =>
    have hc : (k == e.key.user) = (e.key.user == k) := BEq.comm
    simp only [Option.isSome_some, Option.getD_some, Bool.true_and, hc, Option.filter_some]
    cases (e.key.user == k) <;> simp

theorem foldr_firstHit (lb : List E → VK → Option E) (key : VK) (d : E) (X : Option E) (gens : List (List E)) :
    List.foldr (fun (e : List E) (kont1 : Option E) =>
        if ((lb e key).isSome && (key.user == ((lb e key).getD d).key.user)) = true then some ((lb e key).getD d) else kont1) X gens =
      match firstHit (fun g => (lb g key).filter (fun e => e.key.user == key.user)) gens with
      | some x => some x
      | none => X := by
  induction gens with
  | nil => rfl
  | cons g gens ih =>
    simp only [List.foldr_cons, firstHit]
    rw [ih, hit_eq]
    cases (lb g key).filter (fun e => e.key.user == key.user) <;> rfl

theorem better_user {k : Bytes} {a b : Option E} (ha : ∀ e, a = some e → e.key.user = k) (hb : ∀ e, b = some e → e.key.user = k) :
    ∀ e, better a b = some e → e.key.user = k := by
  intro e he
  unfold better at he
  split at he
  · exact hb e he
  · exact ha e he
  · split at he
    · exact hb e he
    · exact ha e he

theorem search_user (mayContain : TableM → Bytes → Bool) (tables : List TableM) (k : Bytes) (r : Nat) :
    ∀ e, search mayContain tables k r = some e → e.key.user = k := by
  unfold search
  suffices h : ∀ (acc : Option E), (∀ e, acc = some e → e.key.user = k) →
      ∀ e, tables.foldl (fun acc t => if mayContain t k then better acc (tableSearch t k r) else acc) acc = some e → e.key.user = k from
    h none (by intro e he; cases he)
  induction tables with
  | nil => intro acc h; exact h
  | cons t ts ih =>
    intro acc h
    simp only [List.foldl_cons]
    apply ih
    split
    · apply better_user h
      intro e he
      unfold tableSearch at he
      have := (Option.filter_eq_some_iff.mp he).2
      simpa using this
    · exact h

/-- what the translated `DB.search` computes, for any lower-bound functions -/
theorem search_eq (lb : List E → VK → Option E) (slb : VK → Option E) (mem : List E) (imms : List (List E)) (key : VK) :
    GenDB.search lb slb mem imms key =
      match firstHit (fun g => (lb g key).filter (fun e => e.key.user == key.user)) (mem :: imms.reverse) with
      | some x => some x
      | none => (slb key).filter (fun e => e.key.user == key.user) := by
  unfold GenDB.search
  dsimp only
  rw [foldr_firstHit, hit_eq, hit_eq]
  simp only [firstHit]
  cases (lb mem key).filter (fun e => e.key.user == key.user) with
  | some x => rfl
  | none =>
    simp only
    cases firstHit (fun g => (lb g key).filter (fun e => e.key.user == key.user)) imms.reverse with
    | some x => rfl
    | none =>
      simp only
      cases (slb key).filter (fun e => e.key.user == key.user) <;> rfl

/-- **the tie**: with the skiplist's lower bound for the memtables (C17) and `searchLowerBound` for the tables (C10),
    the translated `DB.search` is the model's `DB.get` -/
theorem search_tie (mayContain : TableM → Bytes → Bool) (s : DB.St) (k : Bytes) (r : Nat) :
    GenDB.search (fun g key => g.find? (geKey vlt key)) (fun key => search mayContain s.tables key.user key.ts)
      s.mem s.imms ⟨k, r⟩ = DB.get mayContain s k r := by
  rw [search_eq]
  unfold DB.get
  have hs : (search mayContain s.tables k r).filter (fun e => e.key.user == k) = search mayContain s.tables k r := by
    cases hs : search mayContain s.tables k r with
    | none => rfl
    | some e =>
      have := search_user mayContain s.tables k r e hs
      simp [this]
  simp only [hs]
  rfl


/-! ### DB.rawset and DB.flushImmutable: the order of their effects -/

/-- `rawset`: the whole batch goes into the memtable first; only then, and only if the memtable has reached the threshold,
    it is frozen, published together with its successor under `db.mu`, and handed to the flusher *after* `db.mu` is
    released -/
theorem rawset_table (size threshold : Nat) :
    GenDB.rawset size threshold [] =
      if threshold ≤ size then
        ["memtable.set batch", "memtable.freeze", "db.mu.Lock", "immutables.PushBack", "memtable = reset", "db.mu.Unlock", "flushC <- imt"]
      else ["memtable.set batch"] := by
  unfold GenDB.rawset
  by_cases h : threshold ≤ size <;> simp [h]

/-- `flushImmutable`: the table is added to L0 before the wal is deleted; a failure of either step panics (`none`) -/
theorem flushImmutable_table (ff df : Bool) :
    GenDB.flushImmutable ff df [] =
      if ff then none else if df then none else some ["manager.flushToL0", "wal.Delete"] := by
  unfold GenDB.flushImmutable
  cases ff <;> cases df <;> simp


/-! ### DB.Close and the flusher loop `DB.run` -/

/-- `Close`: new commits are refused first, the commit in flight is waited for (`writeLock`), the flusher is told to stop
    and Close waits until it has drained its queue; only then the active memtable is frozen and flushed (or, when it is
    empty, its wal deleted) -/
theorem close_table (size : Nat) (df : Bool) :
    GenDB.close size df [] =
      ["state := Closed", "writeLock.Lock", "defer writeLock.Unlock", "closeC <- signal", "<-closed", "memtable.freeze",
        if 0 < size then "flushImmutable memtable" else "wal.Delete"] := by
  unfold GenDB.close
  by_cases h : 0 < size <;> cases df <;> simp [h]

/-- the `case imt := <-db.flushC` branch of `run`: flush, compaction check, removal of the flushed memtable under `db.mu`;
    the loop ends afterwards iff the close signal was seen before and nothing is queued -/
theorem runFlush_table (closed : Bool) (queued : Nat) :
    GenDB.runFlush closed queued [] =
      (closed && decide (queued = 0), closed,
        ["flushImmutable", "checkAndCompact", "db.mu.Lock", "immutables.Remove Front", "db.mu.Unlock"]) := by
  unfold GenDB.runFlush
  cases closed <;> by_cases h : queued = 0 <;> simp [h]

/-- the `case <-db.closeC` branch: the signal is remembered; the loop ends at once iff nothing is queued -/
theorem runClose_table (closed : Bool) (queued : Nat) :
    GenDB.runClose closed queued [] = (decide (queued = 0), true, []) := by
  unfold GenDB.runClose
  by_cases h : queued = 0
  · simp [h]
  · have : 0 < queued := by omega
    simp [h, this]

/-- the flusher never leaves its loop with a memtable still queued or before Close asked for it -/
theorem run_exit (closed : Bool) (queued : Nat) :
    ((GenDB.runFlush closed queued []).1 = true → closed = true ∧ queued = 0) ∧
    ((GenDB.runClose closed queued []).1 = true → queued = 0) := by
  rw [runFlush_table, runClose_table]
  simp


/-! ### memtable.recover: merging the leftover wal files -/

abbrev Ev := String × Nat

/-- what recovery does with one leftover wal `f` holding the entries `es` (id, version): open, read, apply and re-log every
    entry, and only then delete the file -/
def fileEvents (f : Nat) (es : List (Nat × Nat)) : List Ev :=
  [("wal.Open", f), ("wal.Read", f)] ++ es.flatMap (fun e => [("skiplist.Set", e.1), ("wal.Write", e.1)]) ++ [("wal.Delete", f)]

def recoverSpec (readWal : Nat → Option (List (Nat × Nat))) : List Nat → Nat → List Ev → Option (Nat × List Ev)
  | [], mv, ev => some (mv, ev)
  | f :: fs, mv, ev =>
    match readWal f with
    | none => none
    | some es => recoverSpec readWal fs (es.foldl (fun m e => max m e.2) mv) (ev ++ fileEvents f es)

theorem recover_inner (es : List (Nat × Nat)) (k : List Nat → Nat → List Ev → Option (Nat × List Ev))
    (w : List Nat) (mv : Nat) (ev : List Ev) :
    List.foldr (fun (entry : Nat × Nat) (kont5 : List Nat → Nat → List Ev → Option (Nat × List Ev)) => fun walFiles maxVersion ev =>
        kont5 walFiles (max maxVersion entry.2) (ev ++ [("skiplist.Set", entry.1)] ++ [("wal.Write", entry.1)])) k es w mv ev
      = k w (es.foldl (fun m e => max m e.2) mv) (ev ++ es.flatMap (fun e => [("skiplist.Set", e.1), ("wal.Write", e.1)])) := by
  induction es generalizing mv ev with
  | nil => simp
  | cons e es ih =>
    simp only [List.foldr_cons, List.foldl_cons, List.flatMap_cons]
    rw [ih]
    simp [List.append_assoc]

/-- the translated merge loop of `memtable.recover`: the leftover wals are taken in sorted order; each one is read, every
    entry is applied and written to the new wal, and only then the old file is deleted; a wal that cannot be read panics
    (`none`); the result is the largest version seen -/
theorem recoverWals_eq (sort : List Nat → List Nat) (readWal : Nat → Option (List (Nat × Nat))) (files : List Nat) :
    GenDB.recoverWals sort readWal files [] =
      if files = [] then some (0, []) else recoverSpec readWal (sort files) 0 [] := by
  unfold GenDB.recoverWals
  dsimp only
  by_cases h0 : files = []
  · simp [h0]
  · have hl : ¬ files.length = 0 := fun h => h0 (List.eq_nil_of_length_eq_zero h)
    simp only [hl, decide_false, Bool.false_eq_true, ↓reduceIte, h0]
    generalize sort files = l
    suffices h : ∀ (l w : List Nat) (mv : Nat) (ev : List Ev),
        List.foldr (fun file (kont1 : List Nat → Nat → List Ev → Option (Nat × List Ev)) => fun walFiles maxVersion ev =>
          if (readWal file).isNone = true then none
          else List.foldr (fun (entry : Nat × Nat) (kont5 : List Nat → Nat → List Ev → Option (Nat × List Ev)) => fun walFiles maxVersion ev =>
              kont5 walFiles (max maxVersion entry.2) (ev ++ [("skiplist.Set", entry.1)] ++ [("wal.Write", entry.1)]))
            (fun walFiles maxVersion ev => kont1 walFiles maxVersion (ev ++ [("wal.Delete", file)]))
            ((readWal file).getD []) walFiles maxVersion (ev ++ [("wal.Open", file)] ++ [("wal.Read", file)]))
          (fun _ maxVersion ev => some (maxVersion, ev)) l w mv ev = recoverSpec readWal l mv ev by
      have := h l l 0 []
      simpa using this
    intro l
    induction l with
    | nil => intro w mv ev; rfl
    | cons f fs ih =>
      intro w mv ev
      simp only [List.foldr_cons, recoverSpec]
      cases hr : readWal f with
      | none => simp
      | some es =>
        simp only [Option.isNone_some, Bool.false_eq_true, ↓reduceIte, Option.getD_some]
        rw [recover_inner, ih]
        simp [fileEvents, List.append_assoc]


theorem recoverSpec_some (readWal : Nat → Option (List (Nat × Nat))) (l : List Nat) :
    ∀ (mv : Nat) (ev : List Ev) (r : Nat × List Ev), recoverSpec readWal l mv ev = some r →
      r.2 = ev ++ l.flatMap (fun f => fileEvents f ((readWal f).getD [])) ∧
      r.1 = l.foldl (fun m f => ((readWal f).getD []).foldl (fun m e => max m e.2) m) mv ∧
      ∀ f ∈ l, (readWal f).isSome := by
  induction l with
  | nil =>
    intro mv ev r h
    simp only [recoverSpec, Option.some.injEq] at h
    subst h
    simp
  | cons f fs ih =>
    intro mv ev r h
    simp only [recoverSpec] at h
    cases hr : readWal f with
    | none => rw [hr] at h; cases h
    | some es =>
      rw [hr] at h
      obtain ⟨h1, h2, h3⟩ := ih _ _ r h
      refine ⟨?_, ?_, ?_⟩
      · rw [h1]; simp [hr, List.append_assoc]
      · rw [h2]; simp [hr]
      · intro g hg
        rcases List.mem_cons.mp hg with rfl | hg
        · simp [hr]
        · exact h3 g hg

/-- the translated `Open`: the wals are recovered, then the tables; both watermarks are marked done at the largest version found
    in either, the next timestamp is one above it, and only then the flusher goroutine is started -/
theorem open_table (vf mf : Bool) (walMax dbMax : Nat) :
    GenDB.openDB vf mf walMax dbMax [] =
      if vf || mf then none else
      some (max walMax dbMax + 1,
        [("os.MkdirAll", 0), ("memtable.recover (wals)", 0), ("levelManager.recover (tables)", 0),
         ("readMark.Done", max walMax dbMax), ("commitMark.Done", max walMax dbMax), ("go db.run", 0)]) := by
  cases vf <;> cases mf <;> rfl

/-- the translated `memtable.set`: every entry of the batch goes into the skiplist, then the WHOLE batch is handed to the wal
    in ONE `Write` call (`WalTie`: one write to the file, one fsync); a frozen memtable or a failed wal write panics -/
theorem memtableSet_table {ε : Type} (ro wf : Bool) (es : List ε) :
    GenDB.memtableSet ro wf es [] =
      if ro then none else if wf then none else some (es.map (fun e => ("skiplist.Set", [e])) ++ [("wal.Write", es)]) := by
  unfold GenDB.memtableSet
  have h1 : ∀ (k : List (String × List ε) → Option (List (String × List ε))) (l : List ε) (ev : List (String × List ε)),
      List.foldr (fun entry kont4 => fun (ev : List (String × List ε)) => kont4 (ev ++ [("skiplist.Set", [entry])])) k l ev =
        k (ev ++ l.map (fun e => ("skiplist.Set", [e]))) := by
    intro k l
    induction l with
    | nil => intro ev; simp
    | cons e l ih => intro ev; simp only [List.foldr_cons, List.map_cons]; rw [ih]; simp
  have h2 : ∀ (l : List ε) (ev : List (String × List ε)),
      List.foldr (fun (entry : ε) kont6 => fun (ev : List (String × List ε)) => kont6 ev) (fun ev => some ev) l ev = some ev := by
    intro l
    induction l with
    | nil => intro ev; rfl
    | cons e l ih => intro ev; simp only [List.foldr_cons]; exact ih ev
  cases ro <;> cases wf <;> simp only [Bool.false_eq_true, ↓reduceIte, h1, h2, List.nil_append]

end DBTie
