import Originium.Model.Oracle2
import Originium.Model.DB
/-! The whole engine: transactions (txn.go, oracle.go) over the storage model (db.go, level.go),
    at the granularity the lock skeleton allows.

A transaction's `Begin` is two steps (`begin`: readTs taken and readMark.Begin under the oracle
mutex; `waited`: `commitMark.WaitForMark(readTs)` has returned).  `Commit` is three steps under
`oracle.writeLock` (`commitStart`: conflict check, commit timestamp, commitMark.Begin;
`apply`: the batch goes to wal + memtable; `commitDone`: commitMark.Done).  Background activity
(rotation, flush, compaction, watermark publication) are steps of their own, enabled at any time.
The abstract transaction layer is `Oracle2` (a commit is atomic at `commitStart`); `d` is the
storage as readers find it. -/
namespace Sys
open Key VKey Levels LSM

abbrev Val := Oracle2.Val

structure St where
  o : Oracle2.St
  d : DB.St
  inflight : Option (Nat × List DB.W)   -- commit timestamp assigned, holder of writeLock
  applied : Bool                        -- its batch is in the memtable
  commitMark : Nat                      -- commitMark.DoneUntil
  waited : List Bool                    -- per transaction: Begin has returned
deriving Repr

def init : St := { o := Oracle2.init, d := DB.init, inflight := none, applied := false, commitMark := 0, waited := [] }

/-- the batch `Commit` builds from `pendingWrites` (a map: one entry per key, the latest write) -/
def batchOf : List (Oracle2.Key × Val) → List DB.W
  | [] => []
  | (k, v) :: rest =>
    let w : DB.W := match v with
      | some b => { user := k, value := b, tomb := false }
      | none => { user := k, value := [], tomb := true }
    w :: (batchOf rest).filter (fun x => x.user != k)

inductive Step where
  | begin (update : Bool)
  | waited (i : Nat)
  | get (i : Nat) (k : Oracle2.Key)
  | set (i : Nat) (k : Oracle2.Key) (v : Val)
  | commitStart (i : Nat)
  | apply
  | commitDone
  | discard (i : Nat)
  | mark (v : Nat)
  | bg (b : DB.Step)
deriving Repr

/-- what `Txn.Get` returns from the store for transaction `i` (value, or not found) -/
def storeRead (mayContain : TableM → Bytes → Bool) (s : St) (readTs : Nat) (k : Oracle2.Key) : Val :=
  DB.valueOf (DB.get mayContain s.d k readTs)

def step (s : St) : Step → Option St
  | .begin u => (Oracle2.step s.o (.begin u)).map fun o' => { s with o := o', waited := s.waited ++ [false] }
  | .waited i =>
    match s.o.txns[i]? with
    | some t => if t.readTs ≤ s.commitMark then some { s with waited := s.waited.set i true } else none
    | none => none
  | .get i k =>
    if s.waited.getD i false then (Oracle2.step s.o (.get i k)).map fun o' => { s with o := o' } else none
  | .set i k v =>
    if s.waited.getD i false then (Oracle2.step s.o (.set i k v)).map fun o' => { s with o := o' } else none
  | .commitStart i =>
    match s.inflight, s.o.txns[i]? with
    | none, some t =>
      if !(s.waited.getD i false) then none else
      (Oracle2.step s.o (.commit i)).map fun o' =>
        if o'.nextTs = s.o.nextTs then { s with o := o' }                         -- nothing to write, or refused
        else { s with o := o', inflight := some (s.o.nextTs, batchOf t.writes), applied := false }
    | _, _ => none
  | .apply =>
    match s.inflight, s.applied with
    | some (_, ws), false => (DB.step s.d (.commit ws)).map fun d' => { s with d := d', applied := true }
    | _, _ => none
  | .commitDone =>
    match s.inflight, s.applied with
    | some (ts, _), true => some { s with inflight := none, applied := false, commitMark := ts }
    | _, _ => none
  | .discard i => (Oracle2.step s.o (.discard i)).map fun o' => { s with o := o' }
  | .mark v => (Oracle2.step s.o (.mark v)).map fun o' => { s with o := o' }
  | .bg b =>
    match b with
    | .commit _ => none
    | .compact _ low _ => if low ≤ s.o.readMark then (DB.step s.d b).map fun d' => { s with d := d' } else none
    | _ => (DB.step s.d b).map fun d' => { s with d := d' }

def run (steps : List Step) : Option St := steps.foldlM step init

/-! ### decision logic of the API calls (txn.go), stated outright -/

inductive Err where
  | ok | readOnly | discarded | emptyKey | keyTooLarge | valueTooLarge | conflict | closed
deriving DecidableEq, Repr

/-- `Txn.modify` (Set / Delete): the documented error, checked in this order -/
def apiSet (maxKey maxVal : Nat) (t : Oracle2.Txn) (k v : List UInt8) : Err :=
  if !t.update then .readOnly
  else if t.finished then .discarded
  else if k.isEmpty then .emptyKey
  else if k.length > maxKey then .keyTooLarge
  else if v.length > maxVal then .valueTooLarge
  else .ok

/-- `Txn.Commit` up to the conflict check: what is answered without touching the store -/
def apiCommitPre (dbClosed : Bool) (t : Oracle2.Txn) : Option Err :=
  if t.finished then some .discarded
  else if t.writes.isEmpty then some .ok          -- nothing to write: Discard, nil
  else if dbClosed then some .closed
  else none                                       -- goes on to newCommitTs

/-- `DB.View` / `DB.Update` -/
def apiViewUpdate (dbClosed : Bool) : Option Err := if dbClosed then some .closed else none

end Sys
