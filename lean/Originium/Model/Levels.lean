import Originium.Model.Table
import Originium.Model.VKey
/-! Feasibility probe: lookup over all tables = newest version ≤ ts (C10), on abstract versioned keys -/
namespace Levels
open Key VKey Table BS

abbrev E := Entry VK

/-- brute-force spec: `res` is the newest version of user key `k` with ts ≤ `r` in `es` -/
def IsNewest (es : List E) (k : Bytes) (r : Nat) : Option E → Prop
  | none => ∀ e ∈ es, e.key.user = k → r < e.key.ts
  | some e => e ∈ es ∧ e.key.user = k ∧ e.key.ts ≤ r ∧
      ∀ e' ∈ es, e'.key.user = k → e'.key.ts ≤ r → e'.key.ts ≤ e.key.ts

/-- what DB.search / searchLowerBound do with one table: lower bound of k@r, kept only if same user key -/
def tableCand (es : List E) (k : Bytes) (r : Nat) : Option E :=
  (es.find? (geKey vlt ⟨k, r⟩)).filter (fun e => e.key.user == k)

theorem geKey_iff (k : Bytes) (r : Nat) (e : E) :
    geKey vlt ⟨k, r⟩ e = true ↔ bltB e.key.user k = false ∧ (e.key.user = k → e.key.ts ≤ r) := by
  unfold geKey vlt
  simp only [Bool.not_eq_true', Bool.or_eq_false_iff, Bool.and_eq_false_iff, beq_eq_false_iff_ne,
    decide_eq_false_iff_not, Nat.not_lt]
  constructor
  · rintro ⟨h1, h2⟩; refine ⟨h1, fun e => ?_⟩; rcases h2 with h2 | h2; exact absurd e h2; exact h2
  · rintro ⟨h1, h2⟩; refine ⟨h1, ?_⟩
    by_cases e : e.key.user = k
    · exact Or.inr (h2 e)
    · exact Or.inl e

theorem tableCand_newest {es : List E} (hs : SortedE vlt es) (k : Bytes) (r : Nat) :
    IsNewest es k r (tableCand es k r) := by
  unfold tableCand
  cases hf : es.find? (geKey vlt ⟨k, r⟩) with
  | none =>
    simp only [Option.filter_none, IsNewest]
    intro e he hu
    have := List.find?_eq_none.mp hf e he
    rw [geKey_iff] at this
    rcases Nat.lt_or_ge r e.key.ts with h | h
    · exact h
    · exact absurd ⟨by rw [hu]; exact bltB_irrefl k, fun _ => h⟩ this
  | some e =>
    obtain ⟨hpe, as, bs, hsplit, has⟩ := List.find?_eq_some_iff_append.mp hf
    rw [geKey_iff] at hpe
    -- every entry that satisfies the predicate is e or comes after e
    have hafter : ∀ e' ∈ es, geKey vlt ⟨k, r⟩ e' = true → e' = e ∨ vlt e.key e'.key = true := by
      intro e' he' hp'
      rw [hsplit] at he'
      simp only [List.mem_append, List.mem_cons] at he'
      rcases he' with h | h | h
      · have := has e' h; simp [hp'] at this
      · exact Or.inl h
      · right
        rw [hsplit] at hs
        have := (List.pairwise_append.mp hs).2.1
        exact (List.pairwise_cons.mp this).1 e' h
    by_cases hu : e.key.user = k
    · have : (some e).filter (fun e => e.key.user == k) = some e := by simp [Option.filter, hu]
      rw [this]
      refine ⟨by rw [hsplit]; simp, hu, hpe.2 hu, ?_⟩
      intro e' he' hu' hr'
      have hp' : geKey vlt ⟨k, r⟩ e' = true := by
        rw [geKey_iff]; exact ⟨by rw [hu']; exact bltB_irrefl k, fun _ => hr'⟩
      rcases hafter e' he' hp' with h | h
      · rw [h]; exact Nat.le_refl _
      · unfold vlt at h
        simp only [Bool.or_eq_true, Bool.and_eq_true, beq_iff_eq, decide_eq_true_eq] at h
        rcases h with h | ⟨_, h⟩
        · rw [hu, hu', bltB_irrefl] at h; cases h
        · omega
    · have : (some e).filter (fun e => e.key.user == k) = none := by simp [Option.filter, hu]
      rw [this]
      intro e' he' hu'
      rcases Nat.lt_or_ge r e'.key.ts with h | h
      · exact h
      · exfalso
        have hp' : geKey vlt ⟨k, r⟩ e' = true := by
          rw [geKey_iff]; exact ⟨by rw [hu']; exact bltB_irrefl k, fun _ => h⟩
        -- e.user > k (≥ and ≠), but e ≤ e' in the table order and e'.user = k
        have hgt : bltB k e.key.user = true := bltB_total _ _ hpe.1 hu
        rcases hafter e' he' hp' with h' | h'
        · exact hu (h' ▸ hu')
        · unfold vlt at h'
          simp only [Bool.or_eq_true, Bool.and_eq_true, beq_iff_eq, decide_eq_true_eq] at h'
          rcases h' with h' | ⟨h', _⟩
          · rw [hu'] at h'; have := bltB_asymm _ _ hgt; rw [this] at h'; cases h'
          · exact hu (h'.trans hu')

/-- keep the candidate with the newest version (searchLowerBound after F2) -/
def better (a b : Option E) : Option E :=
  match a, b with
  | none, b => b
  | a, none => a
  | some x, some y => if x.key.ts < y.key.ts then some y else some x

/-- `mayContain` is the bloom filter: arbitrary, but never denies a user key that is in the table -/
def levelsLookup (mayContain : List E → Bytes → Bool) (tables : List (List E)) (k : Bytes) (r : Nat) :
    Option E :=
  tables.foldl (fun acc t => if mayContain t k then better acc (tableCand t k r) else acc) none

theorem better_newest {xs ys : List E} {k : Bytes} {r : Nat} {a b : Option E}
    (ha : IsNewest xs k r a) (hb : IsNewest ys k r b) : IsNewest (xs ++ ys) k r (better a b) := by
  cases a with
  | none =>
    cases b with
    | none =>
      simp only [better, IsNewest] at *
      intro e he; rcases List.mem_append.mp he with h | h; exact ha e h; exact hb e h
    | some y =>
      simp only [better, IsNewest] at *
      refine ⟨List.mem_append.mpr (Or.inr hb.1), hb.2.1, hb.2.2.1, ?_⟩
      intro e' he' hu hr
      rcases List.mem_append.mp he' with h | h
      · have := ha e' h hu; omega
      · exact hb.2.2.2 e' h hu hr
  | some x =>
    cases b with
    | none =>
      simp only [better, IsNewest] at *
      refine ⟨List.mem_append.mpr (Or.inl ha.1), ha.2.1, ha.2.2.1, ?_⟩
      intro e' he' hu hr
      rcases List.mem_append.mp he' with h | h
      · exact ha.2.2.2 e' h hu hr
      · have := hb e' h hu; omega
    | some y =>
      simp only [better, IsNewest] at ha hb
      simp only [better]
      split
      · rename_i hlt
        refine ⟨List.mem_append.mpr (Or.inr hb.1), hb.2.1, hb.2.2.1, ?_⟩
        intro e' he' hu hr
        rcases List.mem_append.mp he' with h | h
        · have := ha.2.2.2 e' h hu hr; omega
        · exact hb.2.2.2 e' h hu hr
      · rename_i hge
        refine ⟨List.mem_append.mpr (Or.inl ha.1), ha.2.1, ha.2.2.1, ?_⟩
        intro e' he' hu hr
        rcases List.mem_append.mp he' with h | h
        · exact ha.2.2.2 e' h hu hr
        · have := hb.2.2.2 e' h hu hr; omega

/-- C10: lookup over any number of tables, any filter without false negatives -/
theorem levelsLookup_newest (mayContain : List E → Bytes → Bool)
    (hbloom : ∀ t e, e ∈ t → mayContain t e.key.user = true)
    (tables : List (List E)) (hs : ∀ t ∈ tables, SortedE vlt t) (k : Bytes) (r : Nat) :
    IsNewest tables.flatten k r (levelsLookup mayContain tables k r) := by
  unfold levelsLookup
  suffices h : ∀ (pre : List E) (acc : Option E), IsNewest pre k r acc →
      IsNewest (pre ++ tables.flatten) k r
        (tables.foldl (fun acc t => if mayContain t k then better acc (tableCand t k r) else acc) acc) by
    have := h [] none (by simp [IsNewest])
    simpa using this
  induction tables with
  | nil => intro pre acc h; simpa using h
  | cons t rest ih =>
    intro pre acc hacc
    have hst := hs t (by simp)
    have hrest := ih (fun t' ht' => hs t' (by simp [ht']))
    simp only [List.foldl_cons, List.flatten_cons]
    rw [← List.append_assoc]
    apply hrest
    split
    · exact better_newest hacc (tableCand_newest hst k r)
    · rename_i hno
      -- the filter denies k, so the table holds no entry of k: candidate would be none anyway
      have hnone : IsNewest t k r none := by
        intro e he hu
        have := hbloom t e he
        rw [hu] at this; exact absurd this hno
      have := better_newest hacc hnone
      cases acc <;> simpa [better] using this

#print axioms levelsLookup_newest
end Levels
