import Originium.Model.Table
/-! pkg/skiplist/skiplist.go — tower model.

Nodes are kept in key order, each with the height `randomLevel()` gave it; the level-`i` list is
"the nodes of height > i" (abstraction of the `next[i]` pointers; the pointer relinking of
`Set`/`Delete` is *not* modelled, it is covered by the correspondence check only).
The level-descending search of `Set/Get/LowerBound/Scan/Delete` is modelled literally. -/
set_option linter.unusedSectionVars false
namespace Skiplist
open Table

variable {K : Type} [DecidableEq K] (lt : K → K → Bool)

structure Node (K : Type) where
  entry : Entry K
  height : Nat
deriving Repr

/-- one level of `for curr.next[i] != nil && CompareKeys(curr.next[i].Key, key) < 0 { curr = curr.next[i] }`:
    number of nodes advanced over.  `pend` = invisible nodes (height ≤ i) passed since `curr`. -/
def walkAux (i : Nat) (t : K) : Nat → List (Node K) → Nat
  | _, [] => 0
  | pend, n :: rest =>
    if i < n.height then
      if lt n.entry.key t then (pend + 1) + walkAux i t 0 rest else 0
    else walkAux i t (pend + 1) rest

def walk (i : Nat) (t : K) (l : List (Node K)) : Nat := walkAux lt i t 0 l

/-- `for i := maxLevel-1; i >= 0; i--`: `lvl` levels remain, `pos` nodes are behind `curr` -/
def descend (t : K) (l : List (Node K)) : Nat → Nat → Nat
  | 0, pos => pos
  | lvl + 1, pos => descend t l lvl (pos + walk lt lvl t (l.drop pos))

/-- position of `curr.next[0]` after the search -/
def findPos (maxLevel : Nat) (t : K) (l : List (Node K)) : Nat := descend lt t l maxLevel 0

def lowerBound (maxLevel : Nat) (l : List (Node K)) (t : K) : Option (Entry K) :=
  (l[findPos lt maxLevel t l]?).map (·.entry)

def get (maxLevel : Nat) (l : List (Node K)) (t : K) : Option (Entry K) :=
  match l[findPos lt maxLevel t l]? with
  | some n => if n.entry.key = t then some n.entry else none
  | none => none

/-- `Set`: replace value and tombstone of an existing key (version kept), else insert with height `h` -/
def set (maxLevel : Nat) (l : List (Node K)) (e : Entry K) (h : Nat) : List (Node K) :=
  let pos := findPos lt maxLevel e.key l
  match l[pos]? with
  | some n =>
    if n.entry.key = e.key then
      l.set pos { n with entry := { n.entry with value := e.value, tomb := e.tomb } }
    else l.take pos ++ { entry := e, height := h } :: l.drop pos
  | none => l.take pos ++ { entry := e, height := h } :: l.drop pos

def delete (maxLevel : Nat) (l : List (Node K)) (t : K) : List (Node K) × Bool :=
  let pos := findPos lt maxLevel t l
  match l[pos]? with
  | some n => if n.entry.key = t then (l.eraseIdx pos, true) else (l, false)
  | none => (l, false)

/-- `Scan [start, end)` -/
def scan (maxLevel : Nat) (l : List (Node K)) (a b : K) : List (Entry K) :=
  ((l.drop (findPos lt maxLevel a l)).takeWhile (fun n => lt n.entry.key b)).map (·.entry)

def all (l : List (Node K)) : List (Entry K) := l.map (·.entry)

/-! ### specification: a sorted association list -/
namespace Spec

def set (es : List (Entry K)) (e : Entry K) : List (Entry K) :=
  match es with
  | [] => [e]
  | x :: xs =>
    if lt x.key e.key then x :: set xs e
    else if x.key = e.key then { x with value := e.value, tomb := e.tomb } :: xs
    else e :: x :: xs

def lowerBound (es : List (Entry K)) (t : K) : Option (Entry K) := es.find? (fun x => !lt x.key t)

def get (es : List (Entry K)) (t : K) : Option (Entry K) := es.find? (fun x => decide (x.key = t))

def scan (es : List (Entry K)) (a b : K) : List (Entry K) := es.filter (fun x => !lt x.key a && lt x.key b)

def delete (es : List (Entry K)) (t : K) : List (Entry K) := es.filter (fun x => !decide (x.key = t))

end Spec

/-! ### proofs -/

/-- number of leading nodes below the target -/
def cnt (t : K) (l : List (Node K)) : Nat := (l.takeWhile (fun n => lt n.entry.key t)).length

def SortedN (l : List (Node K)) : Prop := l.Pairwise (fun a b => lt a.entry.key b.entry.key = true)

section
variable (htrans : ∀ a b c : K, lt a b = true → lt b c = true → lt a c = true)
include htrans

/-- in a sorted list, everything before a node below the target is below the target -/
theorem below_of_sorted {pre rest : List (Node K)} {n : Node K} {t : K}
    (hs : SortedN lt (pre ++ n :: rest)) (hn : lt n.entry.key t = true) :
    ∀ x ∈ pre, lt x.entry.key t = true := by
  intro x hx
  have := (List.pairwise_append.mp hs).2.2 x hx n (by simp)
  exact htrans _ _ _ this hn

theorem cnt_append_of_all {t : K} (pre rest : List (Node K)) (h : ∀ x ∈ pre, lt x.entry.key t = true) :
    cnt lt t (pre ++ rest) = pre.length + cnt lt t rest := by
  unfold cnt
  induction pre with
  | nil => simp
  | cons x xs ih =>
    have hx := h x (by simp)
    simp only [List.cons_append, List.takeWhile_cons, hx, ↓reduceIte, List.length_cons]
    rw [ih (fun y hy => h y (by simp [hy]))]
    omega

theorem walkAux_le (i : Nat) (t : K) (rest pre : List (Node K)) (hs : SortedN lt (pre ++ rest)) :
    walkAux lt i t pre.length rest ≤ cnt lt t (pre ++ rest) := by
  induction rest generalizing pre with
  | nil => simp [walkAux]
  | cons n rest ih =>
    unfold walkAux
    split
    · split
      · rename_i hv hp
        have hall := below_of_sorted lt htrans hs hp
        rw [cnt_append_of_all lt htrans pre (n :: rest) hall]
        have hrest : SortedN lt ([] ++ rest) := by
          have := (List.pairwise_append.mp hs).2.1
          exact (List.pairwise_cons.mp this).2
        have := ih [] hrest
        simp only [List.length_nil, List.nil_append] at this
        have hc : cnt lt t (n :: rest) = 1 + cnt lt t rest := by
          unfold cnt; simp [List.takeWhile_cons, hp]; omega
        omega
      · omega
    · have : SortedN lt ((pre ++ [n]) ++ rest) := by simpa using hs
      have := ih (pre ++ [n]) this
      simpa using this

theorem walk_le (i : Nat) (t : K) (l : List (Node K)) (hs : SortedN lt l) : walk lt i t l ≤ cnt lt t l := by
  have := walkAux_le lt htrans i t l [] (by simpa using hs)
  simpa [walk] using this

omit htrans in
/-- on level 0 every node is visible: the walk stops exactly at the first node ≥ target -/
theorem walk_zero (t : K) (l : List (Node K)) (hh : ∀ n ∈ l, 0 < n.height) : walk lt 0 t l = cnt lt t l := by
  unfold walk cnt
  induction l with
  | nil => simp [walkAux]
  | cons n rest ih =>
    have hn := hh n (by simp)
    have ih' := ih (fun m hm => hh m (by simp [hm]))
    unfold walkAux
    simp only [hn, ↓reduceIte, List.takeWhile_cons]
    split
    · simp only [List.length_cons]; rw [ih']; omega
    · simp

omit htrans in
theorem cnt_drop (t : K) (l : List (Node K)) (pos : Nat) (h : pos ≤ cnt lt t l) :
    cnt lt t (l.drop pos) = cnt lt t l - pos := by
  induction l generalizing pos with
  | nil => simp [cnt]
  | cons n rest ih =>
    cases pos with
    | zero => simp
    | succ p =>
      unfold cnt at h ⊢
      simp only [List.takeWhile_cons] at h ⊢
      split at h
      · rename_i hp
        simp only [List.length_cons] at h
        simp only [List.drop_succ_cons, hp, ↓reduceIte, List.length_cons]
        have := ih p (by unfold cnt; omega)
        unfold cnt at this
        omega
      · simp at h

omit htrans in
theorem sorted_drop {l : List (Node K)} (hs : SortedN lt l) (pos : Nat) : SortedN lt (l.drop pos) :=
  List.Pairwise.sublist (List.drop_sublist _ _) hs

theorem descend_le (t : K) (l : List (Node K)) (hs : SortedN lt l) (lvl pos : Nat) (hpos : pos ≤ cnt lt t l) :
    descend lt t l lvl pos ≤ cnt lt t l := by
  induction lvl generalizing pos with
  | zero => simpa [descend] using hpos
  | succ lvl ih =>
    unfold descend
    apply ih
    have h1 := walk_le lt htrans lvl t (l.drop pos) (sorted_drop lt hs pos)
    rw [cnt_drop lt t l pos hpos] at h1
    omega

/-- the level-descending search ends in front of the first node ≥ target, for any heights ≥ 1 -/
theorem descend_eq (t : K) (l : List (Node K)) (hs : SortedN lt l) (hh : ∀ n ∈ l, 0 < n.height)
    (lvl pos : Nat) (hl : 0 < lvl) (hpos : pos ≤ cnt lt t l) :
    descend lt t l lvl pos = cnt lt t l := by
  induction lvl generalizing pos with
  | zero => omega
  | succ lvl ih =>
    unfold descend
    have h1 := walk_le lt htrans lvl t (l.drop pos) (sorted_drop lt hs pos)
    rw [cnt_drop lt t l pos hpos] at h1
    cases lvl with
    | zero =>
      simp only [descend]
      rw [walk_zero lt t (l.drop pos) (fun n hn => hh n (List.mem_of_mem_drop hn)), cnt_drop lt t l pos hpos]
      omega
    | succ lvl' => exact ih _ (by omega) (by omega)

theorem findPos_eq (maxLevel : Nat) (hm : 0 < maxLevel) (t : K) (l : List (Node K)) (hs : SortedN lt l)
    (hh : ∀ n ∈ l, 0 < n.height) : findPos lt maxLevel t l = cnt lt t l :=
  descend_eq lt htrans t l hs hh maxLevel 0 hm (Nat.zero_le _)

end

/-- the element right after the leading run of `p` is the first element that fails `p` -/
theorem getElem?_takeWhile_length {α : Type} (p : α → Bool) (l : List α) :
    l[(l.takeWhile p).length]? = l.find? (fun x => !p x) := by
  induction l with
  | nil => simp
  | cons a rest ih =>
    simp only [List.takeWhile_cons, List.find?_cons]
    cases hp : p a with
    | true => simp [ih]
    | false => simp

/-! ### refinement to the sorted association list -/
section refine
variable (htrans : ∀ a b c : K, lt a b = true → lt b c = true → lt a c = true)
variable (hirr : ∀ a : K, lt a a = false)
variable (htot : ∀ a b : K, lt a b = false → lt b a = false → a = b)

/-- well-formed skiplist state: strictly sorted nodes, every tower at least one level high -/
structure WF (l : List (Node K)) : Prop where
  sorted : SortedN lt l
  heights : ∀ n ∈ l, 0 < n.height

include htrans in
theorem lowerBound_eq {maxLevel : Nat} (hm : 0 < maxLevel) {l : List (Node K)} (hw : WF lt l) (t : K) :
    lowerBound lt maxLevel l t = Spec.lowerBound lt (all l) t := by
  unfold lowerBound Spec.lowerBound all
  rw [findPos_eq lt htrans maxLevel hm t l hw.sorted hw.heights]
  unfold cnt
  rw [getElem?_takeWhile_length, List.find?_map]
  rfl

include htrans hirr htot in
theorem get_eq {maxLevel : Nat} (hm : 0 < maxLevel) {l : List (Node K)} (hw : WF lt l) (t : K) :
    get lt maxLevel l t = Spec.get (all l) t := by
  unfold get Spec.get all
  rw [findPos_eq lt htrans maxLevel hm t l hw.sorted hw.heights]
  unfold cnt
  rw [getElem?_takeWhile_length, List.find?_map]
  have hs := hw.sorted
  clear hw
  induction l with
  | nil => simp
  | cons n rest ih =>
    have hrest : SortedN lt rest := (List.pairwise_cons.mp hs).2
    have hhead := (List.pairwise_cons.mp hs).1
    simp only [List.find?_cons, Function.comp]
    cases hp : lt n.entry.key t with
    | true =>
      have hne : n.entry.key ≠ t := by intro e; rw [e, hirr] at hp; cases hp
      simp only [Bool.not_true, Bool.false_eq_true, ↓reduceIte, hne, decide_false]
      exact ih hrest
    | false =>
      simp only [Bool.not_false, ↓reduceIte]
      by_cases he : n.entry.key = t
      · simp [he]
      · simp only [he, ↓reduceIte, decide_false, Bool.false_eq_true]
        -- t < n.key < every later key: no later node has key t
        have hlt : lt t n.entry.key = true := by
          cases h : lt t n.entry.key with
          | true => rfl
          | false => exact absurd (htot _ _ hp h) he
        symm
        rw [Option.map_eq_none_iff, List.find?_eq_none]
        intro x hx
        have := htrans _ _ _ hlt (hhead x hx)
        simp only [Function.comp, decide_eq_true_eq]
        intro e; rw [e, hirr] at this; cases this

include htrans in
theorem scan_eq {maxLevel : Nat} (hm : 0 < maxLevel) {l : List (Node K)} (hw : WF lt l) (a b : K) :
    scan lt maxLevel l a b = Spec.scan lt (all l) a b := by
  unfold scan Spec.scan all
  rw [findPos_eq lt htrans maxLevel hm a l hw.sorted hw.heights]
  have hs := hw.sorted
  clear hw
  unfold cnt
  induction l with
  | nil => simp
  | cons n rest ih =>
    have hrest : SortedN lt rest := (List.pairwise_cons.mp hs).2
    have hhead := (List.pairwise_cons.mp hs).1
    simp only [List.takeWhile_cons]
    cases hp : lt n.entry.key a with
    | true =>
      simp only [↓reduceIte, List.length_cons, List.drop_succ_cons, List.map_cons, List.filter_cons,
        hp, Bool.not_true, Bool.false_and, Bool.false_eq_true]
      exact ih hrest
    | false =>
      simp only [Bool.false_eq_true, ↓reduceIte, List.length_nil, List.drop_zero, List.map_cons,
        List.filter_cons, hp, Bool.not_false, Bool.true_and, List.takeWhile_cons]
      -- from here on every node is ≥ a: the filter is a takeWhile
      have hge : ∀ x ∈ rest, lt x.entry.key a = false := by
        intro x hx
        cases h : lt x.entry.key a with
        | false => rfl
        | true =>
          have := htrans _ _ _ (hhead x hx) h
          rw [this] at hp; cases hp
      have key : ∀ (r : List (Node K)), SortedN lt r → (∀ x ∈ r, lt x.entry.key a = false) →
          (r.takeWhile (fun n => lt n.entry.key b)).map (·.entry)
            = (r.map (·.entry)).filter (fun x => !lt x.key a && lt x.key b) := by
        intro r hr hra
        induction r with
        | nil => simp
        | cons m r ih2 =>
          have hm' := hra m (by simp)
          have hr2 : SortedN lt r := (List.pairwise_cons.mp hr).2
          have hmh := (List.pairwise_cons.mp hr).1
          simp only [List.takeWhile_cons, List.map_cons, List.filter_cons, hm', Bool.not_false, Bool.true_and]
          cases hb : lt m.entry.key b with
          | true =>
            simp only [↓reduceIte, List.map_cons]
            rw [ih2 hr2 (fun x hx => hra x (by simp [hx]))]
          | false =>
            simp only [Bool.false_eq_true, ↓reduceIte, List.map_nil]
            symm
            rw [List.filter_eq_nil_iff]
            intro x hx
            obtain ⟨y, hy, rfl⟩ := List.mem_map.mp hx
            cases h : lt y.entry.key b with
            | false => simp
            | true =>
              have := htrans _ _ _ (hmh y hy) h
              rw [this] at hb; cases hb
      cases hb : lt n.entry.key b with
      | true =>
        simp only [↓reduceIte, List.map_cons]
        rw [key rest hrest hge]
      | false =>
        simp only [Bool.false_eq_true, ↓reduceIte, List.map_nil]
        symm
        rw [List.filter_eq_nil_iff]
        intro x hx
        obtain ⟨y, hy, rfl⟩ := List.mem_map.mp hx
        cases h : lt y.entry.key b with
        | false => simp
        | true =>
          have := htrans _ _ _ (hhead y hy) h
          rw [this] at hb; cases hb

/-- body of `set` / `delete` at a given position -/
def setCore (l : List (Node K)) (e : Entry K) (h : Nat) (pos : Nat) : List (Node K) :=
  match l[pos]? with
  | some n =>
    if n.entry.key = e.key then
      l.set pos { n with entry := { n.entry with value := e.value, tomb := e.tomb } }
    else l.take pos ++ { entry := e, height := h } :: l.drop pos
  | none => l.take pos ++ { entry := e, height := h } :: l.drop pos

theorem set_eq_setCore (maxLevel : Nat) (l : List (Node K)) (e : Entry K) (h : Nat) :
    set lt maxLevel l e h = setCore l e h (findPos lt maxLevel e.key l) := rfl

theorem setCore_succ (n : Node K) (rest : List (Node K)) (e : Entry K) (h pos : Nat) :
    setCore (n :: rest) e h (pos + 1) = n :: setCore rest e h pos := by
  unfold setCore
  simp only [List.getElem?_cons_succ]
  cases rest[pos]? with
  | none => simp
  | some m => by_cases hk : m.entry.key = e.key <;> simp [hk]

theorem all_setCore (l : List (Node K)) (e : Entry K) (h : Nat) :
    all (setCore l e h (cnt lt e.key l)) = Spec.set lt (all l) e := by
  induction l with
  | nil => simp [setCore, cnt, all, Spec.set]
  | cons n rest ih =>
    unfold cnt at ih ⊢
    simp only [List.takeWhile_cons]
    cases hp : lt n.entry.key e.key with
    | true =>
      simp only [↓reduceIte, List.length_cons, setCore_succ]
      simp only [all, List.map_cons, Spec.set, hp, ↓reduceIte] at ih ⊢
      rw [ih]
    | false =>
      simp only [Bool.false_eq_true, ↓reduceIte, List.length_nil, setCore, List.getElem?_cons_zero]
      by_cases hk : n.entry.key = e.key
      · have hp' : lt e.key e.key = false := by rw [← hk]; rw [hk] at hp; rw [hk]; exact hp
        simp only [hk, ↓reduceIte, List.set_cons_zero, all, List.map_cons, Spec.set, hp', Bool.false_eq_true]
      · simp only [hk, ↓reduceIte, List.take_zero, List.nil_append, List.drop_zero, all, List.map_cons, Spec.set, hp, Bool.false_eq_true]

include htrans in
theorem set_all {maxLevel : Nat} (hm : 0 < maxLevel) {l : List (Node K)} (hw : WF lt l) (e : Entry K) (h : Nat) :
    all (set lt maxLevel l e h) = Spec.set lt (all l) e := by
  rw [set_eq_setCore, findPos_eq lt htrans maxLevel hm e.key l hw.sorted hw.heights]
  exact all_setCore lt l e h

theorem mem_setCore {l : List (Node K)} {e : Entry K} {h pos : Nat} {x : Node K} (hx : x ∈ setCore l e h pos) :
    x.height = h ∨ ∃ y ∈ l, y.height = x.height := by
  unfold setCore at hx
  have hins : x ∈ l.take pos ++ { entry := e, height := h } :: l.drop pos → x.height = h ∨ ∃ y ∈ l, y.height = x.height := by
    intro hx
    simp only [List.mem_append, List.mem_cons] at hx
    rcases hx with hx | hx | hx
    · exact Or.inr ⟨x, List.mem_of_mem_take hx, rfl⟩
    · left; rw [hx]
    · exact Or.inr ⟨x, List.mem_of_mem_drop hx, rfl⟩
  cases hl : l[pos]? with
  | none => rw [hl] at hx; exact hins hx
  | some n =>
    rw [hl] at hx
    simp only at hx
    split at hx
    · right
      rcases List.mem_or_eq_of_mem_set hx with hx | hx
      · exact ⟨x, hx, rfl⟩
      · exact ⟨n, List.mem_of_getElem? hl, by rw [hx]⟩
    · exact hins hx

include htrans in
/-- ordered insert keeps the list strictly sorted -/
theorem spec_set_sorted {es : List (Entry K)} (hs : SortedE lt es) (e : Entry K)
    (htot' : ∀ a b : K, lt a b = false → a ≠ b → lt b a = true) : SortedE lt (Spec.set lt es e) := by
  induction es with
  | nil => simp [Spec.set, SortedE]
  | cons x xs ih =>
    have hxs : SortedE lt xs := (List.pairwise_cons.mp hs).2
    have hx := (List.pairwise_cons.mp hs).1
    unfold Spec.set
    split
    · rename_i hlt
      refine List.pairwise_cons.mpr ⟨?_, ih hxs⟩
      intro y hy
      -- members of `set xs e` are members of xs (possibly with new value) or e
      have : y.key = e.key ∨ ∃ z ∈ xs, z.key = y.key := by
        clear ih hxs hx hs
        induction xs with
        | nil => simp [Spec.set] at hy; left; rw [hy]
        | cons z zs ih2 =>
          unfold Spec.set at hy
          split at hy
          · rcases List.mem_cons.mp hy with h | h
            · exact Or.inr ⟨z, by simp, by rw [h]⟩
            · rcases ih2 h with h' | ⟨w, hw, hw'⟩
              · exact Or.inl h'
              · exact Or.inr ⟨w, by simp [hw], hw'⟩
          · split at hy
            · rcases List.mem_cons.mp hy with h | h
              · exact Or.inr ⟨z, by simp, by rw [h]⟩
              · exact Or.inr ⟨y, by simp [h], rfl⟩
            · rcases List.mem_cons.mp hy with h | h
              · left; rw [h]
              · exact Or.inr ⟨y, h, rfl⟩
      rcases this with h | ⟨z, hz, hz'⟩
      · rw [h]; exact hlt
      · rw [← hz']; exact hx z hz
    · rename_i hnlt
      have hnlt' : lt x.key e.key = false := by simpa using hnlt
      split
      · exact List.pairwise_cons.mpr ⟨fun y hy => hx y hy, hxs⟩
      · rename_i hne
        have hlt : lt e.key x.key = true := htot' _ _ hnlt' hne
        refine List.pairwise_cons.mpr ⟨?_, hs⟩
        intro y hy
        rcases List.mem_cons.mp hy with h | h
        · rw [h]; exact hlt
        · exact htrans _ _ _ hlt (hx y h)

omit [DecidableEq K] in
theorem sortedN_iff (l : List (Node K)) : SortedN lt l ↔ SortedE lt (all l) := by
  unfold SortedN SortedE all
  rw [List.pairwise_map]

include htrans hirr htot in
theorem set_wf {maxLevel : Nat} (hm : 0 < maxLevel) {l : List (Node K)} (hw : WF lt l) (e : Entry K)
    {h : Nat} (hh : 0 < h) : WF lt (set lt maxLevel l e h) := by
  constructor
  · rw [sortedN_iff, set_all lt htrans hm hw]
    apply spec_set_sorted lt htrans ((sortedN_iff lt l).mp hw.sorted)
    intro a b hab hne
    cases hba : lt b a with
    | true => rfl
    | false => exact absurd (htot a b hab hba) hne
  · intro x hx
    rw [set_eq_setCore] at hx
    rcases mem_setCore hx with h' | ⟨y, hy, hy'⟩
    · omega
    · have := hw.heights y hy; omega

def deleteCore (l : List (Node K)) (t : K) (pos : Nat) : List (Node K) × Bool :=
  match l[pos]? with
  | some n => if n.entry.key = t then (l.eraseIdx pos, true) else (l, false)
  | none => (l, false)

theorem deleteCore_succ (n : Node K) (rest : List (Node K)) (t : K) (pos : Nat) :
    deleteCore (n :: rest) t (pos + 1) = (n :: (deleteCore rest t pos).1, (deleteCore rest t pos).2) := by
  unfold deleteCore
  simp only [List.getElem?_cons_succ]
  cases rest[pos]? with
  | none => simp
  | some m => by_cases hk : m.entry.key = t <;> simp [hk]

include htrans hirr in
theorem deleteCore_spec {l : List (Node K)} (hs : SortedN lt l) (t : K) :
    all (deleteCore l t (cnt lt t l)).1 = Spec.delete (all l) t ∧
    (deleteCore l t (cnt lt t l)).2 = (Spec.get (all l) t).isSome := by
  induction l with
  | nil => simp [deleteCore, cnt, all, Spec.delete, Spec.get]
  | cons n rest ih =>
    have hrest : SortedN lt rest := (List.pairwise_cons.mp hs).2
    have hhead := (List.pairwise_cons.mp hs).1
    have ih' := ih hrest
    unfold cnt at ih' ⊢
    simp only [List.takeWhile_cons]
    cases hp : lt n.entry.key t with
    | true =>
      have hne : n.entry.key ≠ t := by intro e; rw [e, hirr] at hp; cases hp
      simp only [↓reduceIte, List.length_cons, deleteCore_succ]
      simp only [all, List.map_cons, Spec.delete, Spec.get, List.filter_cons, hne, decide_false,
        Bool.not_false, ↓reduceIte, List.find?_cons, Bool.false_eq_true] at ih' ⊢
      exact ⟨by rw [ih'.1], ih'.2⟩
    | false =>
      simp only [Bool.false_eq_true, ↓reduceIte, List.length_nil]
      have hlater : ∀ x ∈ rest, x.entry.key ≠ t := by
        intro x hx e
        have h1 := hhead x hx
        rw [e] at h1
        rw [h1] at hp; cases hp
      have hfilter : (rest.map (·.entry)).filter (fun x => !decide (x.key = t)) = rest.map (·.entry) := by
        rw [List.filter_eq_self]
        intro x hx
        obtain ⟨y, hy, rfl⟩ := List.mem_map.mp hx
        simp [hlater y hy]
      have hfind : (rest.map (·.entry)).find? (fun x => decide (x.key = t)) = none := by
        rw [List.find?_eq_none]
        intro x hx
        obtain ⟨y, hy, rfl⟩ := List.mem_map.mp hx
        simp [hlater y hy]
      unfold deleteCore
      simp only [List.getElem?_cons_zero]
      by_cases hk : n.entry.key = t
      · simp [hk, all, Spec.delete, Spec.get, hfilter]
      · simp [hk, all, Spec.delete, Spec.get, hfilter, hfind]

include htrans hirr in
/-- `Delete` removes exactly the node with that key and reports whether it was there -/
theorem delete_all {maxLevel : Nat} (hm : 0 < maxLevel) {l : List (Node K)} (hw : WF lt l) (t : K) :
    all (delete lt maxLevel l t).1 = Spec.delete (all l) t ∧
    (delete lt maxLevel l t).2 = (Spec.get (all l) t).isSome := by
  have : delete lt maxLevel l t = deleteCore l t (findPos lt maxLevel t l) := rfl
  rw [this, findPos_eq lt htrans maxLevel hm t l hw.sorted hw.heights]
  exact deleteCore_spec lt htrans hirr hw.sorted t

end refine

end Skiplist
