/-! Feasibility probe 2: watermark model (C13) with counter map (assoc list, newest binding first)
    and heap (sorted index list) kept separately. -/
namespace WM2

inductive Mark where
  | begin (t : Nat)
  | done (t : Nat)
deriving Repr, DecidableEq

def Mark.ts : Mark → Nat | .begin t => t | .done t => t
def Mark.delta : Mark → Int | .begin _ => 1 | .done _ => -1

structure St where
  doneUntil : Nat
  heap : List Nat            -- indices present in `pending`, ascending
  cnt : List (Nat × Int)     -- pending counts, newest binding first; absent = 0
deriving Repr

def get (t : Nat) : List (Nat × Int) → Int
  | [] => 0
  | (s, d) :: rest => if s = t then d else get t rest

def insertSorted (t : Nat) : List Nat → List Nat
  | [] => [t]
  | h :: rest => if t < h then t :: h :: rest else if t = h then h :: rest else h :: insertSorted t rest

/-- pop finished minima -/
def drain : Nat → List Nat → List (Nat × Int) → Nat × List Nat × List (Nat × Int)
  | du, [], cnt => (du, [], cnt)
  | du, h :: rest, cnt => if get h cnt > 0 then (du, h :: rest, cnt) else drain h rest ((h, 0) :: cnt)

def step (st : St) (m : Mark) : St :=
  let cnt1 := (m.ts, get m.ts st.cnt + m.delta) :: st.cnt
  let heap1 := insertSorted m.ts st.heap
  let r := drain st.doneUntil heap1 cnt1
  { doneUntil := if r.1 > st.doneUntil then r.1 else st.doneUntil, heap := r.2.1, cnt := r.2.2 }

def init : St := { doneUntil := 0, heap := [], cnt := [] }
def run (ms : List Mark) : St := ms.foldl step init

theorem run_snoc (ms : List Mark) (m : Mark) : run (ms ++ [m]) = step (run ms) m := by
  simp [run, List.foldl_append]

#eval (run [.begin 3, .done 7, .done 3]).doneUntil
#eval (run [.done 7, .begin 7, .begin 8, .done 8]).doneUntil
#eval (run [.begin 3, .done 7, .done 7, .begin 7, .done 3]).doneUntil

/-! ### C13_monotone -/
theorem step_mono (st : St) (m : Mark) : st.doneUntil ≤ (step st m).doneUntil := by
  unfold step; simp only; split <;> omega

/-! ### heap facts -/
def Asc (l : List Nat) : Prop := l.Pairwise (· < ·)

theorem mem_insertSorted {t x : Nat} {l : List Nat} : x ∈ insertSorted t l ↔ x = t ∨ x ∈ l := by
  induction l with
  | nil => simp [insertSorted]
  | cons h rest ih =>
    simp only [insertSorted]
    split
    · simp
    · split
      · rename_i heq; subst heq; simp
      · simp only [List.mem_cons, ih]
        constructor
        · rintro (h | h | h) <;> simp [h]
        · rintro (h | h | h) <;> simp [h]

theorem asc_insertSorted {t : Nat} {l : List Nat} (h : Asc l) : Asc (insertSorted t l) := by
  induction l with
  | nil => simp [insertSorted, Asc]
  | cons a rest ih =>
    have hr := (List.pairwise_cons.mp h).2
    have hh := (List.pairwise_cons.mp h).1
    simp only [insertSorted]
    split
    · rename_i hlt
      refine List.pairwise_cons.mpr ⟨?_, h⟩
      intro x hx; simp only [List.mem_cons] at hx
      rcases hx with rfl | hx
      · exact hlt
      · have := hh x hx; omega
    · split
      · exact h
      · refine List.pairwise_cons.mpr ⟨?_, ih hr⟩
        intro x hx
        rcases mem_insertSorted.mp hx with rfl | hx
        · omega
        · exact hh x hx

/-- what drain does: pops a prefix whose counts are ≤ 0 (under the original map, since popped indices are distinct) -/
theorem drain_spec (du : Nat) (heap : List Nat) (cnt : List (Nat × Int)) (hasc : Asc heap) :
    ∃ popped, heap = popped ++ (drain du heap cnt).2.1 ∧
      (∀ x ∈ popped, get x cnt ≤ 0) ∧
      (match (drain du heap cnt).2.1 with | [] => True | x :: _ => 0 < get x cnt) ∧
      (drain du heap cnt).1 = (match popped.getLast? with | some x => x | none => du) ∧
      (∀ t, get t (drain du heap cnt).2.2 = if t ∈ popped then 0 else get t cnt) := by
  induction heap generalizing du cnt with
  | nil => exact ⟨[], rfl, by simp, by simp [drain], by simp [drain], by simp [drain]⟩
  | cons h rest ih =>
    have hr := (List.pairwise_cons.mp hasc).2
    have hh := (List.pairwise_cons.mp hasc).1
    unfold drain
    split
    · rename_i hpos
      exact ⟨[], rfl, by simp, by simpa using hpos, by simp, by simp⟩
    · rename_i hnp
      obtain ⟨popped, h1, h2, h3, h4, h5⟩ := ih h ((h, 0) :: cnt) hr
      -- indices in `rest` are > h, so the extra binding (h,0) is invisible to them
      have hget : ∀ x ∈ rest, get x ((h, 0) :: cnt) = get x cnt := by
        intro x hx; have := hh x hx
        simp only [get]; rw [if_neg (by omega)]
      have hpsub : ∀ x ∈ popped, x ∈ rest := by
        intro x hx; rw [h1]; exact List.mem_append.mpr (Or.inl hx)
      refine ⟨h :: popped, ?_, ?_, ?_, ?_, ?_⟩
      · simp only [List.cons_append]; rw [← h1]
      · intro x hx; simp only [List.mem_cons] at hx
        rcases hx with rfl | hx
        · omega
        · rw [← hget x (hpsub x hx)]; exact h2 x hx
      · cases hd : (drain h rest ((h, 0) :: cnt)).2.1 with
        | nil => simp
        | cons y ys =>
          rw [hd] at h3
          have hy : y ∈ rest := by rw [h1, hd]; simp
          simpa [hget y hy] using h3
      · rw [h4]
        cases popped with
        | nil => simp
        | cons y ys =>
          have : ∃ z, (y :: ys).getLast? = some z := by
            cases hl : (y :: ys).getLast? with
            | none => simp at hl
            | some z => exact ⟨z, rfl⟩
          obtain ⟨z, hz⟩ := this
          simp [List.getLast?_cons_cons, hz]
      · intro t
        rw [h5 t]
        by_cases ht : t ∈ popped
        · simp [ht]
        · by_cases hth : t = h
          · subst hth; simp [get]
          · have : ¬ h = t := fun e => hth e.symm
            simp [ht, hth, get, this]

/-! ### history counts -/
def net (t : Nat) (ms : List Mark) : Int := ms.foldl (fun a m => if m.ts = t then a + m.delta else a) 0

/-- matched semantics: a Done cancels an outstanding Begin if there is one, otherwise it is free -/
def outstanding (t : Nat) (ms : List Mark) : Int :=
  ms.foldl (fun a m => if m.ts = t then (match m with | .begin _ => a + 1 | .done _ => if a > 0 then a - 1 else a) else a) 0

theorem net_snoc (t : Nat) (ms : List Mark) (m : Mark) :
    net t (ms ++ [m]) = if m.ts = t then net t ms + m.delta else net t ms := by
  simp [net, List.foldl_append]

theorem outstanding_snoc (t : Nat) (ms : List Mark) (m : Mark) :
    outstanding t (ms ++ [m]) = if m.ts = t then
      (match m with | .begin _ => outstanding t ms + 1
                    | .done _ => if outstanding t ms > 0 then outstanding t ms - 1 else outstanding t ms)
      else outstanding t ms := by
  simp [outstanding, List.foldl_append]

theorem outstanding_nonneg (t : Nat) (ms : List Mark) : 0 ≤ outstanding t ms := by
  unfold outstanding
  suffices ∀ a : Int, 0 ≤ a → 0 ≤ ms.foldl (fun a m => if m.ts = t then (match m with | .begin _ => a + 1 | .done _ => if a > 0 then a - 1 else a) else a) a from this 0 (by omega)
  induction ms with
  | nil => intro a h; simpa using h
  | cons m ms ih =>
    intro a ha
    simp only [List.foldl_cons]
    apply ih
    split
    · cases m <;> simp only <;> (try split) <;> omega
    · exact ha

structure Inv (ms : List Mark) (st : St) : Prop where
  asc : Asc st.heap
  absent : ∀ t, t ∉ st.heap → get t st.cnt = 0
  net_le : ∀ t, net t ms ≤ get t st.cnt
  le_out : ∀ t, get t st.cnt ≤ outstanding t ms
  seen : ∀ m ∈ ms, m.ts ∈ st.heap ∨ m.ts ≤ st.doneUntil
  head_pos : match st.heap with | [] => True | h :: _ => 0 < get h st.cnt
  above : ∀ x ∈ st.heap, ∀ y, y ∉ st.heap → y ≤ st.doneUntil → True   -- placeholder to keep the structure open

theorem inv_init : Inv [] init := by
  refine ⟨by simp [init, Asc], by simp [init, get], by simp [net, init, get], by simp [outstanding, init, get],
    by simp, by simp [init], by simp⟩

/-- one processed mark preserves the invariant; and if the published mark moved, everything left in the heap is above it -/
theorem inv_step {ms : List Mark} {st : St} (h : Inv ms st) (m : Mark) :
    Inv (ms ++ [m]) (step st m) ∧
    (st.doneUntil < (step st m).doneUntil → ∀ x ∈ (step st m).heap, (step st m).doneUntil < x) := by
  have hasc1 : Asc (insertSorted m.ts st.heap) := asc_insertSorted h.asc
  obtain ⟨popped, h1, h2, h3, h4, h5⟩ :=
    drain_spec st.doneUntil (insertSorted m.ts st.heap) ((m.ts, get m.ts st.cnt + m.delta) :: st.cnt) hasc1
  have hstep : step st m =
      { doneUntil := if (drain st.doneUntil (insertSorted m.ts st.heap) ((m.ts, get m.ts st.cnt + m.delta) :: st.cnt)).1 > st.doneUntil
                     then (drain st.doneUntil (insertSorted m.ts st.heap) ((m.ts, get m.ts st.cnt + m.delta) :: st.cnt)).1 else st.doneUntil,
        heap := (drain st.doneUntil (insertSorted m.ts st.heap) ((m.ts, get m.ts st.cnt + m.delta) :: st.cnt)).2.1,
        cnt := (drain st.doneUntil (insertSorted m.ts st.heap) ((m.ts, get m.ts st.cnt + m.delta) :: st.cnt)).2.2 } := rfl
  generalize hR : drain st.doneUntil (insertSorted m.ts st.heap) ((m.ts, get m.ts st.cnt + m.delta) :: st.cnt) = R at h1 h2 h3 h4 h5 hstep
  have hcnt1 : ∀ t, get t ((m.ts, get m.ts st.cnt + m.delta) :: st.cnt) =
      if m.ts = t then get m.ts st.cnt + m.delta else get t st.cnt := by
    intro t; simp only [get]
  have hascSplit : Asc (popped ++ R.2.1) := by rw [← h1]; exact hasc1
  have hrem_asc : Asc R.2.1 := (List.pairwise_append.mp hascSplit).2.1
  have hpop_asc : Asc popped := (List.pairwise_append.mp hascSplit).1
  have hcross := (List.pairwise_append.mp hascSplit).2.2
  have hmem1 : ∀ x, x ∈ insertSorted m.ts st.heap ↔ x ∈ popped ∨ x ∈ R.2.1 := by
    intro x; rw [h1]; exact List.mem_append
  have hlastle : ∀ x ∈ popped, ∃ z, popped.getLast? = some z ∧ x ≤ z := by
    intro x hx
    obtain ⟨z, hz⟩ : ∃ z, popped.getLast? = some z := by
      cases hl : popped.getLast? with
      | none => have : popped = [] := by simpa using hl
                rw [this] at hx; simp at hx
      | some z => exact ⟨z, rfl⟩
    refine ⟨z, hz, ?_⟩
    obtain ⟨ys, hys⟩ := List.getLast?_eq_some_iff.mp hz
    rw [hys] at hx hpop_asc
    rcases List.mem_append.mp hx with hx' | hx'
    · have := (List.pairwise_append.mp hpop_asc).2.2 x hx' z (by simp); omega
    · simp at hx'; omega
  rw [hstep]
  constructor
  · refine ⟨hrem_asc, ?_, ?_, ?_, ?_, ?_, by simp⟩
    · -- absent ⇒ 0
      intro t ht
      simp only at ht ⊢
      rw [h5 t]
      by_cases hp : t ∈ popped
      · simp [hp]
      · simp only [hp, ↓reduceIte]
        have hnot1 : t ∉ insertSorted m.ts st.heap := by
          rw [hmem1]; simp [hp, ht]
        have hne : ¬ m.ts = t := fun e => hnot1 (mem_insertSorted.mpr (Or.inl e.symm))
        have hnh : t ∉ st.heap := fun e => hnot1 (mem_insertSorted.mpr (Or.inr e))
        rw [hcnt1, if_neg hne]; exact h.absent t hnh
    · -- net ≤ count
      intro t
      simp only
      rw [h5 t, net_snoc]
      have hn := h.net_le t
      by_cases hp : t ∈ popped
      · simp only [hp, ↓reduceIte]
        have hle := h2 t hp
        rw [hcnt1] at hle
        by_cases e : m.ts = t
        · subst e; simp only [↓reduceIte] at hle ⊢; omega
        · simp only [e, ↓reduceIte] at hle ⊢; omega
      · simp only [hp, ↓reduceIte]
        rw [hcnt1]
        by_cases e : m.ts = t
        · subst e; simp only [↓reduceIte]; omega
        · simp only [e, ↓reduceIte]; exact hn
    · -- count ≤ outstanding
      intro t
      simp only
      rw [h5 t, outstanding_snoc]
      have hon := outstanding_nonneg t ms
      have hle := h.le_out t
      by_cases hp : t ∈ popped
      · simp only [hp, ↓reduceIte]
        by_cases e : m.ts = t
        · simp only [e, ↓reduceIte]
          cases m <;> simp only <;> (try split) <;> omega
        · simp only [e, ↓reduceIte]; exact hon
      · simp only [hp, ↓reduceIte]
        rw [hcnt1]
        by_cases e : m.ts = t
        · rw [if_pos e, if_pos e, e]
          cases m with
          | begin t' => simp only [Mark.delta]; omega
          | done t' =>
            simp only [Mark.delta]
            split <;> omega
        · simp only [e, ↓reduceIte]; exact hle
    · -- every index seen so far is in the heap or at/below the mark
      intro m' hm'
      simp only
      have hin1 : m'.ts ∈ insertSorted m.ts st.heap ∨ m'.ts ≤ st.doneUntil := by
        simp only [List.mem_append, List.mem_singleton] at hm'
        rcases hm' with hm' | rfl
        · rcases h.seen m' hm' with h' | h'
          · exact Or.inl (mem_insertSorted.mpr (Or.inr h'))
          · exact Or.inr h'
        · exact Or.inl (mem_insertSorted.mpr (Or.inl rfl))
      rcases hin1 with hin | hle
      · rcases (hmem1 m'.ts).mp hin with hp | hr
        · right
          obtain ⟨z, hz, hzle⟩ := hlastle _ hp
          have : R.1 = z := by rw [h4, hz]
          rw [this]; split <;> omega
        · exact Or.inl hr
      · right; split <;> omega
    · -- head of the remaining heap is positive
      simp only
      cases hd : R.2.1 with
      | nil => trivial
      | cons y ys =>
        rw [hd] at h3 hcross
        simp only
        rw [h5 y]
        have hyp : y ∉ popped := by
          intro hy; have := hcross y hy y (by simp); omega
        simpa [hyp] using h3
  · intro hmoved x hx
    simp only at hmoved hx ⊢
    have hne : popped ≠ [] := by
      intro e
      have : R.1 = st.doneUntil := by rw [h4, e]; rfl
      rw [this] at hmoved; simp at hmoved
    obtain ⟨z, hz⟩ : ∃ z, popped.getLast? = some z := by
      cases hl : popped.getLast? with
      | none => exact absurd (by simpa using hl) hne
      | some z => exact ⟨z, rfl⟩
    have hzmem : z ∈ popped := List.mem_of_getLast? hz
    have hr1 : R.1 = z := by rw [h4, hz]
    have := hcross z hzmem x hx
    rw [hr1] at hmoved
    rw [hr1, if_pos (by split at hmoved <;> omega)]
    exact this

theorem inv_foldl (ms0 ms : List Mark) (st : St) (h : Inv ms0 st) : Inv (ms0 ++ ms) (ms.foldl step st) := by
  induction ms generalizing ms0 st with
  | nil => simpa using h
  | cons m ms ih =>
    simp only [List.foldl_cons]
    have := ih (ms0 ++ [m]) (step st m) (inv_step h m).1
    simpa using this

theorem inv_run (ms : List Mark) : Inv ms (run ms) := by
  have := inv_foldl [] ms init inv_init
  simpa [run] using this

/-- C13_never_passes: a step that moves DoneUntil from below t to t or beyond happens only when,
    counting the whole history, t has not been begun more often than finished -/
theorem never_passes (ms : List Mark) (m : Mark) (t : Nat)
    (hlo : (run ms).doneUntil < t) (hhi : t ≤ (run (ms ++ [m])).doneUntil) :
    net t (ms ++ [m]) ≤ 0 := by
  have hinv := inv_run ms
  have hstep := inv_step hinv m
  rw [run_snoc] at hhi
  have hmoved : (run ms).doneUntil < (step (run ms) m).doneUntil := by omega
  have habove := hstep.2 hmoved
  have hnot : t ∉ (step (run ms) m).heap := fun hin => by have := habove t hin; omega
  have := hstep.1.net_le t
  rw [hstep.1.absent t hnot] at this
  exact this

/-- C13_catches_up: once every Begin of every index up to t (t itself seen) has been matched by a Done,
    DoneUntil is at least t — no further call needed -/
theorem catches_up (ms : List Mark) (t : Nat) (hseen : ∃ m ∈ ms, m.ts = t)
    (hdone : ∀ s, s ≤ t → outstanding s ms = 0) : t ≤ (run ms).doneUntil := by
  have hinv := inv_run ms
  obtain ⟨m, hm, rfl⟩ := hseen
  rcases hinv.seen m hm with hin | hle
  · exfalso
    -- the heap head is ≤ t, positive, but bounded by outstanding = 0
    cases hh : (run ms).heap with
    | nil => rw [hh] at hin; simp at hin
    | cons x xs =>
      have hpos := hinv.head_pos
      rw [hh] at hpos hin
      simp only at hpos
      have hxle : x ≤ m.ts := by
        simp only [List.mem_cons] at hin
        rcases hin with h | h
        · omega
        · have hasc := hinv.asc; rw [hh] at hasc
          have := (List.pairwise_cons.mp hasc).1 m.ts h; omega
      have := hinv.le_out x
      rw [hdone x hxle] at this
      omega
  · exact hle

#print axioms never_passes
#print axioms catches_up
end WM2
