import Originium.Model.SysProofs
/-! Third oracle invariant: every commit in the history was made by a transaction whose Commit
    succeeded, with exactly that transaction's pending writes (basis of C08: no trace of the others). -/
namespace Oracle2

/-- `c` was produced by the successful Commit of a transaction in `txns` -/
def Produced (txns : List Txn) (c : Commit) : Prop :=
  ∃ t ∈ txns, t.commitTs = some c.ts ∧ t.writes = c.writes ∧ t.finished = true

/-- rewriting one transaction with `f` keeps every witness, provided `f` does not touch finished
    transactions' commitTs / writes / finished flag -/
theorem produced_modify {txns : List Txn} {c : Commit} (h : Produced txns c) (i : Nat) (f : Txn → Txn)
    (hf : ∀ t, t.finished = true → (f t).commitTs = t.commitTs ∧ (f t).writes = t.writes ∧ (f t).finished = true) :
    Produced (modifyNth txns i f) c := by
  obtain ⟨t, ht, h1, h2, h3⟩ := h
  obtain ⟨j, hj⟩ := List.mem_iff_getElem?.mp ht
  by_cases hij : i = j
  · subst hij
    refine ⟨f t, ?_, ?_, ?_, ?_⟩
    · apply List.mem_iff_getElem?.mpr
      exact ⟨i, by rw [getElem?_modifyNth, if_pos rfl, hj]; rfl⟩
    · rw [(hf t h3).1]; exact h1
    · rw [(hf t h3).2.1]; exact h2
    · exact (hf t h3).2.2
  · refine ⟨t, ?_, h1, h2, h3⟩
    apply List.mem_iff_getElem?.mpr
    exact ⟨j, by rw [getElem?_modifyNth, if_neg hij]; exact hj⟩

/-- rewriting a transaction that is not finished cannot disturb a witness (witnesses are finished) -/
theorem produced_modify_unfinished {txns : List Txn} {c : Commit} (h : Produced txns c) (i : Nat) (f : Txn → Txn)
    (t0 : Txn) (ht0 : txns[i]? = some t0) (hunf : t0.finished = false) : Produced (modifyNth txns i f) c := by
  obtain ⟨t, ht, h1, h2, h3⟩ := h
  obtain ⟨j, hj⟩ := List.mem_iff_getElem?.mp ht
  have hij : i ≠ j := by
    intro e; subst e
    rw [ht0] at hj; injection hj with hj
    rw [hj, h3] at hunf; cases hunf
  refine ⟨t, ?_, h1, h2, h3⟩
  apply List.mem_iff_getElem?.mpr
  exact ⟨j, by rw [getElem?_modifyNth, if_neg hij]; exact hj⟩

theorem produced_step {s s' : St} (st : Step) (h : ∀ c ∈ s.all, Produced s.txns c)
    (hs : step s st = some s') : ∀ c ∈ s'.all, Produced s'.txns c := by
  cases st with
  | begin u =>
    simp only [step, Option.some.injEq] at hs; subst hs
    intro c hc
    obtain ⟨t, ht, hr⟩ := h c hc
    exact ⟨t, List.mem_append.mpr (Or.inl ht), hr⟩
  | get i k =>
    simp only [step] at hs
    split at hs
    · rename_i t0 ht0
      split at hs
      · cases hs
      · rename_i hunf
        have hunf' : t0.finished = false := by simpa using hunf
        split at hs
        · simp only [Option.some.injEq] at hs; subst hs
          intro c hc; exact produced_modify_unfinished (h c hc) i _ t0 ht0 hunf'
        · split at hs
          · simp only [Option.some.injEq] at hs; subst hs
            intro c hc; exact produced_modify_unfinished (h c hc) i _ t0 ht0 hunf'
          · simp only [Option.some.injEq] at hs; subst hs; exact h
    · cases hs
  | set i k v =>
    simp only [step] at hs
    split at hs
    · rename_i t0 ht0
      split at hs
      · cases hs
      · rename_i hunf
        have hunf' : t0.finished = false := by
          simp only [Bool.or_eq_true, Bool.not_eq_true', not_or] at hunf
          simpa using hunf.1
        simp only [Option.some.injEq] at hs; subst hs
        intro c hc; exact produced_modify_unfinished (h c hc) i _ t0 ht0 hunf'
    · cases hs
  | commit i =>
    simp only [step] at hs
    split at hs
    · rename_i t0 ht0
      split at hs
      · cases hs
      · rename_i hunf
        have hunf' : t0.finished = false := by simpa using hunf
        split at hs
        · simp only [Option.some.injEq] at hs; subst hs
          intro c hc; exact produced_modify_unfinished (h c hc) i _ t0 ht0 hunf'
        · split at hs
          · simp only [Option.some.injEq] at hs; subst hs
            intro c hc; exact produced_modify_unfinished (h c hc) i _ t0 ht0 hunf'
          · simp only [Option.some.injEq] at hs; subst hs
            intro c hc
            rcases List.mem_append.mp hc with hc | hc
            · exact produced_modify_unfinished (h c hc) i _ t0 ht0 hunf'
            · simp only [List.mem_singleton] at hc
              subst hc
              refine ⟨{ t0 with doneRead := true, finished := true, commitTs := some s.nextTs }, ?_, rfl, rfl, rfl⟩
              apply List.mem_iff_getElem?.mpr
              exact ⟨i, by rw [getElem?_modifyNth, if_pos rfl, ht0]; rfl⟩
    · cases hs
  | discard i =>
    simp only [step] at hs
    split at hs
    · simp only [Option.some.injEq] at hs; subst hs
      intro c hc
      exact produced_modify (h c hc) i _ (fun t _ => ⟨rfl, rfl, rfl⟩)
    · cases hs
  | mark v =>
    simp only [step] at hs
    split at hs
    · simp only [Option.some.injEq] at hs; subst hs; exact h
    · cases hs

/-- in every reachable state every commit of the history belongs to a transaction whose Commit succeeded -/
theorem produced_reach {s : St} (hr : Reach s) : ∀ c ∈ s.all, Produced s.txns c := by
  induction hr with
  | init => intro c hc; simp [init] at hc
  | step st _ hs ih => exact produced_step st ih hs

end Oracle2
