import Originium.Generated.WM
import Originium.Model.Watermark
/-! The tie between `Watermark.step` (the hand-written model of `WaterMark.process`, on which the C13 theorems are
    proved) and `GenWM.handle`, the Lean definition regenerated from `/repo/pkg/watermark/watermark.go` on every run. -/
namespace WMTie
open WM2

abbrev K := Nat → List Nat → List (Nat × Int) → List (Nat × List Nat) → List Nat → Nat → Int →
  Nat × List Nat × List (Nat × Int) × List (Nat × List Nat) × List Nat

/-- the value a Go map read gives: the first binding, 0 when absent -/
def gget (t : Nat) (p : List (Nat × Int)) : Int := (List.lookup t p).getD 0

/-- the `for timeStamps.Len() > 0` loop as a function of its own -/
def gdrain : Nat → List Nat → List (Nat × Int) → Nat × List Nat × List (Nat × Int)
  | dU, [], p => (dU, [], p)
  | dU, h :: rest, p =>
    if 0 < gget h p then (dU, h :: rest, p) else gdrain h rest (p.filter fun kv => !(kv.1 == h))

theorem foldr_append_ev (cs : List Nat) (k : K) (du : Nat) (h : List Nat) (p : List (Nat × Int)) (w : List (Nat × List Nat))
    (ev : List Nat) (dU : Nat) (c : Int) :
    List.foldr (fun ch (kont : K) => fun du h p w ev dU c => kont du h p w (ev ++ [ch]) dU c) k cs du h p w ev dU c
      = k du h p w (ev ++ cs) dU c := by
  induction cs generalizing ev with
  | nil => simp
  | cons a cs ih => simp only [List.foldr_cons]; rw [ih]; simp


/-- the loop that closes the channels of every waiter at or below the new DoneUntil and deletes its map entry -/
theorem foldr_release (ws : List (Nat × List Nat)) (du : Nat) (h : List Nat) (p : List (Nat × Int)) (w : List (Nat × List Nat))
    (ev : List Nat) (dU : Nat) (c : Int) :
    List.foldr (fun kv (kont4 : K) du ts p w ev dU c =>
        if decide (kv.fst ≤ dU) = true then kont4 du ts p (List.filter (fun kv_1 => !kv_1.fst == kv.fst) w) (ev ++ kv.snd) dU c
        else kont4 du ts p w ev dU c)
      (fun du ts p w ev _ _ => (du, ts, p, w, ev)) ws du h p w ev dU c
    = (du, h, p, w.filter (fun kv => !(ws.any fun kv' => decide (kv'.1 ≤ dU) && kv'.1 == kv.1)),
        ev ++ (ws.filter (fun kv => decide (kv.1 ≤ dU))).flatMap (·.2)) := by
  induction ws generalizing w ev with
  | nil =>
    have : w.filter (fun _ => true) = w := List.filter_eq_self.mpr (by simp)
    simp [this]
  | cons a ws ih =>
    simp only [List.foldr_cons]
    by_cases ha : a.1 ≤ dU
    · simp only [ha, decide_true, ↓reduceIte]
      rw [ih]
      simp only [List.filter_filter, List.any_cons, Bool.true_and, List.filter_cons, ha, decide_true, ↓reduceIte,
        List.flatMap_cons, List.append_assoc]
      congr 4
      apply List.filter_congr
      intro kv _
      have hc : (kv.fst == a.fst) = (a.fst == kv.fst) := BEq.comm
      rw [hc]
      cases (a.fst == kv.fst) <;> simp
    · simp only [ha, decide_false, Bool.false_eq_true, ↓reduceIte]
      rw [ih]
      have hf : (a :: ws).filter (fun kv => decide (kv.1 ≤ dU)) = ws.filter (fun kv => decide (kv.1 ≤ dU)) := by
        rw [List.filter_cons]; simp [ha]
      rw [hf]
      congr 4
      apply List.filter_congr
      intro kv _
      simp [List.any_cons, ha]

/-- the `for timeStamps.Len() > 0 { … }` loop of the generated code is `gdrain` once the fuel covers the heap -/
theorem loop_eq (exit : K) (fuel : Nat) (du : Nat) (heap : List Nat) (p : List (Nat × Int)) (w : List (Nat × List Nat))
    (ev : List Nat) (dU : Nat) (c : Int) (hf : heap.length ≤ fuel) :
    GenWM.handle.loop3 exit fuel du heap p w ev dU c =
      exit du (gdrain dU heap p).2.1 (gdrain dU heap p).2.2 w ev (gdrain dU heap p).1 c := by
  induction fuel generalizing heap p dU with
  | zero =>
    have : heap = [] := List.eq_nil_of_length_eq_zero (by omega)
    subst this
    simp [GenWM.handle.loop3, gdrain]
  | succ fuel ih =>
    cases heap with
    | nil => simp [GenWM.handle.loop3, gdrain]
    | cons h rest =>
      simp only [GenWM.handle.loop3, List.isEmpty_cons, Bool.not_false, ↓reduceIte, List.headD_cons, List.tail_cons, gdrain]
      show (if decide (0 < gget h p) = true then _ else _) = _
      by_cases hpos : 0 < gget h p
      · simp [hpos]
      · simp only [hpos, decide_false, Bool.false_eq_true, ↓reduceIte]
        exact ih rest _ h (by simpa using hf)


/-- waiters released by an advance to `dU`, and those that stay -/
def keep (dU : Nat) (w : List (Nat × List Nat)) : List (Nat × List Nat) :=
  w.filter (fun kv => !(w.any fun kv' => decide (kv'.1 ≤ dU) && kv'.1 == kv.1))
def closed (dU : Nat) (w : List (Nat × List Nat)) : List Nat := (w.filter (fun kv => decide (kv.1 ≤ dU))).flatMap (·.2)

/-- the count a mark adds -/
def delta (done : Bool) : Int := if done then -1 else 1

/-- what the generated code does with a Begin (`done = false`) or Done (`done = true`) mark, written out -/
theorem handle_mark (t : Nat) (done : Bool) (ch du : Nat) (heap : List Nat) (p : List (Nat × Int)) (w : List (Nat × List Nat))
    (ev : List Nat) :
    GenWM.handle false t done ch du heap p w ev =
      (let heap1 := if (List.lookup t p).isSome then heap else GenWM.heapPush t heap
       let p1 := (t, gget t p + delta done) :: p.filter (fun kv => !(kv.1 == t))
       let r := gdrain du heap1 p1
       if du < r.1 then (r.1, r.2.1, r.2.2, keep r.1 w, ev ++ closed r.1 w) else (du, r.2.1, r.2.2, w, ev)) := by
  unfold GenWM.handle
  simp only [foldr_append_ev, Bool.false_eq_true, ↓reduceIte]
  cases hok : (List.lookup t p).isSome <;> cases done <;>
    simp only [Bool.not_true, Bool.not_false, Bool.false_eq_true, ↓reduceIte, delta] <;>
    rw [loop_eq _ _ _ _ _ _ _ _ _ (Nat.le_refl _)] <;>
    simp only [gget] <;>
    simp only [foldr_release] <;>
    simp only [keep, closed, decide_eq_true_eq] <;>
    (first | rfl | (split <;> rfl))

/-- what the generated code does with a waiter -/
theorem handle_wait (t ch du : Nat) (done : Bool) (heap : List Nat) (p : List (Nat × Int)) (w : List (Nat × List Nat)) (ev : List Nat) :
    GenWM.handle true t done ch du heap p w ev =
      if t ≤ du then (du, heap, p, w, ev ++ [ch])
      else (du, heap, p, (t, (List.lookup t w).getD [] ++ [ch]) :: w.filter (fun kv => !(kv.1 == t)), ev) := by
  unfold GenWM.handle
  simp only [↓reduceIte]
  by_cases h : t ≤ du <;> simp [h]


/-! ### from the generated handler to `Watermark.step` -/

theorem lookup_filter_ne {β : Type} (t h : Nat) (p : List (Nat × β)) :
    List.lookup t (p.filter fun kv => !(kv.1 == h)) = if t = h then none else List.lookup t p := by
  induction p with
  | nil => simp
  | cons a p ih =>
    obtain ⟨k, v⟩ := a
    by_cases hk : k = h
    · subst hk
      simp only [List.filter_cons, beq_self_eq_true, Bool.not_true, Bool.false_eq_true, ↓reduceIte, ih, List.lookup_cons]
      by_cases ht : t = k
      · simp [ht]
      · have : (t == k) = false := by simpa using ht
        simp [ht, this]
    · have hkh : (k == h) = false := by simpa using hk
      simp only [List.filter_cons, hkh, Bool.not_false, ↓reduceIte, List.lookup_cons, ih]
      by_cases ht : t = h
      · subst ht
        have : (t == k) = false := by simpa using fun e : t = k => hk e.symm
        simp [this]
      · simp only [ht, ↓reduceIte]

theorem gget_filter_ne (t h : Nat) (p : List (Nat × Int)) :
    gget t (p.filter fun kv => !(kv.1 == h)) = if t = h then 0 else gget t p := by
  unfold gget
  rw [lookup_filter_ne]
  split <;> rfl

theorem gget_cons (x t : Nat) (v : Int) (p : List (Nat × Int)) : gget x ((t, v) :: p) = if x = t then v else gget x p := by
  unfold gget
  simp only [List.lookup_cons]
  by_cases h : x = t
  · simp [h]
  · have : (x == t) = false := by simpa using h
    simp [h, this]

/-- the generated drain loop and the model's `drain` pop the same indices and leave the same counts -/
theorem gdrain_drain (heap : List Nat) : ∀ (dU : Nat) (p c : List (Nat × Int)), (∀ t, gget t p = get t c) →
    (gdrain dU heap p).1 = (drain dU heap c).1 ∧ (gdrain dU heap p).2.1 = (drain dU heap c).2.1 ∧
    ∀ t, gget t (gdrain dU heap p).2.2 = get t (drain dU heap c).2.2 := by
  induction heap with
  | nil => intro dU p c h; exact ⟨rfl, rfl, h⟩
  | cons a rest ih =>
    intro dU p c h
    simp only [gdrain, drain, h a, gt_iff_lt]
    by_cases hp : 0 < get a c
    · simp only [hp, ↓reduceIte]; exact ⟨trivial, trivial, h⟩
    · simp only [hp, ↓reduceIte]
      apply ih
      intro t
      rw [gget_filter_ne]
      simp only [WM2.get]
      by_cases ht : t = a
      · simp [ht]
      · have : ¬ a = t := fun e => ht e.symm
        simp [ht, this, h t]

/-- the map keys stay the heap members through the drain loop; the heap stays ascending -/
theorem gdrain_keys (heap : List Nat) : ∀ (dU : Nat) (p : List (Nat × Int)), Asc heap →
    (∀ t, (List.lookup t p).isSome ↔ t ∈ heap) →
    Asc (gdrain dU heap p).2.1 ∧ ∀ t, (List.lookup t (gdrain dU heap p).2.2).isSome ↔ t ∈ (gdrain dU heap p).2.1 := by
  induction heap with
  | nil => intro dU p ha hk; exact ⟨ha, hk⟩
  | cons a rest ih =>
    intro dU p ha hk
    simp only [gdrain]
    split
    · exact ⟨ha, hk⟩
    · have hr := (List.pairwise_cons.mp ha).2
      have hh := (List.pairwise_cons.mp ha).1
      apply ih _ _ hr
      intro t
      rw [lookup_filter_ne]
      by_cases ht : t = a
      · subst ht
        simp only [↓reduceIte, Option.isSome_none, Bool.false_eq_true, false_iff]
        intro hm; have := hh t hm; omega
      · simp only [ht, ↓reduceIte, hk t, List.mem_cons, false_or]

theorem insertSorted_mem {t : Nat} {l : List Nat} (hm : t ∈ l) (ha : Asc l) : insertSorted t l = l := by
  induction l with
  | nil => simp at hm
  | cons a rest ih =>
    have hr := (List.pairwise_cons.mp ha).2
    have hh := (List.pairwise_cons.mp ha).1
    simp only [insertSorted]
    rcases List.mem_cons.mp hm with rfl | hm'
    · simp
    · have := hh t hm'
      rw [if_neg (by omega), if_neg (by omega), ih hm' hr]

theorem heapPush_not_mem {t : Nat} {l : List Nat} (hm : t ∉ l) : GenWM.heapPush t l = insertSorted t l := by
  induction l with
  | nil => rfl
  | cons a rest ih =>
    simp only [List.mem_cons, not_or] at hm
    simp only [GenWM.heapPush, insertSorted]
    by_cases h1 : t < a
    · rw [if_pos (by omega), if_pos h1]
    · have : ¬ t ≤ a := by omega
      rw [if_neg this, if_neg h1, if_neg hm.1, ih hm.2]


/-- the state of the generated handler -/
structure G where
  du : Nat
  heap : List Nat
  pending : List (Nat × Int)
  waiters : List (Nat × List Nat)
  ev : List Nat

def G.of (r : Nat × List Nat × List (Nat × Int) × List (Nat × List Nat) × List Nat) : G :=
  ⟨r.1, r.2.1, r.2.2.1, r.2.2.2.1, r.2.2.2.2⟩

def isDone : Mark → Bool | .begin _ => false | .done _ => true

/-- one message through the generated handler -/
def gstep (g : G) : Watermark.Msg → G
  | .mark (.begin t) => .of (GenWM.handle false t false 0 g.du g.heap g.pending g.waiters g.ev)
  | .mark (.done t) => .of (GenWM.handle false t true 0 g.du g.heap g.pending g.waiters g.ev)
  | .wait t id => .of (GenWM.handle true t false id g.du g.heap g.pending g.waiters g.ev)

def ginit : G := ⟨0, [], [], [], []⟩

/-- how the state of the Go code is read as a state of the model -/
structure Rel (g : G) (s : Watermark.St) : Prop where
  du : g.du = s.core.doneUntil
  heap : g.heap = s.core.heap
  cnt : ∀ t, gget t g.pending = WM2.get t s.core.cnt
  keys : ∀ t, (List.lookup t g.pending).isSome ↔ t ∈ g.heap
  asc : Asc g.heap
  wkeys : (g.waiters.map (·.1)).Nodup
  wait : ∀ t id, (t, id) ∈ s.waiters ↔ ∃ cs, (t, cs) ∈ g.waiters ∧ id ∈ cs
  rel : ∀ id, id ∈ g.ev ↔ ∃ t, (t, id) ∈ s.released

theorem rel_init : Rel ginit Watermark.init := by
  refine ⟨rfl, rfl, fun _ => rfl, ?_, ?_, ?_, ?_, ?_⟩ <;> simp [ginit, Watermark.init, WM2.init, Asc]

theorem mem_keep {dU : Nat} {w : List (Nat × List Nat)} {kv : Nat × List Nat} :
    kv ∈ keep dU w ↔ kv ∈ w ∧ dU < kv.1 := by
  unfold keep
  simp only [List.mem_filter, Bool.not_eq_true', List.any_eq_false, Bool.and_eq_true, decide_eq_true_eq, beq_iff_eq, not_and]
  constructor
  · rintro ⟨hm, h⟩
    refine ⟨hm, ?_⟩
    have := h kv hm
    by_cases hle : kv.1 ≤ dU
    · exact absurd rfl (this hle)
    · omega
  · rintro ⟨hm, h⟩
    refine ⟨hm, ?_⟩
    intro kv' _ hle he
    omega

theorem mem_closed {dU id : Nat} {w : List (Nat × List Nat)} :
    id ∈ closed dU w ↔ ∃ t cs, (t, cs) ∈ w ∧ t ≤ dU ∧ id ∈ cs := by
  unfold closed
  simp only [List.mem_flatMap, List.mem_filter, decide_eq_true_eq]
  constructor
  · rintro ⟨⟨t, cs⟩, ⟨hm, hle⟩, hid⟩; exact ⟨t, cs, hm, hle, hid⟩
  · rintro ⟨t, cs, hm, hle, hid⟩; exact ⟨(t, cs), ⟨hm, hle⟩, hid⟩

theorem nodup_keep {dU : Nat} {w : List (Nat × List Nat)} (h : (w.map (·.1)).Nodup) : ((keep dU w).map (·.1)).Nodup := by
  unfold keep
  exact List.Nodup.sublist (List.Sublist.map _ List.filter_sublist) h

/-- a Begin or Done mark: the generated handler and `Watermark.stepMark` stay related -/
theorem rel_mark {g : G} {s : Watermark.St} (h : Rel g s) (m : Mark) :
    Rel (gstep g (.mark m)) (Watermark.step s (.mark m)) := by
  obtain ⟨hdu, hheap, hcnt, hkeys, hasc, hwk, hwait, hrel⟩ := h
  -- both Begin and Done are `handle false t done`
  have hstep : gstep g (.mark m) = .of (GenWM.handle false m.ts (isDone m) 0 g.du g.heap g.pending g.waiters g.ev) := by
    cases m <;> rfl
  rw [hstep, handle_mark]
  -- the heap and counter update
  have hheap1 : (if (List.lookup m.ts g.pending).isSome then g.heap else GenWM.heapPush m.ts g.heap) = insertSorted m.ts s.core.heap := by
    rw [← hheap]
    by_cases hs : (List.lookup m.ts g.pending).isSome
    · rw [if_pos hs, insertSorted_mem ((hkeys _).mp hs) hasc]
    · rw [if_neg hs, heapPush_not_mem (fun hm => hs ((hkeys _).mpr hm))]
  have hdelta : delta (isDone m) = m.delta := by
    cases m <;> rfl
  simp only [hheap1, hdelta]
  -- abbreviations
  have hp1 : ∀ x, gget x ((m.ts, gget m.ts g.pending + m.delta) :: g.pending.filter fun kv => !(kv.1 == m.ts)) =
      WM2.get x ((m.ts, WM2.get m.ts s.core.cnt + m.delta) :: s.core.cnt) := by
    intro x
    rw [gget_cons, gget_filter_ne, hcnt m.ts]
    simp only [WM2.get]
    by_cases hx : x = m.ts
    · simp [hx]
    · have : ¬ m.ts = x := fun e => hx e.symm
      simp [hx, this, hcnt x]
  obtain ⟨hd1, hd2, hd3⟩ := gdrain_drain (insertSorted m.ts s.core.heap) g.du _ _ hp1
  have hkeys1 : ∀ x, (List.lookup x ((m.ts, gget m.ts g.pending + m.delta) :: g.pending.filter fun kv => !(kv.1 == m.ts))).isSome ↔
      x ∈ insertSorted m.ts s.core.heap := by
    intro x
    rw [mem_insertSorted, ← hheap, ← hkeys x, List.lookup_cons]
    by_cases hx : x = m.ts
    · simp [hx]
    · have : (x == m.ts) = false := by simpa using hx
      simp only [this, lookup_filter_ne, hx, ↓reduceIte, false_or]
  obtain ⟨hasc', hkeys'⟩ := gdrain_keys (insertSorted m.ts s.core.heap) g.du _ (asc_insertSorted (hheap ▸ hasc)) hkeys1
  -- the model side
  have hcore : (Watermark.step s (.mark m)).core = WM2.step s.core m := by
    rw [Watermark.step_core]
  have hstepdu : (WM2.step s.core m).doneUntil =
      (if (drain s.core.doneUntil (insertSorted m.ts s.core.heap) ((m.ts, WM2.get m.ts s.core.cnt + m.delta) :: s.core.cnt)).1 > s.core.doneUntil
        then (drain s.core.doneUntil (insertSorted m.ts s.core.heap) ((m.ts, WM2.get m.ts s.core.cnt + m.delta) :: s.core.cnt)).1 else s.core.doneUntil) := rfl
  rw [hdu] at hd1 hd2 hd3 hasc' hkeys' ⊢
  by_cases hlt : s.core.doneUntil < (gdrain s.core.doneUntil (insertSorted m.ts s.core.heap)
      ((m.ts, gget m.ts g.pending + m.delta) :: g.pending.filter fun kv => !(kv.1 == m.ts))).1
  · rw [if_pos hlt]
    have hlt' : s.core.doneUntil < (WM2.step s.core m).doneUntil := by
      rw [hstepdu, ← hd1, if_pos hlt]; exact hlt
    have hnew : (WM2.step s.core m).doneUntil = (gdrain s.core.doneUntil (insertSorted m.ts s.core.heap)
        ((m.ts, gget m.ts g.pending + m.delta) :: g.pending.filter fun kv => !(kv.1 == m.ts))).1 := by
      rw [hstepdu, ← hd1, if_pos hlt]
    have hs' : Watermark.step s (.mark m) =
        { core := WM2.step s.core m
          waiters := s.waiters.filter (fun w => !decide (w.1 ≤ (WM2.step s.core m).doneUntil))
          released := s.waiters.filter (fun w => decide (w.1 ≤ (WM2.step s.core m).doneUntil)) ++ s.released } := by
      simp only [Watermark.step, Watermark.stepMark, hlt', ↓reduceIte]
    rw [hs']
    refine ⟨hnew.symm, hd2, hd3, hkeys', hasc', nodup_keep hwk, ?_, ?_⟩
    · intro t id
      simp only [G.of, List.mem_filter, Bool.not_eq_true', decide_eq_false_iff_not, Nat.not_le, hnew]
      constructor
      · rintro ⟨hm, hgt⟩
        obtain ⟨cs, hcs, hid⟩ := (hwait t id).mp hm
        exact ⟨cs, mem_keep.mpr ⟨hcs, hgt⟩, hid⟩
      · rintro ⟨cs, hcs, hid⟩
        obtain ⟨hcs', hgt⟩ := mem_keep.mp hcs
        exact ⟨(hwait t id).mpr ⟨cs, hcs', hid⟩, hgt⟩
    · intro id
      simp only [G.of, List.mem_append, List.mem_filter, decide_eq_true_eq, hnew, mem_closed, hrel id]
      constructor
      · rintro (h1 | ⟨t, cs, hcs, hle, hid⟩)
        · obtain ⟨t, ht⟩ := h1; exact ⟨t, Or.inr ht⟩
        · exact ⟨t, Or.inl ⟨(hwait t id).mpr ⟨cs, hcs, hid⟩, hle⟩⟩
      · rintro ⟨t, (⟨hm, hle⟩ | hr)⟩
        · obtain ⟨cs, hcs, hid⟩ := (hwait t id).mp hm
          exact Or.inr ⟨t, cs, hcs, hle, hid⟩
        · exact Or.inl ⟨t, hr⟩
  · rw [if_neg hlt]
    have hlt' : ¬ s.core.doneUntil < (WM2.step s.core m).doneUntil := by
      rw [hstepdu, ← hd1, if_neg hlt]; exact Nat.lt_irrefl _
    have hsame : (WM2.step s.core m).doneUntil = s.core.doneUntil := by
      rw [hstepdu, ← hd1, if_neg hlt]
    have hs' : Watermark.step s (.mark m) = { s with core := WM2.step s.core m } := by
      simp only [Watermark.step, Watermark.stepMark, hlt', ↓reduceIte]
    rw [hs']
    exact ⟨hsame.symm, hd2, hd3, hkeys', hasc', hwk, hwait, hrel⟩


theorem lookup_of_mem_nodup {w : List (Nat × List Nat)} (hn : (w.map (·.1)).Nodup) {t : Nat} {cs : List Nat}
    (hm : (t, cs) ∈ w) : List.lookup t w = some cs := by
  induction w with
  | nil => simp at hm
  | cons a w ih =>
    obtain ⟨k, v⟩ := a
    simp only [List.map_cons, List.nodup_cons, List.mem_map, not_exists, not_and] at hn
    simp only [List.lookup_cons]
    rcases List.mem_cons.mp hm with he | hm'
    · cases he; simp
    · have hne : ¬ t = k := by
        intro e; subst e
        exact hn.1 (t, cs) hm' rfl
      have : (t == k) = false := by simpa using hne
      simp only [this]
      exact ih hn.2 hm'

theorem mem_of_lookup {w : List (Nat × List Nat)} {t : Nat} {cs : List Nat} (h : List.lookup t w = some cs) : (t, cs) ∈ w := by
  induction w with
  | nil => simp at h
  | cons a w ih =>
    obtain ⟨k, v⟩ := a
    simp only [List.lookup_cons] at h
    by_cases he : t = k
    · subst he; simp only [beq_self_eq_true, Option.some.injEq] at h; subst h; simp
    · have : (t == k) = false := by simpa using he
      simp only [this] at h
      exact List.mem_cons_of_mem _ (ih h)

/-- a waiter: the generated handler and `Watermark.stepWait` stay related -/
theorem rel_wait {g : G} {s : Watermark.St} (h : Rel g s) (t id : Nat) :
    Rel (gstep g (.wait t id)) (Watermark.step s (.wait t id)) := by
  obtain ⟨hdu, hheap, hcnt, hkeys, hasc, hwk, hwait, hrel⟩ := h
  simp only [gstep, handle_wait, Watermark.step, Watermark.stepWait, hdu]
  by_cases hle : t ≤ s.core.doneUntil
  · simp only [hle, ↓reduceIte]
    refine ⟨rfl, hheap, hcnt, hkeys, hasc, hwk, hwait, ?_⟩
    intro id'
    simp only [G.of, List.mem_append, List.mem_cons, List.not_mem_nil, or_false, Prod.mk.injEq, hrel id']
    constructor
    · rintro (⟨t', h'⟩ | rfl)
      · exact ⟨t', Or.inr h'⟩
      · exact ⟨t, Or.inl ⟨rfl, rfl⟩⟩
    · rintro ⟨t', (⟨_, rfl⟩ | h')⟩
      · exact Or.inr rfl
      · exact Or.inl ⟨t', h'⟩
  · simp only [hle, ↓reduceIte]
    refine ⟨rfl, hheap, hcnt, hkeys, hasc, ?_, ?_, hrel⟩
    · simp only [G.of, List.map_cons, List.nodup_cons, List.mem_map, List.mem_filter, Bool.not_eq_true', beq_eq_false_iff_ne,
        ne_eq, not_exists, not_and]
      refine ⟨?_, List.Nodup.sublist (List.Sublist.map _ List.filter_sublist) hwk⟩
      rintro ⟨k, v⟩ ⟨_, hne⟩ he
      exact hne he
    · intro t' id'
      simp only [G.of, List.mem_cons, Prod.mk.injEq, List.mem_filter, Bool.not_eq_true', beq_eq_false_iff_ne, ne_eq]
      constructor
      · rintro (⟨rfl, rfl⟩ | hm)
        · exact ⟨_, Or.inl ⟨rfl, rfl⟩, by simp⟩
        · obtain ⟨cs, hcs, hid⟩ := (hwait t' id').mp hm
          by_cases he : t' = t
          · subst he
            refine ⟨_, Or.inl ⟨rfl, rfl⟩, ?_⟩
            rw [lookup_of_mem_nodup hwk hcs]
            simp [hid]
          · exact ⟨cs, Or.inr ⟨hcs, he⟩, hid⟩
      · rintro ⟨cs, (⟨rfl, rfl⟩ | ⟨hcs, hne⟩), hid⟩
        · rcases List.mem_append.mp hid with hid | hid
          · cases hl : List.lookup t' g.waiters with
            | none => rw [hl] at hid; simp at hid
            | some cs0 =>
              rw [hl] at hid
              exact Or.inr ((hwait t' id').mpr ⟨cs0, mem_of_lookup hl, by simpa using hid⟩)
          · simp only [List.mem_singleton] at hid
            exact Or.inl ⟨rfl, hid⟩
        · exact Or.inr ((hwait t' id').mpr ⟨cs, hcs, hid⟩)

/-- **refinement**: whatever messages arrive, the state of the translated Go handler and the state of the model stay
    related; in particular `DoneUntil` of the code is `DoneUntil` of the model, the channels the code has closed are the
    waiters the model has released, and the waiters still parked in the code's map are the model's blocked waiters -/
theorem rel_run (ms : List Watermark.Msg) : Rel (ms.foldl gstep ginit) (Watermark.run ms) := by
  suffices h : ∀ g s, Rel g s → Rel (ms.foldl gstep g) (ms.foldl Watermark.step s) from h _ _ rel_init
  induction ms with
  | nil => intro g s h; exact h
  | cons m ms ih =>
    intro g s h
    simp only [List.foldl_cons]
    apply ih
    cases m with
    | mark mk => exact rel_mark h mk
    | wait t id => exact rel_wait h t id

end WMTie
