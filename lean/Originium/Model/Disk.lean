import Originium.Model.DBProofs
/-! Abstract disk, guarded file-system operations, crash (± lost unsynced tails) and recovery
    (C03 / C04 / C14).

The disk holds wal files (records in append order with a synced prefix), published tables and
temporary table files.  Every file-system operation of the engine (`wal.go`, `level.go`,
`memtable.go`, `db.go`) is one `Op`.  `Guard` is the acceptance predicate a trace must obey — the
ordering and durability rules of the repaired code — and `Inv` the invariant those rules preserve.
The real trace recorded by the hooks is replayed through `Guard` by the driver (suite `crash`), so
a reordered Remove / Sync / Rename in the code is rejected deterministically.

A crash in the process-crash model leaves the disk after any prefix of the trace: `Inv` holds after
every single operation, so it holds at every crash point, also inside a previous recovery (whose
operations are operations like any other).  `CutOf` is the additional loss of unsynced tails. -/
namespace Disk
open Key VKey Table Levels LSM

structure Wal where
  id : Nat
  recs : List E          -- append order
  synced : Nat           -- number of records covered by the last fsync
deriving Repr

structure Tmp where
  name : Nat
  ents : List E
  synced : Bool
deriving Repr

structure D where
  wals : List Wal
  tables : List (Nat × List E)     -- published (complete, synced) tables
  tmps : List Tmp
deriving Repr

def allRecs (d : D) : List E := d.wals.flatMap (·.recs)
def syncedRecs (d : D) : List E := d.wals.flatMap fun w => w.recs.take w.synced
def tableEnts (d : D) : List E := d.tables.flatMap (·.2)

/-- e is superseded by a durable newer version at or below the discard bound -/
def Shadowed (d : D) (low : Nat) (e : E) : Prop :=
  ∃ e' ∈ tableEnts d, e'.key.user = e.key.user ∧ e.key.ts < e'.key.ts ∧ e'.key.ts ≤ low

inductive Op where
  | walCreate (id : Nat)
  | walAppend (id : Nat) (b : List E)        -- one write call: a whole batch
  | walSync (id : Nat)
  | tmpCreate (n : Nat)                      -- create / truncate `n.db.tmp`
  | tmpWrite (n : Nat) (es : List E)
  | tmpSync (n : Nat)
  | publish (n : Nat)                        -- rename `n.db.tmp` to `n.db`
  | tmpRemove (n : Nat)                      -- recovery deletes a leftover temporary file
  | walRemove (id : Nat)
  | tableRemove (n : Nat)
deriving Repr

def apply (d : D) : Op → D
  | .walCreate id => { d with wals := d.wals ++ [{ id := id, recs := [], synced := 0 }] }
  | .walAppend id b => { d with wals := d.wals.map fun w => if w.id = id then { w with recs := w.recs ++ b } else w }
  | .walSync id => { d with wals := d.wals.map fun w => if w.id = id then { w with synced := w.recs.length } else w }
  | .tmpCreate n => { d with tmps := d.tmps.filter (·.name ≠ n) ++ [{ name := n, ents := [], synced := false }] }
  | .tmpWrite n es => { d with tmps := d.tmps.map fun t => if t.name = n then { t with ents := t.ents ++ es, synced := false } else t }
  | .tmpSync n => { d with tmps := d.tmps.map fun t => if t.name = n then { t with synced := true } else t }
  | .publish n =>
    match d.tmps.find? (·.name = n) with
    | some t => { d with tables := d.tables ++ [(n, t.ents)], tmps := d.tmps.filter (·.name ≠ n) }
    | none => d
  | .tmpRemove n => { d with tmps := d.tmps.filter (·.name ≠ n) }
  | .walRemove id => { d with wals := d.wals.filter (·.id ≠ id) }
  | .tableRemove n => { d with tables := d.tables.filter (·.1 ≠ n) }

/-- the ordering / durability rules a trace must obey -/
def Guard (d : D) (low : Nat) : Op → Prop
  | .walCreate id => ∀ w ∈ d.wals, w.id ≠ id
  | .walAppend _ b =>
      -- a fresh commit is newer than everything that only lives in tables; a replayed record already is in a wal
      ∀ e ∈ b, (e ∈ allRecs d ∨ ∀ x ∈ tableEnts d, x ∉ allRecs d → x.key.ts ≤ e.key.ts) ∧
               (e ∈ tableEnts d → e ∈ syncedRecs d)
  | .walSync _ => True
  | .tmpCreate _ => True
  | .tmpWrite _ _ => True
  | .tmpSync _ => True
  | .publish n =>
      match d.tmps.find? (·.name = n) with
      | some t => t.synced = true ∧ (∀ p ∈ d.tables, p.1 ≠ n) ∧
        -- content comes from the synced part of a wal (flush) or from published tables (compaction)
        ∀ e ∈ t.ents, e ∈ syncedRecs d ∨ e ∈ tableEnts d
      | none => False
  | .tmpRemove _ => True
  | .walRemove id =>
      ∀ w ∈ d.wals, w.id = id → ∀ e ∈ w.recs,
        (∃ w' ∈ d.wals, w'.id ≠ id ∧ e ∈ w'.recs.take w'.synced) ∨
        (e ∈ tableEnts d ∧ ∀ w' ∈ d.wals, w'.id ≠ id → e ∉ w'.recs ∧ ∀ e2 ∈ w'.recs, e.key.ts ≤ e2.key.ts)
  | .tableRemove n =>
      ∀ p ∈ d.tables, p.1 = n → ∀ e ∈ p.2,
        (∃ q ∈ d.tables, q.1 ≠ n ∧ e ∈ q.2) ∨
        (∃ q ∈ d.tables, q.1 ≠ n ∧ ∃ e' ∈ q.2, e'.key.user = e.key.user ∧ e.key.ts < e'.key.ts ∧ e'.key.ts ≤ low)

instance (d : D) (low : Nat) (op : Op) : Decidable (Guard d low op) := by
  cases op <;> simp only [Guard] <;> try infer_instance
  split <;> infer_instance

/-- durability + order invariant; `acked` = entries of acknowledged commits -/
structure Inv (d : D) (acked : List E) (low : Nat) : Prop where
  durable : ∀ e ∈ acked, e ∈ syncedRecs d ∨ e ∈ tableEnts d ∨ Shadowed d low e
  order : ∀ e' ∈ tableEnts d, e' ∉ allRecs d → ∀ e ∈ allRecs d, e'.key.ts ≤ e.key.ts
  synced_le : ∀ w ∈ d.wals, w.synced ≤ w.recs.length
  table_synced : ∀ e ∈ tableEnts d, e ∈ allRecs d → e ∈ syncedRecs d

theorem mem_allRecs {d : D} {e : E} : e ∈ allRecs d ↔ ∃ w ∈ d.wals, e ∈ w.recs := by
  simp [allRecs, List.mem_flatMap]
theorem mem_syncedRecs {d : D} {e : E} : e ∈ syncedRecs d ↔ ∃ w ∈ d.wals, e ∈ w.recs.take w.synced := by
  simp [syncedRecs, List.mem_flatMap]
theorem mem_tableEnts {d : D} {e : E} : e ∈ tableEnts d ↔ ∃ p ∈ d.tables, e ∈ p.2 := by
  simp [tableEnts, List.mem_flatMap]

theorem synced_sub_all {d : D} {e : E} (h : e ∈ syncedRecs d) : e ∈ allRecs d := by
  obtain ⟨w, hw, he⟩ := mem_syncedRecs.mp h
  exact mem_allRecs.mpr ⟨w, hw, List.mem_of_mem_take he⟩

def empty : D := { wals := [], tables := [], tmps := [] }

theorem inv_empty (low : Nat) : Inv empty [] low := by
  refine ⟨by simp, ?_, by simp [empty], ?_⟩
  · intro e' he'; simp [tableEnts, empty] at he'
  · intro e he; simp [tableEnts, empty] at he

end Disk
