/-! Feasibility probe: abstract disk, guarded file-system operations, crash (± lost unsynced tails)
    and what recovery sees (C03 / C14 core, rule-based). -/
namespace Disk

abbrev Key := List UInt8
abbrev Val := Option (List UInt8)

structure Ent where
  user : Key
  ts : Nat
  val : Val
deriving DecidableEq, Repr

structure Wal where
  id : Nat
  recs : List Ent        -- append order
  synced : Nat           -- number of records covered by the last fsync
deriving Repr

structure Tmp where
  name : Nat
  ents : List Ent
  synced : Bool
deriving Repr

structure D where
  wals : List Wal
  tables : List (Nat × List Ent)     -- published (complete, synced) tables
  tmps : List Tmp
deriving Repr

def allRecs (d : D) : List Ent := d.wals.flatMap (·.recs)
def syncedRecs (d : D) : List Ent := d.wals.flatMap fun w => w.recs.take w.synced
def tableEnts (d : D) : List Ent := d.tables.flatMap (·.2)

/-- e is superseded by a durable newer version at or below the discard bound -/
def Shadowed (d : D) (low : Nat) (e : Ent) : Prop :=
  ∃ e' ∈ tableEnts d, e'.user = e.user ∧ e.ts < e'.ts ∧ e'.ts ≤ low

inductive Op where
  | walCreate (id : Nat)
  | walAppend (id : Nat) (b : List Ent)
  | walSync (id : Nat)
  | tmpWrite (n : Nat) (es : List Ent)       -- create + write
  | tmpSync (n : Nat)
  | publish (n : Nat)                        -- rename tmp n to table n
  | walRemove (id : Nat)
  | tableRemove (n : Nat)

def apply (d : D) : Op → D
  | .walCreate id => { d with wals := d.wals ++ [{ id := id, recs := [], synced := 0 }] }
  | .walAppend id b => { d with wals := d.wals.map fun w => if w.id = id then { w with recs := w.recs ++ b } else w }
  | .walSync id => { d with wals := d.wals.map fun w => if w.id = id then { w with synced := w.recs.length } else w }
  | .tmpWrite n es => { d with tmps := d.tmps ++ [{ name := n, ents := es, synced := false }] }
  | .tmpSync n => { d with tmps := d.tmps.map fun t => if t.name = n then { t with synced := true } else t }
  | .publish n =>
    match d.tmps.find? (·.name = n) with
    | some t => { d with tables := d.tables ++ [(n, t.ents)], tmps := d.tmps.filter (·.name ≠ n) }
    | none => d
  | .walRemove id => { d with wals := d.wals.filter (·.id ≠ id) }
  | .tableRemove n => { d with tables := d.tables.filter (·.1 ≠ n) }

/-- the ordering/durability rules a trace must obey (the acceptance predicate of DESIGN §2.2) -/
def Guard (d : D) (low : Nat) : Op → Prop
  | .walCreate id => ∀ w ∈ d.wals, w.id ≠ id
  | .walAppend _ b => ∀ e ∈ b, ∀ x ∈ tableEnts d, x.ts ≤ e.ts      -- a commit is newer than everything flushed
  | .walSync _ => True
  | .tmpWrite n _ => ∀ t ∈ d.tmps, t.name ≠ n
  | .tmpSync _ => True
  | .publish n =>
      ∃ t ∈ d.tmps, t.name = n ∧ t.synced = true ∧ (∀ p ∈ d.tables, p.1 ≠ n) ∧
        -- content comes from the synced part of a wal (flush) or from published tables (compaction)
        ∀ e ∈ t.ents, e ∈ syncedRecs d ∨ e ∈ tableEnts d
  | .walRemove id =>
      ∀ w ∈ d.wals, w.id = id → ∀ e ∈ w.recs,
        (∃ w' ∈ d.wals, w'.id ≠ id ∧ e ∈ w'.recs.take w'.synced) ∨
        (e ∈ tableEnts d ∧ ∀ w' ∈ d.wals, w'.id ≠ id → e ∉ w'.recs ∧ ∀ e2 ∈ w'.recs, e.ts ≤ e2.ts)
  | .tableRemove n =>
      ∀ p ∈ d.tables, p.1 = n → ∀ e ∈ p.2,
        (∃ q ∈ d.tables, q.1 ≠ n ∧ e ∈ q.2) ∨
        (∃ q ∈ d.tables, q.1 ≠ n ∧ ∃ e' ∈ q.2, e'.user = e.user ∧ e.ts < e'.ts ∧ e'.ts ≤ low)

/-- durability + order invariant -/
structure Inv (d : D) (acked : List Ent) (low : Nat) : Prop where
  durable : ∀ e ∈ acked, e ∈ syncedRecs d ∨ e ∈ tableEnts d ∨ Shadowed d low e
  order : ∀ e' ∈ tableEnts d, e' ∉ allRecs d → ∀ e ∈ allRecs d, e'.ts ≤ e.ts
  synced_le : ∀ w ∈ d.wals, w.synced ≤ w.recs.length
  table_synced : ∀ e ∈ tableEnts d, e ∈ allRecs d → e ∈ syncedRecs d

theorem mem_allRecs {d : D} {e : Ent} : e ∈ allRecs d ↔ ∃ w ∈ d.wals, e ∈ w.recs := by
  simp [allRecs, List.mem_flatMap]
theorem mem_syncedRecs {d : D} {e : Ent} : e ∈ syncedRecs d ↔ ∃ w ∈ d.wals, e ∈ w.recs.take w.synced := by
  simp [syncedRecs, List.mem_flatMap]
theorem mem_tableEnts {d : D} {e : Ent} : e ∈ tableEnts d ↔ ∃ p ∈ d.tables, e ∈ p.2 := by
  simp [tableEnts, List.mem_flatMap]

theorem synced_sub_all {d : D} {e : Ent} (h : e ∈ syncedRecs d) : e ∈ allRecs d := by
  obtain ⟨w, hw, he⟩ := mem_syncedRecs.mp h
  exact mem_allRecs.mpr ⟨w, hw, List.mem_of_mem_take he⟩

/-- removing a wal whose records are safe elsewhere -/
theorem inv_walRemove {d : D} {acked : List Ent} {low : Nat} (h : Inv d acked low) (id : Nat)
    (g : Guard d low (.walRemove id)) : Inv (apply d (.walRemove id)) acked low := by
  have hw' : ∀ w, w ∈ (apply d (.walRemove id)).wals ↔ w ∈ d.wals ∧ w.id ≠ id := by
    intro w; simp [apply, List.mem_filter]
  have htab : tableEnts (apply d (.walRemove id)) = tableEnts d := rfl
  have hall' : ∀ e, e ∈ allRecs (apply d (.walRemove id)) → e ∈ allRecs d := by
    intro e he
    obtain ⟨w, hw, hew⟩ := mem_allRecs.mp he
    exact mem_allRecs.mpr ⟨w, ((hw' w).mp hw).1, hew⟩
  -- where does a record of the old disk go?
  have hkeep : ∀ e, e ∈ syncedRecs d → e ∈ syncedRecs (apply d (.walRemove id)) ∨
      (e ∈ tableEnts d ∧ ∀ w' ∈ d.wals, w'.id ≠ id → e ∉ w'.recs ∧ ∀ e2 ∈ w'.recs, e.ts ≤ e2.ts) := by
    intro e he
    obtain ⟨w, hw, hew⟩ := mem_syncedRecs.mp he
    by_cases hid : w.id = id
    · rcases g w hw hid e (List.mem_of_mem_take hew) with ⟨w2, hw2, hne, he2⟩ | hr
      · exact Or.inl (mem_syncedRecs.mpr ⟨w2, (hw' w2).mpr ⟨hw2, hne⟩, he2⟩)
      · exact Or.inr hr
    · exact Or.inl (mem_syncedRecs.mpr ⟨w, (hw' w).mpr ⟨hw, hid⟩, hew⟩)
  refine ⟨?_, ?_, ?_, ?_⟩
  · intro e he
    rcases h.durable e he with h1 | h1 | h1
    · rcases hkeep e h1 with h2 | h2
      · exact Or.inl h2
      · exact Or.inr (Or.inl h2.1)
    · exact Or.inr (Or.inl h1)
    · exact Or.inr (Or.inr h1)
  · intro e' he' hnot e he
    rw [htab] at he'
    obtain ⟨w, hw, hew⟩ := mem_allRecs.mp he
    have hwd := (hw' w).mp hw
    by_cases hold : e' ∈ allRecs d
    · -- e' was in a wal before: it must have been in the removed one, with the order clause of the guard
      obtain ⟨w0, hw0, hew0⟩ := mem_allRecs.mp hold
      by_cases hid : w0.id = id
      · rcases g w0 hw0 hid e' hew0 with ⟨w2, hw2, hne, he2⟩ | hr
        · exact absurd (mem_allRecs.mpr ⟨w2, (hw' w2).mpr ⟨hw2, hne⟩, List.mem_of_mem_take he2⟩) hnot
        · exact (hr.2 w hwd.1 hwd.2).2 e hew
      · exact absurd (mem_allRecs.mpr ⟨w0, (hw' w0).mpr ⟨hw0, hid⟩, hew0⟩) hnot
    · exact h.order e' he' hold e (hall' e he)
  · intro w hw; exact h.synced_le w ((hw' w).mp hw).1
  · intro e he hin
    rw [htab] at he
    rcases hkeep e (h.table_synced e he (hall' e hin)) with h2 | h2
    · exact h2
    · -- e would have to sit in a surviving wal, which the guard excludes
      obtain ⟨w, hw, hew⟩ := mem_allRecs.mp hin
      have hwd := (hw' w).mp hw
      exact absurd hew (h2.2 w hwd.1 hwd.2).1

/-- a crash that additionally loses unsynced tails: every wal is cut to some length ≥ its synced length -/
def CutOf (d d' : D) : Prop :=
  d'.tables = d.tables ∧ d'.wals.length = d.wals.length ∧
  ∀ i (h : i < d.wals.length) (h' : i < d'.wals.length),
    d'.wals[i].id = d.wals[i].id ∧ d'.wals[i].synced = d.wals[i].synced ∧
    ∃ n, d.wals[i].synced ≤ n ∧ d'.wals[i].recs = d.wals[i].recs.take n

theorem inv_cut {d d' : D} {acked : List Ent} {low : Nat} (h : Inv d acked low) (hc : CutOf d d') :
    Inv d' acked low := by
  obtain ⟨htab, hlen, hw⟩ := hc
  have htE : tableEnts d' = tableEnts d := by simp [tableEnts, htab]
  have hsync : ∀ e, e ∈ syncedRecs d → e ∈ syncedRecs d' := by
    intro e he
    obtain ⟨w, hwm, hew⟩ := mem_syncedRecs.mp he
    obtain ⟨i, hi, rfl⟩ := List.getElem_of_mem hwm
    obtain ⟨_, hs, n, hn, hr⟩ := hw i hi (by omega)
    refine mem_syncedRecs.mpr ⟨d'.wals[i]'(by omega), List.getElem_mem _, ?_⟩
    rw [hs, hr, List.take_take]
    rw [Nat.min_eq_left hn]; exact hew
  have hall : ∀ e, e ∈ allRecs d' → e ∈ allRecs d := by
    intro e he
    obtain ⟨w, hwm, hew⟩ := mem_allRecs.mp he
    obtain ⟨i, hi, rfl⟩ := List.getElem_of_mem hwm
    obtain ⟨_, _, n, _, hr⟩ := hw i (by omega) hi
    rw [hr] at hew
    exact mem_allRecs.mpr ⟨d.wals[i]'(by omega), List.getElem_mem _, List.mem_of_mem_take hew⟩
  refine ⟨?_, ?_, ?_, ?_⟩
  · intro e he
    rcases h.durable e he with h1 | h1 | h1
    · exact Or.inl (hsync e h1)
    · exact Or.inr (Or.inl (htE ▸ h1))
    · right; right
      obtain ⟨e', he', hrest⟩ := h1
      exact ⟨e', htE ▸ he', hrest⟩
  · intro e' he' hnot e he
    rw [htE] at he'
    by_cases hold : e' ∈ allRecs d
    · exact absurd (synced_sub_all (hsync e' (h.table_synced e' he' hold))) hnot
    · exact h.order e' he' hold e (hall e he)
  · intro w hwm
    obtain ⟨i, hi, rfl⟩ := List.getElem_of_mem hwm
    obtain ⟨_, hs, n, hn, hr⟩ := hw i (by omega) hi
    have := h.synced_le (d.wals[i]'(by omega)) (List.getElem_mem _)
    rw [hs, hr, List.length_take]; omega
  · intro e he hin
    rw [htE] at he
    exact hsync e (h.table_synced e he (hall e hin))

#print axioms inv_walRemove
#print axioms inv_cut
end Disk
