import Originium.Model.Skiplist
/-! pkg/skiplist/skiplist.go — pointer level.

The tower model (`Skiplist`) abstracts the `next[i]` pointers to "level `i` = the nodes of height
`> i`".  This file models the pointers themselves — an element is identified by its key (keys are
unique in the list), `nxt src i` is `src.next[i]` (`src = none` is the head, a result `none` is
`nil`) — with the search loop that follows them, the `update[]` array, and the relinking of `Set`
and `Delete` exactly as written in the Go code, and proves that the pointer structure always
represents the tower list (`Rep`): level `i` is the chain of the nodes of height `> i`, in key
order.  The observable operations of the tower model are then the ones of the pointer model. -/
set_option linter.unusedSectionVars false
namespace SkipArena
open Table Skiplist

variable {K : Type} [DecidableEq K] (lt : K → K → Bool)

/-! ### successor in a list without duplicates -/

/-- the element after `a` -/
def after (a : K) : List K → Option K
  | [] => none
  | x :: xs => if x = a then xs.head? else after a xs

/-- `src.next` in the chain `L`: `none` is the head as a source and `nil` as a result -/
def succIn (L : List K) : Option K → Option K
  | none => L.head?
  | some a => after a L

theorem after_append_left {a : K} {L1 L2 : List K} (h : a ∈ L1) (hn : (L1 ++ L2).Nodup) :
    after a (L1 ++ L2) = match after a L1 with | some b => some b | none => L2.head? := by
  induction L1 with
  | nil => cases h
  | cons x xs ih =>
    have hn' : (xs ++ L2).Nodup := (List.nodup_cons.mp hn).2
    simp only [List.cons_append, after]
    by_cases hx : x = a
    · simp only [hx, ↓reduceIte]
      cases xs with
      | nil => simp
      | cons y ys => simp
    · simp only [hx, ↓reduceIte]
      have ha : a ∈ xs := by
        rcases List.mem_cons.mp h with h | h
        · exact absurd h.symm hx
        · exact h
      exact ih ha hn'

theorem after_append_right {a : K} {L1 L2 : List K} (h : a ∉ L1) : after a (L1 ++ L2) = after a L2 := by
  induction L1 with
  | nil => rfl
  | cons x xs ih =>
    have hx : x ≠ a := fun hh => h (by simp [hh])
    simp only [List.cons_append, after, hx, ↓reduceIte]
    exact ih (fun hh => h (List.mem_cons_of_mem _ hh))

theorem after_last {a : K} {L : List K} (hn : (L ++ [a]).Nodup) : after a (L ++ [a]) = none := by
  have : a ∉ L := by
    intro h
    have := (List.nodup_append.mp hn).2.2 a h a (by simp)
    exact this rfl
  rw [after_append_right this]
  simp [after]

theorem after_not_mem {a : K} {L : List K} (h : a ∉ L) : after a L = none := by
  induction L with
  | nil => rfl
  | cons x xs ih =>
    have hx : x ≠ a := fun hh => h (by simp [hh])
    simp only [after, hx, ↓reduceIte]
    exact ih (fun hh => h (List.mem_cons_of_mem _ hh))

/-- the last element of `L1` is followed by the head of `L2` -/
theorem succIn_getLast (L1 L2 : List K) (hn : (L1 ++ L2).Nodup) :
    succIn (L1 ++ L2) L1.getLast? = L2.head? := by
  induction L1 with
  | nil => simp [succIn]
  | cons x xs ih =>
    have hn' : (xs ++ L2).Nodup := (List.nodup_cons.mp hn).2
    have hx : x ∉ xs ++ L2 := (List.nodup_cons.mp hn).1
    cases xs with
    | nil => simp [succIn, after]
    | cons y ys =>
      have hl : (x :: y :: ys).getLast? = (y :: ys).getLast? := by simp [List.getLast?_cons_cons]
      rw [hl]
      have ih' := ih hn'
      cases hg : (y :: ys).getLast? with
      | none => simp at hg
      | some g =>
        rw [hg] at ih'
        simp only [succIn] at ih' ⊢
        have hgm : g ∈ y :: ys := List.mem_of_getLast? hg
        have hxg : x ≠ g := fun hh => hx (by rw [hh]; exact List.mem_append_left _ hgm)
        show after g (x :: ((y :: ys) ++ L2)) = L2.head?
        rw [after, if_neg hxg]
        exact ih'

/-- inserting `t` between `L1` and `L2` -/
theorem succIn_insert (L1 L2 : List K) (t : K) (hn : (L1 ++ t :: L2).Nodup) (src : Option K) :
    succIn (L1 ++ t :: L2) src =
      if src = some t then L2.head?
      else if src = L1.getLast? then some t
      else succIn (L1 ++ L2) src := by
  have hn2 : (L1 ++ L2).Nodup := by
    have := List.nodup_append.mp hn
    refine List.nodup_append.mpr ⟨this.1, (List.nodup_cons.mp this.2.1).2, ?_⟩
    intro a ha b hb
    exact this.2.2 a ha b (List.mem_cons_of_mem _ hb)
  have ht1 : t ∉ L1 := by
    intro h
    exact (List.nodup_append.mp hn).2.2 t h t (by simp) rfl
  have ht2 : t ∉ L2 := (List.nodup_cons.mp (List.nodup_append.mp hn).2.1).1
  by_cases h1 : src = some t
  · subst h1
    simp only [↓reduceIte, succIn]
    rw [after_append_right ht1]
    simp [after]
  · simp only [h1, ↓reduceIte]
    by_cases h2 : src = L1.getLast?
    · simp only [h2, ↓reduceIte]
      have := succIn_getLast L1 (t :: L2) hn
      simpa using this
    · simp only [h2, ↓reduceIte]
      cases src with
      | none =>
        cases L1 with
        | nil => simp at h2
        | cons x xs => simp [succIn]
      | some a =>
        have hat : a ≠ t := fun hh => h1 (by rw [hh])
        simp only [succIn]
        by_cases ha1 : a ∈ L1
        · rw [after_append_left ha1 hn, after_append_left ha1 hn2]
          cases hal : after a L1 with
          | some b => rfl
          | none =>
            -- `a` is the last element of `L1`: excluded
            exfalso
            apply h2
            clear h2 hn hn2 ht1
            induction L1 with
            | nil => cases ha1
            | cons x xs ih =>
              simp only [after] at hal
              by_cases hx : x = a
              · simp only [hx, ↓reduceIte] at hal
                cases xs with
                | nil => simp [hx]
                | cons y ys => simp at hal
              · simp only [hx, ↓reduceIte] at hal
                have ha' : a ∈ xs := by
                  rcases List.mem_cons.mp ha1 with h | h
                  · exact absurd h.symm hx
                  · exact h
                have := ih ha' hal
                cases xs with
                | nil => cases ha'
                | cons y ys => rw [List.getLast?_cons_cons]; exact this
        · rw [after_append_right ha1, after_append_right ha1]
          simp only [after, Ne.symm hat, ↓reduceIte]

/-- removing `t` from between `L1` and `L2` -/
theorem succIn_erase (L1 L2 : List K) (t : K) (hn : (L1 ++ t :: L2).Nodup) (src : Option K) (hsrc : src ≠ some t) :
    succIn (L1 ++ L2) src =
      if src = L1.getLast? then succIn (L1 ++ t :: L2) (some t) else succIn (L1 ++ t :: L2) src := by
  rw [succIn_insert L1 L2 t hn (some t), succIn_insert L1 L2 t hn src]
  simp only [↓reduceIte, hsrc]
  by_cases h2 : src = L1.getLast?
  · simp only [h2, ↓reduceIte]
    have hn2 : (L1 ++ L2).Nodup := by
      have := List.nodup_append.mp hn
      refine List.nodup_append.mpr ⟨this.1, (List.nodup_cons.mp this.2.1).2, ?_⟩
      intro a ha b hb
      exact this.2.2 a ha b (List.mem_cons_of_mem _ hb)
    exact succIn_getLast L1 L2 hn2
  · simp only [h2, ↓reduceIte]


/-! ### the pointer structure and the search loop -/

structure Arena (K : Type) where
  /-- `src.next[i]`; `src = none` is the head, the result `none` is `nil` -/
  nxt : Option K → Nat → Option K
  /-- entry and `len(next)` of the element with this key -/
  node : K → Option (Entry K × Nat)

/-- `for curr.next[i] != nil && CompareKeys(curr.next[i].Key, t) < 0 { curr = curr.next[i] }` (`fuel` bounds the loop) -/
def walkA (A : Arena K) (i : Nat) (t : K) : Nat → Option K → Option K
  | 0, curr => curr
  | fuel + 1, curr =>
    match A.nxt curr i with
    | some k => if lt k t then walkA A i t fuel (some k) else curr
    | none => curr

/-- `for i := maxLevel-1; i >= 0; i-- { walk; update[i] = curr }`: the array `update` -/
def descendA (A : Arena K) (t : K) (fuel : Nat) : Nat → Option K → (Nat → Option K) → (Nat → Option K)
  | 0, _, u => u
  | lvl + 1, curr, u =>
    let c := walkA lt A lvl t fuel curr
    descendA A t fuel lvl c (fun i => if i = lvl then c else u i)

def SortedK (L : List K) : Prop := L.Pairwise (fun a b => lt a b = true)

/-- keys below the target / the rest -/
def pre (L : List K) (t : K) : List K := L.takeWhile (fun k => lt k t)
def post (L : List K) (t : K) : List K := L.dropWhile (fun k => lt k t)

theorem pre_append_post (L : List K) (t : K) : pre lt L t ++ post lt L t = L := List.takeWhile_append_dropWhile

section
variable (htrans : ∀ a b c : K, lt a b = true → lt b c = true → lt a c = true)
variable (hirr : ∀ a : K, lt a a = false)

include hirr in
theorem nodup_of_sorted {L : List K} (hs : SortedK lt L) : L.Nodup := by
  unfold SortedK at hs
  apply List.Pairwise.imp _ hs
  intro a b hab heq
  rw [heq, hirr] at hab; cases hab

theorem post_head_not_lt (L : List K) (t : K) : ∀ q, (post lt L t).head? = some q → lt q t = false := by
  intro q hq
  unfold post at hq
  induction L with
  | nil => simp at hq
  | cons x xs ih =>
    simp only [List.dropWhile_cons] at hq
    split at hq
    · exact ih hq
    · rename_i hx
      simp only [List.head?_cons, Option.some.injEq] at hq
      rw [← hq]; simpa using hx

theorem pre_all_lt (L : List K) (t : K) : ∀ k ∈ pre lt L t, lt k t = true := by
  intro k hk
  unfold pre at hk
  have := List.all_takeWhile (l := L) (p := fun k => lt k t)
  exact List.all_eq_true.mp this k hk

include htrans in
/-- in a sorted list every element below the target is in the prefix below the target -/
theorem mem_pre_of_lt {L : List K} (hs : SortedK lt L) {t c : K} (hc : c ∈ L) (hlt : lt c t = true) : c ∈ pre lt L t := by
  unfold pre
  induction L with
  | nil => cases hc
  | cons x xs ih =>
    obtain ⟨hx, hxs⟩ := List.pairwise_cons.mp hs
    rcases List.mem_cons.mp hc with rfl | hc'
    · simp [List.takeWhile_cons, hlt]
    · have hxt : lt x t = true := htrans _ _ _ (hx c hc') hlt
      simp only [List.takeWhile_cons, hxt, ↓reduceIte]
      exact List.mem_cons_of_mem _ (ih hxs hc')

include hirr in
/-- following the pointers of a chain from a node below the target ends at the last node below the target -/
theorem walkA_spec (A : Arena K) (i : Nat) (t : K) (L : List K) (hs : SortedK lt L)
    (hA : ∀ src, src ∈ none :: L.map some → A.nxt src i = succIn L src) :
    ∀ (fuel : Nat) (P1 P2 : List K), pre lt L t = P1 ++ P2 → P2.length ≤ fuel →
      walkA lt A i t fuel P1.getLast? = (pre lt L t).getLast? := by
  have hnd := nodup_of_sorted lt hirr hs
  have hL := pre_append_post lt L t
  have hsrc : ∀ P1 P2, pre lt L t = P1 ++ P2 → P1.getLast? ∈ none :: L.map some := by
    intro P1 P2 hP
    cases hg : P1.getLast? with
    | none => simp
    | some g =>
      have : g ∈ P1 := List.mem_of_getLast? hg
      have : g ∈ L := by rw [← hL, hP]; simp [this]
      simp [this]
  intro fuel
  induction fuel with
  | zero =>
    intro P1 P2 hP hlen
    have : P2 = [] := List.eq_nil_of_length_eq_zero (by omega)
    subst this
    simp only [List.append_nil] at hP
    rw [hP]; rfl
  | succ fuel ih =>
    intro P1 P2 hP hlen
    have hnx := hA _ (hsrc P1 P2 hP)
    cases P2 with
    | nil =>
      simp only [List.append_nil] at hP
      subst hP
      have hsucc : succIn L (pre lt L t).getLast? = (post lt L t).head? := by
        have := succIn_getLast (pre lt L t) (post lt L t) (by rw [hL]; exact hnd)
        rw [hL] at this
        exact this
      simp only [walkA]
      rw [hnx, hsucc]
      cases hq : (post lt L t).head? with
      | none => rfl
      | some q => simp [post_head_not_lt lt L t q hq]
    | cons p P2' =>
      have hsucc : succIn L P1.getLast? = some p := by
        have := succIn_getLast P1 (p :: P2' ++ post lt L t) (by
          rw [← List.append_assoc, ← hP, hL]; exact hnd)
        rw [← List.append_assoc, ← hP, hL] at this
        simpa using this
      have hp : lt p t = true := pre_all_lt lt L t p (by rw [hP]; simp)
      simp only [walkA]
      rw [hnx, hsucc]
      simp only [hp, ↓reduceIte]
      have := ih (P1 ++ [p]) P2' (by rw [hP]; simp) (by simp at hlen; omega)
      simpa using this

end


section
variable (htrans : ∀ a b c : K, lt a b = true → lt b c = true → lt a c = true)
variable (hirr : ∀ a : K, lt a a = false)

/-- a node below the target splits the prefix below the target at itself -/
theorem split_at_mem {P : List K} {c : K} (h : c ∈ P) : ∃ P1 P2, P = P1 ++ P2 ∧ P1.getLast? = some c := by
  obtain ⟨s, r, rfl⟩ := List.append_of_mem h
  exact ⟨s ++ [c], r, by simp, by simp⟩

include htrans hirr in
/-- the search fills `update[i]` with the last node of level `i` below the target, for every level -/
theorem descendA_spec (A : Arena K) (t : K) (maxLevel : Nat) (chains : Nat → List K)
    (hs : ∀ i, SortedK lt (chains i)) (hsub : ∀ i, ∀ c ∈ chains (i + 1), c ∈ chains i)
    (hA : ∀ i, i < maxLevel → ∀ src, src ∈ none :: (chains i).map some → A.nxt src i = succIn (chains i) src)
    (fuel : Nat) (hfuel : ∀ i, (chains i).length ≤ fuel) :
    ∀ lvl, lvl ≤ maxLevel → ∀ (curr : Option K) (u : Nat → Option K),
      (curr = none ∨ ∃ c, curr = some c ∧ c ∈ chains lvl ∧ lt c t = true) →
      ∀ i, (i < lvl → descendA lt A t fuel lvl curr u i = (pre lt (chains i) t).getLast?) ∧
           (lvl ≤ i → descendA lt A t fuel lvl curr u i = u i) := by
  intro lvl
  induction lvl with
  | zero =>
    intro _ curr u _ i
    exact ⟨fun h => by omega, fun _ => rfl⟩
  | succ lvl ih =>
    intro hle curr u hcurr i
    simp only [descendA]
    -- the walk on level `lvl`
    have hwalk : walkA lt A lvl t fuel curr = (pre lt (chains lvl) t).getLast? := by
      have hlen : ∀ P1 P2 : List K, pre lt (chains lvl) t = P1 ++ P2 → P2.length ≤ fuel := by
        intro P1 P2 hP
        have h1 : (pre lt (chains lvl) t).length ≤ (chains lvl).length := by
          have := congrArg List.length (pre_append_post lt (chains lvl) t)
          simp only [List.length_append] at this
          omega
        have h2 := hfuel lvl
        have h3 := congrArg List.length hP
        simp only [List.length_append] at h3
        omega
      rcases hcurr with rfl | ⟨c, rfl, hc, hct⟩
      · have := walkA_spec lt hirr A lvl t (chains lvl) (hs lvl) (hA lvl (by omega)) fuel [] _ rfl (hlen [] _ rfl)
        simpa using this
      · have hcp : c ∈ pre lt (chains lvl) t := mem_pre_of_lt lt htrans (hs lvl) (hsub lvl c hc) hct
        obtain ⟨P1, P2, hP, hlast⟩ := split_at_mem hcp
        have := walkA_spec lt hirr A lvl t (chains lvl) (hs lvl) (hA lvl (by omega)) fuel P1 P2 hP (hlen P1 P2 hP)
        rw [hlast] at this
        exact this
    rw [hwalk]
    have hnext : (pre lt (chains lvl) t).getLast? = none ∨
        ∃ c, (pre lt (chains lvl) t).getLast? = some c ∧ c ∈ chains lvl ∧ lt c t = true := by
      cases hg : (pre lt (chains lvl) t).getLast? with
      | none => exact Or.inl rfl
      | some g =>
        have hm : g ∈ pre lt (chains lvl) t := List.mem_of_getLast? hg
        refine Or.inr ⟨g, rfl, ?_, pre_all_lt lt _ t g hm⟩
        have := pre_append_post lt (chains lvl) t
        rw [← this]; exact List.mem_append_left _ hm
    obtain ⟨h1, h2⟩ := ih (by omega) _ (fun j => if j = lvl then (pre lt (chains lvl) t).getLast? else u j) hnext i
    constructor
    · intro hi
      by_cases hil : i < lvl
      · exact h1 hil
      · have : i = lvl := by omega
        subst this
        rw [h2 (Nat.le_refl _)]
        simp
    · intro hi
      rw [h2 (by omega)]
      have : i ≠ lvl := by omega
      simp [this]

end

/-! ### level `i` of a tower list -/

/-- the keys of the nodes that are linked on level `i` -/
def F (i : Nat) (l : List (Node K)) : List K := (l.filter (fun n => decide (i < n.height))).map (·.entry.key)

theorem F_append (i : Nat) (a b : List (Node K)) : F i (a ++ b) = F i a ++ F i b := by simp [F]

theorem F_cons (i : Nat) (n : Node K) (b : List (Node K)) :
    F i (n :: b) = if i < n.height then n.entry.key :: F i b else F i b := by
  by_cases h : i < n.height <;> simp [F, List.filter_cons, h]

theorem mem_F {i : Nat} {l : List (Node K)} {k : K} : k ∈ F i l ↔ ∃ n ∈ l, i < n.height ∧ n.entry.key = k := by
  simp only [F, List.mem_map, List.mem_filter, decide_eq_true_eq]
  constructor
  · rintro ⟨n, ⟨hn, hh⟩, hk⟩; exact ⟨n, hn, hh, hk⟩
  · rintro ⟨n, hn, hh, hk⟩; exact ⟨n, ⟨hn, hh⟩, hk⟩

theorem F_sub (i : Nat) (l : List (Node K)) : ∀ c ∈ F (i + 1) l, c ∈ F i l := by
  intro c hc
  obtain ⟨n, hn, hh, hk⟩ := mem_F.mp hc
  exact mem_F.mpr ⟨n, hn, by omega, hk⟩

theorem F_sorted (i : Nat) {l : List (Node K)} (hs : SortedN lt l) : SortedK lt (F i l) := by
  unfold F SortedK
  rw [List.pairwise_map]
  exact List.Pairwise.sublist List.filter_sublist hs

theorem F_length_le (i : Nat) (l : List (Node K)) : (F i l).length ≤ l.length := by
  simp only [F, List.length_map]
  exact List.length_filter_le _ _

theorem F_zero {l : List (Node K)} (hh : ∀ n ∈ l, 0 < n.height) : F 0 l = l.map (·.entry.key) := by
  unfold F
  rw [List.filter_eq_self.mpr]
  intro n hn
  simpa using hh n hn


/-! ### the list below / from the target, on nodes and on every level -/

def below (t : K) (l : List (Node K)) : List (Node K) := l.takeWhile (fun n => lt n.entry.key t)
def from' (t : K) (l : List (Node K)) : List (Node K) := l.dropWhile (fun n => lt n.entry.key t)

theorem below_append_from (t : K) (l : List (Node K)) : below lt t l ++ from' lt t l = l := List.takeWhile_append_dropWhile

theorem below_length (t : K) (l : List (Node K)) : (below lt t l).length = cnt lt t l := rfl

section
variable (htrans : ∀ a b c : K, lt a b = true → lt b c = true → lt a c = true)
variable (hirr : ∀ a : K, lt a a = false)

include htrans in
/-- level `i` of the part below the target is the part of level `i` below the target -/
theorem pre_F (i : Nat) (t : K) {l : List (Node K)} (hs : SortedN lt l) : pre lt (F i l) t = F i (below lt t l) := by
  induction l with
  | nil => rfl
  | cons n rest ih =>
    obtain ⟨hn, hrest⟩ := List.pairwise_cons.mp hs
    unfold below
    cases hp : lt n.entry.key t with
    | true =>
      simp only [List.takeWhile_cons, hp, ↓reduceIte]
      rw [F_cons, F_cons]
      by_cases hh : i < n.height
      · simp only [hh, ↓reduceIte]
        unfold pre
        simp only [List.takeWhile_cons, hp, ↓reduceIte]
        exact congrArg _ (ih hrest)
      · simp only [hh, ↓reduceIte]
        exact ih hrest
    | false =>
      simp only [List.takeWhile_cons, hp, Bool.false_eq_true, ↓reduceIte]
      show pre lt (F i (n :: rest)) t = F i []
      have hall : ∀ k ∈ F i (n :: rest), lt k t = false := by
        intro k hk
        obtain ⟨m, hm, _, rfl⟩ := mem_F.mp hk
        rcases List.mem_cons.mp hm with rfl | hm'
        · exact hp
        · cases hmt : lt m.entry.key t with
          | false => rfl
          | true => rw [htrans _ _ _ (hn m hm') hmt] at hp; cases hp
      unfold pre
      cases hF : F i (n :: rest) with
      | nil => rfl
      | cons k ks =>
        have := hall k (by rw [hF]; simp)
        simp [List.takeWhile_cons, this, F]

include htrans in
theorem post_F (i : Nat) (t : K) {l : List (Node K)} (hs : SortedN lt l) : post lt (F i l) t = F i (from' lt t l) := by
  have h1 := pre_append_post lt (F i l) t
  have h2 : F i l = F i (below lt t l) ++ F i (from' lt t l) := by
    rw [← F_append, below_append_from]
  rw [pre_F lt htrans i t hs] at h1
  exact List.append_cancel_left (h1.trans h2)

theorem take_cnt (t : K) (l : List (Node K)) : l.take (cnt lt t l) = below lt t l := by
  have h := below_append_from lt t l
  have := List.take_left' (l₁ := below lt t l) (l₂ := from' lt t l) (below_length lt t l)
  rw [h] at this
  exact this

theorem drop_cnt (t : K) (l : List (Node K)) : l.drop (cnt lt t l) = from' lt t l := by
  have h := below_append_from lt t l
  have := List.drop_left' (l₁ := below lt t l) (l₂ := from' lt t l) (below_length lt t l)
  rw [h] at this
  exact this

theorem get_cnt (t : K) (l : List (Node K)) : l[cnt lt t l]? = (from' lt t l).head? := by
  rw [← List.head?_drop, drop_cnt]

/-- `Set` of the tower model, in terms of the two parts -/
theorem setCore_split (l : List (Node K)) (e : Entry K) (h : Nat) :
    setCore l e h (cnt lt e.key l) =
      match from' lt e.key l with
      | n :: b' =>
        if n.entry.key = e.key then
          below lt e.key l ++ { n with entry := { n.entry with value := e.value, tomb := e.tomb } } :: b'
        else below lt e.key l ++ { entry := e, height := h } :: n :: b'
      | [] => below lt e.key l ++ [{ entry := e, height := h }] := by
  unfold setCore
  rw [get_cnt]
  cases hb : from' lt e.key l with
  | nil =>
    simp only [List.head?_nil]
    rw [take_cnt, drop_cnt, hb]
  | cons n b' =>
    simp only [List.head?_cons]
    by_cases hk : n.entry.key = e.key
    · simp only [hk, ↓reduceIte]
      have hl : below lt e.key l ++ n :: b' = l := by rw [← hb, below_append_from]
      have key : ∀ (a : List (Node K)) (x : Node K), (a ++ n :: b').set a.length x = a ++ x :: b' := by
        intro a x
        rw [List.set_append_right _ _ (Nat.le_refl _)]
        simp
      have := key (below lt e.key l) { n with entry := { n.entry with value := e.value, tomb := e.tomb } }
      rw [hl, below_length] at this
      simpa [hk] using this
    · simp only [hk, ↓reduceIte]
      rw [take_cnt, drop_cnt, hb]

end


/-! ### the skiplist object, its representation invariant, `Set` / `Get` / `LowerBound` -/

structure SL (K : Type) where
  A : Arena K
  level : Nat                 -- `s.level`

def emptySL : SL K := { A := { nxt := fun _ _ => none, node := fun _ => none }, level := 1 }

/-- the pointers of level `i` are the chain of the nodes of height `> i`; the node table holds the
    entries and heights; `s.level` bounds every height -/
structure Rep (maxLevel : Nat) (s : SL K) (l : List (Node K)) : Prop where
  ptr : ∀ i, i < maxLevel → ∀ src, src ∈ none :: (F i l).map some → s.A.nxt src i = succIn (F i l) src
  node : ∀ n ∈ l, s.A.node n.entry.key = some (n.entry, n.height)
  lvl : ∀ n ∈ l, n.height ≤ s.level
  lvl_le : 1 ≤ s.level ∧ s.level ≤ maxLevel

/-- the array `update` after the search loop -/
def updates (s : SL K) (maxLevel : Nat) (t : K) (fuel : Nat) : Nat → Option K :=
  descendA lt s.A t fuel maxLevel none (fun _ => none)

def lowerBoundA (s : SL K) (maxLevel : Nat) (t : K) (fuel : Nat) : Option (Entry K) :=
  match s.A.nxt (updates lt s maxLevel t fuel 0) 0 with
  | some k => (s.A.node k).map (·.1)
  | none => none

def getA (s : SL K) (maxLevel : Nat) (t : K) (fuel : Nat) : Option (Entry K) :=
  match s.A.nxt (updates lt s maxLevel t fuel 0) 0 with
  | some k => if k = t then (s.A.node k).map (·.1) else none
  | none => none

/-- the relinking of `Set` for a new key:
    `if level > s.level { update[i] = head … }`, `e.next[i] = update[i].next[i]; update[i].next[i] = e` -/
def insertA (s : SL K) (u : Nat → Option K) (e : Entry K) (h : Nat) : SL K :=
  let u' := fun i => if s.level ≤ i ∧ i < h then none else u i
  { A := { nxt := fun src i =>
             if i < h then
               (if src = some e.key then s.A.nxt (u' i) i else if src = u' i then some e.key else s.A.nxt src i)
             else s.A.nxt src i,
           node := fun k => if k = e.key then some (e, h) else s.A.node k },
    level := max s.level h }

def setA (s : SL K) (maxLevel : Nat) (e : Entry K) (h : Nat) (fuel : Nat) : SL K :=
  let u := updates lt s maxLevel e.key fuel
  match s.A.nxt (u 0) 0 with
  | some k =>
    if k = e.key then
      { s with A := { s.A with node := fun k' =>
          if k' = k then (s.A.node k).map (fun p => ({ p.1 with value := e.value, tomb := e.tomb }, p.2)) else s.A.node k' } }
    else insertA s u e h
  | none => insertA s u e h

theorem rep_empty (maxLevel : Nat) (hm : 0 < maxLevel) : Rep maxLevel (emptySL : SL K) [] := by
  refine ⟨?_, ?_, ?_, ⟨Nat.le_refl 1, hm⟩⟩
  · intro i _ src hsrc
    simp only [F, List.filter_nil, List.map_nil, List.mem_cons, List.not_mem_nil, or_false] at hsrc
    subst hsrc
    rfl
  · intro n hn; cases hn
  · intro n hn; cases hn

section
variable (htrans : ∀ a b c : K, lt a b = true → lt b c = true → lt a c = true)
variable (hirr : ∀ a : K, lt a a = false)
variable (htot : ∀ a b : K, lt a b = false → lt b a = false → a = b)

include htrans hirr in
/-- `update[i]` is the last node of level `i` below the target, i.e. the last one of `F i (below t l)` -/
theorem updates_eq {maxLevel : Nat} {s : SL K} {l : List (Node K)} (hr : Rep maxLevel s l) (hw : WF lt l) (t : K)
    {fuel : Nat} (hfuel : l.length ≤ fuel) (i : Nat) (hi : i < maxLevel) :
    updates lt s maxLevel t fuel i = (F i (below lt t l)).getLast? := by
  have := (descendA_spec lt htrans hirr s.A t maxLevel (fun j => F j l) (fun j => F_sorted lt j hw.sorted)
    (fun j => F_sub j l) hr.ptr fuel (fun j => Nat.le_trans (F_length_le j l) hfuel) maxLevel (Nat.le_refl _) none
    (fun _ => none) (Or.inl rfl) i).1 hi
  unfold updates
  rw [this, pre_F lt htrans i t hw.sorted]

include hirr in
theorem F_nodup (i : Nat) {l : List (Node K)} (hs : SortedN lt l) : (F i l).Nodup :=
  nodup_of_sorted lt hirr (F_sorted lt i hs)

include htrans hirr in
/-- what `update[i].next[i]` is: the first node of level `i` at or above the target -/
theorem next_update {maxLevel : Nat} {s : SL K} {l : List (Node K)} (hr : Rep maxLevel s l) (hw : WF lt l) (t : K)
    {fuel : Nat} (hfuel : l.length ≤ fuel) (i : Nat) (hi : i < maxLevel) :
    s.A.nxt (updates lt s maxLevel t fuel i) i = (F i (from' lt t l)).head? := by
  rw [updates_eq lt htrans hirr hr hw t hfuel i hi]
  have hsplit : F i l = F i (below lt t l) ++ F i (from' lt t l) := by rw [← F_append, below_append_from]
  have hmem : (F i (below lt t l)).getLast? ∈ none :: (F i l).map some := by
    cases hg : (F i (below lt t l)).getLast? with
    | none => simp
    | some g =>
      have : g ∈ F i l := by rw [hsplit]; exact List.mem_append_left _ (List.mem_of_getLast? hg)
      simp [this]
  rw [hr.ptr i hi _ hmem, hsplit]
  exact succIn_getLast _ _ (by rw [← hsplit]; exact F_nodup lt hirr i hw.sorted)

include htrans hirr in
theorem lowerBoundA_eq {maxLevel : Nat} (hm : 0 < maxLevel) {s : SL K} {l : List (Node K)} (hr : Rep maxLevel s l)
    (hw : WF lt l) (t : K) {fuel : Nat} (hfuel : l.length ≤ fuel) :
    lowerBoundA lt s maxLevel t fuel = Skiplist.lowerBound lt maxLevel l t := by
  unfold lowerBoundA Skiplist.lowerBound
  rw [next_update lt htrans hirr hr hw t hfuel 0 hm, findPos_eq lt htrans maxLevel hm t l hw.sorted hw.heights, get_cnt]
  have hsub : ∀ n ∈ from' lt t l, n ∈ l := fun n hn => by
    rw [← below_append_from lt t l]; exact List.mem_append_right _ hn
  cases hb : from' lt t l with
  | nil => simp [F]
  | cons n b' =>
    have hn : n ∈ l := hsub n (by rw [hb]; simp)
    have h0 : 0 < n.height := hw.heights n hn
    simp only [F_cons, h0, ↓reduceIte, List.head?_cons, Option.map_some]
    rw [hr.node n hn]
    rfl

include htrans hirr in
theorem getA_eq {maxLevel : Nat} (hm : 0 < maxLevel) {s : SL K} {l : List (Node K)} (hr : Rep maxLevel s l)
    (hw : WF lt l) (t : K) {fuel : Nat} (hfuel : l.length ≤ fuel) :
    getA lt s maxLevel t fuel = Skiplist.get lt maxLevel l t := by
  unfold getA Skiplist.get
  rw [next_update lt htrans hirr hr hw t hfuel 0 hm, findPos_eq lt htrans maxLevel hm t l hw.sorted hw.heights, get_cnt]
  have hsub : ∀ n ∈ from' lt t l, n ∈ l := fun n hn => by
    rw [← below_append_from lt t l]; exact List.mem_append_right _ hn
  cases hb : from' lt t l with
  | nil => simp [F]
  | cons n b' =>
    have hn : n ∈ l := hsub n (by rw [hb]; simp)
    have h0 : 0 < n.height := hw.heights n hn
    simp only [F_cons, h0, ↓reduceIte, List.head?_cons]
    by_cases hk : n.entry.key = t
    · simp only [hk, ↓reduceIte]
      rw [← hk, hr.node n hn]
      rfl
    · simp only [hk, ↓reduceIte]

end


section
variable (htrans : ∀ a b c : K, lt a b = true → lt b c = true → lt a c = true)
variable (hirr : ∀ a : K, lt a a = false)
variable (htot : ∀ a b : K, lt a b = false → lt b a = false → a = b)

theorem below_all_lt (t : K) (l : List (Node K)) : ∀ m ∈ below lt t l, lt m.entry.key t = true := by
  intro m hm
  unfold below at hm
  have := List.all_takeWhile (l := l) (p := fun n => lt n.entry.key t)
  exact List.all_eq_true.mp this m hm

theorem from_head_not_lt (t : K) (l : List (Node K)) : ∀ n b', from' lt t l = n :: b' → lt n.entry.key t = false := by
  intro n b' hb
  unfold from' at hb
  induction l with
  | nil => simp at hb
  | cons x xs ih =>
    simp only [List.dropWhile_cons] at hb
    split at hb
    · exact ih hb
    · rename_i hx
      simp only [List.cons.injEq] at hb
      rw [← hb.1]; simpa using hx

include htrans hirr htot in
/-- a key that is not at the head of the part from the target on is nowhere in the list -/
theorem key_fresh {l : List (Node K)} (hs : SortedN lt l) (t : K)
    (hhead : ∀ n b', from' lt t l = n :: b' → n.entry.key ≠ t) : ∀ m ∈ l, m.entry.key ≠ t := by
  intro m hm heq
  rw [← below_append_from lt t l] at hm
  rcases List.mem_append.mp hm with hm | hm
  · have := below_all_lt lt t l m hm
    rw [heq, hirr] at this; cases this
  · cases hb : from' lt t l with
    | nil => rw [hb] at hm; cases hm
    | cons n b' =>
      have hnt := from_head_not_lt lt t l n b' hb
      have hne := hhead n b' hb
      have hlt : lt t n.entry.key = true := by
        cases h : lt t n.entry.key with
        | true => rfl
        | false => exact absurd (htot _ _ hnt h) hne
      rw [hb] at hm
      rcases List.mem_cons.mp hm with rfl | hm'
      · exact hne heq
      · have hsb : SortedN lt (n :: b') := by
          have : SortedN lt (below lt t l ++ from' lt t l) := by rw [below_append_from]; exact hs
          rw [hb] at this
          exact (List.pairwise_append.mp this).2.1
        have := (List.pairwise_cons.mp hsb).1 m hm'
        have := htrans _ _ _ hlt this
        rw [heq, hirr] at this; cases this

include htrans hirr htot in
/-- **`Set` keeps the pointer structure a representation of the tower list** -/
theorem rep_set {maxLevel : Nat} (hm : 0 < maxLevel) {s : SL K} {l : List (Node K)} (hr : Rep maxLevel s l)
    (hw : WF lt l) (e : Entry K) {h : Nat} (hh : 1 ≤ h ∧ h ≤ maxLevel) {fuel : Nat} (hfuel : l.length ≤ fuel) :
    Rep maxLevel (setA lt s maxLevel e h fuel) (Skiplist.set lt maxLevel l e h) := by
  have hw' : WF lt (Skiplist.set lt maxLevel l e h) := set_wf lt htrans hirr htot hm hw e (by omega)
  have hset : Skiplist.set lt maxLevel l e h = setCore l e h (cnt lt e.key l) := by
    rw [set_eq_setCore, findPos_eq lt htrans maxLevel hm e.key l hw.sorted hw.heights]
  rw [hset] at hw' ⊢
  rw [setCore_split] at hw' ⊢
  have hl := below_append_from lt e.key l
  have hnx0 := next_update lt htrans hirr hr hw e.key hfuel 0 hm
  have hsubA : ∀ n ∈ below lt e.key l, n ∈ l := fun n hn => by rw [← hl]; exact List.mem_append_left _ hn
  have hsubB : ∀ n ∈ from' lt e.key l, n ∈ l := fun n hn => by rw [← hl]; exact List.mem_append_right _ hn
  -- the insertion case, shared by "nothing at or above the key" and "the next key is a different one"
  have hins : (∀ n b', from' lt e.key l = n :: b' → n.entry.key ≠ e.key) →
      WF lt (below lt e.key l ++ { entry := e, height := h } :: from' lt e.key l) →
      Rep maxLevel (insertA s (updates lt s maxLevel e.key fuel) e h)
        (below lt e.key l ++ { entry := e, height := h } :: from' lt e.key l) := by
    intro hhead hwi
    have hfresh := key_fresh lt htrans hirr htot hw.sorted e.key hhead
    have hu' : ∀ i, i < maxLevel →
        (if s.level ≤ i ∧ i < h then none else updates lt s maxLevel e.key fuel i) = (F i (below lt e.key l)).getLast? := by
      intro i hi
      rw [updates_eq lt htrans hirr hr hw e.key hfuel i hi]
      split
      · rename_i hc
        have : F i (below lt e.key l) = [] := by
          unfold F
          rw [List.filter_eq_nil_iff.mpr]
          · rfl
          · intro n hn
            have := hr.lvl n (hsubA n hn)
            simp only [decide_eq_true_eq]; omega
        rw [this]; rfl
      · rfl
    refine ⟨?_, ?_, ?_, ?_⟩
    · intro i hi src hsrc
      simp only [insertA]
      by_cases hih : i < h
      · simp only [hih, ↓reduceIte]
        have hF : F i (below lt e.key l ++ { entry := e, height := h } :: from' lt e.key l) =
            F i (below lt e.key l) ++ e.key :: F i (from' lt e.key l) := by
          rw [F_append, F_cons]; simp [hih]
        rw [hF] at hsrc ⊢
        have hnd : (F i (below lt e.key l) ++ e.key :: F i (from' lt e.key l)).Nodup := by
          rw [← hF]; exact F_nodup lt hirr i hwi.sorted
        have hu := hu' i hi
        simp only [hih] at hu
        rw [succIn_insert _ _ _ hnd src, hu]
        by_cases h1 : src = some e.key
        · simp only [h1, ↓reduceIte]
          have := next_update lt htrans hirr hr hw e.key hfuel i hi
          rw [updates_eq lt htrans hirr hr hw e.key hfuel i hi] at this
          exact this
        · simp only [h1, ↓reduceIte]
          by_cases h2 : src = (F i (below lt e.key l)).getLast?
          · simp only [h2, ↓reduceIte]
          · simp only [h2, ↓reduceIte]
            have hsplit : F i l = F i (below lt e.key l) ++ F i (from' lt e.key l) := by rw [← F_append, hl]
            rw [← hsplit]
            apply hr.ptr i hi
            rw [hsplit]
            simp only [List.mem_cons, List.map_append, List.map_cons, List.mem_append] at hsrc ⊢
            rcases hsrc with h | h | h | h
            · exact Or.inl h
            · exact Or.inr (Or.inl h)
            · exact absurd h h1
            · exact Or.inr (Or.inr h)
      · simp only [hih, ↓reduceIte]
        have hF : F i (below lt e.key l ++ { entry := e, height := h } :: from' lt e.key l) = F i l := by
          rw [F_append, F_cons]; simp only [hih, ↓reduceIte]; rw [← F_append, hl]
        rw [hF] at hsrc ⊢
        exact hr.ptr i hi src hsrc
    · intro n hn
      simp only [insertA]
      rcases List.mem_append.mp hn with hn | hn
      · have hne := hfresh n (hsubA n hn)
        simp only [hne, ↓reduceIte]
        exact hr.node n (hsubA n hn)
      · rcases List.mem_cons.mp hn with rfl | hn
        · simp
        · have hne := hfresh n (hsubB n hn)
          simp only [hne, ↓reduceIte]
          exact hr.node n (hsubB n hn)
    · intro n hn
      simp only [insertA]
      rcases List.mem_append.mp hn with hn | hn
      · have := hr.lvl n (hsubA n hn); omega
      · rcases List.mem_cons.mp hn with rfl | hn
        · simp only; omega
        · have := hr.lvl n (hsubB n hn); omega
    · simp only [insertA]
      have := hr.lvl_le
      omega
  unfold setA
  simp only
  rw [hnx0]
  cases hb : from' lt e.key l with
  | nil =>
    rw [hb] at hw'
    simp only [F, List.filter_nil, List.map_nil, List.head?_nil]
    have := hins (by intro n b' hh'; rw [hb] at hh'; cases hh') (by rw [hb]; exact hw')
    rw [hb] at this
    exact this
  | cons n b' =>
    rw [hb] at hw'
    have hn : n ∈ l := hsubB n (by rw [hb]; simp)
    have h0 : 0 < n.height := hw.heights n hn
    simp only [F_cons, h0, ↓reduceIte, List.head?_cons]
    by_cases hk : n.entry.key = e.key
    · -- the key is there: value and tombstone are replaced in place, no pointer changes
      simp only [hk, ↓reduceIte] at hw' ⊢
      have hFeq : ∀ i (x : Node K), x.entry.key = n.entry.key → x.height = n.height →
          F i (below lt e.key l ++ x :: b') = F i l := by
        intro i x hxk hxh
        have : F i l = F i (below lt e.key l ++ n :: b') := by rw [← hb, hl]
        rw [this, F_append, F_append, F_cons, F_cons, hxk, hxh]
      have hsl : SortedN lt (below lt e.key l ++ n :: b') := by rw [← hb, hl]; exact hw.sorted
      have hother : ∀ m, m ∈ below lt e.key l ∨ m ∈ b' → m.entry.key ≠ e.key := by
        intro m hm heq
        rcases hm with hm | hm
        · have := below_all_lt lt e.key l m hm
          rw [heq, hirr] at this; cases this
        · have := (List.pairwise_cons.mp (List.pairwise_append.mp hsl).2.1).1 m hm
          rw [hk, heq, hirr] at this; cases this
      refine ⟨?_, ?_, ?_, hr.lvl_le⟩
      · intro i hi src hsrc
        rw [hFeq i ⟨⟨e.key, e.value, e.tomb, n.entry.version⟩, n.height⟩ hk.symm rfl] at hsrc ⊢
        exact hr.ptr i hi src hsrc
      · intro m hm
        rcases List.mem_append.mp hm with hm | hm
        · have hne := hother m (Or.inl hm)
          simp only [hne, ↓reduceIte]
          exact hr.node m (hsubA m hm)
        · rcases List.mem_cons.mp hm with rfl | hm
          · simp only [↓reduceIte]
            rw [← hk, hr.node n hn]
            rfl
          · have hne := hother m (Or.inr hm)
            simp only [hne, ↓reduceIte]
            exact hr.node m (hsubB m (by rw [hb]; exact List.mem_cons_of_mem _ hm))
      · intro m hm
        rcases List.mem_append.mp hm with hm | hm
        · exact hr.lvl m (hsubA m hm)
        · rcases List.mem_cons.mp hm with rfl | hm
          · exact hr.lvl n hn
          · exact hr.lvl m (hsubB m (by rw [hb]; exact List.mem_cons_of_mem _ hm))
    · simp only [hk, ↓reduceIte] at hw' ⊢
      have := hins (by intro n2 b2 hh'; rw [hb] at hh'; cases hh'; exact hk) (by rw [hb]; exact hw')
      rw [hb] at this
      exact this

end


/-! ### `All` and `Scan`: walking level 0 -/

/-- `for curr := src.next[0]; curr != nil; curr = curr.next[0]` -/
def chainA (A : Arena K) : Nat → Option K → List K
  | 0, _ => []
  | fuel + 1, src =>
    match A.nxt src 0 with
    | some k => k :: chainA A fuel (some k)
    | none => []

def entriesOf (A : Arena K) (ks : List K) : List (Entry K) := ks.filterMap fun k => (A.node k).map (·.1)

def allA (s : SL K) (fuel : Nat) : List (Entry K) := entriesOf s.A (chainA s.A fuel none)

/-- `for curr != nil && CompareKeys(curr.Key, end) < 0 { collect; curr = curr.next[0] }` -/
def collectA (A : Arena K) (endK : K) : Nat → Option K → List K
  | 0, _ => []
  | _ + 1, none => []
  | fuel + 1, some k => if lt k endK then k :: collectA A endK fuel (A.nxt (some k) 0) else []

def scanA (s : SL K) (maxLevel : Nat) (a b : K) (fuel : Nat) : List (Entry K) :=
  entriesOf s.A (collectA lt s.A b fuel (s.A.nxt (updates lt s maxLevel a fuel 0) 0))

section
variable (htrans : ∀ a b c : K, lt a b = true → lt b c = true → lt a c = true)
variable (hirr : ∀ a : K, lt a a = false)

theorem chainA_spec (A : Arena K) (L : List K) (hnd : L.Nodup)
    (hA : ∀ src, src ∈ none :: L.map some → A.nxt src 0 = succIn L src) :
    ∀ (fuel : Nat) (P1 P2 : List K), L = P1 ++ P2 → P2.length ≤ fuel → chainA A fuel P1.getLast? = P2 := by
  have hsrc : ∀ P1 P2, L = P1 ++ P2 → P1.getLast? ∈ none :: L.map some := by
    intro P1 P2 hP
    cases hg : P1.getLast? with
    | none => simp
    | some g =>
      have : g ∈ L := by rw [hP]; exact List.mem_append_left _ (List.mem_of_getLast? hg)
      simp [this]
  intro fuel
  induction fuel with
  | zero =>
    intro P1 P2 _ hlen
    have : P2 = [] := List.eq_nil_of_length_eq_zero (by omega)
    subst this; rfl
  | succ fuel ih =>
    intro P1 P2 hP hlen
    have hnx := hA _ (hsrc P1 P2 hP)
    have hs := succIn_getLast P1 P2 (by rw [← hP]; exact hnd)
    rw [← hP] at hs
    simp only [chainA]
    rw [hnx, hs]
    cases P2 with
    | nil => rfl
    | cons p P2' =>
      simp only [List.head?_cons]
      have := ih (P1 ++ [p]) P2' (by rw [hP]; simp) (by simp at hlen; omega)
      simp only [List.getLast?_append, List.getLast?_singleton, Option.some_or] at this
      rw [this]

theorem entriesOf_F0 {maxLevel : Nat} {s : SL K} {l : List (Node K)} (hr : Rep maxLevel s l) (sub : List (Node K))
    (hsub : ∀ n ∈ sub, n ∈ l) : entriesOf s.A (sub.map (·.entry.key)) = sub.map (·.entry) := by
  induction sub with
  | nil => rfl
  | cons n rest ih =>
    simp only [entriesOf, List.map_cons, List.filterMap_cons]
    rw [hr.node n (hsub n (by simp))]
    simp only [Option.map_some]
    exact congrArg _ (ih (fun m hm => hsub m (List.mem_cons_of_mem _ hm)))

include hirr in
theorem allA_eq {maxLevel : Nat} (hm : 0 < maxLevel) {s : SL K} {l : List (Node K)} (hr : Rep maxLevel s l)
    (hw : WF lt l) {fuel : Nat} (hfuel : l.length ≤ fuel) : allA s fuel = Skiplist.all l := by
  unfold allA Skiplist.all
  have h0 := F_zero hw.heights
  have := chainA_spec s.A (F 0 l) (F_nodup lt hirr 0 hw.sorted) (hr.ptr 0 hm) fuel [] (F 0 l) rfl
    (Nat.le_trans (F_length_le 0 l) hfuel)
  simp only [List.getLast?_nil] at this
  rw [this, h0]
  exact entriesOf_F0 hr l (fun n hn => hn)

theorem collectA_spec (A : Arena K) (endK : K) (L : List K) (hnd : L.Nodup)
    (hA : ∀ src, src ∈ none :: L.map some → A.nxt src 0 = succIn L src) :
    ∀ (fuel : Nat) (P1 P2 : List K), L = P1 ++ P2 → P2.length < fuel →
      collectA lt A endK fuel P2.head? = P2.takeWhile (fun k => lt k endK) := by
  intro fuel
  induction fuel with
  | zero => intro P1 P2 _ hlen; omega
  | succ fuel ih =>
    intro P1 P2 hP hlen
    cases P2 with
    | nil => rfl
    | cons p P2' =>
      simp only [List.head?_cons, collectA, List.takeWhile_cons]
      cases hp : lt p endK with
      | false => rfl
      | true =>
        simp only [↓reduceIte]
        have hmem : some p ∈ none :: L.map some := by rw [hP]; simp
        have hs := succIn_getLast (P1 ++ [p]) P2' (by rw [List.append_assoc]; simpa using hP ▸ hnd)
        simp only [List.getLast?_append, List.getLast?_singleton, Option.some_or, List.append_assoc,
          List.singleton_append] at hs
        rw [hA _ hmem, hP, hs]
        exact congrArg _ (ih (P1 ++ [p]) P2' (by rw [hP]; simp) (by simp at hlen; omega))

include htrans hirr in
theorem scanA_eq {maxLevel : Nat} (hm : 0 < maxLevel) {s : SL K} {l : List (Node K)} (hr : Rep maxLevel s l)
    (hw : WF lt l) (a b : K) {fuel : Nat} (hfuel : l.length < fuel) :
    scanA lt s maxLevel a b fuel = Skiplist.scan lt maxLevel l a b := by
  unfold scanA Skiplist.scan
  rw [next_update lt htrans hirr hr hw a (Nat.le_of_lt hfuel) 0 hm,
    findPos_eq lt htrans maxLevel hm a l hw.sorted hw.heights, drop_cnt]
  have hsubB : ∀ n ∈ from' lt a l, n ∈ l := fun n hn => by
    rw [← below_append_from lt a l]; exact List.mem_append_right _ hn
  have hl := below_append_from lt a l
  have hF0 : F 0 l = F 0 (below lt a l) ++ F 0 (from' lt a l) := by rw [← F_append, hl]
  have hlen : (F 0 (from' lt a l)).length < fuel := by
    have h1 := F_length_le 0 (from' lt a l)
    have h2 : (from' lt a l).length ≤ l.length := by
      have := congrArg List.length hl
      simp only [List.length_append] at this; omega
    omega
  rw [collectA_spec lt s.A b (F 0 l) (F_nodup lt hirr 0 hw.sorted) (hr.ptr 0 hm) fuel _ _ hF0 hlen]
  have hFb : F 0 (from' lt a l) = (from' lt a l).map (·.entry.key) :=
    F_zero (fun n hn => hw.heights n (hsubB n hn))
  rw [hFb, List.takeWhile_map]
  have := entriesOf_F0 hr ((from' lt a l).takeWhile ((fun k => lt k b) ∘ fun n => n.entry.key))
    (fun n hn => hsubB n ((List.takeWhile_sublist _).subset hn))
  exact this

end


/-! ### `Delete` -/

/-- `update[i].next[i] = curr.next[i]` -/
def relink (A : Arena K) (u : Nat → Option K) (t : K) (i : Nat) : Arena K :=
  { A with nxt := fun src j => if j = i ∧ src = u i then A.nxt (some t) i else A.nxt src j }

/-- `for i := range s.level { if update[i].next[i] != curr { break }; update[i].next[i] = curr.next[i] }`
    (`i` = current level, second argument = levels left) -/
def unlinkA (A : Arena K) (u : Nat → Option K) (t : K) : Nat → Nat → Arena K
  | _, 0 => A
  | i, n + 1 => if A.nxt (u i) i = some t then unlinkA (relink A u t i) u t (i + 1) n else A

/-- `for s.level > 1 && s.head.next[s.level-1] == nil { s.level-- }` -/
def lowerLevel (A : Arena K) : Nat → Nat
  | 0 => 0
  | 1 => 1
  | lv + 2 => if A.nxt none (lv + 1) = none then lowerLevel A (lv + 1) else lv + 2

def deleteA (s : SL K) (maxLevel : Nat) (t : K) (fuel : Nat) : SL K × Bool :=
  let u := updates lt s maxLevel t fuel
  match s.A.nxt (u 0) 0 with
  | some k =>
    if k = t then
      let A' := unlinkA s.A u t 0 s.level
      ({ A := A', level := lowerLevel A' s.level }, true)
    else (s, false)
  | none => (s, false)

/-- the unlink loop relinks exactly the levels below the height of the deleted node -/
theorem unlinkA_spec (u : Nat → Option K) (t : K) (hgt : Nat) :
    ∀ (n i : Nat) (A : Arena K), i ≤ hgt → hgt ≤ i + n →
      (∀ j, i ≤ j → j < hgt → A.nxt (u j) j = some t) →
      (hgt < i + n → A.nxt (u hgt) hgt ≠ some t) →
      (unlinkA A u t i n).node = A.node ∧
      ∀ src j, (unlinkA A u t i n).nxt src j =
        if i ≤ j ∧ j < hgt ∧ src = u j then A.nxt (some t) j else A.nxt src j := by
  intro n
  induction n with
  | zero =>
    intro i A h1 h2 _ _
    refine ⟨rfl, ?_⟩
    intro src j
    have : ¬ (i ≤ j ∧ j < hgt ∧ src = u j) := by intro h; omega
    simp [unlinkA, this]
  | succ n ih =>
    intro i A h1 h2 hlink hstop
    by_cases hi : i < hgt
    · have hc : A.nxt (u i) i = some t := hlink i (Nat.le_refl _) hi
      simp only [unlinkA, hc, ↓reduceIte]
      have hrel : ∀ src j, (relink A u t i).nxt src j = if j = i ∧ src = u i then A.nxt (some t) i else A.nxt src j :=
        fun _ _ => rfl
      obtain ⟨hn, hp⟩ := ih (i + 1) (relink A u t i) (by omega) (by omega)
        (by intro j hj1 hj2; rw [hrel]; have : j ≠ i := by omega
            simp only [this, false_and, ↓reduceIte]; exact hlink j (by omega) hj2)
        (by intro hh; rw [hrel]; have : hgt ≠ i := by omega
            simp only [this, false_and, ↓reduceIte]; exact hstop (by omega))
      refine ⟨hn, ?_⟩
      intro src j
      rw [hp src j, hrel, hrel]
      by_cases hji : j = i
      · subst hji
        have h5 : ¬ (j + 1 ≤ j) := by omega
        by_cases hsu : src = u j <;> simp [hsu, hi, h5]
      · have h4 : (i + 1 ≤ j ∧ j < hgt ∧ src = u j) ↔ (i ≤ j ∧ j < hgt ∧ src = u j) := by
          constructor <;> rintro ⟨a, b, c⟩ <;> exact ⟨by omega, b, c⟩
        simp only [hji, false_and, ↓reduceIte, h4]
    · have hi' : i = hgt := by omega
      subst hi'
      have hc : A.nxt (u i) i ≠ some t := hstop (by omega)
      simp only [unlinkA, hc, ↓reduceIte]
      refine ⟨(by first | rfl | trivial), ?_⟩
      intro src j
      have : ¬ (i ≤ j ∧ j < i ∧ src = u j) := by intro h; omega
      simp [this]

section
variable (htrans : ∀ a b c : K, lt a b = true → lt b c = true → lt a c = true)
variable (hirr : ∀ a : K, lt a a = false)
variable (htot : ∀ a b : K, lt a b = false → lt b a = false → a = b)

/-- lowering `s.level` while the top level is empty keeps it an upper bound of every height -/
theorem lowerLevel_spec {maxLevel : Nat} (A : Arena K) (l : List (Node K))
    (hptr : ∀ i, i < maxLevel → A.nxt none i = (F i l).head?) :
    ∀ lv, 1 ≤ lv → lv ≤ maxLevel → (∀ m ∈ l, m.height ≤ lv) →
      1 ≤ lowerLevel A lv ∧ lowerLevel A lv ≤ maxLevel ∧ ∀ m ∈ l, m.height ≤ lowerLevel A lv := by
  intro lv
  induction lv with
  | zero => intro h; omega
  | succ lv ih =>
    intro h1 h2 h3
    cases lv with
    | zero => exact ⟨Nat.le_refl _, h2, h3⟩
    | succ lv =>
      simp only [lowerLevel]
      split
      · rename_i hnil
        rw [hptr (lv + 1) (by omega)] at hnil
        have hempty : F (lv + 1) l = [] := by
          cases hF : F (lv + 1) l with
          | nil => rfl
          | cons x xs => rw [hF] at hnil; simp at hnil
        apply ih (by omega) (by omega)
        intro m hm
        have := h3 m hm
        by_cases hh : lv + 1 < m.height
        · have : m.entry.key ∈ F (lv + 1) l := mem_F.mpr ⟨m, hm, hh, rfl⟩
          rw [hempty] at this; cases this
        · omega
      · exact ⟨by omega, h2, h3⟩

theorem eraseIdx_split (a : List (Node K)) (n : Node K) (b' : List (Node K)) :
    (a ++ n :: b').eraseIdx a.length = a ++ b' := by
  rw [List.eraseIdx_append_of_length_le (Nat.le_refl _)]
  simp

include htrans hirr htot in
/-- **`Delete` keeps the pointer structure a representation of the tower list** and reports the same result -/
theorem rep_delete {maxLevel : Nat} (hm : 0 < maxLevel) {s : SL K} {l : List (Node K)} (hr : Rep maxLevel s l)
    (hw : WF lt l) (t : K) {fuel : Nat} (hfuel : l.length ≤ fuel) :
    Rep maxLevel (deleteA lt s maxLevel t fuel).1 (Skiplist.delete lt maxLevel l t).1 ∧
    (deleteA lt s maxLevel t fuel).2 = (Skiplist.delete lt maxLevel l t).2 := by
  have hdel : Skiplist.delete lt maxLevel l t = deleteCore l t (cnt lt t l) := by
    have : Skiplist.delete lt maxLevel l t = deleteCore l t (findPos lt maxLevel t l) := rfl
    rw [this, findPos_eq lt htrans maxLevel hm t l hw.sorted hw.heights]
  rw [hdel]
  unfold deleteCore
  rw [get_cnt]
  have hl := below_append_from lt t l
  have hnx0 := next_update lt htrans hirr hr hw t hfuel 0 hm
  have hsubA : ∀ n ∈ below lt t l, n ∈ l := fun n hn => by rw [← hl]; exact List.mem_append_left _ hn
  have hsubB : ∀ n ∈ from' lt t l, n ∈ l := fun n hn => by rw [← hl]; exact List.mem_append_right _ hn
  unfold deleteA
  simp only
  rw [hnx0]
  cases hb : from' lt t l with
  | nil => simp only [F, List.filter_nil, List.map_nil, List.head?_nil]; exact ⟨hr, (by first | rfl | trivial)⟩
  | cons n b' =>
    have hn : n ∈ l := hsubB n (by rw [hb]; simp)
    have h0 : 0 < n.height := hw.heights n hn
    simp only [F_cons, h0, ↓reduceIte, List.head?_cons]
    by_cases hk : n.entry.key = t
    · simp only [hk, ↓reduceIte]
      have hlsplit : l = below lt t l ++ n :: b' := by rw [← hb, hl]
      have herase : l.eraseIdx (cnt lt t l) = below lt t l ++ b' := by
        have := eraseIdx_split (below lt t l) n b'
        rw [← hlsplit, below_length] at this
        exact this
      rw [herase]
      have hsl : SortedN lt (below lt t l ++ n :: b') := by rw [← hlsplit]; exact hw.sorted
      have hsl' : SortedN lt (below lt t l ++ b') := by
        have := List.pairwise_append.mp hsl
        refine List.pairwise_append.mpr ⟨this.1, (List.pairwise_cons.mp this.2.1).2, ?_⟩
        intro x hx y hy
        exact this.2.2 x hx y (List.mem_cons_of_mem _ hy)
      have hsub' : ∀ m ∈ below lt t l ++ b', m ∈ l := by
        intro m hm'
        rcases List.mem_append.mp hm' with hm' | hm'
        · exact hsubA m hm'
        · exact hsubB m (by rw [hb]; exact List.mem_cons_of_mem _ hm')
      have hgt_le : n.height ≤ s.level := hr.lvl n hn
      have hlv := hr.lvl_le
      -- the update array and what follows it, level by level
      have hu : ∀ j, j < maxLevel → updates lt s maxLevel t fuel j = (F j (below lt t l)).getLast? :=
        fun j hj => updates_eq lt htrans hirr hr hw t hfuel j hj
      have hnx : ∀ j, j < maxLevel → s.A.nxt (updates lt s maxLevel t fuel j) j = (F j (n :: b')).head? := by
        intro j hj
        rw [next_update lt htrans hirr hr hw t hfuel j hj, hb]
      have hnotin : ∀ m ∈ b', m.entry.key ≠ t := by
        intro m hm' heq
        have := (List.pairwise_cons.mp (List.pairwise_append.mp hsl).2.1).1 m hm'
        rw [hk, heq, hirr] at this; cases this
      obtain ⟨hnode, hptr⟩ := unlinkA_spec (updates lt s maxLevel t fuel) t n.height s.level 0 s.A (Nat.zero_le _)
        (by omega)
        (by intro j _ hj
            rw [hnx j (by omega), F_cons]
            simp [hj, hk])
        (by intro hh
            rw [hnx n.height (by omega), F_cons]
            simp only [Nat.lt_irrefl, ↓reduceIte]
            intro hhead
            cases hF : F n.height b' with
            | nil => rw [hF] at hhead; simp at hhead
            | cons x xs =>
              rw [hF] at hhead
              simp only [List.head?_cons, Option.some.injEq] at hhead
              have : x ∈ F n.height b' := by rw [hF]; simp
              obtain ⟨m, hm', _, hmk⟩ := mem_F.mp this
              exact hnotin m hm' (hmk.trans hhead))
      have hrep_ptr : ∀ i, i < maxLevel → ∀ src, src ∈ none :: (F i (below lt t l ++ b')).map some →
          (unlinkA s.A (updates lt s maxLevel t fuel) t 0 s.level).nxt src i = succIn (F i (below lt t l ++ b')) src := by
        intro i hi src hsrc
        rw [hptr src i]
        have hsrct : src ≠ some t := by
          intro heq
          rw [heq] at hsrc
          simp only [List.mem_cons, List.mem_map, Option.some.injEq, exists_eq_right, reduceCtorEq, false_or] at hsrc
          obtain ⟨m, hm', _, hmk⟩ := mem_F.mp hsrc
          rcases List.mem_append.mp hm' with hm' | hm'
          · have := below_all_lt lt t l m hm'
            rw [hmk, hirr] at this; cases this
          · exact hnotin m hm' hmk
        by_cases hih : i < n.height
        · have hFl : F i l = F i (below lt t l) ++ t :: F i b' := by
            rw [congrArg (F i) hlsplit, F_append, F_cons]; simp [hih, hk]
          have hnd : (F i (below lt t l) ++ t :: F i b').Nodup := by rw [← hFl]; exact F_nodup lt hirr i hw.sorted
          have hsrcl : src ∈ none :: (F i l).map some := by
            rw [hFl]
            rw [F_append] at hsrc
            simp only [List.mem_cons, List.map_append, List.mem_append, List.map_cons] at hsrc ⊢
            rcases hsrc with h | h | h
            · exact Or.inl h
            · exact Or.inr (Or.inl h)
            · exact Or.inr (Or.inr (Or.inr h))
          rw [F_append, succIn_erase _ _ t hnd src hsrct, hu i hi]
          by_cases h2 : src = (F i (below lt t l)).getLast?
          · simp only [Nat.zero_le, hih, h2, and_self, ↓reduceIte]
            rw [← hFl]
            exact hr.ptr i hi (some t) (by rw [hFl]; simp)
          · simp only [Nat.zero_le, hih, h2, and_false, ↓reduceIte]
            rw [← hFl]
            exact hr.ptr i hi src hsrcl
        · have hFl : F i l = F i (below lt t l ++ b') := by
            rw [congrArg (F i) hlsplit, F_append, F_append, F_cons]; simp [hih]
          simp only [hih, false_and, and_false, ↓reduceIte]
          rw [← hFl] at hsrc ⊢
          exact hr.ptr i hi src hsrc
      have hlow := lowerLevel_spec (maxLevel := maxLevel) (unlinkA s.A (updates lt s maxLevel t fuel) t 0 s.level)
        (below lt t l ++ b') (fun i hi => hrep_ptr i hi none (by simp)) s.level hlv.1 hlv.2
        (fun m hm' => hr.lvl m (hsub' m hm'))
      refine ⟨⟨hrep_ptr, ?_, hlow.2.2, ⟨hlow.1, hlow.2.1⟩⟩, (by first | rfl | trivial)⟩
      intro m hm'
      show (unlinkA s.A (updates lt s maxLevel t fuel) t 0 s.level).node m.entry.key = _
      rw [hnode]
      exact hr.node m (hsub' m hm')
    · simp only [hk, ↓reduceIte]
      exact ⟨hr, (by first | rfl | trivial)⟩

end

end SkipArena
