import Originium.Model.DiskTrace
/-! Recovery (`Open` on a crashed directory): the memtable is rebuilt from every wal record, table
    handles from every published table file, temporary files are ignored, the timestamp counter
    restarts above every stored version.  The recovered state is an ordinary state of the storage
    model (`DB.Inv`), and everything acknowledged is visible. -/
namespace Disk
open Key VKey Table Levels LSM

/-- what `Open` builds from the disk (any block size: handles come from the files' own indexes) -/
def recover (bs : Nat) (d : D) : DB.St :=
  let mem := (allRecs d).foldl insertE []
  { mem := mem, imms := [], flushed := false,
    tables := d.tables.map (fun p => buildTable bs p.2),
    low := 0,
    nextTs := DB.maxTs (mem ++ tableEnts d) + 1,
    committed := mem ++ tableEnts d }

theorem recover_tableEntries (bs : Nat) (d : D) : DB.tableEntries (recover bs d) = tableEnts d := by
  simp only [DB.tableEntries, recover, List.map_map, tableEnts]
  induction d.tables with
  | nil => rfl
  | cons p rest ih =>
    simp only [List.map_cons, List.flatten_cons, List.flatMap_cons, Function.comp, buildTable_entries]
    rw [ih]

theorem recover_present (bs : Nat) (d : D) : DB.present (recover bs d) = (allRecs d).foldl insertE [] ++ tableEnts d := by
  simp only [DB.present, recover_tableEntries]
  simp [recover]

theorem maxTs_attained (es : List E) (hne : es ≠ []) : ∃ e ∈ es, e.key.ts = DB.maxTs es := by
  unfold DB.maxTs
  suffices key : ∀ (es : List E) (m : Nat),
      es.foldl (fun m e => max m e.key.ts) m = m ∨ ∃ e ∈ es, e.key.ts = es.foldl (fun m e => max m e.key.ts) m by
    rcases key es 0 with h | h
    · obtain ⟨e, he⟩ := List.exists_mem_of_ne_nil es hne
      have := DB.maxTs_foldl_mem es 0 e he
      exact ⟨e, he, by omega⟩
    · exact h
  intro es
  induction es with
  | nil => intro m; exact Or.inl rfl
  | cons x xs ih =>
    intro m
    simp only [List.foldl_cons]
    rcases ih (max m x.key.ts) with h | ⟨e, he, het⟩
    · rw [h]
      by_cases hm : x.key.ts ≤ m
      · left; exact Nat.max_eq_left hm
      · right; exact ⟨x, by simp, by rw [Nat.max_eq_right (by omega)]⟩
    · exact Or.inr ⟨e, by simp [he], het⟩

theorem mem_recover_mem {d : D} (hc : Consistent (surviving d)) {e : E} :
    e ∈ (allRecs d).foldl insertE [] ↔ e ∈ allRecs d := by
  constructor
  · intro h
    rcases foldl_insertE_sub _ _ e h with h' | h'
    · exact h'
    · cases h'
  · intro h
    have hc' : Consistent (allRecs d ++ []) := by
      rw [List.append_nil]
      exact consistent_of_sub (fun x hx => surviving_mem.mpr (Or.inl hx)) hc
    exact (foldl_insertE_complete (allRecs d) [] hc').2 e h

/-- the recovered state satisfies the storage invariant: the engine goes on from an ordinary state -/
theorem recover_inv (bs : Nat) {d : D} {acked : List E} {low : Nat} (h : Inv d acked low) (hw : WF d) :
    DB.Inv (recover bs d) := by
  have hmem := @mem_recover_mem d hw.consistent
  have hpres : ∀ e, e ∈ DB.present (recover bs d) ↔ e ∈ surviving d := by
    intro e
    rw [recover_present, List.mem_append, hmem, surviving_mem]
  have hcom : (recover bs d).committed = DB.present (recover bs d) := by rw [recover_present]; rfl
  refine ⟨foldl_insertE_sorted _ [] (by simp [SortedE]), by simp [recover], ?_, ?_, ?_, ?_, ?_, ?_,
    by simp [recover], by simp [recover], by simp [recover], ?_, ?_⟩
  · intro t ht
    simp only [recover, List.mem_map] at ht
    obtain ⟨p, hp, rfl⟩ := ht
    exact ⟨bs, p.2, hw.tables_sorted p hp, rfl⟩
  · rw [hcom]
    exact consistent_of_sub (fun x hx => (hpres x).mp hx) hw.consistent
  · intro e he; rw [hcom]; exact he
  · intro e he; rw [hcom] at he; exact Or.inl he
  · -- generations: [memtable, tables]; a table entry that is in no wal is at most as new as every wal record
    show Gens.Ordered (((allRecs d).foldl insertE [] :: ([] : List (List E)).reverse) ++ [DB.tableEntries (recover bs d)])
    rw [recover_tableEntries]
    refine ⟨?_, by simp [Gens.Ordered]⟩
    intro g' hg' e' he' hn e he
    have hg'' : g' = tableEnts d := by simpa using hg'
    subst hg''
    exact h.order e' he' (fun hh => hn (hmem.mpr hh)) e (hmem.mp he)
  · intro e he
    show e.key.ts < DB.maxTs ((allRecs d).foldl insertE [] ++ tableEnts d) + 1
    have := DB.maxTs_foldl_mem ((allRecs d).foldl insertE [] ++ tableEnts d) 0 e he
    unfold DB.maxTs; omega
  · intro hne
    rw [hcom] at hne
    obtain ⟨e, he, het⟩ := maxTs_attained (DB.present (recover bs d)) hne
    refine ⟨e, he, ?_⟩
    show e.key.ts + 1 = DB.maxTs ((allRecs d).foldl insertE [] ++ tableEnts d) + 1
    rw [het, recover_present]
  · intro he
    show DB.maxTs ((allRecs d).foldl insertE [] ++ tableEnts d) + 1 = 1
    have : (allRecs d).foldl insertE [] ++ tableEnts d = [] := he
    rw [this]; rfl

/-- every entry that was written and kept (in particular every acknowledged one) is visible after
    recovery unless a newer surviving version of the same key replaced it; whatever is visible was
    written by a begun transaction -/
theorem recover_visible (mayContain : TableM → Bytes → Bool)
    (hbloom : ∀ t e, e ∈ t.entries → mayContain t e.key.user = true)
    (bs : Nat) {d : D} {acked : List E} {low : Nat} (h : Inv d acked low) (hw : WF d)
    (e : E) (hk : Kept d low e) (r : Nat) (hr : low ≤ r) (her : e.key.ts ≤ r) :
    ∃ x, DB.get mayContain (recover bs d) e.key.user r = some x ∧ e.key.ts ≤ x.key.ts ∧ x.key.ts ≤ r ∧
      x.key.user = e.key.user ∧ x ∈ surviving d := by
  have hinv := recover_inv bs h hw
  have hmem := @mem_recover_mem d hw.consistent
  rw [DB.get_eq_spec mayContain hbloom hinv e.key.user r (Nat.zero_le _)]
  have hn := newestBrute_newest (recover bs d).committed e.key.user r
  have hcm : ∀ x, x ∈ (recover bs d).committed ↔ x ∈ surviving d := by
    intro x
    show x ∈ (allRecs d).foldl insertE [] ++ tableEnts d ↔ _
    rw [List.mem_append, hmem, surviving_mem]
  -- a witness in the recovered contents that is at least as new as e and not above r
  obtain ⟨y, hy, hyu, hyt, hyr⟩ : ∃ y ∈ (recover bs d).committed, y.key.user = e.key.user ∧ e.key.ts ≤ y.key.ts ∧ y.key.ts ≤ r := by
    rcases hk with h1 | h1 | ⟨e', he', hu, hlt, hle⟩
    · exact ⟨e, (hcm e).mpr (surviving_mem.mpr (Or.inl h1)), rfl, Nat.le_refl _, her⟩
    · exact ⟨e, (hcm e).mpr (surviving_mem.mpr (Or.inr h1)), rfl, Nat.le_refl _, her⟩
    · exact ⟨e', (hcm e').mpr (surviving_mem.mpr (Or.inr he')), hu, by omega, by omega⟩
  cases hres : newestBrute (recover bs d).committed e.key.user r with
  | none =>
    rw [hres] at hn
    have := hn y hy hyu
    omega
  | some x =>
    rw [hres] at hn
    obtain ⟨hxm, hxu, hxr, hxmax⟩ := hn
    exact ⟨x, rfl, by have := hxmax y hy hyu hyr; omega, hxr, hxu, (hcm x).mp hxm⟩

end Disk
