import Originium.Generated.Wal
/-! Tie for the translated `WAL.Write` (`Generated/Wal.lean`, regenerated from /repo on every check): what it does, written out. -/
namespace WalTie

/-- the bytes of a batch: every record is the eight-byte length followed by the marshalled entry, in the order of the batch -/
def batchBytes {ε β : Type} (enc : ε → List β) (len8 : Nat → List β) (entries : List ε) : List β :=
  entries.flatMap fun e => len8 (enc e).length ++ enc e

/-- the staging loop: a marshal failure returns an error with nothing written to the file; otherwise the buffer has grown by
    the records of all the entries, in order -/
theorem stage_loop {ε β : Type} (enc : ε → List β) (len8 : Nat → List β) (mf : ε → Bool)
    (exit : List β → List (String × List β) → Bool × List (String × List β)) (entries : List ε) (buf : List β)
    (ev : List (String × List β)) :
    List.foldr (fun entry kont1 => fun (buf : List β) (ev : List (String × List β)) =>
        if mf entry = true then (false, ev) else kont1 (buf ++ len8 (enc entry).length ++ enc entry) ev) exit entries buf ev =
      if entries.any mf then (false, ev) else exit (buf ++ batchBytes enc len8 entries) ev := by
  induction entries generalizing buf with
  | nil => simp [batchBytes]
  | cons e es ih =>
    simp only [List.foldr_cons, List.any_cons, batchBytes, List.flatMap_cons] at ih ⊢
    cases hm : mf e
    · simp only [Bool.false_eq_true, ↓reduceIte, Bool.false_or]
      rw [ih]
      simp [List.append_assoc]
    · simp

/-- the translated `WAL.Write`, as a table.  When it returns nil (first component `true`) the file has seen, in this order, one
    seek to the end, ONE write carrying the records of all the entries of the batch, and one fsync; when the write or the
    fsync fails, or an entry cannot be marshalled, or the wal was deleted, an error is returned -/
theorem write_table {ε β : Type} (enc : ε → List β) (len8 : Nat → List β) (nilFD sf : Bool) (mf : ε → Bool) (wf syf : Bool)
    (entries : List ε) :
    GenWal.write enc len8 nilFD sf mf wf syf entries [] =
      if nilFD then (false, [("w.mu.Lock", [])])
      else if sf then (false, [("w.mu.Lock", []), ("seek to the end", [])])
      else if entries.any mf then (false, [("w.mu.Lock", []), ("seek to the end", [])])
      else if wf then (false, [("w.mu.Lock", []), ("seek to the end", []), ("write", batchBytes enc len8 entries)])
      else if syf then (false, [("w.mu.Lock", []), ("seek to the end", []), ("write", batchBytes enc len8 entries), ("fsync", [])])
      else (true, [("w.mu.Lock", []), ("seek to the end", []), ("write", batchBytes enc len8 entries), ("fsync", [])]) := by
  unfold GenWal.write
  simp only [Bool.false_eq_true, ↓reduceIte]
  rw [stage_loop]
  generalize entries.any mf = a
  cases nilFD <;> cases sf <;> cases a <;> cases wf <;> cases syf <;> simp

/-- acknowledged ⇒ exactly one write with the whole batch, then an fsync -/
theorem write_ack {ε β : Type} (enc : ε → List β) (len8 : Nat → List β) (nilFD sf : Bool) (mf : ε → Bool) (wf syf : Bool)
    (entries : List ε) (h : (GenWal.write enc len8 nilFD sf mf wf syf entries []).1 = true) :
    (GenWal.write enc len8 nilFD sf mf wf syf entries []).2 =
      [("w.mu.Lock", []), ("seek to the end", []), ("write", batchBytes enc len8 entries), ("fsync", [])] := by
  rw [write_table] at h ⊢
  generalize entries.any mf = a at h ⊢
  cases nilFD <;> cases sf <;> cases a <;> cases wf <;> cases syf <;> simp_all

/-- whatever fails, the file is written at most once, and then with the records of the whole batch -/
theorem write_once {ε β : Type} (enc : ε → List β) (len8 : Nat → List β) (nilFD sf : Bool) (mf : ε → Bool) (wf syf : Bool)
    (entries : List ε) :
    ((GenWal.write enc len8 nilFD sf mf wf syf entries []).2.filter (fun e => e.1 == "write")) = [] ∨
    ((GenWal.write enc len8 nilFD sf mf wf syf entries []).2.filter (fun e => e.1 == "write")) =
      [("write", batchBytes enc len8 entries)] := by
  rw [write_table]
  generalize entries.any mf = a
  cases nilFD <;> cases sf <;> cases a <;> cases wf <;> cases syf <;> simp [List.filter]

/-! ### `WAL.Read` -/

/-- what the translated reader assumes of the codec functions it is given -/
structure CodecOK {ε β : Type} (enc : ε → List β) (len8 : Nat → List β) (dec8 : List β → Int) (unm : List β → Option ε) : Prop where
  len8_len : ∀ n, (len8 n).length = 8
  dec8_len8 : ∀ n rest, n < 2 ^ 63 → dec8 (len8 n ++ rest) = (n : Int)
  unm_enc : ∀ e, unm (enc e) = some e

/-- one complete record is read and the loop goes on behind it -/
theorem loop_record {ε β : Type} {enc : ε → List β} {len8 : Nat → List β} {dec8 : List β → Int} {unm : List β → Option ε}
    (hc : CodecOK enc len8 dec8 unm) (dflt : ε) (e : ε) (hs : (enc e).length < 2 ^ 63) (rest : List β) (entries : List ε) (fuel : Nat) :
    GenWal.read.loop1 dec8 unm dflt (fun _ entries => some entries) (fuel + 1) (len8 (enc e).length ++ enc e ++ rest) entries =
      GenWal.read.loop1 dec8 unm dflt (fun _ entries => some entries) fuel rest (entries ++ [e]) := by
  have h8 := hc.len8_len (enc e).length
  have hd : dec8 (len8 (enc e).length ++ enc e ++ rest) = ((enc e).length : Int) := by
    rw [List.append_assoc]; exact hc.dec8_len8 _ _ hs
  have hdrop : (len8 (enc e).length ++ enc e ++ rest).drop 8 = enc e ++ rest := by
    rw [List.append_assoc, List.drop_append_of_le_length (by omega), ← h8, List.drop_length, List.nil_append]
  rw [GenWal.read.loop1]
  simp only [hd, hdrop, List.length_append, h8, Bool.false_eq_true, ↓reduceIte, Int.toNat_natCast, List.take_left', List.drop_left',
    hc.unm_enc, Option.isNone_some, Option.getD_some]
  have h1 : decide (0 < 8 + (enc e).length + rest.length) = true := decide_eq_true (by omega)
  have h2 : decide (8 + (enc e).length + rest.length < 8) = false := decide_eq_false (by omega)
  have h3 : (decide (((enc e).length : Int) < 0) || decide ((((enc e).length + rest.length : Nat) : Int) < ((enc e).length : Int))) = false := by
    simp only [Bool.or_eq_false_iff, decide_eq_false_iff_not]
    omega
  rw [h1, h2, h3]
  rfl

/-- `cut` is what a crash may leave of a record: a proper prefix of its bytes (possibly nothing) -/
def Torn {ε β : Type} (enc : ε → List β) (len8 : Nat → List β) (cut : List β) : Prop :=
  cut = [] ∨ ∃ e suffix, suffix ≠ [] ∧ (enc e).length < 2 ^ 63 ∧ cut ++ suffix = len8 (enc e).length ++ enc e

/-- at a torn tail the loop stops and keeps what it has read -/
theorem loop_torn {ε β : Type} {enc : ε → List β} {len8 : Nat → List β} {dec8 : List β → Int} {unm : List β → Option ε}
    (hc : CodecOK enc len8 dec8 unm) (dflt : ε) (cut : List β) (ht : Torn enc len8 cut) (entries : List ε) (fuel : Nat) :
    GenWal.read.loop1 dec8 unm dflt (fun _ entries => some entries) (fuel + 1) cut entries = some entries := by
  rw [GenWal.read.loop1]
  rcases ht with rfl | ⟨e, suffix, hne, hs, heq⟩
  · simp
  · by_cases hpos : 0 < cut.length
    · simp only [hpos, decide_true, ↓reduceIte]
      by_cases h8 : cut.length < 8
      · simp [h8]
      · simp only [h8, decide_false, Bool.false_eq_true, ↓reduceIte]
        have hl := hc.len8_len (enc e).length
        have htake : cut.take 8 = len8 (enc e).length := by
          have := congrArg (List.take 8) heq
          rw [List.take_append_of_le_length (by omega), List.take_append_of_le_length (by omega), ← hl, List.take_length] at this
          rw [hl] at this
          exact this
        have hcut : cut = len8 (enc e).length ++ cut.drop 8 := by
          conv => lhs; rw [← List.take_append_drop 8 cut, htake]
        have hdropeq : cut.drop 8 ++ suffix = enc e := by
          have := congrArg (List.drop 8) heq
          rw [List.drop_append_of_le_length (by omega), List.drop_append_of_le_length (by omega), ← hl, List.drop_length, List.nil_append] at this
          rw [hl] at this
          exact this
        have hshort : (cut.drop 8).length < (enc e).length := by
          have := congrArg List.length hdropeq
          have hsl : 0 < suffix.length := List.length_pos_iff.mpr hne
          simp only [List.length_append] at this
          omega
        have hd : dec8 cut = ((enc e).length : Int) := by rw [hcut]; exact hc.dec8_len8 _ _ hs
        rw [hd]
        have : (decide (((enc e).length : Int) < 0) || decide (((cut.drop 8).length : Int) < ((enc e).length : Int))) = true := by
          simp only [Bool.or_eq_true, decide_eq_true_eq]
          right; omega
        rw [if_pos this]
    · have : cut = [] := List.eq_nil_of_length_eq_zero (by omega)
      subst this
      simp

theorem loop_records {ε β : Type} {enc : ε → List β} {len8 : Nat → List β} {dec8 : List β → Int} {unm : List β → Option ε}
    (hc : CodecOK enc len8 dec8 unm) (dflt : ε) (es : List ε) (hs : ∀ e ∈ es, (enc e).length < 2 ^ 63) (cut : List β)
    (ht : Torn enc len8 cut) (entries : List ε) (fuel : Nat) (hf : es.length < fuel) :
    GenWal.read.loop1 dec8 unm dflt (fun _ entries => some entries) fuel (batchBytes enc len8 es ++ cut) entries = some (entries ++ es) := by
  induction es generalizing entries fuel with
  | nil =>
    obtain ⟨f, rfl⟩ : ∃ f, fuel = f + 1 := ⟨fuel - 1, by simp at hf; omega⟩
    simp only [batchBytes, List.flatMap_nil, List.nil_append, List.append_nil]
    exact loop_torn hc dflt cut ht entries f
  | cons e es ih =>
    obtain ⟨f, rfl⟩ : ∃ f, fuel = f + 1 := ⟨fuel - 1, by simp at hf; omega⟩
    have : batchBytes enc len8 (e :: es) ++ cut = len8 (enc e).length ++ enc e ++ (batchBytes enc len8 es ++ cut) := by
      simp [batchBytes, List.append_assoc]
    rw [this, loop_record hc dflt e (hs e (by simp)) _ entries f]
    rw [ih (fun x hx => hs x (by simp [hx])) (entries ++ [e]) f (by simp at hf; omega)]
    simp

theorem batchBytes_length_ge {ε β : Type} (enc : ε → List β) (len8 : Nat → List β) (h8 : ∀ n, (len8 n).length = 8) (es : List ε) :
    es.length ≤ (batchBytes enc len8 es).length := by
  induction es with
  | nil => simp [batchBytes]
  | cons e es ih =>
    simp only [batchBytes, List.flatMap_cons, List.length_append, List.length_cons, h8] at ih ⊢
    omega

/-- **what `WAL.Write` wrote, `WAL.Read` reads back — also when the file ends in a torn record.**  The file holds the records
    of `es` (any number of batches, `batchBytes` of their concatenation) followed by `cut`, a proper prefix of one more record
    or nothing: the translated `Read` returns exactly `es`, no error -/
theorem read_back {ε β : Type} {enc : ε → List β} {len8 : Nat → List β} {dec8 : List β → Int} {unm : List β → Option ε}
    (hc : CodecOK enc len8 dec8 unm) (dflt : ε) (es : List ε) (hs : ∀ e ∈ es, (enc e).length < 2 ^ 63) (cut : List β)
    (ht : Torn enc len8 cut) :
    GenWal.read dec8 unm dflt false false false false (batchBytes enc len8 es ++ cut) = some es := by
  unfold GenWal.read
  simp only [Bool.false_eq_true, ↓reduceIte]
  by_cases h0 : (batchBytes enc len8 es ++ cut).length = 0
  · simp only [h0, decide_true, ↓reduceIte]
    have hb : es.length ≤ (batchBytes enc len8 es).length := batchBytes_length_ge enc len8 hc.len8_len es
    have : es.length = 0 := by simp only [List.length_append] at h0; omega
    rw [List.eq_nil_of_length_eq_zero this]
  · simp only [h0, decide_false, Bool.false_eq_true, ↓reduceIte]
    have hb : es.length ≤ (batchBytes enc len8 es).length := batchBytes_length_ge enc len8 hc.len8_len es
    have := loop_records hc dflt es hs cut ht [] ((batchBytes enc len8 es ++ cut).length + 1)
      (by simp only [List.length_append]; omega)
    simpa using this

/-- `Read` on a wal that was deleted, or whose file cannot be read, is an error (the caller panics): nothing is invented -/
theorem read_errors {ε β : Type} (dec8 : List β → Int) (unm : List β → Option ε) (dflt : ε) (st sk rd : Bool) (file : List β) :
    GenWal.read dec8 unm dflt true st sk rd file = none ∧ GenWal.read dec8 unm dflt false true sk rd file = none := by
  constructor <;> (unfold GenWal.read; simp)

end WalTie
