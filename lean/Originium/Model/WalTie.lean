import Originium.Generated.Wal
/-! Tie for the translated `WAL.Write` (`Generated/Wal.lean`, regenerated from /repo on every check): what it does, written out. -/
namespace WalTie

/-- the bytes of a batch: every record is the eight-byte length followed by the marshalled entry, in the order of the batch -/
def batchBytes {ε β : Type} (enc : ε → List β) (len8 : Nat → List β) (entries : List ε) : List β :=
  entries.flatMap fun e => len8 (enc e).length ++ enc e

/-- the staging loop: a marshal failure returns an error with nothing written to the file; otherwise the buffer has grown by
    the records of all the entries, in order -/
theorem stage_loop {ε β : Type} (enc : ε → List β) (len8 : Nat → List β) (mf : ε → Bool)
    (exit : List β → List (String × List β) → Bool × List (String × List β)) (entries : List ε) (buf : List β)
    (ev : List (String × List β)) :
    List.foldr (fun entry kont1 => fun (buf : List β) (ev : List (String × List β)) =>
        if mf entry = true then (false, ev) else kont1 (buf ++ len8 (enc entry).length ++ enc entry) ev) exit entries buf ev =
      if entries.any mf then (false, ev) else exit (buf ++ batchBytes enc len8 entries) ev := by
  induction entries generalizing buf with
  | nil => simp [batchBytes]
  | cons e es ih =>
    simp only [List.foldr_cons, List.any_cons, batchBytes, List.flatMap_cons] at ih ⊢
    cases hm : mf e
    · simp only [Bool.false_eq_true, ↓reduceIte, Bool.false_or]
      rw [ih]
      simp [List.append_assoc]
    · simp

/-- the translated `WAL.Write`, as a table.  When it returns nil (first component `true`) the file has seen, in this order, one
    seek to the end, ONE write carrying the records of all the entries of the batch, and one fsync; when the write or the
    fsync fails, or an entry cannot be marshalled, or the wal was deleted, an error is returned -/
theorem write_table {ε β : Type} (enc : ε → List β) (len8 : Nat → List β) (nilFD sf : Bool) (mf : ε → Bool) (wf syf : Bool)
    (entries : List ε) :
    GenWal.write enc len8 nilFD sf mf wf syf entries [] =
      if nilFD then (false, [("w.mu.Lock", [])])
      else if sf then (false, [("w.mu.Lock", []), ("seek to the end", [])])
      else if entries.any mf then (false, [("w.mu.Lock", []), ("seek to the end", [])])
      else if wf then (false, [("w.mu.Lock", []), ("seek to the end", []), ("write", batchBytes enc len8 entries)])
      else if syf then (false, [("w.mu.Lock", []), ("seek to the end", []), ("write", batchBytes enc len8 entries), ("fsync", [])])
      else (true, [("w.mu.Lock", []), ("seek to the end", []), ("write", batchBytes enc len8 entries), ("fsync", [])]) := by
  unfold GenWal.write
  simp only [Bool.false_eq_true, ↓reduceIte]
  rw [stage_loop]
  generalize entries.any mf = a
  cases nilFD <;> cases sf <;> cases a <;> cases wf <;> cases syf <;> simp

/-- acknowledged ⇒ exactly one write with the whole batch, then an fsync -/
theorem write_ack {ε β : Type} (enc : ε → List β) (len8 : Nat → List β) (nilFD sf : Bool) (mf : ε → Bool) (wf syf : Bool)
    (entries : List ε) (h : (GenWal.write enc len8 nilFD sf mf wf syf entries []).1 = true) :
    (GenWal.write enc len8 nilFD sf mf wf syf entries []).2 =
      [("w.mu.Lock", []), ("seek to the end", []), ("write", batchBytes enc len8 entries), ("fsync", [])] := by
  rw [write_table] at h ⊢
  generalize entries.any mf = a at h ⊢
  cases nilFD <;> cases sf <;> cases a <;> cases wf <;> cases syf <;> simp_all

/-- whatever fails, the file is written at most once, and then with the records of the whole batch -/
theorem write_once {ε β : Type} (enc : ε → List β) (len8 : Nat → List β) (nilFD sf : Bool) (mf : ε → Bool) (wf syf : Bool)
    (entries : List ε) :
    ((GenWal.write enc len8 nilFD sf mf wf syf entries []).2.filter (fun e => e.1 == "write")) = [] ∨
    ((GenWal.write enc len8 nilFD sf mf wf syf entries []).2.filter (fun e => e.1 == "write")) =
      [("write", batchBytes enc len8 entries)] := by
  rw [write_table]
  generalize entries.any mf = a
  cases nilFD <;> cases sf <;> cases a <;> cases wf <;> cases syf <;> simp [List.filter]

end WalTie
