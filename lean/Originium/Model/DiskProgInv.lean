import Originium.Model.DiskProg
/-! Invariant of the file-system program (`DiskProg`): the rule-book invariants (`Inv`, `WF`), the
    shape of the wal files while the engine runs, and one assertion per program counter. -/
namespace Prog
open Key VKey Table Levels LSM Disk

/-- the part of `TInv` that survives the loss of unsynced tails -/
def Core (t : TSt) : Prop := Inv t.d t.acked t.low ∧ WF t.d

/-- wal files of a running engine: the queued immutables and the active one, older files hold
    strictly older versions, everything is fsynced except a batch being committed -/
structure RS (d : D) (m : Mem) : Prop where
  ids : ∀ w ∈ d.wals, w.id ∈ m.imms ∨ m.active = some w.id
  act_ex : ∀ a, m.active = some a → ∃ w ∈ d.wals, w.id = a
  imms_sorted : m.imms.Pairwise (· < ·)
  imms_lt : ∀ a, m.active = some a → ∀ i ∈ m.imms, i < a
  imms_next : ∀ i ∈ m.imms, i < m.nextWal
  act_next : ∀ a, m.active = some a → a < m.nextWal
  age : ∀ a ∈ d.wals, ∀ b ∈ d.wals, a.id < b.id → ∀ x ∈ a.recs, ∀ y ∈ b.recs, x.key.ts < y.key.ts
  ts : ∀ e ∈ surviving d, e.key.ts < m.nextTs
  sync : ∀ w ∈ d.wals, w.synced = w.recs.length ∨ (m.active = some w.id ∧ ∃ b, m.c = .commit b false)

def TmpIs (d : D) (n : Nat) (es : List E) (sy : Bool) : Prop :=
  ∃ t, d.tmps.find? (·.name = n) = some t ∧ t.ents = es ∧ (sy = true → t.synced = true)

/-- the flushed table holds exactly the records of the wal, sorted -/
def FlushOK (d : D) (w : Nat) (es : List E) : Prop :=
  SortedE vlt es ∧ (∀ e ∈ es, e ∈ recsOf d w) ∧ ∀ e ∈ recsOf d w, e ∈ es

def ShadowedBy (es : List E) (low : Nat) (e : E) : Prop :=
  ∃ e' ∈ es, e'.key.user = e.key.user ∧ e.key.ts < e'.key.ts ∧ e'.key.ts ≤ low

/-- the compaction output: sorted, taken from published tables, covers or shadows every input entry -/
def CompOK (d : D) (low : Nat) (ins : List Nat) (es : List E) : Prop :=
  SortedE vlt es ∧ (∀ e ∈ es, e ∈ tableEnts d) ∧
  ∀ s ∈ ins, ∀ p ∈ d.tables, p.1 = s → ∀ e ∈ p.2, e ∈ es ∨ ShadowedBy es low e

/-- inputs still on disk are covered or shadowed by the published output `n` -/
def RemOK (d : D) (low : Nat) (rest : List Nat) (n : Nat) : Prop :=
  ∀ s ∈ rest, ∀ p ∈ d.tables, p.1 = s → ∀ e ∈ p.2,
    ∃ q ∈ d.tables, q.1 = n ∧ (e ∈ q.2 ∨ ShadowedBy q.2 low e)

/-- assertion of the flusher's program counter -/
def FA (d : D) (low : Nat) (m : Mem) : Prop :=
  match m.f with
  | .idle => True
  | .f1 w n => m.imms.head? = some w ∧ noTable d n ∧ TmpIs d n [] false
  | .f2 w n => m.imms.head? = some w ∧ noTable d n ∧ ∃ es, TmpIs d n es false ∧ FlushOK d w es
  | .f3 w n => m.imms.head? = some w ∧ noTable d n ∧ ∃ es, TmpIs d n es true ∧ FlushOK d w es
  | .f4 w _ => m.imms.head? = some w ∧ ∀ e ∈ recsOf d w, e ∈ tableEnts d
  | .c0 ins n => n ∉ ins ∧ noTable d n
  | .c1 ins n => n ∉ ins ∧ noTable d n
  | .c2 ins n => n ∉ ins ∧ noTable d n ∧ TmpIs d n [] false
  | .c3 ins n => n ∉ ins ∧ noTable d n ∧ ∃ es, TmpIs d n es false ∧ CompOK d low ins es
  | .c4 ins n => n ∉ ins ∧ noTable d n ∧ ∃ es, TmpIs d n es true ∧ CompOK d low ins es
  | .remove rest n => n ∉ rest ∧ RemOK d low rest n

/-- `Open`'s wal replay: `new` collects the records of the older wals -/
structure OpenA (d : D) (new w : Nat) (rs : List E) (ws : List Nat) (sy : Bool) : Prop where
  ex : ∃ wn ∈ d.wals, wn.id = new
  ids : ∀ w' ∈ d.wals, w'.id = new ∨ w'.id = w ∨ w'.id ∈ ws
  ne : new ≠ w ∧ new ∉ ws
  sy : sy = true → ∀ w' ∈ d.wals, w'.id = new → w'.synced = w'.recs.length
  done : ∀ w' ∈ d.wals, w'.id = w → ∀ e ∈ w'.recs, e ∈ rs ∨ ∃ wn ∈ d.wals, wn.id = new ∧ e ∈ wn.recs
  sub : ∀ r ∈ rs, r ∈ allRecs d

/-- assertion of the foreground program counter -/
def CA (d : D) (m : Mem) : Prop :=
  match m.c with
  | .down => m.f = .idle
  | .ordered _ => m.f = .idle
  | .idle => RS d m ∧ ∃ a, m.active = some a
  | .commit b false => RS d m ∧ ∃ a, m.active = some a ∧
      ∀ e ∈ b, (∃ w ∈ d.wals, w.id = a ∧ e ∈ w.recs) ∧ m.nextTs ≤ e.key.ts + 1
  -- (after a rotation a fast flusher may have moved the batch into a table before the acknowledgement)
  | .commit b true => RS d m ∧ (∃ a, m.active = some a) ∧
      ∀ e ∈ b, (e ∈ syncedRecs d ∨ e ∈ tableEnts d) ∧ m.nextTs ≤ e.key.ts + 1
  | .closing => RS d m ∧ m.active = none ∧ ∃ w n, m.imms = [w] ∧ (m.f = .f1 w n ∨ m.f = .f2 w n ∨ m.f = .f3 w n ∨ m.f = .f4 w n)
  | .openRec new w rs ws sy => m.f = .idle ∧ OpenA d new w rs ws sy
  | .openTmp new _ => m.f = .idle ∧ (∃ wn ∈ d.wals, wn.id = new) ∧ ∀ w' ∈ d.wals, w'.id = new ∧ w'.synced = w'.recs.length

structure PInv (s : PSt) : Prop where
  core : Core s.t
  idsLt : ∀ w ∈ s.t.d.wals, w.id < s.m.nextWal
  ca : CA s.t.d s.m
  fa : FA s.t.d s.t.low s.m

/-! ### basic facts -/

theorem mem_recsOf {d : D} {id : Nat} {e : E} : e ∈ recsOf d id ↔ ∃ w ∈ d.wals, w.id = id ∧ e ∈ w.recs := by
  simp only [recsOf, List.mem_flatMap, List.mem_filter, decide_eq_true_eq]
  constructor
  · rintro ⟨w, ⟨hw, hid⟩, he⟩; exact ⟨w, hw, hid, he⟩
  · rintro ⟨w, hw, hid, he⟩; exact ⟨w, ⟨hw, hid⟩, he⟩

theorem acceptOp_eq {t : TSt} {o : Op} (g : Guard t.d t.low o) (gw : GuardWF t.d o) :
    accept t (.op o) = some { t with d := apply t.d o } := by
  simp only [accept]; rw [if_pos ⟨g, gw⟩]

theorem accept_op_d {t t' : TSt} {o : Op} (h : accept t (.op o) = some t') :
    t' = { t with d := apply t.d o } := by
  simp only [accept] at h
  split at h
  · simp only [Option.some.injEq] at h; exact h.symm
  · cases h

/-- `Inv` and `WF` are kept by every accepted event (the part of `tinv_accept` that does not
    mention the ghost batches) -/
theorem core_accept {t t' : TSt} (h : Core t) (ev : Ev) (hs : accept t ev = some t') : Core t' := by
  obtain ⟨hinv, hwf⟩ := h
  cases ev with
  | ack b =>
    simp only [accept] at hs
    split at hs
    · rename_i hg
      simp only [Option.some.injEq] at hs; subst hs
      exact ⟨inv_ack hinv b hg, hwf⟩
    · cases hs
  | raise low =>
    simp only [accept] at hs
    split at hs
    · rename_i hl
      simp only [Option.some.injEq] at hs; subst hs
      exact ⟨inv_low hinv low hl, hwf⟩
    · cases hs
  | commit id b =>
    simp only [accept] at hs
    split at hs
    · rename_i hg
      obtain ⟨g, ⟨hfresh, hnodup⟩, w0, hw0, hid0⟩ := hg
      simp only [Option.some.injEq] at hs; subst hs
      have hsub : ∀ e ∈ surviving (apply t.d (.walAppend id b)), e ∈ surviving t.d ∨ e ∈ b := by
        intro e he
        rcases surviving_apply_sub t.d t.low _ g he with h1 | ⟨_, _, heq, hb⟩
        · exact Or.inl h1
        · injection heq with _ h2; rw [h2]; exact Or.inr hb
      refine ⟨inv_apply hinv _ g, ⟨hwf.tables_sorted, ?_⟩⟩
      intro a ha c hc hac
      rcases hsub a ha with ha' | ha' <;> rcases hsub c hc with hc' | hc'
      · exact hwf.consistent a ha' c hc' hac
      · have := hfresh c hc' a ha'; rw [hac] at this; omega
      · have := hfresh a ha' c hc'; rw [hac] at this; omega
      · exact DB.nodup_map_inj (·.key) b hnodup a ha' c hc' hac
    · cases hs
  | op o =>
    simp only [accept] at hs
    split at hs
    · rename_i hg
      obtain ⟨g, gwf⟩ := hg
      simp only [Option.some.injEq] at hs; subst hs
      have hsub : ∀ e ∈ surviving (apply t.d o), e ∈ surviving t.d := by
        intro e he
        rcases surviving_apply_sub t.d t.low o g he with h1 | ⟨id, b, heq, hb⟩
        · exact h1
        · subst heq; exact gwf e hb
      refine ⟨inv_apply hinv o g, ⟨?_, consistent_of_sub hsub hwf.consistent⟩⟩
      intro p hp
      cases o with
      | publish n =>
        simp only [GuardWF] at gwf
        simp only [apply] at hp
        split at hp
        · rename_i t0 hf
          rw [hf] at gwf
          simp only [List.mem_append, List.mem_singleton] at hp
          rcases hp with hp | rfl
          · exact hwf.tables_sorted p hp
          · exact gwf
        · exact hwf.tables_sorted p hp
      | tableRemove n =>
        simp only [apply, List.mem_filter] at hp
        exact hwf.tables_sorted p hp.1
      | walCreate id => exact hwf.tables_sorted p hp
      | walAppend id b => exact hwf.tables_sorted p hp
      | walSync id => exact hwf.tables_sorted p hp
      | tmpCreate n => exact hwf.tables_sorted p hp
      | tmpWrite n es => exact hwf.tables_sorted p hp
      | tmpSync n => exact hwf.tables_sorted p hp
      | tmpRemove n => exact hwf.tables_sorted p hp
      | walRemove id => exact hwf.tables_sorted p hp
    · cases hs

theorem core_of_tinv {t : TSt} (h : TInv t) : Core t := ⟨h.inv, h.wf⟩

/-- a cut keeps `Inv` and `WF` -/
theorem core_cut {t : TSt} {d' : D} (h : Core t) (hc : CutOf t.d d') : Core { t with d := d' } := by
  obtain ⟨hinv, hwf⟩ := h
  refine ⟨inv_cut hinv hc, ?_⟩
  obtain ⟨htab, hlen, hw⟩ := hc
  have hall : ∀ e, e ∈ allRecs d' → e ∈ allRecs t.d := by
    intro e he
    obtain ⟨w, hwm, hew⟩ := mem_allRecs.mp he
    obtain ⟨i, hi, rfl⟩ := List.getElem_of_mem hwm
    obtain ⟨_, _, n, _, hr⟩ := hw i (by omega) hi
    rw [hr] at hew
    exact mem_allRecs.mpr ⟨t.d.wals[i]'(by omega), List.getElem_mem _, List.mem_of_mem_take hew⟩
  refine ⟨?_, ?_⟩
  · intro p hp; exact hwf.tables_sorted p (htab ▸ hp)
  · apply consistent_of_sub _ hwf.consistent
    intro e he
    rcases surviving_mem.mp he with h1 | h1
    · exact surviving_mem.mpr (Or.inl (hall e h1))
    · exact surviving_mem.mpr (Or.inr (by simpa [tableEnts, htab] using h1))

end Prog
