import Originium.Model.DB
/-! Invariant of the storage model and the read theorem behind C01 / C02 / C05. -/
namespace DB
open Key VKey Table Levels Compact LSM Gens

/-! ### ordered generations -/

theorem ordered_append_singleton_mono {gens : List (List E)} {T T' : List E}
    (h : Ordered (gens ++ [T])) (hsub : ∀ e ∈ T', e ∈ T) : Ordered (gens ++ [T']) := by
  induction gens with
  | nil => simp [Ordered]
  | cons g rest ih =>
    obtain ⟨h1, h2⟩ := h
    refine ⟨?_, ih h2⟩
    intro g' hg' e' he' hn e he
    rcases List.mem_append.mp hg' with hg' | hg'
    · exact h1 g' (List.mem_append.mpr (Or.inl hg')) e' he' hn e he
    · simp only [List.mem_singleton] at hg'
      subst hg'
      exact h1 T (by simp) e' (hsub e' he') hn e he

theorem ordered_sublist {L L' : List (List E)} (h : Ordered L) (hs : L'.Sublist L) : Ordered L' := by
  induction hs with
  | slnil => trivial
  | cons a _ ih => exact ih h.2
  | cons_cons a hs' ih =>
    refine ⟨?_, ih h.2⟩
    intro g' hg' e' he' hn e he
    exact h.1 g' (hs'.subset hg') e' he' hn e he

/-- the flusher copies the oldest immutable `g` into the tables: duplicates do not disturb the order -/
theorem ordered_flush_add {gens : List (List E)} {g T : List E} (h : Ordered (gens ++ [g, T])) :
    Ordered (gens ++ [g, T ++ g]) := by
  induction gens with
  | nil =>
    obtain ⟨h1, h2⟩ := h
    refine ⟨?_, by simp [Ordered]⟩
    intro g' hg' e' he' hn e he
    simp only [List.mem_singleton] at hg'
    subst hg'
    rcases List.mem_append.mp he' with he' | he'
    · exact h1 T (by simp) e' he' hn e he
    · exact absurd he' hn
  | cons g0 rest ih =>
    obtain ⟨h1, h2⟩ := h
    refine ⟨?_, ih h2⟩
    intro g' hg' e' he' hn e he
    rcases List.mem_append.mp hg' with hg' | hg'
    · exact h1 g' (List.mem_append.mpr (Or.inl hg')) e' he' hn e he
    · simp only [List.mem_cons, List.not_mem_nil, or_false] at hg'
      rcases hg' with hg' | hg'
      · subst hg'; exact h1 g' (by simp) e' he' hn e he
      · subst hg'
        rcases List.mem_append.mp he' with he' | he'
        · exact h1 T (by simp) e' he' hn e he
        · exact h1 g (by simp) e' he' hn e he

/-! ### first hit over memtables, then the tables -/

theorem firstHit_then_newest (look : List E → Option E) (k : Bytes) (r : Nat) (gens : List (List E))
    (T : List E) (tres : Option E)
    (hlook : ∀ g ∈ gens, IsNewest g k r (look g)) (ht : IsNewest T k r tres) (hord : Ordered (gens ++ [T])) :
    IsNewest (gens ++ [T]).flatten k r (match firstHit look gens with | some x => some x | none => tres) := by
  induction gens with
  | nil => simpa [firstHit] using ht
  | cons g rest ih =>
    have hg : IsNewest g k r (look g) := hlook g (by simp)
    have hrest := ih (fun g' hg' => hlook g' (by simp [hg'])) hord.2
    simp only [firstHit, List.cons_append, List.flatten_cons]
    cases hl : look g with
    | none =>
      rw [hl] at hg
      have := better_newest hg hrest
      simp only
      cases hr : (match firstHit look rest with | some x => some x | none => tres) with
      | none => rw [hr] at this; simpa [better] using this
      | some y => rw [hr] at this; simpa [better] using this
    | some x =>
      rw [hl] at hg
      obtain ⟨hxm, hxu, hxr, hxmax⟩ := hg
      refine ⟨List.mem_append.mpr (Or.inl hxm), hxu, hxr, ?_⟩
      intro e' he' hu' hr'
      rcases List.mem_append.mp he' with h | h
      · exact hxmax e' h hu' hr'
      · obtain ⟨g', hg', heg'⟩ := List.mem_flatten.mp h
        by_cases hin : e' ∈ g
        · exact hxmax e' hin hu' hr'
        · exact hord.1 g' hg' e' heg' hin x hxm

/-! ### the invariant -/

/-- `e` is in `T` or shadowed there by a newer version at or below `low` -/
def Covered (low : Nat) (T : List E) (e : E) : Prop :=
  e ∈ T ∨ ∃ e' ∈ T, e'.key.user = e.key.user ∧ e.key.ts < e'.key.ts ∧ e'.key.ts ≤ low

structure Inv (s : St) : Prop where
  memSorted : SortedE vlt s.mem
  immsSorted : ∀ g ∈ s.imms, SortedE vlt g
  built : ∀ t ∈ s.tables, Built t
  cons : Consistent s.committed
  sub : ∀ e ∈ present s, e ∈ s.committed
  shadowed : ∀ e ∈ s.committed, Covered s.low (present s) e
  ordered : Ordered ((s.mem :: s.imms.reverse) ++ [tableEntries s])
  tsBound : ∀ e ∈ s.committed, e.key.ts < s.nextTs
  flushedCov : s.flushed = true → ∀ g, s.imms.head? = some g → ∀ e ∈ g, Covered s.low (tableEntries s) e
  flushedImms : s.flushed = true → s.imms ≠ []
  lowBound : s.low < s.nextTs
  maxPresent : s.committed ≠ [] → ∃ e ∈ present s, e.key.ts + 1 = s.nextTs
  emptyTs : s.committed = [] → s.nextTs = 1

theorem inv_init : Inv init := by
  refine ⟨by simp [init, SortedE], by simp [init], by simp [init], by simp [init, Consistent], ?_, by simp [init],
    by simp [init, tableEntries, Ordered], by simp [init], by simp [init], by simp [init], by simp [init], by simp [init], by simp [init]⟩
  simp [init, present, tableEntries]

theorem inv_allowed {s : St} (h : Inv s) : Allowed s.low s.committed (present s) :=
  ⟨h.sub, fun e he hne => by
    rcases h.shadowed e he with h' | h'
    · exact absurd h' hne
    · exact h'⟩

theorem present_consistent {s : St} (h : Inv s) : Consistent (present s) :=
  fun a ha b hb hab => h.cons a (h.sub a ha) b (h.sub b hb) hab

/-- **the read theorem**: in every state satisfying the invariant, `DB.search` at a read timestamp
    at or above every watermark used so far returns the newest committed version `≤ r` -/
theorem get_eq_spec (mayContain : TableM → Bytes → Bool)
    (hbloom : ∀ t e, e ∈ t.entries → mayContain t e.key.user = true)
    {s : St} (h : Inv s) (k : Bytes) (r : Nat) (hr : s.low ≤ r) :
    get mayContain s k r = newestBrute s.committed k r := by
  have hlook : ∀ g ∈ s.mem :: s.imms.reverse, IsNewest g k r (tableCand g k r) := by
    intro g hg
    rcases List.mem_cons.mp hg with rfl | hg
    · exact tableCand_newest h.memSorted k r
    · exact tableCand_newest (h.immsSorted g (List.mem_reverse.mp hg)) k r
  have ht : IsNewest (tableEntries s) k r (search mayContain s.tables k r) :=
    search_newest mayContain hbloom s.tables h.built k r
  have h1 := firstHit_then_newest (fun g => tableCand g k r) k r (s.mem :: s.imms.reverse) (tableEntries s) _ hlook ht h.ordered
  have h2 : IsNewest ([] ++ present s) k r (newestBrute s.committed k r) :=
    compaction_preserves (rest := []) (inv_allowed h) k r hr _ (by simpa using newestBrute_newest s.committed k r)
  simp only [List.nil_append] at h2
  exact isNewest_unique (present_consistent h) h1 h2

/-! ### preservation -/

theorem mem_present {s : St} {e : E} :
    e ∈ present s ↔ e ∈ s.mem ∨ (∃ g ∈ s.imms, e ∈ g) ∨ e ∈ tableEntries s := by
  simp only [present, List.cons_append, List.flatten_cons, List.flatten_append, List.mem_append,
    List.mem_flatten, List.mem_reverse, List.flatten_cons, List.flatten_nil, List.append_nil]

theorem nodup_map_inj {α β : Type} (f : α → β) : ∀ (l : List α), (l.map f).Nodup → ∀ a ∈ l, ∀ b ∈ l, f a = f b → a = b := by
  intro l
  induction l with
  | nil => intro _ a ha; cases ha
  | cons x xs ih =>
    intro hn a ha b hb hab
    simp only [List.map_cons, List.nodup_cons, List.mem_map, not_exists, not_and] at hn
    rcases List.mem_cons.mp ha with ha | ha <;> rcases List.mem_cons.mp hb with hb | hb
    · rw [ha, hb]
    · rw [ha] at hab; exact absurd hab.symm (hn.1 b hb)
    · rw [hb] at hab; exact absurd hab (hn.1 a ha)
    · exact ih hn.2 a ha b hb hab

theorem covered_mono {low : Nat} {P P' : List E} {e : E} (h : Covered low P e) (hsub : ∀ x ∈ P, x ∈ P') :
    Covered low P' e := by
  rcases h with h | ⟨e', he', h1, h2, h3⟩
  · exact Or.inl (hsub e h)
  · exact Or.inr ⟨e', hsub e' he', h1, h2, h3⟩

/-- coverage survives a change of the contents in which every old entry stays covered, with a watermark that did not go down -/
theorem covered_trans {low low' : Nat} {P P' : List E} {e : E} (h : Covered low P e) (hl : low ≤ low')
    (hP : ∀ x ∈ P, Covered low' P' x) : Covered low' P' e := by
  rcases h with h | ⟨e', he', h1, h2, h3⟩
  · exact hP e h
  · rcases hP e' he' with h' | ⟨e'', he'', g1, g2, g3⟩
    · exact Or.inr ⟨e', h', h1, h2, by omega⟩
    · exact Or.inr ⟨e'', he'', g1.trans h1, by omega, g3⟩

theorem foldl_insertE_mem_sorted (es acc : List E) (hs : SortedE vlt acc) : SortedE vlt (es.foldl insertE acc) :=
  foldl_insertE_sorted es acc hs

theorem inv_commit {s s' : St} (h : Inv s) (ws : List W) (hs : step s (.commit ws) = some s') : Inv s' := by
  simp only [step] at hs
  split at hs
  · cases hs
  · rename_i hcond
    have hnodup : (ws.map (·.user)).Nodup := by
      cases hc : decide ((ws.map (·.user)).Nodup) with
      | true => exact of_decide_eq_true hc
      | false => exact absurd (Or.inr (of_decide_eq_false hc)) hcond
    simp only [Option.some.injEq] at hs
    subst hs
    -- the new entries
    have hnew_ts : ∀ e ∈ ws.map (entryOf s.nextTs), e.key.ts = s.nextTs := by
      intro e he; obtain ⟨w, _, rfl⟩ := List.mem_map.mp he; rfl
    have hold_ts : ∀ e ∈ present s, e.key.ts < s.nextTs := fun e he => h.tsBound e (h.sub e he)
    have hcons' : Consistent (s.committed ++ ws.map (entryOf s.nextTs)) := by
      intro a ha b hb hab
      rcases List.mem_append.mp ha with ha | ha <;> rcases List.mem_append.mp hb with hb | hb
      · exact h.cons a ha b hb hab
      · have := h.tsBound a ha; have := hnew_ts b hb; rw [hab] at *; omega
      · have := h.tsBound b hb; have := hnew_ts a ha; rw [hab] at *; omega
      · obtain ⟨wa, hwa, rfl⟩ := List.mem_map.mp ha
        obtain ⟨wb, hwb, rfl⟩ := List.mem_map.mp hb
        have hu : wa.user = wb.user := by
          have := congrArg VK.user hab; exact this
        have : wa = wb := nodup_map_inj (·.user) ws hnodup wa hwa wb hwb hu
        rw [this]
    have hmem_cons : Consistent (ws.map (entryOf s.nextTs) ++ s.mem) := by
      intro a ha b hb hab
      apply hcons' a _ b _ hab
      · rcases List.mem_append.mp ha with ha | ha
        · exact List.mem_append.mpr (Or.inr ha)
        · exact List.mem_append.mpr (Or.inl (h.sub a (mem_present.mpr (Or.inl ha))))
      · rcases List.mem_append.mp hb with hb | hb
        · exact List.mem_append.mpr (Or.inr hb)
        · exact List.mem_append.mpr (Or.inl (h.sub b (mem_present.mpr (Or.inl hb))))
    obtain ⟨hkeep, hadd⟩ := foldl_insertE_complete (ws.map (entryOf s.nextTs)) s.mem hmem_cons
    have hsubm := foldl_insertE_sub (ws.map (entryOf s.nextTs)) s.mem
    have hwne : ws ≠ [] := by
      intro hw; exact hcond (Or.inl (by simp [hw]))
    refine ⟨foldl_insertE_sorted _ _ h.memSorted, h.immsSorted, h.built, hcons', ?_, ?_, ?_, ?_, h.flushedCov, h.flushedImms,
      (by have := h.lowBound; simp only; omega), ?_, ?_⟩
    rotate_right
    · intro hc
      obtain ⟨w, hw⟩ := List.exists_mem_of_ne_nil ws hwne
      have : entryOf s.nextTs w ∈ s.committed ++ ws.map (entryOf s.nextTs) :=
        List.mem_append.mpr (Or.inr (List.mem_map_of_mem hw))
      simp only at hc
      rw [hc] at this; cases this
    · intro e he
      rcases mem_present.mp he with he | he | he
      · rcases hsubm e he with h' | h'
        · exact List.mem_append.mpr (Or.inr h')
        · exact List.mem_append.mpr (Or.inl (h.sub e (mem_present.mpr (Or.inl h'))))
      · exact List.mem_append.mpr (Or.inl (h.sub e (mem_present.mpr (Or.inr (Or.inl he)))))
      · exact List.mem_append.mpr (Or.inl (h.sub e (mem_present.mpr (Or.inr (Or.inr he)))))
    · intro e he
      rcases List.mem_append.mp he with he | he
      · apply covered_mono (h.shadowed e he)
        intro x hx
        rcases mem_present.mp hx with hx | hx | hx
        · exact mem_present.mpr (Or.inl (hkeep x hx))
        · exact mem_present.mpr (Or.inr (Or.inl hx))
        · exact mem_present.mpr (Or.inr (Or.inr hx))
      · exact Or.inl (mem_present.mpr (Or.inl (hadd e he)))
    · -- ordered: the memtable only gained entries newer than everything else
      obtain ⟨h1, h2⟩ := h.ordered
      refine ⟨?_, h2⟩
      intro g' hg' e' he' hn e he
      rcases hsubm e he with hnew | hold
      · have := hnew_ts e hnew
        have hp : e' ∈ present s := by
          rcases List.mem_append.mp hg' with hg' | hg'
          · exact mem_present.mpr (Or.inr (Or.inl ⟨g', List.mem_reverse.mp hg', he'⟩))
          · simp only [List.mem_singleton] at hg'
            rw [hg'] at he'
            exact mem_present.mpr (Or.inr (Or.inr he'))
        have := hold_ts e' hp
        omega
      · exact h1 g' hg' e' he' (fun hm => hn (hkeep e' hm)) e hold
    · intro e he
      rcases List.mem_append.mp he with he | he
      · have := h.tsBound e he; simp only; omega
      · have := hnew_ts e he; simp only; omega
    · intro _
      obtain ⟨w, hw⟩ := List.exists_mem_of_ne_nil ws hwne
      have hin : entryOf s.nextTs w ∈ ws.map (entryOf s.nextTs) := List.mem_map_of_mem hw
      exact ⟨entryOf s.nextTs w, mem_present.mpr (Or.inl (hadd _ hin)), rfl⟩

theorem inv_rotate {s s' : St} (h : Inv s) (hs : step s .rotate = some s') : Inv s' := by
  simp only [step] at hs
  split at hs
  · cases hs
  · simp only [Option.some.injEq] at hs
    subst hs
    have hp : ∀ e, e ∈ present { s with imms := s.imms ++ [s.mem], mem := [] } ↔ e ∈ present s := by
      intro e
      rw [mem_present, mem_present]
      simp only [List.not_mem_nil, false_or, List.mem_append, List.mem_singleton, tableEntries]
      constructor
      · rintro (⟨g, (hg | rfl), he⟩ | h')
        · exact Or.inr (Or.inl ⟨g, hg, he⟩)
        · exact Or.inl he
        · exact Or.inr (Or.inr h')
      · rintro (h' | ⟨g, hg, he⟩ | h')
        · exact Or.inl ⟨s.mem, Or.inr rfl, h'⟩
        · exact Or.inl ⟨g, Or.inl hg, he⟩
        · exact Or.inr h'
    refine ⟨by simp [SortedE], ?_, h.built, h.cons, ?_, ?_, ?_, h.tsBound, ?_, ?_, h.lowBound, ?_, h.emptyTs⟩
    rotate_right
    · intro hc
      obtain ⟨e, he, het⟩ := h.maxPresent hc
      exact ⟨e, (hp e).mpr he, het⟩
    · intro g hg
      rcases List.mem_append.mp hg with hg | hg
      · exact h.immsSorted g hg
      · simp only [List.mem_singleton] at hg; subst hg; exact h.memSorted
    · intro e he; exact h.sub e ((hp e).mp he)
    · intro e he
      exact covered_mono (h.shadowed e he) (fun x hx => (hp x).mpr hx)
    · show Ordered (([] :: (s.imms ++ [s.mem]).reverse) ++ [tableEntries s])
      simp only [List.reverse_append, List.reverse_cons, List.reverse_nil, List.nil_append, List.cons_append]
      exact ⟨(by intro _ _ _ _ _ e he; cases he), h.ordered⟩
    · intro hf g hg e he
      have hne := h.flushedImms hf
      have : s.imms.head? = some g := by
        cases hi : s.imms with
        | nil => exact absurd hi hne
        | cons a b => simp only [hi, List.cons_append, List.head?_cons] at hg ⊢; exact hg
      exact h.flushedCov hf g this e he
    · intro hf; simp

theorem tableEntries_append (s : St) (t : TableM) :
    (( s.tables ++ [t]).map (·.entries)).flatten = tableEntries s ++ t.entries := by
  simp [tableEntries]

theorem inv_flushAdd {s s' : St} (h : Inv s) (bs : Nat) (hs : step s (.flushAdd bs) = some s') : Inv s' := by
  simp only [step] at hs
  split at hs
  · rename_i g rest himms hfl
    simp only [Option.some.injEq] at hs
    subst hs
    have hgs : SortedE vlt g := h.immsSorted g (by rw [himms]; simp)
    have hte : tableEntries { s with tables := s.tables ++ [buildTable bs g], flushed := true } = tableEntries s ++ g := by
      simp [tableEntries, buildTable_entries]
    have hp : ∀ e, e ∈ present { s with tables := s.tables ++ [buildTable bs g], flushed := true } ↔ e ∈ present s := by
      intro e
      rw [mem_present, mem_present, hte]
      simp only [List.mem_append]
      constructor
      · rintro (h' | h' | h' | h')
        · exact Or.inl h'
        · exact Or.inr (Or.inl h')
        · exact Or.inr (Or.inr h')
        · exact Or.inr (Or.inl ⟨g, by rw [himms]; simp, h'⟩)
      · rintro (h' | h' | h')
        · exact Or.inl h'
        · exact Or.inr (Or.inl h')
        · exact Or.inr (Or.inr (Or.inl h'))
    refine ⟨h.memSorted, h.immsSorted, ?_, h.cons, ?_, ?_, ?_, h.tsBound, ?_, ?_, h.lowBound, ?_, h.emptyTs⟩
    rotate_right
    · intro hc
      obtain ⟨e, he, het⟩ := h.maxPresent hc
      exact ⟨e, (hp e).mpr he, het⟩
    · intro t ht
      rcases List.mem_append.mp ht with ht | ht
      · exact h.built t ht
      · simp only [List.mem_singleton] at ht
        exact ⟨bs, g, hgs, ht⟩
    · intro e he; exact h.sub e ((hp e).mp he)
    · intro e he; exact covered_mono (h.shadowed e he) (fun x hx => (hp x).mpr hx)
    · show Ordered ((s.mem :: s.imms.reverse) ++ [tableEntries { s with tables := s.tables ++ [buildTable bs g], flushed := true }])
      rw [hte]
      have ho := h.ordered
      rw [himms] at ho ⊢
      simp only [List.reverse_cons, List.cons_append, List.append_assoc, List.singleton_append] at ho ⊢
      have := ordered_flush_add (gens := s.mem :: rest.reverse) (g := g) (T := tableEntries s) (by simpa using ho)
      simpa using this
    · intro _ g' hg' e he
      rw [hte]
      simp only [himms, List.head?_cons, Option.some.injEq] at hg'
      subst hg'
      exact Or.inl (List.mem_append.mpr (Or.inr he))
    · intro _; rw [himms]; simp
  · cases hs

theorem inv_flushRemove {s s' : St} (h : Inv s) (hs : step s .flushRemove = some s') : Inv s' := by
  simp only [step] at hs
  split at hs
  · rename_i g rest himms hfl
    simp only [Option.some.injEq] at hs
    subst hs
    have hcov := h.flushedCov hfl g (by rw [himms]; rfl)
    have hpsub : ∀ e, e ∈ present { s with imms := rest, flushed := false } → e ∈ present s := by
      intro e he
      rw [mem_present] at he ⊢
      rcases he with h' | ⟨g', hg', he'⟩ | h'
      · exact Or.inl h'
      · exact Or.inr (Or.inl ⟨g', by rw [himms]; simp [hg'], he'⟩)
      · exact Or.inr (Or.inr h')
    -- every entry that was reachable is still covered
    have hall : ∀ x ∈ present s, Covered s.low (present { s with imms := rest, flushed := false }) x := by
      intro x hx
      rcases mem_present.mp hx with h' | ⟨g', hg', he'⟩ | h'
      · exact Or.inl (mem_present.mpr (Or.inl h'))
      · rw [himms] at hg'
        rcases List.mem_cons.mp hg' with rfl | hg'
        · exact covered_mono (hcov x he') (fun y hy => mem_present.mpr (Or.inr (Or.inr hy)))
        · exact Or.inl (mem_present.mpr (Or.inr (Or.inl ⟨g', hg', he'⟩)))
      · exact Or.inl (mem_present.mpr (Or.inr (Or.inr h')))
    have hmax : ∀ x ∈ present s, x.key.ts + 1 = s.nextTs → ∀ P, Covered s.low P x → (∀ y ∈ P, y ∈ s.committed) → x ∈ P := by
      intro x _ hxt P hc hPs
      rcases hc with hc | ⟨e', he', _, h2, _⟩
      · exact hc
      · have := h.tsBound e' (hPs e' he'); omega
    refine ⟨h.memSorted, ?_, h.built, h.cons, ?_, ?_, ?_, h.tsBound, (by intro hf; cases hf), (by intro hf; cases hf), h.lowBound, ?_, h.emptyTs⟩
    rotate_right
    · intro hc
      obtain ⟨e, he, het⟩ := h.maxPresent hc
      exact ⟨e, hmax e he het _ (hall e he) (fun y hy => h.sub y (hpsub y hy)), het⟩
    · intro g' hg'; exact h.immsSorted g' (by rw [himms]; simp [hg'])
    · intro e he; exact h.sub e (hpsub e he)
    · intro e he
      exact covered_trans (h.shadowed e he) (Nat.le_refl _) hall
    · have ho := h.ordered
      rw [himms] at ho
      refine ordered_sublist ho ?_
      show ((s.mem :: rest.reverse) ++ [tableEntries s]).Sublist ((s.mem :: (g :: rest).reverse) ++ [tableEntries s])
      simp only [List.reverse_cons, List.cons_append, List.append_assoc]
      apply List.Sublist.cons_cons
      apply List.Sublist.append_left
      simp
  · cases hs

theorem mem_pickSplit (pick : List Bool) (ts : List TableM) (t : TableM) :
    t ∈ ts ↔ t ∈ (pickSplit pick ts).1 ∨ t ∈ (pickSplit pick ts).2 := by
  induction ts generalizing pick with
  | nil => simp [pickSplit]
  | cons x xs ih =>
    cases pick with
    | nil =>
      simp only [pickSplit, List.mem_cons]
      rw [ih []]
      constructor
      · rintro (h | h | h)
        · exact Or.inr (Or.inl h)
        · exact Or.inl h
        · exact Or.inr (Or.inr h)
      · rintro (h | h | h)
        · exact Or.inr (Or.inl h)
        · exact Or.inl h
        · exact Or.inr (Or.inr h)
    | cons b bs =>
      simp only [pickSplit, List.mem_cons]
      rw [ih bs]
      cases b
      · simp only [Bool.false_eq_true, ↓reduceIte, List.mem_cons]
        constructor
        · rintro (h | h | h)
          · exact Or.inr (Or.inl h)
          · exact Or.inl h
          · exact Or.inr (Or.inr h)
        · rintro (h | h | h)
          · exact Or.inr (Or.inl h)
          · exact Or.inl h
          · exact Or.inr (Or.inr h)
      · simp only [↓reduceIte, List.mem_cons]
        constructor
        · rintro (h | h | h)
          · exact Or.inl (Or.inl h)
          · exact Or.inl (Or.inr h)
          · exact Or.inr h
        · rintro ((h | h) | h)
          · exact Or.inl h
          · exact Or.inr (Or.inl h)
          · exact Or.inr (Or.inr h)

theorem mem_tableEntries {s : St} {e : E} : e ∈ tableEntries s ↔ ∃ t ∈ s.tables, e ∈ t.entries := by
  unfold tableEntries
  constructor
  · intro h
    obtain ⟨l, hl, hel⟩ := List.mem_flatten.mp h
    obtain ⟨t, ht, rfl⟩ := List.mem_map.mp hl
    exact ⟨t, ht, hel⟩
  · rintro ⟨t, ht, het⟩
    exact List.mem_flatten.mpr ⟨t.entries, List.mem_map_of_mem ht, het⟩

theorem inv_compact {s s' : St} (h : Inv s) (pick : List Bool) (low bs : Nat)
    (hs : step s (.compact pick low bs) = some s') : Inv s' := by
  simp only [step] at hs
  split at hs
  · cases hs
  · rename_i hcond
    have hlow : s.low ≤ low := by
      rcases Nat.lt_or_ge low s.low with h' | h'
      · exact absurd (Or.inr (Or.inl h')) hcond
      · exact h'
    have hlow2 : low < s.nextTs := by
      rcases Nat.lt_or_ge low s.nextTs with h' | h'
      · exact h'
      · exact absurd (Or.inr (Or.inr h')) hcond
    simp only [Option.some.injEq] at hs
    subst hs
    -- notation
    let ins := (pickSplit pick s.tables).1
    let rest := (pickSplit pick s.tables).2
    let out := compactOutput low (ins.map (·.entries))
    have hsplit := mem_pickSplit pick s.tables
    have hins_sub : ∀ e ∈ (ins.map (·.entries)).flatten, e ∈ tableEntries s := by
      intro e he
      obtain ⟨l, hl, hel⟩ := List.mem_flatten.mp he
      obtain ⟨t, ht, rfl⟩ := List.mem_map.mp hl
      exact mem_tableEntries.mpr ⟨t, (hsplit t).mpr (Or.inl ht), hel⟩
    have hins_cons : Consistent (ins.map (·.entries)).flatten := by
      intro a ha b hb hab
      exact h.cons a (h.sub a (mem_present.mpr (Or.inr (Or.inr (hins_sub a ha)))))
        b (h.sub b (mem_present.mpr (Or.inr (Or.inr (hins_sub b hb))))) hab
    have hallowed := compactOutput_allowed low (ins.map (·.entries)) hins_cons
    have hte : tableEntries { s with tables := rest ++ [buildTable bs out], low := low }
        = (rest.map (·.entries)).flatten ++ out := by
      simp [tableEntries, buildTable_entries]
    -- every old table entry is covered by the new tables
    have hTcov : ∀ x ∈ tableEntries s, Covered low ((rest.map (·.entries)).flatten ++ out) x := by
      intro x hx
      obtain ⟨t, ht, hxt⟩ := mem_tableEntries.mp hx
      rcases (hsplit t).mp ht with hti | htr
      · have hxi : x ∈ (ins.map (·.entries)).flatten :=
          List.mem_flatten.mpr ⟨t.entries, List.mem_map_of_mem hti, hxt⟩
        by_cases hxo : x ∈ out
        · exact Or.inl (List.mem_append.mpr (Or.inr hxo))
        · obtain ⟨e', he', h1, h2, h3⟩ := hallowed.shadowed x hxi hxo
          exact Or.inr ⟨e', List.mem_append.mpr (Or.inr he'), h1, h2, h3⟩
      · exact Or.inl (List.mem_append.mpr (Or.inl (List.mem_flatten.mpr ⟨t.entries, List.mem_map_of_mem htr, hxt⟩)))
    have hTsub : ∀ x ∈ (rest.map (·.entries)).flatten ++ out, x ∈ tableEntries s := by
      intro x hx
      rcases List.mem_append.mp hx with hx | hx
      · obtain ⟨l, hl, hel⟩ := List.mem_flatten.mp hx
        obtain ⟨t, ht, rfl⟩ := List.mem_map.mp hl
        exact mem_tableEntries.mpr ⟨t, (hsplit t).mpr (Or.inr ht), hel⟩
      · exact hins_sub x (hallowed.sub x hx)
    have hPcov : ∀ x ∈ present s, Covered low (present { s with tables := rest ++ [buildTable bs out], low := low }) x := by
      intro x hx
      rcases mem_present.mp hx with h' | h' | h'
      · exact Or.inl (mem_present.mpr (Or.inl h'))
      · exact Or.inl (mem_present.mpr (Or.inr (Or.inl h')))
      · apply covered_mono (hTcov x h')
        intro y hy
        exact mem_present.mpr (Or.inr (Or.inr (by rw [hte]; exact hy)))
    have hsub' : ∀ e ∈ present { s with tables := rest ++ [buildTable bs out], low := low }, e ∈ s.committed := by
      intro e he
      rcases mem_present.mp he with h' | h' | h'
      · exact h.sub e (mem_present.mpr (Or.inl h'))
      · exact h.sub e (mem_present.mpr (Or.inr (Or.inl h')))
      · rw [hte] at h'
        exact h.sub e (mem_present.mpr (Or.inr (Or.inr (hTsub e h'))))
    refine ⟨h.memSorted, h.immsSorted, ?_, h.cons, hsub', ?_, ?_, h.tsBound, ?_, h.flushedImms, hlow2, ?_, h.emptyTs⟩
    rotate_right
    · intro hc
      obtain ⟨e, he, het⟩ := h.maxPresent hc
      refine ⟨e, ?_, het⟩
      rcases hPcov e he with hc' | ⟨e', he', _, h2, _⟩
      · exact hc'
      · have := h.tsBound e' (hsub' e' he'); omega
    · intro t ht
      rcases List.mem_append.mp ht with ht | ht
      · exact h.built t ((hsplit t).mpr (Or.inr ht))
      · simp only [List.mem_singleton] at ht
        exact ⟨bs, out, compactOutput_sorted low _, ht⟩
    · intro e he
      exact covered_trans (h.shadowed e he) hlow hPcov
    · show Ordered ((s.mem :: s.imms.reverse) ++ [tableEntries { s with tables := rest ++ [buildTable bs out], low := low }])
      rw [hte]
      exact ordered_append_singleton_mono h.ordered hTsub
    · intro hf g hg e he
      show Covered low (tableEntries { s with tables := rest ++ [buildTable bs out], low := low }) e
      rw [hte]
      exact covered_trans (h.flushedCov hf g hg e he) hlow hTcov

/-- every step preserves the invariant -/
theorem inv_step {s s' : St} (h : Inv s) (st : Step) (hs : step s st = some s') : Inv s' := by
  cases st with
  | commit ws => exact inv_commit h ws hs
  | rotate => exact inv_rotate h hs
  | flushAdd bs => exact inv_flushAdd h bs hs
  | flushRemove => exact inv_flushRemove h hs
  | compact pick low bs => exact inv_compact h pick low bs hs

theorem inv_foldlM {s s' : St} (h : Inv s) (steps : List Step) (hs : steps.foldlM step s = some s') : Inv s' := by
  induction steps generalizing s with
  | nil => simp only [List.foldlM_nil, Option.pure_def, Option.some.injEq] at hs; subst hs; exact h
  | cons st rest ih =>
    simp only [List.foldlM_cons, Option.bind_eq_bind] at hs
    cases h1 : step s st with
    | none => rw [h1] at hs; simp at hs
    | some s1 =>
      rw [h1] at hs
      exact ih (inv_step h st h1) hs

/-- every reachable state satisfies the invariant -/
theorem inv_run {steps : List Step} {s : St} (hs : run steps = some s) : Inv s :=
  inv_foldlM inv_init steps hs

/-! ### Close / Open -/

theorem maxTs_foldl_ge (es : List E) (m : Nat) : m ≤ es.foldl (fun m e => max m e.key.ts) m := by
  induction es generalizing m with
  | nil => exact Nat.le_refl _
  | cons e es ih => exact Nat.le_trans (Nat.le_max_left _ _) (ih _)

theorem maxTs_foldl_bound (es : List E) (m b : Nat) (hm : m ≤ b) (h : ∀ e ∈ es, e.key.ts ≤ b) :
    es.foldl (fun m e => max m e.key.ts) m ≤ b := by
  induction es generalizing m with
  | nil => exact hm
  | cons e es ih =>
    exact ih _ (Nat.max_le.mpr ⟨hm, h e (by simp)⟩) (fun x hx => h x (by simp [hx]))

theorem maxTs_foldl_mem (es : List E) (m : Nat) (e : E) (he : e ∈ es) :
    e.key.ts ≤ es.foldl (fun m e => max m e.key.ts) m := by
  induction es generalizing m with
  | nil => cases he
  | cons x xs ih =>
    rcases List.mem_cons.mp he with rfl | he
    · exact Nat.le_trans (Nat.le_max_right _ _) (maxTs_foldl_ge xs _)
    · exact ih _ he

/-- the timestamp counter recomputed from the stored versions is the counter before the restart -/
theorem maxTs_present {s : St} (h : Inv s) : maxTs (present s) + 1 = s.nextTs := by
  by_cases hc : s.committed = []
  · have : present s = [] := by
      cases hp : present s with
      | nil => rfl
      | cons e es =>
        have := h.sub e (by rw [hp]; simp)
        rw [hc] at this; cases this
    rw [this, h.emptyTs hc]; rfl
  · obtain ⟨e, he, het⟩ := h.maxPresent hc
    have h1 : e.key.ts ≤ maxTs (present s) := maxTs_foldl_mem _ 0 e he
    have h2 : maxTs (present s) ≤ s.nextTs - 1 :=
      maxTs_foldl_bound _ 0 _ (Nat.zero_le _) (fun x hx => by have := h.tsBound x (h.sub x hx); omega)
    omega

end DB
