import Originium.Generated.Txn
import Originium.Model.OracleTie
import Originium.Model.Sys
/-! What the definitions regenerated from `txn.go`, `db.go` (View / Update) and `oracle.go` (newCommitTs, doneRead)
    compute, and how that relates to the model (`Sys.apiSet`, `Sys.apiCommitPre`, `Oracle2.step`).

These are theorems about `Generated/Txn.lean`, which `extract/gotrans.go` rewrites from `/repo` on every check run:
when the Go code changes, the definitions change and the statements below have to be proved of the new ones. -/
namespace TxnTie
open Oracle2
open GenTxn (E R Ent)

/-- the documented errors, as the model names them -/
def errOf : E → Sys.Err
  | .nil => .ok | .ErrReadOnlyTxn => .readOnly | .ErrDiscardedTxn => .discarded | .ErrEmptyKey => .emptyKey
  | .ErrKeyTooLarge => .keyTooLarge | .ErrValueTooLarge => .valueTooLarge | .ErrDBClosed => .closed | .ErrConflictTxn => .conflict

/-- a pending write of the model (`none` = delete) as the Go entry: value bytes and tombstone flag -/
def entOf : Val → Ent
  | some b => (b, false)
  | none => ([], true)

def pendOf (ws : List (Oracle2.Key × Val)) : List (GenTxn.Key × Ent) := ws.map fun kv => (kv.1, entOf kv.2)

/-! ### Txn.modify (Set / Delete) -/

/-- the error answered by the Go code is the model's `apiSet`, checked in the same order -/
theorem modify_err (t : Txn) (k v : List UInt8) (tomb : Bool) (mk mv : Nat) (w : List (GenTxn.Key × Unit)) (p : List (GenTxn.Key × Ent)) :
    errOf (GenTxn.modify (!t.update) t.finished k v tomb mk mv w p).1 = Sys.apiSet mk mv t k v := by
  unfold GenTxn.modify Sys.apiSet
  cases t.update <;> cases t.finished <;> simp only [Bool.not_true, Bool.not_false, Bool.false_eq_true, ↓reduceIte, errOf]
  by_cases hk : k = []
  · simp [hk, errOf]
  · have hk' : k.isEmpty = false := by cases k <;> simp_all
    simp only [hk, hk', decide_false, Bool.false_eq_true, ↓reduceIte, gt_iff_lt]
    by_cases h1 : mk < k.length
    · simp only [h1, decide_true, ↓reduceIte, errOf]
    · simp only [h1, decide_false, Bool.false_eq_true, ↓reduceIte]
      by_cases h2 : mv < v.length
      · simp only [h2, decide_true, ↓reduceIte, errOf]
      · simp only [h2, decide_false, Bool.false_eq_true, ↓reduceIte, errOf]

/-- an accepted write becomes the newest binding of the private buffers and touches nothing else;
    a refused one leaves both buffers as they were -/
theorem modify_effect (ro disc : Bool) (k v : List UInt8) (tomb : Bool) (mk mv : Nat) (w : List (GenTxn.Key × Unit)) (p : List (GenTxn.Key × Ent)) :
    let r := GenTxn.modify ro disc k v tomb mk mv w p
    (r.1 = .nil → r.2 = ((k, ()) :: w, (k, (v, tomb)) :: p)) ∧ (r.1 ≠ .nil → r.2 = (w, p)) := by
  unfold GenTxn.modify
  simp only
  repeat' split
  all_goals simp

/-! ### Txn.Get -/

theorem lookup_pendOf (k : GenTxn.Key) (ws : List (Oracle2.Key × Val)) :
    List.lookup k (pendOf ws) = (lookupW k ws).map entOf := by
  induction ws with
  | nil => rfl
  | cons kv ws ih =>
    obtain ⟨k', v⟩ := kv
    simp only [pendOf, List.map_cons, List.lookup_cons, lookupW] at ih ⊢
    by_cases h : k' = k
    · subst h; simp
    · have h' : (k == k') = false := by
        simp only [beq_eq_false_iff_ne, ne_eq]; exact fun e => h e.symm
      simp only [h, h', ↓reduceIte]
      exact ih

theorem lookupW_some_of_mem {k : Oracle2.Key} {ws : List (Oracle2.Key × Val)} (hm : k ∈ ws.map (·.1)) :
    ∃ v, lookupW k ws = some v := by
  induction ws with
  | nil => simp at hm
  | cons kv ws ih =>
    simp only [lookupW]
    split
    · exact ⟨_, rfl⟩
    · rename_i hne
      simp only [List.map_cons, List.mem_cons] at hm
      rcases hm with hm | hm
      · exact absurd hm.symm hne
      · exact ih hm

/-- the decision table of `Txn.Get`, on a transaction that is open and a key that is not empty: a read-only transaction
    goes to the store and records nothing; a read-write transaction answers from its own write buffer when the key is
    there (a pending delete reads as absent) *without* recording the read, and otherwise records the key and goes to
    the store at its read timestamp -/
theorem get_table (t : Txn) (k : GenTxn.Key) (hk : k ≠ []) (reads : List GenTxn.Key) :
    GenTxn.get (!t.update) false k t.readTs (pendOf t.writes) reads =
      if t.update then
        match lookupW k t.writes with
        | some (some b) => (.direct b true, reads)
        | some none => (.direct [] false, reads)
        | none => (.search k t.readTs, reads ++ [k])
      else (.search k t.readTs, reads) := by
  unfold GenTxn.get
  simp only [Bool.false_eq_true, ↓reduceIte, hk, decide_false, lookup_pendOf]
  cases t.update with
  | false => simp
  | true =>
    simp only [Bool.not_true, Bool.not_false, ↓reduceIte]
    cases h : lookupW k t.writes with
    | none => simp
    | some v => cases v <;> simp [entOf]

/-- misuse: a finished transaction and an empty key are answered `(nil, false)` and record nothing -/
theorem get_misuse (ro disc : Bool) (k : GenTxn.Key) (ts : Nat) (p : List (GenTxn.Key × Ent)) (reads : List GenTxn.Key)
    (h : disc = true ∨ k = []) : GenTxn.get ro disc k ts p reads = (.direct [] false, reads) := by
  unfold GenTxn.get
  rcases h with h | h
  · simp [h]
  · cases disc <;> simp [h]

/-- the read is recorded exactly when the model's `get` step records it -/
theorem get_records_iff (t : Txn) (k : GenTxn.Key) (hk : k ≠ []) (reads : List GenTxn.Key) :
    (GenTxn.get (!t.update) false k t.readTs (pendOf t.writes) reads).2 =
      if t.update && !(t.writes.map (·.1)).contains k then reads ++ [k] else reads := by
  rw [get_table t k hk]
  cases hu : t.update with
  | false => simp
  | true =>
    simp only [↓reduceIte, Bool.true_and]
    by_cases hm : k ∈ t.writes.map (·.1)
    · have hc : (t.writes.map (·.1)).contains k = true := by simpa using hm
      have : ∃ v, lookupW k t.writes = some v := lookupW_some_of_mem hm
      obtain ⟨v, hv⟩ := this
      rw [hv, hc]
      cases v <;> simp
    · have hc : (t.writes.map (·.1)).contains k = false := by simpa using hm
      rw [lookupW_none_of_not_mem hm, hc]
      simp

/-! ### Txn.Commit -/

/-- the whole decision table of `Txn.Commit` with the order of its effects: nothing at all on a finished transaction;
    only the Discard with an empty write buffer; on a closed DB the lock is taken and nothing else happens; the
    timestamp is asked for only on an open DB; the batch is applied (`rawset`) only when there is no conflict -/
theorem commit_table (disc : Bool) (p : List (GenTxn.Key × Ent)) (closed : Bool) (ts : Nat) (conflict : Bool) :
    GenTxn.commit disc p closed ts conflict [] =
      if disc then (.ErrDiscardedTxn, [])
      else if p = [] then (.nil, ["Discard"])
      else if closed then (.ErrDBClosed, ["defer Discard", "writeLock.Lock", "defer writeLock.Unlock"])
      else if conflict then (.ErrConflictTxn, ["defer Discard", "writeLock.Lock", "defer writeLock.Unlock", "newCommitTs"])
      else (.nil, ["defer Discard", "writeLock.Lock", "defer writeLock.Unlock", "newCommitTs", "rawset", "doneCommit"]) := by
  unfold GenTxn.commit
  cases disc <;> cases closed <;> cases conflict <;> cases p <;> simp

/-- what `Commit` answers before the conflict check is the model's `apiCommitPre` -/
theorem commit_pre (t : Txn) (closed : Bool) (ts : Nat) (conflict : Bool) :
    match Sys.apiCommitPre closed t with
    | some e => errOf (GenTxn.commit t.finished (pendOf t.writes) closed ts conflict []).1 = e ∧
                "rawset" ∉ (GenTxn.commit t.finished (pendOf t.writes) closed ts conflict []).2 ∧
                "newCommitTs" ∉ (GenTxn.commit t.finished (pendOf t.writes) closed ts conflict []).2
    | none => "newCommitTs" ∈ (GenTxn.commit t.finished (pendOf t.writes) closed ts conflict []).2 := by
  rw [commit_table]
  unfold Sys.apiCommitPre
  have hp : (pendOf t.writes = []) = (t.writes = []) := by
    cases t.writes <;> simp [pendOf]
  cases t.finished <;> cases closed <;> cases conflict <;> cases hw : t.writes <;> simp [hp, hw, errOf, pendOf]

/-- a refused Commit applies nothing: the batch is applied iff the answer is nil after a timestamp was taken -/
theorem commit_applies_iff (disc : Bool) (p : List (GenTxn.Key × Ent)) (closed : Bool) (ts : Nat) (conflict : Bool) :
    "rawset" ∈ (GenTxn.commit disc p closed ts conflict []).2 ↔ (disc = false ∧ p ≠ [] ∧ closed = false ∧ conflict = false) := by
  rw [commit_table]
  cases disc <;> cases closed <;> cases conflict <;> cases p <;> simp

/-! ### DB.View / DB.Update -/

theorem view_table (closed : Bool) (fnRes c : E) :
    GenTxn.view closed fnRes c [] = if closed then (.ErrDBClosed, []) else (fnRes, ["Begin false", "defer Discard", "fn"]) := by
  unfold GenTxn.view; cases closed <;> simp

/-- `Update`: nothing happens on a closed DB (the closure is not even called); Commit is called iff the closure returned
    nil, otherwise the closure's error is returned and the deferred Discard drops the writes -/
theorem update_table (closed : Bool) (fnRes c : E) :
    GenTxn.update closed fnRes c [] =
      if closed then (.ErrDBClosed, [])
      else if fnRes = .nil then (c, ["Begin true", "defer Discard", "fn", "Commit"])
      else (fnRes, ["Begin true", "defer Discard", "fn"]) := by
  unfold GenTxn.update
  cases closed <;> cases fnRes <;> simp

theorem view_update_closed (fnRes c : E) :
    Sys.apiViewUpdate true = some (errOf (GenTxn.view true fnRes c []).1) ∧ Sys.apiViewUpdate true = some (errOf (GenTxn.update true fnRes c []).1)
    ∧ (GenTxn.view true fnRes c []).2 = [] ∧ (GenTxn.update true fnRes c []).2 = [] := by
  rw [view_table, update_table]; simp [Sys.apiViewUpdate, errOf]

/-! ### oracle.newCommitTs -/

/-- `newCommitTs` on the oracle state of the model.  With a conflict: `(0, true)`, nothing but the lock happened (the
    read mark is *not* released here, no timestamp is taken, the list is untouched).  Without: the read mark is released
    once, the committed list is cleaned with the current watermark, the next timestamp is taken, announced to the commit
    mark and recorded together with the written keys — exactly the oracle part of `Oracle2.step (.commit i)`. -/
theorem newCommitTs_tie (t : Txn) (recent : List Commit) (mark next last : Nat)
    (hmono : last ≤ mark) (hkept : ∀ c ∈ recent, last < c.ts) :
    GenTxn.newCommitTs t.reads t.readTs (t.writes.map (·.1)) false mark next last (recent.map OracleTie.ctOf) [] =
      if Oracle2.hasConflict recent t then
        some (0, true, false, next, last, recent.map OracleTie.ctOf, ["Lock", "defer Unlock"])
      else
        some (next, false, true, next + 1, mark,
              (cleanup recent mark ++ [({ ts := next, writes := t.writes } : Commit)]).map OracleTie.ctOf,
              ["Lock", "defer Unlock", "readMark.Done readTs", "commitMark.Begin ts"]) := by
  unfold GenTxn.newCommitTs
  simp only [OracleTie.hasConflict_tie]
  cases hc : Oracle2.hasConflict recent t with
  | true => simp
  | false =>
    obtain ⟨l', hl, hl'⟩ := OracleTie.cleanUp_is_cleanup mark last recent hmono hkept
    subst hl'
    simp only [Bool.false_eq_true, ↓reduceIte, GenTxn.doneRead, hl, List.map_append, List.map_cons, List.map_nil,
      OracleTie.ctOf, wkeys, List.nil_append, List.cons_append]


/-! ### oracle.readTs (Begin) and Txn.Discard -/

/-- `Begin`: the snapshot is `nextTs - 1`, the read mark is begun under the oracle lock, and the call returns only after
    it has waited for the commit mark to reach the snapshot (every commit at or below it is applied) -/
theorem readTs_table (next : Nat) (waitFails : Bool) :
    GenTxn.readTs next waitFails [] =
      if waitFails then none
      else some (next - 1, ["Lock", "readMark.Begin readTs", "Unlock", "commitMark.WaitForMark readTs"]) := by
  unfold GenTxn.readTs
  cases waitFails <;> simp

/-- `Discard` releases the read mark once and is idempotent -/
theorem discard_table (disc : Bool) :
    GenTxn.discard disc [] = if disc then (true, []) else (true, ["oracle.doneRead"]) := by
  unfold GenTxn.discard
  cases disc <;> simp

/-- the translated batch-building loop of `Txn.Commit`: the batch holds one entry per pending write, in the order of the
    pending writes, each keyed `KeyWithTs(v.Key, commitTs)` with the value, the tombstone flag and the version `commitTs` -/
theorem commitBatch_eq {π : Type} (pkey : π → GenTxn.Key) (pval : π → List UInt8) (ptomb : π → Bool)
    (pw : List (GenTxn.Key × π)) (ts : Nat) :
    GenTxn.commitBatch pkey pval ptomb pw ts = pw.map fun kv => ((pkey kv.2, ts), pval kv.2, ptomb kv.2, ts) := by
  unfold GenTxn.commitBatch
  dsimp only
  have h : ∀ (acc : List ((GenTxn.Key × Nat) × List UInt8 × Bool × Nat)),
      List.foldr (fun (kv : GenTxn.Key × π) kont1 => fun (entries : List ((GenTxn.Key × Nat) × List UInt8 × Bool × Nat)) =>
        kont1 (entries ++ [((pkey kv.2, ts), pval kv.2, ptomb kv.2, ts)])) (fun entries => entries) pw acc =
      acc ++ pw.map fun kv => ((pkey kv.2, ts), pval kv.2, ptomb kv.2, ts) := by
    induction pw with
    | nil => intro acc; simp
    | cons kv rest ih => intro acc; simp only [List.foldr_cons, List.map_cons]; rw [ih]; simp
  simpa using h []

end TxnTie
