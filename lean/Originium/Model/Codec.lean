/-! Feasibility probe: table/data.go Encode/Decode before compression (C11) -/
namespace Codec

abbrev Bytes := List UInt8

def u8 (n : Nat) : UInt8 := UInt8.ofNat n

theorem u8_toNat (n : Nat) (h : n < 256) : (u8 n).toNat = n := by
  simp [u8, UInt8.toNat_ofNat']; omega

/-- little-endian, `w` bytes -/
def encLE : Nat → Nat → Bytes
  | 0, _ => []
  | w + 1, n => u8 (n % 256) :: encLE w (n / 256)

def decLE : Nat → Bytes → Option (Nat × Bytes)
  | 0, bs => some (0, bs)
  | _ + 1, [] => none
  | w + 1, b :: bs => (decLE w bs).map fun (v, rest) => (b.toNat + 256 * v, rest)

theorem decLE_encLE (w n : Nat) (rest : Bytes) (h : n < 256 ^ w) :
    decLE w (encLE w n ++ rest) = some (n, rest) := by
  induction w generalizing n with
  | zero => simp [encLE, decLE] at *; omega
  | succ w ih =>
    have hdiv : n / 256 < 256 ^ w := by
      rw [Nat.pow_succ] at h
      exact Nat.div_lt_of_lt_mul (by rw [Nat.mul_comm]; exact h)
    simp only [encLE, List.cons_append, decLE, ih _ hdiv, Option.map_some]
    rw [u8_toNat _ (Nat.mod_lt _ (by decide))]
    congr 2; omega

theorem encLE_length (w n : Nat) : (encLE w n).length = w := by
  induction w generalizing n with
  | zero => rfl
  | succ w ih => simp [encLE, ih]

structure Entry where
  key : Bytes
  value : Bytes
  tomb : Bool
  version : Nat
deriving DecidableEq, Repr

/-- utils.LCP -/
def lcp : Bytes → Bytes → Nat
  | a :: as, b :: bs => if a = b then lcp as bs + 1 else 0
  | _, _ => 0

theorem lcp_take (a b : Bytes) : b.take (lcp a b) = a.take (lcp a b) := by
  induction a generalizing b with
  | nil => simp [lcp]
  | cons x xs ih =>
    cases b with
    | nil => simp [lcp]
    | cons y ys =>
      simp only [lcp]
      split
      · rename_i h; subst h; simp [ih]
      · simp

theorem lcp_rebuild (key prev : Bytes) : prev.take (lcp key prev) ++ key.drop (lcp key prev) = key := by
  rw [lcp_take]; exact List.take_append_drop _ _

def encEntry (prev : Bytes) (e : Entry) : Bytes :=
  let l := lcp e.key prev
  let suffix := e.key.drop l
  encLE 2 l ++ encLE 2 suffix.length ++ suffix ++ encLE 2 e.value.length ++ e.value ++
    [if e.tomb then 1 else 0] ++ encLE 8 e.version

def encData : Bytes → List Entry → Bytes
  | _, [] => []
  | prev, e :: es => encEntry prev e ++ encData e.key es

def readN (n : Nat) (bs : Bytes) : Option (Bytes × Bytes) :=
  if bs.length < n then none else some (bs.take n, bs.drop n)

theorem readN_append (xs rest : Bytes) : readN xs.length (xs ++ rest) = some (xs, rest) := by
  unfold readN
  rw [if_neg (by simp)]
  simp

def readByte : Bytes → Option (UInt8 × Bytes)
  | [] => none
  | b :: bs => some (b, bs)

/-- one iteration of the Decode loop -/
def decEntry (prev : Bytes) (bs : Bytes) : Option (Entry × Bytes) :=
  (decLE 2 bs).bind fun r1 =>
  (decLE 2 r1.2).bind fun r2 =>
  (readN r2.1 r2.2).bind fun r3 =>
  (decLE 2 r3.2).bind fun r4 =>
  (readN r4.1 r4.2).bind fun r5 =>
  (readByte r5.2).bind fun r6 =>
  (decLE 8 r6.2).bind fun r7 =>
  some ({ key := prev.take r1.1 ++ r3.1, value := r5.1, tomb := r6.1 == 1, version := r7.1 }, r7.2)

def decData : Nat → Bytes → Bytes → Option (List Entry)
  | _, _, [] => some []
  | 0, _, _ :: _ => none
  | fuel + 1, prev, b :: bs =>
    match decEntry prev (b :: bs) with
    | none => none
    | some (e, rest) => (decData fuel e.key rest).map (e :: ·)

def WF (e : Entry) : Prop := e.key.length < 65536 ∧ e.value.length < 65536 ∧ e.version < 2 ^ 64

theorem lcp_le (a b : Bytes) : lcp a b ≤ a.length := by
  induction a generalizing b with
  | nil => simp [lcp]
  | cons x xs ih =>
    cases b with
    | nil => simp [lcp]
    | cons y ys => simp only [lcp]; split <;> simp [ih]

theorem decEntry_encEntry (prev : Bytes) (e : Entry) (rest : Bytes) (h : WF e) :
    decEntry prev (encEntry prev e ++ rest) = some (e, rest) := by
  obtain ⟨hk, hv, hver⟩ := h
  have hl := lcp_le e.key prev
  have h1 : lcp e.key prev < 256 ^ 2 := by omega
  have h2 : (e.key.drop (lcp e.key prev)).length < 256 ^ 2 := by simp; omega
  have h3 : e.value.length < 256 ^ 2 := by omega
  have h4 : e.version < 256 ^ 8 := by omega
  unfold decEntry encEntry
  simp only [List.append_assoc]
  rw [decLE_encLE 2 _ _ h1]; simp only [Option.bind_some]
  rw [decLE_encLE 2 _ _ h2]; simp only [Option.bind_some]
  rw [readN_append]; simp only [Option.bind_some]
  rw [decLE_encLE 2 _ _ h3]; simp only [Option.bind_some]
  rw [readN_append]; simp only [Option.bind_some]
  simp only [List.cons_append, List.nil_append, readByte, Option.bind_some]
  rw [decLE_encLE 8 _ _ h4]; simp only [Option.bind_some]
  have hkey := lcp_rebuild e.key prev
  cases e with
  | mk key value tomb version =>
    simp only at hkey ⊢
    rw [hkey]
    cases tomb <;> simp

theorem encEntry_ne_nil (prev : Bytes) (e : Entry) : encEntry prev e ≠ [] := by
  unfold encEntry; simp [encLE]

/-- C11 (data block, before compression): decoding what was encoded gives back the entries -/
theorem decData_encData (es : List Entry) (prev : Bytes) (hw : ∀ e ∈ es, WF e) (fuel : Nat)
    (hf : es.length ≤ fuel) : decData fuel prev (encData prev es) = some es := by
  induction es generalizing prev fuel with
  | nil => cases fuel <;> simp [decData, encData]
  | cons e es ih =>
    cases fuel with
    | zero => simp at hf
    | succ fuel =>
      obtain ⟨b, bs', hb⟩ : ∃ b bs', encEntry prev e ++ encData e.key es = b :: bs' := by
        have := encEntry_ne_nil prev e
        cases h : encEntry prev e with
        | nil => exact absurd h this
        | cons a c => exact ⟨a, c ++ encData e.key es, by simp⟩
      show decData (fuel + 1) prev (encEntry prev e ++ encData e.key es) = some (e :: es)
      rw [hb, decData, ← hb, decEntry_encEntry prev e _ (hw e (by simp))]
      simp only
      rw [ih e.key (fun e' he' => hw e' (by simp [he'])) fuel (by simp at hf; omega)]
      rfl

#print axioms decData_encData
end Codec
