import Originium.Model.DiskRecover
/-! The engine's file-system *program*: which event each goroutine emits next (C03 / C04 / C14).

`Disk.accept` is the rule book a trace has to obey.  This file models who produces the trace:

* the foreground (the serialised committers, `Open`, `Close`) with program counter `CPc`
  — `Txn.Commit` (one wal write, one fsync, the acknowledgement; memtable rotation creates the next
  wal file), `DB.Close` (waits for the flusher, flushes or deletes the active wal), `DB.Open`
  (`newMemtable` creates a wal, `memtable.recover` replays and deletes every older wal record by
  record, `levelManager.recover` deletes leftover temporary files);
* the flusher goroutine `DB.run` with program counter `FPc` — `flushImmutable` (temporary file:
  create, write, fsync, rename; then delete the wal) and the compactions of `checkAndCompact`
  (raise the discard bound, write the output the same way, then delete the inputs).

`act` is executable: given the current disk, the volatile state and the next event of a recorded
trace it says whether the program can emit that event now and what its volatile state becomes.  The
driver runs the hook traces of the real engine through it (suite `crash`), so the program is tied
to the code the same way the rule book is.  `DiskProgProofs` shows that, started from the empty
directory, with the two goroutines interleaved in every possible way, a crash (with or without the
loss of unsynced tails) at every point, and any number of recoveries, crashed recoveries included,
the program never emits an event the rule book rejects. -/
namespace Prog
open Key VKey Table Levels LSM Disk

/-- foreground program counter -/
inductive CPc where
  | down                                                       -- no process (never opened, crashed, closed)
  | ordered (ws : List Nat)                                    -- `Open` has listed the wal files it will replay, in this order
  | idle                                                       -- open, no commit in flight
  | commit (b : List E) (sy : Bool)                            -- batch written (sy = false) / fsynced (sy = true), not yet acknowledged
  | closing                                                    -- `Close` is flushing the active memtable
  | openRec (new w : Nat) (rs : List E) (ws : List Nat) (sy : Bool)  -- `recover`: replaying wal `w`, records `rs` and wals `ws` to go
  | openTmp (new : Nat) (ns : List Nat)                        -- `levelManager.recover`: leftover temporary files to delete
deriving DecidableEq, Repr

/-- flusher program counter -/
inductive FPc where
  | idle
  | f1 (w n : Nat)                           -- flushing wal `w` into table `n`: temporary file created
  | f2 (w n : Nat)                           --   … written
  | f3 (w n : Nat)                           --   … fsynced
  | f4 (w n : Nat)                           --   … renamed (published); the wal is still there
  | c0 (ins : List Nat) (n : Nat)            -- compacting tables `ins` into `n`: planned
  | c1 (ins : List Nat) (n : Nat)            --   … discard bound raised
  | c2 (ins : List Nat) (n : Nat)            --   … temporary file created
  | c3 (ins : List Nat) (n : Nat)            --   … written
  | c4 (ins : List Nat) (n : Nat)            --   … fsynced
  | remove (rest : List Nat) (n : Nat)       -- output `n` published, inputs `rest` still to delete
deriving DecidableEq, Repr

/-- volatile state -/
structure Mem where
  c : CPc
  f : FPc
  active : Option Nat        -- wal of the active memtable
  imms : List Nat            -- wals of the immutable memtables queued for the flusher, oldest first
  nextWal : Nat              -- wal files are named by creation time: every existing id is below this
  nextTs : Nat               -- oracle: next commit timestamp
deriving Repr

structure PSt where
  t : TSt
  m : Mem
deriving Repr

inductive PEv where
  | ev (e : Ev)
  | plan (ins : List Nat) (n : Nat)          -- `checkAndCompact` picked inputs and output name (no file-system effect)
  | order (ws : List Nat)                    -- `Open` lists the directory: the older wal files in the order of their names

def running : CPc → Bool
  | .idle => true
  | .commit _ _ => true
  | _ => false

def recsOf (d : D) (id : Nat) : List E := (d.wals.filter (·.id = id)).flatMap (·.recs)
/-- the sorted content of the memtable whose wal is `id` -/
def content (d : D) (id : Nat) : List E := (recsOf d id).foldl insertE []
def tabsOf (d : D) (ins : List Nat) : List (List E) := (d.tables.filter (fun p => p.1 ∈ ins)).map (·.2)
def cout (d : D) (low : Nat) (ins : List Nat) : List E := compactOutput low (tabsOf d ins)
def noTable (d : D) (n : Nat) : Prop := ∀ p ∈ d.tables, p.1 ≠ n
instance (d : D) (n : Nat) : Decidable (noTable d n) := by unfold noTable; infer_instance

def Mem.init : Mem := { c := .down, f := .idle, active := none, imms := [], nextWal := 0, nextTs := 1 }
def PSt.init : PSt := { t := TSt.init, m := Mem.init }

/-- after a crash nothing volatile is left; file names keep growing with the clock -/
def crashMem (m : Mem) : Mem := { m with c := .down, f := .idle, active := none, imms := [] }

/-! ### `Open` after its wal files are dealt with -/
def finishOpen (d : D) (m : Mem) (new : Nat) : Mem :=
  { m with c := .idle, active := some new, imms := [], nextTs := DB.maxTs (surviving d) + 1 }
def openTmps (d : D) (m : Mem) (new : Nat) (ns : List Nat) : Mem :=
  if ns = [] then finishOpen d m new else { m with c := .openTmp new ns }
def openWals (d : D) (m : Mem) (new : Nat) : List Nat → Mem
  | [] => openTmps d m new (d.tmps.map (·.name))
  | w :: ws => { m with c := .openRec new w (recsOf d w) ws true }

def actCommit (m : Mem) (id : Nat) (b : List E) : Option Mem :=
  match m.c, m.active, b with
  | .idle, some a, e0 :: _ =>
    if a = id ∧ m.nextTs ≤ e0.key.ts ∧ (∀ e ∈ b, e.key.ts = e0.key.ts) ∧ (b.map (·.key)).Nodup then
      some { m with c := .commit b false, nextTs := e0.key.ts + 1 }
    else none
  | _, _, _ => none

def actAck (m : Mem) (b' : List E) : Option Mem :=
  match m.c with
  | .commit b true => if (∀ e ∈ b', e ∈ b) ∧ (∀ e ∈ b, e ∈ b') then some { m with c := .idle } else none
  | _ => none

def actRaise (t : TSt) (m : Mem) (lw : Nat) : Option Mem :=
  match m.f with
  | .c0 ins n => if t.low ≤ lw then some { m with f := .c1 ins n } else none
  | _ => none

def actPlan (t : TSt) (m : Mem) (ins : List Nat) (n : Nat) : Option Mem :=
  match m.f with
  | .idle => if running m.c = true ∧ n ∉ ins ∧ ins ≠ [] ∧ noTable t.d n then some { m with f := .c0 ins n } else none
  | _ => none

def actWalCreate (t : TSt) (m : Mem) (id : Nat) : Option Mem :=
  if m.nextWal ≤ id then
    match m.c, m.active with
    | .ordered ws, _ =>
      -- (the replay order is the lexical order of the file names, not necessarily the order of creation)
      if (∀ w ∈ t.d.wals, w.id ∈ ws) ∧ id ∉ ws then some (openWals (apply t.d (.walCreate id)) { m with nextWal := id + 1 } id ws)
      else none
    | .idle, some a => some { m with imms := m.imms ++ [a], active := some id, nextWal := id + 1 }
    | .commit _ true, some a => some { m with imms := m.imms ++ [a], active := some id, nextWal := id + 1 }
    | _, _ => none
  else none

def actWalAppend (m : Mem) (id : Nat) (bs : List E) : Option Mem :=
  match m.c with
  | .openRec new w (r :: rs) ws true => if id = new ∧ bs = [r] then some { m with c := .openRec new w rs ws false } else none
  | _ => none

def actWalSync (m : Mem) (id : Nat) : Option Mem :=
  match m.c with
  | .commit b false => if m.active = some id then some { m with c := .commit b true } else none
  | .openRec new w rs ws false => if id = new then some { m with c := .openRec new w rs ws true } else none
  | _ => none

def actTmpCreate (t : TSt) (m : Mem) (n : Nat) : Option Mem :=
  if noTable t.d n then
    match m.f with
    | .idle =>
      match m.imms, m.c, m.active with
      | w :: _, .idle, _ => some { m with f := .f1 w n }
      | w :: _, .commit _ _, _ => some { m with f := .f1 w n }
      | [], .idle, some a => some { m with c := .closing, active := none, imms := [a], f := .f1 a n }
      | _, _, _ => none
    | .c1 ins n' => if n = n' then some { m with f := .c2 ins n } else none
    | _ => none
  else none

def actTmpWrite (t : TSt) (m : Mem) (n : Nat) (es : List E) : Option Mem :=
  match m.f with
  | .f1 w n' => if n = n' ∧ es = content t.d w then some { m with f := .f2 w n } else none
  | .c2 ins n' => if n = n' ∧ es = cout t.d t.low ins then some { m with f := .c3 ins n } else none
  | _ => none

def actTmpSync (m : Mem) (n : Nat) : Option Mem :=
  match m.f with
  | .f2 w n' => if n = n' then some { m with f := .f3 w n } else none
  | .c3 ins n' => if n = n' then some { m with f := .c4 ins n } else none
  | _ => none

def actPublish (m : Mem) (n : Nat) : Option Mem :=
  match m.f with
  | .f3 w n' => if n = n' then some { m with f := .f4 w n } else none
  | .c4 ins n' => if n = n' then some { m with f := .remove ins n } else none
  | _ => none

def actWalRemove (t : TSt) (m : Mem) (id : Nat) : Option Mem :=
  match m.f, m.c with
  -- `flushImmutable` ends: the flushed wal is deleted
  | .f4 w _, .idle => if id = w then some { m with f := .idle, imms := m.imms.tail } else none
  | .f4 w _, .commit _ _ => if id = w then some { m with f := .idle, imms := m.imms.tail } else none
  | .f4 w _, .closing => if id = w then some { m with f := .idle, imms := m.imms.tail, c := .down } else none
  -- `Close` with an empty active memtable: the wal is deleted, nothing is flushed
  | .idle, .idle =>
    if m.imms = [] ∧ m.active = some id ∧ recsOf t.d id = [] then some { m with c := .down, active := none } else none
  -- `memtable.recover` has replayed every record of an older wal
  | .idle, .openRec new w [] ws true => if id = w then some (openWals (apply t.d (.walRemove id)) m new ws) else none
  | _, _ => none

def actTableRemove (m : Mem) (s : Nat) : Option Mem :=
  match m.f with
  | .remove rest n =>
    if s ∈ rest then some { m with f := if rest.erase s = [] then .idle else .remove (rest.erase s) n } else none
  | _ => none

def actTmpRemove (t : TSt) (m : Mem) (n : Nat) : Option Mem :=
  match m.c with
  | .openTmp new ns => if n ∈ ns then some (openTmps (apply t.d (.tmpRemove n)) m new (ns.erase n)) else none
  | _ => none

def actOrder (m : Mem) (ws : List Nat) : Option Mem :=
  match m.c with
  | .down => some { m with c := .ordered ws }
  | _ => none

/-- can the program emit this event now, and what is its volatile state afterwards -/
def act (t : TSt) (m : Mem) : PEv → Option Mem
  | .plan ins n => actPlan t m ins n
  | .order ws => actOrder m ws
  | .ev (.commit id b) => actCommit m id b
  | .ev (.ack b) => actAck m b
  | .ev (.raise lw) => actRaise t m lw
  | .ev (.op (.walCreate id)) => actWalCreate t m id
  | .ev (.op (.walAppend id bs)) => actWalAppend m id bs
  | .ev (.op (.walSync id)) => actWalSync m id
  | .ev (.op (.tmpCreate n)) => actTmpCreate t m n
  | .ev (.op (.tmpWrite n es)) => actTmpWrite t m n es
  | .ev (.op (.tmpSync n)) => actTmpSync m n
  | .ev (.op (.publish n)) => actPublish m n
  | .ev (.op (.tmpRemove n)) => actTmpRemove t m n
  | .ev (.op (.walRemove id)) => actWalRemove t m id
  | .ev (.op (.tableRemove s)) => actTableRemove m s

inductive PErr where
  | notProgram        -- the program cannot emit this event here: the trace is not one of the model's
  | rejected          -- the program emits it and the rule book refuses it
deriving DecidableEq, Repr

/-- one step of a trace checked against program and rule book together -/
def pstep (s : PSt) : PEv → Except PErr PSt
  | .plan ins n =>
    match act s.t s.m (.plan ins n) with
    | some m' => .ok { s with m := m' }
    | none => .error .notProgram
  | .order ws =>
    match act s.t s.m (.order ws) with
    | some m' => .ok { s with m := m' }
    | none => .error .notProgram
  | .ev e =>
    match act s.t s.m (.ev e) with
    | none => .error .notProgram
    | some m' =>
      match accept s.t e with
      | some t' => .ok { t := t', m := m' }
      | none => .error .rejected

/-- labels of an execution: program events and crashes (the disk that is left is part of the label) -/
inductive Label where
  | pev (e : PEv)
  | crash (d' : D)

/-- one step of an execution, a crash may lose unsynced tails (`CutOf`) -/
inductive Step : PSt → Label → PSt → Prop where
  | ev {s : PSt} {e : Ev} {m' : Mem} {t' : TSt} :
      act s.t s.m (.ev e) = some m' → accept s.t e = some t' → Step s (.pev (.ev e)) { t := t', m := m' }
  | plan {s : PSt} {ins : List Nat} {n : Nat} {m' : Mem} :
      act s.t s.m (.plan ins n) = some m' → Step s (.pev (.plan ins n)) { s with m := m' }
  | order {s : PSt} {ws : List Nat} {m' : Mem} :
      act s.t s.m (.order ws) = some m' → Step s (.pev (.order ws)) { s with m := m' }
  | crash {s : PSt} {d' : D} :
      CutOf s.t.d d' → Step s (.crash d') { t := { s.t with d := d' }, m := crashMem s.m }

inductive Reach : PSt → Prop where
  | init : Reach PSt.init
  | step {s s' : PSt} {l : Label} : Reach s → Step s l s' → Reach s'

/-- the program is about to emit `e` -/
def Emits (s : PSt) (e : Ev) : Prop := ∃ m', act s.t s.m (.ev e) = some m'

end Prog
