/-! pkg/filter/filter.go: bloom filter over an abstract hash family.

`h i key` stands for `murmur3.New32WithSeed(i)` applied to `key` (trusted base: the hash
functions are arbitrary functions; the hash state is `Reset` after every use, so each call is a
pure function of the key).  `m` (bit count) and `k` (number of hash functions) come from the
floating point formulas in `filter.New`; they are parameters here. -/
namespace Filter

abbrev Bytes := List UInt8

structure F where
  bits : List Bool
  k : Nat
deriving Repr, DecidableEq

/-- filter.New: `m` cleared bits, `k` hash functions -/
def new (m k : Nat) : F := { bits := List.replicate m false, k := k }

/-- `index := int(fn.Sum32()) % len(f.bitset)` -/
def idx (h : Nat → Bytes → Nat) (f : F) (i : Nat) (key : Bytes) : Nat := h i key % f.bits.length

/-- Filter.Add: for every hash function set the bit -/
def addLoop (h : Nat → Bytes → Nat) (key : Bytes) : List Nat → F → F
  | [], f => f
  | i :: is, f => addLoop h key is { f with bits := f.bits.set (idx h f i key) true }

def add (h : Nat → Bytes → Nat) (f : F) (key : Bytes) : F := addLoop h key (List.range f.k) f

/-- Filter.Contains: false at the first hash function whose bit is clear -/
def containsLoop (h : Nat → Bytes → Nat) (f : F) (key : Bytes) : List Nat → Bool
  | [] => true
  | i :: is => f.bits.getD (idx h f i key) false && containsLoop h f key is

def contains (h : Nat → Bytes → Nat) (f : F) (key : Bytes) : Bool := containsLoop h f key (List.range f.k)

/-- filter.Build over the user keys of the entries -/
def build (h : Nat → Bytes → Nat) (m k : Nat) (keys : List Bytes) : F := keys.foldl (add h) (new m k)

/-! ### proofs -/

/-- bits are only ever set -/
def Le (f g : F) : Prop :=
  f.k = g.k ∧ f.bits.length = g.bits.length ∧ ∀ j, f.bits.getD j false = true → g.bits.getD j false = true

theorem Le.refl (f : F) : Le f f := ⟨rfl, rfl, fun _ h => h⟩

theorem Le.trans {f g h : F} (a : Le f g) (b : Le g h) : Le f h :=
  ⟨a.1.trans b.1, a.2.1.trans b.2.1, fun j hj => b.2.2 j (a.2.2 j hj)⟩

theorem getD_set (l : List Bool) (i j : Nat) :
    (l.set i true).getD j false = if i = j ∧ i < l.length then true else l.getD j false := by
  simp only [List.getD_eq_getElem?_getD, List.getElem?_set]
  by_cases hij : i = j
  · subst hij
    by_cases hl : i < l.length
    · simp [hl]
    · simp [hl]
  · simp [hij]

theorem le_set (f : F) (i : Nat) : Le f { f with bits := f.bits.set i true } := by
  refine ⟨rfl, by simp, fun j hj => ?_⟩
  simp only [getD_set]
  split
  · rfl
  · exact hj

theorem addLoop_le (h : Nat → Bytes → Nat) (key : Bytes) (is : List Nat) (f : F) :
    Le f (addLoop h key is f) := by
  induction is generalizing f with
  | nil => exact Le.refl f
  | cons i is ih => exact (le_set f _).trans (ih _)

theorem add_le (h : Nat → Bytes → Nat) (f : F) (key : Bytes) : Le f (add h f key) := addLoop_le h key _ f

/-- after the add loop over `is` every bit of `is` is set -/
theorem addLoop_sets (h : Nat → Bytes → Nat) (key : Bytes) (is : List Nat) (f : F) (hm : 0 < f.bits.length) :
    ∀ i ∈ is, (addLoop h key is f).bits.getD (h i key % f.bits.length) false = true := by
  induction is generalizing f with
  | nil => intro i hi; cases hi
  | cons i0 is ih =>
    intro i hi
    have hlen : ({ f with bits := f.bits.set (idx h f i0 key) true } : F).bits.length = f.bits.length := by simp
    rcases List.mem_cons.mp hi with rfl | hi'
    · -- bit set now, later steps only add
      have hset : ({ f with bits := f.bits.set (idx h f i key) true } : F).bits.getD (h i key % f.bits.length) false = true := by
        simp only [getD_set, idx]
        rw [if_pos ⟨trivial, Nat.mod_lt _ hm⟩]
      exact (addLoop_le h key is _).2.2 _ hset
    · have := ih { f with bits := f.bits.set (idx h f i0 key) true } (by rw [hlen]; exact hm) i hi'
      rw [hlen] at this
      exact this

theorem containsLoop_of_bits (h : Nat → Bytes → Nat) (f : F) (key : Bytes) (is : List Nat)
    (hb : ∀ i ∈ is, f.bits.getD (h i key % f.bits.length) false = true) :
    containsLoop h f key is = true := by
  induction is with
  | nil => rfl
  | cons i is ih =>
    simp only [containsLoop, idx, hb i (by simp), Bool.true_and]
    exact ih (fun j hj => hb j (by simp [hj]))

theorem contains_mono {f g : F} (hle : Le f g) (h : Nat → Bytes → Nat) (key : Bytes)
    (hc : contains h f key = true) : contains h g key = true := by
  unfold contains at *
  rw [← hle.1]
  generalize List.range f.k = is at hc ⊢
  induction is with
  | nil => rfl
  | cons i is ih =>
    simp only [containsLoop, idx, Bool.and_eq_true] at hc ⊢
    refine ⟨?_, ih hc.2⟩
    have := hle.2.2 _ hc.1
    rw [hle.2.1] at this
    exact this

theorem contains_add (h : Nat → Bytes → Nat) (f : F) (key : Bytes) (hm : 0 < f.bits.length) :
    contains h (add h f key) key = true := by
  unfold contains add
  have hle := addLoop_le h key (List.range f.k) f
  rw [← hle.1]
  apply containsLoop_of_bits
  intro i hi
  rw [← hle.2.1]
  exact addLoop_sets h key (List.range f.k) f hm i hi

theorem foldl_add_le (h : Nat → Bytes → Nat) (keys : List Bytes) (f : F) : Le f (keys.foldl (add h) f) := by
  induction keys generalizing f with
  | nil => exact Le.refl f
  | cons k ks ih => exact (add_le h f k).trans (ih _)

theorem foldl_contains (h : Nat → Bytes → Nat) (keys : List Bytes) (f : F) (hm : 0 < f.bits.length) :
    ∀ key ∈ keys, contains h (keys.foldl (add h) f) key = true := by
  induction keys generalizing f with
  | nil => intro k hk; cases hk
  | cons k0 ks ih =>
    intro key hk
    simp only [List.foldl_cons]
    have hlen : (add h f k0).bits.length = f.bits.length := (add_le h f k0).2.1.symm
    rcases List.mem_cons.mp hk with rfl | hk'
    · exact contains_mono (foldl_add_le h ks _) h key (contains_add h f key hm)
    · exact ih (add h f k0) (by rw [hlen]; exact hm) key hk'

/-- no false negatives, for every hash family, every `k` (also 0), every `m > 0`, every key list -/
theorem build_contains (h : Nat → Bytes → Nat) (m k : Nat) (hm : 0 < m) (keys : List Bytes) :
    ∀ key ∈ keys, contains h (build h m k keys) key = true :=
  foldl_contains h keys (new m k) (by simp [new]; exact hm)

end Filter
