import Originium.Model.DiskProgInv
/-! The file-system program never emits an event the rule book rejects, and keeps its invariant:
    one lemma per event kind (`step_*`), assembled in `DiskProgMain`. -/
namespace Prog
open Key VKey Table Levels LSM Disk

/-! ### congruence lemmas: which parts of the state an assertion looks at -/

theorem rs_congr {d d' : D} {m m' : Mem} (h : RS d m) (hw : d'.wals = d.wals)
    (hs : ∀ e ∈ tableEnts d', e ∈ surviving d)
    (ha : m'.active = m.active) (hi : m'.imms = m.imms) (hn : m'.nextWal = m.nextWal) (ht : m'.nextTs = m.nextTs)
    (hc : ∀ b, m.c = .commit b false → ∃ b', m'.c = .commit b' false) : RS d' m' := by
  refine ⟨?_, ?_, ?_, ?_, ?_, ?_, ?_, ?_, ?_⟩
  · intro w hw'; rw [hi, ha]; exact h.ids w (hw ▸ hw')
  · intro a haa; rw [hw]; exact h.act_ex a (ha ▸ haa)
  · rw [hi]; exact h.imms_sorted
  · intro a haa; rw [hi]; exact h.imms_lt a (ha ▸ haa)
  · rw [hi, hn]; exact h.imms_next
  · intro a haa; rw [hn]; exact h.act_next a (ha ▸ haa)
  · intro a haw b hbw; exact h.age a (hw ▸ haw) b (hw ▸ hbw)
  · intro e he
    rw [ht]
    rcases surviving_mem.mp he with h1 | h1
    · exact h.ts e (surviving_mem.mpr (Or.inl (by rw [allRecs, ← hw]; exact h1)))
    · exact h.ts e (hs e h1)
  · intro w hw'
    rcases h.sync w (hw ▸ hw') with h1 | ⟨h1, b, hb⟩
    · exact Or.inl h1
    · exact Or.inr ⟨ha ▸ h1, hc b hb⟩

theorem recsOf_congr {d d' : D} (hw : d'.wals = d.wals) (w : Nat) : recsOf d' w = recsOf d w := by
  simp [recsOf, hw]

theorem tmpIs_congr {d d' : D} (h : d'.tmps = d.tmps) {n : Nat} {es : List E} {sy : Bool} (ht : TmpIs d n es sy) :
    TmpIs d' n es sy := by
  unfold TmpIs at *; rw [h]; exact ht

theorem flushOK_congr {d d' : D} {w : Nat} {es : List E} (hr : recsOf d' w = recsOf d w) (h : FlushOK d w es) :
    FlushOK d' w es := by
  unfold FlushOK at *; rw [hr]; exact h

/-- the flusher's assertion only looks at tables, temporary files, the head of the queue and the
    records of the wal at the head -/
theorem fa_congr {d d' : D} {low : Nat} {m m' : Mem} (h : FA d low m) (htab : d'.tables = d.tables)
    (htmp : d'.tmps = d.tmps) (hf : m'.f = m.f)
    (hh : ∀ w, m.imms.head? = some w → m'.imms.head? = some w)
    (hr : ∀ w, m.imms.head? = some w → recsOf d' w = recsOf d w) : FA d' low m' := by
  have hnt : ∀ n, noTable d n → noTable d' n := by intro n hn; unfold noTable at *; rw [htab]; exact hn
  have hte : tableEnts d' = tableEnts d := by simp [tableEnts, htab]
  unfold FA at *
  rw [hf]
  cases hfm : m.f with
  | idle => trivial
  | f1 w n => rw [hfm] at h; exact ⟨hh w h.1, hnt n h.2.1, tmpIs_congr htmp h.2.2⟩
  | f2 w n =>
    rw [hfm] at h
    obtain ⟨h1, h2, es, h3, h4⟩ := h
    exact ⟨hh w h1, hnt n h2, es, tmpIs_congr htmp h3, flushOK_congr (hr w h1) h4⟩
  | f3 w n =>
    rw [hfm] at h
    obtain ⟨h1, h2, es, h3, h4⟩ := h
    exact ⟨hh w h1, hnt n h2, es, tmpIs_congr htmp h3, flushOK_congr (hr w h1) h4⟩
  | f4 w n =>
    rw [hfm] at h
    refine ⟨hh w h.1, ?_⟩
    rw [hr w h.1, hte]; exact h.2
  | c0 ins n => rw [hfm] at h; exact ⟨h.1, hnt n h.2⟩
  | c1 ins n => rw [hfm] at h; exact ⟨h.1, hnt n h.2⟩
  | c2 ins n => rw [hfm] at h; exact ⟨h.1, hnt n h.2.1, tmpIs_congr htmp h.2.2⟩
  | c3 ins n =>
    rw [hfm] at h
    obtain ⟨h1, h2, es, h3, h4⟩ := h
    refine ⟨h1, hnt n h2, es, tmpIs_congr htmp h3, ?_⟩
    unfold CompOK at *; rw [hte, htab]; exact h4
  | c4 ins n =>
    rw [hfm] at h
    obtain ⟨h1, h2, es, h3, h4⟩ := h
    refine ⟨h1, hnt n h2, es, tmpIs_congr htmp h3, ?_⟩
    unfold CompOK at *; rw [hte, htab]; exact h4
  | remove rest n =>
    rw [hfm] at h
    refine ⟨h.1, ?_⟩
    unfold RemOK at *; rw [htab]; exact h.2

/-! ### the wal file being appended to -/

def updRecs (id : Nat) (b : List E) (w : Wal) : Wal := if w.id = id then { w with recs := w.recs ++ b } else w
def updSync (id : Nat) (w : Wal) : Wal := if w.id = id then { w with synced := w.recs.length } else w

theorem wals_walAppend (d : D) (id : Nat) (b : List E) : (apply d (.walAppend id b)).wals = d.wals.map (updRecs id b) := rfl
theorem wals_walSync (d : D) (id : Nat) : (apply d (.walSync id)).wals = d.wals.map (updSync id) := rfl

@[simp] theorem updRecs_id (id : Nat) (b : List E) (w : Wal) : (updRecs id b w).id = w.id := by
  unfold updRecs; split <;> rfl
@[simp] theorem updSync_id (id : Nat) (w : Wal) : (updSync id w).id = w.id := by
  unfold updSync; split <;> rfl
@[simp] theorem updSync_recs (id : Nat) (w : Wal) : (updSync id w).recs = w.recs := by
  unfold updSync; split <;> rfl

theorem mem_updRecs {id : Nat} {b : List E} {w : Wal} {x : E} :
    x ∈ (updRecs id b w).recs ↔ x ∈ w.recs ∨ (w.id = id ∧ x ∈ b) := by
  unfold updRecs
  split
  · rename_i h; simp [h]
  · rename_i h; simp [h]

theorem recsOf_walAppend_ne (d : D) (id : Nat) (b : List E) (w : Nat) (hne : w ≠ id) :
    recsOf (apply d (.walAppend id b)) w = recsOf d w := by
  simp only [recsOf, wals_walAppend]
  induction d.wals with
  | nil => rfl
  | cons x xs ih =>
    simp only [List.map_cons, List.filter_cons, updRecs_id]
    by_cases hx : x.id = w
    · have hx' : x.id ≠ id := fun h => hne (hx ▸ h)
      simp only [hx, decide_true, ↓reduceIte, List.flatMap_cons, ih]
      unfold updRecs; simp [hx']
    · simp only [hx, decide_false, Bool.false_eq_true, ↓reduceIte, ih]

theorem recsOf_walSync (d : D) (id : Nat) (w : Nat) : recsOf (apply d (.walSync id)) w = recsOf d w := by
  simp only [recsOf, wals_walSync]
  induction d.wals with
  | nil => rfl
  | cons x xs ih =>
    simp only [List.map_cons, List.filter_cons, updSync_id]
    by_cases hx : x.id = w
    · simp only [hx, decide_true, ↓reduceIte, List.flatMap_cons, ih, updSync_recs]
    · simp only [hx, decide_false, Bool.false_eq_true, ↓reduceIte, ih]

theorem recsOf_walCreate_ne (d : D) (id : Nat) (w : Nat) (hne : w ≠ id) :
    recsOf (apply d (.walCreate id)) w = recsOf d w := by
  simp only [recsOf, apply, List.filter_append, List.flatMap_append]
  have : ([{ id := id, recs := [], synced := 0 }] : List Wal).filter (fun x => decide (x.id = w)) = [] := by
    simp [List.filter_cons, Ne.symm hne]
  rw [this]; simp

/-- the head of a sorted queue is below the active wal, hence not the active wal -/
theorem head_ne_active {d : D} {m : Mem} (h : RS d m) {w a : Nat} (hw : m.imms.head? = some w) (ha : m.active = some a) :
    w ≠ a := by
  have hmem : w ∈ m.imms := by
    cases hi : m.imms with
    | nil => rw [hi] at hw; cases hw
    | cons x xs => rw [hi] at hw; simp only [List.head?_cons, Option.some.injEq] at hw; simp [hw]
  have := h.imms_lt a ha w hmem
  omega

theorem head_mem {l : List Nat} {w : Nat} (h : l.head? = some w) : w ∈ l := by
  cases l with
  | nil => cases h
  | cons x xs => simp only [List.head?_cons, Option.some.injEq] at h; simp [h]

/-! ### Commit: write, fsync, acknowledge -/

theorem PInv.intro {t : TSt} {m : Mem} (h1 : Core t) (h2 : ∀ w ∈ t.d.wals, w.id < m.nextWal)
    (h3 : CA t.d m) (h4 : FA t.d t.low m) : PInv ⟨t, m⟩ := ⟨h1, h2, h3, h4⟩

theorem step_commit {t : TSt} {m : Mem} (h : PInv ⟨t, m⟩) {id : Nat} {b : List E} {m' : Mem}
    (ha : actCommit m id b = some m') :
    ∃ t', accept t (.commit id b) = some t' ∧ PInv ⟨t', m'⟩ := by
  have hca : CA t.d m := h.ca
  have hfa : FA t.d t.low m := h.fa
  have hlt : ∀ w ∈ t.d.wals, w.id < m.nextWal := h.idsLt
  have hcore : Core t := h.core
  unfold actCommit at ha
  split at ha
  · rename_i a e0 rest hc hact
    split at ha
    · rename_i hcond
      obtain ⟨haid, hts, hall, hnd⟩ := hcond
      simp only [Option.some.injEq] at ha
      subst haid
      simp only [CA, hc] at hca
      obtain ⟨hrs, _⟩ := hca
      have hbts : ∀ e ∈ e0 :: rest, ∀ x ∈ surviving t.d, x.key.ts < e.key.ts := by
        intro e he x hx
        have := hrs.ts x hx
        rw [hall e he]; omega
      have g : Guard t.d t.low (.walAppend a (e0 :: rest)) := by
        intro e he
        refine ⟨Or.inr ?_, ?_⟩
        · intro x hx _
          exact Nat.le_of_lt (hbts e he x (surviving_mem.mpr (Or.inr hx)))
        · intro het
          have := hbts e he e (surviving_mem.mpr (Or.inr het))
          omega
      obtain ⟨wa, hwa, hwaid⟩ := hrs.act_ex a hact
      have hacc : accept t (.commit a (e0 :: rest)) =
          some { t with d := apply t.d (.walAppend a (e0 :: rest)), batches := (e0 :: rest) :: t.batches } := by
        simp only [accept]
        rw [if_pos ⟨g, ⟨hbts, hnd⟩, wa, hwa, hwaid⟩]
      refine ⟨_, hacc, ?_⟩
      have hcore' := core_accept hcore _ hacc
      subst ha
      -- the new running shape
      have hrs' : RS (apply t.d (.walAppend a (e0 :: rest)))
          { m with c := .commit (e0 :: rest) false, nextTs := e0.key.ts + 1 } := by
        refine ⟨?_, ?_, hrs.imms_sorted, hrs.imms_lt, hrs.imms_next, hrs.act_next, ?_, ?_, ?_⟩
        · intro w hw
          rw [wals_walAppend] at hw
          obtain ⟨w0, hw0, rfl⟩ := List.mem_map.mp hw
          simpa using hrs.ids w0 hw0
        · intro a' ha'
          obtain ⟨w0, hw0, hid⟩ := hrs.act_ex a' ha'
          exact ⟨updRecs a (e0 :: rest) w0, by rw [wals_walAppend]; exact List.mem_map.mpr ⟨w0, hw0, rfl⟩, by simpa using hid⟩
        · intro x hx y hy hlt u hu v hv
          rw [wals_walAppend] at hx hy
          obtain ⟨x0, hx0, rfl⟩ := List.mem_map.mp hx
          obtain ⟨y0, hy0, rfl⟩ := List.mem_map.mp hy
          simp only [updRecs_id] at hlt
          rcases mem_updRecs.mp hu with hu | ⟨hxa, hu⟩
          · rcases mem_updRecs.mp hv with hv | ⟨hya, hv⟩
            · exact hrs.age x0 hx0 y0 hy0 hlt u hu v hv
            · exact hbts v hv u (surviving_mem.mpr (Or.inl (mem_allRecs.mpr ⟨x0, hx0, hu⟩)))
          · -- nothing is above the active wal
            exfalso
            rcases hrs.ids y0 hy0 with h1 | h1
            · have := hrs.imms_lt a hact _ h1; omega
            · rw [hact] at h1; simp only [Option.some.injEq] at h1; omega
        · intro e he
          simp only
          rcases surviving_mem.mp he with h1 | h1
          · obtain ⟨w, hw, hew⟩ := mem_allRecs.mp h1
            rw [wals_walAppend] at hw
            obtain ⟨w0, hw0, rfl⟩ := List.mem_map.mp hw
            rcases mem_updRecs.mp hew with h2 | ⟨_, h2⟩
            · have := hrs.ts e (surviving_mem.mpr (Or.inl (mem_allRecs.mpr ⟨w0, hw0, h2⟩)))
              omega
            · rw [hall e h2]; omega
          · have := hrs.ts e (surviving_mem.mpr (Or.inr h1))
            omega
        · intro w hw
          rw [wals_walAppend] at hw
          obtain ⟨w0, hw0, rfl⟩ := List.mem_map.mp hw
          by_cases hid : w0.id = a
          · exact Or.inr ⟨by simp [hid, hact], _, rfl⟩
          · left
            have : updRecs a (e0 :: rest) w0 = w0 := by unfold updRecs; simp [hid]
            rw [this]
            rcases hrs.sync w0 hw0 with h1 | ⟨_, b', hb'⟩
            · exact h1
            · rw [hc] at hb'; cases hb'
      refine PInv.intro hcore' ?_ ?_ ?_
      · intro w hw
        simp only at hw
        rw [wals_walAppend] at hw
        obtain ⟨w0, hw0, rfl⟩ := List.mem_map.mp hw
        simpa using hlt w0 hw0
      · simp only [CA]
        refine ⟨hrs', a, hact, ?_⟩
        intro e he
        refine ⟨⟨updRecs a (e0 :: rest) wa, by rw [wals_walAppend]; exact List.mem_map.mpr ⟨wa, hwa, rfl⟩, by simpa using hwaid, ?_⟩, ?_⟩
        · exact mem_updRecs.mpr (Or.inr ⟨hwaid, he⟩)
        · show e0.key.ts + 1 ≤ e.key.ts + 1
          rw [hall e he]; exact Nat.le_refl _
      · show FA (apply t.d (.walAppend a (e0 :: rest))) t.low _
        refine fa_congr hfa rfl rfl rfl (fun w hw => hw) ?_
        intro w hw
        exact recsOf_walAppend_ne _ _ _ _ (head_ne_active hrs hw hact)
    · cases ha
  · cases ha


theorem allRecs_walSync (d : D) (id : Nat) {e : E} : e ∈ allRecs (apply d (.walSync id)) ↔ e ∈ allRecs d := by
  simp only [mem_allRecs, wals_walSync, List.mem_map]
  constructor
  · rintro ⟨w, ⟨w0, hw0, rfl⟩, he⟩; exact ⟨w0, hw0, by simpa using he⟩
  · rintro ⟨w0, hw0, he⟩; exact ⟨_, ⟨w0, hw0, rfl⟩, by simpa using he⟩

theorem updSync_of_ne {id : Nat} {w : Wal} (h : w.id ≠ id) : updSync id w = w := by unfold updSync; simp [h]
theorem updSync_of_eq {id : Nat} {w : Wal} (h : w.id = id) : (updSync id w).synced = w.recs.length := by
  unfold updSync; simp [h]

/-- fsync only adds to the synced records -/
theorem syncedRecs_walSync (d : D) (id : Nat) {e : E} (h : e ∈ syncedRecs d) (hle : ∀ w ∈ d.wals, w.synced ≤ w.recs.length) :
    e ∈ syncedRecs (apply d (.walSync id)) := by
  obtain ⟨w, hw, he⟩ := mem_syncedRecs.mp h
  refine mem_syncedRecs.mpr ⟨updSync id w, by rw [wals_walSync]; exact List.mem_map.mpr ⟨w, hw, rfl⟩, ?_⟩
  by_cases hid : w.id = id
  · rw [updSync_of_eq hid, updSync_recs, List.take_length]; exact List.mem_of_mem_take he
  · rw [updSync_of_ne hid]; exact he

theorem step_walSync_commit {t : TSt} {m : Mem} (h : PInv ⟨t, m⟩) {id : Nat} {b : List E}
    (hc : m.c = .commit b false) (hact : m.active = some id) :
    ∃ t', accept t (.op (.walSync id)) = some t' ∧ PInv ⟨t', { m with c := .commit b true }⟩ := by
  have hca : CA t.d m := h.ca
  have hfa : FA t.d t.low m := h.fa
  have hlt : ∀ w ∈ t.d.wals, w.id < m.nextWal := h.idsLt
  have hcore : Core t := h.core
  have hacc := acceptOp_eq (t := t) (o := .walSync id) trivial trivial
  refine ⟨_, hacc, ?_⟩
  have hcore' := core_accept hcore _ hacc
  simp only [CA, hc] at hca
  obtain ⟨hrs, a, ha, hb⟩ := hca
  rw [hact] at ha; simp only [Option.some.injEq] at ha; subst ha
  have hrs' : RS (apply t.d (.walSync id)) { m with c := .commit b true } := by
    refine ⟨?_, ?_, hrs.imms_sorted, hrs.imms_lt, hrs.imms_next, hrs.act_next, ?_, ?_, ?_⟩
    · intro w hw
      rw [wals_walSync] at hw
      obtain ⟨w0, hw0, rfl⟩ := List.mem_map.mp hw
      simpa using hrs.ids w0 hw0
    · intro a' ha'
      obtain ⟨w0, hw0, hid⟩ := hrs.act_ex a' ha'
      exact ⟨updSync id w0, by rw [wals_walSync]; exact List.mem_map.mpr ⟨w0, hw0, rfl⟩, by simpa using hid⟩
    · intro x hx y hy hlt' u hu v hv
      rw [wals_walSync] at hx hy
      obtain ⟨x0, hx0, rfl⟩ := List.mem_map.mp hx
      obtain ⟨y0, hy0, rfl⟩ := List.mem_map.mp hy
      simp only [updSync_id, updSync_recs] at hlt' hu hv
      exact hrs.age x0 hx0 y0 hy0 hlt' u hu v hv
    · intro e he
      apply hrs.ts e
      rcases surviving_mem.mp he with h1 | h1
      · exact surviving_mem.mpr (Or.inl ((allRecs_walSync t.d id).mp h1))
      · exact surviving_mem.mpr (Or.inr h1)
    · intro w hw
      rw [wals_walSync] at hw
      obtain ⟨w0, hw0, rfl⟩ := List.mem_map.mp hw
      left
      by_cases hid : w0.id = id
      · rw [updSync_of_eq hid, updSync_recs]
      · rw [updSync_of_ne hid]
        rcases hrs.sync w0 hw0 with h1 | ⟨h1, _⟩
        · exact h1
        · rw [hact] at h1; simp only [Option.some.injEq] at h1; exact absurd h1.symm hid
  refine PInv.intro hcore' ?_ ?_ ?_
  · intro w hw
    simp only at hw
    rw [wals_walSync] at hw
    obtain ⟨w0, hw0, rfl⟩ := List.mem_map.mp hw
    simpa using hlt w0 hw0
  · simp only [CA]
    refine ⟨hrs', ⟨id, hact⟩, ?_⟩
    intro e he
    obtain ⟨⟨w0, hw0, hid, hew⟩, hts⟩ := hb e he
    refine ⟨Or.inl (mem_syncedRecs.mpr ⟨updSync id w0, by rw [wals_walSync]; exact List.mem_map.mpr ⟨w0, hw0, rfl⟩, ?_⟩), hts⟩
    rw [updSync_of_eq hid, updSync_recs, List.take_length]; exact hew
  · show FA (apply t.d (.walSync id)) t.low _
    exact fa_congr hfa rfl rfl rfl (fun w hw => hw) (fun w _ => recsOf_walSync _ _ _)

theorem step_ack {t : TSt} {m : Mem} (h : PInv ⟨t, m⟩) {b' : List E} {m' : Mem}
    (ha : actAck m b' = some m') :
    ∃ t', accept t (.ack b') = some t' ∧ PInv ⟨t', m'⟩ := by
  have hca : CA t.d m := h.ca
  have hfa : FA t.d t.low m := h.fa
  have hlt : ∀ w ∈ t.d.wals, w.id < m.nextWal := h.idsLt
  have hcore : Core t := h.core
  unfold actAck at ha
  split at ha
  · rename_i b hc
    split at ha
    · rename_i hbb
      simp only [Option.some.injEq] at ha
      subst ha
      simp only [CA, hc] at hca
      obtain ⟨hrs, hact, hb⟩ := hca
      have hacc : accept t (.ack b') = some { t with acked := t.acked ++ b' } := by
        simp only [accept]
        rw [if_pos (fun e he => (hb e (hbb.1 e he)).1)]
      refine ⟨_, hacc, PInv.intro (core_accept hcore _ hacc) hlt ?_ ?_⟩
      · simp only [CA]
        refine ⟨rs_congr hrs rfl (fun e he => surviving_mem.mpr (Or.inr he)) rfl rfl rfl rfl ?_, hact⟩
        intro b0 hb0; rw [hc] at hb0; cases hb0
      · exact fa_congr hfa rfl rfl rfl (fun w hw => hw) (fun w _ => rfl)
    · cases ha
  · cases ha

/-- memtable rotation: the wal file of the next memtable -/
theorem step_rotate {t : TSt} {m : Mem} (h : PInv ⟨t, m⟩) {id a : Nat}
    (hc : m.c = .idle ∨ ∃ b, m.c = .commit b true) (hact : m.active = some a) (hid : m.nextWal ≤ id) :
    ∃ t', accept t (.op (.walCreate id)) = some t' ∧
      PInv ⟨t', { m with imms := m.imms ++ [a], active := some id, nextWal := id + 1 }⟩ := by
  have hca : CA t.d m := h.ca
  have hfa : FA t.d t.low m := h.fa
  have hlt : ∀ w ∈ t.d.wals, w.id < m.nextWal := h.idsLt
  have hcore : Core t := h.core
  have g : Guard t.d t.low (.walCreate id) := by
    intro w hw; have := hlt w hw; omega
  have hacc := acceptOp_eq (t := t) (o := .walCreate id) g trivial
  refine ⟨_, hacc, ?_⟩
  have hcore' := core_accept hcore _ hacc
  have hrs : RS t.d m := by
    rcases hc with hc | ⟨b, hc⟩ <;> simp only [CA, hc] at hca <;> exact hca.1
  have hnc : ∀ b, m.c ≠ .commit b false := by
    intro b hb
    rcases hc with hc | ⟨b', hc⟩ <;> rw [hc] at hb <;> cases hb
  have hwals : (apply t.d (.walCreate id)).wals = t.d.wals ++ [{ id := id, recs := [], synced := 0 }] := rfl
  have hall : ∀ e, e ∈ allRecs (apply t.d (.walCreate id)) ↔ e ∈ allRecs t.d := by
    intro e; simp [allRecs, hwals]
  have hsyn : ∀ e, e ∈ syncedRecs t.d → e ∈ syncedRecs (apply t.d (.walCreate id)) := by
    intro e he; simp only [syncedRecs, hwals, List.flatMap_append, List.mem_append]; exact Or.inl he
  have hrs' : RS (apply t.d (.walCreate id)) { m with imms := m.imms ++ [a], active := some id, nextWal := id + 1 } := by
    refine ⟨?_, ?_, ?_, ?_, ?_, ?_, ?_, ?_, ?_⟩
    · intro w hw
      rw [hwals] at hw
      rcases List.mem_append.mp hw with hw | hw
      · left
        rcases hrs.ids w hw with h1 | h1
        · exact List.mem_append.mpr (Or.inl h1)
        · rw [hact] at h1; simp only [Option.some.injEq] at h1; simp [h1]
      · simp only [List.mem_singleton] at hw; subst hw; exact Or.inr rfl
    · intro a' ha'
      simp only [Option.some.injEq] at ha'; subst ha'
      exact ⟨⟨id, [], 0⟩, by rw [hwals]; simp, rfl⟩
    · show (m.imms ++ [a]).Pairwise (· < ·)
      rw [List.pairwise_append]
      refine ⟨hrs.imms_sorted, by simp, ?_⟩
      intro x hx y hy
      simp only [List.mem_singleton] at hy; subst hy
      exact hrs.imms_lt y hact x hx
    · intro a' ha' i hi
      simp only [Option.some.injEq] at ha'; subst ha'
      rcases List.mem_append.mp hi with hi | hi
      · have := hrs.imms_next i hi; omega
      · simp only [List.mem_singleton] at hi; subst hi
        have := hrs.act_next i hact; omega
    · intro i hi
      show i < id + 1
      rcases List.mem_append.mp hi with hi | hi
      · have := hrs.imms_next i hi; omega
      · simp only [List.mem_singleton] at hi; subst hi
        have := hrs.act_next i hact; omega
    · intro a' ha'
      simp only [Option.some.injEq] at ha'; subst ha'
      show id < id + 1; omega
    · intro x hx y hy hlt' u hu v hv
      rw [hwals] at hx hy
      rcases List.mem_append.mp hx with hx | hx
      · rcases List.mem_append.mp hy with hy | hy
        · exact hrs.age x hx y hy hlt' u hu v hv
        · simp only [List.mem_singleton] at hy; subst hy; cases hv
      · simp only [List.mem_singleton] at hx; subst hx; cases hu
    · intro e he
      apply hrs.ts e
      rcases surviving_mem.mp he with h1 | h1
      · exact surviving_mem.mpr (Or.inl ((hall e).mp h1))
      · exact surviving_mem.mpr (Or.inr h1)
    · intro w hw
      rw [hwals] at hw
      rcases List.mem_append.mp hw with hw | hw
      · rcases hrs.sync w hw with h1 | ⟨_, b, hb⟩
        · exact Or.inl h1
        · exact absurd hb (hnc b)
      · simp only [List.mem_singleton] at hw; subst hw; exact Or.inl rfl
  refine PInv.intro hcore' ?_ ?_ ?_
  · intro w hw
    simp only at hw
    rw [hwals] at hw
    show w.id < id + 1
    rcases List.mem_append.mp hw with hw | hw
    · have := hlt w hw; omega
    · simp only [List.mem_singleton] at hw; subst hw; show id < id + 1; omega
  · rcases hc with hc | ⟨b, hc⟩
    · rw [hc] at hrs'
      simp only [CA, hc]
      exact ⟨hrs', id, rfl⟩
    · rw [hc] at hrs'
      simp only [CA, hc] at hca ⊢
      refine ⟨hrs', ⟨id, rfl⟩, ?_⟩
      intro e he
      obtain ⟨h1, h2⟩ := hca.2.2 e he
      refine ⟨?_, h2⟩
      rcases h1 with h1 | h1
      · exact Or.inl (hsyn e h1)
      · exact Or.inr h1
  · show FA (apply t.d (.walCreate id)) t.low _
    refine fa_congr hfa rfl rfl rfl ?_ ?_
    · intro w hw
      show (m.imms ++ [a]).head? = some w
      cases hi : m.imms with
      | nil => rw [hi] at hw; cases hw
      | cons x xs => rw [hi] at hw; simpa using hw
    · intro w hw
      apply recsOf_walCreate_ne
      have := hrs.imms_next w (head_mem hw); omega


/-! ### the flusher's events leave the wal files alone (except the final `walRemove`) -/

theorem c_of_busy {d : D} {m : Mem} (h : CA d m) (hf : m.f ≠ .idle) : running m.c = true ∨ m.c = .closing := by
  unfold CA at h
  cases hc : m.c with
  | down => rw [hc] at h; exact absurd h hf
  | ordered ws => rw [hc] at h; exact absurd h hf
  | idle => exact Or.inl rfl
  | commit b sy => exact Or.inl rfl
  | closing => exact Or.inr rfl
  | openRec new w rs ws sy => rw [hc] at h; exact absurd h.1 hf
  | openTmp new ns => rw [hc] at h; exact absurd h.1 hf

theorem rs_of_busy {d : D} {m : Mem} (h : CA d m) (hb : running m.c = true ∨ m.c = .closing) : RS d m := by
  unfold CA at h
  cases hc : m.c with
  | down => rw [hc] at hb; simp [running] at hb
  | ordered ws => rw [hc] at hb; simp [running] at hb
  | idle => rw [hc] at h; exact h.1
  | commit b sy => cases sy <;> (rw [hc] at h; exact h.1)
  | closing => rw [hc] at h; exact h.1
  | openRec new w rs ws sy => rw [hc] at hb; simp [running] at hb
  | openTmp new ns => rw [hc] at hb; simp [running] at hb

theorem syncedRecs_congr {d d' : D} (hw : d'.wals = d.wals) : syncedRecs d' = syncedRecs d := by simp [syncedRecs, hw]

/-- foreground assertion under a flusher event that does not touch wal files -/
theorem ca_flusher {d d' : D} {m m' : Mem} (h : CA d m) (hb : running m.c = true ∨ m.c = .closing)
    (hw : d'.wals = d.wals) (hs : ∀ e ∈ tableEnts d', e ∈ surviving d)
    (hdur : ∀ e ∈ tableEnts d, m.nextTs ≤ e.key.ts + 1 → e ∈ tableEnts d')
    (hc : m'.c = m.c) (ha : m'.active = m.active) (hi : m'.imms = m.imms) (hn : m'.nextWal = m.nextWal)
    (ht : m'.nextTs = m.nextTs)
    (hcl : m.c = .closing → ∃ w n, m'.imms = [w] ∧ (m'.f = .f1 w n ∨ m'.f = .f2 w n ∨ m'.f = .f3 w n ∨ m'.f = .f4 w n)) :
    CA d' m' := by
  have hrs' : RS d' m' := rs_congr (rs_of_busy h hb) hw hs ha hi hn ht (by intro b hb'; exact ⟨b, by rw [hc]; exact hb'⟩)
  unfold CA at h ⊢
  rw [hc]
  cases hcm : m.c with
  | down => rw [hcm] at hb; simp [running] at hb
  | ordered ws => rw [hcm] at hb; simp [running] at hb
  | idle => rw [hcm] at h; exact ⟨hrs', by rw [ha]; exact h.2⟩
  | commit b sy =>
    cases sy with
    | false =>
      rw [hcm] at h
      obtain ⟨_, a, haa, hbb⟩ := h
      exact ⟨hrs', a, by rw [ha]; exact haa, by rw [hw, ht]; exact hbb⟩
    | true =>
      rw [hcm] at h
      obtain ⟨_, haa, hbb⟩ := h
      refine ⟨hrs', by rw [ha]; exact haa, ?_⟩
      intro e he
      obtain ⟨h1, h2⟩ := hbb e he
      refine ⟨?_, by rw [ht]; exact h2⟩
      rcases h1 with h1 | h1
      · exact Or.inl (by rw [syncedRecs_congr hw]; exact h1)
      · exact Or.inr (hdur e h1 h2)
  | closing =>
    rw [hcm] at h
    exact ⟨hrs', by rw [ha]; exact h.2.1, hcl hcm⟩
  | openRec new w rs ws sy => rw [hcm] at hb; simp [running] at hb
  | openTmp new ns => rw [hcm] at hb; simp [running] at hb

/-! ### temporary files -/

theorem find_tmpCreate (d : D) (n : Nat) :
    (apply d (.tmpCreate n)).tmps.find? (·.name = n) = some { name := n, ents := [], synced := false } := by
  simp only [apply]
  rw [List.find?_append]
  have : (d.tmps.filter (·.name ≠ n)).find? (·.name = n) = none := by
    rw [List.find?_eq_none]
    intro x hx
    simp only [List.mem_filter, decide_eq_true_eq] at hx
    simpa using hx.2
  rw [this]; simp

theorem tmpIs_create (d : D) (n : Nat) : TmpIs (apply d (.tmpCreate n)) n [] false :=
  ⟨_, find_tmpCreate d n, rfl, by simp⟩

theorem find_map_upd (l : List Tmp) (n : Nat) (f : Tmp → Tmp) (hf : ∀ x, (f x).name = x.name) :
    (l.map fun x => if x.name = n then f x else x).find? (·.name = n) = (l.find? (·.name = n)).map f := by
  induction l with
  | nil => rfl
  | cons x xs ih =>
    simp only [List.map_cons, List.find?_cons]
    by_cases hx : x.name = n
    · simp [hx, hf]
    · simp [hx, ih]

theorem tmpIs_write {d : D} {n : Nat} {es0 : List E} {sy : Bool} (h : TmpIs d n es0 sy) (es : List E) :
    TmpIs (apply d (.tmpWrite n es)) n (es0 ++ es) false := by
  obtain ⟨t, hf, he, _⟩ := h
  refine ⟨{ t with ents := t.ents ++ es, synced := false }, ?_, by simp [he], by simp⟩
  simp only [apply]
  rw [find_map_upd d.tmps n (fun t => { t with ents := t.ents ++ es, synced := false }) (fun _ => rfl), hf]
  rfl

theorem tmpIs_sync {d : D} {n : Nat} {es : List E} {sy : Bool} (h : TmpIs d n es sy) :
    TmpIs (apply d (.tmpSync n)) n es true := by
  obtain ⟨t, hf, he, _⟩ := h
  refine ⟨{ t with synced := true }, ?_, he, fun _ => rfl⟩
  simp only [apply]
  rw [find_map_upd d.tmps n (fun t => { t with synced := true }) (fun _ => rfl), hf]
  rfl

end Prog
