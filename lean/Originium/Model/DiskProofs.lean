import Originium.Model.Disk
/-! Every guarded operation preserves the disk invariant; so does the loss of unsynced tails. -/
namespace Disk
open Key VKey Table Levels LSM

variable {d : D} {acked : List E} {low : Nat}

/-- operations that touch only temporary files -/
theorem inv_tmp_only (h : Inv d acked low) (d' : D) (hw : d'.wals = d.wals) (ht : d'.tables = d.tables) :
    Inv d' acked low := by
  have e1 : allRecs d' = allRecs d := by simp [allRecs, hw]
  have e2 : syncedRecs d' = syncedRecs d := by simp [syncedRecs, hw]
  have e3 : tableEnts d' = tableEnts d := by simp [tableEnts, ht]
  refine ⟨?_, ?_, ?_, ?_⟩
  · intro e he
    rcases h.durable e he with h1 | h1 | ⟨e', he', hr⟩
    · exact Or.inl (e2 ▸ h1)
    · exact Or.inr (Or.inl (e3 ▸ h1))
    · exact Or.inr (Or.inr ⟨e', e3 ▸ he', hr⟩)
  · rw [e3, e1]; exact h.order
  · rw [hw]; exact h.synced_le
  · rw [e3, e1, e2]; exact h.table_synced

theorem inv_walCreate (h : Inv d acked low) (id : Nat) : Inv (apply d (.walCreate id)) acked low := by
  have e1 : allRecs (apply d (.walCreate id)) = allRecs d := by simp [allRecs, apply]
  have e2 : syncedRecs (apply d (.walCreate id)) = syncedRecs d := by simp [syncedRecs, apply]
  have e3 : tableEnts (apply d (.walCreate id)) = tableEnts d := rfl
  refine ⟨?_, ?_, ?_, ?_⟩
  · intro e he
    rcases h.durable e he with h1 | h1 | h1
    · exact Or.inl (e2 ▸ h1)
    · exact Or.inr (Or.inl h1)
    · exact Or.inr (Or.inr h1)
  · rw [e3, e1]; exact h.order
  · intro w hw
    simp only [apply, List.mem_append, List.mem_singleton] at hw
    rcases hw with hw | rfl
    · exact h.synced_le w hw
    · simp
  · rw [e3, e1, e2]; exact h.table_synced

/-- the records of every wal only grow at the end -/
theorem take_append_of_le {α : Type} (l b : List α) (n : Nat) (hn : n ≤ l.length) : (l ++ b).take n = l.take n := by
  rw [List.take_append_of_le_length hn]

theorem inv_walAppend (h : Inv d acked low) (id : Nat) (b : List E) (g : Guard d low (.walAppend id b)) :
    Inv (apply d (.walAppend id b)) acked low := by
  have e3 : tableEnts (apply d (.walAppend id b)) = tableEnts d := rfl
  have hsync : ∀ e, e ∈ syncedRecs d ↔ e ∈ syncedRecs (apply d (.walAppend id b)) := by
    intro e
    simp only [mem_syncedRecs, apply, List.mem_map]
    constructor
    · rintro ⟨w, hw, he⟩
      by_cases hid : w.id = id
      · refine ⟨{ w with recs := w.recs ++ b }, ⟨w, hw, by simp [hid]⟩, ?_⟩
        simp only
        rw [take_append_of_le _ _ _ (h.synced_le w hw)]; exact he
      · exact ⟨w, ⟨w, hw, by simp [hid]⟩, he⟩
    · rintro ⟨w', ⟨w, hw, rfl⟩, he⟩
      by_cases hid : w.id = id
      · simp only [hid, ↓reduceIte] at he
        rw [take_append_of_le _ _ _ (h.synced_le w hw)] at he
        exact ⟨w, hw, he⟩
      · simp only [hid, ↓reduceIte] at he
        exact ⟨w, hw, he⟩
  have hall : ∀ e, e ∈ allRecs (apply d (.walAppend id b)) → e ∈ allRecs d ∨ e ∈ b := by
    intro e he
    simp only [mem_allRecs, apply, List.mem_map] at he
    obtain ⟨w', ⟨w, hw, rfl⟩, he⟩ := he
    by_cases hid : w.id = id
    · simp only [hid, ↓reduceIte, List.mem_append] at he
      rcases he with he | he
      · exact Or.inl (mem_allRecs.mpr ⟨w, hw, he⟩)
      · exact Or.inr he
    · simp only [hid, ↓reduceIte] at he
      exact Or.inl (mem_allRecs.mpr ⟨w, hw, he⟩)
  have hall2 : ∀ e, e ∈ allRecs d → e ∈ allRecs (apply d (.walAppend id b)) := by
    intro e he
    obtain ⟨w, hw, hew⟩ := mem_allRecs.mp he
    simp only [mem_allRecs, apply, List.mem_map]
    by_cases hid : w.id = id
    · exact ⟨_, ⟨w, hw, rfl⟩, by simp [hid, hew]⟩
    · exact ⟨_, ⟨w, hw, rfl⟩, by simp [hid, hew]⟩
  refine ⟨?_, ?_, ?_, ?_⟩
  · intro e he
    rcases h.durable e he with h1 | h1 | h1
    · exact Or.inl ((hsync e).mp h1)
    · exact Or.inr (Or.inl h1)
    · exact Or.inr (Or.inr h1)
  · intro e' he' hnot e he
    rw [e3] at he'
    have hnot' : e' ∉ allRecs d := fun hh => hnot (hall2 e' hh)
    rcases hall e he with h1 | h1
    · exact h.order e' he' hnot' e h1
    · rcases (g e h1).1 with h2 | h2
      · exact h.order e' he' hnot' e h2
      · exact h2 e' he' hnot'
  · intro w' hw'
    simp only [apply, List.mem_map] at hw'
    obtain ⟨w, hw, rfl⟩ := hw'
    have := h.synced_le w hw
    split
    · simp only [List.length_append]; omega
    · exact this
  · intro e he hin
    rw [e3] at he
    rcases hall e hin with h1 | h1
    · exact (hsync e).mp (h.table_synced e he h1)
    · exact (hsync e).mp ((g e h1).2 he)

theorem inv_walSync (h : Inv d acked low) (id : Nat) : Inv (apply d (.walSync id)) acked low := by
  have e3 : tableEnts (apply d (.walSync id)) = tableEnts d := rfl
  have e1 : ∀ e, e ∈ allRecs (apply d (.walSync id)) ↔ e ∈ allRecs d := by
    intro e
    simp only [mem_allRecs, apply, List.mem_map]
    constructor
    · rintro ⟨w', ⟨w, hw, rfl⟩, he⟩
      refine ⟨w, hw, ?_⟩
      split at he <;> exact he
    · rintro ⟨w, hw, he⟩
      refine ⟨_, ⟨w, hw, rfl⟩, ?_⟩
      split <;> exact he
  have hsync : ∀ e, e ∈ syncedRecs d → e ∈ syncedRecs (apply d (.walSync id)) := by
    intro e he
    obtain ⟨w, hw, hew⟩ := mem_syncedRecs.mp he
    simp only [mem_syncedRecs, apply, List.mem_map]
    refine ⟨_, ⟨w, hw, rfl⟩, ?_⟩
    split
    · simp only [List.take_length]; exact List.mem_of_mem_take hew
    · exact hew
  refine ⟨?_, ?_, ?_, ?_⟩
  · intro e he
    rcases h.durable e he with h1 | h1 | h1
    · exact Or.inl (hsync e h1)
    · exact Or.inr (Or.inl h1)
    · exact Or.inr (Or.inr h1)
  · intro e' he' hnot e he
    rw [e3] at he'
    exact h.order e' he' (fun hh => hnot ((e1 e').mpr hh)) e ((e1 e).mp he)
  · intro w' hw'
    simp only [apply, List.mem_map] at hw'
    obtain ⟨w, hw, rfl⟩ := hw'
    split
    · simp
    · exact h.synced_le w hw
  · intro e he hin
    rw [e3] at he
    exact hsync e (h.table_synced e he ((e1 e).mp hin))

theorem inv_publish (h : Inv d acked low) (n : Nat) (g : Guard d low (.publish n)) :
    Inv (apply d (.publish n)) acked low := by
  simp only [Guard] at g
  cases hf : d.tmps.find? (·.name = n) with
  | none => rw [hf] at g; exact absurd g id
  | some t0 =>
    rw [hf] at g
    obtain ⟨_, _, hcontent⟩ := g
    have hap : apply d (.publish n) = { d with tables := d.tables ++ [(n, t0.ents)], tmps := d.tmps.filter (·.name ≠ n) } := by
      simp [apply, hf]
    rw [hap]
    have e3 : ∀ e, e ∈ tableEnts { d with tables := d.tables ++ [(n, t0.ents)], tmps := d.tmps.filter (·.name ≠ n) } ↔
        e ∈ tableEnts d ∨ e ∈ t0.ents := by
      intro e; simp [tableEnts, List.flatMap_append]
    refine ⟨?_, ?_, h.synced_le, ?_⟩
    · intro e he
      rcases h.durable e he with h1 | h1 | ⟨e', he', hr⟩
      · exact Or.inl h1
      · exact Or.inr (Or.inl ((e3 e).mpr (Or.inl h1)))
      · exact Or.inr (Or.inr ⟨e', (e3 e').mpr (Or.inl he'), hr⟩)
    · intro e' he' hnot e he
      rcases (e3 e').mp he' with h1 | h1
      · exact h.order e' h1 hnot e he
      · rcases hcontent e' h1 with h2 | h2
        · exact absurd (synced_sub_all h2) hnot
        · exact h.order e' h2 hnot e he
    · intro e he hin
      rcases (e3 e).mp he with h1 | h1
      · exact h.table_synced e h1 hin
      · rcases hcontent e h1 with h2 | h2
        · exact h2
        · exact h.table_synced e h2 hin

/-- removing a wal whose records are safe elsewhere -/
theorem inv_walRemove (h : Inv d acked low) (id : Nat)
    (g : Guard d low (.walRemove id)) : Inv (apply d (.walRemove id)) acked low := by
  have hw' : ∀ w, w ∈ (apply d (.walRemove id)).wals ↔ w ∈ d.wals ∧ w.id ≠ id := by
    intro w; simp [apply, List.mem_filter]
  have htab : tableEnts (apply d (.walRemove id)) = tableEnts d := rfl
  have hall' : ∀ e, e ∈ allRecs (apply d (.walRemove id)) → e ∈ allRecs d := by
    intro e he
    obtain ⟨w, hw, hew⟩ := mem_allRecs.mp he
    exact mem_allRecs.mpr ⟨w, ((hw' w).mp hw).1, hew⟩
  have hkeep : ∀ e, e ∈ syncedRecs d → e ∈ syncedRecs (apply d (.walRemove id)) ∨
      (e ∈ tableEnts d ∧ ∀ w' ∈ d.wals, w'.id ≠ id → e ∉ w'.recs ∧ ∀ e2 ∈ w'.recs, e.key.ts ≤ e2.key.ts) := by
    intro e he
    obtain ⟨w, hw, hew⟩ := mem_syncedRecs.mp he
    by_cases hid : w.id = id
    · rcases g w hw hid e (List.mem_of_mem_take hew) with ⟨w2, hw2, hne, he2⟩ | hr
      · exact Or.inl (mem_syncedRecs.mpr ⟨w2, (hw' w2).mpr ⟨hw2, hne⟩, he2⟩)
      · exact Or.inr hr
    · exact Or.inl (mem_syncedRecs.mpr ⟨w, (hw' w).mpr ⟨hw, hid⟩, hew⟩)
  refine ⟨?_, ?_, ?_, ?_⟩
  · intro e he
    rcases h.durable e he with h1 | h1 | h1
    · rcases hkeep e h1 with h2 | h2
      · exact Or.inl h2
      · exact Or.inr (Or.inl h2.1)
    · exact Or.inr (Or.inl h1)
    · exact Or.inr (Or.inr h1)
  · intro e' he' hnot e he
    rw [htab] at he'
    obtain ⟨w, hw, hew⟩ := mem_allRecs.mp he
    have hwd := (hw' w).mp hw
    by_cases hold : e' ∈ allRecs d
    · obtain ⟨w0, hw0, hew0⟩ := mem_allRecs.mp hold
      by_cases hid : w0.id = id
      · rcases g w0 hw0 hid e' hew0 with ⟨w2, hw2, hne, he2⟩ | hr
        · exact absurd (mem_allRecs.mpr ⟨w2, (hw' w2).mpr ⟨hw2, hne⟩, List.mem_of_mem_take he2⟩) hnot
        · exact (hr.2 w hwd.1 hwd.2).2 e hew
      · exact absurd (mem_allRecs.mpr ⟨w0, (hw' w0).mpr ⟨hw0, hid⟩, hew0⟩) hnot
    · exact h.order e' he' hold e (hall' e he)
  · intro w hw; exact h.synced_le w ((hw' w).mp hw).1
  · intro e he hin
    rw [htab] at he
    rcases hkeep e (h.table_synced e he (hall' e hin)) with h2 | h2
    · exact h2
    · obtain ⟨w, hw, hew⟩ := mem_allRecs.mp hin
      have hwd := (hw' w).mp hw
      exact absurd hew (h2.2 w hwd.1 hwd.2).1

/-- removing a table whose entries are in another table or shadowed by an entry of another table -/
theorem inv_tableRemove (h : Inv d acked low) (n : Nat) (g : Guard d low (.tableRemove n)) :
    Inv (apply d (.tableRemove n)) acked low := by
  have ht' : ∀ p, p ∈ (apply d (.tableRemove n)).tables ↔ p ∈ d.tables ∧ p.1 ≠ n := by
    intro p; simp [apply, List.mem_filter]
  have hsub : ∀ e, e ∈ tableEnts (apply d (.tableRemove n)) → e ∈ tableEnts d := by
    intro e he
    obtain ⟨p, hp, hep⟩ := mem_tableEnts.mp he
    exact mem_tableEnts.mpr ⟨p, ((ht' p).mp hp).1, hep⟩
  -- every old table entry is still there, or shadowed by one that is
  have hcov : ∀ e, e ∈ tableEnts d → e ∈ tableEnts (apply d (.tableRemove n)) ∨ Shadowed (apply d (.tableRemove n)) low e := by
    intro e he
    obtain ⟨p, hp, hep⟩ := mem_tableEnts.mp he
    by_cases hpn : p.1 = n
    · rcases g p hp hpn e hep with ⟨q, hq, hqn, heq⟩ | ⟨q, hq, hqn, e', he', hr⟩
      · exact Or.inl (mem_tableEnts.mpr ⟨q, (ht' q).mpr ⟨hq, hqn⟩, heq⟩)
      · exact Or.inr ⟨e', mem_tableEnts.mpr ⟨q, (ht' q).mpr ⟨hq, hqn⟩, he'⟩, hr⟩
    · exact Or.inl (mem_tableEnts.mpr ⟨p, (ht' p).mpr ⟨hp, hpn⟩, hep⟩)
  refine ⟨?_, ?_, h.synced_le, ?_⟩
  · intro e he
    rcases h.durable e he with h1 | h1 | ⟨e', he', hu, hlt, hle⟩
    · exact Or.inl h1
    · rcases hcov e h1 with h2 | h2
      · exact Or.inr (Or.inl h2)
      · exact Or.inr (Or.inr h2)
    · rcases hcov e' he' with h2 | ⟨e'', he'', hu2, hlt2, hle2⟩
      · exact Or.inr (Or.inr ⟨e', h2, hu, hlt, hle⟩)
      · exact Or.inr (Or.inr ⟨e'', he'', hu2.trans hu, by omega, hle2⟩)
  · intro e' he' hnot e he
    exact h.order e' (hsub e' he') hnot e he
  · intro e he hin
    exact h.table_synced e (hsub e he) hin

/-- one guarded operation preserves the invariant -/
theorem inv_apply (h : Inv d acked low) (op : Op) (g : Guard d low op) : Inv (apply d op) acked low := by
  cases op with
  | walCreate id => exact inv_walCreate h id
  | walAppend id b => exact inv_walAppend h id b g
  | walSync id => exact inv_walSync h id
  | tmpCreate n => exact inv_tmp_only h _ rfl rfl
  | tmpWrite n es => exact inv_tmp_only h _ rfl rfl
  | tmpSync n => exact inv_tmp_only h _ rfl rfl
  | publish n => exact inv_publish h n g
  | tmpRemove n => exact inv_tmp_only h _ rfl rfl
  | walRemove id => exact inv_walRemove h id g
  | tableRemove n => exact inv_tableRemove h n g

/-- a commit is acknowledged only after its batch is in the synced part of a wal
    (or, when a fast flusher got there first, already in a published table) -/
theorem inv_ack (h : Inv d acked low) (b : List E) (g : ∀ e ∈ b, e ∈ syncedRecs d ∨ e ∈ tableEnts d) :
    Inv d (acked ++ b) low := by
  refine ⟨?_, h.order, h.synced_le, h.table_synced⟩
  intro e he
  rcases List.mem_append.mp he with he | he
  · exact h.durable e he
  · rcases g e he with h1 | h1
    · exact Or.inl h1
    · exact Or.inr (Or.inl h1)

/-- the discard watermark only goes up -/
theorem inv_low (h : Inv d acked low) (low' : Nat) (hl : low ≤ low') : Inv d acked low' := by
  refine ⟨?_, h.order, h.synced_le, h.table_synced⟩
  intro e he
  rcases h.durable e he with h1 | h1 | ⟨e', he', hu, hlt, hle⟩
  · exact Or.inl h1
  · exact Or.inr (Or.inl h1)
  · exact Or.inr (Or.inr ⟨e', he', hu, hlt, by omega⟩)

/-- a crash that additionally loses unsynced tails: every wal is cut to some length ≥ its synced
    length, temporary files are cut arbitrarily (they are ignored by recovery), published tables
    are intact (they were synced before the rename) -/
def CutOf (d d' : D) : Prop :=
  d'.tables = d.tables ∧ d'.wals.length = d.wals.length ∧
  ∀ i (h : i < d.wals.length) (h' : i < d'.wals.length),
    d'.wals[i].id = d.wals[i].id ∧ d'.wals[i].synced = d.wals[i].synced ∧
    ∃ n, d.wals[i].synced ≤ n ∧ d'.wals[i].recs = d.wals[i].recs.take n

theorem inv_cut {d d' : D} (h : Inv d acked low) (hc : CutOf d d') : Inv d' acked low := by
  obtain ⟨htab, hlen, hw⟩ := hc
  have htE : tableEnts d' = tableEnts d := by simp [tableEnts, htab]
  have hsync : ∀ e, e ∈ syncedRecs d → e ∈ syncedRecs d' := by
    intro e he
    obtain ⟨w, hwm, hew⟩ := mem_syncedRecs.mp he
    obtain ⟨i, hi, rfl⟩ := List.getElem_of_mem hwm
    obtain ⟨_, hs, n, hn, hr⟩ := hw i hi (by omega)
    refine mem_syncedRecs.mpr ⟨d'.wals[i]'(by omega), List.getElem_mem _, ?_⟩
    rw [hs, hr, List.take_take]
    rw [Nat.min_eq_left hn]; exact hew
  have hall : ∀ e, e ∈ allRecs d' → e ∈ allRecs d := by
    intro e he
    obtain ⟨w, hwm, hew⟩ := mem_allRecs.mp he
    obtain ⟨i, hi, rfl⟩ := List.getElem_of_mem hwm
    obtain ⟨_, _, n, _, hr⟩ := hw i (by omega) hi
    rw [hr] at hew
    exact mem_allRecs.mpr ⟨d.wals[i]'(by omega), List.getElem_mem _, List.mem_of_mem_take hew⟩
  refine ⟨?_, ?_, ?_, ?_⟩
  · intro e he
    rcases h.durable e he with h1 | h1 | h1
    · exact Or.inl (hsync e h1)
    · exact Or.inr (Or.inl (htE ▸ h1))
    · right; right
      obtain ⟨e', he', hrest⟩ := h1
      exact ⟨e', htE ▸ he', hrest⟩
  · intro e' he' hnot e he
    rw [htE] at he'
    by_cases hold : e' ∈ allRecs d
    · exact absurd (synced_sub_all (hsync e' (h.table_synced e' he' hold))) hnot
    · exact h.order e' he' hold e (hall e he)
  · intro w hwm
    obtain ⟨i, hi, rfl⟩ := List.getElem_of_mem hwm
    obtain ⟨_, hs, n, hn, hr⟩ := hw i (by omega) hi
    have := h.synced_le (d.wals[i]'(by omega)) (List.getElem_mem _)
    rw [hs, hr, List.length_take]; omega
  · intro e he hin
    rw [htE] at he
    exact hsync e (h.table_synced e he (hall e hin))

end Disk
