/-! Feasibility probe: oracle / conflict detection (C07) and the stability lemma behind C06.
    Abstract store: a commit is applied atomically; partial application is the DB model's business. -/
namespace Oracle2

abbrev Key := List UInt8
abbrev Val := Option (List UInt8)          -- none = tombstone

structure Commit where
  ts : Nat
  writes : List (Key × Val)
deriving Repr

structure Txn where
  readTs : Nat
  update : Bool
  reads : List Key                 -- keys read from the store (recorded only for update txns)
  writes : List (Key × Val)        -- pending writes, newest first
  doneRead : Bool                  -- readMark.Done issued
  finished : Bool
  obs : List (Key × Val)           -- ghost: what each store read returned
  commitTs : Option Nat            -- ghost: set when the commit succeeded
deriving Repr

structure St where
  nextTs : Nat
  recent : List Commit             -- oracle.committedTxns
  all : List Commit                -- ghost: every commit so far
  readMark : Nat                   -- readMark.DoneUntil as seen by the oracle
  txns : List Txn                  -- indexed by position
deriving Repr

/-- first binding of k in a write buffer (newest first) -/
def lookupW (k : Key) : List (Key × Val) → Option Val
  | [] => none
  | (k', v) :: rest => if k' = k then some v else lookupW k rest

/-- MVCC spec: value of k in the state produced by all commits with ts ≤ r (commits listed oldest first) -/
def specAt (all : List Commit) (r : Nat) (k : Key) : Val :=
  all.foldl (fun acc c => if c.ts ≤ r then (match lookupW k c.writes with | some v => v | none => acc) else acc) none

def wkeys (c : Commit) : List Key := c.writes.map (·.1)

/-- oracle.hasConflict (exact keys, i.e. after F14; with a hash `fp` apply it on both sides) -/
def hasConflict (recent : List Commit) (t : Txn) : Bool :=
  recent.any fun c => decide (t.readTs < c.ts) && t.reads.any fun k => (wkeys c).contains k

/-- cleanUpCommittedTxns with the current watermark -/
def cleanup (recent : List Commit) (mark : Nat) : List Commit := recent.filter fun c => decide (mark < c.ts)

inductive Step where
  | begin (update : Bool)
  | get (i : Nat) (k : Key)
  | set (i : Nat) (k : Key) (v : Val)
  | commit (i : Nat)
  | discard (i : Nat)
  | mark (v : Nat)                 -- the watermark consumer publishes a new DoneUntil

def openReadTs (s : St) : List Nat := (s.txns.filter fun t => !t.doneRead).map (·.readTs)

def modifyNth (l : List Txn) (i : Nat) (f : Txn → Txn) : List Txn := l.modify i f

/-- one atomic step; `none` = not enabled -/
def step (s : St) : Step → Option St
  | .begin u => some { s with txns := s.txns ++ [{ readTs := s.nextTs - 1, update := u, reads := [], writes := [], doneRead := false, finished := false, obs := [], commitTs := none }] }
  | .get i k =>
    match s.txns[i]? with
    | some t =>
      if t.finished then none
      else if t.update && !(t.writes.map (·.1)).contains k then
        some { s with txns := modifyNth s.txns i fun t => { t with reads := k :: t.reads, obs := (k, specAt s.all t.readTs k) :: t.obs } }
      else if !t.update then
        some { s with txns := modifyNth s.txns i fun t => { t with obs := (k, specAt s.all t.readTs k) :: t.obs } }
      else some s
    | none => none
  | .set i k v =>
    match s.txns[i]? with
    | some t => if t.finished || !t.update then none
                else some { s with txns := modifyNth s.txns i fun t => { t with writes := (k, v) :: t.writes } }
    | none => none
  | .commit i =>
    match s.txns[i]? with
    | some t =>
      if t.finished then none
      else if t.writes.isEmpty then
        some { s with txns := modifyNth s.txns i fun t => { t with doneRead := true, finished := true } }
      else if hasConflict s.recent t then
        some { s with txns := modifyNth s.txns i fun t => { t with doneRead := true, finished := true } }
      else
        let c : Commit := { ts := s.nextTs, writes := t.writes }
        some { s with
          nextTs := s.nextTs + 1
          recent := cleanup s.recent s.readMark ++ [c]
          all := s.all ++ [c]
          txns := modifyNth s.txns i fun t => { t with doneRead := true, finished := true, commitTs := some s.nextTs } }
    | none => none
  | .discard i =>
    match s.txns[i]? with
    | some _ => some { s with txns := modifyNth s.txns i fun t => { t with doneRead := true, finished := true } }
    | none => none
  | .mark v =>
    if s.readMark ≤ v ∧ v < s.nextTs ∧ (∀ r ∈ openReadTs s, v ≤ r) then some { s with readMark := v } else none

def init : St := { nextTs := 1, recent := [], all := [], readMark := 0, txns := [] }

/-- reachable states -/
inductive Reach : St → Prop where
  | init : Reach init
  | step {s s' : St} (st : Step) : Reach s → step s st = some s' → Reach s'

/-- invariant: everything committed above the watermark is still in `recent`;
    the watermark is below nextTs and at or below every open reader; open readers are below nextTs -/
structure Inv (s : St) : Prop where
  recent_complete : ∀ c ∈ s.all, s.readMark < c.ts → c ∈ s.recent
  recent_sub : ∀ c ∈ s.recent, c ∈ s.all
  mark_lt : s.readMark < s.nextTs
  mark_le_open : ∀ t ∈ s.txns, t.doneRead = false → s.readMark ≤ t.readTs
  readTs_lt : ∀ t ∈ s.txns, t.readTs < s.nextTs
  all_lt : ∀ c ∈ s.all, c.ts < s.nextTs


theorem mem_modify {l : List Txn} {i : Nat} {f : Txn → Txn} {x : Txn} (h : x ∈ l.modify i f) :
    x ∈ l ∨ ∃ t ∈ l, x = f t := by
  obtain ⟨j, hj⟩ := List.mem_iff_getElem?.mp h
  rw [List.getElem?_modify] at hj
  cases hl : l[j]? with
  | none => simp [hl] at hj
  | some a =>
    simp only [hl, Option.map_eq_map, Option.map_some, Option.some.injEq] at hj
    have ha : a ∈ l := List.mem_of_getElem? hl
    split at hj
    · right; exact ⟨a, ha, hj.symm⟩
    · left; rw [← hj]; exact ha

/-- generic: a step that only rewrites one transaction with `f`, where `f` keeps readTs and can only
    set doneRead, preserves the invariant -/
theorem inv_modify {s : St} (h : Inv s) (i : Nat) (f : Txn → Txn)
    (hr : ∀ t, (f t).readTs = t.readTs) (hd : ∀ t, (f t).doneRead = false → t.doneRead = false) :
    Inv { s with txns := modifyNth s.txns i f } := by
  refine ⟨h.recent_complete, h.recent_sub, h.mark_lt, ?_, ?_, h.all_lt⟩
  · intro t ht hdr
    rcases mem_modify ht with h' | ⟨t0, ht0, rfl⟩
    · exact h.mark_le_open t h' hdr
    · rw [hr]; exact h.mark_le_open t0 ht0 (hd t0 hdr)
  · intro t ht
    rcases mem_modify ht with h' | ⟨t0, ht0, rfl⟩
    · exact h.readTs_lt t h'
    · rw [hr]; exact h.readTs_lt t0 ht0

theorem inv_init : Inv init := by
  refine ⟨?_, ?_, ?_, ?_, ?_, ?_⟩ <;> simp [init]

theorem inv_step {s s' : St} (st : Step) (h : Inv s) (hs : step s st = some s') : Inv s' := by
  cases st with
  | begin u =>
    simp only [step, Option.some.injEq] at hs; subst hs
    refine ⟨h.recent_complete, h.recent_sub, h.mark_lt, ?_, ?_, h.all_lt⟩
    · intro t ht hdr
      simp only [List.mem_append, List.mem_singleton] at ht
      rcases ht with ht | rfl
      · exact h.mark_le_open t ht hdr
      · have := h.mark_lt; simp; omega
    · intro t ht
      simp only [List.mem_append, List.mem_singleton] at ht
      rcases ht with ht | rfl
      · exact h.readTs_lt t ht
      · have := h.mark_lt; simp; omega
  | get i k =>
    simp only [step] at hs
    split at hs
    · split at hs
      · cases hs
      · split at hs
        · simp only [Option.some.injEq] at hs; subst hs
          exact inv_modify h i _ (fun _ => rfl) (fun _ hd => hd)
        · split at hs
          · simp only [Option.some.injEq] at hs; subst hs
            exact inv_modify h i _ (fun _ => rfl) (fun _ hd => hd)
          · simp only [Option.some.injEq] at hs; subst hs; exact h
    · cases hs
  | set i k v =>
    simp only [step] at hs
    split at hs
    · split at hs
      · cases hs
      · simp only [Option.some.injEq] at hs; subst hs
        exact inv_modify h i _ (fun _ => rfl) (fun _ hd => hd)
    · cases hs
  | discard i =>
    simp only [step] at hs
    split at hs
    · simp only [Option.some.injEq] at hs; subst hs
      exact inv_modify h i _ (fun _ => rfl) (fun _ hd => by simp at hd)
    · cases hs
  | mark v =>
    simp only [step] at hs
    split at hs
    · rename_i hg
      simp only [Option.some.injEq] at hs; subst hs
      obtain ⟨h1, h2, h3⟩ := hg
      refine ⟨?_, h.recent_sub, h2, ?_, h.readTs_lt, h.all_lt⟩
      · intro c hc hlt; exact h.recent_complete c hc (by simp at hlt ⊢; omega)
      · intro t ht hdr
        apply h3
        simp only [openReadTs, List.mem_map, List.mem_filter]
        exact ⟨t, ⟨ht, by simp [hdr]⟩, rfl⟩
    · cases hs
  | commit i =>
    simp only [step] at hs
    split at hs
    · rename_i t hti
      split at hs
      · cases hs
      · split at hs
        · simp only [Option.some.injEq] at hs; subst hs
          exact inv_modify h i _ (fun _ => rfl) (fun _ hd => by simp at hd)
        · split at hs
          · simp only [Option.some.injEq] at hs; subst hs
            exact inv_modify h i _ (fun _ => rfl) (fun _ hd => by simp at hd)
          · simp only [Option.some.injEq] at hs; subst hs
            have hbase : Inv ({ s with nextTs := s.nextTs + 1, recent := cleanup s.recent s.readMark ++ [{ ts := s.nextTs, writes := t.writes }], all := s.all ++ [{ ts := s.nextTs, writes := t.writes }] } : St) := by
              refine ⟨?_, ?_, ?_, h.mark_le_open, ?_, ?_⟩
              · intro c hc hlt
                simp only [List.mem_append, List.mem_singleton] at hc ⊢
                rcases hc with hc | hc
                · left
                  exact List.mem_filter.mpr ⟨h.recent_complete c hc hlt, by simpa using hlt⟩
                · right; exact hc
              · intro c hc
                simp only [List.mem_append, List.mem_singleton] at hc ⊢
                rcases hc with hc | hc
                · left; exact h.recent_sub c (List.mem_filter.mp hc).1
                · right; exact hc
              · have := h.mark_lt; simp; omega
              · intro t' ht'; have := h.readTs_lt t' ht'; simp; omega
              · intro c hc
                simp only [List.mem_append, List.mem_singleton] at hc
                rcases hc with hc | rfl
                · have := h.all_lt c hc; simp; omega
                · simp
            exact inv_modify hbase i _ (fun _ => rfl) (fun _ hd => by simp at hd)
    · cases hs

theorem inv_reach {s : St} (h : Reach s) : Inv s := by
  induction h with
  | init => exact inv_init
  | step st _ hs ih => exact inv_step st ih hs

/-- C07, both directions, for an open transaction in any reachable state:
    the check fires iff some key it read was written by a commit above its snapshot -/
theorem conflict_iff {s : St} (hr : Reach s) {t : Txn} (ht : t ∈ s.txns) (hopen : t.doneRead = false) :
    hasConflict s.recent t = true ↔
      ∃ c ∈ s.all, t.readTs < c.ts ∧ ∃ k ∈ t.reads, k ∈ wkeys c := by
  have h := inv_reach hr
  unfold hasConflict
  simp only [List.any_eq_true, Bool.and_eq_true, decide_eq_true_eq, List.contains_iff_mem]
  constructor
  · rintro ⟨c, hc, hlt, k, hk, hkc⟩
    exact ⟨c, h.recent_sub c hc, hlt, k, hk, hkc⟩
  · rintro ⟨c, hc, hlt, k, hk, hkc⟩
    have : s.readMark < c.ts := by have := h.mark_le_open t ht hopen; omega
    exact ⟨c, h.recent_complete c hc this, hlt, k, hk, hkc⟩

#print axioms conflict_iff

/-! ## snapshot stability and the serial-order theorem (C05 / C06 core) -/

theorem specAt_snoc_gt (all : List Commit) (c : Commit) (r : Nat) (k : Key) (h : r < c.ts) :
    specAt (all ++ [c]) r k = specAt all r k := by
  unfold specAt
  rw [List.foldl_append]
  simp only [List.foldl_cons, List.foldl_nil]
  rw [if_neg (by omega)]

/-- commits strictly between r and r' that do not write k do not change what k reads as -/
theorem specAt_window (all : List Commit) (r r' : Nat) (k : Key) (hrr : r ≤ r')
    (h : ∀ c ∈ all, r < c.ts → c.ts ≤ r' → lookupW k c.writes = none) :
    specAt all r k = specAt all r' k := by
  unfold specAt
  suffices ∀ acc : Val,
      all.foldl (fun acc c => if c.ts ≤ r then (match lookupW k c.writes with | some v => v | none => acc) else acc) acc =
      all.foldl (fun acc c => if c.ts ≤ r' then (match lookupW k c.writes with | some v => v | none => acc) else acc) acc from this none
  induction all with
  | nil => intro acc; rfl
  | cons c rest ih =>
    intro acc
    have ih' := ih (fun c' hc' => h c' (by simp [hc']))
    simp only [List.foldl_cons]
    by_cases h1 : c.ts ≤ r
    · have h2 : c.ts ≤ r' := by omega
      simp only [h1, h2, ↓reduceIte]; exact ih' _
    · by_cases h2 : c.ts ≤ r'
      · have := h c (by simp) (by omega) h2
        simp only [h1, h2, ↓reduceIte, this]; exact ih' _
      · simp only [h1, h2, ↓reduceIte]; exact ih' _

theorem lookupW_none_of_not_mem {k : Key} {ws : List (Key × Val)} (h : k ∉ ws.map (·.1)) :
    lookupW k ws = none := by
  induction ws with
  | nil => rfl
  | cons a rest ih =>
    obtain ⟨k', v⟩ := a
    simp only [List.map_cons, List.mem_cons, not_or] at h
    simp only [lookupW]
    rw [if_neg (fun e => h.1 e.symm)]
    exact ih h.2

/-- second invariant: observations are snapshot reads; committed transactions could have read at c-1 -/
structure Inv2 (s : St) : Prop where
  snap : ∀ t ∈ s.txns, ∀ kv ∈ t.obs, kv.2 = specAt s.all t.readTs kv.1
  obs_reads : ∀ t ∈ s.txns, t.update = true → ∀ kv ∈ t.obs, kv.1 ∈ t.reads
  commit_lt : ∀ t ∈ s.txns, ∀ c, t.commitTs = some c → t.readTs < c ∧ c < s.nextTs
  serial : ∀ t ∈ s.txns, ∀ c, t.commitTs = some c → ∀ kv ∈ t.obs, kv.2 = specAt s.all (c - 1) kv.1
  committed_done : ∀ t ∈ s.txns, ∀ c, t.commitTs = some c → t.finished = true
  writes_update : ∀ t ∈ s.txns, t.writes ≠ [] → t.update = true
  done_fin : ∀ t ∈ s.txns, t.doneRead = true → t.finished = true

theorem mem_modify' {l : List Txn} {i : Nat} {f : Txn → Txn} {x : Txn} (h : x ∈ l.modify i f) :
    x ∈ l ∨ ∃ t, l[i]? = some t ∧ x = f t := by
  obtain ⟨j, hj⟩ := List.mem_iff_getElem?.mp h
  rw [List.getElem?_modify] at hj
  cases hl : l[j]? with
  | none => simp [hl] at hj
  | some a =>
    simp only [hl, Option.map_eq_map, Option.map_some, Option.some.injEq] at hj
    have ha : a ∈ l := List.mem_of_getElem? hl
    split at hj
    · rename_i hij; subst hij; right; exact ⟨a, hl, hj.symm⟩
    · left; rw [← hj]; exact ha

theorem no_conflict_inv {s : St} (h : Inv s) {t : Txn} (ht : t ∈ s.txns) (hopen : t.doneRead = false)
    (hnc : hasConflict s.recent t = false) :
    ∀ c ∈ s.all, t.readTs < c.ts → ∀ k ∈ t.reads, k ∉ wkeys c := by
  intro c hc hlt k hk hkc
  have : hasConflict s.recent t = true := by
    unfold hasConflict
    simp only [List.any_eq_true, Bool.and_eq_true, decide_eq_true_eq, List.contains_iff_mem]
    have hm : s.readMark < c.ts := by have := h.mark_le_open t ht hopen; omega
    exact ⟨c, h.recent_complete c hc hm, hlt, k, hk, hkc⟩
  rw [hnc] at this; cases this

/-- a step that rewrites the transaction at index i with f, leaving `all`/`nextTs` alone -/
theorem inv2_modify {s : St} (h2 : Inv2 s) (i : Nat) (f : Txn → Txn)
    (hf : ∀ t, s.txns[i]? = some t →
      (f t).readTs = t.readTs ∧ (f t).update = t.update ∧ (f t).commitTs = t.commitTs ∧
      (∀ kv ∈ (f t).obs, kv ∈ t.obs ∨ (kv.2 = specAt s.all t.readTs kv.1 ∧ (t.update = true → kv.1 ∈ (f t).reads) ∧ t.commitTs = none)) ∧
      (∀ k ∈ t.reads, k ∈ (f t).reads) ∧
      ((f t).writes ≠ [] → (f t).update = true) ∧
      ((f t).doneRead = true → (f t).finished = true) ∧
      (t.finished = true → (f t).finished = true)) :
    Inv2 { s with txns := modifyNth s.txns i f } := by
  refine ⟨?_, ?_, ?_, ?_, ?_, ?_, ?_⟩
  · intro t ht kv hkv
    rcases mem_modify' ht with h' | ⟨t0, hi0, rfl⟩
    · exact h2.snap t h' kv hkv
    · obtain ⟨hr, _, _, hobs, _⟩ := hf t0 hi0
      rw [hr]
      rcases hobs kv hkv with h' | ⟨h', _⟩
      · exact h2.snap t0 (List.mem_of_getElem? hi0) kv h'
      · exact h'
  · intro t ht hu kv hkv
    rcases mem_modify' ht with h' | ⟨t0, hi0, rfl⟩
    · exact h2.obs_reads t h' hu kv hkv
    · obtain ⟨_, hup, _, hobs, hreads, _⟩ := hf t0 hi0
      rw [hup] at hu
      rcases hobs kv hkv with h' | ⟨_, h', _⟩
      · exact hreads _ (h2.obs_reads t0 (List.mem_of_getElem? hi0) hu kv h')
      · exact h' hu
  · intro t ht c hc
    rcases mem_modify' ht with h' | ⟨t0, hi0, rfl⟩
    · exact h2.commit_lt t h' c hc
    · obtain ⟨hr, _, hct, _⟩ := hf t0 hi0
      rw [hct] at hc; rw [hr]
      exact h2.commit_lt t0 (List.mem_of_getElem? hi0) c hc
  · intro t ht c hc kv hkv
    rcases mem_modify' ht with h' | ⟨t0, hi0, rfl⟩
    · exact h2.serial t h' c hc kv hkv
    · obtain ⟨_, _, hct, hobs, _⟩ := hf t0 hi0
      rw [hct] at hc
      rcases hobs kv hkv with h' | ⟨_, _, h'⟩
      · exact h2.serial t0 (List.mem_of_getElem? hi0) c hc kv h'
      · rw [h'] at hc; cases hc
  · intro t ht c hc
    rcases mem_modify' ht with h' | ⟨t0, hi0, rfl⟩
    · exact h2.committed_done t h' c hc
    · obtain ⟨_, _, hct, _, _, _, _, hfin⟩ := hf t0 hi0
      rw [hct] at hc
      exact hfin (h2.committed_done t0 (List.mem_of_getElem? hi0) c hc)
  · intro t ht hw
    rcases mem_modify' ht with h' | ⟨t0, hi0, rfl⟩
    · exact h2.writes_update t h' hw
    · exact (hf t0 hi0).2.2.2.2.2.1 hw
  · intro t ht hd
    rcases mem_modify' ht with h' | ⟨t0, hi0, rfl⟩
    · exact h2.done_fin t h' hd
    · exact (hf t0 hi0).2.2.2.2.2.2.1 hd

theorem inv2_init : Inv2 init := by
  refine ⟨?_, ?_, ?_, ?_, ?_, ?_, ?_⟩ <;> simp [init]

theorem inv2_step {s s' : St} (st : Step) (h : Inv s) (h2 : Inv2 s) (hs : step s st = some s') : Inv2 s' := by
  cases st with
  | begin u =>
    simp only [step, Option.some.injEq] at hs; subst hs
    refine ⟨?_, ?_, ?_, ?_, ?_, ?_, ?_⟩
    all_goals
      intro t ht
      simp only [List.mem_append, List.mem_singleton] at ht
    · rcases ht with ht | rfl
      · exact h2.snap t ht
      · intro kv hkv; simp at hkv
    · rcases ht with ht | rfl
      · exact h2.obs_reads t ht
      · intro _ kv hkv; simp at hkv
    · rcases ht with ht | rfl
      · exact h2.commit_lt t ht
      · intro c hc; simp at hc
    · rcases ht with ht | rfl
      · exact h2.serial t ht
      · intro c hc; simp at hc
    · rcases ht with ht | rfl
      · exact h2.committed_done t ht
      · intro c hc; simp at hc
    · rcases ht with ht | rfl
      · exact h2.writes_update t ht
      · intro hw; simp at hw
    · rcases ht with ht | rfl
      · exact h2.done_fin t ht
      · intro hd; simp at hd
  | get i k =>
    simp only [step] at hs
    split at hs
    · rename_i t hti
      split at hs
      · cases hs
      · rename_i hnf
        have hnc : t.commitTs = none := by
          cases hc : t.commitTs with
          | none => rfl
          | some c => exact absurd (h2.committed_done t (List.mem_of_getElem? hti) c hc) hnf
        split at hs
        · simp only [Option.some.injEq] at hs; subst hs
          refine inv2_modify h2 i _ ?_
          intro t0 hi0
          have : t0 = t := by rw [hti] at hi0; exact (Option.some.inj hi0).symm
          subst this
          refine ⟨rfl, rfl, rfl, ?_, ?_, ?_, ?_, fun hf => hf⟩
          · intro kv hkv
            simp only [List.mem_cons] at hkv
            rcases hkv with rfl | hkv
            · right; exact ⟨rfl, fun _ => by simp, hnc⟩
            · left; exact hkv
          · intro k' hk'; simp [hk']
          · exact h2.writes_update t0 (List.mem_of_getElem? hti)
          · exact h2.done_fin t0 (List.mem_of_getElem? hti)
        · split at hs
          · rename_i hro
            simp only [Option.some.injEq] at hs; subst hs
            refine inv2_modify h2 i _ ?_
            intro t0 hi0
            have : t0 = t := by rw [hti] at hi0; exact (Option.some.inj hi0).symm
            subst this
            refine ⟨rfl, rfl, rfl, ?_, fun _ hk => hk, ?_, ?_, fun hf => hf⟩
            · intro kv hkv
              simp only [List.mem_cons] at hkv
              rcases hkv with rfl | hkv
              · right; exact ⟨rfl, fun hu => by simp [hu] at hro, hnc⟩
              · left; exact hkv
            · exact h2.writes_update t0 (List.mem_of_getElem? hti)
            · exact h2.done_fin t0 (List.mem_of_getElem? hti)
          · simp only [Option.some.injEq] at hs; subst hs; exact h2
    · cases hs
  | set i k v =>
    simp only [step] at hs
    split at hs
    · rename_i t hti
      split at hs
      · cases hs
      · rename_i hg
        simp only [Option.some.injEq] at hs; subst hs
        refine inv2_modify h2 i _ ?_
        intro t0 hi0
        have : t0 = t := by rw [hti] at hi0; exact (Option.some.inj hi0).symm
        subst this
        refine ⟨rfl, rfl, rfl, fun kv hkv => Or.inl hkv, fun _ hk => hk, ?_, ?_, fun hf => hf⟩
        · intro _
          simp only [Bool.or_eq_true, Bool.not_eq_true', not_or, Bool.not_eq_true, Bool.not_eq_false] at hg
          exact hg.2
        · exact h2.done_fin t0 (List.mem_of_getElem? hti)
    · cases hs
  | discard i =>
    simp only [step] at hs
    split at hs
    · rename_i t hti
      simp only [Option.some.injEq] at hs; subst hs
      refine inv2_modify h2 i _ ?_
      intro t0 hi0
      have : t0 = t := by rw [hti] at hi0; exact (Option.some.inj hi0).symm
      subst this
      exact ⟨rfl, rfl, rfl, fun kv hkv => Or.inl hkv, fun _ hk => hk,
        h2.writes_update t0 (List.mem_of_getElem? hti), fun _ => rfl, fun _ => rfl⟩
    · cases hs
  | mark v =>
    simp only [step] at hs
    split at hs
    · simp only [Option.some.injEq] at hs; subst hs
      exact ⟨h2.snap, h2.obs_reads, h2.commit_lt, h2.serial, h2.committed_done, h2.writes_update, h2.done_fin⟩
    · cases hs
  | commit i =>
    simp only [step] at hs
    split at hs
    · rename_i t hti
      have htm : t ∈ s.txns := List.mem_of_getElem? hti
      split at hs
      · cases hs
      · rename_i hnf
        have hfinish : ∀ t0, s.txns[i]? = some t0 →
            ({ t0 with doneRead := true, finished := true } : Txn).readTs = t0.readTs ∧ _ := fun _ _ => ⟨rfl, trivial⟩
        have hmod : Inv2 { s with txns := modifyNth s.txns i fun t => { t with doneRead := true, finished := true } } := by
          refine inv2_modify h2 i _ ?_
          intro t0 hi0
          have : t0 = t := by rw [hti] at hi0; exact (Option.some.inj hi0).symm
          subst this
          exact ⟨rfl, rfl, rfl, fun kv hkv => Or.inl hkv, fun _ hk => hk,
            h2.writes_update t0 htm, fun _ => rfl, fun _ => rfl⟩
        split at hs
        · simp only [Option.some.injEq] at hs; subst hs; exact hmod
        · split at hs
          · simp only [Option.some.injEq] at hs; subst hs; exact hmod
          · rename_i hne hnc
            simp only [Option.some.injEq] at hs; subst hs
            have hnc' : hasConflict s.recent t = false := by simpa using hnc
            have hopen : t.doneRead = false := by
              cases hd : t.doneRead with
              | false => rfl
              | true => exact absurd (h2.done_fin t htm hd) hnf
            have hupd : t.update = true := h2.writes_update t htm (by
              intro e; rw [e] at hne; simp at hne)
            have hnoc := no_conflict_inv h htm hopen hnc'
            have hrlt : t.readTs < s.nextTs := h.readTs_lt t htm
            have hcnone : t.commitTs = none := by
              cases hc : t.commitTs with
              | none => rfl
              | some c => exact absurd (h2.committed_done t htm c hc) hnf
            -- facts about every transaction of the new list
            have hcase : ∀ x ∈ modifyNth s.txns i (fun t => { t with doneRead := true, finished := true, commitTs := some s.nextTs }),
                x ∈ s.txns ∨ x = { t with doneRead := true, finished := true, commitTs := some s.nextTs } := by
              intro x hx
              rcases mem_modify' hx with h' | ⟨t0, hi0, rfl⟩
              · exact Or.inl h'
              · have : t0 = t := by rw [hti] at hi0; exact (Option.some.inj hi0).symm
                subst this; exact Or.inr rfl
            refine ⟨?_, ?_, ?_, ?_, ?_, ?_, ?_⟩
            · intro x hx kv hkv
              rcases hcase x hx with h' | rfl
              · rw [specAt_snoc_gt _ _ _ _ (by simpa using h.readTs_lt x h')]
                exact h2.snap x h' kv hkv
              · show kv.2 = specAt (s.all ++ [_]) t.readTs kv.1
                rw [specAt_snoc_gt _ _ _ _ (by simpa using hrlt)]
                exact h2.snap t htm kv hkv
            · intro x hx hu kv hkv
              rcases hcase x hx with h' | rfl
              · exact h2.obs_reads x h' hu kv hkv
              · exact h2.obs_reads t htm hupd kv hkv
            · intro x hx c hc
              rcases hcase x hx with h' | rfl
              · have := h2.commit_lt x h' c hc; exact ⟨this.1, by simp; omega⟩
              · simp only [Option.some.injEq] at hc; subst hc
                exact ⟨hrlt, by simp⟩
            · intro x hx c hc kv hkv
              rcases hcase x hx with h' | rfl
              · have hlt := (h2.commit_lt x h' c hc).2
                rw [specAt_snoc_gt _ _ _ _ (by simp; omega)]
                exact h2.serial x h' c hc kv hkv
              · simp only [Option.some.injEq] at hc; subst hc
                show kv.2 = specAt (s.all ++ [_]) (s.nextTs - 1) kv.1
                rw [specAt_snoc_gt _ _ _ _ (by simp; omega)]
                rw [h2.snap t htm kv hkv]
                apply specAt_window _ _ _ _ (by omega)
                intro c' hc' hlo hhi
                apply lookupW_none_of_not_mem
                exact hnoc c' hc' hlo kv.1 (h2.obs_reads t htm hupd kv hkv)
            · intro x hx c hc
              rcases hcase x hx with h' | rfl
              · exact h2.committed_done x h' c hc
              · rfl
            · intro x hx hw
              rcases hcase x hx with h' | rfl
              · exact h2.writes_update x h' hw
              · exact hupd
            · intro x hx hd
              rcases hcase x hx with h' | rfl
              · exact h2.done_fin x h' hd
              · rfl
    · cases hs

/-- C05 + C06 core, for every reachable state of every interleaving:
    every store read of a transaction is the MVCC value at its snapshot; and for a transaction that
    committed at c it is also the value just before c — i.e. what serial execution in commit order gives -/
theorem reads_serial {s : St} (hr : Reach s) : Inv2 s := by
  induction hr with
  | init => exact inv2_init
  | step st hprev hs ih => exact inv2_step st (inv_reach hprev) ih hs

#print axioms reads_serial
end Oracle2
