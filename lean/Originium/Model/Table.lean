import Originium.Model.BS
/-! Feasibility probe: table.Build block splitting + Index.LowerBound + Data.LowerBound
    = first entry ≥ target of the sorted entry list (C10, single table). -/
namespace Table
open BS

variable {K : Type} (lt : K → K → Bool)

/-- types.Entry with an abstract key type -/
structure Entry (K : Type) where
  key : K
  value : List UInt8
  tomb : Bool
  version : Nat
deriving Repr, DecidableEq

-- `sz e` is what table.Build accumulates per entry: len(key)+len(value)+1
variable (sz : Entry K → Nat)

/-- table.Build's splitting loop -/
def split (bs : Nat) : List (Entry K) → List (Entry K) → Nat → List (List (Entry K))
  | [], cur, _ => if cur.isEmpty then [] else [cur.reverse]
  | e :: rest, cur, n =>
    if n > bs then cur.reverse :: split bs rest [e] (sz e)
    else split bs rest (e :: cur) (n + sz e)

def buildBlocks (bs : Nat) (es : List (Entry K)) : List (List (Entry K)) := split sz bs es [] 0

theorem split_flatten (bs : Nat) (es cur : List (Entry K)) (n : Nat) :
    (split sz bs es cur n).flatten = cur.reverse ++ es := by
  induction es generalizing cur n with
  | nil => unfold split; split <;> simp_all
  | cons e rest ih =>
    unfold split; split
    · simp [ih]
    · simp [ih]

theorem split_nonempty (bs : Nat) (es cur : List (Entry K)) (n : Nat)
    (hc : es ≠ [] → n > bs → cur ≠ []) :
    ∀ b ∈ split sz bs es cur n, b ≠ [] := by
  induction es generalizing cur n with
  | nil =>
    unfold split; split
    · simp
    · rename_i h; intro b hb; simp at hb; subst hb; simpa using h
  | cons e rest ih =>
    unfold split; split
    · rename_i hgt
      intro b hb
      simp only [List.mem_cons] at hb
      rcases hb with hb | hb
      · subst hb; simpa using hc (by simp) hgt
      · exact ih [e] (sz e) (by intro _ _; simp) b hb
    · exact ih (e :: cur) (n + sz e) (by intro _ _; simp)

theorem build_flatten (bs : Nat) (es : List (Entry K)) : (buildBlocks sz bs es).flatten = es := by
  simp [buildBlocks, split_flatten]

/-- `ge t e` : entry key ≥ target -/
def geKey (t : K) (e : Entry K) : Bool := !lt e.key t

/-- Data.LowerBound -/
def dataLowerBound (blk : List (Entry K)) (t : K) : Option (Entry K) :=
  (lowerIdx (geKey lt t) blk).bind (blk[·]?)

/-- Index.LowerBound over (StartKey, EndKey) pairs: first block whose EndKey ≥ target -/
def lastGe (t : K) (b : List (Entry K)) : Bool :=
  match b.getLast? with
  | some e => geKey lt t e
  | none => false

def indexLowerBound (blocks : List (List (Entry K))) (t : K) : Option Nat :=
  lowerIdx (lastGe lt t) blocks

def tableLookup (blocks : List (List (Entry K))) (t : K) : Option (Entry K) :=
  (indexLowerBound lt blocks t).bind fun i => (blocks[i]?).bind fun b => dataLowerBound lt b t


section proofs
variable (htrans : ∀ a b c : K, lt a b = true → lt b c = true → lt a c = true)
include htrans

def SortedE (es : List (Entry K)) : Prop := es.Pairwise (fun a b => lt a.key b.key = true)

theorem geKey_mono {a b : Entry K} (t : K) (hab : lt a.key b.key = true)
    (ha : geKey lt t a = true) : geKey lt t b = true := by
  unfold geKey at *
  cases hb : lt b.key t with
  | false => rfl
  | true =>
    have := htrans _ _ _ hab hb
    simp [this] at ha

theorem monoOn_geKey {es : List (Entry K)} (hs : SortedE lt es) (t : K) :
    MonoOn (geKey lt t) es := by
  intro i j a b hij hi hj ha
  obtain ⟨hil, rfl⟩ := List.getElem?_eq_some_iff.mp hi
  obtain ⟨hjl, rfl⟩ := List.getElem?_eq_some_iff.mp hj
  rcases Nat.lt_or_eq_of_le hij with hlt | heq
  · exact geKey_mono lt htrans t (List.pairwise_iff_getElem.mp hs i j hil hjl hlt) ha
  · subst heq; exact ha

theorem dataLowerBound_eq {blk : List (Entry K)} (hs : SortedE lt blk) (t : K) :
    dataLowerBound lt blk t = blk.find? (geKey lt t) :=
  lowerIdx_find? (monoOn_geKey lt htrans hs t)

/-- in a sorted non-empty block: last ≥ t  ⇔  some element ≥ t -/
theorem lastGe_iff {b : List (Entry K)} (hs : SortedE lt b) (t : K) :
    lastGe lt t b = (b.find? (geKey lt t)).isSome := by
  unfold lastGe
  cases hl : b.getLast? with
  | none =>
    have : b = [] := by simpa using hl
    subst this; rfl
  | some e =>
    obtain ⟨ys, rfl⟩ := List.getLast?_eq_some_iff.mp hl
    cases he : geKey lt t e with
    | true =>
      simp only [List.find?_append, List.find?_cons, he]
      cases ys.find? (geKey lt t) <;> simp
    | false =>
      have hall : ∀ x ∈ ys ++ [e], ¬ geKey lt t x = true := by
        intro x hx hpx
        simp only [List.mem_append, List.mem_singleton] at hx
        rcases hx with hx | hx
        · have hlt : lt x.key e.key = true := by
            have := (List.pairwise_append.mp hs).2.2 x hx e (by simp)
            exact this
          have := geKey_mono lt htrans t hlt hpx
          rw [he] at this; cases this
        · subst hx; rw [he] at hpx; cases hpx
      rw [List.find?_eq_none.mpr hall]; simp [he]

theorem find_blocks {blocks : List (List (Entry K))} (hs : ∀ b ∈ blocks, SortedE lt b) (t : K) :
    (blocks.find? (lastGe lt t)).bind (fun b => b.find? (geKey lt t))
      = blocks.findSome? (fun b => b.find? (geKey lt t)) := by
  induction blocks with
  | nil => rfl
  | cons b rest ih =>
    have hb := lastGe_iff lt htrans (hs b (by simp)) t
    have ih' := ih (fun b' hb' => hs b' (by simp [hb']))
    simp only [List.find?_cons, List.findSome?_cons]
    cases hf : b.find? (geKey lt t) with
    | none => rw [hf] at hb; simp only [Option.isSome_none] at hb; rw [hb]; exact ih'
    | some x => rw [hf] at hb; simp only [Option.isSome_some] at hb; rw [hb]; simp [hf]

theorem monoOn_lastGe {blocks : List (List (Entry K))} (hs : SortedE lt blocks.flatten)
    (hne : ∀ b ∈ blocks, b ≠ []) (t : K) : MonoOn (lastGe lt t) blocks := by
  intro i j bi bj hij hi hj hbi
  obtain ⟨hil, rfl⟩ := List.getElem?_eq_some_iff.mp hi
  obtain ⟨hjl, rfl⟩ := List.getElem?_eq_some_iff.mp hj
  rcases Nat.lt_or_eq_of_le hij with hlt | heq
  · have hcross := List.pairwise_iff_getElem.mp (List.pairwise_flatten.mp hs).2 i j hil hjl hlt
    unfold lastGe at *
    cases hli : (blocks[i]).getLast? with
    | none => rw [hli] at hbi; cases hbi
    | some e =>
      rw [hli] at hbi
      cases hlj : (blocks[j]).getLast? with
      | none =>
        have : blocks[j] = [] := by simpa using hlj
        exact absurd this (hne _ (List.getElem_mem hjl))
      | some e' =>
        exact geKey_mono lt htrans t
          (hcross e (List.mem_of_getLast? hli) e' (List.mem_of_getLast? hlj)) hbi
  · subst heq; exact hbi

/-- C10 for one table: index + block binary search over ANY split = first entry ≥ target -/
theorem tableLookup_eq {blocks : List (List (Entry K))} (hs : SortedE lt blocks.flatten)
    (hne : ∀ b ∈ blocks, b ≠ []) (t : K) :
    tableLookup lt blocks t = blocks.flatten.find? (geKey lt t) := by
  have hsb : ∀ b ∈ blocks, SortedE lt b := (List.pairwise_flatten.mp hs).1
  have h1 : tableLookup lt blocks t =
      ((lowerIdx (lastGe lt t) blocks).bind (blocks[·]?)).bind
        (fun b => dataLowerBound lt b t) := by
    unfold tableLookup indexLowerBound
    cases lowerIdx (lastGe lt t) blocks <;> rfl
  rw [h1, lowerIdx_find? (monoOn_lastGe lt htrans hs hne t), List.find?_flatten,
    ← find_blocks lt htrans hsb t]
  cases hfb : blocks.find? (lastGe lt t) with
  | none => rfl
  | some b =>
    have hbm : b ∈ blocks := List.mem_of_find?_eq_some hfb
    simp only [Option.bind_some]
    exact dataLowerBound_eq lt htrans (hsb b hbm) t

/-- … in particular for the split table.Build makes, for every block size -/
theorem build_lookup_eq (bs : Nat) {es : List (Entry K)} (hs : SortedE lt es) (t : K) :
    tableLookup lt (buildBlocks sz bs es) t = es.find? (geKey lt t) := by
  have hne : ∀ b ∈ buildBlocks sz bs es, b ≠ [] :=
    split_nonempty sz bs es [] 0 (by intro _ h; omega)
  have := tableLookup_eq lt htrans (blocks := buildBlocks sz bs es)
    (by rw [build_flatten]; exact hs) hne t
  rw [this, build_flatten]

end proofs

#print axioms build_lookup_eq
end Table
