import Originium.Model.Oracle2
/-! Decidable checker for recorded concurrent histories (C06): the transactions that committed, in
    commit-timestamp order, explain every read of every transaction, and the order respects real time.
    This is the executable form of `Props.C06_serial_reads` / `C06_real_time` for histories observed
    on the running implementation (free-running goroutines, where the interleaving is the Go
    scheduler's choice). -/
namespace History
open Oracle2

structure TxnRec where
  beginSeq : Nat                     -- logical clock value taken before Begin was called
  endSeq : Nat                       -- logical clock value taken after Commit / Discard returned
  readTs : Nat
  commitTs : Option Nat              -- some c: Commit returned nil having written; none: read-only, refused or discarded
  reads : List (Key × Val)           -- store reads (key, observed value; none = not found)
  writes : List (Key × Val)          -- pending writes at Commit, newest first
deriving Repr

def commitsOf (h : List TxnRec) : List Commit :=
  let cs := h.filterMap fun t => t.commitTs.map fun c => ({ ts := c, writes := t.writes } : Commit)
  cs.mergeSort (fun a b => a.ts ≤ b.ts)

def strictlyIncreasing : List Commit → Bool
  | a :: b :: rest => decide (a.ts < b.ts) && strictlyIncreasing (b :: rest)
  | _ => true

/-- first problem found, if any -/
def check (h : List TxnRec) : Option String :=
  let all := commitsOf h
  if !strictlyIncreasing all then some "two transactions committed with the same timestamp" else
  let bad := h.findSome? fun t =>
    -- every read is the MVCC value at the snapshot
    match t.reads.find? (fun kv => specAt all t.readTs kv.1 != kv.2) with
    | some kv => some s!"read of a key at readTs={t.readTs} does not match the snapshot (beginSeq={t.beginSeq})"
    | none =>
      match t.commitTs with
      | some c =>
        if c ≤ t.readTs then some s!"commitTs={c} not above readTs={t.readTs}"
        else match t.reads.find? (fun kv => specAt all (c - 1) kv.1 != kv.2) with
          | some _ => some s!"committed at {c} although a key it read was overwritten in ({t.readTs},{c}) (beginSeq={t.beginSeq})"
          | none => none
      | none => none
  match bad with
  | some m => some m
  | none =>
    -- real time: A finished before B began  ⇒  A's commit is in B's snapshot
    h.findSome? fun a =>
      match a.commitTs with
      | some ca =>
        (h.find? (fun b => decide (a.endSeq < b.beginSeq) && decide (b.readTs < ca))).map fun b =>
          s!"real-time order violated: commit {ca} returned (seq {a.endSeq}) before a Begin (seq {b.beginSeq}) that got readTs={b.readTs}"
      | none => none

end History
