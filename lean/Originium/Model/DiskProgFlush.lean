import Originium.Model.DiskProgProofs
/-! The flusher's events (`flushImmutable`, compactions) and `Close`. -/
namespace Prog
open Key VKey Table Levels LSM Disk

theorem tableEnts_congr {d d' : D} (h : d'.tables = d.tables) : tableEnts d' = tableEnts d := by simp [tableEnts, h]

/-- events that only touch temporary files -/
theorem step_tmpOnly {t : TSt} {m m' : Mem} (h : PInv ⟨t, m⟩) (o : Op) (g : Guard t.d t.low o) (gw : GuardWF t.d o)
    (hw : (apply t.d o).wals = t.d.wals) (htab : (apply t.d o).tables = t.d.tables)
    (hb : running m.c = true ∨ m.c = .closing)
    (hc : m'.c = m.c) (ha : m'.active = m.active) (hi : m'.imms = m.imms) (hn : m'.nextWal = m.nextWal)
    (ht : m'.nextTs = m.nextTs)
    (hcl : m.c = .closing → ∃ w n, m'.imms = [w] ∧ (m'.f = .f1 w n ∨ m'.f = .f2 w n ∨ m'.f = .f3 w n ∨ m'.f = .f4 w n))
    (hfa : FA (apply t.d o) t.low m') :
    ∃ t', accept t (.op o) = some t' ∧ PInv ⟨t', m'⟩ := by
  have hacc := acceptOp_eq g gw
  refine ⟨_, hacc, PInv.intro (core_accept h.core _ hacc) ?_ ?_ hfa⟩
  · intro w hw'
    rw [hn]
    exact h.idsLt w (hw ▸ hw')
  · refine ca_flusher (d := t.d) h.ca hb hw ?_ ?_ hc ha hi hn ht hcl
    · intro e he; rw [tableEnts_congr htab] at he; exact surviving_mem.mpr (Or.inr he)
    · intro e he _; rw [tableEnts_congr htab]; exact he

theorem noTable_congr {d d' : D} (h : d'.tables = d.tables) {n : Nat} (hn : noTable d n) : noTable d' n := by
  unfold noTable at *; rw [h]; exact hn

/-- `tmpCreate`: the flusher starts a flush, `Close` starts flushing the active memtable,
    or a compaction creates its output file -/
theorem step_tmpCreate {t : TSt} {m : Mem} (h : PInv ⟨t, m⟩) {n : Nat} {m' : Mem}
    (hact : actTmpCreate t m n = some m') :
    ∃ t', accept t (.op (.tmpCreate n)) = some t' ∧ PInv ⟨t', m'⟩ := by
  have hca : CA t.d m := h.ca
  have hfa : FA t.d t.low m := h.fa
  unfold actTmpCreate at hact
  split at hact
  · rename_i hnt
    have hnt' : noTable (apply t.d (.tmpCreate n)) n := noTable_congr rfl hnt
    split at hact
    · -- the flusher is idle
      rename_i hf
      split at hact
      · rename_i w rest hi hc
        simp only [Option.some.injEq] at hact; subst hact
        refine step_tmpOnly h _ trivial trivial rfl rfl (Or.inl (by rw [hc]; rfl)) rfl rfl rfl rfl rfl
          (by intro hcl; rw [hc] at hcl; cases hcl) ?_
        simp only [FA]
        exact ⟨by rw [hi]; rfl, hnt', tmpIs_create t.d n⟩
      · rename_i w rest b sy hi hc
        simp only [Option.some.injEq] at hact; subst hact
        refine step_tmpOnly h _ trivial trivial rfl rfl (Or.inl (by rw [hc]; rfl)) rfl rfl rfl rfl rfl
          (by intro hcl; rw [hc] at hcl; cases hcl) ?_
        simp only [FA]
        exact ⟨by rw [hi]; rfl, hnt', tmpIs_create t.d n⟩
      · -- Close: the queue is drained, the active memtable is flushed like an immutable one
        rename_i a hi hc hact'
        simp only [Option.some.injEq] at hact; subst hact
        have hacc := acceptOp_eq (t := t) (o := .tmpCreate n) trivial trivial
        simp only [CA, hc] at hca
        obtain ⟨hrs, _⟩ := hca
        refine ⟨_, hacc, PInv.intro (core_accept h.core _ hacc) h.idsLt ?_ ?_⟩
        · simp only [CA]
          refine ⟨?_, trivial, a, n, rfl, Or.inl rfl⟩
          refine ⟨?_, ?_, by simp, ?_, ?_, ?_, hrs.age, hrs.ts, ?_⟩
          · intro w hw
            rcases hrs.ids w hw with h1 | h1
            · rw [hi] at h1; cases h1
            · rw [hact'] at h1; simp only [Option.some.injEq] at h1; left; simp [h1]
          · intro a' ha'; cases ha'
          · intro a' ha'; cases ha'
          · intro i hi'
            simp only [List.mem_singleton] at hi'; subst hi'
            exact hrs.act_next i hact'
          · intro a' ha'; cases ha'
          · intro w hw
            rcases hrs.sync w hw with h1 | ⟨_, b, hb⟩
            · exact Or.inl h1
            · rw [hc] at hb; cases hb
        · simp only [FA]
          exact ⟨rfl, hnt', tmpIs_create t.d n⟩
      · cases hact
    · -- a compaction creates its output
      rename_i ins n' hf
      split at hact
      · rename_i hnn
        subst hnn
        simp only [Option.some.injEq] at hact; subst hact
        have hb := c_of_busy hca (by rw [hf]; intro hh; cases hh)
        simp only [FA, hf] at hfa
        refine step_tmpOnly h _ trivial trivial rfl rfl hb rfl rfl rfl rfl rfl ?_ ?_
        · intro hcl
          simp only [CA, hcl] at hca
          obtain ⟨_, _, w, n', _, hff⟩ := hca
          rw [hf] at hff
          rcases hff with hff | hff | hff | hff <;> cases hff
        · simp only [FA]
          exact ⟨hfa.1, hnt', tmpIs_create t.d n⟩
      · cases hact
    · cases hact
  · cases hact


theorem closing_f {d : D} {m : Mem} (h : CA d m) (hcl : m.c = .closing) :
    ∃ w n, m.imms = [w] ∧ (m.f = .f1 w n ∨ m.f = .f2 w n ∨ m.f = .f3 w n ∨ m.f = .f4 w n) := by
  simp only [CA, hcl] at h
  exact h.2.2

theorem recsOf_sub_surviving {d : D} {w : Nat} {e : E} (h : e ∈ recsOf d w) : e ∈ surviving d := by
  obtain ⟨w0, hw0, _, he⟩ := mem_recsOf.mp h
  exact surviving_mem.mpr (Or.inl (mem_allRecs.mpr ⟨w0, hw0, he⟩))

theorem flushOK_content {d : D} (hwf : WF d) (w : Nat) : FlushOK d w (content d w) := by
  refine ⟨?_, ?_, ?_⟩
  · exact foldl_insertE_sorted (recsOf d w) [] List.Pairwise.nil
  · intro e he
    rcases foldl_insertE_sub (recsOf d w) [] e he with h1 | h1
    · exact h1
    · cases h1
  · have hc : Consistent (recsOf d w ++ []) := by
      rw [List.append_nil]
      exact consistent_of_sub (fun x hx => recsOf_sub_surviving hx) hwf.consistent
    exact (foldl_insertE_complete (recsOf d w) [] hc).2

theorem mem_tabsOf {d : D} {ins : List Nat} {e : E} :
    e ∈ (tabsOf d ins).flatten ↔ ∃ p ∈ d.tables, p.1 ∈ ins ∧ e ∈ p.2 := by
  simp only [tabsOf, List.mem_flatten, List.mem_map, List.mem_filter, decide_eq_true_eq]
  constructor
  · rintro ⟨l, ⟨p, ⟨hp, hin⟩, rfl⟩, he⟩; exact ⟨p, hp, hin, he⟩
  · rintro ⟨p, hp, hin, he⟩; exact ⟨p.2, ⟨p, ⟨hp, hin⟩, rfl⟩, he⟩

theorem compOK_cout {d : D} (hwf : WF d) (low : Nat) (ins : List Nat) : CompOK d low ins (cout d low ins) := by
  have hc : Consistent (tabsOf d ins).flatten := by
    apply consistent_of_sub _ hwf.consistent
    intro x hx
    obtain ⟨p, hp, _, he⟩ := mem_tabsOf.mp hx
    exact surviving_mem.mpr (Or.inr (mem_tableEnts.mpr ⟨p, hp, he⟩))
  have ha := compactOutput_allowed low (tabsOf d ins) hc
  refine ⟨compactOutput_sorted low _, ?_, ?_⟩
  · intro e he
    obtain ⟨p, hp, _, hep⟩ := mem_tabsOf.mp (ha.sub e he)
    exact mem_tableEnts.mpr ⟨p, hp, hep⟩
  · intro s hs p hp hps e he
    by_cases hin : e ∈ cout d low ins
    · exact Or.inl hin
    · exact Or.inr (ha.shadowed e (mem_tabsOf.mpr ⟨p, hp, hps ▸ hs, he⟩) hin)

theorem step_tmpWrite {t : TSt} {m : Mem} (h : PInv ⟨t, m⟩) {n : Nat} {es : List E} {m' : Mem}
    (hact : actTmpWrite t m n es = some m') :
    ∃ t', accept t (.op (.tmpWrite n es)) = some t' ∧ PInv ⟨t', m'⟩ := by
  have hca : CA t.d m := h.ca
  have hfa : FA t.d t.low m := h.fa
  unfold actTmpWrite at hact
  split at hact
  · rename_i w n' hf
    split at hact
    · rename_i hcond
      obtain ⟨hnn, hes⟩ := hcond
      subst hnn
      simp only [Option.some.injEq] at hact; subst hact
      have hb := c_of_busy hca (by rw [hf]; intro hh; cases hh)
      simp only [FA, hf] at hfa
      obtain ⟨hhead, hnt, htmp⟩ := hfa
      refine step_tmpOnly h _ trivial trivial rfl rfl hb rfl rfl rfl rfl rfl ?_ ?_
      · intro hcl
        obtain ⟨w0, n0, hi0, hff⟩ := closing_f hca hcl
        rw [hf] at hff
        rcases hff with hff | hff | hff | hff <;> cases hff
        exact ⟨w, n, hi0, Or.inr (Or.inl rfl)⟩
      · simp only [FA]
        refine ⟨hhead, noTable_congr rfl hnt, es, ?_, ?_⟩
        · have := tmpIs_write htmp es
          simpa using this
        · rw [hes]
          exact flushOK_congr (recsOf_congr rfl w) (flushOK_content h.core.2 w)
    · cases hact
  · rename_i ins n' hf
    split at hact
    · rename_i hcond
      obtain ⟨hnn, hes⟩ := hcond
      subst hnn
      simp only [Option.some.injEq] at hact; subst hact
      have hb := c_of_busy hca (by rw [hf]; intro hh; cases hh)
      simp only [FA, hf] at hfa
      obtain ⟨hni, hnt, htmp⟩ := hfa
      refine step_tmpOnly h _ trivial trivial rfl rfl hb rfl rfl rfl rfl rfl ?_ ?_
      · intro hcl
        obtain ⟨w0, n0, hi0, hff⟩ := closing_f hca hcl
        rw [hf] at hff
        rcases hff with hff | hff | hff | hff <;> cases hff
      · simp only [FA]
        refine ⟨hni, noTable_congr rfl hnt, es, ?_, ?_⟩
        · have := tmpIs_write htmp es
          simpa using this
        · rw [hes]
          exact compOK_cout h.core.2 t.low ins
    · cases hact
  · cases hact

theorem step_tmpSync {t : TSt} {m : Mem} (h : PInv ⟨t, m⟩) {n : Nat} {m' : Mem}
    (hact : actTmpSync m n = some m') :
    ∃ t', accept t (.op (.tmpSync n)) = some t' ∧ PInv ⟨t', m'⟩ := by
  have hca : CA t.d m := h.ca
  have hfa : FA t.d t.low m := h.fa
  unfold actTmpSync at hact
  split at hact
  · rename_i w n' hf
    split at hact
    · rename_i hnn
      subst hnn
      simp only [Option.some.injEq] at hact; subst hact
      have hb := c_of_busy hca (by rw [hf]; intro hh; cases hh)
      simp only [FA, hf] at hfa
      obtain ⟨hhead, hnt, es, htmp, hok⟩ := hfa
      refine step_tmpOnly h _ trivial trivial rfl rfl hb rfl rfl rfl rfl rfl ?_ ?_
      · intro hcl
        obtain ⟨w0, n0, hi0, hff⟩ := closing_f hca hcl
        rw [hf] at hff
        rcases hff with hff | hff | hff | hff <;> cases hff
        exact ⟨w, n, hi0, Or.inr (Or.inr (Or.inl rfl))⟩
      · simp only [FA]
        exact ⟨hhead, noTable_congr rfl hnt, es, tmpIs_sync htmp, flushOK_congr (recsOf_congr rfl w) hok⟩
    · cases hact
  · rename_i ins n' hf
    split at hact
    · rename_i hnn
      subst hnn
      simp only [Option.some.injEq] at hact; subst hact
      have hb := c_of_busy hca (by rw [hf]; intro hh; cases hh)
      simp only [FA, hf] at hfa
      obtain ⟨hni, hnt, es, htmp, hok⟩ := hfa
      refine step_tmpOnly h _ trivial trivial rfl rfl hb rfl rfl rfl rfl rfl ?_ ?_
      · intro hcl
        obtain ⟨w0, n0, hi0, hff⟩ := closing_f hca hcl
        rw [hf] at hff
        rcases hff with hff | hff | hff | hff <;> cases hff
      · simp only [FA]
        exact ⟨hni, noTable_congr rfl hnt, es, tmpIs_sync htmp, hok⟩
    · cases hact
  · cases hact


theorem apply_publish_of_find {d : D} {n : Nat} {t0 : Tmp} (h : d.tmps.find? (·.name = n) = some t0) :
    apply d (.publish n) = { d with tables := d.tables ++ [(n, t0.ents)], tmps := d.tmps.filter (·.name ≠ n) } := by
  simp only [apply]; rw [h]

theorem mem_tableEnts_publish {d : D} {n : Nat} {t0 : Tmp} (h : d.tmps.find? (·.name = n) = some t0) {e : E} :
    e ∈ tableEnts (apply d (.publish n)) ↔ e ∈ tableEnts d ∨ e ∈ t0.ents := by
  rw [apply_publish_of_find h]
  simp [tableEnts, List.flatMap_append]

/-- a synced record of the queue's head wal: the head is never the wal being committed to -/
theorem head_synced {d : D} {m : Mem} (hrs : RS d m) {w : Nat} (hhead : m.imms.head? = some w) {e : E}
    (he : e ∈ recsOf d w) : e ∈ syncedRecs d := by
  obtain ⟨w0, hw0, hid, hew⟩ := mem_recsOf.mp he
  refine mem_syncedRecs.mpr ⟨w0, hw0, ?_⟩
  rcases hrs.sync w0 hw0 with h1 | ⟨h1, _⟩
  · rw [h1, List.take_length]; exact hew
  · exact absurd hid (head_ne_active hrs hhead h1).symm

theorem step_publish {t : TSt} {m : Mem} (h : PInv ⟨t, m⟩) {n : Nat} {m' : Mem}
    (hact : actPublish m n = some m') :
    ∃ t', accept t (.op (.publish n)) = some t' ∧ PInv ⟨t', m'⟩ := by
  have hca : CA t.d m := h.ca
  have hfa : FA t.d t.low m := h.fa
  unfold actPublish at hact
  split at hact
  · -- the flushed table appears under its name
    rename_i w n' hf
    split at hact
    · rename_i hnn
      subst hnn
      simp only [Option.some.injEq] at hact; subst hact
      have hb := c_of_busy hca (by rw [hf]; intro hh; cases hh)
      have hrs := rs_of_busy hca hb
      simp only [FA, hf] at hfa
      obtain ⟨hhead, hnt, es, ⟨t0, hfind, hents, hsy⟩, hsorted, hsub, hcomp⟩ := hfa
      have g : Guard t.d t.low (.publish n) := by
        simp only [Guard]; rw [hfind]
        refine ⟨hsy rfl, hnt, ?_⟩
        intro e he
        exact Or.inl (head_synced hrs hhead (hsub e (hents ▸ he)))
      have gw : GuardWF t.d (.publish n) := by
        simp only [GuardWF]; rw [hfind]; show SortedE vlt t0.ents; rw [hents]; exact hsorted
      have hacc := acceptOp_eq g gw
      have hwals : (apply t.d (.publish n)).wals = t.d.wals := by rw [apply_publish_of_find hfind]
      refine ⟨_, hacc, PInv.intro (core_accept h.core _ hacc) ?_ ?_ ?_⟩
      · intro w' hw'; exact h.idsLt w' (hwals ▸ hw')
      · refine ca_flusher (d := t.d) hca hb hwals ?_ ?_ rfl rfl rfl rfl rfl ?_
        · intro e he
          rcases (mem_tableEnts_publish hfind).mp he with h1 | h1
          · exact surviving_mem.mpr (Or.inr h1)
          · exact recsOf_sub_surviving (hsub e (hents ▸ h1))
        · intro e he _; exact (mem_tableEnts_publish hfind).mpr (Or.inl he)
        · intro hcl
          obtain ⟨w0, n0, hi0, hff⟩ := closing_f hca hcl
          rw [hf] at hff
          rcases hff with hff | hff | hff | hff <;> cases hff
          exact ⟨w, n, hi0, Or.inr (Or.inr (Or.inr rfl))⟩
      · simp only [FA]
        refine ⟨hhead, ?_⟩
        intro e he
        rw [recsOf_congr hwals] at he
        exact (mem_tableEnts_publish hfind).mpr (Or.inr (hents ▸ hcomp e he))
    · cases hact
  · -- the compaction output appears under its name
    rename_i ins n' hf
    split at hact
    · rename_i hnn
      subst hnn
      simp only [Option.some.injEq] at hact; subst hact
      have hb := c_of_busy hca (by rw [hf]; intro hh; cases hh)
      simp only [FA, hf] at hfa
      obtain ⟨hni, hnt, es, ⟨t0, hfind, hents, hsy⟩, hsorted, hsub, hcov⟩ := hfa
      have g : Guard t.d t.low (.publish n) := by
        simp only [Guard]; rw [hfind]
        exact ⟨hsy rfl, hnt, fun e he => Or.inr (hsub e (hents ▸ he))⟩
      have gw : GuardWF t.d (.publish n) := by
        simp only [GuardWF]; rw [hfind]; show SortedE vlt t0.ents; rw [hents]; exact hsorted
      have hacc := acceptOp_eq g gw
      have hwals : (apply t.d (.publish n)).wals = t.d.wals := by rw [apply_publish_of_find hfind]
      have htabs : (apply t.d (.publish n)).tables = t.d.tables ++ [(n, es)] := by
        rw [apply_publish_of_find hfind, hents]
      refine ⟨_, hacc, PInv.intro (core_accept h.core _ hacc) ?_ ?_ ?_⟩
      · intro w' hw'; exact h.idsLt w' (hwals ▸ hw')
      · refine ca_flusher (d := t.d) hca hb hwals ?_ ?_ rfl rfl rfl rfl rfl ?_
        · intro e he
          rcases (mem_tableEnts_publish hfind).mp he with h1 | h1
          · exact surviving_mem.mpr (Or.inr h1)
          · exact surviving_mem.mpr (Or.inr (hsub e (hents ▸ h1)))
        · intro e he _; exact (mem_tableEnts_publish hfind).mpr (Or.inl he)
        · intro hcl
          obtain ⟨w0, n0, hi0, hff⟩ := closing_f hca hcl
          rw [hf] at hff
          rcases hff with hff | hff | hff | hff <;> cases hff
      · simp only [FA]
        refine ⟨hni, ?_⟩
        intro s hs p hp hps e he
        rw [htabs] at hp
        rcases List.mem_append.mp hp with hp | hp
        · refine ⟨(n, es), by rw [htabs]; simp, rfl, ?_⟩
          exact hcov s hs p hp hps e he
        · simp only [List.mem_singleton] at hp
          subst hp
          exact absurd hs (hps ▸ hni)
    · cases hact
  · cases hact


/-! ### the flushed wal is deleted -/

/-- every other wal file is younger than the head of the queue -/
theorem head_lt {d : D} {m : Mem} (hrs : RS d m) {w : Nat} (hhead : m.imms.head? = some w) {w' : Wal}
    (hw' : w' ∈ d.wals) (hne : w'.id ≠ w) : w < w'.id := by
  cases hi : m.imms with
  | nil => rw [hi] at hhead; cases hhead
  | cons x xs =>
    rw [hi] at hhead; simp only [List.head?_cons, Option.some.injEq] at hhead; subst hhead
    rcases hrs.ids w' hw' with h1 | h1
    · rw [hi] at h1
      rcases List.mem_cons.mp h1 with h1 | h1
      · exact absurd h1 hne
      · have := hrs.imms_sorted; rw [hi] at this
        exact (List.pairwise_cons.mp this).1 _ h1
    · exact hrs.imms_lt _ h1 x (by rw [hi]; simp)

theorem wals_walRemove (d : D) (id : Nat) : (apply d (.walRemove id)).wals = d.wals.filter (·.id ≠ id) := rfl

theorem mem_wals_walRemove {d : D} {id : Nat} {w : Wal} :
    w ∈ (apply d (.walRemove id)).wals ↔ w ∈ d.wals ∧ w.id ≠ id := by
  rw [wals_walRemove]; simp [List.mem_filter]

theorem surviving_walRemove {d : D} {id : Nat} {e : E} (h : e ∈ surviving (apply d (.walRemove id))) : e ∈ surviving d := by
  rcases surviving_mem.mp h with h1 | h1
  · obtain ⟨w, hw, he⟩ := mem_allRecs.mp h1
    exact surviving_mem.mpr (Or.inl (mem_allRecs.mpr ⟨w, (mem_wals_walRemove.mp hw).1, he⟩))
  · exact surviving_mem.mpr (Or.inr h1)

theorem guard_walRemove_flush {d : D} {low : Nat} {m : Mem} (hrs : RS d m) {w : Nat} (hhead : m.imms.head? = some w)
    (htab : ∀ e ∈ recsOf d w, e ∈ tableEnts d) : Guard d low (.walRemove w) := by
  intro w0 hw0 hid e he
  right
  refine ⟨htab e (mem_recsOf.mpr ⟨w0, hw0, hid, he⟩), ?_⟩
  intro w' hw' hne
  have hlt := head_lt hrs hhead hw' hne
  have hage := hrs.age w0 hw0 w' hw' (by rw [hid]; exact hlt) e he
  refine ⟨?_, fun e2 he2 => Nat.le_of_lt (hage e2 he2)⟩
  intro hin
  have := hage e hin
  omega

/-- the running shape without the flushed head wal -/
theorem rs_walRemove_head {d : D} {m : Mem} (hrs : RS d m) {w : Nat} (hhead : m.imms.head? = some w) :
    RS (apply d (.walRemove w)) { m with f := .idle, imms := m.imms.tail } := by
  cases hi : m.imms with
  | nil => rw [hi] at hhead; cases hhead
  | cons x xs =>
    have hx : x = w := by rw [hi] at hhead; simpa using hhead
    subst hx
    have hsorted := hrs.imms_sorted; rw [hi] at hsorted
    refine ⟨?_, ?_, ?_, ?_, ?_, hrs.act_next, ?_, ?_, ?_⟩
    · intro w' hw'
      obtain ⟨hw1, hne⟩ := mem_wals_walRemove.mp hw'
      rcases hrs.ids w' hw1 with h1 | h1
      · rw [hi] at h1
        rcases List.mem_cons.mp h1 with h1 | h1
        · exact absurd h1 hne
        · exact Or.inl h1
      · exact Or.inr h1
    · intro a ha
      obtain ⟨w0, hw0, hid⟩ := hrs.act_ex a ha
      refine ⟨w0, mem_wals_walRemove.mpr ⟨hw0, ?_⟩, hid⟩
      rw [hid]; exact (head_ne_active hrs hhead ha).symm
    · exact (List.pairwise_cons.mp hsorted).2
    · intro a ha i hi'
      exact hrs.imms_lt a ha i (by rw [hi]; exact List.mem_cons_of_mem _ hi')
    · intro i hi'
      exact hrs.imms_next i (by rw [hi]; exact List.mem_cons_of_mem _ hi')
    · intro a ha b hb
      exact hrs.age a (mem_wals_walRemove.mp ha).1 b (mem_wals_walRemove.mp hb).1
    · intro e he; exact hrs.ts e (surviving_walRemove he)
    · intro w' hw'; exact hrs.sync w' (mem_wals_walRemove.mp hw').1

theorem step_walRemove_flush {t : TSt} {m : Mem} (h : PInv ⟨t, m⟩) {w n : Nat} (hf : m.f = .f4 w n) (c' : CPc)
    (hc' : (running m.c = true ∧ c' = m.c) ∨ (m.c = .closing ∧ c' = .down)) :
    ∃ t', accept t (.op (.walRemove w)) = some t' ∧
      PInv ⟨t', { m with f := .idle, imms := m.imms.tail, c := c' }⟩ := by
  have hca : CA t.d m := h.ca
  have hfa : FA t.d t.low m := h.fa
  have hb := c_of_busy hca (by rw [hf]; intro hh; cases hh)
  have hrs := rs_of_busy hca hb
  simp only [FA, hf] at hfa
  obtain ⟨hhead, htab⟩ := hfa
  have g := guard_walRemove_flush (low := t.low) hrs hhead htab
  have hacc := acceptOp_eq (o := .walRemove w) g trivial
  have hrs' := rs_walRemove_head hrs hhead
  refine ⟨_, hacc, PInv.intro (core_accept h.core _ hacc) ?_ ?_ ?_⟩
  · intro w' hw'; exact h.idsLt w' (mem_wals_walRemove.mp hw').1
  · rcases hc' with ⟨hrun, hcc⟩ | ⟨hcl, hcc⟩
    · subst hcc
      unfold CA at hca ⊢
      cases hcm : m.c with
      | down => simp [running, hcm] at hrun
      | ordered ws => simp [running, hcm] at hrun
      | closing => simp [running, hcm] at hrun
      | openRec new w rs ws sy => simp [running, hcm] at hrun
      | openTmp new ns => simp [running, hcm] at hrun
      | idle =>
        rw [hcm] at hca
        simp only
        exact ⟨by rw [hcm] at hrs'; exact hrs', hca.2⟩
      | commit b sy =>
        cases sy with
        | false =>
          rw [hcm] at hca
          obtain ⟨_, a, haa, hbb⟩ := hca
          simp only
          refine ⟨by rw [hcm] at hrs'; exact hrs', a, haa, ?_⟩
          intro e he
          obtain ⟨⟨w0, hw0, hid, hew⟩, hts⟩ := hbb e he
          refine ⟨⟨w0, mem_wals_walRemove.mpr ⟨hw0, ?_⟩, hid, hew⟩, hts⟩
          rw [hid]; exact (head_ne_active hrs hhead haa).symm
        | true =>
          rw [hcm] at hca
          obtain ⟨_, haa, hbb⟩ := hca
          simp only
          refine ⟨by rw [hcm] at hrs'; exact hrs', haa, ?_⟩
          intro e he
          obtain ⟨h1, hts⟩ := hbb e he
          refine ⟨?_, hts⟩
          rcases h1 with h1 | h1
          · obtain ⟨w0, hw0, hew⟩ := mem_syncedRecs.mp h1
            by_cases hid : w0.id = w
            · exact Or.inr (htab e (mem_recsOf.mpr ⟨w0, hw0, hid, List.mem_of_mem_take hew⟩))
            · exact Or.inl (mem_syncedRecs.mpr ⟨w0, mem_wals_walRemove.mpr ⟨hw0, hid⟩, hew⟩)
          · exact Or.inr h1
    · subst hcc
      simp only [CA]
  · simp only [FA]

theorem step_walRemove_closeEmpty {t : TSt} {m : Mem} (h : PInv ⟨t, m⟩) {id : Nat}
    (hf : m.f = .idle) (hempty : recsOf t.d id = []) :
    ∃ t', accept t (.op (.walRemove id)) = some t' ∧ PInv ⟨t', { m with c := .down, active := none }⟩ := by
  have g : Guard t.d t.low (.walRemove id) := by
    intro w0 hw0 hid e he
    have : e ∈ recsOf t.d id := mem_recsOf.mpr ⟨w0, hw0, hid, he⟩
    rw [hempty] at this; cases this
  have hacc := acceptOp_eq (o := .walRemove id) g trivial
  refine ⟨_, hacc, PInv.intro (core_accept h.core _ hacc) ?_ ?_ ?_⟩
  · intro w' hw'; exact h.idsLt w' (mem_wals_walRemove.mp hw').1
  · simp only [CA]; exact hf
  · have hfa : FA t.d t.low m := h.fa
    simp only [FA, hf] at hfa ⊢


/-! ### compaction: inputs deleted after the output is published; bound raised; plan -/

theorem not_closing_of_f {d : D} {m : Mem} (hca : CA d m)
    (hf : ∀ w n, m.f ≠ .f1 w n ∧ m.f ≠ .f2 w n ∧ m.f ≠ .f3 w n ∧ m.f ≠ .f4 w n) : m.c ≠ .closing := by
  intro hcl
  obtain ⟨w0, n0, _, hff⟩ := closing_f hca hcl
  obtain ⟨h1, h2, h3, h4⟩ := hf w0 n0
  rcases hff with hff | hff | hff | hff
  · exact h1 hff
  · exact h2 hff
  · exact h3 hff
  · exact h4 hff

theorem mem_tables_tableRemove {d : D} {s : Nat} {p : Nat × List E} :
    p ∈ (apply d (.tableRemove s)).tables ↔ p ∈ d.tables ∧ p.1 ≠ s := by
  simp [apply, List.mem_filter]

theorem step_tableRemove {t : TSt} {m : Mem} (h : PInv ⟨t, m⟩) {s : Nat} {m' : Mem}
    (hact : actTableRemove m s = some m') :
    ∃ t', accept t (.op (.tableRemove s)) = some t' ∧ PInv ⟨t', m'⟩ := by
  have hca : CA t.d m := h.ca
  have hfa : FA t.d t.low m := h.fa
  unfold actTableRemove at hact
  split at hact
  · rename_i rest n hf
    split at hact
    · rename_i hs
      simp only [Option.some.injEq] at hact; subst hact
      have hb := c_of_busy hca (by rw [hf]; intro hh; cases hh)
      have hrs := rs_of_busy hca hb
      simp only [FA, hf] at hfa
      obtain ⟨hni, hrem⟩ := hfa
      have hns : n ≠ s := fun hh => hni (hh ▸ hs)
      have g : Guard t.d t.low (.tableRemove s) := by
        intro p hp hps e he
        obtain ⟨q, hq, hqn, hcase⟩ := hrem s hs p hp hps e he
        rcases hcase with h1 | ⟨e', he', hrest⟩
        · exact Or.inl ⟨q, hq, by rw [hqn]; exact hns, h1⟩
        · exact Or.inr ⟨q, hq, by rw [hqn]; exact hns, e', he', hrest⟩
      have hacc := acceptOp_eq (o := .tableRemove s) g trivial
      refine ⟨_, hacc, PInv.intro (core_accept h.core _ hacc) h.idsLt ?_ ?_⟩
      · refine ca_flusher (d := t.d) hca hb rfl ?_ ?_ rfl rfl rfl rfl rfl ?_
        · intro e he
          obtain ⟨p, hp, hep⟩ := mem_tableEnts.mp he
          exact surviving_mem.mpr (Or.inr (mem_tableEnts.mpr ⟨p, (mem_tables_tableRemove.mp hp).1, hep⟩))
        · intro e he hts
          obtain ⟨p, hp, hep⟩ := mem_tableEnts.mp he
          by_cases hps : p.1 = s
          · obtain ⟨q, hq, hqn, hcase⟩ := hrem s hs p hp hps e hep
            have hq' : q ∈ (apply t.d (.tableRemove s)).tables :=
              mem_tables_tableRemove.mpr ⟨hq, by rw [hqn]; exact hns⟩
            rcases hcase with h1 | ⟨e', he', _, hlt, _⟩
            · exact mem_tableEnts.mpr ⟨q, hq', h1⟩
            · -- the batch being acknowledged is the newest data there is: nothing shadows it
              have := hrs.ts e' (surviving_mem.mpr (Or.inr (mem_tableEnts.mpr ⟨q, hq, he'⟩)))
              omega
          · exact mem_tableEnts.mpr ⟨p, mem_tables_tableRemove.mpr ⟨hp, hps⟩, hep⟩
        · intro hcl
          exact absurd hcl (not_closing_of_f hca (by intro w n; rw [hf]; refine ⟨?_, ?_, ?_, ?_⟩ <;> intro hh <;> cases hh))
      · show FA (apply t.d (.tableRemove s)) t.low _
        by_cases hemp : rest.erase s = []
        · simp only [FA, hemp, ↓reduceIte]
        · simp only [FA, hemp, ↓reduceIte]
          refine ⟨fun hh => hni (List.mem_of_mem_erase hh), ?_⟩
          intro s' hs' p hp hps e he
          obtain ⟨hp0, _⟩ := mem_tables_tableRemove.mp hp
          obtain ⟨q, hq, hqn, hcase⟩ := hrem s' (List.mem_of_mem_erase hs') p hp0 hps e he
          exact ⟨q, mem_tables_tableRemove.mpr ⟨hq, by rw [hqn]; exact hns⟩, hqn, hcase⟩
    · cases hact
  · cases hact

theorem step_raise {t : TSt} {m : Mem} (h : PInv ⟨t, m⟩) {lw : Nat} {m' : Mem}
    (hact : actRaise t m lw = some m') :
    ∃ t', accept t (.raise lw) = some t' ∧ PInv ⟨t', m'⟩ := by
  have hca : CA t.d m := h.ca
  have hfa : FA t.d t.low m := h.fa
  unfold actRaise at hact
  split at hact
  · rename_i ins n hf
    split at hact
    · rename_i hle
      simp only [Option.some.injEq] at hact; subst hact
      have hb := c_of_busy hca (by rw [hf]; intro hh; cases hh)
      have hacc : accept t (.raise lw) = some { t with low := lw } := by
        simp only [accept]; rw [if_pos hle]
      simp only [FA, hf] at hfa
      refine ⟨_, hacc, PInv.intro (core_accept h.core _ hacc) h.idsLt ?_ ?_⟩
      · refine ca_flusher (d := t.d) hca hb rfl (fun e he => surviving_mem.mpr (Or.inr he)) (fun e he _ => he)
          rfl rfl rfl rfl rfl ?_
        intro hcl
        exact absurd hcl (not_closing_of_f hca (by intro w n; rw [hf]; refine ⟨?_, ?_, ?_, ?_⟩ <;> intro hh <;> cases hh))
      · simp only [FA]; exact hfa
    · cases hact
  · cases hact

theorem step_plan {t : TSt} {m : Mem} (h : PInv ⟨t, m⟩) {ins : List Nat} {n : Nat} {m' : Mem}
    (hact : actPlan t m ins n = some m') : PInv ⟨t, m'⟩ := by
  have hca : CA t.d m := h.ca
  unfold actPlan at hact
  split at hact
  · rename_i hf
    split at hact
    · rename_i hcond
      obtain ⟨hrun, hni, _, hnt⟩ := hcond
      simp only [Option.some.injEq] at hact; subst hact
      refine PInv.intro h.core h.idsLt ?_ ?_
      · refine ca_flusher (d := t.d) hca (Or.inl hrun) rfl (fun e he => surviving_mem.mpr (Or.inr he)) (fun e he _ => he)
          rfl rfl rfl rfl rfl ?_
        intro hcl; rw [hcl] at hrun; simp [running] at hrun
      · simp only [FA]; exact ⟨hni, hnt⟩
    · cases hact
  · cases hact

end Prog
