/-! Blocking model of db.go / txn.go / oracle.go (C15): any number of committers and readers, the
    flusher goroutine and Close, with the resources on which a goroutine can wait for another one:
    `oracle.writeLock`, the bounded queue `flushC` (capacity `cap ≥ 0`; rendezvous when 0), the
    `closeC` / `closed` handshake, and `commitMark.WaitForMark` in Begin.

Goroutines of the same kind are interchangeable, so the state counts them per program counter (at
most one committer is inside the writeLock region).  Sections that only take short mutexes
(`oracle.Mutex`, `DB.mu`, `memtable.mu`, `levelManager.mu`, `WAL.mu`) and contain no wait for
another goroutine's *progress* are atomic steps: they always terminate, so they cannot be part of a
wait cycle (the regenerated blocking table shows that none of them is held across a wait and that the acquisition order is fixed: `Props.C15_waits_hold_only_writeLock`, `Props.C15_lock_order`). -/
namespace Sched

/-- where the committer that holds `writeLock` is -/
inductive LPc where
  | inLock (rotate : Bool) -- timestamp assigned (commitMark.Begin issued), batch being applied
  | sending                -- memtable rotated and published under DB.mu; blocked in `db.flushC <- imt`
  | afterSend              -- next: commitMark.Done, unlock
deriving DecidableEq, Repr

inductive FPc where
  | select               -- in the `select` of the run loop
  | flushing             -- flushImmutable + checkAndCompact + removal of the immutable (finite work)
  | exited               -- loop left, `closed` channel closed
deriving DecidableEq, Repr

inductive ClPc where
  | idle
  | wantLock             -- state stored as Closed; blocked on writeLock
  | sendClose            -- holds writeLock; blocked in `db.closeC <- struct{}{}`
  | waitClosed           -- blocked in `<-db.closed`
  | flushActive          -- flushes the active memtable on its own goroutine
  | done
deriving DecidableEq, Repr

structure St where
  cap : Nat
  cIdle : Nat              -- Commit calls not yet made
  cWant : Nat              -- Commit calls blocked on writeLock
  cLocked : Option LPc     -- the Commit call inside the writeLock region
  cDone : Nat
  rIdle : Nat              -- Begin calls not yet made
  rWait : List Nat         -- read timestamps of Begin calls blocked in WaitForMark
  rDone : Nat
  f : FPc
  fClosed : Bool           -- the run loop's local `closed` flag
  cl : ClPc
  dbClosed : Bool          -- db.state == StateClosed
  q : Nat                  -- buffered items in flushC
  commitMark : Nat         -- commitMark.DoneUntil
  nextTs : Nat
deriving Repr

def init (cap nc nr : Nat) : St :=
  { cap := cap, cIdle := nc, cWant := 0, cLocked := none, cDone := 0, rIdle := nr, rWait := [], rDone := 0,
    f := .select, fClosed := false, cl := .idle, dbClosed := false, q := 0, commitMark := 0, nextTs := 1 }

def closerHolds (s : St) : Bool := s.cl = .sendClose || s.cl = .waitClosed || s.cl = .flushActive

def lockFree (s : St) : Bool := s.cLocked.isNone && !closerHolds s

inductive Step where
  | cCall                      -- Commit is called
  | cLock (rotate : Bool)      -- writeLock acquired; closed ⇒ unlock and return ErrDBClosed at once
  | cApply                     -- batch applied; rotation published under DB.mu if needed
  | cSend                      -- the send on flushC completes
  | cFinish                    -- commitMark.Done, unlock
  | rCall                      -- Begin: timestamp under the oracle mutex, then WaitForMark
  | rWake (j : Nat)            -- WaitForMark of the j-th waiting Begin returns
  | fRecv                      -- flusher takes an item from the queue
  | fRecvClose                 -- flusher takes the close signal (the sender's `closeC <-` completes)
  | fDone                      -- flusher finished one item
  | clCall                     -- Close is called: state := Closed
  | clLock
  | clClosed                   -- `<-db.closed` returns
  | clFinish                   -- active memtable flushed, unlock
deriving Repr

/-- one step; `none` = not enabled (blocked or not applicable) -/
def step (s : St) : Step → Option St
  | .cCall => if 0 < s.cIdle then some { s with cIdle := s.cIdle - 1, cWant := s.cWant + 1 } else none
  | .cLock rot =>
    if 0 < s.cWant ∧ lockFree s then
      if s.dbClosed then some { s with cWant := s.cWant - 1, cDone := s.cDone + 1 }
      else some { s with cWant := s.cWant - 1, cLocked := some (.inLock rot), nextTs := s.nextTs + 1 }
    else none
  | .cApply =>
    match s.cLocked with
    | some (.inLock true) => some { s with cLocked := some .sending }
    | some (.inLock false) => some { s with cLocked := some .afterSend }
    | _ => none
  | .cSend =>
    if s.cLocked = some .sending then
      if s.q < s.cap then some { s with cLocked := some .afterSend, q := s.q + 1 }
      else if s.cap = 0 ∧ s.f = .select then some { s with cLocked := some .afterSend, f := .flushing }   -- rendezvous
      else none
    else none
  | .cFinish =>
    if s.cLocked = some .afterSend then
      some { s with cLocked := none, cDone := s.cDone + 1, commitMark := s.nextTs - 1 }
    else none
  | .rCall => if 0 < s.rIdle then some { s with rIdle := s.rIdle - 1, rWait := (s.nextTs - 1) :: s.rWait } else none
  | .rWake j =>
    match s.rWait[j]? with
    | some t => if t ≤ s.commitMark then some { s with rWait := s.rWait.eraseIdx j, rDone := s.rDone + 1 } else none
    | none => none
  | .fRecv => if s.f = .select ∧ 0 < s.q then some { s with f := .flushing, q := s.q - 1 } else none
  | .fRecvClose =>
    if s.f = .select ∧ s.cl = .sendClose then
      if 0 < s.q then some { s with fClosed := true, cl := .waitClosed }
      else some { s with fClosed := true, f := .exited, cl := .waitClosed }
    else none
  | .fDone =>
    if s.f = .flushing then
      if s.fClosed ∧ s.q = 0 then some { s with f := .exited } else some { s with f := .select }
    else none
  | .clCall => if s.cl = .idle then some { s with cl := .wantLock, dbClosed := true } else none
  | .clLock => if s.cl = .wantLock ∧ lockFree s then some { s with cl := .sendClose } else none
  | .clClosed => if s.cl = .waitClosed ∧ s.f = .exited then some { s with cl := .flushActive } else none
  | .clFinish => if s.cl = .flushActive then some { s with cl := .done } else none

inductive Reach (cap nc nr : Nat) : St → Prop where
  | init : Reach cap nc nr (init cap nc nr)
  | step {s s' : St} (st : Step) : Reach cap nc nr s → step s st = some s' → Reach cap nc nr s'

/-- some API call has been made and has not returned -/
def Unfinished (s : St) : Prop :=
  0 < s.cWant ∨ s.cLocked.isSome = true ∨ s.rWait ≠ [] ∨ (s.cl ≠ ClPc.idle ∧ s.cl ≠ ClPc.done)

/-- Close has been requested and the flusher side of the handshake has happened -/
def clLate (s : St) : Prop := s.cl = ClPc.waitClosed ∨ s.cl = ClPc.flushActive ∨ s.cl = ClPc.done

structure Inv (s : St) : Prop where
  commCl : s.cLocked.isSome = true → s.cl = ClPc.idle ∨ s.cl = ClPc.wantLock
  fExit : s.f = FPc.exited → clLate s
  clF : clLate s → s.fClosed = true
  fcl : s.fClosed = true → clLate s
  fSel : s.fClosed = true → s.f = FPc.select → 0 < s.q
  dbK : s.dbClosed = true ↔ s.cl ≠ ClPc.idle
  qcap : s.q ≤ s.cap
  markL : s.cLocked.isSome = true → s.commitMark + 2 = s.nextTs
  markN : s.cLocked = none → s.commitMark + 1 = s.nextTs
  rts : ∀ t ∈ s.rWait, t < s.nextTs

end Sched
