import Originium.Model.Sched
/-! Following a recorded execution in the blocking model (C15 / C12).

Some steps of `Sched` are *visible* in the hook events of the real engine, in an order that is
faithful because the event is emitted inside the `writeLock` region (or, for the flusher's
`flush.done`, before the goroutine goes back to its `select`):

* `commit.ts` — a committer is inside the lock region with a timestamp (`cLock` on an open DB),
* `rotate` / `commit.applied` — the batch is applied, with / without a memtable rotation (`cApply`),
* `commit.done` — `cFinish`,   `flush.done` — `fDone`,
* `close.begin` — Close holds `writeLock` (`clLock`), `close.drained` — `<-db.closed` returned
  (`clClosed`), `close.done` — `clFinish`.

Everything else (calls being made, the channel operations themselves, a Commit refused with
`ErrDBClosed`, Begin and its wait) is hidden.  `follow` tracks the set of model states that explain
the observations so far (subset construction over hidden steps); an empty set means the real
execution is not an execution of the model.  `follow_sound`: every tracked state is reachable in
`Sched`, so every theorem about reachable states applies to the run being observed. -/
namespace Sched

deriving instance DecidableEq for St

inductive Obs where
  | clock | capply (rot : Bool) | cfin | fdone | cllock | cldrained | cldone
deriving DecidableEq, Repr

/-- the visible label of a step taken in state `s` (`none`: hidden) -/
def labelOf (s : St) : Step → Option Obs
  | .cLock _ => if s.dbClosed then none else some .clock
  | .cApply => match s.cLocked with
    | some (.inLock r) => some (.capply r)
    | _ => none
  | .cFinish => some .cfin
  | .fDone => some .fdone
  | .clLock => some .cllock
  | .clClosed => some .cldrained
  | .clFinish => some .cldone
  | _ => none

/-- the steps worth trying in a state.  Not tried: calls being made (the follower starts with every
    Commit call already waiting for the lock), a Commit refused with `ErrDBClosed` and everything about
    Begin — hidden steps without any effect on what the other goroutines can do; leaving them out
    keeps the tracked set small and loses no explanation of the visible events -/
def candidates (_ : St) : List Step :=
  [.cLock true, .cLock false, .cApply, .cSend, .cFinish, .fRecv, .fRecvClose, .fDone,
   .clCall, .clLock, .clClosed, .clFinish]

def hiddenSucc (s : St) : List St :=
  (candidates s).filterMap fun st =>
    if labelOf s st = none then
      match st with
      | .cLock _ => none          -- (on a closed DB: a refused Commit)
      | _ => step s st
    else none

def visibleSucc (s : St) (o : Obs) : List St :=
  (candidates s).filterMap fun st => if labelOf s st = some o then step s st else none

def insertNew (acc : List St) (s : St) : List St := if s ∈ acc then acc else acc ++ [s]

/-- closure under hidden steps (`fuel` rounds; a round that adds nothing ends it) -/
def closure : Nat → List St → List St
  | 0, S => S
  | fuel + 1, S =>
    let S' := (S.flatMap hiddenSucc).foldl insertNew S
    if S'.length = S.length then S else closure fuel S'

/-- the states that explain one more observation -/
def follow (fuel : Nat) (S : List St) (o : Obs) : List St :=
  closure fuel (((closure fuel S).flatMap fun s => visibleSucc s o).foldl insertNew [])

def start (fuel cap nc nr : Nat) : List St := closure fuel [init cap nc nr]

/-- all `nc` Commit calls have been made and wait for `writeLock` -/
def called (cap nc : Nat) : St := { init cap nc 0 with cIdle := 0, cWant := nc }

def startCalled (fuel cap nc : Nat) : List St := closure fuel [called cap nc]

/-! ### soundness: tracked states are reachable -/

theorem mem_foldl_insertNew {xs acc : List St} {s : St} (h : s ∈ xs.foldl insertNew acc) : s ∈ acc ∨ s ∈ xs := by
  induction xs generalizing acc with
  | nil => exact Or.inl h
  | cons x xs ih =>
    simp only [List.foldl_cons] at h
    rcases ih h with h1 | h1
    · unfold insertNew at h1
      split at h1
      · exact Or.inl h1
      · rcases List.mem_append.mp h1 with h2 | h2
        · exact Or.inl h2
        · simp only [List.mem_singleton] at h2; exact Or.inr (by simp [h2])
    · exact Or.inr (List.mem_cons_of_mem _ h1)

theorem reach_hiddenSucc {cap nc nr : Nat} {s s' : St} (hr : Reach cap nc nr s) (h : s' ∈ hiddenSucc s) :
    Reach cap nc nr s' := by
  simp only [hiddenSucc, List.mem_filterMap] at h
  obtain ⟨st, _, hst⟩ := h
  split at hst
  · split at hst
    · cases hst
    · exact Reach.step st hr hst
  · cases hst

theorem reach_visibleSucc {cap nc nr : Nat} {s s' : St} {o : Obs} (hr : Reach cap nc nr s) (h : s' ∈ visibleSucc s o) :
    Reach cap nc nr s' := by
  simp only [visibleSucc, List.mem_filterMap] at h
  obtain ⟨st, _, hst⟩ := h
  split at hst
  · exact Reach.step st hr hst
  · cases hst

theorem reach_closure {cap nc nr : Nat} (fuel : Nat) (S : List St) (h : ∀ s ∈ S, Reach cap nc nr s) :
    ∀ s ∈ closure fuel S, Reach cap nc nr s := by
  induction fuel generalizing S with
  | zero => exact h
  | succ fuel ih =>
    simp only [closure]
    split
    · exact h
    · apply ih
      intro s hs
      rcases mem_foldl_insertNew hs with h1 | h1
      · exact h s h1
      · obtain ⟨s0, hs0, hs1⟩ := List.mem_flatMap.mp h1
        exact reach_hiddenSucc (h s0 hs0) hs1

/-- every state tracked while following an observed execution is a reachable state of `Sched` -/
theorem follow_sound {cap nc nr : Nat} (fuel : Nat) (S : List St) (o : Obs) (h : ∀ s ∈ S, Reach cap nc nr s) :
    ∀ s ∈ follow fuel S o, Reach cap nc nr s := by
  unfold follow
  apply reach_closure
  intro s hs
  rcases mem_foldl_insertNew hs with h1 | h1
  · cases h1
  · obtain ⟨s0, hs0, hs1⟩ := List.mem_flatMap.mp h1
    exact reach_visibleSucc (reach_closure fuel S h s0 hs0) hs1

theorem start_sound (fuel cap nc nr : Nat) : ∀ s ∈ start fuel cap nc nr, Reach cap nc nr s := by
  apply reach_closure
  intro s hs
  simp only [List.mem_singleton] at hs
  subst hs
  exact Reach.init

theorem reach_calls (cap nc : Nat) : ∀ j, j ≤ nc →
    Reach cap nc 0 { init cap nc 0 with cIdle := nc - j, cWant := j } := by
  intro j
  induction j with
  | zero => intro _; exact Reach.init
  | succ j ih =>
    intro hj
    have := ih (by omega)
    refine Reach.step .cCall this ?_
    simp only [step]
    rw [if_pos (by show 0 < nc - j; omega)]
    have h1 : nc - j - 1 = nc - (j + 1) := by omega
    simp only [h1]

theorem startCalled_sound (fuel cap nc : Nat) : ∀ s ∈ startCalled fuel cap nc, Reach cap nc 0 s := by
  apply reach_closure
  intro s hs
  simp only [List.mem_singleton] at hs
  subst hs
  have := reach_calls cap nc nc (Nat.le_refl _)
  simpa [called] using this

/-- following a whole observation sequence -/
def followAll (fuel : Nat) (S : List St) (os : List Obs) : List St := os.foldl (follow fuel) S

theorem followAll_sound {cap nc nr : Nat} (fuel : Nat) (os : List Obs) (S : List St) (h : ∀ s ∈ S, Reach cap nc nr s) :
    ∀ s ∈ followAll fuel S os, Reach cap nc nr s := by
  induction os generalizing S with
  | nil => exact h
  | cons o os ih => exact ih _ (follow_sound fuel S o h)

end Sched
