import Originium.Generated.Types
import Originium.Model.Key
import Originium.Model.Codec
import Originium.Model.VKey
import Originium.Model.DB
/-! Tie of the translated `types.CompareKeys`, `types.IsSameKey` and `utils.LCP` (Generated/Types.lean) to the hand models
    `Key.compareKeys?` and `Codec.lcp`. -/
namespace TypesTie

/-- the Go int `strings.Compare` / `CompareKeys` return for an ordering -/
def ordInt : Ordering → Int
  | .lt => -1
  | .eq => 0
  | .gt => 1

theorem ordInt_eq_zero (o : Ordering) : ordInt o = 0 ↔ o = .eq := by cases o <;> simp [ordInt]

/-- `ParseKey` where it does not panic -/
def pk (s : Key.Bytes) : Key.Bytes := (Key.parseKey? s).getD []

/-- The translated `types.CompareKeys`, given `strings.Compare` as the byte order and `ParseKey` / `ParseTs` as the model's,
    returns the Go int of the model's `compareKeys?` on every pair of keys on which `ParseKey` does not panic. -/
theorem compareKeys_eq (a b : Key.Bytes) (o : Ordering) (h : Key.compareKeys? a b = some o) :
    GenTypes.compareKeys (fun x y => ordInt (Key.cmpBytes x y)) pk Key.parseTs a b = ordInt o := by
  unfold Key.compareKeys? at h
  cases ha : Key.parseKey? a with
  | none => simp [ha] at h
  | some ka =>
    cases hb : Key.parseKey? b with
    | none => simp [ha, hb] at h
    | some kb =>
      simp only [ha, hb, Option.bind_eq_bind, Option.bind_some] at h
      simp only [GenTypes.compareKeys, pk, ha, hb, Option.getD_some]
      cases hc : Key.cmpBytes ka kb <;> simp only [hc] at h
      · injection h with h; subst h; simp [ordInt]
      · injection h with h; subst h
        simp only [ordInt, ne_eq, not_true_eq_false, decide_false, Bool.false_eq_true, ↓reduceIte]
        by_cases h1 : Key.parseTs a < Key.parseTs b
        · simp [h1]
        · by_cases h2 : Key.parseTs a > Key.parseTs b
          · simp [h1, h2]
          · simp [h1, h2]
      · injection h with h; subst h; simp [ordInt]

/-- On versioned keys `user@ts` the translated `CompareKeys` is the order (user ascending, timestamp descending). -/
theorem compareKeys_keyWithTs (k1 k2 : Key.Bytes) (t1 t2 : Nat) (h1 : t1 < 2^64) (h2 : t2 < 2^64) :
    GenTypes.compareKeys (fun x y => ordInt (Key.cmpBytes x y)) pk Key.parseTs (Key.keyWithTs k1 t1) (Key.keyWithTs k2 t2)
      = ordInt ((Key.cmpBytes k1 k2).then (compare t2 t1)) :=
  compareKeys_eq _ _ _ (Key.compareKeys_keyWithTs k1 k2 t1 t2 h1 h2)

/-- `CompareKeys(a, b) < 0` in the translated code is the strict order `vlt` every sorted structure of the model uses. -/
theorem compareKeys_neg_iff_vlt (a b : VKey.VK) (h1 : a.ts < 2^64) (h2 : b.ts < 2^64) :
    GenTypes.compareKeys (fun x y => ordInt (Key.cmpBytes x y)) pk Key.parseTs (Key.keyWithTs a.user a.ts) (Key.keyWithTs b.user b.ts) < 0
      ↔ VKey.vlt a b = true := by
  rw [compareKeys_keyWithTs _ _ _ _ h1 h2]
  simp only [VKey.vlt, VKey.bltB]
  cases hc : Key.cmpBytes a.user b.user
  · simp [Ordering.then, ordInt]
  · have hu : a.user = b.user := (VKey.cmpBytes_eq_iff _ _).mp hc
    simp only [Ordering.then, hu, beq_self_eq_true, Bool.true_and]
    rcases Nat.lt_trichotomy b.ts a.ts with h | h | h
    · simp [Nat.compare_eq_lt.mpr h, ordInt, h]
    · simp [h, ordInt]
    · have : ¬ b.ts < a.ts := by omega
      simp [Nat.compare_eq_gt.mpr h, ordInt, this]
  · have hu : a.user ≠ b.user := by
      intro h; rw [(VKey.cmpBytes_eq_iff _ _).mpr h] at hc; cases hc
    simp [Ordering.then, ordInt, hu]

/-- The translated `types.IsSameKey` on versioned keys compares the user keys. -/
theorem isSameKey_keyWithTs (k1 k2 : Key.Bytes) (t1 t2 : Nat) :
    GenTypes.isSameKey pk (Key.keyWithTs k1 t1) (Key.keyWithTs k2 t2) = decide (k1 = k2) := by
  simp [GenTypes.isSameKey, pk, Key.parseKey_keyWithTs]

/-- the loop of the translated `utils.LCP`: from position `i` of both strings -/
theorem lcp_loop (a b : List UInt8) (i fuel : Nat) (hf : a.length - i < fuel) :
    GenTypes.lcp.loop1 a b (min a.length b.length) (fun i => i) fuel i = i + Codec.lcp (a.drop i) (b.drop i) := by
  induction fuel generalizing i with
  | zero => omega
  | succ n ih =>
    simp only [GenTypes.lcp.loop1]
    by_cases hi : i < min a.length b.length
    · have hia : i < a.length := by omega
      have hib : i < b.length := by omega
      rw [List.drop_eq_getElem_cons hia, List.drop_eq_getElem_cons hib]
      simp only [List.getD_eq_getElem?_getD, List.getElem?_eq_getElem hia, List.getElem?_eq_getElem hib, Option.getD_some]
      by_cases he : a[i] = b[i]
      · simp only [hi, he, decide_true, Bool.and_self, ↓reduceIte, Codec.lcp]
        rw [ih (i + 1) (by omega)]; omega
      · simp [hi, he, Codec.lcp]
    · simp only [hi, decide_false, Bool.false_and, Bool.false_eq_true, ↓reduceIte]
      have : a.drop i = [] ∨ b.drop i = [] := by
        rcases Nat.le_total a.length b.length with h | h
        · left; exact List.drop_eq_nil_of_le (by omega)
        · right; exact List.drop_eq_nil_of_le (by omega)
      rcases this with h | h
      · simp [h, Codec.lcp]
      · rw [h]; cases a.drop i <;> simp [Codec.lcp]

/-- The translated `utils.LCP` is the model's `lcp` on every pair of byte strings. -/
theorem lcp_eq (a b : List UInt8) : GenTypes.lcp a b = Codec.lcp a b := by
  have := lcp_loop a b 0 (a.length + 1) (by omega)
  simpa [GenTypes.lcp] using this

/-- The translated `types.Value` applied to what the search found is the model's `valueOf`: a tombstone is "not found". -/
theorem value_eq (r : Option Levels.E) :
    r.bind (fun e => GenTypes.value e.tomb e.value) = DB.valueOf r := by
  cases r with
  | none => rfl
  | some e => simp only [Option.bind_some, GenTypes.value, DB.valueOf]

#print axioms value_eq
#print axioms compareKeys_eq
#print axioms lcp_eq
#print axioms compareKeys_neg_iff_vlt
end TypesTie
