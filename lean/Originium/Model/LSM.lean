import Originium.Model.Levels
import Originium.Model.Compact
import Originium.Model.Skiplist
/-! level.go on concrete versioned keys: sstables as blocks + index, lookup over all tables
    (`searchLowerBound` after the repair), `kway.MergeVersions`, `discardStaleEntries`, compaction. -/
namespace LSM
open Key VKey Table Levels Compact

/-- `len(entry.Key) + len(entry.Value) + 1` as accumulated by `table.Build` (the key is the versioned string) -/
def esize (e : E) : Nat := (keyWithTs e.key.user e.key.ts).length + e.value.length + 1

/-- a table as `table.Build` lays it out: data blocks in order (the index is one (StartKey, EndKey) pair per block) -/
structure TableM where
  blocks : List (List E)
deriving Repr

def buildTable (bs : Nat) (es : List E) : TableM := ⟨buildBlocks esize bs es⟩

def TableM.entries (t : TableM) : List E := t.blocks.flatten

/-- `Index.LowerBound` + `Data.LowerBound` + the same-user-key test of `searchLowerBound` -/
def tableSearch (t : TableM) (k : Bytes) (r : Nat) : Option E :=
  (tableLookup vlt t.blocks ⟨k, r⟩).filter (fun e => e.key.user == k)

/-- `levelManager.searchLowerBound`: every table of every level, bloom pre-check, newest candidate wins -/
def search (mayContain : TableM → Bytes → Bool) (tables : List TableM) (k : Bytes) (r : Nat) : Option E :=
  tables.foldl (fun acc t => if mayContain t k then better acc (tableSearch t k r) else acc) none

theorem vlt_trans' : ∀ a b c : VK, vlt a b = true → vlt b c = true → vlt a c = true := vlt_trans

theorem tableSearch_build (bs : Nat) {es : List E} (hs : SortedE vlt es) (k : Bytes) (r : Nat) :
    tableSearch (buildTable bs es) k r = tableCand es k r := by
  unfold tableSearch tableCand buildTable
  rw [build_lookup_eq vlt esize vlt_trans' bs hs]

theorem buildTable_entries (bs : Nat) (es : List E) : (buildTable bs es).entries = es := by
  simp [TableM.entries, buildTable, build_flatten]

/-- a table that came out of `table.Build` for some block size and some sorted entry list
    (this includes handles rebuilt by recovery: `Codec` shows that decoding the file gives back `es`) -/
def Built (t : TableM) : Prop := ∃ bs es, SortedE vlt es ∧ t = buildTable bs es

theorem search_newest (mayContain : TableM → Bytes → Bool)
    (hbloom : ∀ t e, e ∈ t.entries → mayContain t e.key.user = true)
    (tables : List TableM) (hb : ∀ t ∈ tables, Built t) (k : Bytes) (r : Nat) :
    IsNewest (tables.map (·.entries)).flatten k r (search mayContain tables k r) := by
  unfold search
  suffices h : ∀ (pre : List E) (acc : Option E), IsNewest pre k r acc →
      IsNewest (pre ++ (tables.map (·.entries)).flatten) k r
        (tables.foldl (fun acc t => if mayContain t k then better acc (tableSearch t k r) else acc) acc) by
    have := h [] none (by simp [IsNewest])
    simpa using this
  induction tables with
  | nil => intro pre acc h; simpa using h
  | cons t rest ih =>
    intro pre acc hacc
    obtain ⟨bs, es, hs, rfl⟩ := hb t (by simp)
    have hrest := ih (fun t' ht' => hb t' (by simp [ht']))
    simp only [List.foldl_cons, List.map_cons, List.flatten_cons]
    rw [← List.append_assoc]
    apply hrest
    rw [buildTable_entries]
    split
    · rw [tableSearch_build bs hs]
      exact better_newest hacc (tableCand_newest hs k r)
    · rename_i hno
      have hnone : IsNewest es k r none := by
        intro e he hu
        have := hbloom (buildTable bs es) e (by rw [buildTable_entries]; exact he)
        rw [hu] at this; exact absurd this hno
      have := better_newest hacc hnone
      cases acc <;> simpa [better] using this

/-! ### kway.MergeVersions -/

/-- ordered insert; an entry with the same versioned key is replaced (the later list wins) -/
def insertE (acc : List E) (e : E) : List E :=
  match acc with
  | [] => [e]
  | x :: xs =>
    if vlt x.key e.key then x :: insertE xs e
    else if x.key = e.key then e :: xs
    else e :: x :: xs

/-- `kway.MergeVersions(lists...)`: sorted by versioned key, duplicates resolved in favour of the
    list with the larger index, tombstones kept -/
def mergeVersions (lists : List (List E)) : List E := lists.flatten.foldl insertE []

/-- `kway.Merge`: the same, tombstones dropped (used by scans, pinned by the repository's tests) -/
def merge (lists : List (List E)) : List E := (mergeVersions lists).filter (fun e => !e.tomb)

theorem mem_insertE {acc : List E} {e x : E} : x ∈ insertE acc e → x = e ∨ x ∈ acc := by
  induction acc with
  | nil => simp [insertE]
  | cons y ys ih =>
    unfold insertE
    split
    · intro h
      rcases List.mem_cons.mp h with h | h
      · right; simp [h]
      · rcases ih h with h | h
        · left; exact h
        · right; simp [h]
    · split
      · intro h
        rcases List.mem_cons.mp h with h | h
        · left; exact h
        · right; simp [h]
      · intro h
        rcases List.mem_cons.mp h with h | h
        · left; exact h
        · right; exact h

theorem self_mem_insertE (acc : List E) (e : E) : e ∈ insertE acc e := by
  induction acc with
  | nil => simp [insertE]
  | cons y ys ih =>
    unfold insertE
    split
    · simp [ih]
    · split <;> simp

/-- whatever was in the accumulator is still there, or was replaced by an entry with the same key -/
theorem mem_insertE_of_mem {acc : List E} {e x : E} (hx : x ∈ acc) : x ∈ insertE acc e ∨ x.key = e.key := by
  induction acc with
  | nil => cases hx
  | cons y ys ih =>
    unfold insertE
    split
    · rcases List.mem_cons.mp hx with h | h
      · left; simp [h]
      · rcases ih h with h' | h'
        · left; simp [h']
        · right; exact h'
    · split
      · rename_i hk
        rcases List.mem_cons.mp hx with h | h
        · right; rw [h]; exact hk
        · left; simp [h]
      · left; simp [List.mem_cons.mp hx]

theorem insertE_sorted {acc : List E} (hs : SortedE vlt acc) (e : E) : SortedE vlt (insertE acc e) := by
  induction acc with
  | nil => simp [insertE, SortedE]
  | cons x xs ih =>
    have hxs : SortedE vlt xs := (List.pairwise_cons.mp hs).2
    have hx := (List.pairwise_cons.mp hs).1
    unfold insertE
    split
    · rename_i hlt
      refine List.pairwise_cons.mpr ⟨?_, ih hxs⟩
      intro y hy
      rcases mem_insertE hy with h | h
      · rw [h]; exact hlt
      · exact hx y h
    · rename_i hnlt
      split
      · rename_i hk
        refine List.pairwise_cons.mpr ⟨?_, hxs⟩
        intro y hy; rw [← hk]; exact hx y hy
      · rename_i hne
        have hlt : vlt e.key x.key = true := by
          cases h : vlt e.key x.key with
          | true => rfl
          | false => exact absurd (vlt_total _ _ (by simpa using hnlt) h) hne
        refine List.pairwise_cons.mpr ⟨?_, hs⟩
        intro y hy
        rcases List.mem_cons.mp hy with h | h
        · rw [h]; exact hlt
        · exact vlt_trans _ _ _ hlt (hx y h)

theorem foldl_insertE_sorted (es : List E) (acc : List E) (hs : SortedE vlt acc) :
    SortedE vlt (es.foldl insertE acc) := by
  induction es generalizing acc with
  | nil => exact hs
  | cons e es ih => exact ih _ (insertE_sorted hs e)

theorem mergeVersions_sorted (lists : List (List E)) : SortedE vlt (mergeVersions lists) :=
  foldl_insertE_sorted _ [] (by simp [SortedE])

theorem foldl_insertE_sub (es acc : List E) : ∀ x ∈ es.foldl insertE acc, x ∈ es ∨ x ∈ acc := by
  induction es generalizing acc with
  | nil => intro x hx; right; exact hx
  | cons e es ih =>
    intro x hx
    rcases ih _ x hx with h | h
    · left; simp [h]
    · rcases mem_insertE h with h | h
      · left; simp [h]
      · right; exact h

/-- no invention: the merge only contains input entries -/
theorem mergeVersions_sub (lists : List (List E)) : ∀ x ∈ mergeVersions lists, x ∈ lists.flatten := by
  intro x hx
  rcases foldl_insertE_sub _ _ x hx with h | h
  · exact h
  · cases h

/-- two entries with the same versioned key are the same entry (a versioned key is written once;
    copies left behind by a crash are identical) -/
def Consistent (es : List E) : Prop := ∀ a ∈ es, ∀ b ∈ es, a.key = b.key → a = b

theorem foldl_insertE_complete (es acc : List E) (hc : Consistent (es ++ acc)) :
    (∀ x ∈ acc, x ∈ es.foldl insertE acc) ∧ ∀ x ∈ es, x ∈ es.foldl insertE acc := by
  induction es generalizing acc with
  | nil => exact ⟨fun x hx => hx, fun x hx => by cases hx⟩
  | cons e es ih =>
    have hc' : Consistent (es ++ insertE acc e) := by
      intro a ha b hb hab
      have ha' : a ∈ (e :: es) ++ acc := by
        rcases List.mem_append.mp ha with h | h
        · simp [h]
        · rcases mem_insertE h with h | h <;> simp [h]
      have hb' : b ∈ (e :: es) ++ acc := by
        rcases List.mem_append.mp hb with h | h
        · simp [h]
        · rcases mem_insertE h with h | h <;> simp [h]
      exact hc a ha' b hb' hab
    obtain ⟨h1, h2⟩ := ih (insertE acc e) hc'
    simp only [List.foldl_cons]
    refine ⟨?_, ?_⟩
    · intro x hx
      rcases mem_insertE_of_mem (e := e) hx with h | h
      · exact h1 x h
      · -- replaced by an entry with the same key: by consistency it is the same entry
        have : x = e := hc x (by simp [hx]) e (by simp) h
        rw [this]; exact h1 e (self_mem_insertE acc e)
    · intro x hx
      rcases List.mem_cons.mp hx with h | h
      · rw [h]; exact h1 e (self_mem_insertE acc e)
      · exact h2 x h

/-- nothing is lost by the merge itself (consistent inputs) -/
theorem mergeVersions_complete (lists : List (List E)) (hc : Consistent lists.flatten) :
    ∀ x ∈ lists.flatten, x ∈ mergeVersions lists :=
  (foldl_insertE_complete lists.flatten [] (by simpa using hc)).2

/-! ### compaction -/

/-- `compactL0` / `compactLN` on the entry level: merge the chosen tables (older first), discard stale versions -/
def compactOutput (low : Nat) (ins : List (List E)) : List E := discardStale low (mergeVersions ins)

theorem discardStale_sorted (low : Nat) {es : List E} (hs : SortedE vlt es) : SortedE vlt (discardStale low es) := by
  unfold discardStale
  split
  · exact hs
  · exact List.Pairwise.sublist List.filter_sublist hs

theorem compactOutput_sorted (low : Nat) (ins : List (List E)) : SortedE vlt (compactOutput low ins) :=
  discardStale_sorted low (mergeVersions_sorted ins)

/-- the compaction output is accepted: a subset of the inputs in which every dropped entry is
    shadowed by a kept newer version at or below the watermark -/
theorem compactOutput_allowed (low : Nat) (ins : List (List E)) (hc : Consistent ins.flatten) :
    Allowed low ins.flatten (compactOutput low ins) := by
  have hd := discardStale_allowed low (mergeVersions ins)
  refine ⟨fun e he => mergeVersions_sub ins e (hd.sub e he), ?_⟩
  intro e he hne
  exact hd.shadowed e (mergeVersions_complete ins hc e he) hne

/-- the output is never empty when some input is not (`filter.New(0, p)` would panic) -/
theorem compactOutput_ne_nil (low : Nat) (ins : List (List E)) (hc : Consistent ins.flatten)
    (hne : ins.flatten ≠ []) : compactOutput low ins ≠ [] := by
  intro h
  obtain ⟨e, he⟩ := List.exists_mem_of_ne_nil _ hne
  have ha := compactOutput_allowed low ins hc
  have : e ∉ compactOutput low ins := by rw [h]; simp
  obtain ⟨e', he', _⟩ := ha.shadowed e he this
  rw [h] at he'; cases he'

/-- `IsNewest` determines the answer (as an entry) on consistent contents -/
theorem isNewest_unique {es : List E} (hc : Consistent es) {k : Bytes} {r : Nat} {a b : Option E}
    (ha : IsNewest es k r a) (hb : IsNewest es k r b) : a = b := by
  cases a with
  | none =>
    cases b with
    | none => rfl
    | some y =>
      obtain ⟨hm, hu, hr, _⟩ := hb
      have := ha y hm hu; omega
  | some x =>
    cases b with
    | none =>
      obtain ⟨hm, hu, hr, _⟩ := ha
      have := hb x hm hu; omega
    | some y =>
      obtain ⟨hxm, hxu, hxr, hxmax⟩ := ha
      obtain ⟨hym, hyu, hyr, hymax⟩ := hb
      have h1 := hxmax y hym hyu hyr
      have h2 := hymax x hxm hxu hxr
      have hk : x.key = y.key := by
        cases hx : x.key; cases hy : y.key
        simp only [hx, hy] at hxu hyu h1 h2
        simp only [VK.mk.injEq]
        exact ⟨hxu.trans hyu.symm, by omega⟩
      rw [hc x hxm y hym hk]

/-! ### executable brute-force specification -/

def cand1 (k : Bytes) (r : Nat) (e : E) : Option E :=
  if e.key.user = k ∧ e.key.ts ≤ r then some e else none

/-- newest version `≤ r` of `k` by a linear scan (ties: the first one) -/
def newestBrute (es : List E) (k : Bytes) (r : Nat) : Option E :=
  es.foldl (fun acc e => better acc (cand1 k r e)) none

theorem cand1_newest (k : Bytes) (r : Nat) (e : E) : IsNewest [e] k r (cand1 k r e) := by
  unfold cand1
  split
  · rename_i h
    refine ⟨by simp, h.1, h.2, ?_⟩
    intro e' he' _ _
    simp only [List.mem_singleton] at he'
    rw [he']; exact Nat.le_refl _
  · rename_i h
    intro e' he' hu
    simp only [List.mem_singleton] at he'
    subst he'
    rcases Nat.lt_or_ge r e'.key.ts with h' | h'
    · exact h'
    · exact absurd ⟨hu, h'⟩ h

theorem newestBrute_newest (es : List E) (k : Bytes) (r : Nat) : IsNewest es k r (newestBrute es k r) := by
  unfold newestBrute
  suffices h : ∀ (pre : List E) (acc : Option E), IsNewest pre k r acc →
      IsNewest (pre ++ es) k r (es.foldl (fun acc e => better acc (cand1 k r e)) acc) by
    have := h [] none (by simp [IsNewest])
    simpa using this
  induction es with
  | nil => intro pre acc h; simpa using h
  | cons e rest ih =>
    intro pre acc hacc
    simp only [List.foldl_cons]
    have := ih (pre ++ [e]) _ (better_newest hacc (cand1_newest k r e))
    simpa using this

end LSM
