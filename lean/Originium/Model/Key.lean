/-! Feasibility probe: versioned keys `user ++ "@" ++ decimal ts` (types/types.go) -/
namespace Key

abbrev Bytes := List UInt8

def at' : UInt8 := 64   -- '@'

/-- least-significant-first digits -/
def digitsRev (n : Nat) : List UInt8 :=
  if h : n < 10 then [UInt8.ofNat (48 + n)] else UInt8.ofNat (48 + n % 10) :: digitsRev (n / 10)
termination_by n
decreasing_by omega

/-- strconv.FormatUint(n, 10) -/
def decimal (n : Nat) : Bytes := (digitsRev n).reverse

def isDigit (b : UInt8) : Bool := 48 ≤ b.toNat && b.toNat ≤ 57

/-- value of a most-significant-first digit string, accumulator style (no overflow check here) -/
def valAcc (acc : Nat) : Bytes → Nat
  | [] => acc
  | b :: bs => valAcc (acc * 10 + (b.toNat - 48)) bs

/-- strconv.ParseUint(s, 10, 64) as used by ParseTs: any error → 0 -/
def parseUint (s : Bytes) : Nat :=
  if s.isEmpty then 0
  else if s.all isDigit then (let v := valAcc 0 s; if v < 2^64 then v else 0)
  else 0

theorem digitsRev_all_digit (n : Nat) : ∀ b ∈ digitsRev n, isDigit b = true := by
  induction n using digitsRev.induct with
  | case1 n h =>
    rw [digitsRev]; simp only [h, ↓reduceDIte, List.mem_singleton]
    intro b hb; subst hb
    have : (UInt8.ofNat (48 + n)).toNat = 48 + n := by
      simp [UInt8.toNat_ofNat']; omega
    simp [isDigit, this]; omega
  | case2 n h ih =>
    rw [digitsRev]; simp only [h, ↓reduceDIte, List.mem_cons]
    intro b hb
    rcases hb with hb | hb
    · subst hb
      have : (UInt8.ofNat (48 + n % 10)).toNat = 48 + n % 10 := by
        simp [UInt8.toNat_ofNat']; omega
      simp [isDigit, this]; omega
    · exact ih b hb

/-- value of a least-significant-first digit list -/
def valRev : List UInt8 → Nat
  | [] => 0
  | b :: bs => (b.toNat - 48) + 10 * valRev bs

theorem valRev_digitsRev (n : Nat) : valRev (digitsRev n) = n := by
  induction n using digitsRev.induct with
  | case1 n h =>
    rw [digitsRev]; simp only [h, ↓reduceDIte, valRev]
    have : (UInt8.ofNat (48 + n)).toNat = 48 + n := by
      simp [UInt8.toNat_ofNat']; omega
    omega
  | case2 n h ih =>
    rw [digitsRev]; simp only [h, ↓reduceDIte, valRev, ih]
    have : (UInt8.ofNat (48 + n % 10)).toNat = 48 + n % 10 := by
      simp [UInt8.toNat_ofNat']; omega
    omega

theorem valAcc_append (acc : Nat) (xs : Bytes) (b : UInt8) :
    valAcc acc (xs ++ [b]) = valAcc acc xs * 10 + (b.toNat - 48) := by
  induction xs generalizing acc with
  | nil => rfl
  | cons x xs ih =>
    show valAcc (acc * 10 + (x.toNat - 48)) (xs ++ [b]) = _
    rw [ih]; rfl

theorem valAcc_reverse (ds : List UInt8) : valAcc 0 ds.reverse = valRev ds := by
  induction ds with
  | nil => rfl
  | cons d ds ih =>
    rw [List.reverse_cons, valAcc_append, ih]
    show valRev ds * 10 + (d.toNat - 48) = (d.toNat - 48) + 10 * valRev ds
    omega

theorem parseUint_decimal (n : Nat) (hn : n < 2^64) : parseUint (decimal n) = n := by
  unfold parseUint decimal
  have hne : (digitsRev n).reverse.isEmpty = false := by
    cases h : digitsRev n with
    | nil => rw [digitsRev] at h; split at h <;> simp at h
    | cons a b => simp
  have hall : (digitsRev n).reverse.all isDigit = true := by
    simp only [List.all_reverse, List.all_eq_true]; exact digitsRev_all_digit n
  simp only [hne, hall, Bool.false_eq_true, ↓reduceIte, valAcc_reverse, valRev_digitsRev, hn]

/-- (prefix before the last '@', suffix after it) -/
def splitLast : Bytes → Option (Bytes × Bytes)
  | [] => none
  | b :: bs =>
    match splitLast bs with
    | some (p, q) => some (b :: p, q)
    | none => if b = at' then some ([], bs) else none

theorem splitLast_none_of_not_mem (s : Bytes) (h : at' ∉ s) : splitLast s = none := by
  induction s with
  | nil => rfl
  | cons b bs ih =>
    have hb : b ≠ at' := fun e => h (by simp [e])
    have hbs : at' ∉ bs := fun e => h (by simp [e])
    simp [splitLast, ih hbs, hb]

theorem splitLast_append (pre suf : Bytes) (h : at' ∉ suf) :
    splitLast (pre ++ at' :: suf) = some (pre, suf) := by
  induction pre with
  | nil => simp [splitLast, splitLast_none_of_not_mem suf h]
  | cons b pre ih => simp [splitLast, ih]

theorem at_not_mem_decimal (n : Nat) : at' ∉ decimal n := by
  intro h
  have : at' ∈ digitsRev n := by simpa [decimal] using h
  have := digitsRev_all_digit n _ this
  revert this; decide

/-- types.KeyWithTs -/
def keyWithTs (k : Bytes) (ts : Nat) : Bytes := k ++ at' :: decimal ts

/-- types.ParseKey; `none` = the Go code panics (no '@' in the key) -/
def parseKey? (s : Bytes) : Option Bytes := (splitLast s).map (·.1)

/-- types.ParseTs -/
def parseTs (s : Bytes) : Nat :=
  match splitLast s with
  | some (_, q) => parseUint q
  | none => parseUint s

theorem parseKey_keyWithTs (k : Bytes) (t : Nat) : parseKey? (keyWithTs k t) = some k := by
  simp [parseKey?, keyWithTs, splitLast_append _ _ (at_not_mem_decimal t)]

theorem parseTs_keyWithTs (k : Bytes) (t : Nat) (ht : t < 2^64) : parseTs (keyWithTs k t) = t := by
  simp only [parseTs, keyWithTs, splitLast_append _ _ (at_not_mem_decimal t)]
  exact parseUint_decimal t ht

/-- strings.Compare on byte strings -/
def cmpBytes : Bytes → Bytes → Ordering
  | [], [] => .eq
  | [], _ :: _ => .lt
  | _ :: _, [] => .gt
  | a :: as, b :: bs => if a < b then .lt else if b < a then .gt else cmpBytes as bs

/-- types.CompareKeys; `none` = panic in ParseKey -/
def compareKeys? (a b : Bytes) : Option Ordering := do
  let ka ← parseKey? a
  let kb ← parseKey? b
  match cmpBytes ka kb with
  | .eq =>
    let ta := parseTs a
    let tb := parseTs b
    pure (if ta < tb then .gt else if ta > tb then .lt else .eq)
  | o => pure o

theorem compareKeys_keyWithTs (k1 k2 : Bytes) (t1 t2 : Nat) (h1 : t1 < 2^64) (h2 : t2 < 2^64) :
    compareKeys? (keyWithTs k1 t1) (keyWithTs k2 t2) =
      some ((cmpBytes k1 k2).then (compare t2 t1)) := by
  simp only [compareKeys?, parseKey_keyWithTs, parseTs_keyWithTs _ _ h1, parseTs_keyWithTs _ _ h2,
    Option.bind_eq_bind, Option.bind_some]
  cases h : cmpBytes k1 k2 <;> simp [Ordering.then]
  rcases Nat.lt_trichotomy t1 t2 with hlt | heq | hgt
  · simp [hlt, Nat.compare_eq_gt.mpr hlt]
  · subst heq; simp
  · have : ¬ t1 < t2 := by omega
    simp [this, hgt, Nat.compare_eq_lt.mpr hgt]

#eval keyWithTs [97, 64, 49] 10
#eval parseKey? (keyWithTs [97, 64, 49] 10)
#eval compareKeys? (keyWithTs [107] 9) (keyWithTs [107] 10)
#print axioms compareKeys_keyWithTs
end Key
