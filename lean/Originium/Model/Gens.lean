import Originium.Model.Levels
/-! Feasibility probe: DB.search's "first generation that has a version wins"
    (memtable, immutables newest first, then the tables as one block) equals the newest version
    over the union, provided generations are ordered up to duplicates (invariant (B) of DESIGN C.1). -/
namespace Gens
open Key VKey Table Levels

/-- newer generation first. For an older generation G' after a newer G:
    every entry of G' that is not in G is at most as new as every entry of G. -/
def Ordered : List (List E) → Prop
  | [] => True
  | g :: rest => (∀ g' ∈ rest, ∀ e' ∈ g', e' ∉ g → ∀ e ∈ g, e'.key.ts ≤ e.key.ts) ∧ Ordered rest

/-- first generation whose own lookup hits -/
def firstHit (look : List E → Option E) : List (List E) → Option E
  | [] => none
  | g :: rest => match look g with
    | some x => some x
    | none => firstHit look rest

theorem firstHit_newest (look : List E → Option E) (k : Bytes) (r : Nat) (gens : List (List E))
    (hlook : ∀ g ∈ gens, IsNewest g k r (look g)) (hord : Ordered gens) :
    IsNewest gens.flatten k r (firstHit look gens) := by
  induction gens with
  | nil => simp [firstHit, IsNewest]
  | cons g rest ih =>
    have hg : IsNewest g k r (look g) := hlook g (by simp)
    have hrest : IsNewest rest.flatten k r (firstHit look rest) :=
      ih (fun g' hg' => hlook g' (by simp [hg'])) hord.2
    simp only [firstHit, List.flatten_cons]
    cases hl : look g with
    | none =>
      rw [hl] at hg
      have := better_newest hg hrest
      simpa [better] using this
    | some x =>
      rw [hl] at hg
      obtain ⟨hxm, hxu, hxr, hxmax⟩ := hg
      refine ⟨List.mem_append.mpr (Or.inl hxm), hxu, hxr, ?_⟩
      intro e' he' hu' hr'
      rcases List.mem_append.mp he' with h | h
      · exact hxmax e' h hu' hr'
      · obtain ⟨g', hg', heg'⟩ := List.mem_flatten.mp h
        by_cases hin : e' ∈ g
        · exact hxmax e' hin hu' hr'
        · exact hord.1 g' hg' e' heg' hin x hxm

#print axioms firstHit_newest
end Gens
