import Originium.Generated.LSM
import Originium.Model.DBTie
/-! The tie for `levelManager.searchLowerBound`: the definition regenerated from `/repo/level.go`
    (`GenLSM.searchLowerBound`) is the model's `LSM.search` — every table of every level is consulted, the bloom filter
    only skips, and among the candidates with the user key asked for the newest version wins. -/
namespace LSMTie
open Key VKey Table Levels Compact LSM

/-- a continuation-passing loop over a list whose body hands a transformed state to its continuation is a fold -/
theorem foldr_step {α R : Type} (F : α → (E → Bool → R) → E → Bool → R) (g : α → E × Bool → E × Bool)
    (hF : ∀ x kont r fd, F x kont r fd = kont (g x (r, fd)).1 (g x (r, fd)).2) (exit : E → Bool → R) (l : List α) (r : E) (fd : Bool) :
    List.foldr F exit l r fd =
      exit (l.foldl (fun a x => g x a) (r, fd)).1 (l.foldl (fun a x => g x a) (r, fd)).2 := by
  induction l generalizing r fd with
  | nil => rfl
  | cons x l ih =>
    simp only [List.foldr_cons, List.foldl_cons]
    rw [hF, ih]

/-- one table in the inner loop of the translated code -/
def upd {T : Type} (mayContain : T → Bytes → Bool) (idxLB : T → VK → Option Nat) (fetchLB : T → Nat → VK → Option E) (key : VK)
    (th : T) (a : E × Bool) : E × Bool :=
  if !(mayContain th key.user) then a
  else match idxLB th key with
    | none => a
    | some h => match fetchLB th h key with
      | none => a
      | some e => if !(key.user == e.key.user) then a
                  else if (!a.2) || vlt e.key a.1.key then (e, true) else a

def toOpt (a : E × Bool) : Option E := if a.2 then some a.1 else none

def dflt : E := ⟨⟨[], 0⟩, [], false, 0⟩

/-- what the translated function computes: a fold of `upd` over all tables of all levels -/
theorem searchLowerBound_eq {T : Type} (mayContain : T → Bytes → Bool) (idxLB : T → VK → Option Nat) (fetchLB : T → Nat → VK → Option E)
    (levels : List (List T)) (key : VK) :
    GenLSM.searchLowerBound mayContain idxLB fetchLB levels key =
      toOpt (levels.flatten.foldl (fun a th => upd mayContain idxLB fetchLB key th a) (dflt, false)) := by
  unfold GenLSM.searchLowerBound
  dsimp only
  by_cases h0 : levels.length = 0
  · have : levels = [] := List.eq_nil_of_length_eq_zero h0
    subst this
    simp [toOpt]
  · simp only [h0, decide_false, Bool.false_eq_true, ↓reduceIte]
    rw [foldr_step _ (fun (kv : List T × Nat) a => kv.1.foldl (fun a th => upd mayContain idxLB fetchLB key th a) a)]
    · have hz : ∀ (ls : List (List T)) (n : Nat) (a : E × Bool),
          (ls.zipIdx n).foldl (fun a (kv : List T × Nat) => kv.1.foldl (fun a th => upd mayContain idxLB fetchLB key th a) a) a =
            ls.flatten.foldl (fun a th => upd mayContain idxLB fetchLB key th a) a := by
        intro ls
        induction ls with
        | nil => intro n a; rfl
        | cons l ls ih => intro n a; simp only [List.zipIdx_cons, List.foldl_cons, List.flatten_cons, List.foldl_append]; exact ih _ _
      rw [hz]
      rfl
    · intro kv kont r fd
      rw [foldr_step _ (fun th a => upd mayContain idxLB fetchLB key th a)]
      intro th kont2 r fd
      unfold upd
      dsimp only
      cases mayContain th key.user with
      | false => simp
      | true =>
        cases idxLB th key with
        | none => simp
        | some h =>
          simp only [Option.getD_some, Option.isSome_some, Bool.not_true, Bool.false_eq_true, ↓reduceIte]
          cases fetchLB th h key with
          | none => simp
          | some e =>
            simp only [Option.getD_some, Option.isSome_some, Bool.not_true, Bool.false_or]
            cases (key.user == e.key.user) with
            | false => simp
            | true =>
              simp only [Bool.not_true, Bool.false_eq_true, ↓reduceIte]
              cases hc : ((!fd) || vlt e.key r.key) <;> simp [hc]


/-! ### the fold of `upd` is `LSM.search` -/

def idxLB (t : TableM) (key : VK) : Option Nat := indexLowerBound vlt t.blocks key
def fetchLB (t : TableM) (i : Nat) (key : VK) : Option E := (t.blocks[i]?).bind fun b => dataLowerBound vlt b key

theorem upd_better (mayContain : TableM → Bytes → Bool) (k : Bytes) (r : Nat) (th : TableM) (a : E × Bool)
    (ha : a.2 = true → a.1.key.user = k) :
    toOpt (upd mayContain idxLB fetchLB ⟨k, r⟩ th a) =
      (if mayContain th k then better (toOpt a) (tableSearch th k r) else toOpt a) ∧
    ((upd mayContain idxLB fetchLB ⟨k, r⟩ th a).2 = true → (upd mayContain idxLB fetchLB ⟨k, r⟩ th a).1.key.user = k) := by
  obtain ⟨res, fd⟩ := a
  unfold upd tableSearch tableLookup idxLB fetchLB
  simp only
  cases hmc : mayContain th k with
  | false => simp only [Bool.not_false, ↓reduceIte, Bool.false_eq_true]; exact ⟨trivial, ha⟩
  | true =>
    simp only [Bool.not_true, Bool.false_eq_true, ↓reduceIte]
    have hbn : ∀ x : Option E, better x none = x := by intro x; cases x <;> rfl
    cases indexLowerBound vlt th.blocks ⟨k, r⟩ with
    | none => simp only [Option.bind_none, Option.filter_none, hbn]; exact ⟨trivial, ha⟩
    | some h =>
      simp only [Option.bind_some]
      cases (th.blocks[h]?).bind (fun b => dataLowerBound vlt b ⟨k, r⟩) with
      | none => simp only [Option.filter_none, hbn]; exact ⟨trivial, ha⟩
      | some e =>
        simp only [Option.filter_some]
        have hc : (k == e.key.user) = (e.key.user == k) := BEq.comm
        rw [hc]
        cases hu : (e.key.user == k) with
        | false => simp only [Bool.not_false, ↓reduceIte, Bool.false_eq_true, hbn]; exact ⟨trivial, ha⟩
        | true =>
          have heu : e.key.user = k := by simpa using hu
          simp only [Bool.not_true, Bool.false_eq_true, ↓reduceIte]
          cases fd with
          | false =>
            simp only [Bool.not_false, Bool.true_or, ↓reduceIte, toOpt, Bool.false_eq_true, better]
            exact ⟨trivial, fun _ => heu⟩
          | true =>
            have hru := ha rfl
            simp only at hru
            have hv : vlt e.key res.key = decide (res.key.ts < e.key.ts) := by
              unfold vlt
              rw [heu, hru, bltB_irrefl]
              simp
            simp only [Bool.not_true, Bool.false_or, hv, decide_eq_true_eq, toOpt, ↓reduceIte, better]
            by_cases hlt : res.key.ts < e.key.ts
            · simp only [hlt, ↓reduceIte]; exact ⟨trivial, fun _ => heu⟩
            · simp only [hlt, ↓reduceIte]; exact ⟨trivial, fun _ => hru⟩

theorem foldl_upd (mayContain : TableM → Bytes → Bool) (k : Bytes) (r : Nat) (tables : List TableM) :
    ∀ (a : E × Bool), (a.2 = true → a.1.key.user = k) →
      toOpt (tables.foldl (fun a th => upd mayContain idxLB fetchLB ⟨k, r⟩ th a) a) =
        tables.foldl (fun acc t => if mayContain t k then better acc (tableSearch t k r) else acc) (toOpt a) := by
  induction tables with
  | nil => intro a _; rfl
  | cons t ts ih =>
    intro a ha
    simp only [List.foldl_cons]
    obtain ⟨h1, h2⟩ := upd_better mayContain k r t a ha
    rw [ih _ h2, h1]

/-- **the tie**: the translated `searchLowerBound`, with `Index.LowerBound` and `Data.LowerBound` of the table model for
    its two lookups, is the model's `LSM.search` over all tables of all levels -/
theorem search_tie (mayContain : TableM → Bytes → Bool) (levels : List (List TableM)) (k : Bytes) (r : Nat) :
    GenLSM.searchLowerBound mayContain idxLB fetchLB levels ⟨k, r⟩ = search mayContain levels.flatten k r := by
  rw [searchLowerBound_eq]
  unfold search
  rw [foldl_upd mayContain k r levels.flatten (dflt, false) (by intro h; cases h)]
  rfl

end LSMTie
