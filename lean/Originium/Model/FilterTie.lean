import Originium.Generated.Filter
import Originium.Model.Filter
/-! Tie between the translated `pkg/filter` code (`Generated/Filter.lean`, regenerated from /repo on every check) and the
    hand model `Filter`. -/
namespace FilterTie
open Filter

/-- the translated `Filter.Add` is the model's add loop over the same hash functions -/
theorem add_eq (h : Nat → Bytes → Nat) (is : List Nat) (bits : List Bool) (k : Nat) (key : Bytes) :
    GenFilter.add h is bits key = (addLoop h key is { bits := bits, k := k }).bits := by
  unfold GenFilter.add
  dsimp only
  induction is generalizing bits with
  | nil => rfl
  | cons i is ih =>
    simp only [List.foldr_cons, addLoop, idx]
    exact ih _

/-- the translated `Filter.Contains` is the model's -/
theorem contains_eq (h : Nat → Bytes → Nat) (is : List Nat) (bits : List Bool) (k : Nat) (key : Bytes) :
    GenFilter.contains h is bits key = containsLoop h { bits := bits, k := k } key is := by
  unfold GenFilter.contains
  dsimp only
  induction is with
  | nil => rfl
  | cons i is ih =>
    simp only [List.foldr_cons, containsLoop, idx]
    rw [ih]
    cases bits.getD (h i key % bits.length) false <;> simp

theorem build_loop {ε : Type} (h : Nat → Bytes → Nat) (ukey : ε → Bytes) (k : Nat) (kvs : List ε) (f : F) (hk : f.k = k) :
    List.foldr (fun e kont1 => fun (filter : List Bool) => kont1 (GenFilter.add h (List.range k) filter (ukey e)))
      (fun filter => filter) kvs f.bits = ((kvs.map ukey).foldl (add h) f).bits := by
  induction kvs generalizing f with
  | nil => rfl
  | cons e es ih =>
    simp only [List.foldr_cons, List.map_cons, List.foldl_cons]
    have h1 : GenFilter.add h (List.range k) f.bits (ukey e) = (add h f (ukey e)).bits := by
      rw [add_eq h _ _ k]; unfold add; rw [hk]; cases f; subst hk; rfl
    rw [h1]
    exact ih (add h f (ukey e)) (by rw [← (add_le h f (ukey e)).1]; exact hk)

/-- the translated `Build` is the model's build over the user keys of the entries -/
theorem build_eq {ε : Type} (h : Nat → Bytes → Nat) (ukey : ε → Bytes) (m k : Nat) (kvs : List ε) :
    GenFilter.build h ukey m k kvs = (build h m k (kvs.map ukey)).bits := by
  unfold GenFilter.build
  dsimp only
  exact build_loop h ukey k kvs (new m k) rfl

/-- no false negative, about the translated code: a filter built by the translated `Build` answers true, through the
    translated `Contains`, for the user key of every entry it was built from -/
theorem code_no_false_negative {ε : Type} (h : Nat → Bytes → Nat) (ukey : ε → Bytes) (m k : Nat) (hm : 0 < m) (kvs : List ε) :
    ∀ e ∈ kvs, GenFilter.contains h (List.range k) (GenFilter.build h ukey m k kvs) (ukey e) = true := by
  intro e he
  rw [build_eq, contains_eq h _ _ k]
  have hk : (build h m k (kvs.map ukey)).k = k := by
    unfold build; rw [← (foldl_add_le h _ (new m k)).1]; rfl
  have := build_contains h m k hm (kvs.map ukey) (ukey e) (List.mem_map_of_mem he)
  unfold contains at this
  rw [hk] at this
  cases hb : build h m k (kvs.map ukey) with
  | mk bits k' =>
    rw [hb] at this hk
    simp only at hk
    subst hk
    exact this

end FilterTie
