import Originium.Model.Codec3
/-! wal/wal.go: `Write` frames every entry as `len:int64le ‖ thrift-binary(Entry)`; `Read` (after the
    repair) stops at an incomplete trailing record.  The thrift binary protocol layout of
    `types.Entry` is written out (frugal encodes fields in id order; its decoder on valid input is
    trusted to invert it — the harness compares the bytes and the decoded entries). -/
namespace Codec

/-- big-endian, `w` bytes -/
def encBE (w n : Nat) : Bytes := (encLE w n).reverse

def decBE (w : Nat) (bs : Bytes) : Option (Nat × Bytes) :=
  (readN w bs).bind fun r => (decLE w r.1.reverse).map fun v => (v.1, r.2)

theorem encBE_length (w n : Nat) : (encBE w n).length = w := by simp [encBE, encLE_length]

theorem readN_append' (n : Nat) (xs rest : Bytes) (h : n = xs.length) : readN n (xs ++ rest) = some (xs, rest) := by
  subst h; exact readN_append xs rest

theorem decBE_encBE (w n : Nat) (rest : Bytes) (h : n < 256 ^ w) : decBE w (encBE w n ++ rest) = some (n, rest) := by
  unfold decBE
  rw [readN_append' w _ _ (encBE_length w n).symm]
  simp only [Option.bind_some, encBE, List.reverse_reverse]
  have := decLE_encLE w n [] h
  simp only [List.append_nil] at this
  rw [this]; rfl

/-- thrift binary protocol: field header = type byte, field id (i16 BE); string/binary = i32 BE length + bytes;
    bool = one byte; i64 = 8 bytes BE; stop = 0 -/
def thriftEntry (e : Entry) : Bytes :=
  [0x0b, 0x00, 0x01] ++ encBE 4 e.key.length ++ e.key ++
  [0x0b, 0x00, 0x02] ++ encBE 4 e.value.length ++ e.value ++
  [0x02, 0x00, 0x03, if e.tomb then 1 else 0] ++
  [0x0a, 0x00, 0x04] ++ encBE 8 e.version ++ [0x00]

def expect (pat : Bytes) (bs : Bytes) : Option Bytes :=
  (readN pat.length bs).bind fun r => if r.1 = pat then some r.2 else none

theorem expect_append (pat rest : Bytes) : expect pat (pat ++ rest) = some rest := by
  unfold expect; rw [readN_append]; simp

theorem expect_cons3 (a b c : UInt8) (rest : Bytes) : expect [a, b, c] (a :: b :: c :: rest) = some rest :=
  expect_append [a, b, c] rest

theorem expect_cons1 (a : UInt8) (rest : Bytes) : expect [a] (a :: rest) = some rest :=
  expect_append [a] rest

def unthriftEntry (bs : Bytes) : Option (Entry × Bytes) :=
  (expect [0x0b, 0x00, 0x01] bs).bind fun r0 =>
  (decBE 4 r0).bind fun r1 =>
  (readN r1.1 r1.2).bind fun r2 =>
  (expect [0x0b, 0x00, 0x02] r2.2).bind fun r3 =>
  (decBE 4 r3).bind fun r4 =>
  (readN r4.1 r4.2).bind fun r5 =>
  (expect [0x02, 0x00, 0x03] r5.2).bind fun r6 =>
  (readByte r6).bind fun r7 =>
  (expect [0x0a, 0x00, 0x04] r7.2).bind fun r8 =>
  (decBE 8 r8).bind fun r9 =>
  (expect [0x00] r9.2).bind fun r10 =>
  some ({ key := r2.1, value := r5.1, tomb := r7.1 == 1, version := r9.1 }, r10)

/-- entries the wal can carry: lengths fit the i32 length fields, version fits the i64 -/
def WalWF (e : Entry) : Prop := e.key.length < 2 ^ 31 ∧ e.value.length < 2 ^ 31 ∧ e.version < 2 ^ 63

theorem unthrift_thrift (e : Entry) (rest : Bytes) (h : WalWF e) :
    unthriftEntry (thriftEntry e ++ rest) = some (e, rest) := by
  obtain ⟨h1, h2, h3⟩ := h
  unfold unthriftEntry thriftEntry
  simp only [List.append_assoc]
  rw [expect_append]; simp only [Option.bind_some]
  rw [decBE_encBE 4 _ _ (by omega)]; simp only [Option.bind_some]
  rw [readN_append]; simp only [Option.bind_some]
  rw [expect_append]; simp only [Option.bind_some]
  rw [decBE_encBE 4 _ _ (by omega)]; simp only [Option.bind_some]
  rw [readN_append]; simp only [Option.bind_some]
  have e4 : ([0x02, 0x00, 0x03, if e.tomb then 1 else 0] : Bytes) = [0x02, 0x00, 0x03] ++ [if e.tomb then 1 else 0] := rfl
  rw [e4]
  simp only [List.append_assoc]
  rw [expect_append]; simp only [Option.bind_some]
  simp only [List.cons_append, List.nil_append, readByte, Option.bind_some]
  rw [expect_cons3]; simp only [Option.bind_some]
  rw [decBE_encBE 8 _ _ (by omega)]; simp only [Option.bind_some]
  rw [expect_cons1]; simp only [Option.bind_some]
  cases e with
  | mk key value tomb version => cases tomb <;> simp

theorem thriftEntry_length_pos (e : Entry) : 0 < (thriftEntry e).length := by
  simp [thriftEntry]

/-- one wal record -/
def walRecord (e : Entry) : Bytes := encLE 8 (thriftEntry e).length ++ thriftEntry e

/-- `WAL.Write(entries...)`: one buffer, written with a single write call -/
def walBatch (es : List Entry) : Bytes := (es.map walRecord).flatten

/-- `WAL.Read` after the repair: `some entries` (possibly stopping at an incomplete trailing
    record), `none` when a complete record does not unmarshal (the real code returns the error and
    Open panics).  `fuel` bounds the number of records. -/
def readWal : Nat → Bytes → Option (List Entry)
  | 0, _ => some []
  | fuel + 1, bs =>
    if bs.isEmpty then some []
    else match decLE 8 bs with
      | none => some []                          -- truncated length prefix: torn tail
      | some (n, rest) =>
        if rest.length < n then some []          -- body shorter than declared: torn tail
        else match unthriftEntry (rest.take n) with
          | some (e, []) => (readWal fuel (rest.drop n)).map (e :: ·)
          | _ => none

theorem readWal_record (e : Entry) (rest : Bytes) (h : WalWF e) (hl : (thriftEntry e).length < 2 ^ 64) (fuel : Nat) :
    readWal (fuel + 1) (walRecord e ++ rest) = (readWal fuel rest).map (e :: ·) := by
  conv => lhs; unfold readWal
  unfold walRecord
  have hne : (encLE 8 (thriftEntry e).length ++ thriftEntry e ++ rest).isEmpty = false := by
    simp [encLE]
  rw [hne]
  simp only [Bool.false_eq_true, ↓reduceIte, List.append_assoc]
  rw [decLE_encLE 8 _ _ (by omega)]
  simp only
  rw [if_neg (by simp)]
  have htake : (thriftEntry e ++ rest).take (thriftEntry e).length = thriftEntry e := by simp
  have hdrop : (thriftEntry e ++ rest).drop (thriftEntry e).length = rest := by simp
  rw [htake, hdrop]
  have := unthrift_thrift e [] h
  simp only [List.append_nil] at this
  rw [this]

/-- C11, wal: reading what was written gives back every entry of every batch, in order -/
theorem readWal_walBatch (es : List Entry) (hw : ∀ e ∈ es, WalWF e)
    (hl : ∀ e ∈ es, (thriftEntry e).length < 2 ^ 64) (fuel : Nat) (hf : es.length < fuel) :
    readWal fuel (walBatch es) = some es := by
  induction es generalizing fuel with
  | nil =>
    cases fuel with
    | zero => omega
    | succ f => simp [walBatch, readWal]
  | cons e es ih =>
    cases fuel with
    | zero => omega
    | succ f =>
      have : walBatch (e :: es) = walRecord e ++ walBatch es := by simp [walBatch]
      rw [this, readWal_record e _ (hw e (by simp)) (hl e (by simp)),
        ih (fun x hx => hw x (by simp [hx])) (fun x hx => hl x (by simp [hx])) f (by simp at hf; omega)]
      rfl

theorem walBatch_append (a b : List Entry) : walBatch (a ++ b) = walBatch a ++ walBatch b := by
  simp [walBatch]

/-- a strict prefix of one record is an incomplete trailing record: the reader stops there -/
theorem readWal_torn_record (e : Entry) (hl : (thriftEntry e).length < 2 ^ 64) (n : Nat)
    (hn : n < (walRecord e).length) (fuel : Nat) : readWal fuel ((walRecord e).take n) = some [] := by
  cases fuel with
  | zero => rfl
  | succ f =>
    unfold readWal
    by_cases hem : ((walRecord e).take n).isEmpty
    · simp [hem]
    · simp only [hem, Bool.false_eq_true, ↓reduceIte]
      unfold walRecord at hn ⊢
      have hlen8 : (encLE 8 (thriftEntry e).length).length = 8 := encLE_length _ _
      by_cases h8 : n < 8
      · -- not even the length prefix
        have : decLE 8 ((encLE 8 (thriftEntry e).length ++ thriftEntry e).take n) = none := by
          have hlt : ((encLE 8 (thriftEntry e).length ++ thriftEntry e).take n).length < 8 := by
            simp; omega
          generalize (encLE 8 (thriftEntry e).length ++ thriftEntry e).take n = xs at hlt
          -- a list shorter than 8 bytes has no 8 byte prefix
          have key : ∀ (w : Nat) (ys : Bytes), ys.length < w → decLE w ys = none := by
            intro w
            induction w with
            | zero => intro ys h; omega
            | succ w ih =>
              intro ys h
              cases ys with
              | nil => rfl
              | cons y ys => simp only [decLE, ih ys (by simp at h; omega), Option.map_none]
          exact key 8 xs hlt
        rw [this]
      · -- the prefix is complete, the body is not
        have htake : (encLE 8 (thriftEntry e).length ++ thriftEntry e).take n
            = encLE 8 (thriftEntry e).length ++ (thriftEntry e).take (n - 8) := by
          rw [List.take_append, hlen8]
          have : (encLE 8 (thriftEntry e).length).take n = encLE 8 (thriftEntry e).length := by
            apply List.take_of_length_le; omega
          rw [this]
        rw [htake, decLE_encLE 8 _ _ (by omega)]
        simp only
        rw [if_pos (by simp at hn ⊢; omega)]

/-- C14's codec fact: cutting the wal file anywhere yields, on reading, a prefix of the written
    entries — never an error, never an entry that was not written, and every entry whose record lies
    completely inside the kept bytes is there -/
theorem readWal_torn (es : List Entry) (hw : ∀ e ∈ es, WalWF e) (hl : ∀ e ∈ es, (thriftEntry e).length < 2 ^ 64)
    (n : Nat) (fuel : Nat) (hf : es.length < fuel) :
    ∃ j, readWal fuel ((walBatch es).take n) = some (es.take j) ∧
      (∀ i, (walBatch (es.take i)).length ≤ n → i ≤ es.length → i ≤ j) := by
  induction es generalizing n fuel with
  | nil =>
    refine ⟨0, ?_, ?_⟩
    · cases fuel <;> simp [walBatch, readWal]
    · intro i _ hi; simpa using hi
  | cons e es ih =>
    cases fuel with
    | zero => omega
    | succ f =>
      have hb : walBatch (e :: es) = walRecord e ++ walBatch es := by simp [walBatch]
      by_cases hn : n < (walRecord e).length
      · -- the cut is inside the first record
        refine ⟨0, ?_, ?_⟩
        · rw [hb, List.take_append_of_le_length (by omega)]
          exact readWal_torn_record e (hl e (by simp)) n hn (f + 1)
        · intro i hi hil
          cases i with
          | zero => omega
          | succ i =>
            exfalso
            have : walBatch ((e :: es).take (i + 1)) = walRecord e ++ walBatch (es.take i) := by simp [walBatch]
            rw [this] at hi
            simp at hi; omega
      · obtain ⟨j, hj1, hj2⟩ := ih (fun x hx => hw x (by simp [hx])) (fun x hx => hl x (by simp [hx]))
          (n - (walRecord e).length) f (by simp at hf; omega)
        refine ⟨j + 1, ?_, ?_⟩
        · rw [hb, List.take_append, List.take_of_length_le (by omega),
            readWal_record e _ (hw e (by simp)) (hl e (by simp)), hj1]
          rfl
        · intro i hi hil
          cases i with
          | zero => omega
          | succ i =>
            have : walBatch ((e :: es).take (i + 1)) = walRecord e ++ walBatch (es.take i) := by simp [walBatch]
            rw [this] at hi
            have := hj2 i (by simp at hi ⊢; omega) (by simp at hil; omega)
            omega

end Codec
