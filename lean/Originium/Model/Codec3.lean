import Originium.Model.Codec2
/-! table/table.go `Build` file layout + the recovery parser of `levelManager.recover` + block fetch;
    wal/wal.go record framing with the thrift binary layout of `types.Entry`, and the tolerant reader. -/
namespace Codec

/-! ### compression as a parameter -/

structure S2 where
  comp : Bytes → Bytes
  decomp : Bytes → Option Bytes

/-- what the code relies on: one reader decompresses a concatenation of compressed chunks to the
    concatenation of the chunks (a single chunk is the special case) -/
def S2Law (z : S2) : Prop := ∀ chunks : List Bytes, z.decomp (chunks.map z.comp).flatten = some chunks.flatten

theorem S2Law.single {z : S2} (h : S2Law z) (x : Bytes) : z.decomp (z.comp x) = some x := by
  have := h [x]; simpa using this

/-! ### slices of a file -/

/-- `Seek(off); Read(len bytes)`; `none` when the file is too short -/
def slice (bs : Bytes) (off len : Nat) : Option Bytes :=
  if off + len ≤ bs.length then some ((bs.drop off).take len) else none

theorem slice_mid (a b c : Bytes) : slice (a ++ b ++ c) a.length b.length = some b := by
  unfold slice
  rw [if_pos (by simp)]
  simp

theorem slice_mid' (a b c : Bytes) (off len : Nat) (h1 : off = a.length) (h2 : len = b.length) :
    slice (a ++ b ++ c) off len = some b := by
  subst h1; subst h2; exact slice_mid a b c

/-! ### table file -/

def firstKey (b : List Entry) : Bytes := (b.head?.map (·.key)).getD []
def lastKey (b : List Entry) : Bytes := (b.getLast?.map (·.key)).getD []

/-- index entries with running offsets, as `table.Build` computes them -/
def indexEntries (z : S2) : Nat → List (List Entry) → List IndexEntry
  | _, [] => []
  | off, b :: bs =>
    let d := z.comp (encData [] b)
    { startKey := firstKey b, endKey := lastKey b, h := ⟨off, d.length⟩ } :: indexEntries z (off + d.length) bs

def dataRegion (z : S2) (blocks : List (List Entry)) : Bytes :=
  (blocks.map fun b => z.comp (encData [] b)).flatten

def tableIndex (z : S2) (blocks : List (List Entry)) : Index :=
  { dataBlock := ⟨0, (dataRegion z blocks).length⟩, entries := indexEntries z 0 blocks }

def tableFooter (z : S2) (blocks : List (List Entry)) (m : Meta) : Footer :=
  let dl := (dataRegion z blocks).length
  { metaH := ⟨dl, (encMeta m).length⟩,
    indexH := ⟨dl + (encMeta m).length, (z.comp (encIndex (tableIndex z blocks))).length⟩,
    magic := Consts.magic }

/-- the bytes `table.Build` returns: data blocks ‖ meta ‖ index ‖ footer -/
def buildFile (z : S2) (blocks : List (List Entry)) (m : Meta) : Bytes :=
  dataRegion z blocks ++ encMeta m ++ z.comp (encIndex (tableIndex z blocks)) ++ encFooter (tableFooter z blocks m)

/-- `levelManager.recover` for one file: footer at len-40 → index → whole data region -/
def parseFile (z : S2) (fuel : Nat) (file : Bytes) : Option (Index × List Entry) :=
  if file.length < 40 then none else
  (decFooter (file.drop (file.length - 40))).bind fun f =>
  (slice file f.indexH.off f.indexH.len).bind fun ib =>
  (z.decomp ib).bind fun iraw =>
  (decIndex fuel iraw).bind fun idx =>
  (slice file idx.dataBlock.off idx.dataBlock.len).bind fun db =>
  (z.decomp db).bind fun draw =>
  (decData fuel [] draw).bind fun es => some (idx, es)

/-- `levelManager.fetch` of one data block by its handle -/
def fetchBlock (z : S2) (fuel : Nat) (file : Bytes) (h : Handle) : Option (List Entry) :=
  (slice file h.off h.len).bind fun db => (z.decomp db).bind fun draw => decData fuel [] draw

def BlocksWF (blocks : List (List Entry)) : Prop := ∀ b ∈ blocks, ∀ e ∈ b, WF e

theorem firstKey_wf {b : List Entry} (h : ∀ e ∈ b, WF e) : (firstKey b).length < 65536 := by
  unfold firstKey
  cases b with
  | nil => simp
  | cons x xs => simpa using (h x (by simp)).1

theorem lastKey_wf {b : List Entry} (h : ∀ e ∈ b, WF e) : (lastKey b).length < 65536 := by
  unfold lastKey
  cases hl : b.getLast? with
  | none => simp
  | some y => simpa using (h y (List.mem_of_getLast? hl)).1

theorem indexEntries_length (z : S2) (off : Nat) (blocks : List (List Entry)) :
    (indexEntries z off blocks).length = blocks.length := by
  induction blocks generalizing off with
  | nil => rfl
  | cons b bs ih => simp [indexEntries, ih]

theorem indexEntries_wf (z : S2) (off : Nat) (blocks : List (List Entry)) (hw : BlocksWF blocks)
    (hsz : off + (dataRegion z blocks).length < 2 ^ 64) :
    ∀ e ∈ indexEntries z off blocks, IndexEntryWF e := by
  induction blocks generalizing off with
  | nil => intro e he; cases he
  | cons b bs ih =>
    have hdr : (dataRegion z (b :: bs)).length = (z.comp (encData [] b)).length + (dataRegion z bs).length := by
      simp [dataRegion]
    rw [hdr] at hsz
    intro e he
    simp only [indexEntries, List.mem_cons] at he
    rcases he with rfl | he
    · exact ⟨firstKey_wf (hw b (by simp)), lastKey_wf (hw b (by simp)), by simp only; omega, by simp only; omega⟩
    · exact ih (off + (z.comp (encData [] b)).length) (fun b' hb' => hw b' (by simp [hb'])) (by omega) e he

theorem dataRegion_decode (z : S2) (hz : S2Law z) (blocks : List (List Entry)) (hw : BlocksWF blocks)
    (fuel : Nat) (hf : blocks.flatten.length ≤ fuel) :
    (z.decomp (dataRegion z blocks)).bind (decData fuel []) = some blocks.flatten := by
  unfold dataRegion
  have : (blocks.map fun b => z.comp (encData [] b)) = (blocks.map (encData [])).map z.comp := by simp
  rw [this, hz]
  simp only [Option.bind_some]
  exact decData_encBlocks blocks hw [] fuel hf

/-- C11, whole table: what recovery parses out of the file `table.Build` produced is the index
    `Build` returned and exactly the entries, for every split into blocks -/
theorem parseFile_buildFile (z : S2) (hz : S2Law z) (blocks : List (List Entry)) (m : Meta)
    (hw : BlocksWF blocks) (hm1 : m.createdUnix < 2 ^ 64) (hm2 : m.level < 2 ^ 64)
    (hsz : (buildFile z blocks m).length < 2 ^ 64)
    (fuel : Nat) (hf : blocks.flatten.length ≤ fuel) (hf2 : blocks.length ≤ fuel) :
    parseFile z fuel (buildFile z blocks m) = some (tableIndex z blocks, blocks.flatten) := by
  have hflen : (buildFile z blocks m).length =
      (dataRegion z blocks).length + (encMeta m).length + (z.comp (encIndex (tableIndex z blocks))).length + 40 := by
    simp [buildFile, encFooter_length]; omega
  have hdl : (dataRegion z blocks).length < 2 ^ 64 := by omega
  have hfooterWF1 : HandleWF (tableFooter z blocks m).metaH := by
    simp only [tableFooter, HandleWF]; omega
  have hfooterWF2 : HandleWF (tableFooter z blocks m).indexH := by
    simp only [tableFooter, HandleWF]; omega
  unfold parseFile
  rw [if_neg (by omega)]
  have hdrop : (buildFile z blocks m).drop ((buildFile z blocks m).length - 40) = encFooter (tableFooter z blocks m) := by
    have h40 : (buildFile z blocks m).length - 40
        = (dataRegion z blocks ++ encMeta m ++ z.comp (encIndex (tableIndex z blocks))).length := by
      rw [hflen]; simp; omega
    rw [h40]
    unfold buildFile
    exact List.drop_left
  rw [hdrop, decFooter_encFooter _ hfooterWF1 hfooterWF2 rfl]
  simp only [Option.bind_some]
  -- index block
  have hidx : slice (buildFile z blocks m) (tableFooter z blocks m).indexH.off (tableFooter z blocks m).indexH.len
      = some (z.comp (encIndex (tableIndex z blocks))) := by
    unfold buildFile
    exact slice_mid' (dataRegion z blocks ++ encMeta m) _ _ _ _ (by simp [tableFooter]) (by simp [tableFooter])
  rw [hidx]
  simp only [Option.bind_some]
  rw [hz.single]
  simp only [Option.bind_some]
  have hiwf : IndexWF (tableIndex z blocks) := by
    refine ⟨⟨by simp only [tableIndex]; omega, by simp only [tableIndex]; omega⟩, ?_⟩
    exact indexEntries_wf z 0 blocks hw (by omega)
  rw [decIndex_encIndex _ hiwf fuel (by simp only [tableIndex, indexEntries_length]; exact hf2)]
  simp only [Option.bind_some]
  -- data region
  have hdata : slice (buildFile z blocks m) (tableIndex z blocks).dataBlock.off (tableIndex z blocks).dataBlock.len
      = some (dataRegion z blocks) := by
    unfold buildFile
    have := slice_mid' [] (dataRegion z blocks) (encMeta m ++ z.comp (encIndex (tableIndex z blocks)) ++ encFooter (tableFooter z blocks m))
      0 (dataRegion z blocks).length rfl rfl
    simpa [tableIndex, List.append_assoc] using this
  rw [hdata]
  simp only [Option.bind_some]
  have := dataRegion_decode z hz blocks hw fuel hf
  cases hd : z.decomp (dataRegion z blocks) with
  | none => rw [hd] at this; simp at this
  | some draw =>
    rw [hd] at this
    simp only [Option.bind_some] at this ⊢
    rw [this]
    simp

end Codec
