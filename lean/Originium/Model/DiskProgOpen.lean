import Originium.Model.DiskProgFlush
/-! `Open`: a new wal file, the replay of every older wal record by record, the deletion of leftover
    temporary files — from whatever a crash left behind. -/
namespace Prog
open Key VKey Table Levels LSM Disk

@[simp] theorem finishOpen_f (d : D) (m : Mem) (new : Nat) : (finishOpen d m new).f = m.f := rfl
@[simp] theorem finishOpen_nextWal (d : D) (m : Mem) (new : Nat) : (finishOpen d m new).nextWal = m.nextWal := rfl
@[simp] theorem openTmps_f (d : D) (m : Mem) (new : Nat) (ns : List Nat) : (openTmps d m new ns).f = m.f := by
  unfold openTmps; split <;> rfl
@[simp] theorem openTmps_nextWal (d : D) (m : Mem) (new : Nat) (ns : List Nat) : (openTmps d m new ns).nextWal = m.nextWal := by
  unfold openTmps; split <;> rfl
@[simp] theorem openWals_f (d : D) (m : Mem) (new : Nat) (ws : List Nat) : (openWals d m new ws).f = m.f := by
  cases ws <;> simp [openWals]
@[simp] theorem openWals_nextWal (d : D) (m : Mem) (new : Nat) (ws : List Nat) : (openWals d m new ws).nextWal = m.nextWal := by
  cases ws <;> simp [openWals]

/-- only the new wal is left and it is fsynced -/
def OpenDone (d : D) (new : Nat) : Prop :=
  (∃ wn ∈ d.wals, wn.id = new) ∧ ∀ w' ∈ d.wals, w'.id = new ∧ w'.synced = w'.recs.length

theorem ca_finishOpen {d : D} {m : Mem} {new : Nat} (hd : OpenDone d new) (hnw : new < m.nextWal) :
    CA d (finishOpen d m new) := by
  simp only [CA, finishOpen]
  refine ⟨⟨?_, ?_, by simp, ?_, ?_, ?_, ?_, ?_, ?_⟩, new, rfl⟩
  · intro w hw; right; simp [(hd.2 w hw).1]
  · intro a ha; simp only [Option.some.injEq] at ha; subst ha; exact hd.1
  · intro a _ i hi; cases hi
  · intro i hi; cases hi
  · intro a ha; simp only [Option.some.injEq] at ha; subst ha; exact hnw
  · intro a ha b hb hlt
    rw [(hd.2 a ha).1, (hd.2 b hb).1] at hlt; omega
  · intro e he
    have := DB.maxTs_foldl_mem (surviving d) 0 e he
    show e.key.ts < DB.maxTs (surviving d) + 1
    unfold DB.maxTs; omega
  · intro w hw; exact Or.inl (hd.2 w hw).2

theorem ca_openTmps {d : D} {m : Mem} {new : Nat} (ns : List Nat) (hf : m.f = .idle) (hd : OpenDone d new)
    (hnw : new < m.nextWal) : CA d (openTmps d m new ns) := by
  unfold openTmps
  split
  · exact ca_finishOpen hd hnw
  · simp only [CA]; exact ⟨hf, hd.1, hd.2⟩

theorem ca_openWals {d : D} {m : Mem} {new : Nat} (ws : List Nat) (hf : m.f = .idle)
    (hex : ∃ wn ∈ d.wals, wn.id = new) (hids : ∀ w' ∈ d.wals, w'.id = new ∨ w'.id ∈ ws) (hne : new ∉ ws)
    (hsy : ∀ w' ∈ d.wals, w'.id = new → w'.synced = w'.recs.length) (hnw : new < m.nextWal) :
    CA d (openWals d m new ws) := by
  cases ws with
  | nil =>
    simp only [openWals]
    refine ca_openTmps _ hf ⟨hex, ?_⟩ hnw
    intro w' hw'
    rcases hids w' hw' with h1 | h1
    · exact ⟨h1, hsy w' hw' h1⟩
    · cases h1
  | cons w ws' =>
    simp only [openWals, CA]
    refine ⟨hf, hex, ?_, ?_, fun _ => hsy, ?_, ?_⟩
    · intro w' hw'
      rcases hids w' hw' with h1 | h1
      · exact Or.inl h1
      · rcases List.mem_cons.mp h1 with h1 | h1
        · exact Or.inr (Or.inl h1)
        · exact Or.inr (Or.inr h1)
    · exact ⟨fun hh => hne (by simp [hh]), fun hh => hne (List.mem_cons_of_mem _ hh)⟩
    · intro w' hw' hid e he
      exact Or.inl (mem_recsOf.mpr ⟨w', hw', hid, he⟩)
    · intro r hr
      obtain ⟨w0, hw0, _, he⟩ := mem_recsOf.mp hr
      exact mem_allRecs.mpr ⟨w0, hw0, he⟩

theorem fa_of_idle {d : D} {low : Nat} {m : Mem} (hf : m.f = .idle) : FA d low m := by
  simp only [FA, hf]

/-- `newMemtable`: the wal of the recovering engine -/
theorem step_openCreate {t : TSt} {m : Mem} (h : PInv ⟨t, m⟩) {id : Nat} {ws : List Nat} (hc : m.c = .ordered ws)
    (hall : ∀ w ∈ t.d.wals, w.id ∈ ws) (hnew : id ∉ ws) (hid : m.nextWal ≤ id) :
    ∃ t', accept t (.op (.walCreate id)) = some t' ∧
      PInv ⟨t', openWals (apply t.d (.walCreate id)) { m with nextWal := id + 1 } id ws⟩ := by
  have hca : CA t.d m := h.ca
  have hlt : ∀ w ∈ t.d.wals, w.id < m.nextWal := h.idsLt
  simp only [CA, hc] at hca
  have g : Guard t.d t.low (.walCreate id) := by
    intro w hw; have := hlt w hw; omega
  have hacc := acceptOp_eq (t := t) (o := .walCreate id) g trivial
  have hwals : (apply t.d (.walCreate id)).wals = t.d.wals ++ [{ id := id, recs := [], synced := 0 }] := rfl
  refine ⟨_, hacc, PInv.intro (core_accept h.core _ hacc) ?_ ?_ ?_⟩
  · intro w hw
    simp only [openWals_nextWal]
    rw [hwals] at hw
    rcases List.mem_append.mp hw with hw | hw
    · have := hlt w hw; omega
    · simp only [List.mem_singleton] at hw; subst hw; show id < id + 1; omega
  · refine ca_openWals _ hca ⟨⟨id, [], 0⟩, by rw [hwals]; simp, rfl⟩ ?_ ?_ ?_ (by show id < id + 1; omega)
    · intro w' hw'
      rw [hwals] at hw'
      rcases List.mem_append.mp hw' with hw' | hw'
      · exact Or.inr (hall w' hw')
      · simp only [List.mem_singleton] at hw'; subst hw'; exact Or.inl rfl
    · exact hnew
    · intro w' hw' hid'
      rw [hwals] at hw'
      rcases List.mem_append.mp hw' with hw' | hw'
      · have := hlt w' hw'; omega
      · simp only [List.mem_singleton] at hw'; subst hw'; rfl
  · exact fa_of_idle (by simp only [openWals_f]; exact hca)

/-- `recover`: one record of an older wal is written to the new wal -/
theorem step_openAppend {t : TSt} {m : Mem} (h : PInv ⟨t, m⟩) {new w : Nat} {r : E} {rs : List E} {ws : List Nat}
    (hc : m.c = .openRec new w (r :: rs) ws true) :
    ∃ t', accept t (.op (.walAppend new [r])) = some t' ∧ PInv ⟨t', { m with c := .openRec new w rs ws false }⟩ := by
  have hca : CA t.d m := h.ca
  simp only [CA, hc] at hca
  obtain ⟨hf, hex, hids, hne, _, hdone, hsub⟩ := hca
  have hr : r ∈ allRecs t.d := hsub r (by simp)
  have g : Guard t.d t.low (.walAppend new [r]) := by
    intro e he
    simp only [List.mem_singleton] at he; subst he
    exact ⟨Or.inl hr, fun ht => h.core.1.table_synced e ht hr⟩
  have gw : GuardWF t.d (.walAppend new [r]) := by
    intro e he
    simp only [List.mem_singleton] at he; subst he
    exact surviving_mem.mpr (Or.inl hr)
  have hacc := acceptOp_eq g gw
  have hmem : ∀ w0 ∈ t.d.wals, updRecs new [r] w0 ∈ (apply t.d (.walAppend new [r])).wals := by
    intro w0 hw0; rw [wals_walAppend]; exact List.mem_map.mpr ⟨w0, hw0, rfl⟩
  refine ⟨_, hacc, PInv.intro (core_accept h.core _ hacc) ?_ ?_ (fa_of_idle hf)⟩
  · intro w' hw'
    rw [wals_walAppend] at hw'
    obtain ⟨w0, hw0, rfl⟩ := List.mem_map.mp hw'
    simpa using h.idsLt w0 hw0
  · simp only [CA]
    refine ⟨hf, ?_, ?_, hne, (by intro hh; cases hh), ?_, ?_⟩
    · obtain ⟨wn, hwn, hid⟩ := hex
      exact ⟨_, hmem wn hwn, by simpa using hid⟩
    · intro w' hw'
      rw [wals_walAppend] at hw'
      obtain ⟨w0, hw0, rfl⟩ := List.mem_map.mp hw'
      simpa using hids w0 hw0
    · intro w' hw' hid e he
      rw [wals_walAppend] at hw'
      obtain ⟨w0, hw0, rfl⟩ := List.mem_map.mp hw'
      simp only [updRecs_id] at hid
      have hw0ne : w0.id ≠ new := by rw [hid]; exact hne.1.symm
      have he0 : e ∈ w0.recs := by
        rcases mem_updRecs.mp he with h1 | ⟨h1, _⟩
        · exact h1
        · exact absurd h1 hw0ne
      rcases hdone w0 hw0 hid e he0 with h1 | ⟨wn, hwn, hidn, hen⟩
      · rcases List.mem_cons.mp h1 with h1 | h1
        · obtain ⟨wn, hwn, hidn⟩ := hex
          exact Or.inr ⟨_, hmem wn hwn, by simpa using hidn, mem_updRecs.mpr (Or.inr ⟨hidn, by simp [h1]⟩)⟩
        · exact Or.inl h1
      · exact Or.inr ⟨_, hmem wn hwn, by simpa using hidn, mem_updRecs.mpr (Or.inl hen)⟩
    · intro r' hr'
      exact allRecs_mono t.d _ (by intro id hh; cases hh) (hsub r' (List.mem_cons_of_mem _ hr'))

/-- … and fsynced -/
theorem step_openSync {t : TSt} {m : Mem} (h : PInv ⟨t, m⟩) {new w : Nat} {rs : List E} {ws : List Nat}
    (hc : m.c = .openRec new w rs ws false) :
    ∃ t', accept t (.op (.walSync new)) = some t' ∧ PInv ⟨t', { m with c := .openRec new w rs ws true }⟩ := by
  have hca : CA t.d m := h.ca
  simp only [CA, hc] at hca
  obtain ⟨hf, hex, hids, hne, _, hdone, hsub⟩ := hca
  have hacc := acceptOp_eq (t := t) (o := .walSync new) trivial trivial
  have hmem : ∀ w0 ∈ t.d.wals, updSync new w0 ∈ (apply t.d (.walSync new)).wals := by
    intro w0 hw0; rw [wals_walSync]; exact List.mem_map.mpr ⟨w0, hw0, rfl⟩
  refine ⟨_, hacc, PInv.intro (core_accept h.core _ hacc) ?_ ?_ (fa_of_idle hf)⟩
  · intro w' hw'
    rw [wals_walSync] at hw'
    obtain ⟨w0, hw0, rfl⟩ := List.mem_map.mp hw'
    simpa using h.idsLt w0 hw0
  · simp only [CA]
    refine ⟨hf, ?_, ?_, hne, ?_, ?_, ?_⟩
    · obtain ⟨wn, hwn, hid⟩ := hex
      exact ⟨_, hmem wn hwn, by simpa using hid⟩
    · intro w' hw'
      rw [wals_walSync] at hw'
      obtain ⟨w0, hw0, rfl⟩ := List.mem_map.mp hw'
      simpa using hids w0 hw0
    · intro _ w' hw' hid
      rw [wals_walSync] at hw'
      obtain ⟨w0, hw0, rfl⟩ := List.mem_map.mp hw'
      simp only [updSync_id] at hid
      rw [updSync_of_eq hid, updSync_recs]
    · intro w' hw' hid e he
      rw [wals_walSync] at hw'
      obtain ⟨w0, hw0, rfl⟩ := List.mem_map.mp hw'
      simp only [updSync_id, updSync_recs] at hid he
      rcases hdone w0 hw0 hid e he with h1 | ⟨wn, hwn, hidn, hen⟩
      · exact Or.inl h1
      · exact Or.inr ⟨_, hmem wn hwn, by simpa using hidn, by simpa using hen⟩
    · intro r' hr'
      exact (allRecs_walSync t.d new).mpr (hsub r' hr')

/-- the replayed wal is deleted -/
theorem step_openRemove {t : TSt} {m : Mem} (h : PInv ⟨t, m⟩) {new w : Nat} {ws : List Nat}
    (hc : m.c = .openRec new w [] ws true) :
    ∃ t', accept t (.op (.walRemove w)) = some t' ∧ PInv ⟨t', openWals (apply t.d (.walRemove w)) m new ws⟩ := by
  have hca : CA t.d m := h.ca
  simp only [CA, hc] at hca
  obtain ⟨hf, hex, hids, hne, hsy, hdone, _⟩ := hca
  have g : Guard t.d t.low (.walRemove w) := by
    intro w0 hw0 hid e he
    rcases hdone w0 hw0 hid e he with h1 | ⟨wn, hwn, hidn, hen⟩
    · cases h1
    · left
      refine ⟨wn, hwn, by rw [hidn]; exact hne.1, ?_⟩
      rw [hsy rfl wn hwn hidn, List.take_length]; exact hen
  have hacc := acceptOp_eq (o := .walRemove w) g trivial
  refine ⟨_, hacc, PInv.intro (core_accept h.core _ hacc) ?_ ?_ ?_⟩
  · intro w' hw'
    simp only [openWals_nextWal]
    exact h.idsLt w' (mem_wals_walRemove.mp hw').1
  · obtain ⟨wn, hwn, hidn⟩ := hex
    refine ca_openWals ws hf ⟨wn, mem_wals_walRemove.mpr ⟨hwn, by rw [hidn]; exact hne.1⟩, hidn⟩ ?_ hne.2 ?_ ?_
    · intro w' hw'
      obtain ⟨hw1, hne'⟩ := mem_wals_walRemove.mp hw'
      rcases hids w' hw1 with h1 | h1 | h1
      · exact Or.inl h1
      · exact absurd h1 hne'
      · exact Or.inr h1
    · intro w' hw' hid'
      exact hsy rfl w' (mem_wals_walRemove.mp hw').1 hid'
    · have := h.idsLt wn hwn; rw [hidn] at this; exact this
  · exact fa_of_idle (by simp only [openWals_f]; exact hf)

/-- `levelManager.recover` deletes a leftover temporary file -/
theorem step_openTmpRemove {t : TSt} {m : Mem} (h : PInv ⟨t, m⟩) {new n : Nat} {ns : List Nat}
    (hc : m.c = .openTmp new ns) :
    ∃ t', accept t (.op (.tmpRemove n)) = some t' ∧
      PInv ⟨t', openTmps (apply t.d (.tmpRemove n)) m new (ns.erase n)⟩ := by
  have hca : CA t.d m := h.ca
  simp only [CA, hc] at hca
  obtain ⟨hf, hex, hall⟩ := hca
  have hacc := acceptOp_eq (t := t) (o := .tmpRemove n) trivial trivial
  refine ⟨_, hacc, PInv.intro (core_accept h.core _ hacc) ?_ ?_ ?_⟩
  · intro w' hw'
    simp only [openTmps_nextWal]
    exact h.idsLt w' hw'
  · obtain ⟨wn, hwn, hidn⟩ := hex
    refine ca_openTmps _ hf ⟨⟨wn, hwn, hidn⟩, hall⟩ ?_
    have := h.idsLt wn hwn; rw [hidn] at this; exact this
  · exact fa_of_idle (by simp only [openTmps_f]; exact hf)

end Prog
