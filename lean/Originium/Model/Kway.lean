import Originium.Model.LSM
/-! `kway.MergeVersions` as the code computes it: a heap holding one element per input list, ordered
    by `Heap.Less` (versioned key, then list index), `latest[key] = entry` for every popped element,
    the map's values sorted at the end.  `container/heap` is not modelled: a pop returns *some*
    minimum with respect to `Less` (`IsMin`), whichever layout the heap has.  Theorem `run_eq_spec`:
    for strictly sorted input lists the result is `LSM.mergeVersions` (the specification the
    compaction theorems of C09 are about), whatever minimum each pop returns. -/
namespace Kway
open Key VKey Table Levels LSM

/-- the heap's element of one input list (if any) and what is left of that list -/
structure Cur where
  li : Nat
  cur : Option E
  rest : List E

def Cur.all (c : Cur) : List E := (match c.cur with | some e => [e] | none => []) ++ c.rest

def start (li : Nat) (l : List E) : Cur :=
  match l with
  | [] => ⟨li, none, []⟩
  | x :: xs => ⟨li, some x, xs⟩

/-- after a pop the next element of the same list is pushed -/
def Cur.adv (c : Cur) : Cur := start c.li c.rest

def initFrom (i : Nat) : List (List E) → List Cur
  | [] => []
  | l :: ls => start i l :: initFrom (i + 1) ls

/-- `Heap.Less`: `CompareKeys` first, the list index breaks ties -/
def less (a b : E × Nat) : Bool := vlt a.1.key b.1.key || (a.1.key == b.1.key && decide (a.2 < b.2))

/-- `heap.Pop` returns an element no other element of the heap is `Less` than -/
def IsMin (cs : List Cur) (c : Cur) (e : E) : Prop :=
  c ∈ cs ∧ c.cur = some e ∧ ∀ c' ∈ cs, ∀ e', c'.cur = some e' → less (e', c'.li) (e, c.li) = false

def popAt (cs : List Cur) (li : Nat) : List Cur := cs.map fun c' => if c'.li = li then c'.adv else c'

/-- the loop `for h.Len() > 0 { pop; push next of the same list }`: the sequence of popped elements -/
inductive Run : List Cur → List (E × Nat) → Prop where
  | done {cs : List Cur} : (∀ c ∈ cs, c.cur = none) → Run cs []
  | pop {cs : List Cur} {c : Cur} {e : E} {out : List (E × Nat)} :
      IsMin cs c e → Run (popAt cs c.li) out → Run cs ((e, c.li) :: out)

structure Good (cs : List Cur) : Prop where
  distinct : cs.Pairwise (fun a b => a.li ≠ b.li)
  sorted : ∀ c ∈ cs, SortedE vlt c.all
  drained : ∀ c ∈ cs, c.cur = none → c.rest = []

theorem start_all (li : Nat) (l : List E) : (start li l).all = l := by
  cases l <;> simp [start, Cur.all]

theorem start_li (li : Nat) (l : List E) : (start li l).li = li := by
  cases l <;> rfl

theorem start_drained (li : Nat) (l : List E) (h : (start li l).cur = none) : (start li l).rest = [] := by
  cases l with
  | nil => rfl
  | cons x xs => simp [start] at h

theorem adv_li (c : Cur) : c.adv.li = c.li := start_li _ _
theorem adv_all (c : Cur) : c.adv.all = c.rest := start_all _ _

theorem all_of_some {c : Cur} {e : E} (h : c.cur = some e) : c.all = e :: c.rest := by
  simp [Cur.all, h]

theorem mem_popAt {cs : List Cur} {li : Nat} {c2 : Cur} (h : c2 ∈ popAt cs li) :
    ∃ c0 ∈ cs, c2 = if c0.li = li then c0.adv else c0 := by
  obtain ⟨c0, h0, rfl⟩ := List.mem_map.mp h
  exact ⟨c0, h0, rfl⟩

theorem popAt_li_map (cs : List Cur) (li : Nat) : (popAt cs li).map (·.li) = cs.map (·.li) := by
  simp only [popAt, List.map_map]
  apply List.map_congr_left
  intro c _
  simp only [Function.comp]
  split
  · exact adv_li c
  · rfl

theorem pairwise_li_iff (cs : List Cur) : cs.Pairwise (fun a b => a.li ≠ b.li) ↔ (cs.map (·.li)).Nodup := by
  rw [List.Nodup, List.pairwise_map]

theorem good_popAt {cs : List Cur} (h : Good cs) (li : Nat) : Good (popAt cs li) := by
  refine ⟨?_, ?_, ?_⟩
  · rw [pairwise_li_iff, popAt_li_map, ← pairwise_li_iff]; exact h.distinct
  · intro c2 h2
    obtain ⟨c0, h0, rfl⟩ := mem_popAt h2
    split
    · rw [adv_all]
      have := h.sorted c0 h0
      cases hc : c0.cur with
      | none => rw [h.drained c0 h0 hc]; exact List.Pairwise.nil
      | some e => rw [all_of_some hc] at this; exact (List.pairwise_cons.mp this).2
    · exact h.sorted c0 h0
  · intro c2 h2 hn
    obtain ⟨c0, h0, rfl⟩ := mem_popAt h2
    split at hn
    · rename_i hli; simp only [hli, ↓reduceIte]; exact start_drained _ _ hn
    · rename_i hli; simp only [hli, ↓reduceIte]; exact h.drained c0 h0 hn

/-- distinct list indices: an element of `cs` is determined by its index -/
theorem eq_of_li {cs : List Cur} (h : cs.Pairwise (fun a b => a.li ≠ b.li)) {a b : Cur} (ha : a ∈ cs) (hb : b ∈ cs)
    (hab : a.li = b.li) : a = b := by
  induction cs with
  | nil => cases ha
  | cons x xs ih =>
    obtain ⟨hx, hxs⟩ := List.pairwise_cons.mp h
    rcases List.mem_cons.mp ha with rfl | ha' <;> rcases List.mem_cons.mp hb with rfl | hb'
    · rfl
    · exact absurd hab (hx b hb')
    · exact absurd hab.symm (hx a ha')
    · exact ih hxs ha' hb'

theorem vlt_tri (a b : VK) : vlt a b = true ∨ a = b ∨ vlt b a = true := by
  cases h1 : vlt a b with
  | true => exact Or.inl rfl
  | false =>
    cases h2 : vlt b a with
    | true => exact Or.inr (Or.inr rfl)
    | false => exact Or.inr (Or.inl (vlt_total a b h1 h2))

/-- the popped element is `Less` than everything that is still to come -/
theorem min_less_rest {cs : List Cur} (hg : Good cs) {c : Cur} {e : E} (hm : IsMin cs c e)
    {c2 : Cur} (h2 : c2 ∈ popAt cs c.li) {y : E} (hy : y ∈ c2.all) : less (e, c.li) (y, c2.li) = true := by
  obtain ⟨hc, hcur, hmin⟩ := hm
  obtain ⟨c0, h0, rfl⟩ := mem_popAt h2
  have hsc := hg.sorted c hc
  rw [all_of_some hcur] at hsc
  by_cases hli : c0.li = c.li
  · -- the same list: the rest of a strictly sorted list is above its head
    have : c0 = c := eq_of_li hg.distinct h0 hc hli
    subst this
    simp only [↓reduceIte] at hy ⊢
    rw [adv_all] at hy
    have := (List.pairwise_cons.mp hsc).1 y hy
    simp [less, this]
  · simp only [hli, ↓reduceIte] at hy ⊢
    cases hc0 : c0.cur with
    | none =>
      have := hg.drained c0 h0 hc0
      simp [Cur.all, hc0, this] at hy
    | some e0 =>
      have hnl := hmin c0 h0 e0 hc0
      have hs0 := hg.sorted c0 h0
      rw [all_of_some hc0] at hs0 hy
      -- e is at most e0 in the heap order
      have he0 : less (e, c.li) (e0, c0.li) = true := by
        simp only [less, Bool.or_eq_false_iff, Bool.and_eq_false_iff, beq_eq_false_iff_ne, ne_eq,
          decide_eq_false_iff_not, Nat.not_lt] at hnl
        rcases vlt_tri e.key e0.key with h | h | h
        · simp [less, h]
        · have : c.li < c0.li := by
            rcases hnl.2 with h' | h'
            · exact absurd h.symm h'
            · omega
          simp [less, h, this]
        · rw [h] at hnl; exact absurd hnl.1 (by simp)
      rcases List.mem_cons.mp hy with rfl | hy'
      · exact he0
      · have hlt := (List.pairwise_cons.mp hs0).1 y hy'
        simp only [less, Bool.or_eq_true, Bool.and_eq_true, beq_iff_eq, decide_eq_true_eq] at he0 ⊢
        rcases he0 with h | ⟨h, _⟩
        · exact Or.inl (vlt_trans _ _ _ h hlt)
        · left; rw [h]; exact hlt

/-- the tagged elements that have not been popped yet -/
def Pending (cs : List Cur) (x : E × Nat) : Prop := ∃ c ∈ cs, x.2 = c.li ∧ x.1 ∈ c.all

theorem pending_pop {cs : List Cur} (hg : Good cs) {c : Cur} {e : E} (hm : IsMin cs c e) (x : E × Nat) :
    Pending cs x ↔ x = (e, c.li) ∨ Pending (popAt cs c.li) x := by
  obtain ⟨hc, hcur, _⟩ := hm
  constructor
  · rintro ⟨c0, h0, hli, hx⟩
    by_cases h : c0.li = c.li
    · have : c0 = c := eq_of_li hg.distinct h0 hc h
      subst this
      rw [all_of_some hcur] at hx
      rcases List.mem_cons.mp hx with hx | hx
      · left; exact Prod.ext hx hli
      · right
        refine ⟨c0.adv, List.mem_map.mpr ⟨c0, h0, by simp⟩, by rw [adv_li]; exact hli, by rw [adv_all]; exact hx⟩
    · right
      exact ⟨c0, List.mem_map.mpr ⟨c0, h0, by simp [h]⟩, hli, hx⟩
  · rintro (rfl | ⟨c2, h2, hli, hx⟩)
    · exact ⟨c, hc, rfl, by rw [all_of_some hcur]; simp⟩
    · obtain ⟨c0, h0, rfl⟩ := mem_popAt h2
      split at hli
      · rename_i h
        simp only [h, ↓reduceIte] at hx
        rw [adv_li] at hli; rw [adv_all] at hx
        have : c0 = c := eq_of_li hg.distinct h0 hc h
        subst this
        exact ⟨c0, h0, hli, by rw [all_of_some hcur]; exact List.mem_cons_of_mem _ hx⟩
      · rename_i h
        simp only [h, ↓reduceIte] at hx
        exact ⟨c0, h0, hli, hx⟩

/-- the pops come out strictly increasing in the heap order and are exactly the pending elements -/
theorem run_sorted {cs : List Cur} {out : List (E × Nat)} (hr : Run cs out) (hg : Good cs) :
    out.Pairwise (fun a b => less a b = true) ∧ ∀ x, x ∈ out ↔ Pending cs x := by
  induction hr with
  | done hnone =>
    refine ⟨List.Pairwise.nil, ?_⟩
    intro x
    constructor
    · intro h; cases h
    · rintro ⟨c, hc, _, hx⟩
      have h1 := hnone c hc
      have h2 := hg.drained c hc h1
      simp [Cur.all, h1, h2] at hx
  | @pop cs c e out hm _ ih =>
    obtain ⟨ihs, ihm⟩ := ih (good_popAt hg c.li)
    refine ⟨List.pairwise_cons.mpr ⟨?_, ihs⟩, ?_⟩
    · intro y hy
      obtain ⟨c2, h2, hli, hx⟩ := (ihm y).mp hy
      have := min_less_rest hg hm h2 hx
      rw [← hli] at this
      exact this
    · intro x
      rw [pending_pop hg hm x, List.mem_cons, ihm x]


/-! ### the specification side: `foldl insertE` keeps, per versioned key, the last entry -/

theorem vlt_ne {a b : VK} (h : vlt a b = true) : a ≠ b := by
  intro hab; rw [hab, vlt_irrefl] at h; cases h

theorem mem_insertE_iff {acc : List E} (hs : SortedE vlt acc) (e y : E) :
    y ∈ insertE acc e ↔ y = e ∨ (y ∈ acc ∧ y.key ≠ e.key) := by
  induction acc with
  | nil => simp [insertE]
  | cons x xs ih =>
    obtain ⟨hx, hxs⟩ := List.pairwise_cons.mp hs
    unfold insertE
    split
    · rename_i hlt
      have hne : x.key ≠ e.key := vlt_ne hlt
      rw [List.mem_cons, ih hxs, List.mem_cons]
      constructor
      · rintro (rfl | rfl | ⟨h1, h2⟩)
        · exact Or.inr ⟨Or.inl rfl, hne⟩
        · exact Or.inl rfl
        · exact Or.inr ⟨Or.inr h1, h2⟩
      · rintro (rfl | ⟨rfl | h1, h2⟩)
        · exact Or.inr (Or.inl rfl)
        · exact Or.inl rfl
        · exact Or.inr (Or.inr ⟨h1, h2⟩)
    · rename_i hnlt
      split
      · rename_i heq
        rw [List.mem_cons, List.mem_cons]
        constructor
        · rintro (rfl | h1)
          · exact Or.inl rfl
          · refine Or.inr ⟨Or.inr h1, ?_⟩
            rw [← heq]; exact (vlt_ne (hx y h1)).symm
        · rintro (rfl | ⟨rfl | h1, h2⟩)
          · exact Or.inl rfl
          · exact absurd heq h2
          · exact Or.inr h1
      · rename_i hne
        have hex : vlt e.key x.key = true := by
          rcases vlt_tri e.key x.key with h | h | h
          · exact h
          · exact absurd h.symm hne
          · rw [h] at hnlt; exact absurd rfl hnlt
        rw [List.mem_cons, List.mem_cons]
        constructor
        · rintro (rfl | rfl | h1)
          · exact Or.inl rfl
          · exact Or.inr ⟨Or.inl rfl, hne⟩
          · exact Or.inr ⟨Or.inr h1, (vlt_ne (vlt_trans _ _ _ hex (hx y h1))).symm⟩
        · rintro (rfl | ⟨rfl | h1, _⟩)
          · exact Or.inl rfl
          · exact Or.inr (Or.inl rfl)
          · exact Or.inr (Or.inr h1)

/-- `x` occurs in `es` and no later element has its versioned key -/
def LastIn (es : List E) (x : E) : Prop := ∃ pre post, es = pre ++ x :: post ∧ ∀ y ∈ post, y.key ≠ x.key

theorem lastIn_cons (e : E) (es : List E) (x : E) :
    LastIn (e :: es) x ↔ (x = e ∧ ∀ y ∈ es, y.key ≠ x.key) ∨ LastIn es x := by
  constructor
  · rintro ⟨pre, post, h, hp⟩
    cases pre with
    | nil =>
      simp only [List.nil_append, List.cons.injEq] at h
      obtain ⟨rfl, rfl⟩ := h
      exact Or.inl ⟨rfl, hp⟩
    | cons p pre' =>
      simp only [List.cons_append, List.cons.injEq] at h
      exact Or.inr ⟨pre', post, h.2, hp⟩
  · rintro (⟨rfl, hp⟩ | ⟨pre, post, h, hp⟩)
    · exact ⟨[], es, rfl, hp⟩
    · exact ⟨e :: pre, post, by rw [h]; rfl, hp⟩

theorem mem_foldl_insertE (es : List E) : ∀ (acc : List E), SortedE vlt acc → ∀ x,
    (x ∈ es.foldl insertE acc ↔ LastIn es x ∨ (x ∈ acc ∧ ∀ y ∈ es, y.key ≠ x.key)) := by
  induction es with
  | nil =>
    intro acc _ x
    simp only [List.foldl_nil]
    constructor
    · intro h; exact Or.inr ⟨h, fun y hy => by cases hy⟩
    · rintro (⟨pre, post, h, _⟩ | ⟨h, _⟩)
      · cases pre <;> cases h
      · exact h
  | cons e es ih =>
    intro acc hs x
    simp only [List.foldl_cons]
    rw [ih (insertE acc e) (insertE_sorted hs e) x, mem_insertE_iff hs, lastIn_cons]
    constructor
    · rintro (h | ⟨rfl | ⟨h1, h2⟩, h3⟩)
      · exact Or.inl (Or.inr h)
      · exact Or.inl (Or.inl ⟨rfl, h3⟩)
      · refine Or.inr ⟨h1, ?_⟩
        intro y hy
        rcases List.mem_cons.mp hy with rfl | hy
        · exact fun hh => h2 hh.symm
        · exact h3 y hy
    · rintro ((⟨rfl, h3⟩ | h) | ⟨h1, h2⟩)
      · exact Or.inr ⟨Or.inl rfl, h3⟩
      · exact Or.inl h
      · exact Or.inr ⟨Or.inr ⟨h1, fun hh => h2 e (by simp) hh.symm⟩, fun y hy => h2 y (List.mem_cons_of_mem _ hy)⟩

theorem mem_mergeVersions (lists : List (List E)) (x : E) : x ∈ mergeVersions lists ↔ LastIn lists.flatten x := by
  unfold mergeVersions
  rw [mem_foldl_insertE _ [] List.Pairwise.nil]
  constructor
  · rintro (h | ⟨h, _⟩)
    · exact h
    · cases h
  · exact Or.inl

/-- strictly sorted lists with the same elements are equal -/
theorem sorted_ext : ∀ (l1 l2 : List E), SortedE vlt l1 → SortedE vlt l2 → (∀ x, x ∈ l1 ↔ x ∈ l2) → l1 = l2 := by
  intro l1
  induction l1 with
  | nil =>
    intro l2 _ _ h
    cases l2 with
    | nil => rfl
    | cons b bs => exact absurd ((h b).mpr (by simp)) (by simp)
  | cons a as ih =>
    intro l2 h1 h2 h
    cases l2 with
    | nil => exact absurd ((h a).mp (by simp)) (by simp)
    | cons b bs =>
      obtain ⟨ha, has⟩ := List.pairwise_cons.mp h1
      obtain ⟨hb, hbs⟩ := List.pairwise_cons.mp h2
      have hab : a = b := by
        rcases List.mem_cons.mp ((h a).mp (by simp)) with h3 | h3
        · exact h3
        · rcases List.mem_cons.mp ((h b).mpr (by simp)) with h4 | h4
          · exact h4.symm
          · have := vlt_trans _ _ _ (hb a h3) (ha b h4)
            rw [vlt_irrefl] at this; cases this
      subst hab
      have hna : a ∉ as := fun hh => by have := ha a hh; rw [vlt_irrefl] at this; cases this
      have hnb : a ∉ bs := fun hh => by have := hb a hh; rw [vlt_irrefl] at this; cases this
      rw [ih bs has hbs]
      intro x
      constructor
      · intro hx
        rcases List.mem_cons.mp ((h x).mp (List.mem_cons_of_mem _ hx)) with h3 | h3
        · rw [h3] at hx; exact absurd hx hna
        · exact h3
      · intro hx
        rcases List.mem_cons.mp ((h x).mpr (List.mem_cons_of_mem _ hx)) with h3 | h3
        · rw [h3] at hx; exact absurd hx hnb
        · exact h3


/-! ### both sides pick, per versioned key, the entry of the list with the largest index -/

/-- all input elements with the index of their list, in the order of `flatten` -/
def tagged (i : Nat) : List (List E) → List (E × Nat)
  | [] => []
  | l :: ls => l.map (·, i) ++ tagged (i + 1) ls

theorem tagged_fst (i : Nat) (lists : List (List E)) : (tagged i lists).map (·.1) = lists.flatten := by
  induction lists generalizing i with
  | nil => rfl
  | cons l ls ih => simp [tagged, ih, List.map_append, List.map_map, Function.comp_def]

theorem tagged_ge {i : Nat} {lists : List (List E)} {p : E × Nat} (h : p ∈ tagged i lists) : i ≤ p.2 := by
  induction lists generalizing i with
  | nil => cases h
  | cons l ls ih =>
    rcases List.mem_append.mp h with h | h
    · obtain ⟨x, _, rfl⟩ := List.mem_map.mp h; exact Nat.le_refl _
    · have := ih h; omega

/-- later elements with the same versioned key carry a larger list index -/
def Mono (ts : List (E × Nat)) : Prop := ts.Pairwise (fun a b => a.1.key = b.1.key → a.2 < b.2)

theorem mono_tagged (i : Nat) (lists : List (List E)) (hs : ∀ l ∈ lists, SortedE vlt l) : Mono (tagged i lists) := by
  induction lists generalizing i with
  | nil => exact List.Pairwise.nil
  | cons l ls ih =>
    unfold Mono tagged
    rw [List.pairwise_append]
    refine ⟨?_, ih (i + 1) (fun l' hl' => hs l' (List.mem_cons_of_mem _ hl')), ?_⟩
    · rw [List.pairwise_map]
      apply List.Pairwise.imp _ (hs l (by simp))
      intro a b hab heq
      exact absurd heq (vlt_ne hab)
    · intro a ha b hb _
      obtain ⟨x, _, rfl⟩ := List.mem_map.mp ha
      have := tagged_ge hb
      show i < b.2
      omega

theorem mono_of_sorted {out : List (E × Nat)} (h : out.Pairwise (fun a b => less a b = true)) : Mono out := by
  apply List.Pairwise.imp _ h
  intro a b hab heq
  simp only [less, Bool.or_eq_true, Bool.and_eq_true, beq_iff_eq, decide_eq_true_eq] at hab
  rcases hab with h1 | ⟨_, h2⟩
  · exact absurd heq (vlt_ne h1)
  · exact h2

/-- last occurrence of a versioned key in a list of tagged entries -/
def LastT (ts : List (E × Nat)) (p : E × Nat) : Prop :=
  ∃ pre post, ts = pre ++ p :: post ∧ ∀ q ∈ post, q.1.key ≠ p.1.key

/-- `p` comes from the list with the largest index among those that hold its versioned key -/
def IsTop (ts : List (E × Nat)) (p : E × Nat) : Prop := p ∈ ts ∧ ∀ q ∈ ts, q.1.key = p.1.key → q.2 ≤ p.2

theorem lastT_iff_top {ts : List (E × Nat)} (hm : Mono ts) (p : E × Nat) : LastT ts p ↔ IsTop ts p := by
  constructor
  · rintro ⟨pre, post, rfl, hp⟩
    refine ⟨by simp, ?_⟩
    intro q hq heq
    unfold Mono at hm
    rw [List.pairwise_append] at hm
    rcases List.mem_append.mp hq with hq | hq
    · exact Nat.le_of_lt (hm.2.2 q hq p (by simp) heq)
    · rcases List.mem_cons.mp hq with rfl | hq
      · exact Nat.le_refl _
      · exact absurd heq (hp q hq)
  · rintro ⟨hp, htop⟩
    obtain ⟨pre, post, rfl⟩ := List.append_of_mem hp
    refine ⟨pre, post, rfl, ?_⟩
    intro q hq heq
    unfold Mono at hm
    rw [List.pairwise_append] at hm
    have h1 := (List.pairwise_cons.mp hm.2.1).1 q hq heq.symm
    have h2 := htop q (by simp [hq]) heq
    omega

theorem lastIn_map_fst (ts : List (E × Nat)) (x : E) : LastIn (ts.map (·.1)) x ↔ ∃ li, LastT ts (x, li) := by
  constructor
  · rintro ⟨pre, post, h, hp⟩
    obtain ⟨tpre, trest, rfl, hpre, hrest⟩ := List.map_eq_append_iff.mp h
    cases trest with
    | nil => simp at hrest
    | cons p tpost =>
      simp only [List.map_cons, List.cons.injEq] at hrest
      obtain ⟨hp1, hpost⟩ := hrest
      refine ⟨p.2, tpre, tpost, by rw [← hp1], ?_⟩
      intro q hq
      exact hp q.1 (by rw [← hpost]; exact List.mem_map.mpr ⟨q, hq, rfl⟩)
  · rintro ⟨li, pre, post, rfl, hp⟩
    refine ⟨pre.map (·.1), post.map (·.1), by simp, ?_⟩
    intro y hy
    obtain ⟨q, hq, rfl⟩ := List.mem_map.mp hy
    exact hp q hq

theorem good_initFrom (i : Nat) (lists : List (List E)) (hs : ∀ l ∈ lists, SortedE vlt l) :
    Good (initFrom i lists) ∧ ∀ c ∈ initFrom i lists, i ≤ c.li := by
  induction lists generalizing i with
  | nil =>
    refine ⟨⟨List.Pairwise.nil, ?_, ?_⟩, ?_⟩ <;> (intro c hc; cases hc)
  | cons l ls ih =>
    obtain ⟨hg, hge⟩ := ih (i + 1) (fun l' hl' => hs l' (List.mem_cons_of_mem _ hl'))
    refine ⟨⟨?_, ?_, ?_⟩, ?_⟩
    · simp only [initFrom]
      refine List.pairwise_cons.mpr ⟨?_, hg.distinct⟩
      intro c hc
      rw [start_li]
      have := hge c hc
      omega
    · intro c hc
      simp only [initFrom] at hc
      rcases List.mem_cons.mp hc with rfl | hc
      · rw [start_all]; exact hs l (by simp)
      · exact hg.sorted c hc
    · intro c hc hn
      simp only [initFrom] at hc
      rcases List.mem_cons.mp hc with rfl | hc
      · exact start_drained _ _ hn
      · exact hg.drained c hc hn
    · intro c hc
      simp only [initFrom] at hc
      rcases List.mem_cons.mp hc with rfl | hc
      · rw [start_li]; exact Nat.le_refl _
      · have := hge c hc; omega

theorem pending_initFrom (i : Nat) (lists : List (List E)) (p : E × Nat) :
    Pending (initFrom i lists) p ↔ p ∈ tagged i lists := by
  induction lists generalizing i with
  | nil =>
    constructor
    · rintro ⟨c, hc, _⟩; cases hc
    · intro h; cases h
  | cons l ls ih =>
    simp only [tagged, List.mem_append]
    rw [← ih (i + 1)]
    constructor
    · rintro ⟨c, hc, hli, hx⟩
      simp only [initFrom] at hc
      rcases List.mem_cons.mp hc with rfl | hc
      · left
        rw [start_all] at hx; rw [start_li] at hli
        exact List.mem_map.mpr ⟨p.1, hx, Prod.ext rfl hli.symm⟩
      · exact Or.inr ⟨c, hc, hli, hx⟩
    · rintro (h | ⟨c, hc, hli, hx⟩)
      · obtain ⟨x, hx, rfl⟩ := List.mem_map.mp h
        exact ⟨start i l, by simp [initFrom], by rw [start_li], by rw [start_all]; exact hx⟩
      · exact ⟨c, by simp only [initFrom]; exact List.mem_cons_of_mem _ hc, hli, hx⟩

/-- **`kway.MergeVersions` meets its specification**: for strictly sorted input lists, whatever
    minimum every `heap.Pop` returns, the sorted values of the map `latest` (`latest[key]` = the
    entry of the last popped element with that key) are `mergeVersions lists` -/
theorem run_eq_spec (lists : List (List E)) (hs : ∀ l ∈ lists, SortedE vlt l)
    {out : List (E × Nat)} (hr : Run (initFrom 0 lists) out)
    (merged : List E) (hsorted : SortedE vlt merged)
    (hmem : ∀ x, x ∈ merged ↔ ∃ li, LastT out (x, li)) :
    merged = mergeVersions lists := by
  apply sorted_ext merged (mergeVersions lists) hsorted (mergeVersions_sorted lists)
  intro x
  obtain ⟨hg, _⟩ := good_initFrom 0 lists hs
  obtain ⟨hso, hmo⟩ := run_sorted hr hg
  rw [hmem, mem_mergeVersions, ← tagged_fst 0 lists, lastIn_map_fst]
  have hsame : ∀ p, p ∈ out ↔ p ∈ tagged 0 lists := fun p => by rw [hmo, pending_initFrom]
  constructor
  · rintro ⟨li, h⟩
    refine ⟨li, (lastT_iff_top (mono_tagged 0 lists hs) _).mpr ?_⟩
    obtain ⟨h1, h2⟩ := (lastT_iff_top (mono_of_sorted hso) _).mp h
    exact ⟨(hsame _).mp h1, fun q hq => h2 q ((hsame q).mpr hq)⟩
  · rintro ⟨li, h⟩
    refine ⟨li, (lastT_iff_top (mono_of_sorted hso) _).mpr ?_⟩
    obtain ⟨h1, h2⟩ := (lastT_iff_top (mono_tagged 0 lists hs) _).mp h
    exact ⟨(hsame _).mpr h1, fun q hq => h2 q ((hsame q).mp hq)⟩

/-! ### the loop terminates: a run exists from every good state (so `run_eq_spec` is not vacuous) -/

def size (cs : List Cur) : Nat := (cs.map fun c => c.all.length).sum

theorem less_irrefl_total (a b : E × Nat) (h1 : less a b = false) (h2 : less b a = false) : a.1.key = b.1.key ∧ a.2 = b.2 := by
  simp only [less, Bool.or_eq_false_iff, Bool.and_eq_false_iff, beq_eq_false_iff_ne, ne_eq,
    decide_eq_false_iff_not, Nat.not_lt] at h1 h2
  have hk : a.1.key = b.1.key := vlt_total _ _ h1.1 h2.1
  refine ⟨hk, ?_⟩
  rcases h1.2 with h | h
  · exact absurd hk h
  · rcases h2.2 with h' | h'
    · exact absurd hk.symm h'
    · omega

theorem less_trans (a b c : E × Nat) (h1 : less a b = true) (h2 : less b c = true) : less a c = true := by
  simp only [less, Bool.or_eq_true, Bool.and_eq_true, beq_iff_eq, decide_eq_true_eq] at *
  rcases h1 with h1 | ⟨e1, l1⟩ <;> rcases h2 with h2 | ⟨e2, l2⟩
  · exact Or.inl (vlt_trans _ _ _ h1 h2)
  · exact Or.inl (e2 ▸ h1)
  · exact Or.inl (e1 ▸ h2)
  · exact Or.inr ⟨e1.trans e2, by omega⟩

/-- a non-empty heap has a minimum -/
theorem exists_min (cs : List Cur) (h : ∃ c ∈ cs, c.cur.isSome = true) :
    ∃ c e, c ∈ cs ∧ c.cur = some e ∧ ∀ c' ∈ cs, ∀ e', c'.cur = some e' → less (e', c'.li) (e, c.li) = false := by
  induction cs with
  | nil => obtain ⟨c, hc, _⟩ := h; cases hc
  | cons x xs ih =>
    by_cases hxs : ∃ c ∈ xs, c.cur.isSome = true
    · obtain ⟨c, e, hc, hcur, hmin⟩ := ih hxs
      cases hx : x.cur with
      | none =>
        refine ⟨c, e, List.mem_cons_of_mem _ hc, hcur, ?_⟩
        intro c' hc' e' he'
        rcases List.mem_cons.mp hc' with rfl | hc'
        · rw [hx] at he'; cases he'
        · exact hmin c' hc' e' he'
      | some ex =>
        cases hl : less (ex, x.li) (e, c.li) with
        | false =>
          refine ⟨c, e, List.mem_cons_of_mem _ hc, hcur, ?_⟩
          intro c' hc' e' he'
          rcases List.mem_cons.mp hc' with rfl | hc'
          · rw [hx] at he'; cases he'; exact hl
          · exact hmin c' hc' e' he'
        | true =>
          refine ⟨x, ex, by simp, hx, ?_⟩
          intro c' hc' e' he'
          rcases List.mem_cons.mp hc' with rfl | hc'
          · rw [hx] at he'; cases he'
            simp [less, vlt_irrefl]
          · cases hl' : less (e', c'.li) (ex, x.li) with
            | false => rfl
            | true =>
              have := less_trans _ _ _ hl' hl
              rw [hmin c' hc' e' he'] at this; cases this
    · obtain ⟨c, hc, hsome⟩ := h
      rcases List.mem_cons.mp hc with rfl | hc
      · cases hx : c.cur with
        | none => rw [hx] at hsome; cases hsome
        | some ex =>
          refine ⟨c, ex, by simp, hx, ?_⟩
          intro c' hc' e' he'
          rcases List.mem_cons.mp hc' with rfl | hc'
          · rw [hx] at he'; cases he'; simp [less, vlt_irrefl]
          · exact absurd ⟨c', hc', by rw [he']; rfl⟩ hxs
      · exact absurd ⟨c, hc, hsome⟩ hxs

theorem size_popAt {cs : List Cur} (hg : Good cs) {c : Cur} {e : E} (hc : c ∈ cs) (hcur : c.cur = some e) :
    size (popAt cs c.li) + 1 = size cs := by
  have hd := hg.distinct
  clear hg
  induction cs with
  | nil => cases hc
  | cons x xs ih =>
    obtain ⟨hx, hxs⟩ := List.pairwise_cons.mp hd
    simp only [size, popAt, List.map_cons, List.sum_cons] at ih ⊢
    rcases List.mem_cons.mp hc with rfl | hc'
    · have hrest : (List.map (fun c' => if c'.li = c.li then c'.adv else c') xs) = xs := by
        rw [List.map_congr_left (g := id)]
        · simp
        · intro c' hc'
          have := hx c' hc'
          simp [Ne.symm this]
      rw [hrest]
      simp only [↓reduceIte, adv_all, all_of_some hcur, List.length_cons]
      omega
    · have hne : x.li ≠ c.li := hx c hc'
      simp only [hne, ↓reduceIte]
      have := ih hc' hxs
      omega

theorem run_exists : ∀ (n : Nat) (cs : List Cur), size cs = n → Good cs → ∃ out, Run cs out := by
  intro n
  induction n using Nat.strongRecOn with
  | _ n ih =>
    intro cs hn hg
    by_cases h : ∃ c ∈ cs, c.cur.isSome = true
    · obtain ⟨c, e, hc, hcur, hmin⟩ := exists_min cs h
      have hsz := size_popAt hg hc hcur
      obtain ⟨out, hr⟩ := ih (size (popAt cs c.li)) (by omega) (popAt cs c.li) rfl (good_popAt hg c.li)
      exact ⟨(e, c.li) :: out, Run.pop ⟨hc, hcur, hmin⟩ hr⟩
    · refine ⟨[], Run.done ?_⟩
      intro c hc
      cases hcc : c.cur with
      | none => rfl
      | some e => exact absurd ⟨c, hc, by rw [hcc]; rfl⟩ h

/-- the specification on a concrete input: the later list wins, the result is sorted -/
example :
    let a1 : E := ⟨⟨[97], 1⟩, [1], false, 1⟩
    let a1' : E := ⟨⟨[97], 1⟩, [9], false, 1⟩
    let b2 : E := ⟨⟨[98], 2⟩, [2], false, 2⟩
    mergeVersions [[a1, b2], [a1']] = [a1', b2] := by decide

#print axioms run_eq_spec
#print axioms run_exists
end Kway
