import Originium.Generated.Consts
/-! What the Lean model assumes about constants and literal layout facts of the Go sources.
    `Generated/Consts.lean` is rewritten from /repo on every check run; if the source changes one of
    these facts this file stops compiling and every property that imports it is no longer proved. -/
namespace ConstsTie
open Consts

/-- the footer is five 8 byte little endian fields = the 40 bytes recovery seeks back and reads -/
theorem footer_len : footerFieldsWritten * 8 = 40 ∧ footerSeekBack = 40 ∧ footerReadLen = 40 ∧
    footerByteOrder = "LittleEndian" := by decide

/-- data block entry: lcp:u16, suffixLen:u16, valueLen:u16, tombstone:u8, version:u64 -/
theorem data_widths : dataFieldWidths = [2, 2, 2, 1, 8] := by decide

/-- index block entry: startKeyLen:u16, endKeyLen:u16 (offsets and lengths are written as uint64 fields) -/
theorem index_widths : indexFieldWidths = [2, 2] := by decide

/-- wal record: 8 byte length prefix -/
theorem wal_prefix : walLenPrefixBytes = 8 := by decide

/-- the magic number fits the 8 byte field -/
theorem magic_fits : magic_found = true ∧ magic < 2 ^ 64 := by decide

/-- the size limits enforced by Txn.Set/Delete keep every stored key (`key@ts`, ts < 2^64 has at most
    20 digits) and every value inside the 16 bit length fields -/
theorem size_limits : maxKeySize_found = true ∧ maxValueSize_found = true ∧
    maxKeySize + 1 + 20 ≤ 65535 ∧ maxValueSize ≤ 65535 := by decide

/-- file naming the crash model relies on: tables `L-I.db`, written as `L-I.db.tmp` first; wal files `wal-<version>.log` -/
theorem file_names : tmpSuffix = ".tmp" ∧ tableNameFormat = ["%d-%d.db"] ∧ walNameFormat.contains "wal-%s.log" = true := by decide

theorem mark_buffer : markCBufferSize_found = true ∧ 0 < markCBufferSize := by decide

theorem db_states : dbStates = ["_", "StateInitialize", "StateOpened", "StateClosed"] := by decide

end ConstsTie
