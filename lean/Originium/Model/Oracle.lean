/-! Feasibility probe: oracle / conflict detection (C07) and the stability lemma behind C06.
    Abstract store: a commit is applied atomically; partial application is the DB model's business. -/
namespace Oracle

abbrev Key := List UInt8
abbrev Val := Option (List UInt8)          -- none = tombstone

structure Commit where
  ts : Nat
  writes : List (Key × Val)
deriving Repr

structure Txn where
  readTs : Nat
  update : Bool
  reads : List Key                 -- keys read from the store (recorded only for update txns)
  writes : List (Key × Val)        -- pending writes, newest first
  doneRead : Bool                  -- readMark.Done issued
  finished : Bool
deriving Repr

structure St where
  nextTs : Nat
  recent : List Commit             -- oracle.committedTxns
  all : List Commit                -- ghost: every commit so far
  readMark : Nat                   -- readMark.DoneUntil as seen by the oracle
  txns : List Txn                  -- indexed by position
deriving Repr

def wkeys (c : Commit) : List Key := c.writes.map (·.1)

/-- oracle.hasConflict (exact keys, i.e. after F14; with a hash `fp` apply it on both sides) -/
def hasConflict (recent : List Commit) (t : Txn) : Bool :=
  recent.any fun c => decide (t.readTs < c.ts) && t.reads.any fun k => (wkeys c).contains k

/-- cleanUpCommittedTxns with the current watermark -/
def cleanup (recent : List Commit) (mark : Nat) : List Commit := recent.filter fun c => decide (mark < c.ts)

inductive Step where
  | begin (update : Bool)
  | get (i : Nat) (k : Key)
  | set (i : Nat) (k : Key) (v : Val)
  | commit (i : Nat)
  | discard (i : Nat)
  | mark (v : Nat)                 -- the watermark consumer publishes a new DoneUntil

def openReadTs (s : St) : List Nat := (s.txns.filter fun t => !t.doneRead).map (·.readTs)

def modifyNth (l : List Txn) (i : Nat) (f : Txn → Txn) : List Txn := l.modify i f

/-- one atomic step; `none` = not enabled -/
def step (s : St) : Step → Option St
  | .begin u => some { s with txns := s.txns ++ [{ readTs := s.nextTs - 1, update := u, reads := [], writes := [], doneRead := false, finished := false }] }
  | .get i k =>
    match s.txns[i]? with
    | some t =>
      if t.finished then none
      else if t.update && !(t.writes.map (·.1)).contains k then
        some { s with txns := modifyNth s.txns i fun t => { t with reads := k :: t.reads } }
      else some s
    | none => none
  | .set i k v =>
    match s.txns[i]? with
    | some t => if t.finished || !t.update then none
                else some { s with txns := modifyNth s.txns i fun t => { t with writes := (k, v) :: t.writes } }
    | none => none
  | .commit i =>
    match s.txns[i]? with
    | some t =>
      if t.finished then none
      else if t.writes.isEmpty then
        some { s with txns := modifyNth s.txns i fun t => { t with doneRead := true, finished := true } }
      else if hasConflict s.recent t then
        some { s with txns := modifyNth s.txns i fun t => { t with doneRead := true, finished := true } }
      else
        let c : Commit := { ts := s.nextTs, writes := t.writes }
        some { s with
          nextTs := s.nextTs + 1
          recent := cleanup s.recent s.readMark ++ [c]
          all := s.all ++ [c]
          txns := modifyNth s.txns i fun t => { t with doneRead := true, finished := true } }
    | none => none
  | .discard i =>
    match s.txns[i]? with
    | some _ => some { s with txns := modifyNth s.txns i fun t => { t with doneRead := true, finished := true } }
    | none => none
  | .mark v =>
    if s.readMark ≤ v ∧ v < s.nextTs ∧ (∀ r ∈ openReadTs s, v ≤ r) then some { s with readMark := v } else none

def init : St := { nextTs := 1, recent := [], all := [], readMark := 0, txns := [] }

/-- reachable states -/
inductive Reach : St → Prop where
  | init : Reach init
  | step {s s' : St} (st : Step) : Reach s → step s st = some s' → Reach s'

/-- invariant: everything committed above the watermark is still in `recent`;
    the watermark is below nextTs and at or below every open reader; open readers are below nextTs -/
structure Inv (s : St) : Prop where
  recent_complete : ∀ c ∈ s.all, s.readMark < c.ts → c ∈ s.recent
  recent_sub : ∀ c ∈ s.recent, c ∈ s.all
  mark_lt : s.readMark < s.nextTs
  mark_le_open : ∀ t ∈ s.txns, t.doneRead = false → s.readMark ≤ t.readTs
  readTs_lt : ∀ t ∈ s.txns, t.readTs < s.nextTs
  all_lt : ∀ c ∈ s.all, c.ts < s.nextTs


theorem mem_modify {l : List Txn} {i : Nat} {f : Txn → Txn} {x : Txn} (h : x ∈ l.modify i f) :
    x ∈ l ∨ ∃ t ∈ l, x = f t := by
  obtain ⟨j, hj⟩ := List.mem_iff_getElem?.mp h
  rw [List.getElem?_modify] at hj
  cases hl : l[j]? with
  | none => simp [hl] at hj
  | some a =>
    simp only [hl, Option.map_eq_map, Option.map_some, Option.some.injEq] at hj
    have ha : a ∈ l := List.mem_of_getElem? hl
    split at hj
    · right; exact ⟨a, ha, hj.symm⟩
    · left; rw [← hj]; exact ha

/-- generic: a step that only rewrites one transaction with `f`, where `f` keeps readTs and can only
    set doneRead, preserves the invariant -/
theorem inv_modify {s : St} (h : Inv s) (i : Nat) (f : Txn → Txn)
    (hr : ∀ t, (f t).readTs = t.readTs) (hd : ∀ t, (f t).doneRead = false → t.doneRead = false) :
    Inv { s with txns := modifyNth s.txns i f } := by
  refine ⟨h.recent_complete, h.recent_sub, h.mark_lt, ?_, ?_, h.all_lt⟩
  · intro t ht hdr
    rcases mem_modify ht with h' | ⟨t0, ht0, rfl⟩
    · exact h.mark_le_open t h' hdr
    · rw [hr]; exact h.mark_le_open t0 ht0 (hd t0 hdr)
  · intro t ht
    rcases mem_modify ht with h' | ⟨t0, ht0, rfl⟩
    · exact h.readTs_lt t h'
    · rw [hr]; exact h.readTs_lt t0 ht0

theorem inv_init : Inv init := by
  refine ⟨?_, ?_, ?_, ?_, ?_, ?_⟩ <;> simp [init]

theorem inv_step {s s' : St} (st : Step) (h : Inv s) (hs : step s st = some s') : Inv s' := by
  cases st with
  | begin u =>
    simp only [step, Option.some.injEq] at hs; subst hs
    refine ⟨h.recent_complete, h.recent_sub, h.mark_lt, ?_, ?_, h.all_lt⟩
    · intro t ht hdr
      simp only [List.mem_append, List.mem_singleton] at ht
      rcases ht with ht | rfl
      · exact h.mark_le_open t ht hdr
      · have := h.mark_lt; simp; omega
    · intro t ht
      simp only [List.mem_append, List.mem_singleton] at ht
      rcases ht with ht | rfl
      · exact h.readTs_lt t ht
      · have := h.mark_lt; simp; omega
  | get i k =>
    simp only [step] at hs
    split at hs
    · split at hs
      · cases hs
      · split at hs
        · simp only [Option.some.injEq] at hs; subst hs
          exact inv_modify h i _ (fun _ => rfl) (fun _ hd => hd)
        · simp only [Option.some.injEq] at hs; subst hs; exact h
    · cases hs
  | set i k v =>
    simp only [step] at hs
    split at hs
    · split at hs
      · cases hs
      · simp only [Option.some.injEq] at hs; subst hs
        exact inv_modify h i _ (fun _ => rfl) (fun _ hd => hd)
    · cases hs
  | discard i =>
    simp only [step] at hs
    split at hs
    · simp only [Option.some.injEq] at hs; subst hs
      exact inv_modify h i _ (fun _ => rfl) (fun _ hd => by simp at hd)
    · cases hs
  | mark v =>
    simp only [step] at hs
    split at hs
    · rename_i hg
      simp only [Option.some.injEq] at hs; subst hs
      obtain ⟨h1, h2, h3⟩ := hg
      refine ⟨?_, h.recent_sub, h2, ?_, h.readTs_lt, h.all_lt⟩
      · intro c hc hlt; exact h.recent_complete c hc (by simp at hlt ⊢; omega)
      · intro t ht hdr
        apply h3
        simp only [openReadTs, List.mem_map, List.mem_filter]
        exact ⟨t, ⟨ht, by simp [hdr]⟩, rfl⟩
    · cases hs
  | commit i =>
    simp only [step] at hs
    split at hs
    · rename_i t hti
      split at hs
      · cases hs
      · split at hs
        · simp only [Option.some.injEq] at hs; subst hs
          exact inv_modify h i _ (fun _ => rfl) (fun _ hd => by simp at hd)
        · split at hs
          · simp only [Option.some.injEq] at hs; subst hs
            exact inv_modify h i _ (fun _ => rfl) (fun _ hd => by simp at hd)
          · simp only [Option.some.injEq] at hs; subst hs
            have hbase : Inv ({ s with nextTs := s.nextTs + 1, recent := cleanup s.recent s.readMark ++ [{ ts := s.nextTs, writes := t.writes }], all := s.all ++ [{ ts := s.nextTs, writes := t.writes }] } : St) := by
              refine ⟨?_, ?_, ?_, h.mark_le_open, ?_, ?_⟩
              · intro c hc hlt
                simp only [List.mem_append, List.mem_singleton] at hc ⊢
                rcases hc with hc | hc
                · left
                  exact List.mem_filter.mpr ⟨h.recent_complete c hc hlt, by simpa using hlt⟩
                · right; exact hc
              · intro c hc
                simp only [List.mem_append, List.mem_singleton] at hc ⊢
                rcases hc with hc | hc
                · left; exact h.recent_sub c (List.mem_filter.mp hc).1
                · right; exact hc
              · have := h.mark_lt; simp; omega
              · intro t' ht'; have := h.readTs_lt t' ht'; simp; omega
              · intro c hc
                simp only [List.mem_append, List.mem_singleton] at hc
                rcases hc with hc | rfl
                · have := h.all_lt c hc; simp; omega
                · simp
            exact inv_modify hbase i _ (fun _ => rfl) (fun _ hd => by simp at hd)
    · cases hs

theorem inv_reach {s : St} (h : Reach s) : Inv s := by
  induction h with
  | init => exact inv_init
  | step st _ hs ih => exact inv_step st ih hs

/-- C07, both directions, for an open transaction in any reachable state:
    the check fires iff some key it read was written by a commit above its snapshot -/
theorem conflict_iff {s : St} (hr : Reach s) {t : Txn} (ht : t ∈ s.txns) (hopen : t.doneRead = false) :
    hasConflict s.recent t = true ↔
      ∃ c ∈ s.all, t.readTs < c.ts ∧ ∃ k ∈ t.reads, k ∈ wkeys c := by
  have h := inv_reach hr
  unfold hasConflict
  simp only [List.any_eq_true, Bool.and_eq_true, decide_eq_true_eq, List.contains_iff_mem]
  constructor
  · rintro ⟨c, hc, hlt, k, hk, hkc⟩
    exact ⟨c, h.recent_sub c hc, hlt, k, hk, hkc⟩
  · rintro ⟨c, hc, hlt, k, hk, hkc⟩
    have : s.readMark < c.ts := by have := h.mark_le_open t ht hopen; omega
    exact ⟨c, h.recent_complete c hc this, hlt, k, hk, hkc⟩

#print axioms conflict_iff
end Oracle
