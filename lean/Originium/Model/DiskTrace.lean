import Originium.Model.DiskProofs
/-! Traces of file-system events with ghost information (which batch a wal append carries, which
    commits are acknowledged, which watermark a compaction used), the executable acceptance check
    `accept`, and the invariants an accepted trace maintains after every single event. -/
namespace Disk
open Key VKey Table Levels LSM

def surviving (d : D) : List E := allRecs d ++ tableEnts d

/-- well-formedness of the contents: published tables are sorted, equal versioned keys mean equal entries -/
structure WF (d : D) : Prop where
  tables_sorted : ∀ p ∈ d.tables, SortedE vlt p.2
  consistent : Consistent (surviving d)

inductive Ev where
  | commit (id : Nat) (b : List E)     -- Commit: one wal write carrying the whole batch of a transaction
  | ack (b : List E)                   -- Commit returned nil
  | raise (low : Nat)                  -- a compaction is about to discard with this watermark
  | op (o : Op)                        -- any other file-system operation (incl. wal appends of recovery's replay)
deriving Repr

structure TSt where
  d : D
  acked : List E
  low : Nat
  batches : List (List E)              -- ghost: every commit batch written so far
deriving Repr

def TSt.init : TSt := { d := empty, acked := [], low := 0, batches := [] }

/-- extra conditions of a fresh commit batch: new versioned keys, newer than everything stored -/
def FreshBatch (d : D) (b : List E) : Prop :=
  (∀ e ∈ b, ∀ x ∈ surviving d, x.key.ts < e.key.ts) ∧ (b.map (·.key)).Nodup

instance (d : D) (b : List E) : Decidable (FreshBatch d b) := by unfold FreshBatch; infer_instance

/-- content rules that keep the disk well formed -/
def GuardWF (d : D) : Op → Prop
  | .walAppend _ b => ∀ e ∈ b, e ∈ surviving d          -- (non-commit appends are replays of existing records)
  | .publish n =>
      match d.tmps.find? (·.name = n) with
      | some t => SortedE vlt t.ents
      | none => False
  | _ => True

instance (d : D) (op : Op) : Decidable (GuardWF d op) := by
  cases op <;> simp only [GuardWF] <;> try infer_instance
  · unfold SortedE; split <;> infer_instance

/-- executable acceptance check of one event; `none` = the trace violates a rule -/
def accept (s : TSt) : Ev → Option TSt
  | .commit id b =>
    if Guard s.d s.low (.walAppend id b) ∧ FreshBatch s.d b ∧ (∃ w ∈ s.d.wals, w.id = id) then
      some { s with d := apply s.d (.walAppend id b), batches := b :: s.batches }
    else none
  | .ack b => if (∀ e ∈ b, e ∈ syncedRecs s.d ∨ e ∈ tableEnts s.d) then some { s with acked := s.acked ++ b } else none
  | .raise low => if s.low ≤ low then some { s with low := low } else none
  | .op o => if Guard s.d s.low o ∧ GuardWF s.d o then some { s with d := apply s.d o } else none

def acceptAll (evs : List Ev) : Option TSt := evs.foldlM accept TSt.init

/-- an entry once written stays reachable or shadowed (process-crash model: nothing is cut) -/
def Kept (d : D) (low : Nat) (e : E) : Prop := e ∈ allRecs d ∨ e ∈ tableEnts d ∨ Shadowed d low e

structure TInv (s : TSt) : Prop where
  inv : Inv s.d s.acked s.low
  wf : WF s.d
  kept : ∀ b ∈ s.batches, ∀ e ∈ b, Kept s.d s.low e
  begun : ∀ e ∈ surviving s.d, ∃ b ∈ s.batches, e ∈ b

theorem surviving_mem {d : D} {e : E} : e ∈ surviving d ↔ e ∈ allRecs d ∨ e ∈ tableEnts d := by
  simp [surviving]

theorem tinv_init : TInv TSt.init := by
  refine ⟨inv_empty 0, ⟨by simp [TSt.init, empty], by simp [TSt.init, empty, surviving, allRecs, tableEnts, Consistent]⟩,
    by simp [TSt.init], ?_⟩
  intro e he; simp [TSt.init, empty, surviving, allRecs, tableEnts] at he

end Disk

namespace Disk
open Key VKey Table Levels LSM

theorem consistent_of_sub {xs ys : List E} (h : ∀ x ∈ xs, x ∈ ys) (hc : Consistent ys) : Consistent xs :=
  fun a ha b hb hab => hc a (h a ha) b (h b hb) hab

theorem wals_eq_allRecs {d d' : D} (h : d'.wals = d.wals) : allRecs d' = allRecs d := by simp [allRecs, h]
theorem tables_eq_tableEnts {d d' : D} (h : d'.tables = d.tables) : tableEnts d' = tableEnts d := by simp [tableEnts, h]

/-- records only disappear through `walRemove` -/
theorem allRecs_mono (d : D) (o : Op) (hno : ∀ id, o ≠ .walRemove id) {e : E} (he : e ∈ allRecs d) :
    e ∈ allRecs (apply d o) := by
  cases o with
  | walRemove id => exact absurd rfl (hno id)
  | walCreate id => simp only [allRecs, apply, List.flatMap_append, List.mem_append]; exact Or.inl he
  | walAppend id b =>
    obtain ⟨w, hw, hew⟩ := mem_allRecs.mp he
    simp only [mem_allRecs, apply, List.mem_map]
    by_cases hid : w.id = id
    · exact ⟨_, ⟨w, hw, rfl⟩, by simp [hid, hew]⟩
    · exact ⟨_, ⟨w, hw, rfl⟩, by simp [hid, hew]⟩
  | walSync id =>
    obtain ⟨w, hw, hew⟩ := mem_allRecs.mp he
    simp only [mem_allRecs, apply, List.mem_map]
    refine ⟨_, ⟨w, hw, rfl⟩, ?_⟩
    split <;> exact hew
  | tmpCreate n => exact he
  | tmpWrite n es => exact he
  | tmpSync n => exact he
  | publish n =>
    simp only [apply]
    split <;> exact he
  | tmpRemove n => exact he
  | tableRemove n => exact he

/-- table entries only disappear through `tableRemove` -/
theorem tableEnts_mono (d : D) (o : Op) (hno : ∀ n, o ≠ .tableRemove n) {e : E} (he : e ∈ tableEnts d) :
    e ∈ tableEnts (apply d o) := by
  cases o with
  | tableRemove n => exact absurd rfl (hno n)
  | publish n =>
    simp only [apply]
    split
    · simp only [tableEnts, List.flatMap_append, List.mem_append]; exact Or.inl he
    · exact he
  | walCreate id => exact he
  | walAppend id b => exact he
  | walSync id => exact he
  | tmpCreate n => exact he
  | tmpWrite n es => exact he
  | tmpSync n => exact he
  | tmpRemove n => exact he
  | walRemove id => exact he

/-- nothing appears on the disk except what a wal append carries -/
theorem surviving_apply_sub (d : D) (low : Nat) (o : Op) (g : Guard d low o) {e : E} (he : e ∈ surviving (apply d o)) :
    e ∈ surviving d ∨ ∃ id b, o = .walAppend id b ∧ e ∈ b := by
  rcases surviving_mem.mp he with he | he
  · -- a record
    cases o with
    | walAppend id b =>
      simp only [mem_allRecs, apply, List.mem_map] at he
      obtain ⟨w', ⟨w, hw, rfl⟩, he⟩ := he
      by_cases hid : w.id = id
      · simp only [hid, ↓reduceIte, List.mem_append] at he
        rcases he with he | he
        · exact Or.inl (surviving_mem.mpr (Or.inl (mem_allRecs.mpr ⟨w, hw, he⟩)))
        · exact Or.inr ⟨id, b, rfl, he⟩
      · simp only [hid, ↓reduceIte] at he
        exact Or.inl (surviving_mem.mpr (Or.inl (mem_allRecs.mpr ⟨w, hw, he⟩)))
    | walCreate id =>
      simp only [allRecs, apply, List.flatMap_append, List.mem_append, List.flatMap_cons, List.flatMap_nil,
        List.append_nil, List.not_mem_nil, or_false] at he
      exact Or.inl (surviving_mem.mpr (Or.inl he))
    | walSync id =>
      simp only [mem_allRecs, apply, List.mem_map] at he
      obtain ⟨w', ⟨w, hw, rfl⟩, he⟩ := he
      refine Or.inl (surviving_mem.mpr (Or.inl (mem_allRecs.mpr ⟨w, hw, ?_⟩)))
      split at he <;> exact he
    | walRemove id =>
      obtain ⟨w, hw, hew⟩ := mem_allRecs.mp he
      simp only [apply, List.mem_filter] at hw
      exact Or.inl (surviving_mem.mpr (Or.inl (mem_allRecs.mpr ⟨w, hw.1, hew⟩)))
    | tmpCreate n => exact Or.inl (surviving_mem.mpr (Or.inl he))
    | tmpWrite n es => exact Or.inl (surviving_mem.mpr (Or.inl he))
    | tmpSync n => exact Or.inl (surviving_mem.mpr (Or.inl he))
    | tmpRemove n => exact Or.inl (surviving_mem.mpr (Or.inl he))
    | tableRemove n => exact Or.inl (surviving_mem.mpr (Or.inl he))
    | publish n =>
      simp only [apply] at he
      split at he <;> exact Or.inl (surviving_mem.mpr (Or.inl he))
  · -- a table entry
    cases o with
    | publish n =>
      simp only [Guard] at g
      simp only [apply] at he
      split at he
      · rename_i t0 hf
        rw [hf] at g
        simp only [tableEnts, List.flatMap_append, List.mem_append, List.flatMap_cons, List.flatMap_nil, List.append_nil] at he
        rcases he with he | he
        · exact Or.inl (surviving_mem.mpr (Or.inr he))
        · rcases g.2.2 e he with h1 | h1
          · exact Or.inl (surviving_mem.mpr (Or.inl (synced_sub_all h1)))
          · exact Or.inl (surviving_mem.mpr (Or.inr h1))
      · exact Or.inl (surviving_mem.mpr (Or.inr he))
    | tableRemove n =>
      obtain ⟨p, hp, hep⟩ := mem_tableEnts.mp he
      simp only [apply, List.mem_filter] at hp
      exact Or.inl (surviving_mem.mpr (Or.inr (mem_tableEnts.mpr ⟨p, hp.1, hep⟩)))
    | walCreate id => exact Or.inl (surviving_mem.mpr (Or.inr he))
    | walAppend id b => exact Or.inl (surviving_mem.mpr (Or.inr he))
    | walSync id => exact Or.inl (surviving_mem.mpr (Or.inr he))
    | tmpCreate n => exact Or.inl (surviving_mem.mpr (Or.inr he))
    | tmpWrite n es => exact Or.inl (surviving_mem.mpr (Or.inr he))
    | tmpSync n => exact Or.inl (surviving_mem.mpr (Or.inr he))
    | tmpRemove n => exact Or.inl (surviving_mem.mpr (Or.inr he))
    | walRemove id => exact Or.inl (surviving_mem.mpr (Or.inr he))

theorem shadowed_mono {d d' : D} {low low' : Nat} {e : E} (h : Shadowed d low e) (hl : low ≤ low')
    (ht : ∀ x ∈ tableEnts d, x ∈ tableEnts d' ∨ Shadowed d' low' x) : Shadowed d' low' e := by
  obtain ⟨e', he', hu, hlt, hle⟩ := h
  rcases ht e' he' with h1 | ⟨e'', he'', hu2, hlt2, hle2⟩
  · exact ⟨e', h1, hu, hlt, by omega⟩
  · exact ⟨e'', he'', hu2.trans hu, by omega, hle2⟩

/-- what was written stays reachable or shadowed under every guarded operation -/
theorem kept_apply (d : D) (low : Nat) (o : Op) (g : Guard d low o) {e : E} (h : Kept d low e) : Kept (apply d o) low e := by
  -- table entries: kept by every op (tableRemove through its guard)
  have htab : ∀ x ∈ tableEnts d, x ∈ tableEnts (apply d o) ∨ Shadowed (apply d o) low x := by
    intro x hx
    by_cases hrm : ∃ n, o = .tableRemove n
    · obtain ⟨n, rfl⟩ := hrm
      obtain ⟨p, hp, hxp⟩ := mem_tableEnts.mp hx
      have ht' : ∀ q, q ∈ (apply d (.tableRemove n)).tables ↔ q ∈ d.tables ∧ q.1 ≠ n := by
        intro q; simp [apply, List.mem_filter]
      by_cases hpn : p.1 = n
      · rcases g p hp hpn x hxp with ⟨q, hq, hqn, heq⟩ | ⟨q, hq, hqn, e', he', hr⟩
        · exact Or.inl (mem_tableEnts.mpr ⟨q, (ht' q).mpr ⟨hq, hqn⟩, heq⟩)
        · exact Or.inr ⟨e', mem_tableEnts.mpr ⟨q, (ht' q).mpr ⟨hq, hqn⟩, he'⟩, hr⟩
      · exact Or.inl (mem_tableEnts.mpr ⟨p, (ht' p).mpr ⟨hp, hpn⟩, hxp⟩)
    · exact Or.inl (tableEnts_mono d o (fun n hn => hrm ⟨n, hn⟩) hx)
  rcases h with h | h | h
  · by_cases hrm : ∃ id, o = .walRemove id
    · obtain ⟨id, rfl⟩ := hrm
      obtain ⟨w, hw, hew⟩ := mem_allRecs.mp h
      by_cases hid : w.id = id
      · rcases g w hw hid e hew with ⟨w2, hw2, hne, he2⟩ | hr
        · left
          refine mem_allRecs.mpr ⟨w2, ?_, List.mem_of_mem_take he2⟩
          simp [apply, List.mem_filter, hw2, hne]
        · exact Or.inr (Or.inl hr.1)
      · left
        refine mem_allRecs.mpr ⟨w, ?_, hew⟩
        simp [apply, List.mem_filter, hw, hid]
    · exact Or.inl (allRecs_mono d o (fun id hh => hrm ⟨id, hh⟩) h)
  · rcases htab e h with h1 | h1
    · exact Or.inr (Or.inl h1)
    · exact Or.inr (Or.inr h1)
  · exact Or.inr (Or.inr (shadowed_mono h (Nat.le_refl _) htab))

theorem kept_low {d : D} {low low' : Nat} {e : E} (h : Kept d low e) (hl : low ≤ low') : Kept d low' e := by
  rcases h with h | h | h
  · exact Or.inl h
  · exact Or.inr (Or.inl h)
  · exact Or.inr (Or.inr (shadowed_mono h hl (fun x hx => Or.inl hx)))

theorem tinv_accept {s s' : TSt} (h : TInv s) (ev : Ev) (hs : accept s ev = some s') : TInv s' := by
  cases ev with
  | ack b =>
    simp only [accept] at hs
    split at hs
    · rename_i hg
      simp only [Option.some.injEq] at hs; subst hs
      exact ⟨inv_ack h.inv b hg, h.wf, h.kept, h.begun⟩
    · cases hs
  | raise low =>
    simp only [accept] at hs
    split at hs
    · rename_i hl
      simp only [Option.some.injEq] at hs; subst hs
      exact ⟨inv_low h.inv low hl, h.wf, fun b hb e he => kept_low (h.kept b hb e he) hl, h.begun⟩
    · cases hs
  | commit id b =>
    simp only [accept] at hs
    split at hs
    · rename_i hg
      obtain ⟨g, ⟨hfresh, hnodup⟩, w0, hw0, hid0⟩ := hg
      simp only [Option.some.injEq] at hs; subst hs
      have hsub : ∀ e ∈ surviving (apply s.d (.walAppend id b)), e ∈ surviving s.d ∨ e ∈ b := by
        intro e he
        rcases surviving_apply_sub s.d s.low _ g he with h1 | ⟨_, _, heq, hb⟩
        · exact Or.inl h1
        · injection heq with _ h2; rw [h2]; exact Or.inr hb
      have hbin : ∀ e ∈ b, e ∈ allRecs (apply s.d (.walAppend id b)) := by
        intro e he
        simp only [mem_allRecs, apply, List.mem_map]
        exact ⟨_, ⟨w0, hw0, rfl⟩, by simp [hid0, he]⟩
      refine ⟨inv_apply h.inv _ g, ⟨h.wf.tables_sorted, ?_⟩, ?_, ?_⟩
      · intro a ha c hc hac
        rcases hsub a ha with ha' | ha' <;> rcases hsub c hc with hc' | hc'
        · exact h.wf.consistent a ha' c hc' hac
        · have := hfresh c hc' a ha'; rw [hac] at this; omega
        · have := hfresh a ha' c hc'; rw [hac] at this; omega
        · exact DB.nodup_map_inj (·.key) b hnodup a ha' c hc' hac
      · intro b' hb' e he
        rcases List.mem_cons.mp hb' with rfl | hb'
        · exact Or.inl (hbin e he)
        · exact kept_apply s.d s.low _ g (h.kept b' hb' e he)
      · intro e he
        rcases hsub e he with h1 | h1
        · obtain ⟨b', hb', heb'⟩ := h.begun e h1
          exact ⟨b', List.mem_cons_of_mem _ hb', heb'⟩
        · exact ⟨b, by simp, h1⟩
    · cases hs
  | op o =>
    simp only [accept] at hs
    split at hs
    · rename_i hg
      obtain ⟨g, gwf⟩ := hg
      simp only [Option.some.injEq] at hs; subst hs
      have hsub : ∀ e ∈ surviving (apply s.d o), e ∈ surviving s.d := by
        intro e he
        rcases surviving_apply_sub s.d s.low o g he with h1 | ⟨id, b, heq, hb⟩
        · exact h1
        · subst heq; exact gwf e hb
      refine ⟨inv_apply h.inv o g, ⟨?_, consistent_of_sub hsub h.wf.consistent⟩,
        fun b hb e he => kept_apply s.d s.low o g (h.kept b hb e he), fun e he => h.begun e (hsub e he)⟩
      intro p hp
      cases o with
      | publish n =>
        simp only [GuardWF] at gwf
        simp only [apply] at hp
        split at hp
        · rename_i t0 hf
          rw [hf] at gwf
          simp only [List.mem_append, List.mem_singleton] at hp
          rcases hp with hp | rfl
          · exact h.wf.tables_sorted p hp
          · exact gwf
        · exact h.wf.tables_sorted p hp
      | tableRemove n =>
        simp only [apply, List.mem_filter] at hp
        exact h.wf.tables_sorted p hp.1
      | walCreate id => exact h.wf.tables_sorted p hp
      | walAppend id b => exact h.wf.tables_sorted p hp
      | walSync id => exact h.wf.tables_sorted p hp
      | tmpCreate n => exact h.wf.tables_sorted p hp
      | tmpWrite n es => exact h.wf.tables_sorted p hp
      | tmpSync n => exact h.wf.tables_sorted p hp
      | tmpRemove n => exact h.wf.tables_sorted p hp
      | walRemove id => exact h.wf.tables_sorted p hp
    · cases hs

theorem tinv_foldlM (evs : List Ev) (s0 s : TSt) (h0 : TInv s0) (h : evs.foldlM accept s0 = some s) : TInv s := by
  induction evs generalizing s0 with
  | nil => simp at h; rw [← h]; exact h0
  | cons ev rest ih =>
    simp only [List.foldlM_cons, Option.bind_eq_bind] at h
    cases h1 : accept s0 ev with
    | none => rw [h1] at h; simp at h
    | some s1 => rw [h1] at h; exact ih s1 (tinv_accept h0 ev h1) h

/-- an accepted trace maintains the invariants — after every event, hence at every crash point -/
theorem tinv_acceptAll {evs : List Ev} {s : TSt} (h : acceptAll evs = some s) : TInv s :=
  tinv_foldlM evs TSt.init s tinv_init h

/-- every prefix of an accepted trace is accepted: a crash point is just a shorter trace -/
theorem acceptAll_prefix (evs : List Ev) (n : Nat) {s : TSt} (h : acceptAll evs = some s) :
    ∃ s', acceptAll (evs.take n) = some s' := by
  unfold acceptAll at *
  suffices key : ∀ (evs : List Ev) (n : Nat) (s0 s : TSt), evs.foldlM accept s0 = some s → ∃ s', (evs.take n).foldlM accept s0 = some s' from
    key evs n _ s h
  intro evs
  induction evs with
  | nil => intro n s0 s h; exact ⟨s0, by simp⟩
  | cons ev rest ih =>
    intro n s0 s h
    cases n with
    | zero => exact ⟨s0, by simp⟩
    | succ n =>
      simp only [List.foldlM_cons, Option.bind_eq_bind] at h
      cases h1 : accept s0 ev with
      | none => rw [h1] at h; simp at h
      | some s1 =>
        rw [h1] at h
        obtain ⟨s', hs'⟩ := ih n s1 s h
        exact ⟨s', by simp [List.take_succ_cons, List.foldlM_cons, h1, hs']⟩

end Disk
