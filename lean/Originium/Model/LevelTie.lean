import Originium.Generated.Level
import Originium.Model.Compact
/-! The tie for `levelManager.discardStaleEntries`: the definition regenerated from `/repo/level.go`
    (`GenLevel.discardStale`) produces an accepted compaction output (`Compact.Allowed`) for every input in which one
    versioned key stands for one entry, whatever `slices.SortFunc` does beyond keeping the elements. -/
namespace LevelTie
open Key VKey Table Levels Compact

abbrev M := List (Bytes × E)

/-- the first loop of the generated code as a recursive function -/
def scan (low : Nat) : List E → List E → M → List E × M
  | [], res, latest => (res, latest)
  | e :: es, res, latest =>
    if low < e.key.ts then scan low es (res ++ [e]) latest
    else match List.lookup e.key.user latest with
      | some m => if m.key.ts < e.key.ts then scan low es res ((e.key.user, e) :: latest.filter fun kv => !(kv.1 == e.key.user))
                  else scan low es res latest
      | none => scan low es res ((e.key.user, e) :: latest.filter fun kv => !(kv.1 == e.key.user))

theorem foldr_scan (low : Nat) (exit : List E → M → List E) (es : List E) (res : List E) (latest : M) :
    List.foldr (fun (entry : E) (kont1 : List E → M → List E) => fun res latest =>
        if decide (low < entry.key.ts) = true then kont1 (res ++ [entry]) latest
        else match List.lookup entry.key.user latest with
          | some maxEntry => if decide (maxEntry.key.ts < entry.key.ts) = true then
              kont1 res ((entry.key.user, entry) :: List.filter (fun kv => !kv.fst == entry.key.user) latest)
            else kont1 res latest
          | none => kont1 res ((entry.key.user, entry) :: List.filter (fun kv => !kv.fst == entry.key.user) latest))
      exit es res latest = exit (scan low es res latest).1 (scan low es res latest).2 := by
  induction es generalizing res latest with
  | nil => rfl
  | cons e es ih =>
    simp only [List.foldr_cons, scan]
    by_cases h1 : low < e.key.ts
    · simp only [h1, decide_true, ↓reduceIte]; exact ih _ _
    · simp only [h1, decide_false, Bool.false_eq_true, ↓reduceIte]
      cases hl : List.lookup e.key.user latest with
      | none => exact ih _ _
      | some m =>
        simp only
        by_cases h2 : m.key.ts < e.key.ts
        · simp only [h2, decide_true, ↓reduceIte]; exact ih _ _
        · simp only [h2, decide_false, Bool.false_eq_true, ↓reduceIte]; exact ih _ _

theorem foldr_values (exit : List E → M → List E) (l : M) (res : List E) (latest : M) :
    List.foldr (fun (kv : Bytes × E) (kont2 : List E → M → List E) => fun res latest => kont2 (res ++ [kv.snd]) latest) exit l res latest
      = exit (res ++ l.map (·.2)) latest := by
  induction l generalizing res with
  | nil => simp
  | cons a l ih => simp only [List.foldr_cons, List.map_cons]; rw [ih]; simp

/-- what the generated function computes -/
theorem discardStale_eq (sort : List E → List E) (low : Nat) (es : List E) :
    GenLevel.discardStale sort low es =
      if low = 0 then es else sort ((scan low es [] []).1 ++ (scan low es [] []).2.map (·.2)) := by
  unfold GenLevel.discardStale
  by_cases h0 : low = 0
  · simp [h0]
  · simp only [h0, decide_false, Bool.false_eq_true, ↓reduceIte]
    have h1 := foldr_scan low (fun res latest =>
      List.foldr (fun (kv : Bytes × E) (kont2 : List E → M → List E) => fun res latest => kont2 (res ++ [kv.snd]) latest)
        (fun res _ => sort res) latest res latest) es [] []
    refine Eq.trans h1 ?_
    simp only [foldr_values]


/-! ### the loop invariant -/

theorem mem_of_lookup {k : Bytes} {m : E} {l : M} (h : List.lookup k l = some m) : (k, m) ∈ l := by
  induction l with
  | nil => simp at h
  | cons a l ih =>
    obtain ⟨k', v⟩ := a
    simp only [List.lookup_cons] at h
    by_cases he : k = k'
    · subst he; simp only [beq_self_eq_true, Option.some.injEq] at h; subst h; simp
    · have : (k == k') = false := by simpa using he
      simp only [this] at h
      exact List.mem_cons_of_mem _ (ih h)

theorem lookup_filter_ne (k h : Bytes) (l : M) :
    List.lookup k (l.filter fun kv => !(kv.1 == h)) = if k = h then none else List.lookup k l := by
  induction l with
  | nil => simp
  | cons a l ih =>
    obtain ⟨k', v⟩ := a
    by_cases hk : k' = h
    · subst hk
      simp only [List.filter_cons, beq_self_eq_true, Bool.not_true, Bool.false_eq_true, ↓reduceIte, ih, List.lookup_cons]
      by_cases ht : k = k'
      · simp [ht]
      · have : (k == k') = false := by simpa using ht
        simp [ht, this]
    · have hkh : (k' == h) = false := by simpa using hk
      simp only [List.filter_cons, hkh, Bool.not_false, ↓reduceIte, List.lookup_cons, ih]
      by_cases ht : k = h
      · subst ht
        have : (k == k') = false := by simpa using fun e : k = k' => hk e.symm
        simp [this]
      · simp only [ht, ↓reduceIte]

/-- `done`: the entries processed so far -/
structure Inv (low : Nat) (done res : List E) (latest : M) : Prop where
  res_sub : ∀ e ∈ res, e ∈ done
  res_all : ∀ e ∈ done, low < e.key.ts → e ∈ res
  lat_sub : ∀ k m, (k, m) ∈ latest → m ∈ done ∧ m.key.user = k ∧ m.key.ts ≤ low
  lat_max : ∀ e ∈ done, e.key.ts ≤ low → ∃ m, List.lookup e.key.user latest = some m ∧ e.key.ts ≤ m.key.ts

theorem inv_put {low : Nat} {done res : List E} {latest : M} (h : Inv low done res latest) (e : E) (hle : ¬ low < e.key.ts)
    (hmax : ∀ m, List.lookup e.key.user latest = some m → m.key.ts ≤ e.key.ts) :
    Inv low (done ++ [e]) res ((e.key.user, e) :: latest.filter fun kv => !(kv.1 == e.key.user)) := by
  refine ⟨?_, ?_, ?_, ?_⟩
  · intro x hx; exact List.mem_append.mpr (Or.inl (h.res_sub x hx))
  · intro x hx hlt
    rcases List.mem_append.mp hx with hx | hx
    · exact h.res_all x hx hlt
    · simp only [List.mem_singleton] at hx; subst hx; exact absurd hlt hle
  · intro k m hm
    rcases List.mem_cons.mp hm with he | hm
    · cases he
      exact ⟨List.mem_append.mpr (Or.inr (by simp)), rfl, by omega⟩
    · have := h.lat_sub k m (List.mem_filter.mp hm).1
      exact ⟨List.mem_append.mpr (Or.inl this.1), this.2⟩
  · intro x hx hxle
    simp only [List.lookup_cons]
    by_cases hu : x.key.user = e.key.user
    · rw [hu]
      simp only [beq_self_eq_true]
      refine ⟨e, rfl, ?_⟩
      rcases List.mem_append.mp hx with hx | hx
      · obtain ⟨m, hm, hm'⟩ := h.lat_max x hx hxle
        rw [hu] at hm
        have := hmax m hm
        omega
      · simp only [List.mem_singleton] at hx; subst hx; exact Nat.le_refl _
    · have hb : (x.key.user == e.key.user) = false := by simpa using hu
      simp only [hb, lookup_filter_ne, hu, ↓reduceIte]
      rcases List.mem_append.mp hx with hx | hx
      · exact h.lat_max x hx hxle
      · simp only [List.mem_singleton] at hx; subst hx; exact absurd rfl hu

theorem scan_inv (low : Nat) (es : List E) : ∀ (done res : List E) (latest : M), Inv low done res latest →
    Inv low (done ++ es) (scan low es res latest).1 (scan low es res latest).2 := by
  induction es with
  | nil => intro done res latest h; simpa [scan] using h
  | cons e es ih =>
    intro done res latest h
    have hassoc : done ++ e :: es = (done ++ [e]) ++ es := by simp
    rw [hassoc]
    simp only [scan]
    by_cases h1 : low < e.key.ts
    · simp only [h1, ↓reduceIte]
      apply ih
      refine ⟨?_, ?_, ?_, ?_⟩
      · intro x hx
        rcases List.mem_append.mp hx with hx | hx
        · exact List.mem_append.mpr (Or.inl (h.res_sub x hx))
        · exact List.mem_append.mpr (Or.inr hx)
      · intro x hx hlt
        rcases List.mem_append.mp hx with hx | hx
        · exact List.mem_append.mpr (Or.inl (h.res_all x hx hlt))
        · exact List.mem_append.mpr (Or.inr hx)
      · intro k m hm
        have := h.lat_sub k m hm
        exact ⟨List.mem_append.mpr (Or.inl this.1), this.2⟩
      · intro x hx hxle
        rcases List.mem_append.mp hx with hx | hx
        · exact h.lat_max x hx hxle
        · simp only [List.mem_singleton] at hx; subst hx; omega
    · simp only [h1, ↓reduceIte]
      cases hl : List.lookup e.key.user latest with
      | none =>
        apply ih
        exact inv_put h e h1 (by intro m hm; rw [hl] at hm; cases hm)
      | some m =>
        simp only
        by_cases h2 : m.key.ts < e.key.ts
        · simp only [h2, ↓reduceIte]
          apply ih
          exact inv_put h e h1 (by intro m' hm'; rw [hl] at hm'; cases hm'; omega)
        · simp only [h2, ↓reduceIte]
          apply ih
          refine ⟨?_, ?_, ?_, ?_⟩
          · intro x hx; exact List.mem_append.mpr (Or.inl (h.res_sub x hx))
          · intro x hx hlt
            rcases List.mem_append.mp hx with hx | hx
            · exact h.res_all x hx hlt
            · simp only [List.mem_singleton] at hx; subst hx; exact absurd hlt h1
          · intro k m' hm'
            have := h.lat_sub k m' hm'
            exact ⟨List.mem_append.mpr (Or.inl this.1), this.2⟩
          · intro x hx hxle
            rcases List.mem_append.mp hx with hx | hx
            · exact h.lat_max x hx hxle
            · simp only [List.mem_singleton] at hx; subst hx
              exact ⟨m, hl, by omega⟩

/-- **the tie**: the translated `discardStaleEntries` returns an accepted compaction output — a subset of its input in
    which every dropped entry is shadowed by a kept newer version of the same user key at or below the watermark —
    provided one versioned key stands for one entry and the sort keeps the elements -/
theorem discardStale_allowed (sort : List E → List E) (hsort : ∀ l x, x ∈ sort l ↔ x ∈ l) (low : Nat) (es : List E)
    (huniq : ∀ a ∈ es, ∀ b ∈ es, a.key = b.key → a = b) :
    Allowed low es (GenLevel.discardStale sort low es) := by
  rw [discardStale_eq]
  by_cases h0 : low = 0
  · simp only [h0, ↓reduceIte]
    exact ⟨fun _ h => h, fun e he hne => absurd he hne⟩
  · simp only [h0, ↓reduceIte]
    have hinv := scan_inv low es [] [] [] ⟨by simp, by simp, by simp, by simp⟩
    simp only [List.nil_append] at hinv
    refine ⟨?_, ?_⟩
    · intro e he
      rcases List.mem_append.mp ((hsort _ e).mp he) with h | h
      · exact hinv.res_sub e h
      · obtain ⟨⟨k, m⟩, hkm, rfl⟩ := List.mem_map.mp h
        exact (hinv.lat_sub k m hkm).1
    · intro e he hne
      have hnres : e ∉ (scan low es [] []).1 := fun h => hne ((hsort _ e).mpr (List.mem_append.mpr (Or.inl h)))
      have hle : e.key.ts ≤ low := by
        apply Nat.le_of_not_lt
        intro hlt; exact hnres (hinv.res_all e he hlt)
      obtain ⟨m, hm, hm'⟩ := hinv.lat_max e he hle
      have hmem := mem_of_lookup hm
      have hmout : m ∈ sort ((scan low es [] []).1 ++ (scan low es [] []).2.map (·.2)) :=
        (hsort _ m).mpr (List.mem_append.mpr (Or.inr (List.mem_map.mpr ⟨_, hmem, rfl⟩)))
      obtain ⟨hmes, hmu, hmlow⟩ := hinv.lat_sub _ _ hmem
      refine ⟨m, hmout, hmu, ?_, hmlow⟩
      rcases Nat.lt_or_ge e.key.ts m.key.ts with hlt | hge
      · exact hlt
      · exfalso
        have hts : e.key.ts = m.key.ts := by omega
        have hkey : e.key = m.key := by
          cases hk : e.key; cases hk' : m.key
          simp only [hk, hk'] at hts hmu
          simp [hts, hmu]
        have := huniq e he m hmes hkey
        rw [this] at hne
        exact hne hmout


/-! ### `maxLevelIdx`: the name of the next table of a level is fresh -/

theorem foldr_max (idxs : List Int) (res : Int) :
    List.foldr (fun (e : Int) (kont1 : Int → Int) => fun res => if decide (res < e) = true then kont1 e else kont1 res) (fun res => res) idxs res
      = idxs.foldl (fun a e => if a < e then e else a) res := by
  induction idxs generalizing res with
  | nil => rfl
  | cons a idxs ih =>
    simp only [List.foldr_cons, List.foldl_cons]
    by_cases h : res < a
    · simp only [h, decide_true, ↓reduceIte]; exact ih a
    · simp only [h, decide_false, Bool.false_eq_true, ↓reduceIte]; exact ih res

theorem foldl_max_ge (idxs : List Int) (res : Int) :
    res ≤ idxs.foldl (fun a e => if a < e then e else a) res ∧ ∀ x ∈ idxs, x ≤ idxs.foldl (fun a e => if a < e then e else a) res := by
  induction idxs generalizing res with
  | nil => exact ⟨Int.le_refl _, by simp⟩
  | cons a idxs ih =>
    simp only [List.foldl_cons, List.mem_cons]
    by_cases h : res < a
    · simp only [h, ↓reduceIte]
      obtain ⟨h1, h2⟩ := ih a
      exact ⟨by omega, fun x hx => hx.elim (fun e => e ▸ h1) (h2 x)⟩
    · simp only [h, ↓reduceIte]
      obtain ⟨h1, h2⟩ := ih res
      exact ⟨h1, fun x hx => hx.elim (fun e => by subst e; omega) (h2 x)⟩

/-- the translated `maxLevelIdx` is at least every index of the level, so the index `maxLevelIdx + 1` given to the next
    table written into the level (flush, L0 and LN compaction) names no table the level manager holds -/
theorem maxLevelIdx_fresh (idxs : List Int) : ∀ x ∈ idxs, x < GenLevel.maxLevelIdx idxs + 1 := by
  intro x hx
  unfold GenLevel.maxLevelIdx
  dsimp only
  rw [foldr_max]
  have := (foldl_max_ge idxs (-1)).2 x hx
  omega

theorem maxLevelIdx_empty : GenLevel.maxLevelIdx [] = -1 := rfl


/-! ### `compactLN`: the order of its steps -/

abbrev CEv := String × Nat
abbrev CK := List Nat → List CEv → Option (List Nat × List CEv)

theorem foldr_emit (tag : String) (k : CK) (l : List Nat) (dl : List Nat) (ev : List CEv) :
    List.foldr (fun (e : Nat) (kont : CK) => fun dl ev => kont dl (ev ++ [(tag, e)])) k l dl ev = k dl (ev ++ l.map fun e => (tag, e)) := by
  induction l generalizing ev with
  | nil => simp
  | cons a l ih => simp only [List.foldr_cons, List.map_cons]; rw [ih]; simp

theorem foldr_fetch (tag : String) (k : CK) (l : List Nat) (dl : List Nat) (ev : List CEv) :
    List.foldr (fun (e : Nat) (kont : CK) => fun dl ev => kont (dl ++ [e]) (ev ++ [(tag, e)])) k l dl ev =
      k (dl ++ l) (ev ++ l.map fun e => (tag, e)) := by
  induction l generalizing dl ev with
  | nil => simp
  | cons a l ih => simp only [List.foldr_cons, List.map_cons]; rw [ih]; simp

/-- the translated `compactLN`: the overlapping tables of level N+1 are read first (older data), then the table of level N;
    they are merged in that order; the output gets its name while every input is still in the index; the index is updated;
    the output is written (`writeTable`: tmp, write, fsync, rename) **before** any input file is removed; a failed write
    panics and removes nothing -/
theorem compactLN_table (needLevel : Bool) (lnT : Nat) (ln1 : List Nat) (newIdx : Nat) (wf : Bool) :
    GenLevel.compactLN needLevel lnT ln1 newIdx wf [] =
      if wf then none else
      some (ln1 ++ [lnT],
        (if needLevel then [("new level", 0)] else []) ++ (ln1.map fun e => ("fetch LN+1", e)) ++
        [("fetch LN", lnT), ("MergeVersions", ln1.length + 1), ("discardStaleEntries", 0), ("filter.Build", 0), ("table.Build", 0),
         ("name := maxLevelIdx(LN+1)+1", newIdx), ("PushBack LN+1", newIdx), ("Remove handle LN", lnT)] ++
        (ln1.map fun e => ("Remove handle LN+1", e)) ++ [("writeTable LN+1", newIdx), ("os.Remove LN", lnT)] ++
        (ln1.map fun e => ("os.Remove LN+1", e))) := by
  unfold GenLevel.compactLN
  simp only [Bool.false_eq_true, ↓reduceIte]
  have h3 := fun (k : CK) dl ev => foldr_emit "os.Remove LN+1" k ln1 dl ev
  have h2 := fun (k : CK) dl ev => foldr_emit "Remove handle LN+1" k ln1 dl ev
  have h1 := fun (k : CK) dl ev => foldr_fetch "fetch LN+1" k ln1 dl ev
  cases needLevel <;> cases wf <;> simp only [h1, h2, h3, Bool.false_eq_true, ↓reduceIte, List.nil_append, List.length_append,
    List.length_cons, List.length_nil, List.append_assoc, List.cons_append] <;> simp


/-- the translated `compactL0`: the overlapping tables of level 1 are read first (older data), then those of level 0 in the
    order of the list (oldest first); the output is named while every input is still in the index; it is written before any
    input file is removed; a failed write panics and removes nothing -/
theorem compactL0_table (needLevel : Bool) (l0 l1 : List Nat) (newIdx : Nat) (wf : Bool) :
    GenLevel.compactL0 needLevel l0 l1 newIdx wf [] =
      if wf then none else
      some (l1 ++ l0,
        (if needLevel then [("new level", 0)] else []) ++ (l1.map fun e => ("fetch L1", e)) ++ (l0.map fun e => ("fetch L0", e)) ++
        [("MergeVersions", l1.length + l0.length), ("discardStaleEntries", 0), ("filter.Build", 0), ("table.Build", 0),
         ("name := maxLevelIdx(L1)+1", newIdx), ("PushBack L1", newIdx)] ++
        (l0.map fun e => ("Remove handle L0", e)) ++ (l1.map fun e => ("Remove handle L1", e)) ++ [("writeTable L1", newIdx)] ++
        (l0.map fun e => ("os.Remove L0", e)) ++ (l1.map fun e => ("os.Remove L1", e))) := by
  unfold GenLevel.compactL0
  simp only [Bool.false_eq_true, ↓reduceIte]
  have a1 := fun (k : CK) dl ev => foldr_fetch "fetch L1" k l1 dl ev
  have a0 := fun (k : CK) dl ev => foldr_fetch "fetch L0" k l0 dl ev
  have r0 := fun (k : CK) dl ev => foldr_emit "Remove handle L0" k l0 dl ev
  have r1 := fun (k : CK) dl ev => foldr_emit "Remove handle L1" k l1 dl ev
  have o0 := fun (k : CK) dl ev => foldr_emit "os.Remove L0" k l0 dl ev
  have o1 := fun (k : CK) dl ev => foldr_emit "os.Remove L1" k l1 dl ev
  cases needLevel <;> cases wf <;> simp only [a1, a0, r0, r1, o0, o1, Bool.false_eq_true, ↓reduceIte, List.nil_append, List.length_append,
    List.append_assoc, List.cons_append] <;> simp

/-- the translated `writeTable`: a table file reaches its name only by the last step, a rename of a temporary file that was
    created, written, fsynced and closed, in this order, with every one of these steps successful; a failure of any step
    returns an error and performs no rename -/
theorem writeTable_table (cf wf sf clf rf : Bool) :
    GenLevel.writeTable cf wf sf clf rf [] =
      if cf then (false, ["create tmp"])
      else if wf then (false, ["create tmp", "write tmp", "close tmp (after an error)"])
      else if sf then (false, ["create tmp", "write tmp", "fsync tmp", "close tmp (after an error)"])
      else if clf then (false, ["create tmp", "write tmp", "fsync tmp", "close tmp"])
      else (!rf, ["create tmp", "write tmp", "fsync tmp", "close tmp", "rename tmp -> name"]) := by
  cases cf <;> cases wf <;> cases sf <;> cases clf <;> cases rf <;> rfl

/-- whatever fails, a rename is the last event and is preceded by a successful write and fsync of the same temporary file -/
theorem writeTable_rename_after_sync (cf wf sf clf rf : Bool) (h : "rename tmp -> name" ∈ (GenLevel.writeTable cf wf sf clf rf []).2) :
    (GenLevel.writeTable cf wf sf clf rf []).2 = ["create tmp", "write tmp", "fsync tmp", "close tmp", "rename tmp -> name"] ∧
      cf = false ∧ wf = false ∧ sf = false ∧ clf = false := by
  revert h
  cases cf <;> cases wf <;> cases sf <;> cases clf <;> cases rf <;> decide

/-- the translated `flushToL0`: under the manager's lock, the filter and the table are built from all the entries given, the
    table is named `maxLevelIdx(0)+1`, its handle goes to the back of L0 (the newest end) and the file is then published by
    `writeTable` under that same name; nothing else happens -/
theorem flushToL0_table (noLevel : Bool) (newIdx : Nat) (wf : Bool) :
    GenLevel.flushToL0 noLevel newIdx wf [] =
      (!wf, [("lm.mu.Lock", 0), ("filter.Build(all entries)", 0), ("table.Build(all entries)", 0)] ++
        (if noLevel then [("new level", 0)] else []) ++
        [("name := maxLevelIdx(L0)+1", newIdx), ("PushBack L0", newIdx), ("writeTable L0", newIdx)]) := by
  cases noLevel <;> cases wf <;> rfl

/-! ### `levelManager.recover` -/

section Recover
variable {φ ν η ι β : Type}

/-- `for len(lm.levels) <= level { append an empty level }` -/
def grow (level : Nat) (levels : List (List (Nat × β × ι))) : List (List (Nat × β × ι)) :=
  levels ++ List.replicate (level + 1 - levels.length) []

theorem grow_loop (level : Nat)
    (exit : List ν → Nat → List (List (Nat × β × ι)) → List (String × ν) → Option (Nat × List (List (Nat × β × ι)) × List (String × ν)))
    (fuel : Nat) (d : List ν) (m : Nat) (levels : List (List (Nat × β × ι))) (ev : List (String × ν))
    (hf : level + 1 - levels.length ≤ fuel) :
    GenLevel.recover.loop8196 level exit fuel d m levels ev = exit d m (grow level levels) ev := by
  induction fuel generalizing levels with
  | zero =>
    have : level + 1 - levels.length = 0 := by omega
    simp [GenLevel.recover.loop8196, grow, this]
  | succ f ih =>
    rw [GenLevel.recover.loop8196]
    by_cases hl : levels.length ≤ level
    · simp only [hl, decide_true, ↓reduceIte]
      rw [ih (levels ++ [[]]) (by simp; omega)]
      congr 1
      simp only [grow, List.length_append, List.length_singleton, List.append_assoc]
      have : level + 1 - levels.length = (level + 1 - (levels.length + 1)) + 1 := by omega
      rw [this, List.replicate_succ]
      simp
    · have : level + 1 - levels.length = 0 := by omega
      simp [hl, grow, this]

theorem getD_grow (level L : Nat) (levels : List (List (Nat × β × ι))) : (grow level levels).getD L [] = levels.getD L [] := by
  simp only [grow, List.getD_eq_getElem?_getD]
  by_cases h : L < levels.length
  · rw [List.getElem?_append_left h]
  · rw [List.getElem?_append_right (by omega)]
    have h2 : levels[L]? = none := List.getElem?_eq_none (by omega)
    rw [h2]
    by_cases h3 : L - levels.length < level + 1 - levels.length
    · simp [List.getElem?_replicate, h3]
    · simp [List.getElem?_replicate, h3]

theorem length_grow (level : Nat) (levels : List (List (Nat × β × ι))) : level < (grow level levels).length := by
  simp only [grow, List.length_append, List.length_replicate]; omega

/-- what recovering one table file does to (largest version, levels) -/
def stepFile (plevel pidx : ν → Nat) (indexOf : ν → ι) (entriesOf : ν → List η) (ver : η → Nat) (mkFilter : List η → β)
    (st : Nat × List (List (Nat × β × ι))) (file : ν) : Nat × List (List (Nat × β × ι)) :=
  ((entriesOf file).foldl (fun m e => max m (ver e)) st.1,
   (grow (plevel file) st.2).set (plevel file)
     ((grow (plevel file) st.2).getD (plevel file) [] ++ [(pidx file, mkFilter (entriesOf file), indexOf file)]))

theorem foldr_maxver {R : Type} (ver : η → Nat) (exit : List ν → Nat → List (List (Nat × β × ι)) → List (String × ν) → Option R)
    (es : List η) (d : List ν) (m : Nat) (levels : List (List (Nat × β × ι))) (ev : List (String × ν)) :
    List.foldr (fun entry kont8195 => fun (dbFiles : List ν) (maxVersion : Nat) (levels : List (List (Nat × β × ι))) (ev : List (String × ν)) =>
        kont8195 dbFiles (max maxVersion (ver entry)) levels ev) exit es d m levels ev =
      exit d (es.foldl (fun m e => max m (ver e)) m) levels ev := by
  induction es generalizing m with
  | nil => rfl
  | cons e es ih => simp only [List.foldr_cons, List.foldl_cons]; exact ih _

theorem foldr_files (plevel pidx : ν → Nat) (indexOf : ν → ι) (entriesOf : ν → List η) (ver : η → Nat) (mkFilter : List η → β)
    (names : List ν) (d : List ν) (m : Nat) (levels : List (List (Nat × β × ι))) (ev : List (String × ν)) :
    List.foldr
      (fun file kont4100 => fun (dbFiles : List ν) (maxVersion : Nat) (levels : List (List (Nat × β × ι))) (ev : List (String × ν)) =>
        List.foldr
          (fun entry kont8195 => fun (dbFiles : List ν) (maxVersion : Nat) (levels : List (List (Nat × β × ι))) (ev : List (String × ν)) =>
            kont8195 dbFiles (max maxVersion (ver entry)) levels ev)
          (fun dbFiles maxVersion levels ev =>
            GenLevel.recover.loop8196 (plevel file)
              (fun dbFiles maxVersion levels ev =>
                kont4100 dbFiles maxVersion
                  (levels.set (plevel file)
                    (levels.getD (plevel file) [] ++ [(pidx file, mkFilter (entriesOf file), indexOf file)]))
                  ev)
              (plevel file + 1) dbFiles maxVersion levels ev)
          (entriesOf file) dbFiles maxVersion levels ev)
      (fun dbFiles maxVersion levels ev => some (maxVersion, levels, ev)) names d m levels ev =
    some ((names.foldl (stepFile plevel pidx indexOf entriesOf ver mkFilter) (m, levels)).1,
          (names.foldl (stepFile plevel pidx indexOf entriesOf ver mkFilter) (m, levels)).2, ev) := by
  induction names generalizing m levels with
  | nil => rfl
  | cons f rest ih =>
    simp only [List.foldr_cons, List.foldl_cons]
    rw [foldr_maxver, grow_loop _ _ _ _ _ _ _ (by omega)]
    exact ih _ _

theorem foldr_dir (isDir isDB isTmp : φ → Bool) (fname : φ → ν) {R : Type}
    (exit : List ν → Nat → List (List (Nat × β × ι)) → List (String × ν) → Option R)
    (files : List φ) (d : List ν) (m : Nat) (levels : List (List (Nat × β × ι))) (ev : List (String × ν)) :
    List.foldr
      (fun file kont4099 => fun (dbFiles : List ν) (maxVersion : Nat) (levels : List (List (Nat × β × ι))) (ev : List (String × ν)) =>
        if (!isDir file && isDB file) = true then
          if (!isDir file && isTmp file) = true then
            kont4099 (dbFiles ++ [fname file]) maxVersion levels (ev ++ [("os.Remove (leftover tmp)", fname file)])
          else kont4099 (dbFiles ++ [fname file]) maxVersion levels ev
        else
          if (!isDir file && isTmp file) = true then
            kont4099 dbFiles maxVersion levels (ev ++ [("os.Remove (leftover tmp)", fname file)])
          else kont4099 dbFiles maxVersion levels ev) exit files d m levels ev =
      exit (d ++ (files.filter (fun f => !isDir f && isDB f)).map fname) m levels
        (ev ++ (files.filter (fun f => !isDir f && isTmp f)).map (fun f => ("os.Remove (leftover tmp)", fname f))) := by
  induction files generalizing d ev with
  | nil => simp
  | cons f rest ih =>
    simp only [List.foldr_cons, List.filter_cons]
    by_cases h1 : (!isDir f && isDB f) = true <;> by_cases h2 : (!isDir f && isTmp f) = true <;>
      simp only [h1, h2, ↓reduceIte, Bool.false_eq_true] <;> rw [ih] <;> simp

/-- the translated `levelManager.recover` when nothing fails: the `.db` files of the directory (not the sub-directories), in the
    order `slices.Sort` puts their names, each give one handle — index from the file name, filter built from the entries of
    THIS file, index block of this file — appended to the level its name says; the largest version of all their entries is
    returned; leftover `.tmp` files are removed and nothing else is -/
theorem recover_table (isDir isDB isTmp : φ → Bool) (fname : φ → ν) (sortN : List ν → List ν) (plevel pidx : ν → Nat)
    (indexOf : ν → ι) (entriesOf : ν → List η) (ver : η → Nat) (mkFilter : List η → β) (files : List φ) :
    GenLevel.recover isDir isDB isTmp fname sortN plevel pidx (fun _ => false) (fun _ _ => false) indexOf entriesOf ver mkFilter false files [] =
      let names := (files.filter (fun f => !isDir f && isDB f)).map fname
      let removed := (files.filter (fun f => !isDir f && isTmp f)).map (fun f => ("os.Remove (leftover tmp)", fname f))
      if names.length = 0 then some (0, [], removed)
      else some (((sortN names).foldl (stepFile plevel pidx indexOf entriesOf ver mkFilter) (0, [])).1,
                 ((sortN names).foldl (stepFile plevel pidx indexOf entriesOf ver mkFilter) (0, [])).2, removed) := by
  unfold GenLevel.recover
  simp only [Bool.false_eq_true, ↓reduceIte]
  rw [foldr_dir]
  simp only [List.nil_append]
  by_cases h0 : ((files.filter (fun f => !isDir f && isDB f)).map fname).length = 0
  · simp only [h0, decide_true, ↓reduceIte]
  · simp only [h0, decide_false, Bool.false_eq_true, ↓reduceIte]
    rw [foldr_files]

/-- the largest version `recover` returns is the largest version of any entry of any recovered table -/
theorem stepFile_max (plevel pidx : ν → Nat) (indexOf : ν → ι) (entriesOf : ν → List η) (ver : η → Nat) (mkFilter : List η → β)
    (names : List ν) (st : Nat × List (List (Nat × β × ι))) :
    (names.foldl (stepFile plevel pidx indexOf entriesOf ver mkFilter) st).1 =
      (names.flatMap entriesOf).foldl (fun m e => max m (ver e)) st.1 := by
  induction names generalizing st with
  | nil => rfl
  | cons f rest ih => simp only [List.foldl_cons, List.flatMap_cons, List.foldl_append]; rw [ih]; rfl

/-- the handles of a level after recovery are exactly those of the table files named into that level, each with the filter
    built from its own entries -/
theorem stepFile_handles (plevel pidx : ν → Nat) (indexOf : ν → ι) (entriesOf : ν → List η) (ver : η → Nat) (mkFilter : List η → β)
    (names : List ν) (st : Nat × List (List (Nat × β × ι))) (L : Nat) :
    ((names.foldl (stepFile plevel pidx indexOf entriesOf ver mkFilter) st).2).getD L [] =
      st.2.getD L [] ++ ((names.filter (fun n => plevel n == L)).map fun n => (pidx n, mkFilter (entriesOf n), indexOf n)) := by
  induction names generalizing st with
  | nil => simp
  | cons f rest ih =>
    simp only [List.foldl_cons]
    rw [ih]
    simp only [stepFile, List.filter_cons]
    have hlen := length_grow (β := β) (ι := ι) (plevel f) st.2
    by_cases hL : plevel f = L
    · subst hL
      have hset : ∀ (l : List (List (Nat × β × ι))) (i : Nat) (v : List (Nat × β × ι)), i < l.length → (l.set i v).getD i [] = v := by
        intro l i v hi; simp [List.getD_eq_getElem?_getD, hi]
      rw [hset _ _ _ hlen, getD_grow]
      simp
    · have hb : (plevel f == L) = false := by simpa using hL
      simp only [hb, Bool.false_eq_true, ↓reduceIte]
      congr 1
      simp only [List.getD_eq_getElem?_getD, List.getElem?_set_ne hL]
      simpa [List.getD_eq_getElem?_getD] using getD_grow (β := β) (ι := ι) (plevel f) L st.2

end Recover

/-! ### `levelManager.overlapLN` -/

/-- the translated `overlapLN`: the tables of the level whose key range meets `[start, end]`, in the order of the level — a
    filter, hence a sublist of the level's tables -/
theorem overlapLN_eq {τ : Type} (sb ea : τ → Bool) (tables : List τ) :
    GenLevel.overlapLN sb ea tables = tables.filter (fun t => sb t && ea t) := by
  unfold GenLevel.overlapLN
  have h : ∀ (acc : List τ), List.foldr (fun e kont1 => fun (overlaps : List τ) =>
      if (sb e && ea e) = true then kont1 (overlaps ++ [e]) else kont1 overlaps) (fun overlaps => overlaps) tables acc =
      acc ++ tables.filter (fun t => sb t && ea t) := by
    induction tables with
    | nil => intro acc; simp
    | cons t rest ih =>
      intro acc
      simp only [List.foldr_cons, List.filter_cons]
      cases hc : (sb t && ea t)
      · simp only [Bool.false_eq_true, ↓reduceIte]; exact ih acc
      · simp only [↓reduceIte]; rw [ih]; simp
  cases tables with
  | nil => simp
  | cons t rest =>
    simp only [List.length_cons, Nat.add_one_ne_zero, decide_false, Bool.false_eq_true, ↓reduceIte]
    simpa using h []

theorem overlapLN_sublist {τ : Type} (sb ea : τ → Bool) (tables : List τ) :
    (GenLevel.overlapLN sb ea tables).Sublist tables := by
  rw [overlapLN_eq]; exact List.filter_sublist

end LevelTie
