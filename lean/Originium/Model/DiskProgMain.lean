import Originium.Model.DiskProgOpen
/-! Every event of the file-system program is accepted by the rule book, in every reachable state:
    all interleavings of foreground and flusher, a crash (with or without lost unsynced tails) at
    every point, any number of recoveries. -/
namespace Prog
open Key VKey Table Levels LSM Disk

/-- an event the program can emit is accepted, and the invariant is kept -/
theorem act_ev_ok {t : TSt} {m : Mem} (h : PInv ⟨t, m⟩) {e : Ev} {m' : Mem}
    (ha : act t m (.ev e) = some m') : ∃ t', accept t e = some t' ∧ PInv ⟨t', m'⟩ := by
  cases e with
  | commit id b => exact step_commit h ha
  | ack b => exact step_ack h ha
  | raise lw => exact step_raise h ha
  | op o =>
    cases o with
    | walCreate id =>
      simp only [act] at ha
      unfold actWalCreate at ha
      split at ha
      · rename_i hid
        split at ha
        · rename_i ws hc
          split at ha
          · rename_i hcond
            simp only [Option.some.injEq] at ha; subst ha
            exact step_openCreate h hc hcond.1 hcond.2 hid
          · cases ha
        · rename_i a hc hact
          simp only [Option.some.injEq] at ha; subst ha
          exact step_rotate h (Or.inl hc) hact hid
        · rename_i b a hc hact
          simp only [Option.some.injEq] at ha; subst ha
          exact step_rotate h (Or.inr ⟨b, hc⟩) hact hid
        · cases ha
      · cases ha
    | walAppend id bs =>
      simp only [act] at ha
      unfold actWalAppend at ha
      split at ha
      · rename_i new w r rs ws hc
        split at ha
        · rename_i hcond
          obtain ⟨h1, h2⟩ := hcond
          subst h1; subst h2
          simp only [Option.some.injEq] at ha; subst ha
          exact step_openAppend h hc
        · cases ha
      · cases ha
    | walSync id =>
      simp only [act] at ha
      unfold actWalSync at ha
      split at ha
      · rename_i b hc
        split at ha
        · rename_i hact
          simp only [Option.some.injEq] at ha; subst ha
          exact step_walSync_commit h hc hact
        · cases ha
      · rename_i new w rs ws hc
        split at ha
        · rename_i hid
          subst hid
          simp only [Option.some.injEq] at ha; subst ha
          exact step_openSync h hc
        · cases ha
      · cases ha
    | tmpCreate n => exact step_tmpCreate h ha
    | tmpWrite n es => exact step_tmpWrite h ha
    | tmpSync n => exact step_tmpSync h ha
    | publish n => exact step_publish h ha
    | tmpRemove n =>
      simp only [act] at ha
      unfold actTmpRemove at ha
      split at ha
      · rename_i new ns hc
        split at ha
        · simp only [Option.some.injEq] at ha; subst ha
          exact step_openTmpRemove h hc
        · cases ha
      · cases ha
    | walRemove id =>
      simp only [act] at ha
      unfold actWalRemove at ha
      split at ha
      · rename_i w n hf hc
        split at ha
        · rename_i hid
          subst hid
          simp only [Option.some.injEq] at ha; subst ha
          have := step_walRemove_flush h hf m.c (Or.inl ⟨by rw [hc]; rfl, rfl⟩)
          exact this
        · cases ha
      · rename_i w n b sy hf hc
        split at ha
        · rename_i hid
          subst hid
          simp only [Option.some.injEq] at ha; subst ha
          have := step_walRemove_flush h hf m.c (Or.inl ⟨by rw [hc]; rfl, rfl⟩)
          exact this
        · cases ha
      · rename_i w n hf hc
        split at ha
        · rename_i hid
          subst hid
          simp only [Option.some.injEq] at ha; subst ha
          exact step_walRemove_flush h hf .down (Or.inr ⟨hc, rfl⟩)
        · cases ha
      · rename_i hf hc
        split at ha
        · rename_i hcond
          simp only [Option.some.injEq] at ha; subst ha
          exact step_walRemove_closeEmpty h hf hcond.2.2
        · cases ha
      · rename_i new w ws hf hc
        split at ha
        · rename_i hid
          subst hid
          simp only [Option.some.injEq] at ha; subst ha
          exact step_openRemove h hc
        · cases ha
      · cases ha
    | tableRemove s => exact step_tableRemove h ha

theorem step_order {t : TSt} {m : Mem} (h : PInv ⟨t, m⟩) {ws : List Nat} {m' : Mem}
    (hact : actOrder m ws = some m') : PInv ⟨t, m'⟩ := by
  have hca : CA t.d m := h.ca
  unfold actOrder at hact
  split at hact
  · rename_i hc
    simp only [Option.some.injEq] at hact; subst hact
    simp only [CA, hc] at hca
    refine PInv.intro h.core h.idsLt ?_ (fa_of_idle hca)
    simp only [CA]; exact hca
  · cases hact

theorem pinv_init : PInv PSt.init := by
  refine PInv.intro (core_of_tinv tinv_init) ?_ ?_ ?_
  · intro w hw; simp [TSt.init, empty] at hw
  · simp [CA, Mem.init]
  · simp [FA, Mem.init]

theorem pinv_crash {s : PSt} (h : PInv s) {d' : D} (hc : CutOf s.t.d d') :
    PInv { t := { s.t with d := d' }, m := crashMem s.m } := by
  refine PInv.intro (core_cut h.core hc) ?_ ?_ ?_
  · intro w hw
    obtain ⟨_, hlen, hw'⟩ := hc
    obtain ⟨i, hi, rfl⟩ := List.getElem_of_mem hw
    have hi' : i < s.t.d.wals.length := by
      have : i < d'.wals.length := hi
      omega
    obtain ⟨hid, _⟩ := hw' i hi' hi
    show d'.wals[i].id < s.m.nextWal
    rw [hid]
    exact h.idsLt _ (List.getElem_mem _)
  · simp [CA, crashMem]
  · simp [FA, crashMem]

theorem pinv_step {s s' : PSt} {l : Label} (h : PInv s) (hs : Step s l s') : PInv s' := by
  cases hs with
  | ev ha hacc =>
    obtain ⟨t'', hacc', hinv⟩ := act_ev_ok (t := s.t) (m := s.m) h ha
    rw [hacc] at hacc'
    simp only [Option.some.injEq] at hacc'
    subst hacc'
    exact hinv
  | plan ha =>
    simp only [act] at ha
    exact step_plan (t := s.t) (m := s.m) h ha
  | order ha =>
    simp only [act] at ha
    exact step_order (t := s.t) (m := s.m) h ha
  | crash hc => exact pinv_crash h hc

/-- the invariant holds in every reachable state -/
theorem reach_inv {s : PSt} (h : Reach s) : PInv s := by
  induction h with
  | init => exact pinv_init
  | step _ hs ih => exact pinv_step ih hs

/-- **the program never breaks the rules**: whatever the schedule of the two goroutines, wherever
    crashes (with or without lost unsynced tails) and recoveries happened, the next event the
    program emits is accepted -/
theorem never_rejected {s : PSt} (h : Reach s) {e : Ev} (he : Emits s e) : ∃ t', accept s.t e = some t' := by
  obtain ⟨m', ha⟩ := he
  obtain ⟨t', hacc, _⟩ := act_ev_ok (t := s.t) (m := s.m) (reach_inv h) ha
  exact ⟨t', hacc⟩

/-- the durability / order invariant and well-formedness hold at every reachable point -/
theorem reach_core {s : PSt} (h : Reach s) : Inv s.t.d s.t.acked s.t.low ∧ WF s.t.d := (reach_inv h).core

/-! ### process-crash executions keep the full trace invariant (atomicity, C04) -/

/-- executions in which a crash loses nothing that was written -/
inductive ReachP : PSt → Prop where
  | init : ReachP PSt.init
  | step {s s' : PSt} {e : PEv} : ReachP s → Step s (.pev e) s' → ReachP s'
  | crash {s : PSt} : ReachP s → ReachP { t := s.t, m := crashMem s.m }

theorem cutOf_refl {d : D} (h : ∀ w ∈ d.wals, w.synced ≤ w.recs.length) : CutOf d d := by
  refine ⟨rfl, rfl, ?_⟩
  intro i hi _
  refine ⟨rfl, rfl, d.wals[i].recs.length, h _ (List.getElem_mem _), ?_⟩
  rw [List.take_length]

theorem reachP_reach {s : PSt} (h : ReachP s) : Reach s := by
  induction h with
  | init => exact Reach.init
  | step _ hs ih => exact Reach.step ih hs
  | crash _ ih =>
    have := Reach.step ih (Step.crash (cutOf_refl (reach_inv ih).core.1.synced_le))
    exact this

theorem reachP_tinv {s : PSt} (h : ReachP s) : TInv s.t := by
  induction h with
  | init => exact tinv_init
  | step _ hs ih =>
    cases hs with
    | ev _ hacc => exact tinv_accept ih _ hacc
    | plan _ => exact ih
    | order _ => exact ih
  | crash _ ih => exact ih

/-! ### checking a recorded trace against program and rule book -/

/-- a trace step is never `rejected`: a recorded trace either is not a trace of the program model
    (`notProgram`: the code was changed, or the model is wrong) or it obeys the rule book -/
theorem pstep_not_rejected {s : PSt} (h : PInv s) (pe : PEv) : pstep s pe ≠ .error .rejected := by
  cases pe with
  | plan ins n =>
    simp only [pstep]
    split <;> intro hh <;> cases hh
  | order ws =>
    simp only [pstep]
    split <;> intro hh <;> cases hh
  | ev e =>
    simp only [pstep]
    split
    · intro hh; cases hh
    · rename_i m' ha
      obtain ⟨t', hacc, _⟩ := act_ev_ok (t := s.t) (m := s.m) h ha
      rw [hacc]
      intro hh; cases hh

theorem pstep_ok_inv {s s' : PSt} (h : PInv s) {pe : PEv} (hs : pstep s pe = .ok s') : PInv s' := by
  cases pe with
  | plan ins n =>
    simp only [pstep] at hs
    split at hs
    · rename_i m' ha
      cases hs
      simp only [act] at ha
      exact step_plan (t := s.t) (m := s.m) h ha
    · cases hs
  | order ws =>
    simp only [pstep] at hs
    split at hs
    · rename_i m' ha
      cases hs
      simp only [act] at ha
      exact step_order (t := s.t) (m := s.m) h ha
    · cases hs
  | ev e =>
    simp only [pstep] at hs
    split at hs
    · cases hs
    · rename_i m' ha
      obtain ⟨t', hacc, hinv⟩ := act_ev_ok (t := s.t) (m := s.m) h ha
      rw [hacc] at hs
      cases hs
      exact hinv

end Prog

#print axioms Prog.never_rejected
#print axioms Prog.reach_inv
#print axioms Prog.reachP_tinv
