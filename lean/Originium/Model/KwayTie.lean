import Originium.Generated.Kway
import Originium.Model.Kway
/-! Tie between the translated `kway.merge` (`Generated/Kway.lean`, regenerated from /repo on every check) and the model
    `Kway` / the specification `LSM.mergeVersions`. -/
namespace KwayTie
open Key VKey Table Levels LSM Kway GenKway

abbrev T := E × Nat

/-! ### the heap as a sorted list -/

theorem mem_hpush {α : Type} (lt : α → α → Bool) (x y : α) (l : List α) : y ∈ hpush lt x l ↔ y = x ∨ y ∈ l := by
  induction l with
  | nil => simp [hpush]
  | cons z zs ih =>
    simp only [hpush]
    split
    · simp
    · simp only [List.mem_cons, ih]
      constructor
      · rintro (h | h | h)
        · exact Or.inr (Or.inl h)
        · exact Or.inl h
        · exact Or.inr (Or.inr h)
      · rintro (h | h | h)
        · exact Or.inr (Or.inl h)
        · exact Or.inl h
        · exact Or.inr (Or.inr h)

theorem hpush_perm {α : Type} (lt : α → α → Bool) (x : α) (l : List α) : (hpush lt x l).Perm (x :: l) := by
  induction l with
  | nil => simp [hpush]
  | cons z zs ih =>
    simp only [hpush]
    split
    · exact List.Perm.refl _
    · exact (List.Perm.cons z ih).trans (List.Perm.swap x z zs)

theorem hpush_length {α : Type} (lt : α → α → Bool) (x : α) (l : List α) : (hpush lt x l).length = l.length + 1 := by
  simpa using (hpush_perm lt x l).length_eq

theorem less_irrefl (a : T) : less a a = false := by
  simp [less, vlt_irrefl]

theorem less_asymm (a b : T) (h : less a b = true) : less b a = false := by
  cases hb : less b a with
  | false => rfl
  | true => have := less_trans _ _ _ h hb; rw [less_irrefl] at this; cases this

/-- the heap order: nothing further back is `less` than something further in front -/
def HSorted (h : List T) : Prop := h.Pairwise (fun a b => less b a = false)

theorem hpush_sorted (x : T) (h : List T) (hs : HSorted h) : HSorted (hpush less x h) := by
  induction h with
  | nil => simp [hpush, HSorted]
  | cons y ys ih =>
    obtain ⟨hy, hys⟩ := List.pairwise_cons.mp hs
    simp only [hpush]
    cases hl : less x y with
    | true =>
      simp only [↓reduceIte]
      refine List.pairwise_cons.mpr ⟨?_, hs⟩
      intro z hz
      rcases List.mem_cons.mp hz with rfl | hz
      · exact less_asymm _ _ hl
      · cases hzx : less z x with
        | false => rfl
        | true => have := less_trans _ _ _ hzx hl; rw [hy z hz] at this; cases this
    | false =>
      simp only [Bool.false_eq_true, ↓reduceIte]
      refine List.pairwise_cons.mpr ⟨?_, ih hys⟩
      intro z hz
      rcases (mem_hpush less x z ys).mp hz with rfl | hz
      · exact hl
      · exact hy z hz

theorem find_hpush_ne (x : T) (h : List T) (i : Nat) (hne : x.2 ≠ i) :
    (hpush less x h).find? (fun y => y.2 == i) = h.find? (fun y => y.2 == i) := by
  induction h with
  | nil => simp [hpush, hne]
  | cons y ys ih =>
    simp only [hpush]
    split
    · simp [List.find?_cons, hne]
    · simp only [List.find?_cons, ih]

theorem find_none_of_not_mem (h : List T) (i : Nat) (hn : ∀ y ∈ h, y.2 ≠ i) : h.find? (fun y => y.2 == i) = none := by
  simp only [List.find?_eq_none, beq_iff_eq]
  exact hn

theorem find_hpush_self (x : T) (h : List T) (hn : ∀ y ∈ h, y.2 ≠ x.2) :
    (hpush less x h).find? (fun y => y.2 == x.2) = some x := by
  induction h with
  | nil => simp [hpush]
  | cons y ys ih =>
    simp only [hpush]
    split
    · simp
    · have hy : (y.2 == x.2) = false := by simpa using hn y (by simp)
      rw [List.find?_cons, hy]
      exact ih (fun z hz => hn z (by simp [hz]))

/-! ### the pop loop -/

/-- the state of the loop as the model sees it: per input list its element in the heap (if any) and what is left of it -/
def absCs (h : List T) (ls : List (List E)) : List Cur :=
  (List.range ls.length).map fun i => ⟨i, (h.find? (fun y => y.2 == i)).map (·.1), ls.getD i []⟩

/-- the sequence of elements popped by the `for h.Len() > 0` loop of the translated code -/
def drain (dflt : E) : Nat → List T → List (List E) → List T
  | 0, _, _ => []
  | _ + 1, [], _ => []
  | f + 1, x :: ht, ls =>
    x :: (if 0 < (ls.getD x.2 []).length then
            drain dflt f (hpush less ((ls.getD x.2 []).headD dflt, x.2) ht) (ls.set x.2 (ls.getD x.2 []).tail)
          else drain dflt f ht ls)

/-- `latest[e.Key] = e.Entry` on the association list (keys kept unique) -/
def upd (latest : List (VK × E)) (x : T) : List (VK × E) := (x.1.key, x.1) :: latest.filter (fun kv => !(kv.1 == x.1.key))

/-- the translated loop pops `drain` and stores every popped entry under its key -/
theorem loop_eq (dflt : E) (exit : List T → List (List E) → List (VK × E) → List E → List E)
    (hexit : ∀ h ls h' ls' la m, exit h ls la m = exit h' ls' la m)
    (fuel : Nat) (h : List T) (ls : List (List E)) (latest : List (VK × E)) (merged : List E) :
    GenKway.merge.loop2 (fun (e : E) => e.key) less dflt exit fuel h ls latest merged =
      exit [] [] ((drain dflt fuel h ls).foldl upd latest) merged := by
  induction fuel generalizing h ls latest with
  | zero => simp only [GenKway.merge.loop2, drain, List.foldl_nil]; exact hexit _ _ _ _ _ _
  | succ f ih =>
    cases h with
    | nil => simp only [GenKway.merge.loop2, drain, List.foldl_nil, List.length_nil, Nat.lt_irrefl, decide_false, Bool.false_eq_true, ↓reduceIte]; exact hexit _ _ _ _ _ _
    | cons x ht =>
      simp only [GenKway.merge.loop2, drain, List.length_cons, Nat.zero_lt_succ, decide_true, ↓reduceIte, List.headD_cons, List.tail_cons, List.foldl_cons]
      by_cases hl : 0 < (ls.getD x.2 []).length
      · simp only [hl, decide_true, ↓reduceIte]
        rw [ih]; rfl
      · simp only [hl, decide_false, Bool.false_eq_true, ↓reduceIte]
        rw [ih]; rfl

/-- what the loop needs to know about the heap -/
structure HInv (h : List T) (ls : List (List E)) : Prop where
  sorted : HSorted h
  nodup : (h.map (·.2)).Nodup
  bound : ∀ x ∈ h, x.2 < ls.length

theorem absCs_pop (dflt : E) (x : T) (ht : List T) (ls : List (List E)) (hi : HInv (x :: ht) ls) :
    popAt (absCs (x :: ht) ls) x.2 =
      if 0 < (ls.getD x.2 []).length then
        absCs (hpush less ((ls.getD x.2 []).headD dflt, x.2) ht) (ls.set x.2 (ls.getD x.2 []).tail)
      else absCs ht ls := by
  have hnd := hi.nodup
  simp only [List.map_cons, List.nodup_cons, List.mem_map, not_exists, not_and] at hnd
  have hnot : ∀ y ∈ ht, y.2 ≠ x.2 := fun y hy h => hnd.1 y hy h
  unfold popAt absCs
  rw [List.map_map]
  split
  · rename_i hl
    rw [List.length_set]
    apply List.map_congr_left
    intro i hir
    simp only [Function.comp]
    by_cases hix : i = x.2
    · subst hix
      simp only [↓reduceIte, Cur.adv]
      cases hr : ls.getD x.2 [] with
      | nil => rw [hr] at hl; simp at hl
      | cons y ys =>
        simp only [start, List.headD_cons, List.tail_cons]
        have hlen : x.2 < ls.length := hi.bound x (by simp)
        rw [find_hpush_self (y, x.2) ht hnot]
        simp [List.getD_eq_getElem?_getD, hlen]
    · simp only [hix, ↓reduceIte]
      have hne : x.2 ≠ i := fun h => hix h.symm
      have hxi : (x.2 == i) = false := by simpa using hne
      rw [List.find?_cons, hxi, find_hpush_ne _ _ _ (by simpa using hne)]
      simp [List.getD_eq_getElem?_getD, List.getElem?_set_ne hne]
  · rename_i hl
    apply List.map_congr_left
    intro i hir
    simp only [Function.comp]
    by_cases hix : i = x.2
    · subst hix
      simp only [↓reduceIte, Cur.adv]
      have hr : ls.getD x.2 [] = [] := by
        cases hr : ls.getD x.2 [] with
        | nil => rfl
        | cons y ys => rw [hr] at hl; simp at hl
      rw [hr, find_none_of_not_mem ht x.2 hnot]
      simp [start]
    · simp only [hix, ↓reduceIte]
      have hne : x.2 ≠ i := fun h => hix h.symm
      have hxi : (x.2 == i) = false := by simpa using hne
      rw [List.find?_cons, hxi]

theorem hinv_pop (dflt : E) (x : T) (ht : List T) (ls : List (List E)) (hi : HInv (x :: ht) ls) :
    HInv (if 0 < (ls.getD x.2 []).length then hpush less ((ls.getD x.2 []).headD dflt, x.2) ht else ht)
      (if 0 < (ls.getD x.2 []).length then ls.set x.2 (ls.getD x.2 []).tail else ls) := by
  have hnd := hi.nodup
  simp only [List.map_cons, List.nodup_cons] at hnd
  have hs := List.pairwise_cons.mp hi.sorted
  split
  · refine ⟨hpush_sorted _ _ hs.2, ?_, ?_⟩
    · have hp := (hpush_perm less ((ls.getD x.2 []).headD dflt, x.2) ht).map (·.2)
      rw [hp.nodup_iff]
      simpa using hnd
    · intro y hy
      rw [List.length_set]
      rcases (mem_hpush _ _ _ _).mp hy with rfl | hy
      · exact hi.bound x (by simp)
      · exact hi.bound y (by simp [hy])
  · exact ⟨hs.2, hnd.2, fun y hy => hi.bound y (by simp [hy])⟩

/-- what is left to pop -/
def todo (h : List T) (ls : List (List E)) : Nat := h.length + (ls.map List.length).sum

theorem sum_set_tail (ls : List (List E)) (i : Nat) (y : E) (ys : List E) (hr : ls.getD i [] = y :: ys) :
    ((ls.set i ys).map List.length).sum + 1 = (ls.map List.length).sum := by
  induction ls generalizing i with
  | nil => simp at hr
  | cons l rest ih =>
    cases i with
    | zero =>
      simp only [List.getD_cons_zero] at hr
      subst hr
      simp only [List.set_cons_zero, List.map_cons, List.sum_cons, List.length_cons]; omega
    | succ i =>
      simp only [List.getD_cons_succ] at hr
      simp only [List.set_cons_succ, List.map_cons, List.sum_cons]
      have := ih i hr
      omega

/-- the pops of the translated loop are a run of the model: every popped element is a minimum of the heap -/
theorem run_drain (dflt : E) (fuel : Nat) (h : List T) (ls : List (List E)) (hi : HInv h ls) (hf : todo h ls ≤ fuel) :
    Run (absCs h ls) (drain dflt fuel h ls) := by
  induction fuel generalizing h ls with
  | zero =>
    have : h = [] := List.eq_nil_of_length_eq_zero (by unfold todo at hf; omega)
    subst this
    simp only [drain]
    refine Run.done ?_
    intro c hc
    simp only [absCs, List.mem_map] at hc
    obtain ⟨i, _, rfl⟩ := hc
    rfl
  | succ f ih =>
    cases h with
    | nil =>
      simp only [drain]
      refine Run.done ?_
      intro c hc
      simp only [absCs, List.mem_map] at hc
      obtain ⟨i, _, rfl⟩ := hc
      rfl
    | cons x ht =>
      simp only [drain]
      have hxl : x.2 < ls.length := hi.bound x (by simp)
      let c : Cur := ⟨x.2, some x.1, ls.getD x.2 []⟩
      have hc : c ∈ absCs (x :: ht) ls := by
        simp only [absCs, List.mem_map, List.mem_range]
        exact ⟨x.2, hxl, by simp [c, List.find?_cons]⟩
      have hmin : IsMin (absCs (x :: ht) ls) c x.1 := by
        refine ⟨hc, rfl, ?_⟩
        intro c' hc' e' he'
        simp only [absCs, List.mem_map, List.mem_range] at hc'
        obtain ⟨i, _, rfl⟩ := hc'
        simp only [Option.map_eq_some_iff] at he'
        obtain ⟨y, hy, rfl⟩ := he'
        have hyi : y.2 = i := by simpa using List.find?_some hy
        have hym : y ∈ x :: ht := List.mem_of_find?_eq_some hy
        show less (y.1, i) (x.1, c.li) = false
        rw [← hyi]
        rcases List.mem_cons.mp hym with rfl | hyt
        · exact less_irrefl _
        · exact (List.pairwise_cons.mp hi.sorted).1 y hyt
      have hpop := absCs_pop dflt x ht ls hi
      have hinv := hinv_pop dflt x ht ls hi
      have hrun : Run (popAt (absCs (x :: ht) ls) c.li)
          (if 0 < (ls.getD x.2 []).length then
            drain dflt f (hpush less ((ls.getD x.2 []).headD dflt, x.2) ht) (ls.set x.2 (ls.getD x.2 []).tail)
          else drain dflt f ht ls) := by
        show Run (popAt (absCs (x :: ht) ls) x.2) _
        rw [hpop]
        by_cases hl : 0 < (ls.getD x.2 []).length
        · simp only [hl, ↓reduceIte] at hinv ⊢
          apply ih _ _ hinv
          cases hr : ls.getD x.2 [] with
          | nil => rw [hr] at hl; simp at hl
          | cons y ys =>
            have := sum_set_tail ls x.2 y ys hr
            simp only [todo, hpush_length, List.tail_cons, List.length_cons] at hf ⊢
            omega
        · simp only [hl, ↓reduceIte] at hinv ⊢
          apply ih _ _ hinv
          simp only [todo, List.length_cons] at hf ⊢
          omega
      exact Run.pop hmin hrun

/-! ### the first loop: the heads of the lists go to the heap -/

def step1 (dflt : E) (st : List T × List (List E)) (kv : List E × Nat) : List T × List (List E) :=
  if 0 < kv.1.length then (hpush less (kv.1.headD dflt, kv.2) st.1, st.2.set kv.2 kv.1.tail) else st

theorem phase1_eq {γ δ : Type} (dflt : E) (exit : List T → List (List E) → γ → δ → List E) (xs : List (List E × Nat))
    (h : List T) (ls : List (List E)) (la : γ) (m : δ) :
    List.foldr (fun (kv : List E × Nat) kont1 => fun (h : List T) (lists : List (List E)) (latest : γ) (merged : δ) =>
        if decide (0 < kv.fst.length) = true then
          kont1 (hpush less (kv.fst.headD dflt, kv.snd) h) (lists.set kv.snd kv.fst.tail) latest merged
        else kont1 h lists latest merged) exit xs h ls la m =
      exit (xs.foldl (step1 dflt) (h, ls)).1 (xs.foldl (step1 dflt) (h, ls)).2 la m := by
  induction xs generalizing h ls with
  | nil => rfl
  | cons kv rest ih =>
    simp only [List.foldr_cons, List.foldl_cons, step1]
    by_cases hl : 0 < kv.1.length
    · simp only [hl, decide_true, ↓reduceIte]; exact ih _ _
    · simp only [hl, decide_false, Bool.false_eq_true, ↓reduceIte]; exact ih _ _

/-- the state after the first `j` lists have been looked at -/
structure Q (lists : List (List E)) (j : Nat) (st : List T × List (List E)) : Prop where
  len : st.2.length = lists.length
  rest : ∀ i, st.2.getD i [] = if i < j then (lists.getD i []).tail else lists.getD i []
  find : ∀ i, st.1.find? (fun y => y.2 == i) = if i < j then (lists.getD i []).head?.map (fun e => (e, i)) else none
  sorted : HSorted st.1
  nodup : (st.1.map (·.2)).Nodup
  bound : ∀ x ∈ st.1, x.2 < j
  todo : todo st.1 st.2 = (lists.map List.length).sum

theorem q_step (dflt : E) (lists pre suf : List (List E)) (l : List E) (hl : lists = pre ++ l :: suf)
    (st : List T × List (List E)) (hq : Q lists pre.length st) : Q lists (pre.length + 1) (step1 dflt st (l, pre.length)) := by
  have hk : pre.length < lists.length := by rw [hl]; simp
  have hget : lists.getD pre.length [] = l := by
    rw [hl]; simp [List.getD_eq_getElem?_getD]
  have hcur : st.2.getD pre.length [] = l := by rw [hq.rest, if_neg (Nat.lt_irrefl _)]; exact hget
  have hget' : lists[pre.length]?.getD [] = l := by simpa [List.getD_eq_getElem?_getD] using hget
  have hnot : ∀ z ∈ st.1, z.2 ≠ pre.length := fun z hz h => by have := hq.bound z hz; omega
  cases l with
  | nil =>
    simp only [step1, List.length_nil, Nat.lt_irrefl, ↓reduceIte]
    refine ⟨hq.len, ?_, ?_, hq.sorted, hq.nodup, fun x hx => by have := hq.bound x hx; omega, hq.todo⟩
    · intro i
      rw [hq.rest]
      by_cases h1 : i < pre.length
      · simp [h1, Nat.lt_succ_of_lt h1]
      · by_cases h2 : i = pre.length
        · subst h2; simp [hget, hget']
        · have : ¬ i < pre.length + 1 := by omega
          simp [h1, this]
    · intro i
      rw [hq.find]
      by_cases h1 : i < pre.length
      · simp [h1, Nat.lt_succ_of_lt h1]
      · by_cases h2 : i = pre.length
        · subst h2; simp [hget, hget']
        · have : ¬ i < pre.length + 1 := by omega
          simp [h1, this]
  | cons y ys =>
    simp only [step1, List.length_cons, Nat.zero_lt_succ, ↓reduceIte, List.headD_cons, List.tail_cons]
    refine ⟨by simp [hq.len], ?_, ?_, hpush_sorted _ _ hq.sorted, ?_, ?_, ?_⟩
    · intro i
      by_cases h2 : i = pre.length
      · subst h2
        have : pre.length < st.2.length := by rw [hq.len]; exact hk
        simp [List.getD_eq_getElem?_getD, this, hget, hget']
      · have hne : pre.length ≠ i := fun h => h2 h.symm
        have h3 : (st.2.set pre.length ys).getD i [] = st.2.getD i [] := by
          simp [List.getD_eq_getElem?_getD, List.getElem?_set_ne hne]
        rw [h3, hq.rest]
        by_cases h1 : i < pre.length
        · simp [h1, Nat.lt_succ_of_lt h1]
        · have : ¬ i < pre.length + 1 := by omega
          simp [h1, this]
    · intro i
      by_cases h2 : i = pre.length
      · subst h2
        rw [find_hpush_self (y, pre.length) st.1 hnot]
        simp [hget, hget']
      · have hne : pre.length ≠ i := fun h => h2 h.symm
        rw [find_hpush_ne (y, pre.length) st.1 i hne, hq.find]
        by_cases h1 : i < pre.length
        · simp [h1, Nat.lt_succ_of_lt h1]
        · have : ¬ i < pre.length + 1 := by omega
          simp [h1, this]
    · have hp := (hpush_perm less (y, pre.length) st.1).map (·.2)
      rw [hp.nodup_iff]
      simp only [List.map_cons, List.nodup_cons, List.mem_map, not_exists, not_and]
      exact ⟨fun z hz h => hnot z hz h, hq.nodup⟩
    · intro x hx
      rcases (mem_hpush _ _ _ _).mp hx with rfl | hx
      · simp
      · have := hq.bound x hx; omega
    · have h1 := sum_set_tail st.2 pre.length y ys hcur
      have h2 := hq.todo
      simp only [KwayTie.todo, hpush_length] at h2 ⊢
      omega

theorem q_fold (dflt : E) (lists : List (List E)) (suf pre : List (List E)) (hl : lists = pre ++ suf)
    (st : List T × List (List E)) (hq : Q lists pre.length st) :
    Q lists lists.length ((suf.zipIdx pre.length).foldl (step1 dflt) st) := by
  induction suf generalizing pre st with
  | nil =>
    have : lists.length = pre.length := by rw [hl]; simp
    simpa [this] using hq
  | cons l rest ih =>
    simp only [List.zipIdx_cons, List.foldl_cons]
    have := ih (pre ++ [l]) (by rw [hl]; simp) (step1 dflt st (l, pre.length)) (by simpa using q_step dflt lists pre rest l hl st hq)
    simpa using this

theorem initFrom_range (k : Nat) (ls : List (List E)) :
    initFrom k ls = (List.range ls.length).map fun i => start (k + i) (ls.getD i []) := by
  induction ls generalizing k with
  | nil => rfl
  | cons l rest ih =>
    simp only [initFrom, List.length_cons, List.range_succ_eq_map, List.map_cons, List.map_map]
    refine List.cons_eq_cons.mpr ⟨by simp, ?_⟩
    rw [ih (k + 1)]
    apply List.map_congr_left
    intro i _
    simp only [Function.comp, List.getD_cons_succ]
    congr 1
    omega

theorem absCs_init (lists : List (List E)) (st : List T × List (List E)) (hq : Q lists lists.length st) :
    absCs st.1 st.2 = initFrom 0 lists := by
  rw [initFrom_range, absCs, hq.len]
  apply List.map_congr_left
  intro i hi
  have hi' : i < lists.length := List.mem_range.mp hi
  rw [hq.find, hq.rest]
  simp only [hi', ↓reduceIte, Nat.zero_add]
  cases lists.getD i [] with
  | nil => rfl
  | cons y ys => rfl

/-! ### the map `latest` and the last loop -/

def vals (L : List (VK × E)) : List E := L.map (·.2)

structure LInv (L : List (VK × E)) : Prop where
  key : ∀ kv ∈ L, kv.1 = kv.2.key
  nodup : (L.map (·.1)).Nodup

theorem upd_inv (L : List (VK × E)) (x : T) (h : LInv L) : LInv (upd L x) := by
  refine ⟨?_, ?_⟩
  · intro kv hkv
    rcases List.mem_cons.mp hkv with rfl | hkv
    · rfl
    · exact h.key kv (List.mem_filter.mp hkv).1
  · simp only [upd, List.map_cons, List.nodup_cons, List.mem_map, not_exists, not_and]
    refine ⟨?_, (h.nodup.sublist ((List.filter_sublist).map _))⟩
    intro kv hkv heq
    have := (List.mem_filter.mp hkv).2
    simp [heq] at this

theorem mem_vals_upd (L : List (VK × E)) (x : T) (h : LInv L) (e : E) :
    e ∈ vals (upd L x) ↔ e = x.1 ∨ (e ∈ vals L ∧ e.key ≠ x.1.key) := by
  simp only [vals, upd, List.map_cons, List.mem_cons, List.mem_map, List.mem_filter, Bool.not_eq_eq_eq_not, Bool.not_true,
    beq_eq_false_iff_ne, ne_eq]
  constructor
  · rintro (h1 | ⟨kv, ⟨hkv, hne⟩, rfl⟩)
    · exact Or.inl h1
    · exact Or.inr ⟨⟨kv, hkv, rfl⟩, by rw [← h.key kv hkv]; exact hne⟩
  · rintro (h1 | ⟨⟨kv, hkv, rfl⟩, hne⟩)
    · exact Or.inl h1
    · exact Or.inr ⟨kv, ⟨hkv, by rw [h.key kv hkv]; exact hne⟩, rfl⟩

theorem lastT_cons (p : T) (rest : List T) (q : T) :
    LastT (p :: rest) q ↔ (q = p ∧ ∀ r ∈ rest, r.1.key ≠ q.1.key) ∨ LastT rest q := by
  constructor
  · rintro ⟨pre, post, heq, hpost⟩
    cases pre with
    | nil =>
      simp only [List.nil_append, List.cons.injEq] at heq
      exact Or.inl ⟨heq.1.symm, by rw [heq.2]; exact hpost⟩
    | cons a pre' =>
      simp only [List.cons_append, List.cons.injEq] at heq
      exact Or.inr ⟨pre', post, heq.2, hpost⟩
  · rintro (⟨rfl, h⟩ | ⟨pre, post, rfl, hpost⟩)
    · exact ⟨[], rest, rfl, h⟩
    · exact ⟨p :: pre, post, rfl, hpost⟩

theorem mem_vals_foldl (out : List T) (L0 : List (VK × E)) (h0 : LInv L0) :
    LInv (out.foldl upd L0) ∧
    ∀ e, e ∈ vals (out.foldl upd L0) ↔ (∃ li, LastT out (e, li)) ∨ (e ∈ vals L0 ∧ ∀ q ∈ out, q.1.key ≠ e.key) := by
  induction out generalizing L0 with
  | nil =>
    refine ⟨h0, fun e => ?_⟩
    simp only [List.foldl_nil, List.not_mem_nil, false_implies, implies_true, and_true]
    constructor
    · exact Or.inr
    · rintro (⟨li, pre, post, h, _⟩ | h)
      · cases pre <;> cases h
      · exact h
  | cons p rest ih =>
    obtain ⟨hi, hm⟩ := ih (upd L0 p) (upd_inv L0 p h0)
    refine ⟨hi, fun e => ?_⟩
    simp only [List.foldl_cons]
    rw [hm e, mem_vals_upd L0 p h0]
    constructor
    · rintro (⟨li, hl⟩ | ⟨h1 | ⟨h1, h2⟩, h3⟩)
      · exact Or.inl ⟨li, (lastT_cons _ _ _).mpr (Or.inr hl)⟩
      · exact Or.inl ⟨p.2, (lastT_cons _ _ _).mpr (Or.inl ⟨by rw [h1], h3⟩)⟩
      · refine Or.inr ⟨h1, ?_⟩
        intro q hq
        rcases List.mem_cons.mp hq with rfl | hq
        · exact fun h => h2 h.symm
        · exact h3 q hq
    · rintro (⟨li, hl⟩ | ⟨h1, h2⟩)
      · rcases (lastT_cons _ _ _).mp hl with ⟨rfl, h⟩ | h
        · exact Or.inr ⟨Or.inl rfl, h⟩
        · exact Or.inl ⟨li, h⟩
      · exact Or.inr ⟨Or.inr ⟨h1, fun h => h2 p (by simp) h.symm⟩, fun q hq => h2 q (by simp [hq])⟩

theorem phase3_aux (sort : List E → List E) (xs : List (VK × E)) (h : List T) (ls : List (List E)) (la : List (VK × E)) (m : List E) :
    List.foldr (fun (kv : VK × E) kont3 => fun (h : List T) (lists : List (List E)) (latest : List (VK × E)) (merged : List E) =>
        kont3 h lists latest (merged ++ [kv.snd]))
      (fun h lists latest merged => sort merged) xs h ls la m = sort (m ++ vals xs) := by
  induction xs generalizing m with
  | nil => simp [vals]
  | cons kv rest ih =>
    simp only [List.foldr_cons]
    rw [ih]
    simp [vals]

theorem phase3_eq (sort : List E → List E) (xs : List (VK × E)) (h : List T) (ls : List (List E)) (la : List (VK × E)) (m : List E) :
    List.foldr (fun (kv : VK × E) kont3 => fun (h : List T) (lists : List (List E)) (latest : List (VK × E)) (merged : List E) =>
        if (kv.snd.tomb && !true) = true then kont3 h lists latest merged
        else kont3 h lists latest (merged ++ [kv.snd]))
      (fun h lists latest merged => sort merged) xs h ls la m = sort (m ++ vals xs) := by
  simp only [Bool.not_true, Bool.and_false, Bool.false_eq_true, ↓reduceIte]
  exact phase3_aux sort xs h ls la m

/-- **the translated `kway.merge` with `keepTombstone = true` (`MergeVersions`) is the specification**: for strictly sorted
    input lists, with the heap of container/heap taken as a sorted list and `slices.SortFunc` as any function that sorts
    lists of distinct keys, the result is `LSM.mergeVersions lists` -/
theorem merge_eq (sort : List E → List E)
    (hsort : ∀ l : List E, (l.map (·.key)).Nodup → SortedE vlt (sort l) ∧ ∀ x, x ∈ sort l ↔ x ∈ l)
    (dflt : E) (lists : List (List E)) (hs : ∀ l ∈ lists, SortedE vlt l) :
    GenKway.merge (fun (e : E) => e.key) (fun e => e.tomb) less sort dflt true lists = mergeVersions lists := by
  unfold GenKway.merge
  dsimp only
  rw [phase1_eq]
  have hq0 : Q lists ([] : List (List E)).length (([] : List T), lists) :=
    ⟨rfl, fun i => by simp, fun i => by simp, List.Pairwise.nil, by simp, fun x hx => (by cases hx), by simp [todo]⟩
  have hq := q_fold dflt lists lists [] rfl _ hq0
  simp only [List.length_nil] at hq
  generalize hst : List.foldl (step1 dflt) (([] : List T), lists) lists.zipIdx = st at hq ⊢
  rw [loop_eq dflt _ (fun h ls h' ls' la m => by rw [phase3_eq, phase3_eq])]
  rw [phase3_eq]
  simp only [List.nil_append]
  have hi : HInv st.1 st.2 := ⟨hq.sorted, hq.nodup, fun x hx => by rw [hq.len]; exact hq.bound x hx⟩
  have hrun := run_drain dflt ((List.map List.length lists).sum + 1) st.1 st.2 hi (by rw [hq.todo]; omega)
  rw [absCs_init lists st hq] at hrun
  obtain ⟨hli, hmem⟩ := mem_vals_foldl (drain dflt ((List.map List.length lists).sum + 1) st.1 st.2) [] ⟨fun _ h => (by cases h), by simp⟩
  have hnd : ((vals (List.foldl upd [] (drain dflt ((List.map List.length lists).sum + 1) st.1 st.2))).map (·.key)).Nodup := by
    have : (vals (List.foldl upd [] (drain dflt ((List.map List.length lists).sum + 1) st.1 st.2))).map (·.key) =
        (List.foldl upd [] (drain dflt ((List.map List.length lists).sum + 1) st.1 st.2)).map (·.1) := by
      simp only [vals, List.map_map]
      apply List.map_congr_left
      intro kv hkv
      exact (hli.key kv hkv).symm
    rw [this]; exact hli.nodup
  obtain ⟨hsorted, hsmem⟩ := hsort _ hnd
  refine run_eq_spec lists hs hrun _ hsorted ?_
  intro x
  rw [hsmem, hmem]
  simp [vals]

/-- a sort function that meets the hypothesis of `merge_eq` (insertion sort), so the hypothesis is satisfiable -/
def isort (l : List E) : List E := mergeVersions [l]

theorem isort_spec (l : List E) (hn : (l.map (·.key)).Nodup) : SortedE vlt (isort l) ∧ ∀ x, x ∈ isort l ↔ x ∈ l := by
  refine ⟨mergeVersions_sorted [l], fun x => ?_⟩
  unfold isort
  rw [mem_mergeVersions]
  simp only [List.flatten_cons, List.flatten_nil, List.append_nil]
  constructor
  · rintro ⟨pre, post, rfl, _⟩; simp
  · intro hx
    obtain ⟨pre, post, rfl⟩ := List.append_of_mem hx
    refine ⟨pre, post, rfl, ?_⟩
    intro y hy heq
    simp only [List.map_append, List.map_cons, List.nodup_append, List.nodup_cons, List.mem_map, not_exists, not_and] at hn
    exact hn.2.1.1 y hy heq

/-! ### `kway.Merge` (`keepTombstone = false`) -/

theorem phase3_drop_aux (sort : List E → List E) (xs : List (VK × E)) (h : List T) (ls : List (List E)) (la : List (VK × E)) (m : List E) :
    List.foldr (fun (kv : VK × E) kont3 => fun (h : List T) (lists : List (List E)) (latest : List (VK × E)) (merged : List E) =>
        if kv.snd.tomb = true then kont3 h lists latest merged
        else kont3 h lists latest (merged ++ [kv.snd]))
      (fun h lists latest merged => sort merged) xs h ls la m = sort (m ++ (vals xs).filter (fun e => !e.tomb)) := by
  induction xs generalizing m with
  | nil => simp [vals]
  | cons kv rest ih =>
    simp only [List.foldr_cons]
    cases ht : kv.2.tomb
    · simp only [Bool.false_eq_true, ↓reduceIte]
      rw [ih]
      simp [vals, ht]
    · simp only [↓reduceIte]
      rw [ih]
      simp [vals, ht]

theorem phase3_drop (sort : List E → List E) (xs : List (VK × E)) (h : List T) (ls : List (List E)) (la : List (VK × E)) (m : List E) :
    List.foldr (fun (kv : VK × E) kont3 => fun (h : List T) (lists : List (List E)) (latest : List (VK × E)) (merged : List E) =>
        if (kv.snd.tomb && !false) = true then kont3 h lists latest merged
        else kont3 h lists latest (merged ++ [kv.snd]))
      (fun h lists latest merged => sort merged) xs h ls la m = sort (m ++ (vals xs).filter (fun e => !e.tomb)) := by
  simp only [Bool.not_false, Bool.and_true]
  exact phase3_drop_aux sort xs h ls la m

/-- **the translated `kway.merge` with `keepTombstone = false` (`Merge`)** is the specification `LSM.merge`: the merged versions
    without the tombstones -/
theorem merge_drop_eq (sort : List E → List E)
    (hsort : ∀ l : List E, (l.map (·.key)).Nodup → SortedE vlt (sort l) ∧ ∀ x, x ∈ sort l ↔ x ∈ l)
    (dflt : E) (lists : List (List E)) (hs : ∀ l ∈ lists, SortedE vlt l) :
    GenKway.merge (fun (e : E) => e.key) (fun e => e.tomb) less sort dflt false lists = LSM.merge lists := by
  unfold GenKway.merge
  dsimp only
  rw [phase1_eq]
  have hq0 : Q lists ([] : List (List E)).length (([] : List T), lists) :=
    ⟨rfl, fun i => by simp, fun i => by simp, List.Pairwise.nil, by simp, fun x hx => (by cases hx), by simp [todo]⟩
  have hq := q_fold dflt lists lists [] rfl _ hq0
  simp only [List.length_nil] at hq
  generalize hst : List.foldl (step1 dflt) (([] : List T), lists) lists.zipIdx = st at hq ⊢
  rw [loop_eq dflt _ (fun h ls h' ls' la m => by rw [phase3_drop, phase3_drop])]
  rw [phase3_drop]
  simp only [List.nil_append]
  have hi : HInv st.1 st.2 := ⟨hq.sorted, hq.nodup, fun x hx => by rw [hq.len]; exact hq.bound x hx⟩
  have hrun := run_drain dflt ((List.map List.length lists).sum + 1) st.1 st.2 hi (by rw [hq.todo]; omega)
  rw [absCs_init lists st hq] at hrun
  obtain ⟨hli, hmem⟩ := mem_vals_foldl (drain dflt ((List.map List.length lists).sum + 1) st.1 st.2) [] ⟨fun _ h => (by cases h), by simp⟩
  generalize List.foldl upd [] (drain dflt ((List.map List.length lists).sum + 1) st.1 st.2) = latest at hli hmem ⊢
  have hnd : ((vals latest).map (·.key)).Nodup := by
    have : (vals latest).map (·.key) = latest.map (·.1) := by
      simp only [vals, List.map_map]
      apply List.map_congr_left
      intro kv hkv
      exact (hli.key kv hkv).symm
    rw [this]; exact hli.nodup
  -- the values of `latest` are the members of `mergeVersions lists` (through any sort that meets the hypothesis: `isort`)
  have hvals : ∀ x, x ∈ vals latest ↔ x ∈ mergeVersions lists := by
    obtain ⟨hs1, hm1⟩ := isort_spec (vals latest) hnd
    have := run_eq_spec lists hs hrun (isort (vals latest)) hs1 (by intro x; rw [hm1, hmem]; simp [vals])
    intro x; rw [← this, hm1]
  have hndf : (((vals latest).filter (fun e => !e.tomb)).map (·.key)).Nodup :=
    hnd.sublist ((List.filter_sublist).map _)
  obtain ⟨hsorted, hsmem⟩ := hsort _ hndf
  unfold LSM.merge
  apply sorted_ext _ _ hsorted ((mergeVersions_sorted lists).sublist List.filter_sublist)
  intro x
  rw [hsmem, List.mem_filter, List.mem_filter, hvals]


end KwayTie
