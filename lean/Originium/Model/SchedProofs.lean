import Originium.Model.Sched
/-! No reachable state of the blocking model is stuck (C15), and a variant decreases (bounded progress). -/
namespace Sched

theorem inv_init (cap nc nr : Nat) : Inv (init cap nc nr) := by
  refine ⟨by simp [init], by simp [init], ?_, by simp [init], by simp [init], by simp [init], by simp [init],
    by simp [init], by simp [init], by simp [init]⟩
  intro h; rcases h with h | h | h <;> simp [init] at h

theorem lockFree_iff (s : St) : lockFree s = true ↔
    s.cLocked = none ∧ s.cl ≠ ClPc.sendClose ∧ s.cl ≠ ClPc.waitClosed ∧ s.cl ≠ ClPc.flushActive := by
  unfold lockFree closerHolds
  cases s.cLocked <;> simp [and_assoc]

theorem inv_step {s s' : St} (h : Inv s) (st : Step) (hs : step s st = some s') : Inv s' := by
  cases st with
  | cCall =>
    simp only [step] at hs
    split at hs
    · simp only [Option.some.injEq] at hs; subst hs
      exact ⟨h.commCl, h.fExit, h.clF, h.fcl, h.fSel, h.dbK, h.qcap, h.markL, h.markN, h.rts⟩
    · cases hs
  | cLock rot =>
    simp only [step] at hs
    split at hs
    · rename_i hc
      obtain ⟨_, hfree⟩ := hc
      obtain ⟨hnone, h1, h2, h3⟩ := (lockFree_iff s).mp hfree
      split at hs
      · simp only [Option.some.injEq] at hs; subst hs
        exact ⟨h.commCl, h.fExit, h.clF, h.fcl, h.fSel, h.dbK, h.qcap, h.markL, h.markN, h.rts⟩
      · rename_i hdb
        simp only [Option.some.injEq] at hs; subst hs
        have hidle : s.cl = ClPc.idle := by
          cases hc : s.cl with
          | idle => rfl
          | _ => exact absurd (h.dbK.mpr (by rw [hc]; simp)) hdb
        have hm := h.markN hnone
        refine ⟨fun _ => Or.inl hidle, h.fExit, h.clF, h.fcl, h.fSel, h.dbK, h.qcap, ?_, (by simp), ?_⟩
        · intro _; simp only; omega
        · intro t ht; have := h.rts t ht; simp only; omega
    · cases hs
  | cApply =>
    simp only [step] at hs
    split at hs
    · rename_i hl
      simp only [Option.some.injEq] at hs; subst hs
      have hsome : s.cLocked.isSome = true := by rw [hl]; rfl
      exact ⟨fun _ => h.commCl hsome, h.fExit, h.clF, h.fcl, h.fSel, h.dbK, h.qcap, fun _ => h.markL hsome, (by simp), h.rts⟩
    · rename_i hl
      simp only [Option.some.injEq] at hs; subst hs
      have hsome : s.cLocked.isSome = true := by rw [hl]; rfl
      exact ⟨fun _ => h.commCl hsome, h.fExit, h.clF, h.fcl, h.fSel, h.dbK, h.qcap, fun _ => h.markL hsome, (by simp), h.rts⟩
    · cases hs
  | cSend =>
    simp only [step] at hs
    split at hs
    · rename_i hl
      have hsome : s.cLocked.isSome = true := by rw [hl]; rfl
      have hcl := h.commCl hsome
      have hnotlate : ¬ clLate s := by
        intro hh; rcases hcl with h1 | h1 <;> rcases hh with h2 | h2 | h2 <;> rw [h1] at h2 <;> cases h2
      have hfc : s.fClosed = false := by
        cases hf : s.fClosed with
        | false => rfl
        | true => exact absurd (h.fcl hf) hnotlate
      split at hs
      · rename_i hq
        simp only [Option.some.injEq] at hs; subst hs
        refine ⟨fun _ => hcl, h.fExit, h.clF, h.fcl, ?_, h.dbK, ?_, fun _ => h.markL hsome, (by simp), h.rts⟩
        · intro hf _; simp only at hf; rw [hfc] at hf; cases hf
        · simp only; omega
      · split at hs
        · rename_i hq hc
          simp only [Option.some.injEq] at hs; subst hs
          refine ⟨fun _ => hcl, ?_, h.clF, h.fcl, ?_, h.dbK, h.qcap, fun _ => h.markL hsome, (by simp), h.rts⟩
          · intro hf; simp at hf
          · intro _ hf; simp at hf
        · cases hs
    · cases hs
  | cFinish =>
    simp only [step] at hs
    split at hs
    · rename_i hl
      have hsome : s.cLocked.isSome = true := by rw [hl]; rfl
      simp only [Option.some.injEq] at hs; subst hs
      have hm := h.markL hsome
      refine ⟨(by simp), h.fExit, h.clF, h.fcl, h.fSel, h.dbK, h.qcap, (by simp), ?_, h.rts⟩
      intro _; simp only; omega
    · cases hs
  | rCall =>
    simp only [step] at hs
    split at hs
    · simp only [Option.some.injEq] at hs; subst hs
      refine ⟨h.commCl, h.fExit, h.clF, h.fcl, h.fSel, h.dbK, h.qcap, h.markL, h.markN, ?_⟩
      intro t ht
      simp only [List.mem_cons] at ht
      rcases ht with rfl | ht
      · cases hc : s.cLocked with
        | none => have := h.markN hc; simp only; omega
        | some x => have := h.markL (by rw [hc]; rfl); simp only; omega
      · exact h.rts t ht
    · cases hs
  | rWake j =>
    simp only [step] at hs
    split at hs
    · split at hs
      · simp only [Option.some.injEq] at hs; subst hs
        refine ⟨h.commCl, h.fExit, h.clF, h.fcl, h.fSel, h.dbK, h.qcap, h.markL, h.markN, ?_⟩
        intro t ht
        exact h.rts t (List.mem_of_mem_eraseIdx ht)
      · cases hs
    · cases hs
  | fRecv =>
    simp only [step] at hs
    split at hs
    · rename_i hc
      simp only [Option.some.injEq] at hs; subst hs
      refine ⟨h.commCl, ?_, h.clF, h.fcl, ?_, h.dbK, ?_, h.markL, h.markN, h.rts⟩
      · intro hf; simp at hf
      · intro _ hf; simp at hf
      · have := h.qcap; simp only; omega
    · cases hs
  | fRecvClose =>
    simp only [step] at hs
    split at hs
    · rename_i hc
      obtain ⟨hsel, hcl⟩ := hc
      have hnl : s.cLocked = none := by
        cases hl : s.cLocked with
        | none => rfl
        | some x =>
          rcases h.commCl (by rw [hl]; rfl) with h1 | h1 <;> rw [hcl] at h1 <;> cases h1
      have hdb : s.dbClosed = true := h.dbK.mpr (by rw [hcl]; simp)
      split at hs
      · rename_i hq
        simp only [Option.some.injEq] at hs; subst hs
        refine ⟨?_, ?_, fun _ => rfl, fun _ => Or.inl rfl, fun _ _ => hq, ?_, h.qcap, h.markL, h.markN, h.rts⟩
        · intro hh; simp only at hh; rw [hnl] at hh; cases hh
        · intro hf; simp only at hf; rw [hsel] at hf; cases hf
        · constructor
          · intro _; simp
          · intro _; exact hdb
      · simp only [Option.some.injEq] at hs; subst hs
        refine ⟨?_, fun _ => Or.inl rfl, fun _ => rfl, fun _ => Or.inl rfl, ?_, ?_, h.qcap, h.markL, h.markN, h.rts⟩
        · intro hh; simp only at hh; rw [hnl] at hh; cases hh
        · intro _ hf; simp at hf
        · constructor
          · intro _; simp
          · intro _; exact hdb
    · cases hs
  | fDone =>
    simp only [step] at hs
    split at hs
    · rename_i hfl
      split at hs
      · rename_i hc
        simp only [Option.some.injEq] at hs; subst hs
        exact ⟨h.commCl, fun _ => h.fcl hc.1, h.clF, h.fcl, (by intro _ hf; simp at hf), h.dbK, h.qcap, h.markL, h.markN, h.rts⟩
      · rename_i hc
        simp only [Option.some.injEq] at hs; subst hs
        refine ⟨h.commCl, (by intro hf; simp at hf), h.clF, h.fcl, ?_, h.dbK, h.qcap, h.markL, h.markN, h.rts⟩
        intro hfc _
        rcases Nat.eq_zero_or_pos s.q with hz | hp
        · exact absurd ⟨hfc, hz⟩ hc
        · exact hp
    · cases hs
  | clCall =>
    simp only [step] at hs
    split at hs
    · rename_i hidle
      simp only [Option.some.injEq] at hs; subst hs
      have hnl : ¬ clLate s := by intro hh; rcases hh with h1 | h1 | h1 <;> rw [hidle] at h1 <;> cases h1
      have hfc : s.fClosed = false := by
        cases hf : s.fClosed with
        | false => rfl
        | true => exact absurd (h.fcl hf) hnl
      refine ⟨fun _ => Or.inr rfl, ?_, ?_, ?_, h.fSel, ?_, h.qcap, h.markL, h.markN, h.rts⟩
      · intro hf; exact absurd (h.fExit hf) hnl
      · intro hh; rcases hh with h1 | h1 | h1 <;> simp at h1
      · intro hf; simp only at hf; rw [hfc] at hf; cases hf
      · constructor <;> intro _ <;> simp
    · cases hs
  | clLock =>
    simp only [step] at hs
    split at hs
    · rename_i hc
      obtain ⟨hw, hfree⟩ := hc
      obtain ⟨hnone, _, _, _⟩ := (lockFree_iff s).mp hfree
      simp only [Option.some.injEq] at hs; subst hs
      have hnl : ¬ clLate s := by intro hh; rcases hh with h1 | h1 | h1 <;> rw [hw] at h1 <;> cases h1
      have hfc : s.fClosed = false := by
        cases hf : s.fClosed with
        | false => rfl
        | true => exact absurd (h.fcl hf) hnl
      refine ⟨(by intro hh; simp only at hh; rw [hnone] at hh; cases hh), ?_, ?_, ?_, h.fSel, ?_, h.qcap, h.markL, h.markN, h.rts⟩
      · intro hf; exact absurd (h.fExit hf) hnl
      · intro hh; rcases hh with h1 | h1 | h1 <;> simp at h1
      · intro hf; simp only at hf; rw [hfc] at hf; cases hf
      · constructor
        · intro _; simp
        · intro _; exact h.dbK.mpr (by rw [hw]; simp)
    · cases hs
  | clClosed =>
    simp only [step] at hs
    split at hs
    · rename_i hc
      obtain ⟨hw, hex⟩ := hc
      have hnl : s.cLocked = none := by
        cases hl : s.cLocked with
        | none => rfl
        | some x => rcases h.commCl (by rw [hl]; rfl) with h1 | h1 <;> rw [hw] at h1 <;> cases h1
      simp only [Option.some.injEq] at hs; subst hs
      have hfc := h.clF (Or.inl hw)
      refine ⟨(by intro hh; simp only at hh; rw [hnl] at hh; cases hh), fun _ => Or.inr (Or.inl rfl), fun _ => hfc,
        fun _ => Or.inr (Or.inl rfl), h.fSel, ?_, h.qcap, h.markL, h.markN, h.rts⟩
      constructor
      · intro _; simp
      · intro _; exact h.dbK.mpr (by rw [hw]; simp)
    · cases hs
  | clFinish =>
    simp only [step] at hs
    split at hs
    · rename_i hw
      have hnl : s.cLocked = none := by
        cases hl : s.cLocked with
        | none => rfl
        | some x => rcases h.commCl (by rw [hl]; rfl) with h1 | h1 <;> rw [hw] at h1 <;> cases h1
      simp only [Option.some.injEq] at hs; subst hs
      have hfc := h.clF (Or.inr (Or.inl hw))
      refine ⟨(by intro hh; simp only at hh; rw [hnl] at hh; cases hh), fun _ => Or.inr (Or.inr rfl), fun _ => hfc,
        fun _ => Or.inr (Or.inr rfl), h.fSel, ?_, h.qcap, h.markL, h.markN, h.rts⟩
      constructor
      · intro _; simp
      · intro _; exact h.dbK.mpr (by rw [hw]; simp)
    · cases hs

theorem inv_reach {cap nc nr : Nat} {s : St} (hr : Reach cap nc nr s) : Inv s := by
  induction hr with
  | init => exact inv_init cap nc nr
  | step st _ hs ih => exact inv_step ih st hs

/-- **no stuck state**: whenever some call has not returned, some step is enabled -/
theorem not_stuck {s : St} (h : Inv s) (hu : Unfinished s) : ∃ st s', step s st = some s' := by
  -- the flusher at work always finishes its item
  cases hf : s.f with
  | flushing =>
    refine ⟨.fDone, ?_⟩
    simp only [step, hf, ↓reduceIte]
    split <;> exact ⟨_, rfl⟩
  | exited =>
    have hlate := h.fExit hf
    rcases hlate with hc | hc | hc
    · refine ⟨.clClosed, ?_⟩
      simp only [step, hc, hf, and_self, ↓reduceIte]; exact ⟨_, rfl⟩
    · refine ⟨.clFinish, ?_⟩
      simp only [step, hc, ↓reduceIte]; exact ⟨_, rfl⟩
    · -- Close has returned: nobody holds the lock; committers see the closed state, readers are served
      have hnl : s.cLocked = none := by
        cases hl : s.cLocked with
        | none => rfl
        | some x => rcases h.commCl (by rw [hl]; rfl) with h1 | h1 <;> rw [hc] at h1 <;> cases h1
      have hfree : lockFree s = true := (lockFree_iff s).mpr ⟨hnl, by rw [hc]; simp, by rw [hc]; simp, by rw [hc]; simp⟩
      rcases hu with hw | hl | hr | hcl
      · refine ⟨.cLock false, ?_⟩
        simp only [step, hw, hfree, and_self, ↓reduceIte]
        split <;> exact ⟨_, rfl⟩
      · rw [hnl] at hl; cases hl
      · cases hrw : s.rWait with
        | nil => exact absurd hrw hr
        | cons t rest =>
          have ht := h.rts t (by rw [hrw]; simp)
          have hm := h.markN hnl
          refine ⟨.rWake 0, ?_⟩
          simp only [step, hrw, List.getElem?_cons_zero]
          rw [if_pos (by omega)]
          exact ⟨_, rfl⟩
      · exact absurd hc hcl.2
  | select =>
    by_cases hq : 0 < s.q
    · refine ⟨.fRecv, ?_⟩
      simp only [step, hf, hq, and_self, ↓reduceIte]; exact ⟨_, rfl⟩
    · have hq0 : s.q = 0 := by omega
      have hfc : s.fClosed = false := by
        cases hfc : s.fClosed with
        | false => rfl
        | true => exact absurd (h.fSel hfc hf) hq
      have hnotlate : ¬ clLate s := fun hh => by rw [h.clF hh] at hfc; cases hfc
      cases hl : s.cLocked with
      | some pc =>
        cases pc with
        | inLock rot =>
          refine ⟨.cApply, ?_⟩
          simp only [step, hl]
          cases rot <;> exact ⟨_, rfl⟩
        | afterSend =>
          refine ⟨.cFinish, ?_⟩
          simp only [step, hl, ↓reduceIte]; exact ⟨_, rfl⟩
        | sending =>
          refine ⟨.cSend, ?_⟩
          simp only [step, hl, ↓reduceIte]
          by_cases hcap : s.q < s.cap
          · rw [if_pos hcap]; exact ⟨_, rfl⟩
          · have hc0 : s.cap = 0 := by have := h.qcap; omega
            rw [if_neg hcap, if_pos ⟨hc0, hf⟩]; exact ⟨_, rfl⟩
      | none =>
        cases hc : s.cl with
        | sendClose =>
          refine ⟨.fRecvClose, ?_⟩
          simp only [step, hf, hc, and_self, ↓reduceIte]
          split <;> exact ⟨_, rfl⟩
        | waitClosed => exact absurd (Or.inl hc) hnotlate
        | flushActive =>
          refine ⟨.clFinish, ?_⟩
          simp only [step, hc, ↓reduceIte]; exact ⟨_, rfl⟩
        | done => exact absurd (Or.inr (Or.inr hc)) hnotlate
        | wantLock =>
          have hfree : lockFree s = true := (lockFree_iff s).mpr ⟨hl, by rw [hc]; simp, by rw [hc]; simp, by rw [hc]; simp⟩
          refine ⟨.clLock, ?_⟩
          simp only [step, hc, hfree, and_self, ↓reduceIte]; exact ⟨_, rfl⟩
        | idle =>
          have hfree : lockFree s = true := (lockFree_iff s).mpr ⟨hl, by rw [hc]; simp, by rw [hc]; simp, by rw [hc]; simp⟩
          rcases hu with hw | hl' | hr | hcl
          · refine ⟨.cLock false, ?_⟩
            simp only [step, hw, hfree, and_self, ↓reduceIte]
            split <;> exact ⟨_, rfl⟩
          · rw [hl] at hl'; cases hl'
          · cases hrw : s.rWait with
            | nil => exact absurd hrw hr
            | cons t rest =>
              have ht := h.rts t (by rw [hrw]; simp)
              have hm := h.markN hl
              refine ⟨.rWake 0, ?_⟩
              simp only [step, hrw, List.getElem?_cons_zero]
              rw [if_pos (by omega)]
              exact ⟨_, rfl⟩
          · exact absurd hc hcl.1

end Sched

namespace Sched

def wL : Option LPc → Nat
  | none => 0
  | some (.inLock _) => 8
  | some .sending => 7
  | some .afterSend => 1

def wF : FPc → Nat
  | .flushing => 1
  | _ => 0

def wCl : ClPc → Nat
  | .idle => 5 | .wantLock => 4 | .sendClose => 3 | .waitClosed => 2 | .flushActive => 1 | .done => 0

/-- variant: an upper bound on the number of steps still possible -/
def measure (s : St) : Nat :=
  10 * s.cIdle + 9 * s.cWant + wL s.cLocked + 2 * s.rIdle + s.rWait.length + 2 * s.q + wF s.f + wCl s.cl

/-- every step strictly decreases the variant: no schedule can run forever, every call returns within
    a number of steps bounded by the size of the workload -/
theorem step_decreases {s s' : St} (st : Step) (hs : step s st = some s') : measure s' < measure s := by
  cases st with
  | cCall =>
    simp only [step] at hs
    split at hs
    · simp only [Option.some.injEq] at hs; subst hs; simp only [measure]; omega
    · cases hs
  | cLock rot =>
    simp only [step] at hs
    split at hs
    · rename_i hc
      have hnone := ((lockFree_iff s).mp hc.2).1
      split at hs
      · simp only [Option.some.injEq] at hs; subst hs; simp only [measure]; omega
      · simp only [Option.some.injEq] at hs; subst hs
        simp only [measure, hnone, wL]; omega
    · cases hs
  | cApply =>
    simp only [step] at hs
    split at hs
    · rename_i hl
      simp only [Option.some.injEq] at hs; subst hs; simp only [measure, hl, wL]; omega
    · rename_i hl
      simp only [Option.some.injEq] at hs; subst hs; simp only [measure, hl, wL]; omega
    · cases hs
  | cSend =>
    simp only [step] at hs
    split at hs
    · rename_i hl
      split at hs
      · simp only [Option.some.injEq] at hs; subst hs; simp only [measure, hl, wL]; omega
      · split at hs
        · rename_i _ hc
          simp only [Option.some.injEq] at hs; subst hs
          simp only [measure, hl, wL, hc.2, wF]; omega
        · cases hs
    · cases hs
  | cFinish =>
    simp only [step] at hs
    split at hs
    · rename_i hl
      simp only [Option.some.injEq] at hs; subst hs; simp only [measure, hl, wL]; omega
    · cases hs
  | rCall =>
    simp only [step] at hs
    split at hs
    · simp only [Option.some.injEq] at hs; subst hs; simp only [measure, List.length_cons]; omega
    · cases hs
  | rWake j =>
    simp only [step] at hs
    split at hs
    · rename_i t ht
      split at hs
      · simp only [Option.some.injEq] at hs; subst hs
        have hj : j < s.rWait.length := (List.getElem?_eq_some_iff.mp ht).1
        simp only [measure, List.length_eraseIdx, hj, ↓reduceIte]; omega
      · cases hs
    · cases hs
  | fRecv =>
    simp only [step] at hs
    split at hs
    · rename_i hc
      simp only [Option.some.injEq] at hs; subst hs
      simp only [measure, hc.1, wF]; omega
    · cases hs
  | fRecvClose =>
    simp only [step] at hs
    split at hs
    · rename_i hc
      split at hs
      · simp only [Option.some.injEq] at hs; subst hs; simp only [measure, hc.2, wCl]; omega
      · simp only [Option.some.injEq] at hs; subst hs; simp only [measure, hc.1, hc.2, wCl, wF]; omega
    · cases hs
  | fDone =>
    simp only [step] at hs
    split at hs
    · rename_i hf
      split at hs
      · simp only [Option.some.injEq] at hs; subst hs; simp only [measure, hf, wF]; omega
      · simp only [Option.some.injEq] at hs; subst hs; simp only [measure, hf, wF]; omega
    · cases hs
  | clCall =>
    simp only [step] at hs
    split at hs
    · rename_i hc
      simp only [Option.some.injEq] at hs; subst hs; simp only [measure, hc, wCl]; omega
    · cases hs
  | clLock =>
    simp only [step] at hs
    split at hs
    · rename_i hc
      simp only [Option.some.injEq] at hs; subst hs; simp only [measure, hc.1, wCl]; omega
    · cases hs
  | clClosed =>
    simp only [step] at hs
    split at hs
    · rename_i hc
      simp only [Option.some.injEq] at hs; subst hs; simp only [measure, hc.1, wCl]; omega
    · cases hs
  | clFinish =>
    simp only [step] at hs
    split at hs
    · rename_i hc
      simp only [Option.some.injEq] at hs; subst hs; simp only [measure, hc, wCl]; omega
    · cases hs

/-- when Close has returned: the flusher has exited, the queue is empty, nobody holds the lock —
    the directory can be reopened at once -/
theorem close_done {s : St} (h : Inv s) (hc : s.cl = ClPc.done) :
    s.f = FPc.exited ∨ (s.fClosed = true ∧ s.cLocked = none) := by
  right
  refine ⟨h.clF (Or.inr (Or.inr hc)), ?_⟩
  cases hl : s.cLocked with
  | none => rfl
  | some x => rcases h.commCl (by rw [hl]; rfl) with h1 | h1 <;> rw [hc] at h1 <;> cases h1

end Sched

namespace Sched

def runSteps (steps : List Step) (s : St) : Option St := steps.foldlM step s

theorem reach_foldlM {cap nc nr : Nat} (steps : List Step) (s s' : St) (hr : Reach cap nc nr s)
    (h : steps.foldlM step s = some s') : Reach cap nc nr s' := by
  induction steps generalizing s with
  | nil => simp at h; rw [← h]; exact hr
  | cons st rest ih =>
    simp only [List.foldlM_cons, Option.bind_eq_bind] at h
    cases h1 : step s st with
    | none => rw [h1] at h; simp at h
    | some s1 => rw [h1] at h; exact ih s1 (Reach.step st hr h1) h

theorem reach_run {cap nc nr : Nat} (steps : List Step) (s' : St)
    (h : runSteps steps (init cap nc nr) = some s') : Reach cap nc nr s' :=
  reach_foldlM steps _ s' Reach.init h

end Sched
