import Originium.Model.Levels
/-! Feasibility probe: C09 — replacing any set of tables by an accepted compaction output
    preserves every read at ts ≥ watermark. -/
namespace Compact
open Key VKey Table Levels

/-- acceptance predicate for a compaction output `out` of merged inputs `ins` under watermark `low` -/
structure Allowed (low : Nat) (ins out : List E) : Prop where
  sub : ∀ e ∈ out, e ∈ ins
  shadowed : ∀ e ∈ ins, e ∉ out →
    ∃ e' ∈ out, e'.key.user = e.key.user ∧ e.key.ts < e'.key.ts ∧ e'.key.ts ≤ low

/-- C09 (core): any accepted output answers every permitted read like the inputs did -/
theorem compaction_preserves {low : Nat} {ins out rest : List E} (h : Allowed low ins out)
    (k : Bytes) (r : Nat) (hr : low ≤ r) (res : Option E)
    (hn : IsNewest (rest ++ ins) k r res) : IsNewest (rest ++ out) k r res := by
  cases res with
  | none =>
    intro e he hu
    rcases List.mem_append.mp he with h' | h'
    · exact hn e (List.mem_append.mpr (Or.inl h')) hu
    · exact hn e (List.mem_append.mpr (Or.inr (h.sub e h'))) hu
  | some e =>
    obtain ⟨hmem, hu, hle, hmax⟩ := hn
    refine ⟨?_, hu, hle, ?_⟩
    · rcases List.mem_append.mp hmem with h' | h'
      · exact List.mem_append.mpr (Or.inl h')
      · by_cases ho : e ∈ out
        · exact List.mem_append.mpr (Or.inr ho)
        · obtain ⟨e', he', hu', hlt, hlow⟩ := h.shadowed e h' ho
          have := hmax e' (List.mem_append.mpr (Or.inr (h.sub e' he'))) (hu'.trans hu) (by omega)
          omega
    · intro e' he' hu' hr'
      rcases List.mem_append.mp he' with h' | h'
      · exact hmax e' (List.mem_append.mpr (Or.inl h')) hu' hr'
      · exact hmax e' (List.mem_append.mpr (Or.inr (h.sub e' h'))) hu' hr'

/-- the rule of discardStaleEntries as a filter: keep versions above the watermark and,
    per user key, the newest version at or below it -/
def keep (low : Nat) (es : List E) (e : E) : Bool :=
  decide (low < e.key.ts) ||
    !(es.any fun e' => e'.key.user == e.key.user && decide (e.key.ts < e'.key.ts) && decide (e'.key.ts ≤ low))

def discardStale (low : Nat) (es : List E) : List E :=
  if low = 0 then es else es.filter (keep low es)

theorem discardStale_allowed (low : Nat) (es : List E) : Allowed low es (discardStale low es) := by
  unfold discardStale
  split
  · exact ⟨fun _ h => h, fun e he hne => absurd he hne⟩
  · refine ⟨fun e he => (List.mem_filter.mp he).1, ?_⟩
    intro e he hne
    -- e was dropped: so ts ≤ low and some newer version ≤ low exists; take the newest such, it is kept
    have hk : keep low es e = false := by
      cases hk : keep low es e with
      | false => rfl
      | true => exact absurd (List.mem_filter.mpr ⟨he, hk⟩) hne
    unfold keep at hk
    simp only [Bool.or_eq_false_iff, decide_eq_false_iff_not, Nat.not_lt, Bool.not_eq_false',
      List.any_eq_true, Bool.and_eq_true, beq_iff_eq, decide_eq_true_eq] at hk
    obtain ⟨hle, e1, he1, ⟨hu1, hlt1⟩, hlow1⟩ := hk
    -- strong induction on (low - e1.ts): climb to a kept version
    suffices h : ∀ n (e1 : E), e1 ∈ es → e1.key.user = e.key.user → e.key.ts < e1.key.ts →
        e1.key.ts ≤ low → low - e1.key.ts ≤ n →
        ∃ e' ∈ es.filter (keep low es), e'.key.user = e.key.user ∧ e.key.ts < e'.key.ts ∧ e'.key.ts ≤ low by
      exact h (low - e1.key.ts) e1 he1 hu1 hlt1 hlow1 (Nat.le_refl _)
    intro n
    induction n with
    | zero =>
      intro e1 he1 hu1 hlt1 hlow1 hn
      have hk1 : keep low es e1 = true := by
        unfold keep
        simp only [Bool.or_eq_true, decide_eq_true_eq, Bool.not_eq_true', List.any_eq_false,
          Bool.and_eq_true, beq_iff_eq, not_and]
        right; intro x _ _ hx; omega
      exact ⟨e1, List.mem_filter.mpr ⟨he1, hk1⟩, hu1, hlt1, hlow1⟩
    | succ n ih =>
      intro e1 he1 hu1 hlt1 hlow1 hn
      cases hk1 : keep low es e1 with
      | true => exact ⟨e1, List.mem_filter.mpr ⟨he1, hk1⟩, hu1, hlt1, hlow1⟩
      | false =>
        unfold keep at hk1
        simp only [Bool.or_eq_false_iff, decide_eq_false_iff_not, Nat.not_lt, Bool.not_eq_false',
          List.any_eq_true, Bool.and_eq_true, beq_iff_eq, decide_eq_true_eq] at hk1
        obtain ⟨_, e2, he2, ⟨hu2, hlt2⟩, hlow2⟩ := hk1
        exact ih e2 he2 (hu2.trans hu1) (by omega) hlow2 (by omega)

#print axioms compaction_preserves
#print axioms discardStale_allowed
end Compact
