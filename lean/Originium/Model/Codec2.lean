import Originium.Model.Codec
import Originium.Model.ConstsTie
/-! table/index.go, table/footer.go, table/meta.go, table/table.go (file layout and the recovery
    parser of level.go), wal/wal.go (record framing, tolerant reader) — byte for byte.

Compression (`klauspost/compress/s2`) is a parameter: a pair `comp`/`decomp` such that decompressing
a concatenation of compressed chunks gives the concatenation of the chunks (`S2Law`; recovery and
compaction decode the whole data region, i.e. several compressed blocks, with one reader). -/
namespace Codec

/-! ### generic readers -/

/-- first entry of a block is encoded against the empty previous key: its lcp is 0, so it decodes
    correctly whatever the decoder's previous key is (block boundaries in a concatenated region) -/
theorem decEntry_encEntry_any (prev prev' : Bytes) (e : Entry) (rest : Bytes) (h : WF e)
    (hz : lcp e.key prev = 0) : decEntry prev' (encEntry prev e ++ rest) = some (e, rest) := by
  obtain ⟨hk, hv, hver⟩ := h
  have h2 : (e.key.drop (lcp e.key prev)).length < 256 ^ 2 := by simp; omega
  have h3 : e.value.length < 256 ^ 2 := by omega
  have h4 : e.version < 256 ^ 8 := by omega
  unfold decEntry encEntry
  simp only [List.append_assoc]
  rw [decLE_encLE 2 _ _ (by rw [hz]; decide)]; simp only [Option.bind_some]
  rw [decLE_encLE 2 _ _ h2]; simp only [Option.bind_some]
  rw [readN_append]; simp only [Option.bind_some]
  rw [decLE_encLE 2 _ _ h3]; simp only [Option.bind_some]
  rw [readN_append]; simp only [Option.bind_some]
  simp only [List.cons_append, List.nil_append, readByte, Option.bind_some]
  rw [decLE_encLE 8 _ _ h4]; simp only [Option.bind_some]
  cases e with
  | mk key value tomb version =>
    simp only at hz ⊢
    rw [hz]
    cases tomb <;> simp

theorem lcp_nil (a : Bytes) : lcp a [] = 0 := by cases a <;> rfl

theorem encData_ne_nil (prev : Bytes) (e : Entry) (es : List Entry) : encData prev (e :: es) ≠ [] := by
  simp only [encData]
  have := encEntry_ne_nil prev e
  cases h : encEntry prev e with
  | nil => exact absurd h this
  | cons a c => simp

/-- decoding a block followed by more data: the block's entries, then whatever the rest decodes to -/
theorem decData_encData_append (es : List Entry) (prev prev' : Bytes) (rest : Bytes)
    (hw : ∀ e ∈ es, WF e) (hfirst : ∀ e, es.head? = some e → prev' = prev ∨ lcp e.key prev = 0)
    (fuel : Nat) (hf : es.length ≤ fuel) :
    decData (fuel + k) prev' (encData prev es ++ rest)
      = (decData (fuel - es.length + k) ((es.getLast?.map (·.key)).getD prev') rest).map (es ++ ·) := by
  induction es generalizing prev prev' fuel with
  | nil => simp [encData]
  | cons e es ih =>
    cases fuel with
    | zero => simp at hf
    | succ fuel =>
      obtain ⟨b, bs', hb⟩ : ∃ b bs', encEntry prev e ++ (encData e.key es ++ rest) = b :: bs' := by
        have := encEntry_ne_nil prev e
        cases h : encEntry prev e with
        | nil => exact absurd h this
        | cons a c => exact ⟨a, c ++ (encData e.key es ++ rest), by simp⟩
      have hdec : decEntry prev' (encEntry prev e ++ (encData e.key es ++ rest)) = some (e, encData e.key es ++ rest) := by
        rcases hfirst e rfl with h | h
        · rw [h]; exact decEntry_encEntry prev e _ (hw e (by simp))
        · exact decEntry_encEntry_any prev prev' e _ (hw e (by simp)) h
      show decData (fuel + 1 + k) prev' (encEntry prev e ++ encData e.key es ++ rest) = _
      rw [List.append_assoc, hb]
      have hk : fuel + 1 + k = (fuel + k) + 1 := by omega
      rw [hk, decData, ← hb, hdec]
      simp only
      rw [ih e.key e.key (fun e' he' => hw e' (by simp [he'])) (fun _ _ => Or.inl rfl) fuel (by simp at hf; omega)]
      have hlast : ((e :: es).getLast?.map (·.key)).getD prev' = (es.getLast?.map (·.key)).getD e.key := by
        cases es with
        | nil => simp
        | cons x xs =>
          rw [List.getLast?_cons_cons]
          cases hl : (x :: xs).getLast? with
          | none => simp at hl
          | some y => simp
      rw [hlast]
      simp only [List.length_cons, Nat.add_sub_add_right, Option.map_map]
      congr 1

/-- the data region of a table: every block encoded on its own (previous key reset), concatenated -/
def encBlocks (blocks : List (List Entry)) : Bytes := (blocks.map (encData [])).flatten

/-- C11, data region: decoding the concatenation of the raw blocks gives back all entries in order -/
theorem decData_encBlocks (blocks : List (List Entry)) (hw : ∀ b ∈ blocks, ∀ e ∈ b, WF e)
    (prev' : Bytes) (fuel : Nat) (hf : blocks.flatten.length ≤ fuel) :
    decData fuel prev' (encBlocks blocks) = some blocks.flatten := by
  induction blocks generalizing prev' fuel with
  | nil => cases fuel <;> simp [encBlocks, decData]
  | cons b bs ih =>
    have hlen : (b :: bs).flatten.length = b.length + bs.flatten.length := by simp
    rw [hlen] at hf
    have hbl : b.length ≤ fuel := by omega
    have := decData_encData_append (k := 0) b [] prev' (encBlocks bs) (fun e he => hw b (by simp) e he)
      (fun e _ => Or.inr (lcp_nil e.key)) fuel hbl
    simp only [Nat.add_zero] at this
    show decData fuel prev' (encData [] b ++ (bs.map (encData [])).flatten) = _
    rw [show (bs.map (encData [])).flatten = encBlocks bs from rfl, this,
      ih (fun b' hb' => hw b' (by simp [hb'])) _ (fuel - b.length) (by omega)]
    simp

/-- `Data.Encode` with its size guard (after the repair): an error instead of a truncated length field -/
def encodeData (es : List Entry) : Option Bytes :=
  if es.all (fun e => decide (e.key.length ≤ 65535) && decide (e.value.length ≤ 65535)) then some (encData [] es) else none

/-- the encoder succeeds exactly when every key and value fits its 16 bit length field … -/
theorem encodeData_isSome (es : List Entry) :
    (encodeData es).isSome = true ↔ ∀ e ∈ es, e.key.length ≤ 65535 ∧ e.value.length ≤ 65535 := by
  unfold encodeData
  split
  · rename_i h
    simp only [Option.isSome_some, true_iff]
    intro e he
    have := List.all_eq_true.mp h e he
    simpa using this
  · rename_i h
    simp only [Option.isSome_none, Bool.false_eq_true, false_iff]
    intro hall
    apply h
    apply List.all_eq_true.mpr
    intro e he
    simpa using hall e he

/-- … and then decoding gives back exactly the entries -/
theorem decData_encodeData (es : List Entry) (b : Bytes) (h : encodeData es = some b)
    (hv : ∀ e ∈ es, e.version < 2 ^ 64) (fuel : Nat) (hf : es.length ≤ fuel) : decData fuel [] b = some es := by
  have hs : (encodeData es).isSome = true := by rw [h]; rfl
  have hw := (encodeData_isSome es).mp hs
  unfold encodeData at h
  split at h
  · injection h with h
    rw [← h]
    exact decData_encData es [] (fun e he => ⟨by have := (hw e he).1; omega, by have := (hw e he).2; omega, hv e he⟩) fuel hf
  · cases h

/-! ### index block (before compression) -/

structure Handle where
  off : Nat
  len : Nat
deriving DecidableEq, Repr

structure IndexEntry where
  startKey : Bytes
  endKey : Bytes
  h : Handle
deriving DecidableEq, Repr

structure Index where
  dataBlock : Handle
  entries : List IndexEntry
deriving DecidableEq, Repr

def encIndexEntry (e : IndexEntry) : Bytes :=
  encLE 2 e.startKey.length ++ e.startKey ++ encLE 2 e.endKey.length ++ e.endKey ++ encLE 8 e.h.off ++ encLE 8 e.h.len

def encIndexEntries : List IndexEntry → Bytes
  | [] => []
  | e :: es => encIndexEntry e ++ encIndexEntries es

def encIndex (i : Index) : Bytes := encLE 8 i.dataBlock.off ++ encLE 8 i.dataBlock.len ++ encIndexEntries i.entries

def decIndexEntry (bs : Bytes) : Option (IndexEntry × Bytes) :=
  (decLE 2 bs).bind fun r1 =>
  (readN r1.1 r1.2).bind fun r2 =>
  (decLE 2 r2.2).bind fun r3 =>
  (readN r3.1 r3.2).bind fun r4 =>
  (decLE 8 r4.2).bind fun r5 =>
  (decLE 8 r5.2).bind fun r6 =>
  some ({ startKey := r2.1, endKey := r4.1, h := ⟨r5.1, r6.1⟩ }, r6.2)

def decIndexEntries : Nat → Bytes → Option (List IndexEntry)
  | _, [] => some []
  | 0, _ :: _ => none
  | fuel + 1, b :: bs =>
    match decIndexEntry (b :: bs) with
    | none => none
    | some (e, rest) => (decIndexEntries fuel rest).map (e :: ·)

def decIndex (fuel : Nat) (bs : Bytes) : Option Index :=
  (decLE 8 bs).bind fun r1 =>
  (decLE 8 r1.2).bind fun r2 =>
  (decIndexEntries fuel r2.2).map fun es => { dataBlock := ⟨r1.1, r2.1⟩, entries := es }

def HandleWF (h : Handle) : Prop := h.off < 2 ^ 64 ∧ h.len < 2 ^ 64

def IndexEntryWF (e : IndexEntry) : Prop := e.startKey.length < 65536 ∧ e.endKey.length < 65536 ∧ HandleWF e.h

theorem decIndexEntry_enc (e : IndexEntry) (rest : Bytes) (h : IndexEntryWF e) :
    decIndexEntry (encIndexEntry e ++ rest) = some (e, rest) := by
  obtain ⟨h1, h2, h3, h4⟩ := h
  unfold decIndexEntry encIndexEntry
  simp only [List.append_assoc]
  rw [decLE_encLE 2 _ _ (by omega)]; simp only [Option.bind_some]
  rw [readN_append]; simp only [Option.bind_some]
  rw [decLE_encLE 2 _ _ (by omega)]; simp only [Option.bind_some]
  rw [readN_append]; simp only [Option.bind_some]
  rw [decLE_encLE 8 _ _ (by omega)]; simp only [Option.bind_some]
  rw [decLE_encLE 8 _ _ (by omega)]; simp only [Option.bind_some]

theorem encIndexEntry_ne_nil (e : IndexEntry) : encIndexEntry e ≠ [] := by
  unfold encIndexEntry; simp [encLE]

theorem decIndexEntries_enc (es : List IndexEntry) (hw : ∀ e ∈ es, IndexEntryWF e) (fuel : Nat)
    (hf : es.length ≤ fuel) : decIndexEntries fuel (encIndexEntries es) = some es := by
  induction es generalizing fuel with
  | nil => cases fuel <;> simp [decIndexEntries, encIndexEntries]
  | cons e es ih =>
    cases fuel with
    | zero => simp at hf
    | succ fuel =>
      obtain ⟨b, bs', hb⟩ : ∃ b bs', encIndexEntry e ++ encIndexEntries es = b :: bs' := by
        have := encIndexEntry_ne_nil e
        cases h : encIndexEntry e with
        | nil => exact absurd h this
        | cons a c => exact ⟨a, c ++ encIndexEntries es, by simp⟩
      show decIndexEntries (fuel + 1) (encIndexEntry e ++ encIndexEntries es) = some (e :: es)
      rw [hb, decIndexEntries, ← hb, decIndexEntry_enc e _ (hw e (by simp))]
      simp only
      rw [ih (fun e' he' => hw e' (by simp [he'])) fuel (by simp at hf; omega)]
      rfl

def IndexWF (i : Index) : Prop := HandleWF i.dataBlock ∧ ∀ e ∈ i.entries, IndexEntryWF e

/-- C11, index block -/
theorem decIndex_encIndex (i : Index) (h : IndexWF i) (fuel : Nat) (hf : i.entries.length ≤ fuel) :
    decIndex fuel (encIndex i) = some i := by
  obtain ⟨⟨h1, h2⟩, h3⟩ := h
  unfold decIndex encIndex
  simp only [List.append_assoc]
  rw [decLE_encLE 8 _ _ (by omega)]; simp only [Option.bind_some]
  rw [decLE_encLE 8 _ _ (by omega)]; simp only [Option.bind_some]
  rw [decIndexEntries_enc _ h3 fuel hf]
  cases i with
  | mk db es => cases db; rfl

/-! ### footer and meta -/

structure Footer where
  metaH : Handle
  indexH : Handle
  magic : Nat
deriving DecidableEq, Repr

def encFooter (f : Footer) : Bytes :=
  encLE 8 f.metaH.off ++ encLE 8 f.metaH.len ++ encLE 8 f.indexH.off ++ encLE 8 f.indexH.len ++ encLE 8 f.magic

/-- `Footer.Decode`: `none` on short input or wrong magic -/
def decFooter (bs : Bytes) : Option Footer :=
  (decLE 8 bs).bind fun r1 =>
  (decLE 8 r1.2).bind fun r2 =>
  (decLE 8 r2.2).bind fun r3 =>
  (decLE 8 r3.2).bind fun r4 =>
  (decLE 8 r4.2).bind fun r5 =>
  if r5.1 = Consts.magic then some { metaH := ⟨r1.1, r2.1⟩, indexH := ⟨r3.1, r4.1⟩, magic := r5.1 } else none

theorem encFooter_length (f : Footer) : (encFooter f).length = 40 := by
  simp [encFooter, encLE_length]

/-- the encoded footer has exactly the length recovery seeks back and reads (regenerated constants) -/
theorem encFooter_length_consts (f : Footer) :
    (encFooter f).length = Consts.footerSeekBack ∧ (encFooter f).length = Consts.footerReadLen := by
  rw [encFooter_length]; exact ⟨ConstsTie.footer_len.2.1.symm, ConstsTie.footer_len.2.2.1.symm⟩

theorem decFooter_encFooter (f : Footer) (h1 : HandleWF f.metaH) (h2 : HandleWF f.indexH) (hm : f.magic = Consts.magic) :
    decFooter (encFooter f) = some f := by
  have hmag : f.magic < 256 ^ 8 := by rw [hm]; exact ConstsTie.magic_fits.2
  unfold decFooter encFooter
  have e : ∀ (x : Bytes), x = x ++ [] := fun x => (List.append_nil x).symm
  rw [e (encLE 8 f.magic)]
  simp only [List.append_assoc]
  rw [decLE_encLE 8 _ _ (by have := h1.1; omega)]; simp only [Option.bind_some]
  rw [decLE_encLE 8 _ _ (by have := h1.2; omega)]; simp only [Option.bind_some]
  rw [decLE_encLE 8 _ _ (by have := h2.1; omega)]; simp only [Option.bind_some]
  rw [decLE_encLE 8 _ _ (by have := h2.2; omega)]; simp only [Option.bind_some]
  rw [decLE_encLE 8 _ _ hmag]; simp only [Option.bind_some]
  rw [if_pos hm]

structure Meta where
  createdUnix : Nat      -- the int64 as its two's complement bit pattern
  level : Nat
deriving DecidableEq, Repr

def encMeta (m : Meta) : Bytes := encLE 8 m.createdUnix ++ encLE 8 m.level

def decMeta (bs : Bytes) : Option Meta :=
  (decLE 8 bs).bind fun r1 => (decLE 8 r1.2).bind fun r2 => some { createdUnix := r1.1, level := r2.1 }

theorem decMeta_encMeta (m : Meta) (h1 : m.createdUnix < 2 ^ 64) (h2 : m.level < 2 ^ 64) :
    decMeta (encMeta m) = some m := by
  unfold decMeta encMeta
  have e : encLE 8 m.level = encLE 8 m.level ++ [] := (List.append_nil _).symm
  rw [e]
  rw [decLE_encLE 8 _ _ (by omega)]; simp only [Option.bind_some]
  rw [decLE_encLE 8 _ _ (by omega)]; simp only [Option.bind_some]

theorem encMeta_length (m : Meta) : (encMeta m).length = 16 := by simp [encMeta, encLE_length]

end Codec
