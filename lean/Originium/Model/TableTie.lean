import Originium.Generated.Table
import Originium.Model.Table
/-! The tie for the hand-written binary searches of `table/data.go` and `table/index.go`: the definitions regenerated from
    the Go source (`GenTable.dataLowerIdx`, `GenTable.indexLowerIdx`, over Go `int`s) are the model's `BS.lowerIdx`. -/
namespace TableTie
open BS

theorem data_loop {α : Type} (p : α → Bool) (l : List α) (fuel : Nat) : ∀ (low hiX : Nat), hiX - low < fuel →
    GenTable.dataLowerIdx.loop1 p l (fun _ _ => none) fuel (low : Int) ((hiX : Int) - 1) = BS.loop (geOf p l) low hiX := by
  induction fuel with
  | zero => intro low hiX h; omega
  | succ fuel ih =>
    intro low hiX h
    rw [BS.loop]
    simp only [GenTable.dataLowerIdx.loop1]
    by_cases hlt : low < hiX
    · have hle : (low : Int) ≤ (hiX : Int) - 1 := by omega
      simp only [hle, decide_true, ↓reduceIte, hlt, ↓reduceDIte]
      have hmid : (low : Int) + ((hiX : Int) - 1 - (low : Int)) / 2 = ((low + (hiX - 1 - low) / 2 : Nat) : Int) := by omega
      rw [hmid]
      generalize hm : low + (hiX - 1 - low) / 2 = m
      have hmlt : m < hiX := by omega
      have hmge : low ≤ m := by omega
      simp only [Int.toNat_natCast]
      cases hge : geOf p l m with
      | false =>
        simp only [Bool.false_eq_true, ↓reduceIte]
        have : ((m : Int) + 1) = ((m + 1 : Nat) : Int) := by omega
        rw [this]
        exact ih (m + 1) hiX (by omega)
      | true =>
        simp only [↓reduceIte]
        have ht : ((m : Int) - 1).toNat = m - 1 := by omega
        rw [ht]
        by_cases h0 : m = 0
        · subst h0; simp
        · have h0' : ¬ (m : Int) = 0 := by omega
          simp only [h0', decide_false, Bool.false_or, h0, false_or]
          cases hp : geOf p l (m - 1) with
          | false => simp
          | true =>
            simp only [Bool.not_true, Bool.false_eq_true, ↓reduceIte]
            exact ih low m (by omega)
    · have hle : ¬ (low : Int) ≤ (hiX : Int) - 1 := by omega
      simp [hle, hlt]

theorem index_loop {α : Type} (p : α → Bool) (l : List α) (fuel : Nat) : ∀ (low hiX : Nat), hiX - low < fuel →
    GenTable.indexLowerIdx.loop1 p l (fun _ _ => none) fuel (low : Int) ((hiX : Int) - 1) = BS.loop (geOf p l) low hiX := by
  induction fuel with
  | zero => intro low hiX h; omega
  | succ fuel ih =>
    intro low hiX h
    rw [BS.loop]
    simp only [GenTable.indexLowerIdx.loop1]
    by_cases hlt : low < hiX
    · have hle : (low : Int) ≤ (hiX : Int) - 1 := by omega
      simp only [hle, decide_true, ↓reduceIte, hlt, ↓reduceDIte]
      have hmid : (low : Int) + ((hiX : Int) - 1 - (low : Int)) / 2 = ((low + (hiX - 1 - low) / 2 : Nat) : Int) := by omega
      rw [hmid]
      generalize hm : low + (hiX - 1 - low) / 2 = m
      have hmlt : m < hiX := by omega
      have hmge : low ≤ m := by omega
      simp only [Int.toNat_natCast]
      cases hge : geOf p l m with
      | false =>
        simp only [Bool.false_eq_true, ↓reduceIte]
        have : ((m : Int) + 1) = ((m + 1 : Nat) : Int) := by omega
        rw [this]
        exact ih (m + 1) hiX (by omega)
      | true =>
        simp only [↓reduceIte]
        have ht : ((m : Int) - 1).toNat = m - 1 := by omega
        rw [ht]
        by_cases h0 : m = 0
        · subst h0; simp
        · have h0' : ¬ (m : Int) = 0 := by omega
          simp only [h0', decide_false, Bool.false_or, h0, false_or]
          cases hp : geOf p l (m - 1) with
          | false => simp
          | true =>
            simp only [Bool.not_true, Bool.false_eq_true, ↓reduceIte]
            exact ih low m (by omega)
    · have hle : ¬ (low : Int) ≤ (hiX : Int) - 1 := by omega
      simp [hle, hlt]


/-- `Data.LowerBound` of the Go code (index of the entry returned) is the model's binary search -/
theorem dataLowerIdx_eq {α : Type} (p : α → Bool) (l : List α) : GenTable.dataLowerIdx p l = BS.lowerIdx p l := by
  unfold GenTable.dataLowerIdx BS.lowerIdx
  dsimp only
  have := data_loop p l (l.length + 1) 0 l.length (by omega)
  simpa using this

/-- `Index.LowerBound` of the Go code (number of the block whose handle is returned) is the model's binary search -/
theorem indexLowerIdx_eq {α : Type} (p : α → Bool) (l : List α) : GenTable.indexLowerIdx p l = BS.lowerIdx p l := by
  unfold GenTable.indexLowerIdx BS.lowerIdx
  dsimp only
  have := index_loop p l (l.length + 1) 0 l.length (by omega)
  simpa using this

/-- with them, the table lookup of the model is the composition of the two translated searches -/
theorem tableLookup_eq {K : Type} (lt : K → K → Bool) (blocks : List (List (Table.Entry K))) (t : K) :
    Table.tableLookup lt blocks t =
      (GenTable.indexLowerIdx (Table.lastGe lt t) blocks).bind fun i =>
        (blocks[i]?).bind fun b => (GenTable.dataLowerIdx (Table.geKey lt t) b).bind (b[·]?) := by
  unfold Table.tableLookup Table.indexLowerBound Table.dataLowerBound
  simp only [indexLowerIdx_eq, dataLowerIdx_eq]


/-! ### table.Build: cutting the entries into data blocks -/

theorem build_loop {K : Type} (sz : Table.Entry K → Nat) (bs : Nat) (es : List (Table.Entry K)) :
    ∀ (blocks : List (List (Table.Entry K))) (n : Nat) (data : List (Table.Entry K)),
    List.foldr (fun (entry : Table.Entry K) (kont1 : List (List (Table.Entry K)) → Nat → List (Table.Entry K) → List (List (Table.Entry K))) =>
        fun dataBlocks currSize data =>
        if decide (bs < currSize) = true then kont1 (dataBlocks ++ [data]) (0 + sz entry) ([] ++ [entry])
        else kont1 dataBlocks (currSize + sz entry) (data ++ [entry]))
      (fun dataBlocks _ data => if decide (0 < data.length) = true then dataBlocks ++ [data] else dataBlocks) es blocks n data
    = blocks ++ Table.split sz bs es data.reverse n := by
  induction es with
  | nil =>
    intro blocks n data
    simp only [List.foldr_nil, Table.split, List.isEmpty_reverse, List.reverse_reverse]
    cases data with
    | nil => simp
    | cons a d => simp
  | cons e es ih =>
    intro blocks n data
    simp only [List.foldr_cons, Table.split, gt_iff_lt]
    by_cases h : bs < n
    · simp only [h, decide_true, ↓reduceIte, List.reverse_reverse]
      rw [ih]
      simp
    · simp only [h, decide_false, Bool.false_eq_true, ↓reduceIte]
      rw [ih]
      simp

/-- the block-cutting loop of `table.Build`, translated from the Go source, is the model's `buildBlocks` -/
theorem buildBlocks_eq {K : Type} (sz : Table.Entry K → Nat) (bs : Nat) (es : List (Table.Entry K)) :
    GenTable.buildBlocks sz bs es = Table.buildBlocks sz bs es := by
  unfold GenTable.buildBlocks Table.buildBlocks
  dsimp only
  have := build_loop sz bs es [] 0 []
  simpa using this

/-! ### `table.Build`, second part: index entries and data region -/

section BuildIndex
variable {α κ β : Type}

/-- the index entries of the blocks `bs` when the first of them starts at offset `off` -/
def ixFrom (encData : List α → List β) (keyOf : α → κ) (dflt : α) : Nat → List (List α) → List (κ × κ × Nat × Nat)
  | _, [] => []
  | off, b :: bs => (keyOf (b.headD dflt), keyOf (b.getLastD dflt), (off, (encData b).length)) ::
      ixFrom encData keyOf dflt (off + (encData b).length) bs

theorem buildIndex_loop (encData : List α → List β) (keyOf : α → κ) (dflt : α) (bs : List (List α))
    (ix : List (κ × κ × Nat × Nat)) (dh : Nat × Nat) (off : Nat) (buf : List β) :
    List.foldr (fun (block : List α) kont1 => fun (ixEntries : List (κ × κ × Nat × Nat)) (dataHandle : Nat × Nat) (offset : Nat) (buf : List β) =>
        kont1 (ixEntries ++ [(keyOf (block.headD dflt), keyOf (block.getLastD dflt), (offset, (encData block).length))]) dataHandle
          (offset + (encData block).length) (buf ++ encData block))
      (fun ixEntries dataHandle offset buf => some (ixEntries, ((0 : Nat), offset), buf)) bs ix dh off buf =
    some (ix ++ ixFrom encData keyOf dflt off bs, (0, off + (bs.flatMap encData).length), buf ++ bs.flatMap encData) := by
  induction bs generalizing ix off buf with
  | nil => simp [ixFrom]
  | cons b bs ih =>
    simp only [List.foldr_cons, ixFrom, List.flatMap_cons, List.length_append]
    rw [ih]
    simp [List.append_assoc, Nat.add_assoc]

/-- the translated index-building loop of `table.Build`: the data region of the file is the concatenation of the encoded blocks,
    the index has one entry per block — first key, last key, and the offset and length at which the block's encoding lies in
    the data region — and the data handle spans exactly the data region -/
theorem buildIndex_eq (encData : List α → List β) (keyOf : α → κ) (dflt : α) (bs : List (List α)) :
    GenTable.buildIndex encData keyOf dflt bs =
      some (ixFrom encData keyOf dflt 0 bs, (0, (bs.flatMap encData).length), bs.flatMap encData) := by
  unfold GenTable.buildIndex
  simp only [Bool.false_eq_true, ↓reduceIte]
  rw [buildIndex_loop]
  simp

/-- every index entry's handle cuts the encoding of its own block out of the data region -/
theorem ixFrom_cuts (encData : List α → List β) (keyOf : α → κ) (dflt : α) (pre : List β) (bs : List (List α)) (i : Nat) (hi : i < bs.length) :
    ∃ e, (ixFrom encData keyOf dflt pre.length bs)[i]? = some e ∧
      e.1 = keyOf (bs[i].headD dflt) ∧ e.2.1 = keyOf (bs[i].getLastD dflt) ∧
      ((pre ++ bs.flatMap encData).drop e.2.2.1).take e.2.2.2 = encData bs[i] := by
  induction bs generalizing pre i with
  | nil => simp at hi
  | cons b bs ih =>
    cases i with
    | zero =>
      refine ⟨(keyOf (b.headD dflt), keyOf (b.getLastD dflt), (pre.length, (encData b).length)), by simp [ixFrom], rfl, rfl, ?_⟩
      simp [List.flatMap_cons]
    | succ i =>
      have hi' : i < bs.length := by simpa using hi
      obtain ⟨e, he, h1, h2, h3⟩ := ih (pre ++ encData b) i hi'
      refine ⟨e, ?_, by simpa using h1, by simpa using h2, ?_⟩
      · simpa [ixFrom, List.length_append] using he
      · simpa [List.flatMap_cons, List.append_assoc] using h3

end BuildIndex

end TableTie
