/-! pkg/bufferpool: ownership model for the second sentence of C11 ("the bytes an encoder returned
    do not change afterwards").  Buffers are cells; an encoder takes a cell from the pool, fills it,
    returns either a *copy* (a fresh cell nobody else can reach: the repaired code, `bytes.Clone`) or
    the pooled cell itself (the pinned code), and puts the cell back.  Whoever `get`s a cell may
    overwrite it.  Which of the two the code does is a static fact re-extracted on every run
    (`ret:clone` in the skeleton); physical aliasing is a runtime fact (partial clause). -/
namespace Pool

structure St where
  free : List Nat          -- cells in the pool
  next : Nat               -- next fresh cell id
  handedOut : List Nat     -- cells some `get` has returned since the beginning (may be overwritten by their holder)
  results : List Nat       -- cells holding bytes an encoder has returned to its caller
deriving Repr

inductive Op where
  | encodeClone            -- get, fill, return a copy, put
  | encodeAlias            -- get, fill, return the pooled cell itself, put (pinned code)
deriving DecidableEq, Repr

/-- `sync.Pool.Get`: a free cell if there is one, else a new one -/
def get (s : St) : Nat × St :=
  match s.free with
  | c :: rest => (c, { s with free := rest, handedOut := c :: s.handedOut })
  | [] => (s.next, { s with next := s.next + 1, handedOut := s.next :: s.handedOut })

def step (s : St) : Op → St
  | .encodeClone =>
    let (c, s1) := get s
    -- the copy is a fresh cell that is never put into the pool
    { s1 with results := s1.next :: s1.results, next := s1.next + 1, free := c :: s1.free }
  | .encodeAlias =>
    let (c, s1) := get s
    { s1 with results := c :: s1.results, free := c :: s1.free }

def init : St := { free := [], next := 0, handedOut := [], results := [] }

def run (ops : List Op) : St := ops.foldl step init

/-- no cell that holds a returned result is in the pool, so no later `get` can hand it to a writer -/
def Safe (s : St) : Prop := (∀ r ∈ s.results, r ∉ s.free) ∧ (∀ c ∈ s.free, c < s.next) ∧ (∀ r ∈ s.results, r < s.next)

theorem safe_init : Safe init := by simp [Safe, init]

theorem step_clone_nil (s : St) (hf : s.free = []) :
    step s .encodeClone = { free := [s.next], next := s.next + 2, handedOut := s.next :: s.handedOut, results := (s.next + 1) :: s.results } := by
  simp [step, get, hf]

theorem step_clone_cons (s : St) (c : Nat) (rest : List Nat) (hf : s.free = c :: rest) :
    step s .encodeClone = { free := c :: rest, next := s.next + 1, handedOut := c :: s.handedOut, results := s.next :: s.results } := by
  simp [step, get, hf]

theorem safe_step_clone (s : St) (h : Safe s) : Safe (step s .encodeClone) := by
  obtain ⟨h1, h2, h3⟩ := h
  cases hf : s.free with
  | nil =>
    rw [step_clone_nil s hf]
    refine ⟨?_, ?_, ?_⟩
    · intro r hr
      simp only [List.mem_cons] at hr
      simp only [List.mem_cons, List.not_mem_nil, or_false]
      rcases hr with rfl | hr
      · omega
      · have := h3 r hr; omega
    · intro c hc
      simp only [List.mem_cons, List.not_mem_nil, or_false] at hc
      show c < s.next + 2
      omega
    · intro r hr
      simp only [List.mem_cons] at hr
      show r < s.next + 2
      rcases hr with rfl | hr
      · omega
      · have := h3 r hr; omega
  | cons c rest =>
    rw [step_clone_cons s c rest hf]
    rw [hf] at h1 h2
    refine ⟨?_, ?_, ?_⟩
    · intro r hr
      simp only [List.mem_cons] at hr
      rcases hr with rfl | hr
      · intro hm
        have := h2 s.next hm
        omega
      · exact h1 r hr
    · intro x hx
      show x < s.next + 1
      have := h2 x hx; omega
    · intro r hr
      simp only [List.mem_cons] at hr
      show r < s.next + 1
      rcases hr with rfl | hr
      · omega
      · have := h3 r hr; omega

/-- encoders that return copies: in every reachable state no returned result is reachable through the pool -/
theorem clone_runs_safe (ops : List Op) (h : ∀ o ∈ ops, o = .encodeClone) : Safe (run ops) := by
  unfold run
  suffices ∀ s, Safe s → Safe (ops.foldl step s) from this init safe_init
  induction ops with
  | nil => intro s hs; exact hs
  | cons o ops ih =>
    intro s hs
    have ho := h o (by simp)
    subst ho
    exact ih (fun o' ho' => h o' (by simp [ho'])) _ (safe_step_clone s hs)

/-- the pinned code: after one aliasing encoder the returned cell sits in the pool, and the next
    encoder is handed exactly that cell (concrete two-step witness) -/
theorem alias_unsafe : ¬ Safe (run [.encodeAlias]) ∧
    (get (run [.encodeAlias])).1 ∈ (run [.encodeAlias]).results := by
  unfold Safe
  decide

end Pool
