import Originium.Model.Sys
import Originium.Model.DBProofs
/-! Coupling of the transaction layer (`Oracle2`) with the storage (`DB`): the store read of every
    transaction is the MVCC value at its snapshot (C05), through every background activity. -/
namespace Oracle2

/-- how one step changes the commit history: not at all, or one commit appended at `nextTs` -/
theorem all_step {s s' : St} (st : Step) (hs : step s st = some s') :
    (s'.all = s.all ∧ s'.nextTs = s.nextTs) ∨
    (∃ c, s'.all = s.all ++ [c] ∧ c.ts = s.nextTs ∧ s'.nextTs = s.nextTs + 1) := by
  cases st with
  | begin u => simp only [step, Option.some.injEq] at hs; subst hs; exact Or.inl ⟨rfl, rfl⟩
  | get i k =>
    simp only [step] at hs
    split at hs
    · split at hs
      · cases hs
      · split at hs
        · simp only [Option.some.injEq] at hs; subst hs; exact Or.inl ⟨rfl, rfl⟩
        · split at hs
          · simp only [Option.some.injEq] at hs; subst hs; exact Or.inl ⟨rfl, rfl⟩
          · simp only [Option.some.injEq] at hs; subst hs; exact Or.inl ⟨rfl, rfl⟩
    · cases hs
  | set i k v =>
    simp only [step] at hs
    split at hs
    · split at hs
      · cases hs
      · simp only [Option.some.injEq] at hs; subst hs; exact Or.inl ⟨rfl, rfl⟩
    · cases hs
  | commit i =>
    simp only [step] at hs
    split at hs
    · split at hs
      · cases hs
      · split at hs
        · simp only [Option.some.injEq] at hs; subst hs; exact Or.inl ⟨rfl, rfl⟩
        · split at hs
          · simp only [Option.some.injEq] at hs; subst hs; exact Or.inl ⟨rfl, rfl⟩
          · simp only [Option.some.injEq] at hs; subst hs
            exact Or.inr ⟨_, rfl, rfl, rfl⟩
    · cases hs
  | discard i =>
    simp only [step] at hs
    split at hs
    · simp only [Option.some.injEq] at hs; subst hs; exact Or.inl ⟨rfl, rfl⟩
    · cases hs
  | mark v =>
    simp only [step] at hs
    split at hs
    · simp only [Option.some.injEq] at hs; subst hs; exact Or.inl ⟨rfl, rfl⟩
    · cases hs

/-- commit timestamps increase strictly along the history -/
theorem all_sorted {s : St} (hr : Reach s) : s.all.Pairwise (fun a b => a.ts < b.ts) := by
  induction hr with
  | init => simp [init]
  | step st hprev hs ih =>
    rcases all_step st hs with ⟨h1, _⟩ | ⟨c, h1, h2, _⟩
    · rw [h1]; exact ih
    · rw [h1]
      rw [List.pairwise_append]
      refine ⟨ih, by simp, ?_⟩
      intro a ha b hb
      simp only [List.mem_singleton] at hb
      subst hb
      rw [h2]
      exact (inv_reach hprev).all_lt a ha

end Oracle2

namespace Sys
open Key VKey Table Levels Compact LSM DB

/-! ### the commit history as storage entries -/

def entriesOfCommit (c : Oracle2.Commit) : List E := (batchOf c.writes).map (entryOf c.ts)

def entriesOf (all : List Oracle2.Commit) : List E := all.flatMap entriesOfCommit

/-- the API value of a batch element: a Delete reads as not-found -/
def wval (w : W) : Val := if w.tomb then none else some w.value

theorem batchOf_users (ws : List (Oracle2.Key × Val)) : ∀ w ∈ batchOf ws, w.user ∈ ws.map (·.1) := by
  induction ws with
  | nil => intro w hw; cases hw
  | cons p rest ih =>
    obtain ⟨k, v⟩ := p
    intro w hw
    simp only [batchOf, List.mem_cons, List.mem_filter] at hw
    rcases hw with rfl | ⟨hw, _⟩
    · cases v <;> simp
    · simp only [List.map_cons, List.mem_cons]; right; exact ih w hw

theorem batchOf_nodup (ws : List (Oracle2.Key × Val)) : ((batchOf ws).map (·.user)).Nodup := by
  induction ws with
  | nil => simp [batchOf]
  | cons p rest ih =>
    obtain ⟨k, v⟩ := p
    simp only [batchOf, List.map_cons, List.nodup_cons]
    refine ⟨?_, ?_⟩
    · intro hm
      obtain ⟨w, hw, hwk⟩ := List.mem_map.mp hm
      have := (List.mem_filter.mp hw).2
      cases v <;> simp_all
    · exact List.Nodup.sublist (List.Sublist.map _ List.filter_sublist) ih

/-- the batch element for `k` is the newest pending write of `k` -/
theorem batchOf_find (ws : List (Oracle2.Key × Val)) (k : Oracle2.Key) :
    ((batchOf ws).find? (fun w => w.user == k)).map wval = Oracle2.lookupW k ws := by
  induction ws with
  | nil => rfl
  | cons p rest ih =>
    obtain ⟨k', v⟩ := p
    simp only [batchOf, Oracle2.lookupW, List.find?_cons]
    by_cases hk : k' = k
    · subst hk
      cases v <;> simp [wval]
    · have hne : (k' == k) = false := by simpa using hk
      have h1 : ∀ (w0 : W), w0.user = k' → (w0.user == k) = false := by intro w0 h0; rw [h0]; exact hne
      rw [if_neg hk]
      have hfilter : ((batchOf rest).filter (fun x => x.user != k')).find? (fun w => w.user == k)
          = (batchOf rest).find? (fun w => w.user == k) := by
        rw [List.find?_filter]
        congr 1
        funext w
        by_cases hw : w.user = k
        · subst hw
          have : (w.user != k') = true := by simpa using (fun e => hk e.symm)
          simp [this]
        · have : (w.user == k) = false := by simpa using hw
          simp [this]
      cases v with
      | some b => simp only [hne, hfilter]; exact ih
      | none => simp only [hne, hfilter]; exact ih

theorem better_none (a : Option E) : better a none = a := by cases a <;> rfl

/-- entries of other user keys do not change the running newest version -/
theorem foldl_better_other (k : Bytes) (r : Nat) (es : List E) (acc : Option E)
    (h : ∀ e ∈ es, e.key.user ≠ k) : es.foldl (fun acc e => better acc (cand1 k r e)) acc = acc := by
  induction es generalizing acc with
  | nil => rfl
  | cons e rest ih =>
    simp only [List.foldl_cons]
    have : cand1 k r e = none := by
      unfold cand1; rw [if_neg]; intro hh; exact h e (by simp) hh.1
    rw [this, better_none]
    exact ih acc (fun x hx => h x (by simp [hx]))

/-- one commit's batch folded into the running newest version -/
theorem foldl_better_batch (k : Bytes) (r ts : Nat) (ws : List W) (acc : Option E)
    (hnd : (ws.map (·.user)).Nodup) (hacc : ∀ a, acc = some a → a.key.ts < ts) :
    (ws.map (entryOf ts)).foldl (fun acc e => better acc (cand1 k r e)) acc
      = match ws.find? (fun w => w.user == k) with
        | some w => if ts ≤ r then some (entryOf ts w) else acc
        | none => acc := by
  induction ws generalizing acc with
  | nil => rfl
  | cons w rest ih =>
    simp only [List.map_cons, List.nodup_cons] at hnd
    simp only [List.map_cons, List.foldl_cons, List.find?_cons]
    by_cases hw : w.user = k
    · have hbeq : (w.user == k) = true := by simpa using hw
      simp only [hbeq]
      -- no later element of the batch has user k
      have hrest : ∀ e ∈ rest.map (entryOf ts), e.key.user ≠ k := by
        intro e he
        obtain ⟨w', hw', rfl⟩ := List.mem_map.mp he
        intro hk
        apply hnd.1
        exact List.mem_map.mpr ⟨w', hw', by simp only [entryOf] at hk; rw [hk, hw]⟩
      rw [foldl_better_other k r _ _ hrest]
      by_cases hr : ts ≤ r
      · have hc : cand1 k r (entryOf ts w) = some (entryOf ts w) := by
          unfold cand1; rw [if_pos ⟨hw, hr⟩]
        rw [hc, if_pos hr]
        cases acc with
        | none => rfl
        | some a =>
          have := hacc a rfl
          simp only [better]
          rw [if_pos (by simpa [entryOf] using this)]
      · have hc : cand1 k r (entryOf ts w) = none := by
          unfold cand1; rw [if_neg]; intro hh; exact hr hh.2
        rw [hc, better_none, if_neg hr]
    · have hbeq : (w.user == k) = false := by simpa using hw
      simp only [hbeq]
      have hc : cand1 k r (entryOf ts w) = none := by
        unfold cand1; rw [if_neg]; intro hh; exact hw hh.1
      rw [hc, better_none]
      exact ih acc hnd.2 hacc

theorem valueOf_entryOf (ts : Nat) (w : W) : valueOf (some (entryOf ts w)) = wval w := by
  cases h : w.tomb <;> simp [valueOf, entryOf, wval, h]

/-- **bridge**: the newest stored version `≤ r` of `k`, read through the API, is the MVCC map's value at `r` -/
theorem valueOf_newest_entriesOf (all : List Oracle2.Commit) (hs : all.Pairwise (fun a b => a.ts < b.ts))
    (k : Bytes) (r : Nat) : valueOf (newestBrute (entriesOf all) k r) = Oracle2.specAt all r k := by
  unfold newestBrute Oracle2.specAt
  suffices h : ∀ (acc : Option E) (accS : Val), valueOf acc = accS → (∀ a, acc = some a → ∀ c ∈ all, a.key.ts < c.ts) →
      valueOf ((entriesOf all).foldl (fun acc e => better acc (cand1 k r e)) acc)
        = all.foldl (fun acc c => if c.ts ≤ r then (match Oracle2.lookupW k c.writes with | some v => v | none => acc) else acc) accS from
    h none none rfl (by intro a ha; cases ha)
  induction all with
  | nil => intro acc accS h _; simpa [entriesOf] using h
  | cons c rest ih =>
    intro acc accS hval hacc
    have hrest : rest.Pairwise (fun a b => a.ts < b.ts) := (List.pairwise_cons.mp hs).2
    have hhead := (List.pairwise_cons.mp hs).1
    simp only [entriesOf, List.flatMap_cons, List.foldl_append, List.foldl_cons]
    rw [show rest.flatMap entriesOfCommit = entriesOf rest from rfl]
    unfold entriesOfCommit
    rw [foldl_better_batch k r c.ts (batchOf c.writes) acc (batchOf_nodup c.writes) (fun a ha => hacc a ha c (by simp))]
    have hfind := batchOf_find c.writes k
    apply ih hrest
    · -- the running values agree
      cases hf : (batchOf c.writes).find? (fun w => w.user == k) with
      | none =>
        rw [hf] at hfind
        simp only [Option.map_none] at hfind
        rw [← hfind]
        simp only
        split <;> exact hval
      | some w =>
        rw [hf] at hfind
        simp only [Option.map_some] at hfind
        rw [← hfind]
        simp only
        split
        · exact valueOf_entryOf c.ts w
        · exact hval
    · -- the running newest version is older than every later commit
      intro a ha c' hc'
      cases hf : (batchOf c.writes).find? (fun w => w.user == k) with
      | none =>
        rw [hf] at ha
        exact hacc a ha c' (by simp [hc'])
      | some w =>
        rw [hf] at ha
        simp only at ha
        split at ha
        · injection ha with ha
          rw [← ha]
          simpa [entryOf] using hhead c' hc'
        · exact hacc a ha c' (by simp [hc'])

end Sys

namespace Oracle2

theorem getElem?_modifyNth (l : List Txn) (i j : Nat) (f : Txn → Txn) :
    (modifyNth l i f)[j]? = if i = j then (l[j]?).map f else l[j]? := by
  unfold modifyNth
  rw [List.getElem?_modify]
  split
  · cases l[j]? <;> simp_all
  · cases l[j]? <;> simp_all

/-- steps never change the read timestamp of an existing transaction, and never remove one -/
theorem txns_step {s s' : St} (st : Step) (hs : step s st = some s') (i : Nat) (t' : Txn)
    (ht : s'.txns[i]? = some t') : (∃ t, s.txns[i]? = some t ∧ t.readTs = t'.readTs) ∨ s.txns[i]? = none := by
  have key : ∀ (j : Nat) (f : Txn → Txn), (∀ x, (f x).readTs = x.readTs) →
      (modifyNth s.txns j f)[i]? = some t' → (∃ t, s.txns[i]? = some t ∧ t.readTs = t'.readTs) := by
    intro j f hf h
    rw [getElem?_modifyNth] at h
    split at h
    · cases hl : s.txns[i]? with
      | none => rw [hl] at h; simp at h
      | some t =>
        rw [hl] at h
        simp only [Option.map_some, Option.some.injEq] at h
        exact ⟨t, rfl, by rw [← h, hf]⟩
    · exact ⟨t', h, rfl⟩
  cases st with
  | begin u =>
    simp only [step, Option.some.injEq] at hs; subst hs
    simp only at ht
    by_cases hi : i < s.txns.length
    · left
      rw [List.getElem?_append_left hi] at ht
      exact ⟨t', ht, rfl⟩
    · right; simpa using hi
  | get i' k =>
    simp only [step] at hs
    split at hs
    · split at hs
      · cases hs
      · split at hs
        · simp only [Option.some.injEq] at hs; subst hs; exact Or.inl (by refine key _ _ ?_ ht; intro x; rfl)
        · split at hs
          · simp only [Option.some.injEq] at hs; subst hs; exact Or.inl (by refine key _ _ ?_ ht; intro x; rfl)
          · simp only [Option.some.injEq] at hs; subst hs; exact Or.inl ⟨t', ht, rfl⟩
    · cases hs
  | set i' k v =>
    simp only [step] at hs
    split at hs
    · split at hs
      · cases hs
      · simp only [Option.some.injEq] at hs; subst hs; exact Or.inl (by refine key _ _ ?_ ht; intro x; rfl)
    · cases hs
  | commit i' =>
    simp only [step] at hs
    split at hs
    · split at hs
      · cases hs
      · split at hs
        · simp only [Option.some.injEq] at hs; subst hs; exact Or.inl (by refine key _ _ ?_ ht; intro x; rfl)
        · split at hs
          · simp only [Option.some.injEq] at hs; subst hs; exact Or.inl (by refine key _ _ ?_ ht; intro x; rfl)
          · simp only [Option.some.injEq] at hs; subst hs; exact Or.inl (by refine key _ _ ?_ ht; intro x; rfl)
    · cases hs
  | discard i' =>
    simp only [step] at hs
    split at hs
    · simp only [Option.some.injEq] at hs; subst hs; exact Or.inl (by refine key _ _ ?_ ht; intro x; rfl)
    · cases hs
  | mark v =>
    simp only [step] at hs
    split at hs
    · simp only [Option.some.injEq] at hs; subst hs; exact Or.inl ⟨t', ht, rfl⟩
    · cases hs

theorem txns_length_step {s s' : St} (st : Step) (hs : step s st = some s') :
    s'.txns.length = s.txns.length + (match st with | .begin _ => 1 | _ => 0) := by
  cases st with
  | begin u => simp only [step, Option.some.injEq] at hs; subst hs; simp
  | get i' k =>
    simp only [step] at hs
    split at hs
    · split at hs
      · cases hs
      · split at hs
        · simp only [Option.some.injEq] at hs; subst hs; simp [modifyNth]
        · split at hs
          · simp only [Option.some.injEq] at hs; subst hs; simp [modifyNth]
          · simp only [Option.some.injEq] at hs; subst hs; simp
    · cases hs
  | set i' k v =>
    simp only [step] at hs
    split at hs
    · split at hs
      · cases hs
      · simp only [Option.some.injEq] at hs; subst hs; simp [modifyNth]
    · cases hs
  | commit i' =>
    simp only [step] at hs
    split at hs
    · split at hs
      · cases hs
      · split at hs
        · simp only [Option.some.injEq] at hs; subst hs; simp [modifyNth]
        · split at hs
          · simp only [Option.some.injEq] at hs; subst hs; simp [modifyNth]
          · simp only [Option.some.injEq] at hs; subst hs; simp [modifyNth]
    · cases hs
  | discard i' =>
    simp only [step] at hs
    split at hs
    · simp only [Option.some.injEq] at hs; subst hs; simp [modifyNth]
    · cases hs
  | mark v =>
    simp only [step] at hs
    split at hs
    · simp only [Option.some.injEq] at hs; subst hs; simp
    · cases hs

/-- the published read watermark never goes down -/
theorem readMark_step {s s' : St} (st : Step) (hs : step s st = some s') : s.readMark ≤ s'.readMark := by
  cases st with
  | begin u => simp only [step, Option.some.injEq] at hs; subst hs; exact Nat.le_refl _
  | get i' k =>
    simp only [step] at hs
    split at hs
    · split at hs
      · cases hs
      · split at hs
        · simp only [Option.some.injEq] at hs; subst hs; exact Nat.le_refl _
        · split at hs
          · simp only [Option.some.injEq] at hs; subst hs; exact Nat.le_refl _
          · simp only [Option.some.injEq] at hs; subst hs; exact Nat.le_refl _
    · cases hs
  | set i' k v =>
    simp only [step] at hs
    split at hs
    · split at hs
      · cases hs
      · simp only [Option.some.injEq] at hs; subst hs; exact Nat.le_refl _
    · cases hs
  | commit i' =>
    simp only [step] at hs
    split at hs
    · split at hs
      · cases hs
      · split at hs
        · simp only [Option.some.injEq] at hs; subst hs; exact Nat.le_refl _
        · split at hs
          · simp only [Option.some.injEq] at hs; subst hs; exact Nat.le_refl _
          · simp only [Option.some.injEq] at hs; subst hs; exact Nat.le_refl _
    · cases hs
  | discard i' =>
    simp only [step] at hs
    split at hs
    · simp only [Option.some.injEq] at hs; subst hs; exact Nat.le_refl _
    · cases hs
  | mark v =>
    simp only [step] at hs
    split at hs
    · rename_i hc
      simp only [Option.some.injEq] at hs; subst hs; exact hc.1
    · cases hs

/-- a successful commit appends exactly the transaction's pending writes at `nextTs` -/
theorem commit_success {s s' : St} (i : Nat) (t : Txn) (ht : s.txns[i]? = some t)
    (hs : step s (.commit i) = some s') (hn : s'.nextTs ≠ s.nextTs) :
    s'.all = s.all ++ [{ ts := s.nextTs, writes := t.writes }] ∧ s'.nextTs = s.nextTs + 1 ∧ t.writes ≠ [] ∧
      s'.readMark = s.readMark := by
  simp only [step, ht] at hs
  split at hs
  · cases hs
  · split at hs
    · simp only [Option.some.injEq] at hs; subst hs; exact absurd rfl hn
    · split at hs
      · simp only [Option.some.injEq] at hs; subst hs; exact absurd rfl hn
      · rename_i hne _
        simp only [Option.some.injEq] at hs; subst hs
        refine ⟨rfl, rfl, ?_, rfl⟩
        intro he; apply hne; simp [he]

end Oracle2

namespace DB

/-- background steps never change the commit history or the timestamp counter; the watermark only
    moves to the value a compaction was given -/
theorem bg_frame {d d' : St} (b : Step) (hb : ∀ ws, b ≠ .commit ws) (hs : step d b = some d') :
    d'.committed = d.committed ∧ d'.nextTs = d.nextTs ∧
      (d'.low = d.low ∨ ∃ pick low bs, b = .compact pick low bs ∧ d'.low = low) := by
  cases b with
  | commit ws => exact absurd rfl (hb ws)
  | rotate => simp only [step] at hs; split at hs <;> simp at hs; subst hs; exact ⟨rfl, rfl, Or.inl rfl⟩
  | flushAdd bs => simp only [step] at hs; split at hs <;> simp at hs; subst hs; exact ⟨rfl, rfl, Or.inl rfl⟩
  | flushRemove => simp only [step] at hs; split at hs <;> simp at hs; subst hs; exact ⟨rfl, rfl, Or.inl rfl⟩
  | compact pick low bs =>
    simp only [step] at hs
    split at hs
    · cases hs
    · simp only [Option.some.injEq] at hs; subst hs
      exact ⟨rfl, rfl, Or.inr ⟨pick, low, bs, rfl, rfl⟩⟩

theorem commit_frame {d d' : St} (ws : List W) (hs : step d (.commit ws) = some d') :
    d'.committed = d.committed ++ ws.map (entryOf d.nextTs) ∧ d'.nextTs = d.nextTs + 1 ∧ d'.low = d.low := by
  simp only [step] at hs
  split at hs
  · cases hs
  · simp only [Option.some.injEq] at hs; subst hs; exact ⟨rfl, rfl, rfl⟩

end DB

namespace Sys
open Key VKey Table Levels Compact LSM DB

/-- coupling invariant of the whole system -/
structure SInv (s : St) : Prop where
  reach : Oracle2.Reach s.o
  dinv : DB.Inv s.d
  lowMark : s.d.low ≤ s.o.readMark
  wlen : s.waited.length = s.o.txns.length
  hist : match s.inflight, s.applied with
    | some (ts, ws), false => ∃ all' c, s.o.all = all' ++ [c] ∧ c.ts = ts ∧ batchOf c.writes = ws ∧
        s.d.committed = entriesOf all' ∧ s.d.nextTs = ts ∧ s.o.nextTs = ts + 1
    | some (ts, _), true => s.d.committed = entriesOf s.o.all ∧ s.d.nextTs = s.o.nextTs ∧ s.o.nextTs = ts + 1
    | none, _ => s.d.committed = entriesOf s.o.all ∧ s.d.nextTs = s.o.nextTs
  cmark : match s.inflight with
    | some (ts, _) => s.commitMark + 1 = ts
    | none => s.commitMark + 1 = s.o.nextTs
  waitedOk : ∀ i t, s.o.txns[i]? = some t → s.waited.getD i false = true → t.readTs ≤ s.commitMark

theorem sinv_init : SInv init := by
  refine ⟨Oracle2.Reach.init, DB.inv_init, by simp [init, DB.init, Oracle2.init], rfl, ?_, ?_, ?_⟩
  · simp [init, DB.init, Oracle2.init, entriesOf]
  · simp [init, Oracle2.init]
  · intro i t ht; simp [init, Oracle2.init] at ht

/-- an Oracle2 step that leaves history and counter alone keeps the coupling -/
theorem sinv_of_o_frame {s : St} (h : SInv s) (o' : Oracle2.St) (st : Oracle2.Step)
    (hs : Oracle2.step s.o st = some o') (hall : o'.all = s.o.all) (hnext : o'.nextTs = s.o.nextTs)
    (w' : List Bool) (hw : w'.length = o'.txns.length)
    (hwo : ∀ i, w'.getD i false = true → s.waited.getD i false = true) :
    SInv { s with o := o', waited := w' } := by
  refine ⟨Oracle2.Reach.step st h.reach hs, h.dinv, Nat.le_trans h.lowMark (Oracle2.readMark_step st hs), hw, ?_, ?_, ?_⟩
  · have := h.hist
    simp only
    cases hi : s.inflight with
    | none => rw [hi] at this; simp only at this ⊢; rw [hall, hnext]; exact this
    | some p =>
      obtain ⟨ts, ws⟩ := p
      cases ha : s.applied with
      | false =>
        rw [hi, ha] at this
        simp only at this ⊢
        rw [hall, hnext]; exact this
      | true =>
        rw [hi, ha] at this
        simp only at this ⊢
        rw [hall, hnext]; exact this
  · have := h.cmark
    simp only
    cases hi : s.inflight with
    | none => rw [hi] at this; simp only at this ⊢; rw [hnext]; exact this
    | some p => rw [hi] at this; exact this
  · intro i t' ht' hwi
    have hwi' := hwo i hwi
    rcases Oracle2.txns_step st hs i t' ht' with ⟨t, ht, hr⟩ | hnone
    · rw [← hr]; exact h.waitedOk i t ht hwi'
    · exfalso
      have : s.o.txns.length ≤ i := by simpa using hnone
      have hlen := h.wlen
      have : s.waited.getD i false = false := by
        rw [List.getD_eq_getElem?_getD, List.getElem?_eq_none (by omega)]; rfl
      rw [this] at hwi'; cases hwi'

theorem entriesOf_append (a b : List Oracle2.Commit) : entriesOf (a ++ b) = entriesOf a ++ entriesOf b := by
  simp [entriesOf]

theorem sinv_step {s s' : St} (h : SInv s) (st : Step) (hs : step s st = some s') : SInv s' := by
  cases st with
  | begin u =>
    simp only [step] at hs
    cases ho : Oracle2.step s.o (.begin u) with
    | none => rw [ho] at hs; simp at hs
    | some o' =>
      rw [ho] at hs
      simp only [Option.map_some, Option.some.injEq] at hs
      subst hs
      have hfr := Oracle2.all_step _ ho
      have hlen := Oracle2.txns_length_step _ ho
      rcases hfr with ⟨ha, hn⟩ | ⟨c, ha, _, hn⟩
      · apply sinv_of_o_frame h o' _ ho ha hn
        · simp only at hlen; simp [hlen, h.wlen]
        · intro i hi
          by_cases hlt : i < s.waited.length
          · simpa [List.getD_eq_getElem?_getD, List.getElem?_append_left hlt] using hi
          · exfalso
            rw [List.getD_eq_getElem?_getD] at hi
            by_cases he : i = s.waited.length
            · subst he; simp at hi
            · rw [List.getElem?_eq_none (by simp; omega)] at hi; simp at hi
      · exfalso
        simp only [Oracle2.step, Option.some.injEq] at ho
        subst ho
        simp at hn
  | waited i =>
    simp only [step] at hs
    split at hs
    · rename_i t ht
      split at hs
      · rename_i hle
        simp only [Option.some.injEq] at hs; subst hs
        refine ⟨h.reach, h.dinv, h.lowMark, by simp [h.wlen], h.hist, h.cmark, ?_⟩
        intro j tj htj hwj
        by_cases hij : i = j
        · subst hij
          rw [ht] at htj; injection htj with htj; rw [← htj]; exact hle
        · have : (s.waited.set i true).getD j false = s.waited.getD j false := by
            simp [List.getD_eq_getElem?_getD, List.getElem?_set, hij]
          rw [this] at hwj
          exact h.waitedOk j tj htj hwj
      · cases hs
    · cases hs
  | get i k =>
    simp only [step] at hs
    split at hs
    · cases ho : Oracle2.step s.o (.get i k) with
      | none => rw [ho] at hs; simp at hs
      | some o' =>
        rw [ho] at hs
        simp only [Option.map_some, Option.some.injEq] at hs
        subst hs
        have hlen := Oracle2.txns_length_step _ ho
        rcases Oracle2.all_step _ ho with ⟨ha, hn⟩ | ⟨c, ha, _, hn⟩
        · have := sinv_of_o_frame h o' _ ho ha hn s.waited (by simp only at hlen; simp [hlen, h.wlen]) (fun _ hi => hi)
          simpa using this
        · exfalso
          simp only [Oracle2.step] at ho
          split at ho
          · split at ho
            · cases ho
            · split at ho
              · simp only [Option.some.injEq] at ho; subst ho; simp at hn
              · split at ho
                · simp only [Option.some.injEq] at ho; subst ho; simp at hn
                · simp only [Option.some.injEq] at ho; subst ho; simp at hn
          · cases ho
    · cases hs
  | set i k v =>
    simp only [step] at hs
    split at hs
    · cases ho : Oracle2.step s.o (.set i k v) with
      | none => rw [ho] at hs; simp at hs
      | some o' =>
        rw [ho] at hs
        simp only [Option.map_some, Option.some.injEq] at hs
        subst hs
        have hlen := Oracle2.txns_length_step _ ho
        rcases Oracle2.all_step _ ho with ⟨ha, hn⟩ | ⟨c, ha, _, hn⟩
        · have := sinv_of_o_frame h o' _ ho ha hn s.waited (by simp only at hlen; simp [hlen, h.wlen]) (fun _ hi => hi)
          simpa using this
        · exfalso
          simp only [Oracle2.step] at ho
          split at ho
          · split at ho
            · cases ho
            · simp only [Option.some.injEq] at ho; subst ho; simp at hn
          · cases ho
    · cases hs
  | discard i =>
    simp only [step] at hs
    cases ho : Oracle2.step s.o (.discard i) with
    | none => rw [ho] at hs; simp at hs
    | some o' =>
      rw [ho] at hs
      simp only [Option.map_some, Option.some.injEq] at hs
      subst hs
      have hlen := Oracle2.txns_length_step _ ho
      rcases Oracle2.all_step _ ho with ⟨ha, hn⟩ | ⟨c, ha, _, hn⟩
      · have := sinv_of_o_frame h o' _ ho ha hn s.waited (by simp only at hlen; simp [hlen, h.wlen]) (fun _ hi => hi)
        simpa using this
      · exfalso
        simp only [Oracle2.step] at ho
        split at ho
        · simp only [Option.some.injEq] at ho; subst ho; simp at hn
        · cases ho
  | mark v =>
    simp only [step] at hs
    cases ho : Oracle2.step s.o (.mark v) with
    | none => rw [ho] at hs; simp at hs
    | some o' =>
      rw [ho] at hs
      simp only [Option.map_some, Option.some.injEq] at hs
      subst hs
      have hlen := Oracle2.txns_length_step _ ho
      rcases Oracle2.all_step _ ho with ⟨ha, hn⟩ | ⟨c, ha, _, hn⟩
      · have := sinv_of_o_frame h o' _ ho ha hn s.waited (by simp only at hlen; simp [hlen, h.wlen]) (fun _ hi => hi)
        simpa using this
      · exfalso
        simp only [Oracle2.step] at ho
        split at ho
        · simp only [Option.some.injEq] at ho; subst ho; simp at hn
        · cases ho
  | commitStart i =>
    simp only [step] at hs
    split at hs
    · rename_i t hinf ht
      split at hs
      · cases hs
      · cases ho : Oracle2.step s.o (.commit i) with
        | none => rw [ho] at hs; simp at hs
        | some o' =>
          rw [ho] at hs
          simp only [Option.map_some, Option.some.injEq] at hs
          have hlen := Oracle2.txns_length_step _ ho
          by_cases hn : o'.nextTs = s.o.nextTs
          · rw [if_pos hn] at hs
            subst hs
            rcases Oracle2.all_step _ ho with ⟨ha, _⟩ | ⟨c, _, _, hn'⟩
            · have := sinv_of_o_frame h o' _ ho ha hn s.waited (by simp only at hlen; simp [hlen, h.wlen]) (fun _ hi => hi)
              simpa using this
            · omega
          · rw [if_neg hn] at hs
            subst hs
            obtain ⟨hall, hnext, hne, hrm⟩ := Oracle2.commit_success i t ht ho hn
            have hh := h.hist
            have hc := h.cmark
            rw [hinf] at hh hc
            simp only at hh hc
            refine ⟨Oracle2.Reach.step _ h.reach ho, h.dinv, by rw [hrm]; exact h.lowMark,
              by simp only at hlen; simp [hlen, h.wlen], ?_, ?_, ?_⟩
            · simp only
              exact ⟨s.o.all, _, hall, rfl, rfl, hh.1, hh.2, hnext⟩
            · simp only; exact hc
            · intro j tj htj hwj
              rcases Oracle2.txns_step _ ho j tj htj with ⟨t0, ht0, hr⟩ | hnone
              · rw [← hr]; exact h.waitedOk j t0 ht0 hwj
              · exfalso
                have : s.o.txns.length ≤ j := by simpa using hnone
                have hl := h.wlen
                have : s.waited.getD j false = false := by
                  rw [List.getD_eq_getElem?_getD, List.getElem?_eq_none (by omega)]; rfl
                rw [this] at hwj; cases hwj
    · cases hs
  | apply =>
    simp only [step] at hs
    split at hs
    · rename_i ts ws hinf happ
      cases hd : DB.step s.d (.commit ws) with
      | none => rw [hd] at hs; simp at hs
      | some d' =>
        rw [hd] at hs
        simp only [Option.map_some, Option.some.injEq] at hs
        subst hs
        have hh := h.hist
        rw [hinf, happ] at hh
        simp only at hh
        obtain ⟨all', c, hall, hcts, hcw, hcom, hdn, hon⟩ := hh
        obtain ⟨hc', hn', hl'⟩ := DB.commit_frame ws hd
        refine ⟨h.reach, DB.inv_step h.dinv _ hd, by rw [hl']; exact h.lowMark, h.wlen, ?_, ?_, h.waitedOk⟩
        · simp only [hinf]
          refine ⟨?_, by rw [hn', hdn, hon], hon⟩
          rw [hc', hcom, hall, entriesOf_append]
          congr 1
          simp only [entriesOf, List.flatMap_cons, List.flatMap_nil, List.append_nil, entriesOfCommit]
          rw [hcw, hdn, hcts]
        · have := h.cmark; rw [hinf] at this ⊢; exact this
    · cases hs
  | commitDone =>
    simp only [step] at hs
    split at hs
    · rename_i ts ws hinf happ
      simp only [Option.some.injEq] at hs
      subst hs
      have hh := h.hist
      have hc := h.cmark
      rw [hinf, happ] at hh
      rw [hinf] at hc
      simp only at hh hc
      refine ⟨h.reach, h.dinv, h.lowMark, h.wlen, ?_, ?_, ?_⟩
      · simp only; exact ⟨hh.1, hh.2.1⟩
      · simp only; omega
      · intro j tj htj hwj
        have := h.waitedOk j tj htj hwj
        simp only; omega
    · cases hs
  | bg b =>
    simp only [step] at hs
    have core : ∀ d', DB.step s.d b = some d' → (∀ ws, b ≠ .commit ws) →
        (∀ pick low bs, b = .compact pick low bs → low ≤ s.o.readMark) → SInv { s with d := d' } := by
      intro d' hd hnc hlow
      obtain ⟨hc, hn, hl⟩ := DB.bg_frame b hnc hd
      refine ⟨h.reach, DB.inv_step h.dinv _ hd, ?_, h.wlen, ?_, h.cmark, h.waitedOk⟩
      · rcases hl with hl | ⟨pick, low, bs, hb, hl⟩
        · rw [hl]; exact h.lowMark
        · rw [hl]; exact hlow pick low bs hb
      · have := h.hist
        simp only
        cases hi : s.inflight with
        | none => rw [hi] at this; simp only at this ⊢; rw [hc, hn]; exact this
        | some p =>
          obtain ⟨ts, ws⟩ := p
          cases ha : s.applied with
          | false => rw [hi, ha] at this; simp only at this ⊢; rw [hc, hn]; exact this
          | true => rw [hi, ha] at this; simp only at this ⊢; rw [hc, hn]; exact this
    cases b with
    | commit ws => simp at hs
    | rotate =>
      simp only at hs
      cases hd : DB.step s.d .rotate with
      | none => rw [hd] at hs; simp at hs
      | some d' =>
        rw [hd] at hs; simp only [Option.map_some, Option.some.injEq] at hs; subst hs
        exact core d' hd (by intro ws hh; cases hh) (by intro _ _ _ hh; cases hh)
    | flushAdd bs =>
      simp only at hs
      cases hd : DB.step s.d (.flushAdd bs) with
      | none => rw [hd] at hs; simp at hs
      | some d' =>
        rw [hd] at hs; simp only [Option.map_some, Option.some.injEq] at hs; subst hs
        exact core d' hd (by intro ws hh; cases hh) (by intro _ _ _ hh; cases hh)
    | flushRemove =>
      simp only at hs
      cases hd : DB.step s.d .flushRemove with
      | none => rw [hd] at hs; simp at hs
      | some d' =>
        rw [hd] at hs; simp only [Option.map_some, Option.some.injEq] at hs; subst hs
        exact core d' hd (by intro ws hh; cases hh) (by intro _ _ _ hh; cases hh)
    | compact pick low bs =>
      simp only at hs
      split at hs
      · rename_i hle
        cases hd : DB.step s.d (.compact pick low bs) with
        | none => rw [hd] at hs; simp at hs
        | some d' =>
          rw [hd] at hs; simp only [Option.map_some, Option.some.injEq] at hs; subst hs
          exact core d' hd (by intro ws hh; cases hh) (by intro p l b hh; injection hh with _ h2 _; rw [← h2]; exact hle)
      · cases hs

theorem sinv_foldlM (steps : List Step) (s0 s : St) (h0 : SInv s0) (h : steps.foldlM step s0 = some s) : SInv s := by
  induction steps generalizing s0 with
  | nil => simp at h; rw [← h]; exact h0
  | cons st rest ih =>
    simp only [List.foldlM_cons, Option.bind_eq_bind] at h
    cases h1 : step s0 st with
    | none => rw [h1] at h; simp at h
    | some s1 => rw [h1] at h; exact ih s1 (sinv_step h0 st h1) h

theorem sinv_run {steps : List Step} {s : St} (hs : run steps = some s) : SInv s :=
  sinv_foldlM steps init s sinv_init hs

/-- **C05 core**: the store read of a transaction that has begun (its Begin has returned) and is still open
    is the MVCC value at its read timestamp — whatever commits (complete or in flight), rotations,
    flushes, compactions and watermark publications have happened -/
theorem storeRead_eq_spec (mayContain : TableM → Bytes → Bool)
    (hbloom : ∀ t e, e ∈ t.entries → mayContain t e.key.user = true)
    {s : St} (h : SInv s) (i : Nat) (t : Oracle2.Txn) (ht : s.o.txns[i]? = some t)
    (hw : s.waited.getD i false = true) (hopen : t.doneRead = false) (k : Bytes) :
    storeRead mayContain s t.readTs k = Oracle2.specAt s.o.all t.readTs k := by
  have hoinv := Oracle2.inv_reach h.reach
  have htm : t ∈ s.o.txns := List.mem_of_getElem? ht
  have hlow : s.d.low ≤ t.readTs := Nat.le_trans h.lowMark (hoinv.mark_le_open t htm hopen)
  have hrc := h.waitedOk i t ht hw
  unfold storeRead
  rw [DB.get_eq_spec mayContain hbloom h.dinv k t.readTs hlow]
  have hsorted := Oracle2.all_sorted h.reach
  have hh := h.hist
  have hcm := h.cmark
  cases hi : s.inflight with
  | none =>
    rw [hi] at hh; simp only at hh
    rw [hh.1]; exact valueOf_newest_entriesOf _ hsorted k _
  | some p =>
    obtain ⟨ts, ws⟩ := p
    rw [hi] at hcm; simp only at hcm
    cases ha : s.applied with
    | true =>
      rw [hi, ha] at hh; simp only at hh
      rw [hh.1]; exact valueOf_newest_entriesOf _ hsorted k _
    | false =>
      rw [hi, ha] at hh; simp only at hh
      obtain ⟨all', c, hall, hcts, _, hcom, _, _⟩ := hh
      rw [hcom, hall]
      rw [hall] at hsorted
      rw [valueOf_newest_entriesOf _ (List.pairwise_append.mp hsorted).1 k _]
      exact (Oracle2.specAt_snoc_gt all' c t.readTs k (by omega)).symm

end Sys
