import Originium.Generated.Codec
import Originium.Model.Codec3
/-! Tie between the translated `Data.Encode` (`Generated/Codec.lean`, regenerated from /repo on every check) and the codec model. -/
namespace CodecTie
open Codec

theorem encode_loop (k : Bytes → UInt8 → Bytes → Option Bytes) (hk : ∀ p t p' t' b, k p t b = k p' t' b)
    (es : List Entry) (prev : Bytes) (tb : UInt8) (buf : Bytes) :
    List.foldr (fun (entry : Entry) kont1 => fun (prevKey : Bytes) (tombstone : UInt8) (buf : Bytes) =>
        if (decide (65535 < entry.key.length) || decide (65535 < entry.value.length)) = true then none
        else if entry.tomb = true then
          kont1 entry.key 1 (buf ++ encLE 2 (lcp entry.key prevKey) ++ encLE 2 (entry.key.drop (lcp entry.key prevKey)).length ++
            entry.key.drop (lcp entry.key prevKey) ++ encLE 2 entry.value.length ++ entry.value ++ [1] ++ encLE 8 entry.version)
        else
          kont1 entry.key 0 (buf ++ encLE 2 (lcp entry.key prevKey) ++ encLE 2 (entry.key.drop (lcp entry.key prevKey)).length ++
            entry.key.drop (lcp entry.key prevKey) ++ encLE 2 entry.value.length ++ entry.value ++ [0] ++ encLE 8 entry.version))
      k es prev tb buf =
    if es.all (fun e => decide (e.key.length ≤ 65535) && decide (e.value.length ≤ 65535)) then k [] 0 (buf ++ encData prev es) else none := by
  induction es generalizing prev tb buf with
  | nil => simp only [List.foldr_nil, List.all_nil, ↓reduceIte, encData, List.append_nil]; exact hk _ _ _ _ _
  | cons e es ih =>
    simp only [List.foldr_cons, List.all_cons, encData]
    by_cases hbig : (decide (65535 < e.key.length) || decide (65535 < e.value.length)) = true
    · have : (decide (e.key.length ≤ 65535) && decide (e.value.length ≤ 65535)) = false := by
        simp only [Bool.or_eq_true, decide_eq_true_eq] at hbig
        simp only [Bool.and_eq_false_iff, decide_eq_false_iff_not]
        omega
      simp [hbig, this]
    · have hsmall : (decide (e.key.length ≤ 65535) && decide (e.value.length ≤ 65535)) = true := by
        simp only [Bool.or_eq_true, decide_eq_true_eq, not_or] at hbig
        simp only [Bool.and_eq_true, decide_eq_true_eq]
        omega
      simp only [hbig, Bool.false_eq_true, ↓reduceIte, hsmall, Bool.true_and]
      cases ht : e.tomb <;> simp only [Bool.false_eq_true, ↓reduceIte] <;> rw [ih] <;>
        simp [encEntry, ht, List.append_assoc]

/-- the translated `Data.Encode` is the model's `encodeData` followed by the compression: an error exactly when a key or a
    value does not fit its 16-bit length field, otherwise the compressed staged bytes `encData [] entries` -/
theorem encodeData_eq (comp : Bytes → Bytes) (es : List Entry) :
    GenCodec.encodeData comp es = (encodeData es).map comp := by
  unfold GenCodec.encodeData encodeData
  simp only [Bool.false_eq_true, ↓reduceIte, List.append_assoc]
  have := encode_loop (fun _ _ b => some (comp b)) (fun _ _ _ _ _ => rfl) es [] 0 []
  simp only [List.append_assoc, List.nil_append] at this
  rw [this]
  split <;> rfl

/-! ### `Data.Decode` -/

def toT (e : Entry) : Bytes × Bytes × Bool × Nat := (e.key, e.value, e.tomb, e.version)

theorem decLE_length (w : Nat) (bs : Bytes) (v : Nat) (rest : Bytes) (h : decLE w bs = some (v, rest)) : rest.length + w = bs.length := by
  induction w generalizing bs v rest with
  | zero => simp [decLE] at h; rw [h.2]; rfl
  | succ w ih =>
    cases bs with
    | nil => simp [decLE] at h
    | cons b bs =>
      simp only [decLE, Option.map_eq_some_iff] at h
      obtain ⟨⟨v', rest'⟩, h1, h2⟩ := h
      have := ih bs v' rest' h1
      simp only [Prod.mk.injEq] at h2
      rw [← h2.2]
      simp only [List.length_cons]; omega

theorem decEntry_shrinks (prev bs : Bytes) (e : Entry) (rest : Bytes) (h : decEntry prev bs = some (e, rest)) : rest.length < bs.length := by
  unfold decEntry at h
  simp only [Option.bind_eq_some_iff] at h
  obtain ⟨r1, h1, r2, h2, r3, h3, r4, h4, r5, h5, r6, h6, r7, h7, h8⟩ := h
  have l1 := decLE_length 2 bs r1.1 r1.2 h1
  have l2 := decLE_length 2 _ r2.1 r2.2 h2
  have l4 := decLE_length 2 _ r4.1 r4.2 h4
  have l7 := decLE_length 8 _ r7.1 r7.2 h7
  have l3 : r3.2.length ≤ r2.2.length := by
    unfold readN at h3; split at h3
    · cases h3
    · cases h3; simp
  have l5 : r5.2.length ≤ r4.2.length := by
    unfold readN at h5; split at h5
    · cases h5
    · cases h5; simp
  have l6 : r6.2.length < r5.2.length := by
    cases hh : r5.2 with
    | nil => rw [hh] at h6; simp [readByte] at h6
    | cons b bs' => rw [hh] at h6; simp only [readByte, Option.some.injEq] at h6; rw [← h6]; simp
  simp only [Option.some.injEq, Prod.mk.injEq] at h8
  rw [← h8.2]
  omega

theorem decLE_one (bs : Bytes) : decLE 1 bs = (readByte bs).map fun r => (r.1.toNat, r.2) := by
  cases bs with
  | nil => rfl
  | cons b bs => simp [decLE, readByte]

theorem u8_eq_one (b : UInt8) : decide (b.toNat = 1) = (b == 1) := by
  by_cases h : b = 1
  · subst h; rfl
  · have h2 : b.toNat ≠ 1 := fun hh => h (UInt8.toNat_inj.mp hh)
    simp [h, h2]

/-- one iteration of the translated loop against the model's `decEntry` -/
theorem loop_step (exit : Bytes → Bool → Bytes → List (Bytes × Bytes × Bool × Nat) → Option (List (Bytes × Bytes × Bool × Nat)))
    (fuel : Nat) (b : UInt8) (bs prev : Bytes) (acc : List (Bytes × Bytes × Bool × Nat)) :
    GenCodec.decodeData.loop1 exit (fuel + 1) (b :: bs) false prev acc =
      match decEntry prev (b :: bs) with
      | none => none
      | some (e, rest) => GenCodec.decodeData.loop1 exit fuel rest false e.key (acc ++ [toT e]) := by
  rw [GenCodec.decodeData.loop1]
  simp only [List.length_cons, Nat.zero_lt_succ, decide_true, ↓reduceIte]
  unfold decEntry
  cases h1 : decLE 2 (b :: bs) with
  | none => simp [GenCodec.rdN, GenCodec.rdB, h1]
  | some r1 =>
    cases h2 : decLE 2 r1.2 with
    | none => simp [GenCodec.rdN, GenCodec.rdB, h1, h2]
    | some r2 =>
      cases h3 : readN r2.1 r2.2 with
      | none =>
        have : r2.2.length < r2.1 := by unfold readN at h3; split at h3 <;> simp_all
        simp [GenCodec.rdN, GenCodec.rdB, h1, h2, h3, this]
      | some r3 =>
        have h3' : ¬ r2.2.length < r2.1 ∧ r3 = (r2.2.take r2.1, r2.2.drop r2.1) := by
          unfold readN at h3; split at h3
          · cases h3
          · rename_i hh; exact ⟨hh, by cases h3; rfl⟩
        obtain ⟨h3a, rfl⟩ := h3'
        cases h4 : decLE 2 (r2.2.drop r2.1) with
        | none => simp [GenCodec.rdN, GenCodec.rdB, h1, h2, h3, h3a, h4]
        | some r4 =>
          cases h5 : readN r4.1 r4.2 with
          | none =>
            have : r4.2.length < r4.1 := by unfold readN at h5; split at h5 <;> simp_all
            simp [GenCodec.rdN, GenCodec.rdB, h1, h2, h3, h3a, h4, h5, this]
          | some r5 =>
            have h5' : ¬ r4.2.length < r4.1 ∧ r5 = (r4.2.take r4.1, r4.2.drop r4.1) := by
              unfold readN at h5; split at h5
              · cases h5
              · rename_i hh; exact ⟨hh, by cases h5; rfl⟩
            obtain ⟨h5a, rfl⟩ := h5'
            cases h6 : readByte (r4.2.drop r4.1) with
            | none =>
              have h6' : decLE 1 (r4.2.drop r4.1) = none := by rw [decLE_one, h6]; rfl
              simp [GenCodec.rdN, GenCodec.rdB, h1, h2, h3, h3a, h4, h5, h5a, h6, h6']
            | some r6 =>
              have h6' : decLE 1 (r4.2.drop r4.1) = some (r6.1.toNat, r6.2) := by rw [decLE_one, h6]; rfl
              cases h7 : decLE 8 r6.2 with
              | none => simp [GenCodec.rdN, GenCodec.rdB, h1, h2, h3, h3a, h4, h5, h5a, h6, h6', h7]
              | some r7 =>
                simp [GenCodec.rdN, GenCodec.rdB, h1, h2, h3, h3a, h4, h5, h5a, h6, h6', h7, toT, u8_eq_one]

theorem loop_eq (fuel : Nat) (bs prev : Bytes) (acc : List (Bytes × Bytes × Bool × Nat)) (hf : bs.length < fuel) :
    GenCodec.decodeData.loop1 (fun _ _ _ entries => some entries) fuel bs false prev acc =
      (decData fuel prev bs).map fun es => acc ++ es.map toT := by
  induction fuel generalizing bs prev acc with
  | zero => omega
  | succ f ih =>
    cases bs with
    | nil => simp [GenCodec.decodeData.loop1, decData]
    | cons b bs =>
      rw [loop_step, decData]
      cases hd : decEntry prev (b :: bs) with
      | none => rfl
      | some er =>
        obtain ⟨e, rest⟩ := er
        have hs := decEntry_shrinks prev (b :: bs) e rest hd
        simp only
        rw [ih rest e.key (acc ++ [toT e]) (by simp only [List.length_cons] at hf hs; omega)]
        cases decData f e.key rest <;> simp

/-- the translated `Data.Decode` is the model's decoder: decompress, then `decData` from an empty previous key; the decoded
    entries are appended to the receiver's -/
theorem decodeData_eq (decomp : Bytes → Option Bytes) (data : Bytes) (entries0 : List (Bytes × Bytes × Bool × Nat)) :
    GenCodec.decodeData decomp data entries0 =
      (decomp data).bind fun raw => (decData (raw.length + 1) [] raw).map fun es => entries0 ++ es.map toT := by
  unfold GenCodec.decodeData
  cases hd : decomp data with
  | none => simp
  | some raw =>
    simp only [Option.isNone_some, Bool.false_eq_true, ↓reduceIte, Option.getD_some, Option.bind_some]
    exact loop_eq (raw.length + 1) raw [] entries0 (by omega)

theorem encData_length_ge (prev : Bytes) (es : List Entry) : es.length ≤ (encData prev es).length := by
  induction es generalizing prev with
  | nil => simp [encData]
  | cons e es ih =>
    have := ih e.key
    simp only [encData, encEntry, List.length_append, List.length_cons, List.length_nil]
    omega

/-- **round trip of the translated code**: what the translated `Data.Encode` returns, the translated `Data.Decode` (into an empty
    receiver) turns back into exactly the entries, for every S2 that decompresses what it compressed -/
theorem code_roundtrip (z : S2) (hz : S2Law z) (es : List Entry) (hv : ∀ e ∈ es, e.version < 2 ^ 64) (b : Bytes)
    (h : GenCodec.encodeData z.comp es = some b) : GenCodec.decodeData z.decomp b [] = some (es.map toT) := by
  rw [encodeData_eq] at h
  obtain ⟨raw, hraw, rfl⟩ := Option.map_eq_some_iff.mp h
  rw [decodeData_eq, hz.single]
  simp only [Option.bind_some, List.nil_append]
  have hlen : es.length ≤ raw.length + 1 := by
    have hs : (encodeData es).isSome = true := by rw [hraw]; rfl
    unfold encodeData at hraw
    split at hraw
    · injection hraw with hraw
      rw [← hraw]
      have := encData_length_ge [] es
      omega
    · cases hraw
  rw [decData_encodeData es raw hraw hv (raw.length + 1) hlen]
  rfl

end CodecTie
