import Originium.Generated.Codec
import Originium.Model.Codec2
/-! Tie between the translated `Data.Encode` (`Generated/Codec.lean`, regenerated from /repo on every check) and the codec model. -/
namespace CodecTie
open Codec

theorem encode_loop (k : Bytes → UInt8 → Bytes → Option Bytes) (hk : ∀ p t p' t' b, k p t b = k p' t' b)
    (es : List Entry) (prev : Bytes) (tb : UInt8) (buf : Bytes) :
    List.foldr (fun (entry : Entry) kont1 => fun (prevKey : Bytes) (tombstone : UInt8) (buf : Bytes) =>
        if (decide (65535 < entry.key.length) || decide (65535 < entry.value.length)) = true then none
        else if entry.tomb = true then
          kont1 entry.key 1 (buf ++ encLE 2 (lcp entry.key prevKey) ++ encLE 2 (entry.key.drop (lcp entry.key prevKey)).length ++
            entry.key.drop (lcp entry.key prevKey) ++ encLE 2 entry.value.length ++ entry.value ++ [1] ++ encLE 8 entry.version)
        else
          kont1 entry.key 0 (buf ++ encLE 2 (lcp entry.key prevKey) ++ encLE 2 (entry.key.drop (lcp entry.key prevKey)).length ++
            entry.key.drop (lcp entry.key prevKey) ++ encLE 2 entry.value.length ++ entry.value ++ [0] ++ encLE 8 entry.version))
      k es prev tb buf =
    if es.all (fun e => decide (e.key.length ≤ 65535) && decide (e.value.length ≤ 65535)) then k [] 0 (buf ++ encData prev es) else none := by
  induction es generalizing prev tb buf with
  | nil => simp only [List.foldr_nil, List.all_nil, ↓reduceIte, encData, List.append_nil]; exact hk _ _ _ _ _
  | cons e es ih =>
    simp only [List.foldr_cons, List.all_cons, encData]
    by_cases hbig : (decide (65535 < e.key.length) || decide (65535 < e.value.length)) = true
    · have : (decide (e.key.length ≤ 65535) && decide (e.value.length ≤ 65535)) = false := by
        simp only [Bool.or_eq_true, decide_eq_true_eq] at hbig
        simp only [Bool.and_eq_false_iff, decide_eq_false_iff_not]
        omega
      simp [hbig, this]
    · have hsmall : (decide (e.key.length ≤ 65535) && decide (e.value.length ≤ 65535)) = true := by
        simp only [Bool.or_eq_true, decide_eq_true_eq, not_or] at hbig
        simp only [Bool.and_eq_true, decide_eq_true_eq]
        omega
      simp only [hbig, Bool.false_eq_true, ↓reduceIte, hsmall, Bool.true_and]
      cases ht : e.tomb <;> simp only [Bool.false_eq_true, ↓reduceIte] <;> rw [ih] <;>
        simp [encEntry, ht, List.append_assoc]

/-- the translated `Data.Encode` is the model's `encodeData` followed by the compression: an error exactly when a key or a
    value does not fit its 16-bit length field, otherwise the compressed staged bytes `encData [] entries` -/
theorem encodeData_eq (comp : Bytes → Bytes) (es : List Entry) :
    GenCodec.encodeData comp es = (encodeData es).map comp := by
  unfold GenCodec.encodeData encodeData
  simp only [Bool.false_eq_true, ↓reduceIte, List.append_assoc]
  have := encode_loop (fun _ _ b => some (comp b)) (fun _ _ _ _ _ => rfl) es [] 0 []
  simp only [List.append_assoc, List.nil_append] at this
  rw [this]
  split <;> rfl

end CodecTie
