import Originium.Generated.Codec
import Originium.Model.Codec3
/-! Tie between the translated `Data.Encode` (`Generated/Codec.lean`, regenerated from /repo on every check) and the codec model. -/
namespace CodecTie
open Codec

theorem encode_loop (k : Bytes → UInt8 → Bytes → Option Bytes) (hk : ∀ p t p' t' b, k p t b = k p' t' b)
    (es : List Entry) (prev : Bytes) (tb : UInt8) (buf : Bytes) :
    List.foldr (fun (entry : Entry) kont1 => fun (prevKey : Bytes) (tombstone : UInt8) (buf : Bytes) =>
        if (decide (65535 < entry.key.length) || decide (65535 < entry.value.length)) = true then none
        else if entry.tomb = true then
          kont1 entry.key 1 (buf ++ encLE 2 (lcp entry.key prevKey) ++ encLE 2 (entry.key.drop (lcp entry.key prevKey)).length ++
            entry.key.drop (lcp entry.key prevKey) ++ encLE 2 entry.value.length ++ entry.value ++ [1] ++ encLE 8 entry.version)
        else
          kont1 entry.key 0 (buf ++ encLE 2 (lcp entry.key prevKey) ++ encLE 2 (entry.key.drop (lcp entry.key prevKey)).length ++
            entry.key.drop (lcp entry.key prevKey) ++ encLE 2 entry.value.length ++ entry.value ++ [0] ++ encLE 8 entry.version))
      k es prev tb buf =
    if es.all (fun e => decide (e.key.length ≤ 65535) && decide (e.value.length ≤ 65535)) then k [] 0 (buf ++ encData prev es) else none := by
  induction es generalizing prev tb buf with
  | nil => simp only [List.foldr_nil, List.all_nil, ↓reduceIte, encData, List.append_nil]; exact hk _ _ _ _ _
  | cons e es ih =>
    simp only [List.foldr_cons, List.all_cons, encData]
    by_cases hbig : (decide (65535 < e.key.length) || decide (65535 < e.value.length)) = true
    · have : (decide (e.key.length ≤ 65535) && decide (e.value.length ≤ 65535)) = false := by
        simp only [Bool.or_eq_true, decide_eq_true_eq] at hbig
        simp only [Bool.and_eq_false_iff, decide_eq_false_iff_not]
        omega
      simp [hbig, this]
    · have hsmall : (decide (e.key.length ≤ 65535) && decide (e.value.length ≤ 65535)) = true := by
        simp only [Bool.or_eq_true, decide_eq_true_eq, not_or] at hbig
        simp only [Bool.and_eq_true, decide_eq_true_eq]
        omega
      simp only [hbig, Bool.false_eq_true, ↓reduceIte, hsmall, Bool.true_and]
      cases ht : e.tomb <;> simp only [Bool.false_eq_true, ↓reduceIte] <;> rw [ih] <;>
        simp [encEntry, ht, List.append_assoc]

/-- the translated `Data.Encode` is the model's `encodeData` followed by the compression: an error exactly when a key or a
    value does not fit its 16-bit length field, otherwise the compressed staged bytes `encData [] entries` -/
theorem encodeData_eq (comp : Bytes → Bytes) (es : List Entry) :
    GenCodec.encodeData comp es = (encodeData es).map comp := by
  unfold GenCodec.encodeData encodeData
  simp only [Bool.false_eq_true, ↓reduceIte, List.append_assoc]
  have := encode_loop (fun _ _ b => some (comp b)) (fun _ _ _ _ _ => rfl) es [] 0 []
  simp only [List.append_assoc, List.nil_append] at this
  rw [this]
  split <;> rfl

/-! ### `Data.Decode` -/

def toT (e : Entry) : Bytes × Bytes × Bool × Nat := (e.key, e.value, e.tomb, e.version)

theorem decLE_length (w : Nat) (bs : Bytes) (v : Nat) (rest : Bytes) (h : decLE w bs = some (v, rest)) : rest.length + w = bs.length := by
  induction w generalizing bs v rest with
  | zero => simp [decLE] at h; rw [h.2]; rfl
  | succ w ih =>
    cases bs with
    | nil => simp [decLE] at h
    | cons b bs =>
      simp only [decLE, Option.map_eq_some_iff] at h
      obtain ⟨⟨v', rest'⟩, h1, h2⟩ := h
      have := ih bs v' rest' h1
      simp only [Prod.mk.injEq] at h2
      rw [← h2.2]
      simp only [List.length_cons]; omega

theorem decEntry_shrinks (prev bs : Bytes) (e : Entry) (rest : Bytes) (h : decEntry prev bs = some (e, rest)) : rest.length < bs.length := by
  unfold decEntry at h
  simp only [Option.bind_eq_some_iff] at h
  obtain ⟨r1, h1, r2, h2, r3, h3, r4, h4, r5, h5, r6, h6, r7, h7, h8⟩ := h
  have l1 := decLE_length 2 bs r1.1 r1.2 h1
  have l2 := decLE_length 2 _ r2.1 r2.2 h2
  have l4 := decLE_length 2 _ r4.1 r4.2 h4
  have l7 := decLE_length 8 _ r7.1 r7.2 h7
  have l3 : r3.2.length ≤ r2.2.length := by
    unfold readN at h3; split at h3
    · cases h3
    · cases h3; simp
  have l5 : r5.2.length ≤ r4.2.length := by
    unfold readN at h5; split at h5
    · cases h5
    · cases h5; simp
  have l6 : r6.2.length < r5.2.length := by
    cases hh : r5.2 with
    | nil => rw [hh] at h6; simp [readByte] at h6
    | cons b bs' => rw [hh] at h6; simp only [readByte, Option.some.injEq] at h6; rw [← h6]; simp
  simp only [Option.some.injEq, Prod.mk.injEq] at h8
  rw [← h8.2]
  omega

theorem decLE_one (bs : Bytes) : decLE 1 bs = (readByte bs).map fun r => (r.1.toNat, r.2) := by
  cases bs with
  | nil => rfl
  | cons b bs => simp [decLE, readByte]

theorem u8_eq_one (b : UInt8) : decide (b.toNat = 1) = (b == 1) := by
  by_cases h : b = 1
  · subst h; rfl
  · have h2 : b.toNat ≠ 1 := fun hh => h (UInt8.toNat_inj.mp hh)
    simp [h, h2]

/-- one iteration of the translated loop against the model's `decEntry` -/
theorem loop_step (exit : Bytes → Bool → Bytes → List (Bytes × Bytes × Bool × Nat) → Option (List (Bytes × Bytes × Bool × Nat)))
    (fuel : Nat) (b : UInt8) (bs prev : Bytes) (acc : List (Bytes × Bytes × Bool × Nat)) :
    GenCodec.decodeData.loop1 exit (fuel + 1) (b :: bs) false prev acc =
      match decEntry prev (b :: bs) with
      | none => none
      | some (e, rest) => GenCodec.decodeData.loop1 exit fuel rest false e.key (acc ++ [toT e]) := by
  rw [GenCodec.decodeData.loop1]
  simp only [List.length_cons, Nat.zero_lt_succ, decide_true, ↓reduceIte]
  unfold decEntry
  cases h1 : decLE 2 (b :: bs) with
  | none => simp [GenCodec.rdN, GenCodec.rdB, h1]
  | some r1 =>
    cases h2 : decLE 2 r1.2 with
    | none => simp [GenCodec.rdN, GenCodec.rdB, h1, h2]
    | some r2 =>
      cases h3 : readN r2.1 r2.2 with
      | none =>
        have : r2.2.length < r2.1 := by unfold readN at h3; split at h3 <;> simp_all
        simp [GenCodec.rdN, GenCodec.rdB, h1, h2, h3, this]
      | some r3 =>
        have h3' : ¬ r2.2.length < r2.1 ∧ r3 = (r2.2.take r2.1, r2.2.drop r2.1) := by
          unfold readN at h3; split at h3
          · cases h3
          · rename_i hh; exact ⟨hh, by cases h3; rfl⟩
        obtain ⟨h3a, rfl⟩ := h3'
        cases h4 : decLE 2 (r2.2.drop r2.1) with
        | none => simp [GenCodec.rdN, GenCodec.rdB, h1, h2, h3, h3a, h4]
        | some r4 =>
          cases h5 : readN r4.1 r4.2 with
          | none =>
            have : r4.2.length < r4.1 := by unfold readN at h5; split at h5 <;> simp_all
            simp [GenCodec.rdN, GenCodec.rdB, h1, h2, h3, h3a, h4, h5, this]
          | some r5 =>
            have h5' : ¬ r4.2.length < r4.1 ∧ r5 = (r4.2.take r4.1, r4.2.drop r4.1) := by
              unfold readN at h5; split at h5
              · cases h5
              · rename_i hh; exact ⟨hh, by cases h5; rfl⟩
            obtain ⟨h5a, rfl⟩ := h5'
            cases h6 : readByte (r4.2.drop r4.1) with
            | none =>
              have h6' : decLE 1 (r4.2.drop r4.1) = none := by rw [decLE_one, h6]; rfl
              simp [GenCodec.rdN, GenCodec.rdB, h1, h2, h3, h3a, h4, h5, h5a, h6, h6']
            | some r6 =>
              have h6' : decLE 1 (r4.2.drop r4.1) = some (r6.1.toNat, r6.2) := by rw [decLE_one, h6]; rfl
              cases h7 : decLE 8 r6.2 with
              | none => simp [GenCodec.rdN, GenCodec.rdB, h1, h2, h3, h3a, h4, h5, h5a, h6, h6', h7]
              | some r7 =>
                simp [GenCodec.rdN, GenCodec.rdB, h1, h2, h3, h3a, h4, h5, h5a, h6, h6', h7, toT, u8_eq_one]

theorem loop_eq (fuel : Nat) (bs prev : Bytes) (acc : List (Bytes × Bytes × Bool × Nat)) (hf : bs.length < fuel) :
    GenCodec.decodeData.loop1 (fun _ _ _ entries => some entries) fuel bs false prev acc =
      (decData fuel prev bs).map fun es => acc ++ es.map toT := by
  induction fuel generalizing bs prev acc with
  | zero => omega
  | succ f ih =>
    cases bs with
    | nil => simp [GenCodec.decodeData.loop1, decData]
    | cons b bs =>
      rw [loop_step, decData]
      cases hd : decEntry prev (b :: bs) with
      | none => rfl
      | some er =>
        obtain ⟨e, rest⟩ := er
        have hs := decEntry_shrinks prev (b :: bs) e rest hd
        simp only
        rw [ih rest e.key (acc ++ [toT e]) (by simp only [List.length_cons] at hf hs; omega)]
        cases decData f e.key rest <;> simp

/-- the translated `Data.Decode` is the model's decoder: decompress, then `decData` from an empty previous key; the decoded
    entries are appended to the receiver's -/
theorem decodeData_eq (decomp : Bytes → Option Bytes) (data : Bytes) (entries0 : List (Bytes × Bytes × Bool × Nat)) :
    GenCodec.decodeData decomp data entries0 =
      (decomp data).bind fun raw => (decData (raw.length + 1) [] raw).map fun es => entries0 ++ es.map toT := by
  unfold GenCodec.decodeData
  cases hd : decomp data with
  | none => simp
  | some raw =>
    simp only [Option.isNone_some, Bool.false_eq_true, ↓reduceIte, Option.getD_some, Option.bind_some]
    exact loop_eq (raw.length + 1) raw [] entries0 (by omega)

theorem encData_length_ge (prev : Bytes) (es : List Entry) : es.length ≤ (encData prev es).length := by
  induction es generalizing prev with
  | nil => simp [encData]
  | cons e es ih =>
    have := ih e.key
    simp only [encData, encEntry, List.length_append, List.length_cons, List.length_nil]
    omega

/-- **round trip of the translated code**: what the translated `Data.Encode` returns, the translated `Data.Decode` (into an empty
    receiver) turns back into exactly the entries, for every S2 that decompresses what it compressed -/
theorem code_roundtrip (z : S2) (hz : S2Law z) (es : List Entry) (hv : ∀ e ∈ es, e.version < 2 ^ 64) (b : Bytes)
    (h : GenCodec.encodeData z.comp es = some b) : GenCodec.decodeData z.decomp b [] = some (es.map toT) := by
  rw [encodeData_eq] at h
  obtain ⟨raw, hraw, rfl⟩ := Option.map_eq_some_iff.mp h
  rw [decodeData_eq, hz.single]
  simp only [Option.bind_some, List.nil_append]
  have hlen : es.length ≤ raw.length + 1 := by
    have hs : (encodeData es).isSome = true := by rw [hraw]; rfl
    unfold encodeData at hraw
    split at hraw
    · injection hraw with hraw
      rw [← hraw]
      have := encData_length_ge [] es
      omega
    · cases hraw
  rw [decData_encodeData es raw hraw hv (raw.length + 1) hlen]
  rfl

/-! ### `Index.Encode` / `Index.Decode` -/

def ofIT (t : Bytes × Bytes × Nat × Nat) : IndexEntry := { startKey := t.1, endKey := t.2.1, h := ⟨t.2.2.1, t.2.2.2⟩ }
def toIT (e : IndexEntry) : Bytes × Bytes × Nat × Nat := (e.startKey, e.endKey, (e.h.off, e.h.len))

theorem ofIT_toIT (e : IndexEntry) : ofIT (toIT e) = e := by cases e with | mk s e h => cases h; rfl
theorem toIT_ofIT (t : Bytes × Bytes × Nat × Nat) : toIT (ofIT t) = t := rfl

theorem encIndex_loop (k : Bytes → Option Bytes) (es : List (Bytes × Bytes × Nat × Nat)) (buf : Bytes) :
    List.foldr (fun (entry : Bytes × Bytes × Nat × Nat) kont1 => fun (buf : Bytes) =>
        if (decide (65535 < entry.1.length) || decide (65535 < entry.2.1.length)) = true then none
        else kont1 (buf ++ encLE 2 entry.1.length ++ entry.1 ++ encLE 2 entry.2.1.length ++ entry.2.1 ++ encLE 8 entry.2.2.1 ++ encLE 8 entry.2.2.2))
      k es buf =
    if es.all (fun e => decide (e.1.length ≤ 65535) && decide (e.2.1.length ≤ 65535)) then k (buf ++ encIndexEntries (es.map ofIT)) else none := by
  induction es generalizing buf with
  | nil => simp [encIndexEntries]
  | cons e es ih =>
    simp only [List.foldr_cons, List.all_cons, List.map_cons, encIndexEntries]
    by_cases hbig : (decide (65535 < e.1.length) || decide (65535 < e.2.1.length)) = true
    · have : (decide (e.1.length ≤ 65535) && decide (e.2.1.length ≤ 65535)) = false := by
        simp only [Bool.or_eq_true, decide_eq_true_eq] at hbig
        simp only [Bool.and_eq_false_iff, decide_eq_false_iff_not]
        omega
      simp [hbig, this]
    · have hsmall : (decide (e.1.length ≤ 65535) && decide (e.2.1.length ≤ 65535)) = true := by
        simp only [Bool.or_eq_true, decide_eq_true_eq, not_or] at hbig
        simp only [Bool.and_eq_true, decide_eq_true_eq]
        omega
      simp only [hbig, Bool.false_eq_true, ↓reduceIte, hsmall, Bool.true_and]
      rw [ih]
      simp [encIndexEntry, ofIT, List.append_assoc]

/-- the translated `Index.Encode`: an error exactly when a start or end key does not fit its 16-bit length field, otherwise the
    compressed model encoding `encIndex` -/
theorem encodeIndex_eq (comp : Bytes → Bytes) (off len : Nat) (es : List (Bytes × Bytes × Nat × Nat)) :
    GenCodec.encodeIndex comp off len es =
      if es.all (fun e => decide (e.1.length ≤ 65535) && decide (e.2.1.length ≤ 65535))
      then some (comp (encIndex { dataBlock := ⟨off, len⟩, entries := es.map ofIT })) else none := by
  unfold GenCodec.encodeIndex
  simp only [Bool.false_eq_true, ↓reduceIte, List.append_assoc, List.nil_append]
  have := encIndex_loop (fun b => some (comp b)) es (encLE 8 off ++ encLE 8 len)
  simp only [List.append_assoc] at this
  rw [this]
  simp [encIndex, List.append_assoc]

theorem decIndexEntry_shrinks (bs : Bytes) (e : IndexEntry) (rest : Bytes) (h : decIndexEntry bs = some (e, rest)) : rest.length < bs.length := by
  unfold decIndexEntry at h
  simp only [Option.bind_eq_some_iff] at h
  obtain ⟨r1, h1, r2, h2, r3, h3, r4, h4, r5, h5, r6, h6, h7⟩ := h
  have l1 := decLE_length 2 bs r1.1 r1.2 h1
  have l3 := decLE_length 2 _ r3.1 r3.2 h3
  have l5 := decLE_length 8 _ r5.1 r5.2 h5
  have l6 := decLE_length 8 _ r6.1 r6.2 h6
  have l2 : r2.2.length ≤ r1.2.length := by
    unfold readN at h2; split at h2
    · cases h2
    · cases h2; simp
  have l4 : r4.2.length ≤ r3.2.length := by
    unfold readN at h4; split at h4
    · cases h4
    · cases h4; simp
  simp only [Option.some.injEq, Prod.mk.injEq] at h7
  rw [← h7.2]
  omega

theorem ix_loop_step (exit : Bytes → Bool → Nat → Nat → List (Bytes × Bytes × Nat × Nat) → Option ((Nat × Nat) × List (Bytes × Bytes × Nat × Nat)))
    (fuel : Nat) (b : UInt8) (bs : Bytes) (off len : Nat) (acc : List (Bytes × Bytes × Nat × Nat)) :
    GenCodec.decodeIndex.loop1 exit (fuel + 1) (b :: bs) false off len acc =
      match decIndexEntry (b :: bs) with
      | none => none
      | some (e, rest) => GenCodec.decodeIndex.loop1 exit fuel rest false off len (acc ++ [toIT e]) := by
  rw [GenCodec.decodeIndex.loop1]
  simp only [List.length_cons, Nat.zero_lt_succ, decide_true, ↓reduceIte]
  unfold decIndexEntry
  cases h1 : decLE 2 (b :: bs) with
  | none => simp [GenCodec.rdN, GenCodec.rdB, h1]
  | some r1 =>
    cases h2 : readN r1.1 r1.2 with
    | none =>
      have : r1.2.length < r1.1 := by unfold readN at h2; split at h2 <;> simp_all
      simp [GenCodec.rdN, GenCodec.rdB, h1, h2, this]
    | some r2 =>
      have h2' : ¬ r1.2.length < r1.1 ∧ r2 = (r1.2.take r1.1, r1.2.drop r1.1) := by
        unfold readN at h2; split at h2
        · cases h2
        · rename_i hh; exact ⟨hh, by cases h2; rfl⟩
      obtain ⟨h2a, rfl⟩ := h2'
      cases h3 : decLE 2 (r1.2.drop r1.1) with
      | none => simp [GenCodec.rdN, GenCodec.rdB, h1, h2, h2a, h3]
      | some r3 =>
        cases h4 : readN r3.1 r3.2 with
        | none =>
          have : r3.2.length < r3.1 := by unfold readN at h4; split at h4 <;> simp_all
          simp [GenCodec.rdN, GenCodec.rdB, h1, h2, h2a, h3, h4, this]
        | some r4 =>
          have h4' : ¬ r3.2.length < r3.1 ∧ r4 = (r3.2.take r3.1, r3.2.drop r3.1) := by
            unfold readN at h4; split at h4
            · cases h4
            · rename_i hh; exact ⟨hh, by cases h4; rfl⟩
          obtain ⟨h4a, rfl⟩ := h4'
          cases h5 : decLE 8 (r3.2.drop r3.1) with
          | none => simp [GenCodec.rdN, GenCodec.rdB, h1, h2, h2a, h3, h4, h4a, h5]
          | some r5 =>
            cases h6 : decLE 8 r5.2 with
            | none => simp [GenCodec.rdN, GenCodec.rdB, h1, h2, h2a, h3, h4, h4a, h5, h6]
            | some r6 => simp [GenCodec.rdN, GenCodec.rdB, h1, h2, h2a, h3, h4, h4a, h5, h6, toIT]

theorem ix_loop_eq (fuel : Nat) (bs : Bytes) (off len : Nat) (acc : List (Bytes × Bytes × Nat × Nat)) (hf : bs.length < fuel) :
    GenCodec.decodeIndex.loop1 (fun _ _ dbOff dbLen entries => some ((dbOff, dbLen), entries)) fuel bs false off len acc =
      (decIndexEntries fuel bs).map fun es => ((off, len), acc ++ es.map toIT) := by
  induction fuel generalizing bs acc with
  | zero => omega
  | succ f ih =>
    cases bs with
    | nil => simp [GenCodec.decodeIndex.loop1, decIndexEntries]
    | cons b bs =>
      rw [ix_loop_step, decIndexEntries]
      cases hd : decIndexEntry (b :: bs) with
      | none => rfl
      | some er =>
        obtain ⟨e, rest⟩ := er
        have hs := decIndexEntry_shrinks (b :: bs) e rest hd
        simp only
        rw [ih rest (acc ++ [toIT e]) (by simp only [List.length_cons] at hf hs; omega)]
        cases decIndexEntries f rest <;> simp

/-- the translated `Index.Decode` is the model's decoder whenever the sixteen header bytes are there (on a shorter input the Go
    code returns nil with whatever it could read — no encoder output is that short) -/
theorem decodeIndex_eq (decomp : Bytes → Option Bytes) (data raw : Bytes) (o0 l0 : Nat) (es0 : List (Bytes × Bytes × Nat × Nat))
    (hd : decomp data = some raw) (r1 r2 : Nat × Bytes) (h1 : decLE 8 raw = some r1) (h2 : decLE 8 r1.2 = some r2) :
    GenCodec.decodeIndex decomp data o0 l0 es0 =
      (decIndex (raw.length + 1) raw).map fun i => ((i.dataBlock.off, i.dataBlock.len), es0 ++ i.entries.map toIT) := by
  unfold GenCodec.decodeIndex decIndex
  have l1 := decLE_length 8 raw r1.1 r1.2 h1
  have l2 := decLE_length 8 _ r2.1 r2.2 h2
  simp only [hd, Option.isNone_some, Bool.false_eq_true, ↓reduceIte, Option.getD_some, GenCodec.rdN, h1, h2, Option.bind_some]
  rw [ix_loop_eq _ _ _ _ _ (by omega)]
  cases decIndexEntries (raw.length + 1) r2.2 <;> simp

/-- round trip of the translated index codec -/
theorem index_code_roundtrip (z : S2) (hz : S2Law z) (off len : Nat) (es : List (Bytes × Bytes × Nat × Nat))
    (hw : IndexWF { dataBlock := ⟨off, len⟩, entries := es.map ofIT }) (b : Bytes)
    (h : GenCodec.encodeIndex z.comp off len es = some b) (o0 l0 : Nat) :
    GenCodec.decodeIndex z.decomp b o0 l0 [] = some ((off, len), es) := by
  rw [encodeIndex_eq] at h
  split at h
  · injection h with h
    subst h
    have hraw : z.decomp (z.comp (encIndex { dataBlock := ⟨off, len⟩, entries := es.map ofIT })) = some _ := hz.single _
    obtain ⟨⟨ho, hl⟩, _⟩ := hw
    have e1 : decLE 8 (encIndex { dataBlock := ⟨off, len⟩, entries := es.map ofIT }) = some (off, encLE 8 len ++ encIndexEntries (es.map ofIT)) := by
      unfold encIndex; simp only [List.append_assoc]; exact decLE_encLE 8 _ _ (by simpa using ho)
    have e2 : decLE 8 (encLE 8 len ++ encIndexEntries (es.map ofIT)) = some (len, encIndexEntries (es.map ofIT)) :=
      decLE_encLE 8 _ _ (by simpa using hl)
    rw [decodeIndex_eq z.decomp _ _ o0 l0 [] hraw _ _ e1 e2]
    have hlen : (es.map ofIT).length ≤ (encIndex { dataBlock := ⟨off, len⟩, entries := es.map ofIT }).length + 1 := by
      have : ∀ l : List IndexEntry, l.length ≤ (encIndexEntries l).length := by
        intro l; induction l with
        | nil => simp [encIndexEntries]
        | cons e l ih => simp only [encIndexEntries, encIndexEntry, List.length_append, List.length_cons, encLE]; omega
      have := this (es.map ofIT)
      unfold encIndex; simp only [List.length_append]; omega
    rw [decIndex_encIndex _ ⟨⟨ho, hl⟩, by assumption⟩ _ hlen]
    simp [List.map_map, Function.comp_def, toIT_ofIT]
  · cases h

/-! ### `Footer.Encode` / `Footer.Decode` -/

theorem encodeFooter_eq (mo ml io il magic : Nat) :
    GenCodec.encodeFooter mo ml io il magic = some (encFooter { metaH := ⟨mo, ml⟩, indexH := ⟨io, il⟩, magic := magic }) := by
  unfold GenCodec.encodeFooter encFooter
  simp [List.append_assoc]

/-- the translated `Footer.Decode` is the model's: an error on fewer than forty bytes or a wrong magic number, the five fields
    otherwise (the receiver is written only on success) -/
theorem decodeFooter_eq (footer : Bytes) (f0 : Nat × Nat × Nat × Nat × Nat) :
    GenCodec.decodeFooter footer f0 =
      (decFooter footer).map fun f => (f.metaH.off, f.metaH.len, f.indexH.off, f.indexH.len, f.magic) := by
  unfold GenCodec.decodeFooter decFooter
  cases h1 : decLE 8 footer with
  | none => simp [GenCodec.rdN, h1]
  | some r1 =>
    cases h2 : decLE 8 r1.2 with
    | none => simp [GenCodec.rdN, h1, h2]
    | some r2 =>
      cases h3 : decLE 8 r2.2 with
      | none => simp [GenCodec.rdN, h1, h2, h3]
      | some r3 =>
        cases h4 : decLE 8 r3.2 with
        | none => simp [GenCodec.rdN, h1, h2, h3, h4]
        | some r4 =>
          cases h5 : decLE 8 r4.2 with
          | none => simp [GenCodec.rdN, h1, h2, h3, h4, h5]
          | some r5 =>
            by_cases hm : r5.1 = Consts.magic <;> simp [GenCodec.rdN, h1, h2, h3, h4, h5, hm]

/-! ### `Meta.Encode` / `Meta.Decode` -/

theorem encodeMeta_eq (created level : Nat) :
    GenCodec.encodeMeta created level = some (encMeta { createdUnix := created, level := level }) := by
  unfold GenCodec.encodeMeta encMeta
  simp

theorem decodeMeta_eq (data : Bytes) (m0 : Nat × Nat) :
    GenCodec.decodeMeta data m0 = (decMeta data).map fun m => (m.createdUnix, m.level) := by
  unfold GenCodec.decodeMeta decMeta
  cases h1 : decLE 8 data with
  | none => simp [GenCodec.rdN, h1]
  | some r1 =>
    cases h2 : decLE 8 r1.2 with
    | none => simp [GenCodec.rdN, h1, h2]
    | some r2 => simp [GenCodec.rdN, h1, h2]

end CodecTie
