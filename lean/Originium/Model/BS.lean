/-! Feasibility probe: the Go binary-search loop of Data.LowerBound / Index.LowerBound,
    with `hiX = high + 1` so that indices stay in Nat (high = -1 ⇔ hiX = 0). -/
namespace BS

def loop (ge : Nat → Bool) (low hiX : Nat) : Option Nat :=
  if h : low < hiX then
    let mid := low + (hiX - 1 - low) / 2
    if ge mid then
      if mid = 0 ∨ ge (mid - 1) = false then some mid
      else loop ge low mid            -- high = mid - 1
    else loop ge (mid + 1) hiX        -- low = mid + 1
  else none
termination_by hiX - low
decreasing_by all_goals omega

def lowerBound (ge : Nat → Bool) (n : Nat) : Option Nat := loop ge 0 n

def Mono (ge : Nat → Bool) : Prop := ∀ i j, i ≤ j → ge i = true → ge j = true

theorem loop_some (ge : Nat → Bool) (hm : Mono ge) (low hiX : Nat)
    (hlow : ∀ i, i < low → ge i = false)
    (r : Nat) (h : loop ge low hiX = some r) :
    ge r = true ∧ (∀ i, i < r → ge i = false) ∧ r < hiX := by
  induction low, hiX using loop.induct (ge := ge) with
  | case1 low hiX hlt mid hge hret =>
    rw [loop] at h; simp only [hlt, ↓reduceDIte] at h
    have hmid : mid = low + (hiX - 1 - low) / 2 := rfl
    rw [← hmid] at h
    simp only [hge, ↓reduceIte] at h
    rw [if_pos hret] at h
    have hr : mid = r := by injection h
    subst hr
    refine ⟨hge, ?_, by omega⟩
    intro i hi
    rcases hret with h0 | hp
    · omega
    · cases hgi : ge i with
      | false => rfl
      | true =>
        have : ge (mid - 1) = true := hm i _ (by omega) hgi
        rw [this] at hp; cases hp
  | case2 low hiX hlt mid hge hret ih =>
    rw [loop] at h; simp only [hlt, ↓reduceDIte] at h
    have hmid : mid = low + (hiX - 1 - low) / 2 := rfl
    rw [← hmid] at h
    simp only [hge, ↓reduceIte] at h
    rw [if_neg hret] at h
    have := ih hlow h
    exact ⟨this.1, this.2.1, by omega⟩
  | case3 low hiX hlt mid hge ih =>
    rw [loop] at h; simp only [hlt, ↓reduceDIte] at h
    have hmid : mid = low + (hiX - 1 - low) / 2 := rfl
    rw [← hmid] at h
    have hge' : ge mid = false := by simpa using hge
    simp only [hge', Bool.false_eq_true, ↓reduceIte] at h
    refine ih ?_ h
    intro i hi
    cases hgi : ge i with
    | false => rfl
    | true =>
      have : ge mid = true := hm i _ (by omega) hgi
      rw [this] at hge'; cases hge'
  | case4 low hiX hlt =>
    rw [loop] at h; simp [hlt] at h

theorem loop_none (ge : Nat → Bool) (hm : Mono ge) (low hiX : Nat)
    (hlow : ∀ i, i < low → ge i = false)
    (h : loop ge low hiX = none) : ∀ i, i < hiX → ge i = false := by
  induction low, hiX using loop.induct (ge := ge) with
  | case1 low hiX hlt mid hge hret =>
    rw [loop] at h; simp only [hlt, ↓reduceDIte] at h
    have hmid : mid = low + (hiX - 1 - low) / 2 := rfl
    rw [← hmid] at h
    simp only [hge, ↓reduceIte] at h
    rw [if_pos hret] at h; cases h
  | case2 low hiX hlt mid hge hret ih =>
    -- ge mid, ge (mid-1), mid ≠ 0: recursion on [low, mid) can only fail if nothing there is ge,
    -- but mid-1 ∈ [low, mid) is ge unless mid-1 < low, impossible since then hlow contradicts
    rw [loop] at h; simp only [hlt, ↓reduceDIte] at h
    have hmid : mid = low + (hiX - 1 - low) / 2 := rfl
    rw [← hmid] at h
    simp only [hge, ↓reduceIte] at h
    rw [if_neg hret] at h
    have hall := ih hlow h
    have hm0 : mid ≠ 0 := fun e => hret (Or.inl e)
    have hprev : ge (mid - 1) = true := by
      cases hp : ge (mid - 1) with
      | true => rfl
      | false => exact absurd (Or.inr hp) hret
    have := hall (mid - 1) (by omega)
    rw [this] at hprev; cases hprev
  | case3 low hiX hlt mid hge ih =>
    rw [loop] at h; simp only [hlt, ↓reduceDIte] at h
    have hmid : mid = low + (hiX - 1 - low) / 2 := rfl
    rw [← hmid] at h
    have hge' : ge mid = false := by simpa using hge
    simp only [hge', Bool.false_eq_true, ↓reduceIte] at h
    refine ih ?_ h
    intro i hi
    cases hgi : ge i with
    | false => rfl
    | true =>
      have : ge mid = true := hm i _ (by omega) hgi
      rw [this] at hge'; cases hge'
  | case4 low hiX hlt =>
    intro i hi
    exact hlow i (by omega)

/-- full characterisation on a list: first index whose element satisfies `p` (p monotone along the list) -/
def geOf (p : α → Bool) (l : List α) (i : Nat) : Bool :=
  match l[i]? with
  | some a => p a
  | none => true

def lowerIdx (p : α → Bool) (l : List α) : Option Nat := loop (geOf p l) 0 l.length

theorem lowerIdx_some {p : α → Bool} {l : List α} (hm : Mono (geOf p l)) {r : Nat}
    (h : lowerIdx p l = some r) :
    ∃ a, l[r]? = some a ∧ p a = true ∧ ∀ i b, i < r → l[i]? = some b → p b = false := by
  have ⟨h1, h2, h3⟩ := loop_some _ hm 0 l.length (by intro i hi; omega) r h
  have hr : r < l.length := h3
  refine ⟨l[r], by simp [hr], ?_, ?_⟩
  · simpa [geOf, hr] using h1
  · intro i b hi hb
    have := h2 i hi
    simpa [geOf, hb] using this

theorem lowerIdx_none {p : α → Bool} {l : List α} (hm : Mono (geOf p l))
    (h : lowerIdx p l = none) : ∀ a ∈ l, p a = false := by
  have := loop_none _ hm 0 l.length (by intro i hi; omega) h
  intro a ha
  obtain ⟨i, hi, rfl⟩ := List.getElem_of_mem ha
  have := this i hi
  simpa [geOf, hi] using this

/-- monotonicity of `p` along a list, in index form -/
def MonoOn (p : α → Bool) (l : List α) : Prop :=
  ∀ (i j : Nat) (a b : α), i ≤ j → l[i]? = some a → l[j]? = some b → p a = true → p b = true

theorem mono_of_monoOn {p : α → Bool} {l : List α} (h : MonoOn p l) : Mono (geOf p l) := by
  intro i j hij hi
  unfold geOf at *
  cases hj : l[j]? with
  | none => rfl
  | some b =>
    cases hi' : l[i]? with
    | none =>
      have : l.length ≤ i := by simpa using hi'
      have : j < l.length := by
        have := (List.getElem?_eq_some_iff.mp hj).1; exact this
      omega
    | some a =>
      rw [hi'] at hi
      exact h i j a b hij hi' hj hi

/-- the binary search returns exactly what a linear `find?` returns -/
theorem lowerIdx_find? {p : α → Bool} {l : List α} (hm : MonoOn p l) :
    (lowerIdx p l).bind (l[·]?) = l.find? p := by
  have hm' := mono_of_monoOn hm
  cases h : lowerIdx p l with
  | none =>
    have := lowerIdx_none hm' h
    have hf : l.find? p = none := List.find?_eq_none.mpr (by intro x hx; simp [this x hx])
    simp [hf]
  | some r =>
    obtain ⟨a, har, hpa, hbefore⟩ := lowerIdx_some hm' h
    have hr : r < l.length := (List.getElem?_eq_some_iff.mp har).1
    have ha : l[r] = a := (List.getElem?_eq_some_iff.mp har).2
    have hsplit : l = l.take r ++ a :: l.drop (r + 1) := by
      rw [← ha, List.getElem_cons_drop hr, List.take_append_drop]
    have hf : l.find? p = some a := by
      rw [List.find?_eq_some_iff_append]
      refine ⟨hpa, l.take r, l.drop (r + 1), hsplit, ?_⟩
      intro x hx
      obtain ⟨j, hj, rfl⟩ := List.mem_take_iff_getElem.mp hx
      have hjr : j < r := by omega
      have hjl : j < l.length := by omega
      have := hbefore j l[j] hjr (by simp [hjl])
      simp [this]
    simp [har, hf]

#print axioms lowerIdx_some
#print axioms lowerIdx_none
#print axioms lowerIdx_find?
end BS
