import Originium.Generated.Oracle
import Originium.Model.Oracle2
/-! The tie between the model `Oracle2` and the Lean definitions regenerated from `/repo/oracle.go`
    (`Generated/Oracle.lean`, written by `extract/gotrans.go` on every check run).

`hasConflict_tie`: the translated loops of `oracle.hasConflict` compute `Oracle2.hasConflict`.
`cleanUp_tie`: the translated `oracle.cleanUpCommittedTxns` panics only when the watermark went backwards,
does nothing when it did not move, and otherwise keeps exactly `Oracle2.cleanup`.

A change of the Go loops changes the generated definitions; these theorems then have to be proved again
(or fail, and the check reports it). -/
namespace OracleTie
open Oracle2

/-- how a committed transaction of the model is seen by the Go code: timestamp and the set of written keys -/
def ctOf (c : Commit) : GenOracle.CT := (c.ts, wkeys c)

theorem foldr_ite_true {α : Type} (p : α → Bool) (b : Bool) (l : List α) :
    l.foldr (fun x k => if p x then true else k) b = (l.any p || b) := by
  induction l with
  | nil => simp
  | cons x l ih =>
    simp only [List.foldr_cons, List.any_cons, ih]
    cases p x <;> simp

theorem hasConflict_loop (reads : List Key) (readTs : Nat) (recent : List Commit) :
    List.foldr (fun (ct : GenOracle.CT) kont1 => if decide (ct.1 ≤ readTs) then kont1 else
        List.foldr (fun key kont2 => if (ct.2).contains key then true else kont2) kont1 reads) false (recent.map ctOf)
      = recent.any fun c => decide (readTs < c.ts) && reads.any fun k => (wkeys c).contains k := by
  induction recent with
  | nil => rfl
  | cons c rest ih =>
    simp only [List.map_cons, List.foldr_cons, List.any_cons, ih]
    by_cases h : c.ts ≤ readTs
    · have h2 : ¬ readTs < c.ts := by omega
      simp [ctOf, h, h2]
    · have h2 : readTs < c.ts := by omega
      simp only [ctOf, h, h2, decide_false, decide_true, Bool.false_eq_true, ↓reduceIte, Bool.true_and]
      exact foldr_ite_true (fun key => (wkeys c).contains key) _ reads

/-- the regenerated `oracle.hasConflict` is the model's conflict check -/
theorem hasConflict_tie (recent : List Commit) (t : Txn) :
    GenOracle.hasConflict t.reads t.readTs (recent.map ctOf) = Oracle2.hasConflict recent t := by
  unfold GenOracle.hasConflict Oracle2.hasConflict
  by_cases h0 : t.reads.length = 0
  · have : t.reads = [] := List.eq_nil_of_length_eq_zero h0
    simp [this]
  · simp only [h0, decide_false, Bool.false_eq_true, ↓reduceIte]
    exact hasConflict_loop t.reads t.readTs recent

theorem cleanUp_loop (mark : Nat) (l : List GenOracle.CT) (a : Nat) (x : List GenOracle.CT) (temp : List GenOracle.CT) :
    List.foldr (fun (committed : GenOracle.CT) (kont1 : Nat → List GenOracle.CT → List GenOracle.CT → Option (Nat × List GenOracle.CT)) =>
        fun lastCleanUpTs cts temp => if decide (committed.1 ≤ mark) then kont1 lastCleanUpTs cts temp
          else kont1 lastCleanUpTs cts (temp ++ [committed]))
      (fun lastCleanUpTs _ temp => some (lastCleanUpTs, temp)) l a x temp
      = some (a, temp ++ l.filter fun c => decide (mark < c.1)) := by
  induction l generalizing temp x with
  | nil => simp
  | cons c rest ih =>
    simp only [List.foldr_cons]
    by_cases h : c.1 ≤ mark
    · have h2 : ¬ mark < c.1 := by omega
      simp only [h, decide_true, ↓reduceIte, ih, List.filter_cons, h2, decide_false, Bool.false_eq_true]
    · have h2 : mark < c.1 := by omega
      simp only [h, decide_false, Bool.false_eq_true, ↓reduceIte, ih, List.filter_cons, h2, decide_true,
        List.append_assoc, List.singleton_append]

theorem filter_map_ctOf (recent : List Commit) (mark : Nat) :
    (recent.map ctOf).filter (fun c => decide (mark < c.1)) = (cleanup recent mark).map ctOf := by
  unfold cleanup
  induction recent with
  | nil => rfl
  | cons c rest ih =>
    simp only [List.map_cons, List.filter_cons, ih]
    have : (ctOf c).1 = c.ts := rfl
    rw [this]
    split <;> simp

/-- the regenerated `oracle.cleanUpCommittedTxns`: `none` stands for the panic -/
theorem cleanUp_tie (mark last : Nat) (recent : List Commit) :
    GenOracle.cleanUp mark last (recent.map ctOf) =
      if mark < last then none
      else if mark = last then some (last, recent.map ctOf)
      else some (mark, (cleanup recent mark).map ctOf) := by
  unfold GenOracle.cleanUp
  by_cases h1 : mark < last
  · simp [h1]
  · by_cases h2 : mark = last
    · simp [h2]
    · simp only [h1, h2, decide_false, Bool.false_eq_true, ↓reduceIte]
      rw [← filter_map_ctOf]
      have := cleanUp_loop mark (recent.map ctOf) mark (recent.map ctOf) []
      simpa using this

/-- with the bookkeeping invariant of the oracle (the watermark never goes back; what is kept is above the last
    clean-up point) the Go function never panics and leaves exactly `Oracle2.cleanup recent mark` -/
theorem cleanUp_is_cleanup (mark last : Nat) (recent : List Commit) (hmono : last ≤ mark)
    (hkept : ∀ c ∈ recent, last < c.ts) :
    ∃ last', GenOracle.cleanUp mark last (recent.map ctOf) = some (last', (cleanup recent mark).map ctOf) ∧ last' = mark := by
  rw [cleanUp_tie]
  have h1 : ¬ mark < last := by omega
  by_cases h2 : mark = last
  · subst h2
    refine ⟨mark, ?_, rfl⟩
    have : cleanup recent mark = recent := by
      unfold cleanup
      apply List.filter_eq_self.mpr
      intro c hc
      simpa using hkept c hc
    rw [if_neg (Nat.lt_irrefl _), if_pos rfl, this]
  · exact ⟨mark, by simp [h1, h2], rfl⟩

end OracleTie
