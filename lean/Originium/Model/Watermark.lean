import Originium.Model.WM2
/-! pkg/watermark/watermark.go — the `process` loop including waiters.

`WM2` models the handling of Begin/Done marks (counter map + min-heap + DoneUntil).  This file adds
the waiter branch of the loop and the fast path of `WaitForMark`.  Every goroutine interleaving of
`Begin/Done/WaitForMark` is some FIFO sequence of marks on `markC`, so a run is a fold. -/
namespace Watermark
open WM2

inductive Msg where
  | mark (m : Mark)
  | wait (t : Nat) (id : Nat)      -- a waiter registered through the channel, `id` names its channel
deriving Repr, DecidableEq

structure St where
  core : WM2.St
  waiters : List (Nat × Nat)       -- (index, id) still blocked
  released : List (Nat × Nat)      -- (index, id) whose channel has been closed
deriving Repr

def init : St := { core := WM2.init, waiters := [], released := [] }

/-- the waiter branch of the `process` loop -/
def stepWait (s : St) (t id : Nat) : St :=
  if t ≤ s.core.doneUntil then { s with released := (t, id) :: s.released }
  else { s with waiters := (t, id) :: s.waiters }

/-- the Begin/Done branch: update counters, pop finished minima, publish, release waiters -/
def stepMark (s : St) (m : Mark) : St :=
  if s.core.doneUntil < (WM2.step s.core m).doneUntil then
    { core := WM2.step s.core m
      waiters := s.waiters.filter (fun w => !decide (w.1 ≤ (WM2.step s.core m).doneUntil))
      released := s.waiters.filter (fun w => decide (w.1 ≤ (WM2.step s.core m).doneUntil)) ++ s.released }
  else { s with core := WM2.step s.core m }

/-- body of the `process` loop for one message -/
def step (s : St) : Msg → St
  | .wait t id => stepWait s t id
  | .mark m => stepMark s m

def run (ms : List Msg) : St := ms.foldl step init

/-- `WaitForMark` fast path: returns nil without touching the channel -/
def fastPath (s : St) (t : Nat) : Bool := decide (t ≤ s.core.doneUntil)

def marksOf : List Msg → List Mark
  | [] => []
  | .mark m :: rest => m :: marksOf rest
  | .wait _ _ :: rest => marksOf rest

theorem marksOf_append (a b : List Msg) : marksOf (a ++ b) = marksOf a ++ marksOf b := by
  induction a with
  | nil => rfl
  | cons x xs ih => cases x <;> simp [marksOf, ih]

theorem step_core (s : St) (m : Msg) :
    (step s m).core = match m with | .mark mk => WM2.step s.core mk | .wait _ _ => s.core := by
  cases m with
  | wait t id => simp only [step, stepWait]; split <;> rfl
  | mark mk => simp only [step, stepMark]; split <;> rfl

/-- the waiters do not influence DoneUntil: the core is the `WM2` run over the marks -/
theorem run_core (ms : List Msg) : (run ms).core = WM2.run (marksOf ms) := by
  suffices h : ∀ s, (ms.foldl step s).core = (marksOf ms).foldl WM2.step s.core by
    simpa [run, WM2.run, init] using h init
  induction ms with
  | nil => intro s; rfl
  | cons m ms ih =>
    intro s
    simp only [List.foldl_cons]
    rw [ih, step_core]
    cases m <;> simp [marksOf]

theorem step_mono (s : St) (m : Msg) : s.core.doneUntil ≤ (step s m).core.doneUntil := by
  rw [step_core]
  cases m with
  | wait _ _ => exact Nat.le_refl _
  | mark mk => exact WM2.step_mono s.core mk

/-- waiter invariant: a released waiter's index has been reached; a blocked waiter's index has not;
    no registered waiter is ever lost -/
structure WInv (ms : List Msg) (s : St) : Prop where
  released_ok : ∀ w ∈ s.released, w.1 ≤ s.core.doneUntil
  blocked_ok : ∀ w ∈ s.waiters, s.core.doneUntil < w.1
  complete : ∀ t id, Msg.wait t id ∈ ms → (t, id) ∈ s.waiters ∨ (t, id) ∈ s.released

theorem winv_init : WInv [] init :=
  ⟨by simp [init], by simp [init], by simp⟩

theorem winv_step {ms : List Msg} {s : St} (h : WInv ms s) (m : Msg) : WInv (ms ++ [m]) (step s m) := by
  cases m with
  | wait t id =>
    simp only [step, stepWait]
    split
    · rename_i hle
      refine ⟨?_, h.blocked_ok, ?_⟩
      · intro w hw
        rcases List.mem_cons.mp hw with rfl | hw
        · exact hle
        · exact h.released_ok w hw
      · intro t' id' hm
        rcases List.mem_append.mp hm with hm | hm
        · rcases h.complete t' id' hm with h' | h'
          · exact Or.inl h'
          · exact Or.inr (List.mem_cons_of_mem _ h')
        · simp only [List.mem_singleton, Msg.wait.injEq] at hm
          right; rw [hm.1, hm.2]; simp
    · rename_i hnle
      refine ⟨h.released_ok, ?_, ?_⟩
      · intro w hw
        rcases List.mem_cons.mp hw with rfl | hw
        · simp only at hnle ⊢; omega
        · exact h.blocked_ok w hw
      · intro t' id' hm
        rcases List.mem_append.mp hm with hm | hm
        · rcases h.complete t' id' hm with h' | h'
          · exact Or.inl (List.mem_cons_of_mem _ h')
          · exact Or.inr h'
        · simp only [List.mem_singleton, Msg.wait.injEq] at hm
          left; rw [hm.1, hm.2]; simp
  | mark mk =>
    have hmono := WM2.step_mono s.core mk
    simp only [step, stepMark]
    split
    · rename_i hlt
      refine ⟨?_, ?_, ?_⟩
      · intro w hw
        rcases List.mem_append.mp hw with hw | hw
        · simpa using (List.mem_filter.mp hw).2
        · have := h.released_ok w hw
          simp only; omega
      · intro w hw
        have := (List.mem_filter.mp hw).2
        simp only [Bool.not_eq_true', decide_eq_false_iff_not, Nat.not_le] at this
        exact this
      · intro t' id' hm
        rcases List.mem_append.mp hm with hm | hm
        · rcases h.complete t' id' hm with h' | h'
          · by_cases hle : t' ≤ (WM2.step s.core mk).doneUntil
            · right; exact List.mem_append.mpr (Or.inl (List.mem_filter.mpr ⟨h', by simpa using hle⟩))
            · left; exact List.mem_filter.mpr ⟨h', by simpa using hle⟩
          · right; exact List.mem_append.mpr (Or.inr h')
        · simp at hm
    · rename_i hnlt
      have heq : (WM2.step s.core mk).doneUntil = s.core.doneUntil := by omega
      refine ⟨?_, ?_, ?_⟩
      · intro w hw; simp only; rw [heq]; exact h.released_ok w hw
      · intro w hw; simp only; rw [heq]; exact h.blocked_ok w hw
      · intro t' id' hm
        rcases List.mem_append.mp hm with hm | hm
        · exact h.complete t' id' hm
        · simp at hm

theorem winv_run (ms : List Msg) : WInv ms (run ms) := by
  suffices h : ∀ ms0 s, WInv ms0 s → WInv (ms0 ++ ms) (ms.foldl step s) by
    simpa [run] using h [] init winv_init
  induction ms with
  | nil => intro ms0 s h; simpa using h
  | cons m ms ih =>
    intro ms0 s h
    have := ih (ms0 ++ [m]) (step s m) (winv_step h m)
    simpa using this

end Watermark
