import Originium.Model.LSM
import Originium.Model.Gens
/-! db.go storage side: active memtable, immutable memtables, sstables; commit, rotation, flush,
    compaction as explicit steps; `DB.search`.

Configuration (`Config`) and the timing of the background goroutine only decide *when* rotate,
flush and compaction steps happen and how tables are split into blocks, so the theorems quantify
over all step sequences and all block sizes instead. -/
namespace DB
open Key VKey Table Levels Compact LSM Gens

structure St where
  mem : List E                 -- active memtable (skiplist content: sorted association list, C17)
  imms : List (List E)         -- immutable memtables, oldest first
  flushed : Bool               -- the oldest immutable has already been added to L0 (flusher between add and remove)
  tables : List TableM         -- every sstable of every level
  low : Nat                    -- largest discard watermark any compaction has used
  nextTs : Nat
  committed : List E           -- ghost: every entry ever committed
deriving Repr

def init : St := { mem := [], imms := [], flushed := false, tables := [], low := 0, nextTs := 1, committed := [] }

/-- a write of a transaction: user key, value, tombstone -/
structure W where
  user : Bytes
  value : List UInt8
  tomb : Bool
deriving Repr, DecidableEq

def entryOf (ts : Nat) (w : W) : E := { key := ⟨w.user, ts⟩, value := w.value, tomb := w.tomb, version := ts }

inductive Step where
  | commit (ws : List W)                    -- Txn.Commit applying its batch at ts = nextTs (one entry per user key)
  | rotate                                  -- rawset: freeze the memtable, push it to the immutables, fresh memtable
  | flushAdd (bs : Nat)                     -- flusher: oldest immutable becomes an L0 table (block size bs)
  | flushRemove                             -- flusher: that immutable is dropped from the list
  | compact (pick : List Bool) (low bs : Nat)  -- any subset of the tables (pick) is replaced by one merged table
deriving Repr

def pickSplit : List Bool → List TableM → List TableM × List TableM
  | _, [] => ([], [])
  | [], t :: ts => let r := pickSplit [] ts; (r.1, t :: r.2)
  | b :: bs, t :: ts => let r := pickSplit bs ts; if b then (t :: r.1, r.2) else (r.1, t :: r.2)

def usersDistinct (ws : List W) : Bool := (ws.map (·.user)).Nodup

/-- one step; `none` = not enabled -/
def step (s : St) : Step → Option St
  | .commit ws =>
    if ws.isEmpty ∨ ¬ (ws.map (·.user)).Nodup then none else
    let es := ws.map (entryOf s.nextTs)
    some { s with mem := es.foldl insertE s.mem, nextTs := s.nextTs + 1, committed := s.committed ++ es }
  | .rotate => if s.mem.isEmpty then none else some { s with imms := s.imms ++ [s.mem], mem := [] }
  | .flushAdd bs =>
    match s.imms, s.flushed with
    | g :: _, false => some { s with tables := s.tables ++ [buildTable bs g], flushed := true }
    | _, _ => none
  | .flushRemove =>
    match s.imms, s.flushed with
    | _ :: rest, true => some { s with imms := rest, flushed := false }
    | _, _ => none
  | .compact pick low bs =>
    let (ins, rest) := pickSplit pick s.tables
    if ins.isEmpty ∨ low < s.low ∨ s.nextTs ≤ low then none else
    some { s with tables := rest ++ [buildTable bs (compactOutput low (ins.map (·.entries)))], low := low }

def run (steps : List Step) : Option St := steps.foldlM step init

/-- `DB.search`: memtable, then immutables newest first (first generation whose lower bound has the
    user key wins), then all sstables -/
def get (mayContain : TableM → Bytes → Bool) (s : St) (k : Bytes) (r : Nat) : Option E :=
  match firstHit (fun g => tableCand g k r) (s.mem :: s.imms.reverse) with
  | some x => some x
  | none => search mayContain s.tables k r

/-- everything a reader can reach -/
def tableEntries (s : St) : List E := (s.tables.map (·.entries)).flatten

def present (s : St) : List E := ((s.mem :: s.imms.reverse) ++ [tableEntries s]).flatten

/-- what the API returns for an entry -/
def valueOf : Option E → Option (List UInt8)
  | some e => if e.tomb then none else some e.value
  | none => none

/-- largest version among the entries (what `Open` computes from wal records and table entries) -/
def maxTs (es : List E) : Nat := es.foldl (fun m e => max m e.key.ts) 0

/-- `Close` as steps of the model: drain the flush queue oldest first, then flush the active memtable -/
def closeSteps (bs : Nat) : Nat → Bool → Bool → List Step
  | 0, _, memNonEmpty => if memNonEmpty then [.rotate, .flushAdd bs, .flushRemove] else []
  | n + 1, flushed, m => (if flushed then [.flushRemove] else [.flushAdd bs, .flushRemove]) ++ closeSteps bs n false m

/-- Close followed by Open: everything is in tables, the timestamp counter is recomputed from the stored versions -/
def reopen (bs : Nat) (s : St) : Option St :=
  ((closeSteps bs s.imms.length s.flushed (!s.mem.isEmpty)).foldlM step s).map fun s' =>
    { s' with nextTs := maxTs (present s') + 1 }

end DB
