import Originium.Model.Key
/-! Feasibility probe: abstract versioned keys (user ↑, ts ↓) and order lemmas -/
namespace VKey
open Key

theorem cmpBytes_eq_iff (a b : Bytes) : cmpBytes a b = .eq ↔ a = b := by
  induction a generalizing b with
  | nil => cases b <;> simp [cmpBytes]
  | cons x xs ih =>
    cases b with
    | nil => simp [cmpBytes]
    | cons y ys =>
      simp only [cmpBytes]
      split
      · rename_i h; simp; intro e; subst e; exact absurd h (by simp [UInt8.lt_irrefl])
      · split
        · rename_i h1 h2; simp; intro e; subst e; exact absurd h2 (by simp [UInt8.lt_irrefl])
        · rename_i h1 h2
          have : x = y := by
            have h1' : ¬ x.toNat < y.toNat := by simpa [UInt8.lt_iff_toNat_lt] using h1
            have h2' : ¬ y.toNat < x.toNat := by simpa [UInt8.lt_iff_toNat_lt] using h2
            exact UInt8.toNat_inj.mp (by omega)
          subst this
          simp [ih]

def bltB (a b : Bytes) : Bool := cmpBytes a b == .lt

theorem bltB_trans (a b c : Bytes) (h1 : bltB a b = true) (h2 : bltB b c = true) : bltB a c = true := by
  induction a generalizing b c with
  | nil =>
    cases b with
    | nil => simp [bltB, cmpBytes] at h1
    | cons y ys =>
      cases c with
      | nil => simp [bltB, cmpBytes] at h2
      | cons z zs => simp [bltB, cmpBytes]
  | cons x xs ih =>
    cases b with
    | nil => simp [bltB, cmpBytes] at h1
    | cons y ys =>
      cases c with
      | nil => simp [bltB, cmpBytes] at h2
      | cons z zs =>
        simp only [bltB, cmpBytes] at h1 h2 ⊢
        have hxy : x.toNat ≤ y.toNat := by
          by_cases h : x < y
          · have := UInt8.lt_iff_toNat_lt.mp h; omega
          · by_cases h' : y < x
            · simp [h, h'] at h1
            · have h1' : ¬ x.toNat < y.toNat := by simpa [UInt8.lt_iff_toNat_lt] using h
              have h2' : ¬ y.toNat < x.toNat := by simpa [UInt8.lt_iff_toNat_lt] using h'
              omega
        have hyz : y.toNat ≤ z.toNat := by
          by_cases h : y < z
          · have := UInt8.lt_iff_toNat_lt.mp h; omega
          · by_cases h' : z < y
            · simp [h, h'] at h2
            · have h1' : ¬ y.toNat < z.toNat := by simpa [UInt8.lt_iff_toNat_lt] using h
              have h2' : ¬ z.toNat < y.toNat := by simpa [UInt8.lt_iff_toNat_lt] using h'
              omega
        by_cases hxz : x < z
        · simp [hxz]
        · have hxz' : ¬ x.toNat < z.toNat := by simpa [UInt8.lt_iff_toNat_lt] using hxz
          have e1 : x.toNat = y.toNat := by omega
          have e2 : y.toNat = z.toNat := by omega
          have ex : x = y := UInt8.toNat_inj.mp e1
          have ey : y = z := UInt8.toNat_inj.mp e2
          subst ex; subst ey
          simp [UInt8.lt_irrefl] at h1 h2 ⊢
          have := ih _ _ (by simpa [bltB] using h1) (by simpa [bltB] using h2)
          simpa [bltB] using this

theorem bltB_irrefl (a : Bytes) : bltB a a = false := by
  have : cmpBytes a a = .eq := (cmpBytes_eq_iff a a).mpr rfl
  simp [bltB, this]

theorem cmpBytes_swap (a b : Bytes) : cmpBytes a b = .gt ↔ cmpBytes b a = .lt := by
  induction a generalizing b with
  | nil => cases b <;> simp [cmpBytes]
  | cons x xs ih =>
    cases b with
    | nil => simp [cmpBytes]
    | cons y ys =>
      simp only [cmpBytes]
      by_cases h1 : x < y
      · have h2 : ¬ y < x := by
          have := UInt8.lt_iff_toNat_lt.mp h1
          intro h; have := UInt8.lt_iff_toNat_lt.mp h; omega
        simp [h1, h2]
      · by_cases h2 : y < x
        · simp [h1, h2]
        · simp [h1, h2, ih]

/-- trichotomy in the form the proofs use -/
theorem bltB_total (a b : Bytes) (h1 : bltB a b = false) (hne : a ≠ b) : bltB b a = true := by
  unfold bltB at *
  cases h : cmpBytes a b with
  | lt => simp [h] at h1
  | eq => exact absurd ((cmpBytes_eq_iff a b).mp h) hne
  | gt => simp [(cmpBytes_swap a b).mp h]

theorem bltB_asymm (a b : Bytes) (h : bltB a b = true) : bltB b a = false := by
  cases h' : bltB b a with
  | false => rfl
  | true => have := bltB_trans a b a h h'; rw [bltB_irrefl] at this; cases this

structure VK where
  user : Bytes
  ts : Nat
deriving DecidableEq, Repr

/-- user key ascending, then timestamp descending (types.CompareKeys < 0) -/
def vlt (a b : VK) : Bool := bltB a.user b.user || (a.user == b.user && decide (b.ts < a.ts))

theorem vlt_trans (a b c : VK) (h1 : vlt a b = true) (h2 : vlt b c = true) : vlt a c = true := by
  unfold vlt at *
  simp only [Bool.or_eq_true, Bool.and_eq_true, beq_iff_eq, decide_eq_true_eq] at *
  rcases h1 with h1 | ⟨e1, t1⟩ <;> rcases h2 with h2 | ⟨e2, t2⟩
  · exact Or.inl (bltB_trans _ _ _ h1 h2)
  · exact Or.inl (e2 ▸ h1)
  · exact Or.inl (e1 ▸ h2)
  · exact Or.inr ⟨e1.trans e2, by omega⟩

theorem vlt_irrefl (a : VK) : vlt a a = false := by
  unfold vlt
  simp [bltB_irrefl]

/-- neither below the other: the same versioned key -/
theorem vlt_total (a b : VK) (h1 : vlt a b = false) (h2 : vlt b a = false) : a = b := by
  unfold vlt at h1 h2
  simp only [Bool.or_eq_false_iff, Bool.and_eq_false_iff, beq_eq_false_iff_ne, ne_eq,
    decide_eq_false_iff_not, Nat.not_lt] at h1 h2
  obtain ⟨h1a, h1b⟩ := h1
  obtain ⟨h2a, h2b⟩ := h2
  have hu : a.user = b.user := by
    cases hc : decide (a.user = b.user) with
    | true => exact of_decide_eq_true hc
    | false =>
      have hne : a.user ≠ b.user := of_decide_eq_false hc
      have := bltB_total _ _ h1a hne
      rw [this] at h2a; cases h2a
  have ht : a.ts = b.ts := by
    rcases h1b with h | h
    · exact absurd hu h
    · rcases h2b with h' | h'
      · exact absurd hu.symm h'
      · omega
  cases a; cases b; simp_all

end VKey
