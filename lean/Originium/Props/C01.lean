import Originium.Model.DBProofs
import Originium.Model.DBTie
import Originium.Model.TypesTie
/-! # C01 — a read returns the latest committed write, whatever the engine did in between

`DB.run steps` executes any sequence of: commits (single- and multi-key, Set and Delete, any key and
value bytes), memtable rotations, flushes (add table / remove immutable as separate steps),
compactions of ANY subset of tables with any admissible watermark, with ANY block size for every
table that is built.  Every `Config` and every timing of the background goroutine produces one of
these sequences (configuration only decides when the steps happen and how tables are split). -/
namespace Props
open Key VKey Table Levels Compact LSM DB

/-- the most recent committed write to `k` (an entry; a tombstone if it was a Delete), `none` if never written -/
def latest (committed : List E) (k : Bytes) : Option E :=
  committed.foldl (fun acc e => if e.key.user = k then (match acc with
    | some a => if a.key.ts ≤ e.key.ts then some e else some a
    | none => some e) else acc) none

/-- In every reachable state, a Get at any read timestamp `r` not below a watermark already used
    returns the newest committed version `≤ r` — for every step sequence, key, block size, filter. -/
theorem C01_get_snapshot (mayContain : TableM → Bytes → Bool)
    (hbloom : ∀ t e, e ∈ t.entries → mayContain t e.key.user = true)
    (steps : List Step) (s : St) (hrun : DB.run steps = some s) (k : Bytes) (r : Nat) (hr : s.low ≤ r) :
    DB.get mayContain s k r = newestBrute s.committed k r :=
  get_eq_spec mayContain hbloom (inv_run hrun) k r hr

/-- the value a later transaction sees (it reads at `nextTs - 1`, which no watermark exceeds):
    `newestBrute` over everything committed, i.e. the latest committed write; the API maps a
    tombstone and "never written" to not-found (`valueOf`) -/
theorem C01_get_latest (mayContain : TableM → Bytes → Bool)
    (hbloom : ∀ t e, e ∈ t.entries → mayContain t e.key.user = true)
    (steps : List Step) (s : St) (hrun : DB.run steps = some s) (k : Bytes) :
    IsNewest s.committed k (s.nextTs - 1) (DB.get mayContain s k (s.nextTs - 1)) ∧
    (∀ e ∈ s.committed, e.key.ts ≤ s.nextTs - 1) := by
  have hinv := inv_run hrun
  have hlow : s.low ≤ s.nextTs - 1 := by have := hinv.lowBound; omega
  rw [get_eq_spec mayContain hbloom hinv k _ hlow]
  exact ⟨newestBrute_newest _ _ _, fun e he => by have := hinv.tsBound e he; omega⟩

/-- the answer does not depend on which background steps ran: two step sequences with the same
    commits (same `committed` history) give the same read results -/
theorem C01_background_invisible (mayContain : TableM → Bytes → Bool)
    (hbloom : ∀ t e, e ∈ t.entries → mayContain t e.key.user = true)
    (steps₁ steps₂ : List Step) (s₁ s₂ : St) (h₁ : DB.run steps₁ = some s₁) (h₂ : DB.run steps₂ = some s₂)
    (hc : s₁.committed = s₂.committed) (k : Bytes) (r : Nat) (hr₁ : s₁.low ≤ r) (hr₂ : s₂.low ≤ r) :
    DB.get mayContain s₁ k r = DB.get mayContain s₂ k r := by
  rw [C01_get_snapshot mayContain hbloom steps₁ s₁ h₁ k r hr₁, C01_get_snapshot mayContain hbloom steps₂ s₂ h₂ k r hr₂, hc]

/-- non-vacuity: a concrete run with two commits, a rotation, a flush and a compaction in between is enabled -/
example : (DB.run [.commit [⟨[97], [1], false⟩], .rotate, .flushAdd 1, .commit [⟨[97], [], true⟩, ⟨[98], [2], false⟩],
    .flushRemove, .compact [true] 1 8]).isSome = true := by
  decide


/-! ### The Go code itself: `DB.search`, translated from `/repo/db.go` on every run -/

/-- in every reachable state the translated `DB.search` — given the skiplist's lower bound for the memtables (C17) and
    `searchLowerBound` for the tables (C10) — returns the newest committed version at or below the read timestamp,
    whatever rotations, flushes and compactions ran in between -/
theorem C01_code_search (mayContain : TableM → Bytes → Bool)
    (hbloom : ∀ t e, e ∈ t.entries → mayContain t e.key.user = true)
    (steps : List Step) (s : St) (hrun : DB.run steps = some s) (k : Bytes) (r : Nat) (hr : s.low ≤ r) :
    GenDB.search (fun g key => g.find? (geKey vlt key)) (fun key => search mayContain s.tables key.user key.ts)
      s.mem s.imms ⟨k, r⟩ = newestBrute s.committed k r := by
  rw [DBTie.search_tie]
  exact C01_get_snapshot mayContain hbloom steps s hrun k r hr

/-- the order in which the translated code consults the generations, stated outright: the active memtable, then the
    immutable memtables newest first, then the tables; a lower bound counts only if it has the user key asked for -/
theorem C01_code_search_order (lb : List E → VK → Option E) (slb : VK → Option E) (mem : List E) (imms : List (List E)) (key : VK) :
    GenDB.search lb slb mem imms key =
      match Gens.firstHit (fun g => (lb g key).filter (fun e => e.key.user == key.user)) (mem :: imms.reverse) with
      | some x => some x
      | none => (slb key).filter (fun e => e.key.user == key.user) :=
  DBTie.search_eq lb slb mem imms key

/-- what the caller of `DB.search` gets: the translated search followed by the translated `types.Value` (`GenTypes.value`,
    regenerated from `/repo/types/types.go`) is the value of the newest committed version at or below the read timestamp, and
    "not found" when that version is a delete or there is none -/
theorem C01_code_read_value (mayContain : TableM → Bytes → Bool)
    (hbloom : ∀ t e, e ∈ t.entries → mayContain t e.key.user = true)
    (steps : List Step) (s : St) (hrun : DB.run steps = some s) (k : Bytes) (r : Nat) (hr : s.low ≤ r) :
    (GenDB.search (fun g key => g.find? (geKey vlt key)) (fun key => search mayContain s.tables key.user key.ts)
      s.mem s.imms ⟨k, r⟩).bind (fun e => GenTypes.value e.tomb e.value) = valueOf (newestBrute s.committed k r) := by
  rw [TypesTie.value_eq, C01_code_search mayContain hbloom steps s hrun k r hr]

#print axioms C01_get_snapshot
#print axioms C01_get_latest
#print axioms C01_background_invisible
#print axioms C01_code_search
#print axioms C01_code_search_order
#print axioms C01_code_read_value
end Props
