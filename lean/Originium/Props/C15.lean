import Originium.Model.SchedProofs
import Originium.Generated.LockTable
import Originium.Model.SchedObs
import Originium.Model.DBTie
/-! # C15 — every call returns: no deadlock among commits, readers, flusher and Close

`Sched.Reach cap nc nr s`: `s` is reachable with a flush queue of capacity `cap` (any value, 0 =
rendezvous), `nc` Commit calls and `nr` Begin calls issued by any number of goroutines in any
order and interleaving, one background flusher, and one Close racing all of them. -/
namespace Props
open Sched

/-- in no reachable state is anybody stuck: as long as some Begin / Commit / Close has not
    returned, some goroutine can take a step — for every queue capacity (also 0 and also a full
    queue), every number of committers and readers, every interleaving, Close included -/
theorem C15_no_stuck_state (cap nc nr : Nat) (s : St) (hr : Reach cap nc nr s) (hu : Unfinished s) :
    ∃ st s', step s st = some s' :=
  not_stuck (inv_reach hr) hu

/-- no schedule runs forever: every step strictly decreases a variant bounded by the workload, so
    every call returns after at most `10·nc + 2·nr + 5` further steps of the whole system -/
theorem C15_progress (s s' : St) (st : Step) (hs : step s st = some s') : Sched.measure s' < Sched.measure s :=
  step_decreases st hs

theorem C15_bound (cap nc nr : Nat) : Sched.measure (init cap nc nr) = 10 * nc + 2 * nr + 5 := by
  simp [Sched.measure, init, wL, wF, wCl]

/-- when Close has returned the flusher has received the close signal and nobody is inside the commit region;
    together with `fExit`: the flusher has exited before `<-db.closed` returned -/
theorem C15_close (cap nc nr : Nat) (s : St) (hr : Reach cap nc nr s) (hc : s.cl = ClPc.done) :
    s.fClosed = true ∧ s.cLocked = none := by
  have h := inv_reach hr
  refine ⟨h.clF (Or.inr (Or.inr hc)), ?_⟩
  cases hl : s.cLocked with
  | none => rfl
  | some x => rcases h.commCl (by rw [hl]; rfl) with h1 | h1 <;> rw [hc] at h1 <;> cases h1

/-- Close waits for the flusher: it passes `<-db.closed` only after the run loop has exited -/
theorem C15_close_waits (s s' : St) (hs : step s .clClosed = some s') : s.f = FPc.exited := by
  simp only [step] at hs
  split at hs
  · rename_i hc; exact hc.2
  · cases hs

/-- a committer blocked on a full queue holds only `writeLock`: the flusher (which never takes
    `writeLock`) can always drain the queue — the enabled step the theorem exhibits in that situation -/
theorem C15_full_queue_drains (s : St) (_h : Inv s) (hl : s.cLocked = some LPc.sending) (hf : s.f = FPc.select)
    (hq : 0 < s.q) : ∃ s', step s .fRecv = some s' := by
  simp only [step, hf, hq, and_self, ↓reduceIte]
  exact ⟨_, rfl⟩

/-- the pinned protocol (Close does not take writeLock; the run loop exits on the close signal when
    the queue is momentarily empty): with a rendezvous queue a committer that is about to send is
    left behind for ever — a reachable stuck state of the *old* model, by direct computation -/
theorem C15_old_close_stuck :
    let stuck : St := { cap := 0, cIdle := 0, cWant := 0, cLocked := some LPc.sending, cDone := 0, rIdle := 0, rWait := [], rDone := 0, f := FPc.exited, fClosed := true, cl := ClPc.done, dbClosed := true, q := 0, commitMark := 0, nextTs := 2 }
    Unfinished stuck ∧ ∀ st, step stuck st = none := by
  refine ⟨Or.inr (Or.inl rfl), ?_⟩
  intro st
  cases st <;> simp [step, lockFree, closerHolds]


/-! ## the atomicity assumption of the blocking model, checked against the source on every run

`Sched` treats every section under `DB.mu`, `memtable.mu`, `levelManager.mu`, `WAL.mu` and the
oracle mutex as an atomic step.  That is sound when (1) none of these locks is ever held at a point
where the goroutine waits for *another goroutine's progress* (channel send / receive,
`WaitForMark`) — only `oracle.writeLock` may be, and the model has it — and (2) they are acquired
in one fixed order, so sections under them cannot wait for each other in a cycle.  Both are
decided by kernel evaluation over `LockTable.brows`, the table of all potentially blocking
operations with the locks held there, regenerated from `/repo` by the extractor. -/

def isWait (r : LockTable.BRow) : Bool := r.kind == "send" || r.kind == "recv" || r.kind == "wait"
def isAcquire (r : LockTable.BRow) : Bool := r.kind == "lock" || r.kind == "rlock"

/-- the fixed acquisition order; a lock the theorem does not know has no rank at all -/
def lockRank (l : String) : Option Nat :=
  if l == "oracle.writeLock" then some 0
  else if l == "DB.mu" then some 1
  else if l == "memtable.mu" then some 2
  else if l == "levelManager.mu" then some 2
  else if l == "WAL.mu" then some 3
  else if l == "oracle.Mutex" then some 3
  else none

def waitsOk (rs : List LockTable.BRow) : Bool :=
  rs.all fun r => !isWait r || r.held.all fun l => l.1 == "oracle.writeLock"

def orderOk (rs : List LockTable.BRow) : Bool :=
  rs.all fun r => !isAcquire r ||
    match lockRank r.obj with
    | none => false
    | some k => r.held.all fun l => match lockRank l.1 with
      | some j => decide (j < k)
      | none => false

/-- wherever a goroutine can wait for another one's progress it holds no lock except `writeLock` -/
theorem C15_waits_hold_only_writeLock : waitsOk LockTable.brows = true := by decide +kernel

/-- every lock acquisition respects the order writeLock < DB.mu < {memtable.mu, levelManager.mu} < {WAL.mu, oracle mutex} -/
theorem C15_lock_order : orderOk LockTable.brows = true := by decide +kernel

/-- the table is not empty: the three channel operations of the close / flush protocol and the
    commit-mark wait of Begin are in it -/
theorem C15_block_table_nontrivial :
    (LockTable.brows.any fun r => r.kind == "send" && r.obj == "DB.flushC") = true ∧
    (LockTable.brows.any fun r => r.kind == "send" && r.obj == "DB.closeC") = true ∧
    (LockTable.brows.any fun r => r.kind == "recv" && r.obj == "DB.closed") = true ∧
    (LockTable.brows.any fun r => r.kind == "wait") = true ∧
    (LockTable.brows.any fun r => r.kind == "lock" && r.obj == "DB.mu" && !r.held.isEmpty) = true := by decide +kernel


/-! ## real executions are executions of the blocking model

The `closerace` suite records the lock-region events of real concurrent runs (writers outrunning a
slowed flusher, Close fired while they run) and the driver follows them in `Sched` with
`Sched.follow` (subset construction over the hidden steps).  An empty set of explaining states is
reported as a violation; as long as it is not empty, every state in it is reachable — so what the
theorems above say about reachable states holds for the execution that was observed. -/

theorem C15_observed_runs_are_model_runs (cap nc : Nat) (os : List Sched.Obs) :
    ∀ s ∈ Sched.followAll 64 (Sched.startCalled 64 cap nc) os, Reach cap nc 0 s :=
  Sched.followAll_sound 64 os _ (Sched.startCalled_sound 64 cap nc)

/-- what the follower refuses, on two executions of the kind the pinned tree produced: Close passing
    `<-db.closed` while a rotated memtable has not been flushed (F12), and Close taking `writeLock`
    while a committer is inside the region (F13) -/
theorem C15_follower_rejects :
    Sched.followAll 64 (Sched.startCalled 64 0 1) [.clock, .capply true, .cfin, .cllock, .cldrained] = [] ∧
    Sched.followAll 64 (Sched.startCalled 64 1 1) [.clock, .cllock] = [] ∧
    (Sched.followAll 64 (Sched.startCalled 64 0 1) [.clock, .capply true, .cfin, .cllock, .fdone, .cldrained, .cldone]).isEmpty = false := by
  decide +kernel

/-- non-vacuity: a run with a zero-capacity queue in which a commit rotates, a reader begins meanwhile, Close races both, and everything finishes -/
example : ∃ s, Reach 0 1 1 s ∧ s.cl = ClPc.done ∧ s.cDone = 1 ∧ s.rDone = 1 := by
  have h : (runSteps [.cCall, .cLock true, .rCall, .clCall, .cApply, .cSend, .cFinish, .rWake 0, .fDone,
      .clLock, .fRecvClose, .clClosed, .clFinish] (init 0 1 1)).isSome = true := by decide
  obtain ⟨s, hs⟩ := Option.isSome_iff_exists.mp h
  refine ⟨s, reach_run _ s hs, ?_⟩
  have : (runSteps [.cCall, .cLock true, .rCall, .clCall, .cApply, .cSend, .cFinish, .rWake 0, .fDone,
      .clLock, .fRecvClose, .clClosed, .clFinish] (init 0 1 1)).map (fun s => (s.cl, s.cDone, s.rDone)) = some (ClPc.done, 1, 1) := by decide
  rw [hs] at this
  simp only [Option.map_some, Option.some.injEq, Prod.mk.injEq] at this
  exact this


/-- the Go code itself (`DB.rawset`, translated on every run): the frozen memtable is sent to the flusher — the only
    operation of a committer that can wait for the flusher — after `db.mu` has been released, never between
    `db.mu.Lock` and `db.mu.Unlock` (the flusher needs `db.mu` to remove what it flushed) -/
theorem C15_code_send_outside_dbmu (size threshold : Nat) (h : threshold ≤ size) :
    GenDB.rawset size threshold [] =
      ["memtable.set batch", "memtable.freeze", "db.mu.Lock", "immutables.PushBack", "memtable = reset", "db.mu.Unlock", "flushC <- imt"] := by
  rw [DBTie.rawset_table, if_pos h]


/-- the Go code itself (the two cases of the select in `DB.run` and `DB.Close`, translated on every run): the flusher leaves
    its loop only after the close signal and with an empty queue — so `<-db.closed` in Close returns only when every
    queued memtable is flushed — and each round of the loop releases `db.mu` before it ends -/
theorem C15_code_flusher_loop (closed : Bool) (queued : Nat) :
    ((GenDB.runFlush closed queued []).1 = true → closed = true ∧ queued = 0) ∧
    ((GenDB.runClose closed queued []).1 = true → queued = 0) ∧
    (GenDB.runClose closed queued []).2.1 = true ∧
    (GenDB.runFlush closed queued []).2.2 = ["flushImmutable", "checkAndCompact", "db.mu.Lock", "immutables.Remove Front", "db.mu.Unlock"] := by
  refine ⟨(DBTie.run_exit closed queued).1, (DBTie.run_exit closed queued).2, ?_, ?_⟩
  · rw [DBTie.runClose_table]
  · rw [DBTie.runFlush_table]

#print axioms C15_no_stuck_state
#print axioms C15_waits_hold_only_writeLock
#print axioms C15_lock_order
#print axioms C15_block_table_nontrivial
#print axioms C15_observed_runs_are_model_runs
#print axioms C15_follower_rejects
#print axioms C15_progress
#print axioms C15_bound
#print axioms C15_close
#print axioms C15_close_waits
#print axioms C15_full_queue_drains
#print axioms C15_old_close_stuck
#print axioms C15_code_send_outside_dbmu
#print axioms C15_code_flusher_loop
end Props
